(* Every string of the serialization model is valid UTF-8 on an accepted image, hence the printed text is
   valid UTF-8 (RFC 8259 section 8.1).  This also covers the two `from_utf8_unchecked` of the serialized
   path: CodeView::format (the signature bytes are "NB10" / "RSDS") and the ASCII runs of CStr's Display. *)
From Coq Require Import Strings.String.
From PV.Model Require Import JsonStr.
From PV.Model Require Import Machine Mapping Views Headers Wrap WrapDirs Json WrapStrTab WrapJson.
From PV.Model Require Exports Imports Dirs Relocs Rich CStrFmt.
From PV.gen Require Import Layout.
From PV.Spec Require Import HeaderSpec WrapSpec.
From PV.Proofs Require Import BaseProofs HeadersProofs WrapProofs WrapDirsProofs JsonProofs JsonUtf8Proofs WrapJsonProofs.
From PV.Proofs Require CStrFmtProofs.
Ltac Zify.zify_post_hook ::= Z.div_mod_to_equations.

Ltac lit := apply utf8_valid_iff; vm_compute; reflexivity.
(* the same, but only on a literal list of numerals (vm_compute on an open term may not come back) *)
Ltac is_pos p := lazymatch p with xH => idtac | xO ?q => is_pos q | xI ?q => is_pos q end.
Ltac is_lit l := lazymatch l with
  | @nil _ => idtac
  | @cons _ ?x ?t => (lazymatch x with N0 => idtac | Npos ?p => is_pos p end); is_lit t
  end.
Ltac tlit := lazymatch goal with |- utf8 ?l => is_lit l; lit end.
(* an object / array literal: keys are closed strings, numbers carry no string *)
Ltac ju := cbn [json_utf8 jn8 jn16 jn32 jn64 jopt]; repeat match goal with |- _ /\ _ => split end; try exact I.

Lemma utf8_nums l : json_utf8 (JArr (map JNum l)).
Proof. apply json_utf8_arr. apply Forall_forall. intros x Hx. apply in_map_iff in Hx as (n & <- & _). exact I. Qed.
Lemma utf8_arr_map {A} (g : A -> json) l : (forall x, In x l -> json_utf8 (g x)) -> json_utf8 (JArr (map g l)).
Proof. intros H. apply json_utf8_arr. apply Forall_forall. intros x Hx. apply in_map_iff in Hx as (a & <- & Ha). apply H. exact Ha. Qed.
Lemma utf8_jver a b : json_utf8 (jver a b).
Proof.
  unfold jver. cbn [json_utf8]. apply utf8_ascii. apply Forall_app. split; [apply print_num_ascii|].
  constructor; [lia|apply print_num_ascii].
Qed.
Lemma utf8_jopt {A} (to : A -> json) o : (forall x, o = Some x -> json_utf8 (to x)) -> json_utf8 (jopt to o).
Proof. destruct o; cbn [jopt]; intros H; [apply H; reflexivity|exact I]. Qed.

(* ---- the generated string tables ---- *)
Definition tab_ok (tab : list (N * list N)) : bool := forallb (fun kv => utf8_valid (snd kv)) tab.
Definition ftab_ok (tab : list (list N)) : bool := forallb utf8_valid tab.
Lemma tabs_ok : tab_ok tab_Machine = true /\ tab_ok tab_OptionalMagic = true /\ tab_ok tab_Subsystem = true /\
  tab_ok tab_DirectoryEntry = true /\ tab_ok tab_DebugType = true /\
  ftab_ok tab_FileChars = true /\ ftab_ok tab_DllChars = true /\ ftab_ok tab_SectionChars = true.
Proof. vm_compute. repeat split; reflexivity. Qed.
Lemma utf8_jenum tab x : tab_ok tab = true -> json_utf8 (jenum tab x).
Proof.
  intros H. unfold jenum. apply utf8_jopt. intros s Hs. cbn [json_utf8]. apply utf8_valid_iff.
  unfold tab_ok in H. rewrite forallb_forall in H.
  induction tab as [|[k v] t IH]; cbn [tab_find] in Hs; [discriminate|].
  destruct (k =? x).
  - injection Hs as <-. apply (H (k, v)). left. reflexivity.
  - apply IH; [intros y Hy; apply H; right; exact Hy|exact Hs].
Qed.
Lemma utf8_jflags tab x : ftab_ok tab = true -> json_utf8 (jflags tab x).
Proof.
  intros H. unfold jflags. apply utf8_arr_map. intros s Hs. cbn [json_utf8]. apply utf8_valid_iff.
  unfold ftab_ok in H. rewrite forallb_forall in H. apply H.
  unfold flag_strs in Hs. apply in_flat_map in Hs as (i & _ & Hi).
  destruct (N.testbit x (N.of_nat i)); [|contradiction].
  destruct (nth_error tab i) as [s'|] eqn:E; [|contradiction]. destruct Hi as [<-|[]]. apply nth_error_In in E. exact E.
Qed.

(* ---- headers ---- *)
Lemma utf8_json_sec_name name : json_utf8 (json_sec_name name).
Proof.
  unfold json_sec_name. destruct (utf8_valid (trimn name)) eqn:E; [cbn [json_utf8]; apply utf8_valid_iff; exact E|apply utf8_nums].
Qed.
Lemma utf8_json_headers f m jh : json_headers f m = Ok jh -> json_utf8 jh.
Proof.
  destruct tabs_ok as (T1 & T2 & T3 & T4 & T5 & F1 & F2 & F3).
  unfold json_headers, json_details. rewrite details_eq_accessor. cbn [bind]. intros H. injection H as <-.
  cbn [json_utf8]. split; [lit|]. split.
  { unfold json_dos. ju; try tlit; apply utf8_nums || (apply utf8_arr_map; intros; exact I). }
  split; [lit|]. split.
  { unfold json_nt_headers. ju; try tlit.
    - unfold json_file_header. ju; tlit.
    - unfold json_optional_header, jver8_at, jver16_at. destruct (f_64 f); ju; try tlit; apply utf8_jver. }
  split; [lit|]. split.
  { unfold json_data_directory. apply utf8_arr_map. intros d _. unfold json_data_dir. ju; tlit. }
  split; [lit|]. split.
  { unfold json_section_headers. apply utf8_arr_map. intros i _. unfold json_section. ju; try tlit. apply utf8_json_sec_name. }
  split; [lit|]. split; [|exact I].
  ju; try tlit.
  - apply utf8_jenum; exact T1.
  - apply utf8_jflags; exact F1.
  - apply utf8_jenum; exact T2.
  - apply utf8_jenum; exact T3.
  - apply utf8_jflags; exact F2.
  - apply utf8_arr_map. intros i _. apply utf8_jenum; exact T4.
  - apply utf8_arr_map. intros o _. destruct o; exact I.
  - apply utf8_arr_map. intros i _. apply utf8_jflags; exact F3.
Qed.

(* ---- C strings through Display: ASCII ---- *)
Lemma split_f_forall p : forall l s r, CStrFmt.split_f p l = (s, r) -> Forall (fun x => p x = false) s /\ l = s ++ r.
Proof.
  induction l as [|b t IH]; intros s r H; cbn [CStrFmt.split_f] in H.
  - injection H as <- <-. split; [constructor|reflexivity].
  - destruct (p b) eqn:E.
    + injection H as <- <-. split; [constructor|reflexivity].
    + destruct (CStrFmt.split_f p t) as [s' r'] eqn:E2. injection H as <- <-. destruct (IH s' r' eq_refl) as [F ->].
      split; [constructor; assumption|reflexivity].
Qed.
Lemma hexdig_ascii d : d < 16 -> CStrFmt.hexdig d < 128.
Proof. unfold CStrFmt.hexdig. destruct (d <? 10); lia. Qed.
Lemma esc_hex_ascii s : Forall (fun b => b < 256) s -> Forall (fun b => b < 128) (flat_map CStrFmt.esc_hex s).
Proof.
  induction 1 as [|b s Hb _ IH]; cbn [flat_map]; [constructor|]. unfold CStrFmt.esc_hex. cbn [app].
  repeat constructor; try lia; try (apply hexdig_ascii; lia). exact IH.
Qed.
Lemma display_loop_ascii : forall fuel bytes out, Forall (fun b => b < 256) bytes ->
  CStrFmt.display_loop fuel bytes = Ok out -> Forall (fun b => b < 128) out.
Proof.
  induction fuel as [|k IH]; intros bytes out Hb H; [discriminate|]. cbn [CStrFmt.display_loop] in H.
  destruct bytes as [|b t]; [injection H as <-; constructor|].
  destruct (b <? 128).
  - destruct (CStrFmt.split_f (fun x => 128 <=? x) (b :: t)) as [s tail] eqn:E. apply split_f_forall in E as [Fs Eq].
    apply bind_ok_inv in H as (r & Hr & H). injection H as <-. rewrite Eq in Hb. apply Forall_app in Hb as [_ Ht].
    apply Forall_app. split; [eapply Forall_impl; [|exact Fs]; cbv beta; intros; lia|exact (IH _ _ Ht Hr)].
  - destruct (CStrFmt.split_f (fun x => x <? 128) (b :: t)) as [s tail] eqn:E. apply split_f_forall in E as [Fs Eq].
    apply bind_ok_inv in H as (r & Hr & H). injection H as <-. rewrite Eq in Hb. apply Forall_app in Hb as [Hs Ht].
    apply Forall_app. split; [apply esc_hex_ascii; exact Hs|exact (IH _ _ Ht Hr)].
Qed.
Lemma utf8_jcstr bytes j : Forall (fun b => b < 256) bytes -> jcstr bytes = Ok j -> json_utf8 j.
Proof.
  intros Hb H. unfold jcstr in H. apply bind_ok_inv in H as (s & Hs & H). injection H as <-. cbn [json_utf8].
  apply utf8_ascii. exact (display_loop_ascii _ _ _ Hb Hs).
Qed.
Lemma bytes_of_lt get off n : (forall i, get i < 256) -> Forall (fun b => b < 256) (Exports.bytes_of get off n).
Proof. intros H. unfold Exports.bytes_of. apply Forall_forall. intros x Hx. apply in_map_iff in Hx as (k & <- & _). apply H. Qed.

Lemma map_res_forall {A B} (g : A -> res B) (P : B -> Prop) l ys :
  (forall x y, In x l -> g x = Ok y -> P y) -> map_res g l = Ok ys -> Forall P ys.
Proof.
  revert ys. induction l as [|x l IH]; intros ys HP H; cbn [map_res] in H; [injection H as <-; constructor|].
  apply bind_ok_inv in H as (y & Hy & H). apply bind_ok_inv in H as (rest & Hrest & H). injection H as <-.
  constructor; [apply (HP x y); [left; reflexivity|exact Hy]|apply IH; [intros x' y' Hin; apply HP; right; exact Hin|exact Hrest]].
Qed.
Lemma jopt_res_utf8 {A} (to : A -> res json) o j : (forall x y, o = Some x -> to x = Ok y -> json_utf8 y) -> jopt_res to o = Ok j -> json_utf8 j.
Proof. destruct o as [x|]; cbn [jopt_res]; intros HP H; [apply (HP x j eq_refl H)|injection H as <-; exact I]. Qed.

(* ---- base64, hex ---- *)
Lemma b64c_ascii x : b64c x < 128.
Proof. unfold b64c. destruct (x <? 26) eqn:A; [lia|]. destruct (x <? 52) eqn:B; [lia|]. destruct (x <? 62) eqn:C; [lia|]. destruct (x =? 62); lia. Qed.
Lemma base64_ascii : forall n l, (length l <= n)%nat -> Forall (fun b => b < 128) (base64 l).
Proof.
  induction n as [|n IH]; intros l Hl.
  - destruct l; [constructor|cbn [length] in Hl; lia].
  - destruct l as [|a [|b [|c t]]]; cbn [base64].
    + constructor.
    + repeat constructor; try apply b64c_ascii; lia.
    + repeat constructor; try apply b64c_ascii; lia.
    + repeat (constructor; [apply b64c_ascii|]). apply IH. cbn [length] in Hl. lia.
Qed.
Lemma utf8_base64 l : utf8 (base64 l).
Proof. apply utf8_ascii. apply (base64_ascii (length l)). lia. Qed.
Lemma hexn_ascii : forall n x, Forall (fun b => b < 128) (hexn n x).
Proof.
  induction n as [|n IH]; intros x; cbn [hexn]; [constructor|]. apply Forall_app. split; [apply IH|].
  constructor; [apply hexd_ascii; lia|constructor].
Qed.
Lemma guid_ascii get o : Forall (fun b => b < 128) (guid_str get o).
Proof.
  assert (L : forall c, c < 128 -> Forall (fun b => b < 128) [c]) by (intros c Hc; repeat constructor; exact Hc).
  unfold guid_str.
  apply Forall_app; split; [apply L; lia|]. apply Forall_app; split; [apply hexn_ascii|].
  apply Forall_app; split; [apply L; lia|]. apply Forall_app; split; [apply hexn_ascii|].
  apply Forall_app; split; [apply L; lia|]. apply Forall_app; split; [apply hexn_ascii|].
  apply Forall_app; split; [apply L; lia|]. apply Forall_app; split; [apply hexn_ascii|].
  apply Forall_app; split; [apply hexn_ascii|]. apply Forall_app; split; [apply L; lia|].
  apply Forall_app; split; [|apply L; lia].
  apply Forall_forall. intros x Hx. apply in_flat_map in Hx as (k & _ & Hk). revert x Hk. apply Forall_forall. apply hexn_ascii.
Qed.

(* ---- exports, imports ---- *)
Lemma utf8_json_by v x t j : (forall i, v_get v i < 256) -> json_by v x t = Ok j -> json_utf8 j.
Proof.
  intros Hg H. pose proof H as H0. unfold json_by in H. cbv zeta in H.
  apply bind_ok_inv in H as (dll & Hdll & H). apply bind_ok_inv in H as (jdll & Hjdll & H).
  apply bind_ok_inv in H as (names & Hnames & H). injection H as <-.
  ju; try tlit.
  - refine (jopt_res_utf8 _ _ _ _ Hjdll). intros b y -> Hy. apply ok_inv in Hdll.
    refine (utf8_jcstr b y _ Hy). unfold Exports.view_cstr, Exports.cstr_of in Hdll. apply bind_ok_inv in Hdll as (r & _ & Hr).
    injection Hr as <-. apply bytes_of_lt. exact Hg.
  - apply utf8_jver.
  - apply utf8_nums.
  - apply json_utf8_obj. apply Forall_forall. intros [k v0] Hkv. cbn [fst snd].
    destruct (export_names_sound _ _ Hnames k v0 Hkv) as (ix & -> & _ & U). split; [apply utf8_valid_iff; exact U|exact I].
Qed.
Lemma utf8_json_exports f file m j : mem_ok m -> json_exports f file m = Ok j -> json_utf8 j.
Proof.
  intros Hm H. unfold json_exports in H. apply bind_ok_inv in H as (ox & _ & H).
  refine (jopt_res_utf8 _ _ _ _ H). intros x y _ Hy. apply bind_ok_inv in Hy as (ot & _ & Hy).
  refine (jopt_res_utf8 _ _ _ _ Hy). intros t z _ Hz. exact (utf8_json_by (pe_view f file m) _ _ _ Hm Hz).
Qed.

Lemma utf8_json_import get i j : (forall i, get i < 256) -> json_import get i = Ok j -> json_utf8 j.
Proof.
  intros Hg H. destruct i as [h name|o]; cbn [json_import] in H.
  - apply bind_ok_inv in H as (s & Hs & H). injection H as <-. ju; try tlit.
    refine (utf8_jcstr _ _ _ Hs). apply bytes_of_lt. exact Hg.
  - injection H as <-. ju; tlit.
Qed.
Lemma utf8_json_int get : (forall i, get i < 256) -> forall l js, json_int get l = Ok js -> Forall json_utf8 js.
Proof.
  intros Hg. induction l as [|r l IH]; intros js H; cbn [json_int] in H; [injection H as <-; constructor|].
  destruct r as [i|e|x]; [|apply IH; exact H|discriminate].
  apply bind_ok_inv in H as (j & Hj & H). apply bind_ok_inv in H as (rest & Hrest & H). injection H as <-.
  constructor; [exact (utf8_json_import get i j Hg Hj)|apply IH; exact Hrest].
Qed.
Lemma utf8_json_desc p d j : (forall i, Imports.p_get p i < 256) -> json_desc p d = Ok j -> json_utf8 j.
Proof.
  intros Hg H. unfold json_desc in H. cbv zeta in H.
  apply bind_ok_inv in H as (dn & _ & H). apply bind_ok_inv in H as (jdn & Hjdn & H).
  apply bind_ok_inv in H as (oi & _ & H). apply bind_ok_inv in H as (ji & Hji & H). injection H as <-.
  ju; try tlit.
  - refine (jopt_res_utf8 _ _ _ _ Hjdn). intros r y _ Hy. refine (utf8_jcstr _ _ _ Hy). apply bytes_of_lt. exact Hg.
  - refine (jopt_res_utf8 _ _ _ _ Hji). intros r y _ Hy. apply bind_ok_inv in Hy as (l & Hl & Hy). injection Hy as <-.
    apply json_utf8_arr. exact (utf8_json_int _ Hg _ _ Hl).
Qed.
Lemma utf8_json_imports f file m j : mem_ok m -> json_imports f file m = Ok j -> json_utf8 j.
Proof.
  intros Hm H. unfold json_imports in H. cbv zeta in H. apply bind_ok_inv in H as (oi & _ & H).
  refine (jopt_res_utf8 _ _ _ _ H). intros r y _ Hy. apply bind_ok_inv in Hy as (l & Hl & Hy). injection Hy as <-.
  apply json_utf8_arr. refine (map_res_forall _ _ _ _ _ Hl). intros d y _ Hy. exact (utf8_json_desc (pe_of f file m) d y Hm Hy).
Qed.

(* ---- debug: the signature a CodeView entry was recognised by is what `format()` reinterprets as a str ---- *)
Lemma sig_bytes get o sig b0 b1 b2 b3 : (forall i, get i < 256) -> Dirs.u32at get o = sig ->
  sig = b0 + 256 * (b1 + 256 * (b2 + 256 * b3)) -> b0 < 256 -> b1 < 256 -> b2 < 256 -> b3 < 256 ->
  Exports.bytes_of get o 4 = [b0; b1; b2; b3].
Proof.
  intros Hg Hs -> H0 H1 H2 H3. unfold Dirs.u32at in Hs. cbn [le_value] in Hs.
  pose proof (Hg o). pose proof (Hg (o + 1)). pose proof (Hg (o + 1 + 1)). pose proof (Hg (o + 1 + 1 + 1)).
  unfold Exports.bytes_of. change (N.to_nat 4) with 4%nat. cbn [seq map].
  replace (o + N.of_nat 0) with o by lia. replace (o + N.of_nat 1) with (o + 1) by lia.
  replace (o + N.of_nat 2) with (o + 1 + 1) by lia. replace (o + N.of_nat 3) with (o + 1 + 1 + 1) by lia.
  assert (get o = b0 /\ get (o + 1) = b1 /\ get (o + 1 + 1) = b2 /\ get (o + 1 + 1 + 1) = b3) as (-> & -> & -> & ->) by lia.
  reflexivity.
Qed.
Lemma code_view_sig v d e : Dirs.dir_entry v d = Ok e ->
  match e with
  | Dirs.ECv20 img _ => Dirs.u32at (v_get v) img = Dirs.SIG_NB10
  | Dirs.ECv70 img _ => Dirs.u32at (v_get v) img = Dirs.SIG_RSDS
  | _ => True
  end.
Proof.
  unfold Dirs.dir_entry. destruct (Dirs.dd_type d =? 2).
  - unfold Dirs.code_view. destruct (Dirs.dir_data v d) as [b|]; [|discriminate]. destruct (r_len b <? 16); [discriminate|].
    destruct (negb _); [discriminate|].
    destruct (Dirs.u32at (v_get v) (r_off b) =? Dirs.SIG_NB10) eqn:E1.
    + destruct (Dirs.cstr_from_bytes _ _ _); [|discriminate].
      intros H. injection H as <-. apply N.eqb_eq. exact E1.
    + destruct (Dirs.u32at (v_get v) (r_off b) =? Dirs.SIG_RSDS) eqn:E2; [|discriminate].
      destruct (r_len b <? 24); [discriminate|]. destruct (Dirs.cstr_from_bytes _ _ _); [|discriminate].
      intros H. injection H as <-. apply N.eqb_eq. exact E2.
  - destruct (Dirs.dd_type d =? 4).
    + unfold Dirs.dbg_entry. destruct (Dirs.dir_data v d) as [b|]; [|discriminate]. destruct (_ <? _); [discriminate|].
      destruct (negb _); [discriminate|]. intros H. injection H as <-. exact I.
    + destruct (Dirs.dd_type d =? 13).
      * unfold Dirs.pgo_entry. destruct (Dirs.dir_data v d) as [b|]; [|discriminate]. destruct (_ <? _); [discriminate|].
        destruct (negb _); [discriminate|]. intros H. injection H as <-. exact I.
      * intros H. injection H as <-. exact I.
Qed.
Lemma utf8_json_entry v d e j : (forall i, v_get v i < 256) -> Dirs.dir_entry v d = Ok e ->
  json_entry (v_get v) e = Ok j -> json_utf8 j.
Proof.
  intros Hg He H. pose proof (code_view_sig v d e He) as S.
  destruct e as [img name|img name|img|image|[r|]]; cbn [json_entry] in H.
  - apply bind_ok_inv in H as (n & Hn & H). injection H as <-.
    rewrite (sig_bytes (v_get v) img Dirs.SIG_NB10 78 66 49 48 Hg S) by (try reflexivity; lia).
    ju; try tlit. refine (utf8_jcstr _ _ _ Hn). apply bytes_of_lt. exact Hg.
  - apply bind_ok_inv in H as (n & Hn & H). injection H as <-.
    rewrite (sig_bytes (v_get v) img Dirs.SIG_RSDS 82 83 68 83 Hg S) by (try reflexivity; lia).
    ju; try tlit; [refine (utf8_jcstr _ _ _ Hn); apply bytes_of_lt; exact Hg|apply utf8_ascii, guid_ascii].
  - injection H as <-. exact I.
  - apply bind_ok_inv in H as (items & _ & H). apply bind_ok_inv in H as (l & Hl & H). injection H as <-.
    apply json_utf8_arr. refine (map_res_forall _ _ _ _ _ Hl). intros it y _ Hy. unfold json_pgo_item in Hy.
    apply bind_ok_inv in Hy as (n & Hn & Hy). injection Hy as <-. ju; try tlit.
    refine (utf8_jcstr _ _ _ Hn). apply bytes_of_lt. exact Hg.
  - injection H as <-. apply utf8_nums.
  - injection H as <-. exact I.
Qed.
Lemma utf8_json_debug f file m j : mem_ok m -> json_debug f file m = Ok j -> json_utf8 j.
Proof.
  destruct tabs_ok as (_ & _ & _ & _ & T5 & _).
  intros Hm H. unfold json_debug in H. cbv zeta in H. apply bind_ok_inv in H as (od & _ & H).
  refine (jopt_res_utf8 _ _ _ _ H). intros r y _ Hy. apply bind_ok_inv in Hy as (l & Hl & Hy). injection Hy as <-.
  apply json_utf8_arr. refine (map_res_forall _ _ _ _ _ Hl). intros d y _ Hy. unfold json_dir in Hy. cbv zeta in Hy.
  apply bind_ok_inv in Hy as (oe & Hoe & Hy). apply bind_ok_inv in Hy as (je & Hje & Hy). injection Hy as <-.
  ju; try tlit.
  - apply utf8_jenum. exact T5.
  - apply utf8_jver.
  - refine (jopt_res_utf8 _ _ _ _ Hje). intros e z -> Hz. apply ok_inv in Hoe.
    exact (utf8_json_entry (pe_view f file m) d e z Hm Hoe Hz).
Qed.

(* ---- the remaining groups ---- *)
Lemma utf8_json_rich m j : json_rich m = Ok j -> json_utf8 j.
Proof.
  unfold json_rich. cbv zeta. intros H. apply bind_ok_inv in H as (ose & _ & H). injection H as <-.
  apply utf8_jopt. intros se _. ju; try tlit. apply utf8_arr_map. intros r _. unfold json_rich_record. ju; tlit.
Qed.
Lemma utf8_json_base_relocs f file m j : json_base_relocs f file m = Ok j -> json_utf8 j.
Proof.
  unfold json_base_relocs. intros H. apply bind_ok_inv in H as (o & _ & H).
  refine (jopt_res_utf8 _ _ _ _ H). intros r y _ Hy. apply bind_ok_inv in Hy as (bs & _ & Hy). injection Hy as <-.
  ju; try tlit; (apply utf8_arr_map; intros; exact I).
Qed.
Lemma utf8_json_tls f file m j : json_tls f file m = Ok j -> json_utf8 j.
Proof.
  unfold json_tls. cbv zeta. intros H. apply bind_ok_inv in H as (o & _ & H).
  refine (jopt_res_utf8 _ _ _ _ H). intros t y _ Hy. apply bind_ok_inv in Hy as (ord & _ & Hy). apply bind_ok_inv in Hy as (ocb & _ & Hy).
  injection Hy as <-. ju; try tlit.
  - apply utf8_jopt. intros r _. cbn [json_utf8]. apply utf8_base64.
  - apply utf8_jopt. intros r _. apply utf8_nums.
Qed.
Lemma utf8_json_load_config f file m j : json_load_config f file m = Ok j -> json_utf8 j.
Proof.
  unfold json_load_config. cbv zeta. intros H. apply bind_ok_inv in H as (o & _ & H).
  refine (jopt_res_utf8 _ _ _ _ H). intros t y _ Hy. apply bind_ok_inv in Hy as (oc & _ & Hy). apply bind_ok_inv in Hy as (os & _ & Hy).
  injection Hy as <-. ju; try tlit.
  - apply utf8_jopt. intros r _. exact I.
  - apply utf8_jopt. intros r _. apply utf8_nums.
Qed.
Lemma utf8_json_security f file m j : json_security f file m = Ok j -> json_utf8 j.
Proof.
  unfold json_security. cbv zeta. intros H. apply bind_ok_inv in H as (o & _ & H).
  refine (jopt_res_utf8 _ _ _ _ H). intros r y _ Hy. apply bind_ok_inv in Hy as (data & _ & Hy). injection Hy as <-.
  ju; try tlit. apply utf8_base64.
Qed.

(* ---- the whole tree, and the text ---- *)
Theorem json_of_image_utf8 f file m j : mem_ok m -> json_of_image f file m = Ok j -> json_utf8 j.
Proof.
  intros Hm H. unfold json_of_image in H.
  apply bind_ok_inv in H as (jh & Hh & H). apply bind_ok_inv in H as (jr & Hr & H). apply bind_ok_inv in H as (je & He & H).
  apply bind_ok_inv in H as (ji & Hi & H). apply bind_ok_inv in H as (jb & Hb & H). apply bind_ok_inv in H as (jd & Hd & H).
  apply bind_ok_inv in H as (jt & Ht & H). apply bind_ok_inv in H as (jl & Hl & H). apply bind_ok_inv in H as (js & Hs & H).
  injection H as <-. cbn [json_utf8].
  split; [lit|]. split; [exact (utf8_json_headers f m jh Hh)|].
  split; [lit|]. split; [exact (utf8_json_rich m jr Hr)|].
  split; [lit|]. split; [exact (utf8_json_exports f file m je Hm He)|].
  split; [lit|]. split; [exact (utf8_json_imports f file m ji Hm Hi)|].
  split; [lit|]. split; [exact (utf8_json_base_relocs f file m jb Hb)|].
  split; [lit|]. split; [exact (utf8_json_debug f file m jd Hm Hd)|].
  split; [lit|]. split; [exact (utf8_json_tls f file m jt Ht)|].
  split; [lit|]. split; [exact (utf8_json_load_config f file m jl Hl)|].
  split; [lit|]. split; [exact (utf8_json_security f file m js Hs)|exact I].
Qed.

(* the text serialize produces for an accepted image is valid UTF-8 *)
Theorem wrap_json_text_utf8 m w file text : wrap_from_bytes m = Ok w -> mem_ok m ->
  wrap_json_text w file m = Ok text -> utf8_valid text = true.
Proof.
  intros Hw Hm H. unfold wrap_json_text, wrap_json in H. rewrite dispatch_fmt in H.
  apply bind_ok_inv in H as (j & Hj & H). injection H as <-.
  apply print_json_utf8_valid. exact (json_of_image_utf8 _ _ _ _ Hm Hj).
Qed.
