(* src/pe64/exports.rs Exports::is_forwarded, regenerated into gen/Leaf.v, equals Model/Exports.v is_forwarded (C08). *)
From PV.Model Require Import Machine Exports.
From PV.gen Require Import Leaf.
From PV.Proofs Require Import BaseProofs LeafBase.
Ltac Zify.zify_post_hook ::= Z.div_mod_to_equations.
(* the source may change under these proofs: a step that does not finish fails instead of hanging the build *)
Set Default Timeout 120.

(* self.datadir.VirtualAddress, self.datadir.Size, rva : u32.  The subtraction is guarded by the left operand of &&,
   so nothing can panic (this is the F6 repair; the code as it stood added VirtualAddress + Size). *)
Lemma is_forwarded_agrees : forall t rva, L_exports_Exports_is_forwarded_dom (t_dva t) (t_dsize t) rva = true ->
  L_exports_Exports_is_forwarded_ok (t_dva t) (t_dsize t) rva = true /\
  L_exports_Exports_is_forwarded (t_dva t) (t_dsize t) rva = is_forwarded t rva.
Proof.
  intros t rva _. split; [|reflexivity].
  unfold L_exports_Exports_is_forwarded_ok. destruct (t_dva t <=? rva); reflexivity.
Qed.

(* what each binder of the generated definitions stands for in the source (third audit, F2): a function that starts
   reading another field or index changes coq/gen/Leaf.v only in these lists *)
From Coq Require Import List String.
Import ListNotations.
Lemma leaf_reads_exports :
  L_exports_Exports_is_forwarded_args = ["self.datadir.VirtualAddress : u32"%string; "self.datadir.Size : u32"%string; "arg1 : u32"%string].
Proof. repeat split; reflexivity. Qed.
