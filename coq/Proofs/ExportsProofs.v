(* Proofs for C08 (export lookups). *)
From PV.Model Require Import Machine Mapping Views Exports.
From PV.Spec Require Import MappingSpec ViewSpec ExportSpec.
From PV.Proofs Require Import BaseProofs MappingProofs ViewsProofs.
Ltac Zify.zify_post_hook ::= Z.div_mod_to_equations.

(* ------------------------------------------------------------------ tables and hints *)
Lemma nthN_entry {A} (l : list A) : forall i, nthN l i = entry l i.
Proof.
  induction l as [|x r IH]; intro i; unfold entry; cbn [nthN].
  - rewrite lenN_nil. destruct (i <? 0) eqn:E; [lia|reflexivity].
  - rewrite lenN_cons. destruct (i =? 0) eqn:E0.
    + assert (i = 0) by lia. subst. destruct (0 <? 1 + lenN r) eqn:E; [reflexivity|lia].
    + rewrite IH. unfold entry.
      replace (N.to_nat i) with (S (N.to_nat (i - 1))) by lia. cbn [nth_error].
      destruct (i - 1 <? lenN r) eqn:E1; destruct (i <? 1 + lenN r) eqn:E2; try lia; reflexivity.
Qed.

Lemma entry_lt {A} (l : list A) i x : entry l i = Some x -> i < lenN l.
Proof. unfold entry. destruct (i <? lenN l) eqn:E; [lia|discriminate]. Qed.
Lemma entry_some {A} (l : list A) i : i < lenN l -> exists x, entry l i = Some x.
Proof.
  intro H. unfold entry. destruct (i <? lenN l) eqn:E; [|lia].
  destruct (nth_error l (N.to_nat i)) eqn:E1; [eauto|]. apply nth_error_None in E1. unfold lenN in H. lia.
Qed.
Lemma entry_none {A} (l : list A) i : lenN l <= i -> entry l i = None.
Proof. intro H. unfold entry. destruct (i <? lenN l) eqn:E; [lia|reflexivity]. Qed.
Lemma entry_app_mid {A} (pre : list A) x rest : entry (pre ++ x :: rest) (lenN pre) = Some x.
Proof.
  unfold entry. rewrite lenN_app, lenN_cons. destruct (lenN pre <? lenN pre + (1 + lenN rest)) eqn:E; [|lia].
  unfold lenN. rewrite Nat2N.id. rewrite nth_error_app2 by lia. rewrite Nat.sub_diag. reflexivity.
Qed.

Lemma in_hints {A} (l : list A) h : In h (hints_of l) <-> h < lenN l.
Proof.
  unfold hints_of, lenN. rewrite in_map_iff. split.
  - intros [k [<- Hk]]. apply in_seq in Hk. lia.
  - intro H. exists (N.to_nat h). split; [lia|]. apply in_seq. lia.
Qed.

(* find over the hints k, k+1, ..: the least one satisfying p *)
Lemma find_hints_least (p : N -> bool) : forall n k,
  match find p (map N.of_nat (seq k n)) with
  | Some h => p h = true /\ N.of_nat k <= h /\ h < N.of_nat (k + n) /\ (forall h', N.of_nat k <= h' -> h' < h -> p h' = false)
  | None => forall h, N.of_nat k <= h -> h < N.of_nat (k + n) -> p h = false
  end.
Proof.
  induction n as [|n IH]; intro k; cbn [seq map find].
  - intros h H1 H2. lia.
  - destruct (p (N.of_nat k)) eqn:E.
    + split; [exact E|]. split; [lia|]. split; [lia|]. intros h' H1 H2. lia.
    + specialize (IH (S k)). destruct (find p (map N.of_nat (seq (S k) n))) as [h|].
      * destruct IH as [Hp [H1 [H2 H3]]]. split; [exact Hp|]. split; [lia|]. split; [lia|].
        intros h' Ha Hb. destruct (N.eq_dec h' (N.of_nat k)) as [->|Hne]; [exact E|]. apply H3; lia.
      * intros h Ha Hb. destruct (N.eq_dec h (N.of_nat k)) as [->|Hne]; [exact E|]. apply IH; lia.
Qed.

(* ------------------------------------------------------------------ byte strings *)
Lemma bytes_eqb_eq a : forall b, bytes_eqb a b = true <-> a = b.
Proof.
  induction a as [|x a IH]; intros [|y b]; cbn [bytes_eqb]; split; intro H; try reflexivity; try discriminate.
  - apply andb_true_iff in H as [H1 H2]. apply IH in H2. f_equal; [lia|exact H2].
  - injection H as -> ->. apply andb_true_iff. split; [lia|]. apply IH. reflexivity.
Qed.
Lemma bytes_eqb_dec a b : bytes_eqb a b = if bytes_eq_dec a b then true else false.
Proof.
  destruct (bytes_eq_dec a b) as [E|E].
  - apply bytes_eqb_eq. exact E.
  - destruct (bytes_eqb a b) eqn:H; [|reflexivity]. apply bytes_eqb_eq in H. contradiction.
Qed.

Lemma lex_cmp_eq a : forall b, lex_cmp a b = Eq <-> a = b.
Proof.
  induction a as [|x a IH]; intros [|y b]; cbn [lex_cmp]; split; intro H; try reflexivity; try discriminate.
  - destruct (x ?= y) eqn:E; try discriminate. apply N.compare_eq in E. apply IH in H. subst. reflexivity.
  - injection H as -> ->. rewrite N.compare_refl. apply IH. reflexivity.
Qed.
Lemma lex_cmp_lt a : forall b, lex_cmp a b = Lt <-> lex_lt a b.
Proof.
  induction a as [|x a IH]; intros [|y b]; cbn [lex_cmp]; split; intro H; try discriminate; try (inversion H; fail).
  - constructor.
  - reflexivity.
  - destruct (x ?= y) eqn:E; try discriminate.
    + apply N.compare_eq in E. subst. apply lex_lt_tail. apply IH. exact H.
    + apply lex_lt_head. apply N.compare_lt_iff. exact E.
  - inversion H; subst.
    + apply N.compare_lt_iff in H1. rewrite H1. reflexivity.
    + rewrite N.compare_refl. apply IH. assumption.
Qed.
Lemma lex_cmp_antisym a : forall b, lex_cmp b a = CompOpp (lex_cmp a b).
Proof.
  induction a as [|x a IH]; intros [|y b]; cbn [lex_cmp CompOpp]; try reflexivity.
  rewrite (N.compare_antisym x y). destruct (x ?= y); cbn [CompOpp]; try reflexivity. apply IH.
Qed.
Lemma lex_le_cmp a b : lex_le a b <-> lex_cmp a b <> Gt.
Proof.
  unfold lex_le. split.
  - intros [->|H]; [|apply lex_cmp_lt in H; congruence].
    assert (lex_cmp b b = Eq) by (apply lex_cmp_eq; reflexivity). congruence.
  - intro H. destruct (lex_cmp a b) eqn:E; [left; apply lex_cmp_eq; exact E|right; apply lex_cmp_lt; exact E|congruence].
Qed.
(* transitivity, in the three mixed forms the binary search needs *)
Lemma lex_cmp_trans a : forall b c, lex_cmp a b <> Gt -> lex_cmp b c <> Gt ->
  lex_cmp a c <> Gt /\ (lex_cmp a b = Lt \/ lex_cmp b c = Lt -> lex_cmp a c = Lt).
Proof.
  induction a as [|x a IH]; intros [|y b] [|z c]; cbn [lex_cmp]; intros H1 H2;
    try (split; [congruence|intros [?|?]; congruence]); try congruence.
  destruct (x ?= y) eqn:E1; try congruence; destruct (y ?= z) eqn:E2; try congruence.
  - apply N.compare_eq in E1, E2. subst. rewrite N.compare_refl. apply IH; assumption.
  - apply N.compare_eq in E1. subst. rewrite E2. split; [congruence|reflexivity].
  - apply N.compare_eq in E2. subst. rewrite E1. split; [congruence|reflexivity].
  - assert (x ?= z = Lt) as -> by (rewrite N.compare_lt_iff in *; lia).
    split; [congruence|reflexivity].
Qed.

(* ------------------------------------------------------------------ classification (theorem 1) *)
Definition total (cstr : N -> res (list N)) : Prop := forall a f, cstr a <> Fault f.

Section Lookups.
  Variable cstr : N -> res (list N).
  Variable t : tables.

  Lemma is_forwarded_correct rva : is_forwarded t rva = in_extent t rva.
  Proof.
    unfold is_forwarded, in_extent. destruct (t_dva t <=? rva) eqn:E; cbn [andb]; [|reflexivity].
    destruct (rva - t_dva t <? t_dsize t) eqn:E1; destruct (rva <? t_dva t + t_dsize t) eqn:E2; try lia; reflexivity.
  Qed.
  Lemma symbol_from_rva_correct rva : symbol_from_rva cstr t rva = classify cstr t rva.
  Proof.
    unfold symbol_from_rva, classify. rewrite is_forwarded_correct.
    destruct (rva =? 0); [reflexivity|]. destruct (in_extent t rva); [|reflexivity].
    destruct (cstr rva); reflexivity.
  Qed.
  Theorem index_correct i : index cstr t i = index_spec cstr t i.
  Proof. unfold index, index_spec. rewrite nthN_entry. destruct (entry (t_funcs t) i); [apply symbol_from_rva_correct|reflexivity]. Qed.
  Theorem hint_correct h : hint cstr t h = hint_spec cstr t h.
  Proof. unfold hint, hint_spec. rewrite nthN_entry. destruct (entry (t_idxs t) h); [apply index_correct|reflexivity]. Qed.
  Theorem hint_by_index h : hint cstr t h = match entry (t_idxs t) h with None => Err EBounds | Some i => index cstr t i end.
  Proof. unfold hint. rewrite nthN_entry. reflexivity. Qed.
  Theorem ordinal_correct o : ordinal cstr t o = ordinal_spec cstr t o.
  Proof. unfold ordinal, ordinal_spec. destruct (o <? t_base t); [reflexivity|apply index_correct]. Qed.
  Theorem name_of_hint_correct h : name_of_hint cstr t h = name_of_hint_spec cstr t h.
  Proof. unfold name_of_hint, name_of_hint_spec. rewrite nthN_entry. reflexivity. Qed.

  (* the closed form of the property text *)
  Theorem ordinal_closed_form o :
    ordinal cstr t o =
      if o <? t_base t then Err EBounds
      else match entry (t_funcs t) (o - t_base t) with
           | None => Err EBounds
           | Some rva =>
             if rva =? 0 then Err ENull
             else if (t_dva t <=? rva) && (rva <? t_dva t + t_dsize t)
                  then match cstr rva with Ok s => Ok (Forward s) | Err e => Err e | Fault f => Fault f end
                  else Ok (Symbol rva)
           end.
  Proof. rewrite ordinal_correct. reflexivity. Qed.

  Lemma names_hintb_iff h n : names_hintb cstr t h n = true <-> names_hint cstr t h n.
  Proof.
    unfold names_hintb, names_hint. destruct (name_of_hint_spec cstr t h) as [s|e|f]; try (split; intro; discriminate).
    destruct (bytes_eq_dec s n) as [->|Hne]; split; intro H; try reflexivity; try discriminate. injection H as ->. contradiction.
  Qed.

  (* ---------------------------------------------------------------- name_linear (theorem 2) *)
  Lemma name_linear_from_correct (Ht : total cstr) n : forall ns pre, t_names t = pre ++ ns ->
    name_linear_from cstr t ns (lenN pre) n =
      match find (fun h => names_hintb cstr t h n) (map N.of_nat (seq (length pre) (length ns))) with
      | Some h => hint_spec cstr t h
      | None => Err ENull
      end.
  Proof.
    induction ns as [|rva rest IH]; intros pre Hsplit; cbn [name_linear_from length seq map find]; [reflexivity|].
    assert (Hk : names_hintb cstr t (N.of_nat (length pre)) n = match cstr rva with Ok s => bytes_eqb s n | _ => false end).
    { unfold names_hintb, name_of_hint_spec. rewrite Hsplit. fold (lenN pre). rewrite entry_app_mid.
      destruct (cstr rva); try reflexivity. symmetry. apply bytes_eqb_dec. }
    rewrite Hk.
    assert (Hnext : name_linear_from cstr t rest (lenN pre + 1) n =
      match find (fun h => names_hintb cstr t h n) (map N.of_nat (seq (S (length pre)) (length rest))) with
      | Some h => hint_spec cstr t h | None => Err ENull end).
    { specialize (IH (pre ++ [rva])). rewrite lenN_app, app_length in IH. cbn [length] in IH.
      replace (lenN [rva]) with 1 in IH by reflexivity. replace (length pre + 1)%nat with (S (length pre)) in IH by lia.
      apply IH. rewrite <- app_assoc. exact Hsplit. }
    destruct (cstr rva) as [s|e|f] eqn:E.
    - destruct (bytes_eqb s n); [|exact Hnext]. unfold lenN. apply hint_correct.
    - exact Hnext.
    - exfalso. exact (Ht _ _ E).
  Qed.
  Theorem name_linear_correct (Ht : total cstr) n : name_linear cstr t n = name_linear_spec cstr t n.
  Proof.
    unfold name_linear, name_linear_spec, hints_of.
    exact (name_linear_from_correct Ht n (t_names t) [] eq_refl).
  Qed.
  (* the least hint carrying the name, else Null *)
  Theorem name_linear_least (Ht : total cstr) n :
    (exists h, names_hint cstr t h n /\ (forall h', h' < h -> ~ names_hint cstr t h' n) /\ name_linear cstr t n = hint cstr t h)
    \/ ((forall h, ~ names_hint cstr t h n) /\ name_linear cstr t n = Err ENull).
  Proof.
    rewrite name_linear_correct by exact Ht. unfold name_linear_spec, hints_of.
    pose proof (find_hints_least (fun h => names_hintb cstr t h n) (length (t_names t)) 0) as H.
    destruct (find _ _) as [h|].
    - left. destruct H as [Hp [_ [_ Hl]]]. exists h. split; [apply names_hintb_iff; exact Hp|]. split.
      + intros h' Hlt Hc. apply names_hintb_iff in Hc. rewrite Hl in Hc by lia. discriminate.
      + symmetry. apply hint_correct.
    - right. split; [|reflexivity]. intros h Hc.
      assert (Hlt : h < lenN (t_names t)).
      { unfold names_hint, name_of_hint_spec in Hc. destruct (entry (t_names t) h) eqn:E; [eapply entry_lt; exact E|discriminate]. }
      apply names_hintb_iff in Hc. rewrite H in Hc; [discriminate|lia|unfold lenN in Hlt; lia].
  Qed.

  (* ---------------------------------------------------------------- hint_name / import (theorem 4) *)
  Theorem hint_name_correct (Ht : total cstr) h n :
    hint_name cstr t h n =
      match hint_spec cstr t h with
      | Ok e => if names_hintb cstr t h n then Ok e else name cstr t n
      | _ => name cstr t n
      end.
  Proof.
    unfold hint_name. rewrite hint_correct, name_of_hint_correct. unfold names_hintb.
    destruct (hint_spec cstr t h) as [e|e|f] eqn:E; try reflexivity.
    - destruct (name_of_hint_spec cstr t h) as [s|e'|f'] eqn:E1; try reflexivity.
      + rewrite bytes_eqb_dec. destruct (bytes_eq_dec s n); reflexivity.
      + exfalso. unfold name_of_hint_spec in E1. destruct (entry (t_names t) h); [exact (Ht _ _ E1)|discriminate].
    - exfalso. unfold hint_spec, index_spec, classify in E.
      destruct (entry (t_idxs t) h) as [i|]; [|discriminate]. destruct (entry (t_funcs t) i) as [rva|]; [|discriminate].
      destruct (rva =? 0); [discriminate|]. destruct (in_extent t rva); [|discriminate].
      destruct (cstr rva) eqn:E2; try discriminate. exact (Ht _ _ E2).
  Qed.
  Theorem import_correct i :
    import_ cstr t i = match i with ByName h n => hint_name cstr t h n | ByOrdinal o => ordinal_spec cstr t o end.
  Proof. destruct i; cbn [import_]; [reflexivity|apply ordinal_correct]. Qed.

  (* ---------------------------------------------------------------- name_lookup (theorem 5) *)
  Lemma position_correct i : forall l pre, t_idxs t = pre ++ l ->
    position l (lenN pre) i =
      find (fun h => match entry (t_idxs t) h with Some ix => ix =? i | None => false end) (map N.of_nat (seq (length pre) (length l))).
  Proof.
    induction l as [|y r IH]; intros pre Hsplit; cbn [position length seq map find]; [reflexivity|].
    fold (lenN pre). rewrite Hsplit at 1. rewrite entry_app_mid.
    destruct (y =? i); [reflexivity|].
    specialize (IH (pre ++ [y])). rewrite lenN_app, app_length in IH. cbn [length] in IH.
    replace (lenN [y]) with 1 in IH by reflexivity. replace (length pre + 1)%nat with (S (length pre)) in IH by lia.
    apply IH. rewrite <- app_assoc. exact Hsplit.
  Qed.
  Lemma ordinal_of_index i : wadd32 (i mod W32) (t_base t) mod W16 = (i + t_base t) mod W16.
  Proof. unfold wadd32, W32, W16. lia. Qed.
  Theorem name_lookup_correct i : name_lookup cstr t i = name_lookup_spec cstr t i.
  Proof.
    unfold name_lookup, name_lookup_spec, hints_of.
    pose proof (position_correct i (t_idxs t) [] eq_refl) as Hp. change (lenN (@nil N)) with 0 in Hp. rewrite Hp. cbn [length].
    destruct (find _ _) as [h|].
    - rewrite nthN_entry. unfold name_of_hint_spec. destruct (entry (t_names t) h) as [rva|]; [|reflexivity].
      destruct (cstr rva); reflexivity.
    - rewrite ordinal_of_index. reflexivity.
  Qed.
  (* what the reverse lookup returns, and that feeding it back finds the same entry *)
  Theorem name_lookup_meaning i :
    match name_lookup cstr t i with
    | Ok (ByName h s) =>
      entry (t_idxs t) h = Some i /\ names_hint cstr t h s /\ (forall h', h' < h -> entry (t_idxs t) h' <> Some i) /\
      hint cstr t h = index cstr t i
    | Ok (ByOrdinal o) =>
      (forall h, entry (t_idxs t) h <> Some i) /\ o = (i + t_base t) mod W16 /\
      (i + t_base t < W16 -> ordinal cstr t o = index cstr t i)
    | Err e => exists h, entry (t_idxs t) h = Some i /\ (forall h', h' < h -> entry (t_idxs t) h' <> Some i) /\ name_of_hint cstr t h = Err e
    | Fault f => exists a, cstr a = Fault f
    end.
  Proof.
    rewrite name_lookup_correct. unfold name_lookup_spec, hints_of.
    pose proof (find_hints_least (fun h => match entry (t_idxs t) h with Some ix => ix =? i | None => false end) (length (t_idxs t)) 0) as H.
    destruct (find _ _) as [h|].
    - destruct H as [Hp [_ [_ Hl]]].
      assert (He : entry (t_idxs t) h = Some i).
      { destruct (entry (t_idxs t) h) as [ix|]; [|discriminate]. f_equal. lia. }
      assert (Hleast : forall h', h' < h -> entry (t_idxs t) h' <> Some i).
      { intros h' Hlt Hc. specialize (Hl h'). rewrite Hc in Hl. rewrite N.eqb_refl in Hl. assert (true = false) by (apply Hl; lia). discriminate. }
      destruct (name_of_hint_spec cstr t h) as [s|e|f] eqn:E.
      + split; [exact He|]. split; [exact E|]. split; [exact Hleast|].
        unfold hint. rewrite nthN_entry, He. reflexivity.
      + exists h. split; [exact He|]. split; [exact Hleast|]. rewrite name_of_hint_correct. exact E.
      + unfold name_of_hint_spec in E. destruct (entry (t_names t) h) as [rva|]; [|discriminate]. exists rva. exact E.
    - split.
      + intros h Hc. pose proof (entry_lt _ _ _ Hc) as Hlt. specialize (H h). rewrite Hc, N.eqb_refl in H.
        assert (true = false) by (apply H; [lia|unfold lenN in Hlt; lia]). discriminate.
      + split; [reflexivity|]. intro Hsmall. unfold ordinal. rewrite N.mod_small by exact Hsmall.
        destruct (i + t_base t <? t_base t) eqn:E; [lia|]. f_equal. lia.
  Qed.

  (* ---------------------------------------------------------------- iterators (theorem 7) *)
  Theorem iter_correct : iter cstr t = iter_spec cstr t.
  Proof. unfold iter, iter_spec. apply map_ext. exact symbol_from_rva_correct. Qed.
  Lemma iter_names_from_correct : forall ns pre, t_names t = pre ++ ns ->
    iter_names_from cstr t ns (lenN pre) =
      map (fun h => (name_of_hint_spec cstr t h, hint_spec cstr t h)) (map N.of_nat (seq (length pre) (length ns))).
  Proof.
    induction ns as [|rva rest IH]; intros pre Hsplit; cbn [iter_names_from length seq map]; [reflexivity|].
    f_equal.
    - f_equal; [|unfold lenN; apply hint_correct].
      unfold name_of_hint_spec. fold (lenN pre). rewrite Hsplit, entry_app_mid. reflexivity.
    - specialize (IH (pre ++ [rva])). rewrite lenN_app, app_length in IH. cbn [length] in IH.
      replace (lenN [rva]) with 1 in IH by reflexivity. replace (length pre + 1)%nat with (S (length pre)) in IH by lia.
      apply IH. rewrite <- app_assoc. exact Hsplit.
  Qed.
  Theorem iter_names_correct : iter_names cstr t = iter_names_spec cstr t.
  Proof. exact (iter_names_from_correct (t_names t) [] eq_refl). Qed.
End Lookups.

(* ------------------------------------------------------------------ binary search (theorem 3) *)
Section Search.
  Variable cstr : N -> res (list N).
  Variable t : tables.
  Hypothesis Ht : total cstr.
  Hypothesis Hlen : lenN (t_names t) < W64.

  Lemma hint_at i : match nthN (t_idxs t) i with None => Err EBounds | Some ix => index cstr t ix end = hint_spec cstr t i.
  Proof. rewrite <- hint_correct. reflexivity. Qed.

  (* on ANY table: the result is Null, or the entry of a hint that carries the name, or the error of an unreadable name *)
  Lemma bsearch_sound n : forall fuel lo hi, lo <= hi -> hi <= lenN (t_names t) -> (N.to_nat (hi - lo) < fuel)%nat ->
    let r := bsearch cstr t fuel lo hi n in
    r = Err ENull \/ (exists h, lo <= h /\ h < hi /\ names_hint cstr t h n /\ r = hint_spec cstr t h) \/
    (exists h e, lo <= h /\ h < hi /\ name_of_hint_spec cstr t h = Err e /\ r = Err e).
  Proof.
    induction fuel as [|fuel IH]; intros lo hi H1 H2 Hf; [lia|]. cbn [bsearch].
    destruct (lo =? hi) eqn:E0; [left; reflexivity|].
    unfold chk_sub. destruct (lo <=? hi) eqn:E1; [|lia]. cbn [bind].
    unfold chk_add. destruct (lo + (hi - lo) / 2 <? W64) eqn:E2; [|unfold W64 in *; lia]. cbn [bind].
    set (i := lo + (hi - lo) / 2) in *.
    assert (Hi : lo <= i /\ i < hi) by (unfold i; lia).
    rewrite nthN_entry. destruct (entry_some (t_names t) i) as [rva Hrva]; [lia|]. rewrite Hrva.
    assert (Hnoh : name_of_hint_spec cstr t i = cstr rva) by (unfold name_of_hint_spec; rewrite Hrva; reflexivity).
    destruct (cstr rva) as [s|e|f] eqn:Ec; cbn [bind].
    - destruct (lex_cmp n s) eqn:Ecmp.
      + apply lex_cmp_eq in Ecmp. subst s. right. left. exists i. split; [lia|]. split; [lia|]. split; [exact Hnoh|apply hint_at].
      + destruct (IH lo i) as [Hr|[[h [Ha [Hb [Hc Hd]]]]|[h [e [Ha [Hb [Hc Hd]]]]]]]; try lia.
        * left. exact Hr.
        * right. left. exists h. split; [lia|]. split; [lia|]. split; assumption.
        * right. right. exists h, e. split; [lia|]. split; [lia|]. split; assumption.
      + destruct (i + 1 <? W64) eqn:E3; [|unfold W64 in *; lia]. cbn [bind].
        destruct (IH (i + 1) hi) as [Hr|[[h [Ha [Hb [Hc Hd]]]]|[h [e [Ha [Hb [Hc Hd]]]]]]]; try lia.
        * left. exact Hr.
        * right. left. exists h. split; [lia|]. split; [lia|]. split; assumption.
        * right. right. exists h, e. split; [lia|]. split; [lia|]. split; assumption.
    - right. right. exists i, e. split; [lia|]. split; [lia|]. split; [exact Hnoh|reflexivity].
    - exfalso. exact (Ht _ _ Ec).
  Qed.

  Theorem name_sound n :
    name cstr t n = Err ENull \/ (exists h, names_hint cstr t h n /\ name cstr t n = hint cstr t h) \/
    (exists h e, h < lenN (t_names t) /\ name_of_hint cstr t h = Err e /\ name cstr t n = Err e).
  Proof.
    unfold name. destruct (bsearch_sound n (S (length (t_names t))) 0 (lenN (t_names t))) as [H|[[h [_ [_ [Ha Hb]]]]|[h [e [_ [Ha [Hb Hc]]]]]]];
      try lia; [unfold lenN; lia| | |].
    - left. exact H.
    - right. left. exists h. split; [exact Ha|]. rewrite hint_correct. exact Hb.
    - right. right. exists h, e. split; [exact Ha|]. split; [rewrite name_of_hint_correct; exact Hb|exact Hc].
  Qed.

  (* ---- sorted tables ---- *)
  Variable ns : list (list N).
  Hypothesis Hres : resolves cstr t ns.
  Hypothesis Hasc : ascending ns.

  Lemma resolves_length : length ns = length (t_names t).
  Proof. unfold resolves in Hres. apply (f_equal (@length _)) in Hres. rewrite !map_length in Hres. lia. Qed.
  Lemma resolves_nth h : h < lenN (t_names t) -> name_of_hint_spec cstr t h = Ok (nth (N.to_nat h) ns []).
  Proof.
    intro Hh. unfold name_of_hint_spec. destruct (entry_some (t_names t) h Hh) as [rva Hrva]. rewrite Hrva.
    unfold entry in Hrva. destruct (h <? lenN (t_names t)); [|discriminate].
    unfold resolves in Hres.
    assert (H1 : nth_error (map cstr (t_names t)) (N.to_nat h) = Some (cstr rva)) by (apply map_nth_error; exact Hrva).
    rewrite Hres in H1. destruct (nth_error ns (N.to_nat h)) as [s|] eqn:E.
    - rewrite (map_nth_error Ok _ _ E) in H1. injection H1 as <-. f_equal. symmetry. apply nth_error_nth with (1 := E).
    - apply nth_error_None in E. pose proof resolves_length. unfold lenN in Hh. lia.
  Qed.

  Lemma ascending_head a : forall r, ascending (a :: r) -> forall j, (j < length r)%nat -> lex_cmp a (nth j r []) <> Gt.
  Proof.
    intros r. revert a. induction r as [|b r IH]; intros a Ha j Hj; cbn [length] in Hj; [lia|].
    cbn [ascending] in Ha. destruct Ha as [Hab Hr]. apply lex_le_cmp in Hab.
    destruct j as [|j]; cbn [nth]; [exact Hab|].
    apply (lex_cmp_trans a b); [exact Hab|]. apply IH; [exact Hr|lia].
  Qed.
  Lemma ascending_tail a r : ascending (a :: r) -> ascending r.
  Proof. destruct r; cbn [ascending]; [trivial|intros [_ H]; exact H]. Qed.
  Lemma ascending_mono : forall l, ascending l -> forall i j, (i <= j)%nat -> (j < length l)%nat -> lex_cmp (nth i l []) (nth j l []) <> Gt.
  Proof.
    induction l as [|a r IH]; intros Ha i j Hij Hj; cbn [length] in Hj; [lia|].
    destruct i as [|i].
    - destruct j as [|j]; cbn [nth].
      + assert (lex_cmp a a = Eq) by (apply lex_cmp_eq; reflexivity). congruence.
      + apply ascending_head; [exact Ha|lia].
    - destruct j as [|j]; [lia|]. cbn [nth]. apply IH; [apply ascending_tail with (1 := Ha)|lia|lia].
  Qed.

  (* if some hint in [lo, hi) carries the name, the search returns the entry of a hint carrying it *)
  Lemma bsearch_complete n : forall fuel lo hi, lo <= hi -> hi <= lenN (t_names t) -> (N.to_nat (hi - lo) < fuel)%nat ->
    (exists h, lo <= h /\ h < hi /\ names_hint cstr t h n) ->
    exists h', names_hint cstr t h' n /\ bsearch cstr t fuel lo hi n = hint_spec cstr t h'.
  Proof.
    induction fuel as [|fuel IH]; intros lo hi H1 H2 Hf [h [Hh1 [Hh2 Hh3]]]; [lia|]. cbn [bsearch].
    destruct (lo =? hi) eqn:E0; [lia|].
    unfold chk_sub. destruct (lo <=? hi) eqn:E1; [|lia]. cbn [bind].
    unfold chk_add. destruct (lo + (hi - lo) / 2 <? W64) eqn:E2; [|unfold W64 in *; lia]. cbn [bind].
    set (i := lo + (hi - lo) / 2) in *.
    assert (Hi : lo <= i /\ i < hi) by (unfold i; lia).
    rewrite nthN_entry. destruct (entry_some (t_names t) i) as [rva Hrva]; [lia|]. rewrite Hrva.
    assert (Hnoh : name_of_hint_spec cstr t i = cstr rva) by (unfold name_of_hint_spec; rewrite Hrva; reflexivity).
    rewrite resolves_nth in Hnoh by lia. rewrite <- Hnoh. cbn [bind].
    unfold names_hint in Hh3. rewrite resolves_nth in Hh3 by lia. injection Hh3 as Hh3.
    pose proof resolves_length as Hl.
    destruct (lex_cmp n (nth (N.to_nat i) ns [])) eqn:Ecmp.
    - apply lex_cmp_eq in Ecmp. exists i. split; [|apply hint_at].
      unfold names_hint. rewrite resolves_nth by lia. f_equal. symmetry. exact Ecmp.
    - (* n < ns[i]: the carrier lies below i *)
      assert (h < i).
      { destruct (N.lt_ge_cases h i) as [Hlt|Hge]; [exact Hlt|exfalso].
        pose proof (ascending_mono ns Hasc (N.to_nat i) (N.to_nat h)) as Hm. rewrite Hh3 in Hm.
        rewrite lex_cmp_antisym, Ecmp in Hm. cbn [CompOpp] in Hm. apply Hm; [lia|unfold lenN in *; lia|reflexivity]. }
      apply IH; try lia. exists h. split; [lia|]. split; [lia|]. unfold names_hint. rewrite resolves_nth by lia. f_equal. exact Hh3.
    - assert (i < h).
      { destruct (N.lt_ge_cases i h) as [Hlt|Hge]; [exact Hlt|exfalso].
        pose proof (ascending_mono ns Hasc (N.to_nat h) (N.to_nat i)) as Hm. rewrite Hh3 in Hm.
        rewrite Ecmp in Hm. apply Hm; [lia|unfold lenN in *; lia|reflexivity]. }
      destruct (i + 1 <? W64) eqn:E3; [|unfold W64 in *; lia]. cbn [bind].
      apply IH; try lia. exists h. split; [lia|]. split; [lia|]. unfold names_hint. rewrite resolves_nth by lia. f_equal. exact Hh3.
  Qed.

  Theorem name_sorted n :
    ((exists h, names_hint cstr t h n) -> exists h', names_hint cstr t h' n /\ name cstr t n = hint cstr t h') /\
    ((forall h, ~ names_hint cstr t h n) -> name cstr t n = Err ENull).
  Proof.
    split.
    - intros [h Hh].
      assert (Hlt : h < lenN (t_names t)).
      { unfold names_hint, name_of_hint_spec in Hh. destruct (entry (t_names t) h) eqn:E; [eapply entry_lt; exact E|discriminate]. }
      destruct (bsearch_complete n (S (length (t_names t))) 0 (lenN (t_names t))) as [h' [Ha Hb]]; try lia; [unfold lenN; lia|exists h; split; [lia|split; assumption]|].
      exists h'. split; [exact Ha|]. rewrite hint_correct. exact Hb.
    - intro Hnone. destruct (name_sound n) as [H|[[h [Ha _]]|[h [e [Ha [Hb _]]]]]]; [exact H|exfalso; exact (Hnone h Ha)|].
      exfalso. rewrite name_of_hint_correct, resolves_nth in Hb by exact Ha. discriminate.
  Qed.

  (* with a name carried by at most one hint, binary and linear search agree *)
  Theorem name_is_name_linear n : (forall h1 h2, names_hint cstr t h1 n -> names_hint cstr t h2 n -> h1 = h2) ->
    name cstr t n = name_linear cstr t n.
  Proof.
    intro Huniq. destruct (name_sorted n) as [Hsome Hnone].
    destruct (name_linear_least cstr t Ht n) as [[h [Ha [_ Hc]]]|[Ha Hc]].
    - destruct Hsome as [h' [Hb Hd]]; [exists h; exact Ha|]. rewrite Hc, Hd. f_equal. apply Huniq; assumption.
    - rewrite Hc. apply Hnone. exact Ha.
  Qed.
End Search.

(* ------------------------------------------------------------------ check_sorted *)
Section Sorted.
  Variable cstr : N -> res (list N).
  Variable t : tables.
  Hypothesis Ht : total cstr.

  Lemma classify_no_fault rva : no_fault (classify cstr t rva).
  Proof.
    intros f H. unfold classify in H. destruct (rva =? 0); [discriminate|]. destruct (in_extent t rva); [|discriminate].
    destruct (cstr rva) eqn:E; try discriminate. exact (Ht _ _ E).
  Qed.
  Lemma index_no_fault i : no_fault (index cstr t i).
  Proof. rewrite index_correct. unfold index_spec. destruct (entry (t_funcs t) i); [apply classify_no_fault|intros f H; discriminate]. Qed.
  Lemma hint_no_fault h : no_fault (hint cstr t h).
  Proof. unfold hint. destruct (nthN (t_idxs t) h); [apply index_no_fault|intros f H; discriminate]. Qed.

  Lemma check_sorted_from_correct : forall ns h last,
    check_sorted_from cstr t ns h last =
      let (p, e) := readable_prefix cstr ns in
      if negb (ascendingb last p) then Ok false
      else match e with None => Ok true | Some (Err x) => Err x | Some (Fault f) => Fault f | Some (Ok _) => Ok true end.
  Proof.
    induction ns as [|rva rest IH]; intros h last; cbn [check_sorted_from readable_prefix ascendingb negb]; [reflexivity|].
    assert (Hh : match hint cstr t h with Fault f => Fault f | _ =>
                   s <- cstr rva ;; match lex_cmp last s with Gt => Ok false | _ => check_sorted_from cstr t rest (h + 1) s end end
                 = (s <- cstr rva ;; match lex_cmp last s with Gt => Ok false | _ => check_sorted_from cstr t rest (h + 1) s end)).
    { destruct (hint cstr t h) eqn:E; try reflexivity. exfalso. exact (hint_no_fault h _ E). }
    rewrite Hh. destruct (cstr rva) as [s|e|f] eqn:Ec; cbn [bind ascendingb negb]; try reflexivity.
    rewrite (IH (h + 1) s). destruct (readable_prefix cstr rest) as [p e]. cbn [ascendingb].
    destruct (lex_cmp last s); reflexivity.
  Qed.
  Theorem check_sorted_correct : check_sorted cstr t = check_sorted_spec cstr t.
  Proof. unfold check_sorted, check_sorted_spec. apply check_sorted_from_correct. Qed.

  Lemma readable_prefix_all : forall ns p, readable_prefix cstr ns = (p, None) -> map cstr ns = map Ok p.
  Proof.
    induction ns as [|rva rest IH]; intros p H; cbn [readable_prefix] in H.
    - injection H as <-. reflexivity.
    - destruct (cstr rva) as [s|e|f] eqn:E; try discriminate.
      destruct (readable_prefix cstr rest) as [p' e']. injection H as <- ->. cbn [map]. rewrite E. f_equal. apply IH. reflexivity.
  Qed.
  Lemma readable_prefix_not_ok : forall ns p s, readable_prefix cstr ns <> (p, Some (Ok s)).
  Proof.
    induction ns as [|rva rest IH]; intros p s H; cbn [readable_prefix] in H; [discriminate|].
    destruct (cstr rva) as [s'|e|f] eqn:E; try discriminate.
    destruct (readable_prefix cstr rest) as [p' e'] eqn:E'. injection H as <- ->. exact (IH _ _ eq_refl).
  Qed.
  Lemma ascendingb_ascending : forall p prev, ascendingb prev p = true -> ascending (prev :: p).
  Proof.
    induction p as [|a r IH]; intros prev H; cbn [ascending]; [trivial|].
    cbn [ascendingb] in H. split.
    - apply lex_le_cmp. destruct (lex_cmp prev a); congruence.
    - apply IH. destruct (lex_cmp prev a); congruence.
  Qed.
  Lemma ascending_ascendingb : forall p prev, ascending (prev :: p) -> ascendingb prev p = true.
  Proof.
    induction p as [|a r IH]; intros prev H; cbn [ascendingb]; [reflexivity|].
    cbn [ascending] in H. destruct H as [H1 H2]. apply lex_le_cmp in H1.
    destruct (lex_cmp prev a); try congruence; apply IH; exact H2.
  Qed.
  Lemma readable_prefix_resolved : forall ns p, map cstr ns = map Ok p -> readable_prefix cstr ns = (p, None).
  Proof.
    induction ns as [|rva rest IH]; intros [|s p] H; cbn [map] in H; try discriminate; [reflexivity|].
    injection H as H1 H2. cbn [readable_prefix]. rewrite H1, (IH p H2). reflexivity.
  Qed.

  (* check_sorted says true exactly when every name is readable and the names are non-decreasing *)
  Theorem check_sorted_true : check_sorted cstr t = Ok true <-> sorted_names cstr t.
  Proof.
    rewrite check_sorted_correct. unfold check_sorted_spec, sorted_names, resolves. split.
    - destruct (readable_prefix cstr (t_names t)) as [p e] eqn:E.
      destruct (ascendingb [] p) eqn:Ea; cbn [negb]; [|discriminate].
      destruct e as [[s|x|f]|]; try discriminate.
      + exfalso. exact (readable_prefix_not_ok _ _ _ E).
      + intros _. exists p. split; [apply readable_prefix_all; exact E|].
        apply ascendingb_ascending in Ea. destruct p; [exact I|]. cbn [ascending] in Ea. apply Ea.
    - intros [p [Hr Ha]]. rewrite (readable_prefix_resolved _ _ Hr).
      assert (ascendingb [] p = true) as ->; [|reflexivity].
      apply ascending_ascendingb. destruct p as [|a r]; [exact I|]. cbn [ascending]. split; [|exact Ha].
      apply lex_le_cmp. destruct a; cbn [lex_cmp]; congruence.
  Qed.

  (* ---- iter_name_indices: the two tables walked in step ---- *)
  Lemma iter_name_indices_from_correct : forall ns ixs pn pi, t_names t = pn ++ ns -> t_idxs t = pi ++ ixs -> length pn = length pi ->
    iter_name_indices_from cstr ns ixs =
      map (fun h => (name_of_hint_spec cstr t h, match entry (t_idxs t) h with Some ix => ix | None => 0 end))
          (filter (fun h => h <? lenN (t_idxs t)) (map N.of_nat (seq (length pn) (length ns)))).
  Proof.
    induction ns as [|rva rest IH]; intros ixs pn pi Hn Hi Hl; cbn [iter_name_indices_from length seq map filter]; [reflexivity|].
    destruct ixs as [|ix ixs'].
    - (* the index table ended: no further hint is below its length *)
      rewrite app_nil_r in Hi. rewrite Hi. unfold lenN at 1. rewrite <- Hl.
      destruct (N.of_nat (length pn) <? N.of_nat (length pn)) eqn:E; [lia|].
      assert (Hnone : forall k, (length pn < k)%nat -> forall m, filter (fun h => h <? N.of_nat (length pn)) (map N.of_nat (seq k m)) = []).
      { intros k Hk m. revert k Hk. induction m as [|m IHm]; intros k Hk; cbn [seq map filter]; [reflexivity|].
        destruct (N.of_nat k <? N.of_nat (length pn)) eqn:E1; [lia|]. apply IHm. lia. }
      rewrite Hl at 1. unfold lenN. rewrite <- Hl. rewrite Hnone by lia. reflexivity.
    - assert (Hlt : N.of_nat (length pn) <? lenN (t_idxs t) = true).
      { rewrite Hi, lenN_app, lenN_cons. unfold lenN. rewrite Hl. lia. }
      rewrite Hlt. cbn [map]. f_equal.
      + f_equal.
        * unfold name_of_hint_spec. fold (lenN pn). rewrite Hn, entry_app_mid. reflexivity.
        * rewrite Hl. fold (lenN pi). rewrite Hi, entry_app_mid. reflexivity.
      + specialize (IH ixs' (pn ++ [rva]) (pi ++ [ix])). rewrite !app_length in IH. cbn [length] in IH.
        replace (length pn + 1)%nat with (S (length pn)) in IH by lia.
        apply IH; [rewrite <- app_assoc; exact Hn|rewrite <- app_assoc; exact Hi|lia].
  Qed.
  Theorem iter_name_indices_correct : iter_name_indices cstr t = iter_name_indices_spec cstr t.
  Proof. exact (iter_name_indices_from_correct (t_names t) (t_idxs t) [] [] eq_refl eq_refl eq_refl). Qed.
End Sorted.

(* ------------------------------------------------------------------ get_proc_address (theorem 6) *)
Theorem get_proc_address_correct v r : get_proc_address v r = proc_address_spec v r.
Proof.
  unfold get_proc_address, proc_address, proc_address_spec. destruct r as [[rva|s]|e|f]; cbn [bind]; try reflexivity.
  apply rva_to_va_correct.
Qed.
Theorem get_proc_address_ok v r va :
  get_proc_address v r = Ok va <->
  exists rva, r = Ok (Symbol rva) /\ rva <> 0 /\ rva < v_soi v /\ v_base v + rva < v_w v /\ va = v_base v + rva.
Proof.
  rewrite get_proc_address_correct. unfold proc_address_spec, rva_to_va_spec. split.
  - destruct r as [[rva|s]|e|f]; try discriminate.
    destruct (rva =? 0) eqn:E0; [discriminate|]. destruct (v_soi v <=? rva) eqn:E1; [discriminate|].
    destruct (v_w v <=? v_base v + rva) eqn:E2; [discriminate|]. intro H. injection H as <-.
    exists rva. split; [reflexivity|]. split; [lia|]. split; [lia|]. split; [lia|reflexivity].
  - intros [rva [-> [H0 [H1 [H2 ->]]]]].
    destruct (rva =? 0) eqn:E0; [lia|]. destruct (v_soi v <=? rva) eqn:E1; [lia|].
    destruct (v_w v <=? v_base v + rva) eqn:E2; [lia|]. reflexivity.
Qed.

(* ------------------------------------------------------------------ no panic, no UB, no exhaustion of fuel (theorem 8) *)
Section NoFault.
  Variable cstr : N -> res (list N).
  Variable t : tables.
  Hypothesis Ht : total cstr.
  Hypothesis Hlen : lenN (t_names t) < W64.

  Lemma err_no_fault {A} e : no_fault (@Err A e).  Proof. intros f H; discriminate. Qed.
  Lemma hint_spec_no_fault h : no_fault (hint_spec cstr t h).
  Proof. rewrite <- hint_correct. apply hint_no_fault. exact Ht. Qed.

  Lemma ordinal_no_fault o : no_fault (ordinal cstr t o).
  Proof. unfold ordinal. destruct (o <? t_base t); [apply err_no_fault|apply index_no_fault; exact Ht]. Qed.
  Lemma name_of_hint_no_fault h : no_fault (name_of_hint cstr t h).
  Proof. unfold name_of_hint. destruct (nthN (t_names t) h); [intros f H; exact (Ht _ _ H)|apply err_no_fault]. Qed.
  Lemma name_linear_no_fault n : no_fault (name_linear cstr t n).
  Proof.
    rewrite name_linear_correct by exact Ht. unfold name_linear_spec.
    destruct (find _ _); [apply hint_spec_no_fault|apply err_no_fault].
  Qed.
  Lemma name_no_fault n : no_fault (name cstr t n).
  Proof.
    destruct (name_sound cstr t Ht Hlen n) as [H|[[h [_ H]]|[h [e [_ [_ H]]]]]]; rewrite H;
      [apply err_no_fault|apply hint_no_fault; exact Ht|apply err_no_fault].
  Qed.
  Lemma hint_name_no_fault h n : no_fault (hint_name cstr t h n).
  Proof.
    rewrite hint_name_correct by exact Ht. destruct (hint_spec cstr t h); try apply name_no_fault.
    destruct (names_hintb cstr t h n); [intros f H; discriminate|apply name_no_fault].
  Qed.
  Lemma import_no_fault i : no_fault (import_ cstr t i).
  Proof. destruct i; cbn [import_]; [apply hint_name_no_fault|apply ordinal_no_fault]. Qed.
  Lemma name_lookup_no_fault i : no_fault (name_lookup cstr t i).
  Proof.
    intros f H. pose proof (name_lookup_meaning cstr t i) as M. rewrite H in M. destruct M as [a Ha]. exact (Ht _ _ Ha).
  Qed.
  Lemma check_sorted_from_no_fault : forall ns h last, no_fault (check_sorted_from cstr t ns h last).
  Proof.
    induction ns as [|rva rest IH]; intros h last f; cbn [check_sorted_from]; [discriminate|].
    pose proof (hint_no_fault cstr t Ht h) as Hh.
    destruct (hint cstr t h) as [x0|e0|f0] eqn:E; [| |exfalso; exact (Hh _ eq_refl)];
      (destruct (cstr rva) as [s|e1|f'] eqn:Ec; cbn [bind]; [|discriminate|exfalso; exact (Ht _ _ Ec)];
       destruct (lex_cmp last s); try discriminate; apply IH).
  Qed.
  Lemma check_sorted_no_fault : no_fault (check_sorted cstr t).
  Proof. apply check_sorted_from_no_fault. Qed.
  Lemma iter_no_fault : Forall no_fault (iter cstr t).
  Proof. rewrite iter_correct. unfold iter_spec. apply Forall_forall. intros r Hr. apply in_map_iff in Hr as [rva [<- _]]. apply classify_no_fault. exact Ht. Qed.
  Lemma iter_names_no_fault : Forall (fun p => no_fault (fst p) /\ no_fault (snd p)) (iter_names cstr t).
  Proof.
    rewrite iter_names_correct. unfold iter_names_spec. apply Forall_forall. intros r Hr. apply in_map_iff in Hr as [h [<- _]]. cbn [fst snd].
    split; [rewrite <- name_of_hint_correct; apply name_of_hint_no_fault|apply hint_spec_no_fault].
  Qed.
  Lemma iter_name_indices_no_fault : Forall (fun p => no_fault (fst p)) (iter_name_indices cstr t).
  Proof.
    rewrite iter_name_indices_correct by exact Ht. unfold iter_name_indices_spec. apply Forall_forall. intros r Hr.
    apply in_map_iff in Hr as [h [<- _]]. cbn [fst]. rewrite <- name_of_hint_correct. apply name_of_hint_no_fault.
  Qed.

  Theorem lookups_no_fault :
    (forall o, no_fault (ordinal cstr t o)) /\ (forall i, no_fault (index cstr t i)) /\ (forall h, no_fault (hint cstr t h)) /\
    (forall h, no_fault (name_of_hint cstr t h)) /\ (forall n, no_fault (name_linear cstr t n)) /\ (forall n, no_fault (name cstr t n)) /\
    (forall h n, no_fault (hint_name cstr t h n)) /\ (forall i, no_fault (import_ cstr t i)) /\ (forall i, no_fault (name_lookup cstr t i)) /\
    no_fault (check_sorted cstr t) /\ Forall no_fault (iter cstr t) /\
    Forall (fun p => no_fault (fst p) /\ no_fault (snd p)) (iter_names cstr t) /\
    Forall (fun p => no_fault (fst p)) (iter_name_indices cstr t).
  Proof.
    split; [exact ordinal_no_fault|]. split; [exact (index_no_fault cstr t Ht)|]. split; [exact (hint_no_fault cstr t Ht)|].
    split; [exact name_of_hint_no_fault|]. split; [exact name_linear_no_fault|]. split; [exact name_no_fault|].
    split; [exact hint_name_no_fault|]. split; [exact import_no_fault|]. split; [exact name_lookup_no_fault|].
    split; [exact check_sorted_no_fault|]. split; [exact iter_no_fault|]. split; [exact iter_names_no_fault|exact iter_name_indices_no_fault].
  Qed.
End NoFault.

(* the image layer never faults either: slicing, the typed reads, the table decoding, the C string reader *)
Lemma range_file_no_fault len secs rva min_size : no_fault (range_file len secs rva min_size).
Proof.
  induction secs as [|it rest IH]; intros f; cbn [range_file]; [discriminate|].
  destruct ((s_va it <=? rva) && (rva <? wadd32 (s_va it) (N.max (s_vs it) (s_srd it)))); [|apply IH].
  destruct (get_range len (s_prd it) (wadd32 (s_prd it) (s_srd it))); [|discriminate].
  destruct (get_from (r_len r) (rva - s_va it)); [|discriminate].
  destruct (min_size <=? r_len r0); discriminate.
Qed.
Lemma slice_no_fault v rva min_size align : no_fault (slice v rva min_size align).
Proof.
  intros f. unfold slice, slice_file, slice_section. destruct (v_file v).
  - destruct (rva =? 0); [discriminate|]. destruct (negb (aligned_to align (wadd64 (v_addr v) rva))); [discriminate|].
    pose proof (range_file_no_fault (v_len v) (v_secs v) rva min_size) as H.
    destruct (range_file (v_len v) (v_secs v) rva min_size) eqn:E; cbn [bind]; [|discriminate|intro H1; exact (H _ eq_refl)].
    destruct (negb (aligned_to align (v_addr v + r_off a))); discriminate.
  - destruct (rva =? 0); [discriminate|]. destruct (negb (aligned_to align (wadd64 (v_addr v) rva))); [discriminate|].
    destruct (get_from (v_len v) rva); [|discriminate]. destruct (min_size <=? r_len r); discriminate.
Qed.

Section ImageNoFault.
  Variable sl : N -> N -> N -> res region.
  Variable get : N -> N.
  Hypothesis Hsl : forall a m al, no_fault (sl a m al).

  Lemma rd_no_fault a size align : no_fault (rd sl a size align).
  Proof. intros f. unfold rd. pose proof (Hsl a size align) as H. destruct (sl a size align); cbn [bind]; [discriminate|discriminate|intro H1; exact (H _ eq_refl)]. Qed.
  Lemma rd_slice_no_fault a size align len : no_fault (rd_slice sl a size align len).
  Proof.
    intros f. unfold rd_slice. destruct (checked_mul W64 size len) as [m|]; [|discriminate].
    pose proof (Hsl a m align) as H. destruct (sl a m align); cbn [bind]; [discriminate|discriminate|intro H1; exact (H _ eq_refl)].
  Qed.
  Lemma cstr_of_total : total (cstr_of sl get).
  Proof.
    intros a f. unfold cstr_of, rd_c_str. pose proof (Hsl a 0 1) as H.
    destruct (sl a 0 1); cbn [bind]; [|discriminate|intro H1; exact (H _ eq_refl)].
    destruct (find_nul get (r_off a0) (N.to_nat (r_len a0))); cbn [bind]; discriminate.
  Qed.
  Lemma table_no_fault (r : res region) (k : region -> list N) : no_fault r -> no_fault (null_as_empty (x <- r ;; Ok (k x))).
  Proof. intros H f. destruct r as [x|e|f']; cbn [bind null_as_empty]; [discriminate|destruct e; discriminate|exfalso; exact (H _ eq_refl)]. Qed.
  Lemma exports_by_no_fault dd : no_fault (exports_by sl get dd).
  Proof.
    intros f. unfold exports_by, try_from. destruct dd as [[va sz]|]; cbn [bind]; [|discriminate].
    pose proof (rd_no_fault va Layout.IMAGE_EXPORT_DIRECTORY_size Layout.IMAGE_EXPORT_DIRECTORY_align) as H.
    destruct (rd sl va _ _) as [x|e|f'] eqn:E; cbn [bind]; [|discriminate|exfalso; exact (H _ eq_refl)].
    unfold by_, functions, names, name_indices.
    match goal with |- context [null_as_empty (x0 <- ?r ;; Ok (@?k x0))] => pose proof (table_no_fault r k (rd_slice_no_fault _ _ _ _)) as H1; destruct (null_as_empty (x0 <- r ;; Ok (k x0))) as [a1|e1|f1]; cbn [bind]; [|discriminate|exfalso; exact (H1 _ eq_refl)] end.
    match goal with |- context [null_as_empty (x0 <- ?r ;; Ok (@?k x0))] => pose proof (table_no_fault r k (rd_slice_no_fault _ _ _ _)) as H2; destruct (null_as_empty (x0 <- r ;; Ok (k x0))) as [a2|e2|f2]; cbn [bind]; [|discriminate|exfalso; exact (H2 _ eq_refl)] end.
    match goal with |- context [null_as_empty (x0 <- ?r ;; Ok (@?k x0))] => pose proof (table_no_fault r k (rd_slice_no_fault _ _ _ _)) as H3; destruct (null_as_empty (x0 <- r ;; Ok (k x0))) as [a3|e3|f3]; cbn [bind]; [|discriminate|exfalso; exact (H3 _ eq_refl)] end.
    discriminate.
  Qed.
End ImageNoFault.

Theorem view_cstr_total v : total (view_cstr v).
Proof. apply cstr_of_total. apply slice_no_fault. Qed.
Theorem view_by_no_fault v dd : no_fault (view_by v dd).
Proof. apply exports_by_no_fault. apply slice_no_fault. Qed.

(* every table a view yields has fewer than 2^32 names, so the binary search's usize arithmetic cannot overflow *)
Lemma le_value_lt get : (forall i, get i < 256) -> forall n off, le_value get off n < 256 ^ N.of_nat n.
Proof.
  intros Hb. induction n as [|n IH]; intro off; cbn [le_value]; [vm_compute; reflexivity|].
  specialize (IH (off + 1)). specialize (Hb off).
  replace (N.of_nat (S n)) with (N.succ (N.of_nat n)) by lia. rewrite N.pow_succ_r by lia.
  remember (256 ^ N.of_nat n) as P. remember (le_value get (off + 1) n) as L. lia.
Qed.
Lemma elems_length get size off n : length (elems get size off n) = N.to_nat n.
Proof. unfold elems. rewrite map_length, seq_length. reflexivity. Qed.
Lemma view_by_names_len v dd t : (forall i, v_get v i < 256) -> view_by v dd = Ok t -> lenN (t_names t) < W32.
Proof.
  intros Hb H. unfold view_by, exports_by in H. destruct (try_from (slice v) dd) as [x|e|f]; cbn [bind] in H; try discriminate.
  unfold by_ in H.
  destruct (null_as_empty (functions (slice v) (v_get v) x)) as [a1|e1|f1]; cbn [bind] in H; try discriminate.
  destruct (null_as_empty (names (slice v) (v_get v) x)) as [a2|e2|f2] eqn:E2; cbn [bind] in H; try discriminate.
  destruct (null_as_empty (name_indices (slice v) (v_get v) x)) as [a3|e3|f3]; cbn [bind] in H; try discriminate.
  injection H as <-. cbn [t_names].
  unfold names in E2.
  destruct (rd_slice (slice v) (x_field (v_get v) x Layout.IMAGE_EXPORT_DIRECTORY_AddressOfNames_off) 4 4
              (x_field (v_get v) x Layout.IMAGE_EXPORT_DIRECTORY_NumberOfNames_off)) as [r|e|f]; cbn [bind null_as_empty] in E2.
  - injection E2 as <-. unfold lenN. rewrite elems_length.
    pose proof (le_value_lt (v_get v) Hb 4 (x + Layout.IMAGE_EXPORT_DIRECTORY_NumberOfNames_off)) as Hl.
    unfold x_field, rd_u32. change (256 ^ N.of_nat 4) with W32 in Hl. lia.
  - destruct e; try discriminate. injection E2 as <-. vm_compute. reflexivity.
  - discriminate.
Qed.

(* on a parsed view: nothing in the export API panics, reads out of bounds or runs out of fuel *)
Theorem view_lookups_no_fault v dd t : (forall i, v_get v i < 256) -> view_by v dd = Ok t ->
  (forall o, no_fault (ordinal (view_cstr v) t o)) /\ (forall i, no_fault (index (view_cstr v) t i)) /\ (forall h, no_fault (hint (view_cstr v) t h)) /\
  (forall h, no_fault (name_of_hint (view_cstr v) t h)) /\ (forall n, no_fault (name_linear (view_cstr v) t n)) /\ (forall n, no_fault (name (view_cstr v) t n)) /\
  (forall h n, no_fault (hint_name (view_cstr v) t h n)) /\ (forall i, no_fault (import_ (view_cstr v) t i)) /\ (forall i, no_fault (name_lookup (view_cstr v) t i)) /\
  no_fault (check_sorted (view_cstr v) t) /\ Forall no_fault (iter (view_cstr v) t) /\
  Forall (fun p => no_fault (fst p) /\ no_fault (snd p)) (iter_names (view_cstr v) t) /\
  Forall (fun p => no_fault (fst p)) (iter_name_indices (view_cstr v) t).
Proof.
  intros Hb H. apply lookups_no_fault; [apply view_cstr_total|].
  pose proof (view_by_names_len v dd t Hb H). unfold W32, W64 in *. lia.
Qed.
Theorem get_export_no_fault v dd : (forall i, v_get v i < 256) ->
  (forall o, no_fault (get_export_ordinal v dd o)) /\ (forall n, no_fault (get_export_name v dd n)) /\ (forall i, no_fault (get_export_import v dd i)) /\
  (forall r, no_fault r -> no_fault (get_proc_address v r)).
Proof.
  intro Hb. unfold get_export_ordinal, get_export_name, get_export_import.
  pose proof (view_by_no_fault v dd) as Hby.
  destruct (view_by v dd) as [t|e|f] eqn:E; cbn [bind].
  - destruct (view_lookups_no_fault v dd t Hb E) as [H1 [_ [_ [_ [_ [H2 [_ [H3 _]]]]]]]].
    split; [exact H1|]. split; [exact H2|]. split; [exact H3|].
    intros r Hr. rewrite get_proc_address_correct. unfold proc_address_spec, rva_to_va_spec. intros f.
    destruct r as [[rva|s]|e|f']; try discriminate; [|exfalso; exact (Hr _ eq_refl)].
    destruct (rva =? 0); [discriminate|]. destruct (v_soi v <=? rva); [discriminate|]. destruct (v_w v <=? v_base v + rva); discriminate.
  - split; [intros o f; discriminate|]. split; [intros o f; discriminate|]. split; [intros o f; discriminate|].
    intros r Hr. rewrite get_proc_address_correct. unfold proc_address_spec, rva_to_va_spec. intros f.
    destruct r as [[rva|s]|e'|f']; try discriminate; [|exfalso; exact (Hr _ eq_refl)].
    destruct (rva =? 0); [discriminate|]. destruct (v_soi v <=? rva); [discriminate|]. destruct (v_w v <=? v_base v + rva); discriminate.
  - exfalso. exact (Hby _ eq_refl).
Qed.

(* ------------------------------------------------------------------ the code as it stood *)
Definition k_empty : N -> res (list N) := fun _ => Ok [].
Lemma F6_is_forwarded_orig_refuted :
  let t := {| t_funcs := [12287]; t_names := []; t_idxs := []; t_base := 1; t_dva := 8192; t_dsize := 4294967295 |} in
  symbol_from_rva_orig k_empty t 12287 = Fault POverflow /\ symbol_from_rva k_empty t 12287 = Ok (Forward []) /\
  t_dva t < W32 /\ t_dsize t < W32.
Proof. vm_compute. repeat split; reflexivity. Qed.
Lemma F7_name_lookup_orig_index_refuted :
  let t := {| t_funcs := [4096]; t_names := []; t_idxs := [0]; t_base := 1; t_dva := 8192; t_dsize := 64 |} in
  name_lookup_orig k_empty t 0 = Fault PIndex /\ name_lookup k_empty t 0 = Err EBounds.
Proof. vm_compute. repeat split; reflexivity. Qed.
Lemma F7_name_lookup_orig_overflow_refuted :
  let t := {| t_funcs := []; t_names := []; t_idxs := []; t_base := 65535; t_dva := 8192; t_dsize := 64 |} in
  name_lookup_orig k_empty t 4294967295 = Fault POverflow /\ name_lookup k_empty t 4294967295 = Ok (ByOrdinal 65534).
Proof. vm_compute. repeat split; reflexivity. Qed.
Lemma F7_iter_name_indices_orig_refuted :
  let t := {| t_funcs := [4096]; t_names := [8300]; t_idxs := []; t_base := 1; t_dva := 8192; t_dsize := 64 |} in
  iter_name_indices_orig k_empty t = Fault PIndex /\ iter_name_indices k_empty t = [].
Proof. vm_compute. repeat split; reflexivity. Qed.

(* a small table: a symbol, a hole, a forwarder (rva inside the directory extent) and an unnamed entry; three sorted names *)
Definition ex_cstr (a : N) : res (list N) :=
  if a =? 8300 then Ok [97] else if a =? 8302 then Ok [97; 98] else if a =? 8305 then Ok [98]
  else if a =? 8250 then Ok [75; 46; 70] else Err EBounds.
Definition ex_tables : tables :=
  {| t_funcs := [4096; 0; 8250; 4100]; t_names := [8300; 8302; 8305]; t_idxs := [2; 0; 1];
     t_base := 5; t_dva := 8192; t_dsize := 100 |}.
Lemma nonvacuous_example :
  ordinal ex_cstr ex_tables 5 = Ok (Symbol 4096) /\ ordinal ex_cstr ex_tables 4 = Err EBounds /\
  ordinal ex_cstr ex_tables 6 = Err ENull /\ ordinal ex_cstr ex_tables 7 = Ok (Forward [75; 46; 70]) /\
  ordinal ex_cstr ex_tables 9 = Err EBounds /\
  name ex_cstr ex_tables [97; 98] = Ok (Symbol 4096) /\ name ex_cstr ex_tables [97] = Ok (Forward [75; 46; 70]) /\
  name ex_cstr ex_tables [98] = Err ENull /\ name ex_cstr ex_tables [99] = Err ENull /\
  name_linear ex_cstr ex_tables [97; 98] = Ok (Symbol 4096) /\
  hint_name ex_cstr ex_tables 0 [97; 98] = Ok (Symbol 4096) /\
  name_lookup ex_cstr ex_tables 0 = Ok (ByName 1 [97; 98]) /\ name_lookup ex_cstr ex_tables 3 = Ok (ByOrdinal 8) /\
  check_sorted ex_cstr ex_tables = Ok true.
Proof. vm_compute. repeat split; reflexivity. Qed.

(* the sorted-table theorems, with the code's own test as the hypothesis *)
Theorem name_when_check_sorted cstr t : total cstr -> lenN (t_names t) < W64 -> check_sorted cstr t = Ok true ->
  forall n,
    ((exists h, names_hint cstr t h n) -> exists h', names_hint cstr t h' n /\ name cstr t n = hint cstr t h') /\
    ((forall h, ~ names_hint cstr t h n) -> name cstr t n = Err ENull).
Proof.
  intros Ht Hlen Hs. apply check_sorted_true in Hs; [|exact Ht]. destruct Hs as [ns [Hr Ha]].
  exact (name_sorted cstr t Ht Hlen ns Hr Ha).
Qed.
Theorem name_is_name_linear_when_check_sorted cstr t : total cstr -> lenN (t_names t) < W64 -> check_sorted cstr t = Ok true ->
  forall n, (forall h1 h2, names_hint cstr t h1 n -> names_hint cstr t h2 n -> h1 = h2) ->
  name cstr t n = name_linear cstr t n.
Proof.
  intros Ht Hlen Hs. apply check_sorted_true in Hs; [|exact Ht]. destruct Hs as [ns [Hr Ha]].
  exact (name_is_name_linear cstr t Ht Hlen ns Hr Ha).
Qed.
Lemma lex_order a b : (lex_cmp a b = Eq <-> a = b) /\ (lex_cmp a b = Lt <-> lex_lt a b) /\ (lex_cmp a b = Gt <-> lex_lt b a).
Proof.
  split; [apply lex_cmp_eq|]. split; [apply lex_cmp_lt|].
  rewrite <- lex_cmp_lt. rewrite (lex_cmp_antisym a b). destruct (lex_cmp a b); cbn [CompOpp]; split; intro H; congruence.
Qed.

(* ------------------------------------------------------------------ the abstraction and the typed reads of C05 *)
Lemma bytes_of_length get off n : lenN (bytes_of get off n) = n.
Proof. unfold bytes_of, lenN. rewrite map_length, seq_length. lia. Qed.

(* what [cstr] is on an image: the bytes before the first NUL of the slice at the rva *)
Theorem cstr_of_meaning sl get a :
  match sl a 0 1 with
  | Ok r =>
    match cstr_of sl get a with
    | Ok s => lenN s < r_len r /\ s = bytes_of get (r_off r) (lenN s) /\ Forall (fun b => b <> 0) s /\ get (r_off r + lenN s) = 0
    | Err e => e = EEncoding /\ forall k, k < r_len r -> get (r_off r + k) <> 0
    | Fault _ => False
    end
  | Err e => cstr_of sl get a = Err e
  | Fault f => cstr_of sl get a = Fault f
  end.
Proof.
  unfold cstr_of. pose proof (rd_c_str_correct get sl a) as H.
  destruct (sl a 0 1) as [r|e|f]; [|rewrite H; reflexivity|rewrite H; reflexivity].
  destruct (rd_c_str get sl a) as [q|e|f]; cbn [bind]; [|exact H|exact H].
  destruct H as [H1 [H2 [H3 [H4 H5]]]]. rewrite bytes_of_length. rewrite H1.
  split; [lia|]. split; [reflexivity|]. split.
  - apply Forall_forall. intros b Hb. unfold bytes_of in Hb. apply in_map_iff in Hb as [k [<- Hk]]. apply in_seq in Hk.
    apply H5. lia.
  - replace (r_off r + (r_len q - 1)) with (r_off r + r_len q - 1) by lia. exact H3.
Qed.

(* the tables a view yields are the ones the specification of slicing (C04 / C05) denotes *)
Theorem view_by_is_spec v dd : view_ok v -> (forall i, v_get v i < 256) ->
  (forall va sz, dd = Some (va, sz) -> va < W32) -> view_by v dd = by_spec v dd.
Proof.
  intros Hok Hb Hdd. unfold view_by, by_spec, exports_by, try_from.
  destruct dd as [[va sz]|]; [|reflexivity].
  assert (Hf : forall off, x_field (v_get v) off 0 < W32 /\ forall fo, x_field (v_get v) off fo < W32).
  { intro off. split; intros; unfold x_field, rd_u32; apply (le_value_lt (v_get v) Hb 4). }
  unfold rd. rewrite slice_correct by (try exact Hok; eapply Hdd; reflexivity).
  destruct (slice_spec v va Layout.IMAGE_EXPORT_DIRECTORY_size Layout.IMAGE_EXPORT_DIRECTORY_align) as [r|e|f]; cbn [bind]; try reflexivity.
  assert (Hrs : forall a size al n, a < W32 -> rd_slice (slice v) a size al n = rd_slice (slice_spec v) a size al n).
  { intros a size al n Ha. unfold rd_slice. destruct (checked_mul W64 size n); [|reflexivity]. rewrite slice_correct by assumption. reflexivity. }
  unfold by_, functions, names, name_indices.
  rewrite !Hrs by apply Hf.
  reflexivity.
Qed.
