(* Witness lemmas of the util component that compute on 65536-element buffers (slow: about a minute). *)
From PV.Model Require Import Machine Util.
From PV.Spec Require Import UtilSpec.

(* the two witnesses of the panic, and the finding about the invariant: from_str hands the WHOLE buffer to
   from_words_unchecked, so the invariant (first word + 1 = length) holds only when the string fills the buffer *)
Theorem from_str_witnesses :
  from_str true [97] [] = Fault PIndex /\
  from_str true (repeat 97 (N.to_nat 65536)) (repeat 0 (N.to_nat 65537)) = Fault POverflow /\
  (* 65535 units fit: the count is 65535 and the invariant holds *)
  match from_str true (repeat 97 (N.to_nat 65535)) (repeat 0 (N.to_nat 65536)) with
  | Ok (n :: t) => (n =? 65535) && wide_invb (n :: t) | _ => false end = true /\
  (* a build without overflow checks wraps the count to 0 for 65536 units *)
  match from_str false (repeat 97 (N.to_nat 65536)) (repeat 0 (N.to_nat 65537)) with
  | Ok (n :: t) => (n =? 0) && negb (wide_invb (n :: t)) | _ => false end = true /\
  (* a buffer longer than the string: the count is right but the value handed to from_words_unchecked is the whole buffer *)
  from_str true [97] [0; 0; 0] = Ok [1; 97; 0] /\ wide_invb [1; 97; 0] = false.
Proof. split; [reflexivity|]. repeat split; vm_compute; reflexivity. Qed.

