(* Proofs for C17: the macro's literal unescaper against the Rust Reference's string-literal semantics,
   totality, and the composition macro = parse . unescape. *)
From PV.Model Require Import Machine Pattern Unescape.
From PV.Spec Require Import RustLiteral.
From PV.Proofs Require Import BaseProofs PatternProofs.
Ltac Zify.zify_post_hook ::= Z.div_mod_to_equations.

(* ---------------------------------------------------------------- the accumulator *)
Lemma unescape_loop_acc_n : forall n cs acc, (length cs <= n)%nat ->
  unescape_loop cs acc =
  match unescape_loop cs [] with inl r => inl r | inr (s, rest) => inr (acc ++ s, rest) end.
Proof.
  induction n as [|n IH]; intros cs acc Hn.
  - destruct cs; [reflexivity|cbn [length] in Hn; lia].
  - destruct cs as [|c t]; [reflexivity|]. cbn [length] in Hn. cbn [unescape_loop].
    destruct (c =? 92).
    + destruct t as [|e t']; [reflexivity|]. cbn [length] in Hn.
      destruct (escape e) as [r|v]; [reflexivity|].
      rewrite (IH t' (acc ++ [v])) by lia. rewrite (IH t' ([] ++ [v])) by lia.
      destruct (unescape_loop t' []) as [r|[s rest]]; [reflexivity|].
      cbn [app]. rewrite <- app_assoc. reflexivity.
    + destruct (c =? 34); [rewrite app_nil_r; reflexivity|].
      rewrite (IH t (acc ++ [c])) by lia. rewrite (IH t ([] ++ [c])) by lia.
      destruct (unescape_loop t []) as [r|[s rest]]; [reflexivity|].
      cbn [app]. rewrite <- app_assoc. reflexivity.
Qed.
Lemma unescape_loop_acc cs acc :
  unescape_loop cs acc =
  match unescape_loop cs [] with inl r => inl r | inr (s, rest) => inr (acc ++ s, rest) end.
Proof. apply (unescape_loop_acc_n (length cs)). lia. Qed.

(* the six escapes the macro reads are six of Rust's simple escapes, with the same value *)
Lemma escape_simple e v : escape e = inr v ->
  e <> 10 /\ e <> 120 /\ e <> 117 /\ simple_escape e = Some v.
Proof.
  unfold escape.
  destruct (N.eqb_spec e 92); [subst; intros [= <-]; repeat split; try lia; reflexivity|].
  destruct (N.eqb_spec e 39); [subst; intros [= <-]; repeat split; try lia; reflexivity|].
  destruct (N.eqb_spec e 34); [subst; intros [= <-]; repeat split; try lia; reflexivity|].
  destruct (N.eqb_spec e 116); [subst; intros [= <-]; repeat split; try lia; reflexivity|].
  destruct (N.eqb_spec e 114); [subst; intros [= <-]; repeat split; try lia; reflexivity|].
  destruct (N.eqb_spec e 110); [subst; intros [= <-]; repeat split; try lia; reflexivity|].
  destruct (N.eqb_spec e 117); discriminate.
Qed.
Lemma escape_of_six e :
  (e =? 92) || (e =? 39) || (e =? 34) || (e =? 116) || (e =? 114) || (e =? 110) = true ->
  exists v, escape e = inr v.
Proof.
  unfold escape. intros H.
  destruct (e =? 92); [eexists; reflexivity|]. destruct (e =? 39); [eexists; reflexivity|].
  destruct (e =? 34); [eexists; reflexivity|]. destruct (e =? 116); [eexists; reflexivity|].
  destruct (e =? 114); [eexists; reflexivity|]. destruct (e =? 110); [eexists; reflexivity|].
  discriminate.
Qed.

(* ---------------------------------------------------------------- soundness of the loop *)
(* where the macro's loop reads a body, the Reference reads the same value and leaves the same rest *)
Lemma loop_sound : forall fuel cs s rest, (length cs <= fuel)%nat -> ~ In 13 cs ->
  unescape_loop cs [] = inr (s, rest) -> body fuel cs = Some (s, rest).
Proof.
  induction fuel as [|fuel IH]; intros cs s rest Hf Hcr H.
  - destruct cs; [discriminate|cbn [length] in Hf; lia].
  - destruct cs as [|c t]; [discriminate|]. cbn [length] in Hf. cbn [unescape_loop] in H. cbn [body].
    destruct (N.eqb_spec c 92) as [->|Hc92].
    + replace (92 =? 34) with false by reflexivity. replace (92 =? 13) with false by reflexivity.
      destruct t as [|e t']; [discriminate|]. cbn [length] in Hf.
      destruct (escape e) as [r|v] eqn:He; [discriminate|].
      apply escape_simple in He. destruct He as (H10 & H120 & H117 & Hs).
      destruct (N.eqb_spec e 10); [contradiction|]. destruct (N.eqb_spec e 120); [contradiction|].
      destruct (N.eqb_spec e 117); [contradiction|]. rewrite Hs.
      rewrite unescape_loop_acc in H. destruct (unescape_loop t' []) as [r|[s' rest']] eqn:E; [discriminate|].
      injection H as <- <-.
      rewrite (IH t' s' rest'); [reflexivity|lia| |exact E].
      intros Hin. apply Hcr. right. right. exact Hin.
    + destruct (N.eqb_spec c 34) as [->|Hc34]; [injection H as <- <-; reflexivity|].
      destruct (N.eqb_spec c 13) as [->|Hc13]; [exfalso; apply Hcr; left; reflexivity|].
      rewrite unescape_loop_acc in H. destruct (unescape_loop t []) as [r|[s' rest']] eqn:E; [discriminate|].
      injection H as <- <-.
      rewrite (IH t s' rest'); [reflexivity|lia| |exact E].
      intros Hin. apply Hcr. right. exact Hin.
Qed.

(* the same without any hypothesis on the chars: whenever both the macro and the Reference read a body, they agree *)
Lemma push_some' v r s rest : push v r = Some (s, rest) -> exists s', r = Some (s', rest) /\ s = v :: s'.
Proof. destruct r as [[s' rest']|]; [|discriminate]. cbn [push]. intros [= <- <-]. eexists; split; reflexivity. Qed.
Lemma loop_agree : forall fuel cs s rest s' rest',
  unescape_loop cs [] = inr (s, rest) -> body fuel cs = Some (s', rest') -> s = s' /\ rest = rest'.
Proof.
  induction fuel as [|fuel IH]; intros cs s rest s' rest' H Hb; [discriminate|].
  destruct cs as [|c t]; [discriminate|]. cbn [unescape_loop] in H. cbn [body] in Hb.
  destruct (N.eqb_spec c 92) as [->|Hc92].
  - replace (92 =? 34) with false in Hb by reflexivity. replace (92 =? 13) with false in Hb by reflexivity.
    destruct t as [|e t']; [discriminate|].
    destruct (escape e) as [r|v] eqn:He; [discriminate|].
    apply escape_simple in He. destruct He as (H10 & H120 & H117 & Hs).
    destruct (N.eqb_spec e 10); [contradiction|]. destruct (N.eqb_spec e 120); [contradiction|].
    destruct (N.eqb_spec e 117); [contradiction|]. rewrite Hs in Hb.
    apply push_some' in Hb. destruct Hb as (s'' & Hb & ->).
    rewrite unescape_loop_acc in H. destruct (unescape_loop t' []) as [r|[s0 rest0]] eqn:E; [discriminate|].
    injection H as <- <-. destruct (IH t' s0 rest0 s'' rest' E Hb) as [-> ->]. split; reflexivity.
  - destruct (N.eqb_spec c 34) as [->|Hc34].
    + injection H as <- <-. injection Hb as <- <-. split; reflexivity.
    + destruct (N.eqb_spec c 13); [discriminate|].
      apply push_some' in Hb. destruct Hb as (s'' & Hb & ->).
      rewrite unescape_loop_acc in H. destruct (unescape_loop t []) as [r|[s0 rest0]] eqn:E; [discriminate|].
      injection H as <- <-. destruct (IH t s0 rest0 s'' rest' E Hb) as [-> ->]. split; reflexivity.
Qed.

(* ---------------------------------------------------------------- completeness outside the known class *)
Lemma push_some v r s rest : push v r = Some (s, rest) -> exists s', r = Some (s', rest) /\ s = v :: s'.
Proof. destruct r as [[s' rest']|]; [|discriminate]. cbn [push]. intros [= <- <-]. eexists; split; reflexivity. Qed.

Lemma loop_complete : forall fuel cs s rest, body fuel cs = Some (s, rest) -> other_escape cs = false ->
  unescape_loop cs [] = inr (s, rest).
Proof.
  induction fuel as [|fuel IH]; intros cs s rest H Ho; [discriminate|].
  destruct cs as [|c t]; [discriminate|]. cbn [body] in H. cbn [other_escape] in Ho. cbn [unescape_loop].
  destruct (N.eqb_spec c 34) as [->|Hc34].
  - replace (34 =? 92) with false by reflexivity. injection H as <- <-. reflexivity.
  - destruct (N.eqb_spec c 13) as [->|Hc13]; [discriminate|].
    destruct (N.eqb_spec c 92) as [->|Hc92].
    + destruct t as [|e t1]; [discriminate|].
      destruct ((e =? 92) || (e =? 39) || (e =? 34) || (e =? 116) || (e =? 114) || (e =? 110)) eqn:Hsix; [|discriminate].
      destruct (escape_of_six e Hsix) as [v Hv]. rewrite Hv.
      apply escape_simple in Hv. destruct Hv as (H10 & H120 & H117 & Hs).
      destruct (N.eqb_spec e 10); [contradiction|]. destruct (N.eqb_spec e 120); [contradiction|].
      destruct (N.eqb_spec e 117); [contradiction|]. rewrite Hs in H.
      apply push_some in H. destruct H as (s' & Hb & ->).
      rewrite unescape_loop_acc. rewrite (IH t1 s' rest Hb Ho). reflexivity.
    + apply push_some in H. destruct H as (s' & Hb & ->).
      rewrite unescape_loop_acc. rewrite (IH t s' rest Hb Ho). reflexivity.
Qed.

(* ---------------------------------------------------------------- theorems about parse_str_literal *)
Lemma not_in_tail (x : N) c t : ~ In x (c :: t) -> ~ In x t.
Proof. intros H Hin. apply H. right. exact Hin. Qed.

(* (1) where the macro accepts a literal it assigns it Rust's meaning *)
Theorem macro_unescape_sound lit s : ~ In 13 lit ->
  parse_str_literal lit = inr s -> rust_unescape lit = Some s.
Proof.
  intros Hcr H. destruct lit as [|q t]; [discriminate|]. unfold parse_str_literal in H.
  unfold rust_unescape, rust_token.
  destruct (q =? 34); [|discriminate].
  destruct (unescape_loop t []) as [r|[s' rest]] eqn:E; [discriminate|].
  destruct rest; [|discriminate]. injection H as <-.
  rewrite (loop_sound (length t) t s' [] (le_n _) (not_in_tail _ _ _ Hcr) E). reflexivity.
Qed.

(* (1), in the form that needs no side condition: on a token rustc's lexer accepts (value s', suffix sfx) the macro,
   if it accepts, returns s' - and the token has no suffix *)
Theorem macro_unescape_agrees lit s s' sfx :
  parse_str_literal lit = inr s -> rust_token lit = Some (s', sfx) -> s' = s /\ sfx = [].
Proof.
  intros H Ht. destruct lit as [|q t]; [discriminate|]. unfold parse_str_literal in H. unfold rust_token in Ht.
  destruct (q =? 34); [|discriminate].
  destruct (unescape_loop t []) as [r|[s0 rest]] eqn:E; [discriminate|].
  destruct rest; [|discriminate]. injection H as <-.
  destruct (loop_agree _ _ _ _ _ _ E Ht) as [-> <-]. split; reflexivity.
Qed.

(* the code as it stood reads the token's value but never looks at what follows the closing quote *)
Theorem macro_unescape_orig_token lit s : ~ In 13 lit ->
  parse_str_literal_orig lit = inr s -> exists sfx, rust_token lit = Some (s, sfx).
Proof.
  intros Hcr H. destruct lit as [|q t]; [discriminate|]. unfold parse_str_literal_orig in H.
  unfold rust_token. destruct (q =? 34); [|discriminate].
  destruct (unescape_loop t []) as [r|[s' rest]] eqn:E; [discriminate|]. injection H as <-.
  exists rest. apply (loop_sound (length t) t s' rest (le_n _) (not_in_tail _ _ _ Hcr) E).
Qed.
(* F36: the token 4D in double quotes followed by the suffix x - accepted by the code as it stood, not a Rust string expression; refused after the repair *)
Lemma macro_unescape_orig_refuted :
  parse_str_literal_orig [34; 52; 68; 34; 120] = inr [52; 68] /\ rust_unescape [34; 52; 68; 34; 120] = None
  /\ rust_lex_ok [34; 52; 68; 34; 120] = true
  /\ macro_model_orig [34; 52; 68; 34; 120] = MExpands [Save 0; Byte 77]
  /\ macro_model [34; 52; 68; 34; 120] = MLiteral RSuffix.
Proof. vm_compute. repeat split; reflexivity. Qed.

(* the hypothesis of (1) is needed: an isolated CR is copied by the macro but is not allowed by Rust
   (rustc's lexer reports it, so the crate does not compile either way - checked by the correspondence) *)
Lemma isolated_cr_witness :
  parse_str_literal [34; 52; 68; 13; 34] = inr [52; 68; 13] /\ rust_unescape [34; 52; 68; 13; 34] = None
  /\ rust_lex_ok [34; 52; 68; 13; 34] = false.
Proof. vm_compute. repeat split; reflexivity. Qed.

(* (1') the macro is exactly Rust's function outside the known class *)
Theorem macro_unescape_complete lit s : rust_unescape lit = Some s ->
  escape_not_supported_by_macro lit = false -> parse_str_literal lit = inr s.
Proof.
  unfold escape_not_supported_by_macro. intros H Ho. rewrite H in Ho.
  unfold rust_unescape, rust_token in H. destruct lit as [|q t]; [discriminate|]. cbn [tl] in Ho.
  unfold parse_str_literal. destruct (q =? 34); [|discriminate].
  destruct (body (length t) t) as [[s' rest]|] eqn:E; [|discriminate].
  destruct rest; [|discriminate]. injection H as <-.
  rewrite (loop_complete _ _ _ _ E Ho). reflexivity.
Qed.

(* a literal in the known class: Rust reads it, the run-time parser accepts its value, the macro refuses it *)
Lemma escape_not_supported_witness :
  let lit2 := [34; 52; 68; 92; 120; 50; 48; 53; 65; 34] in     (* 4D\x205A in double quotes *)
  escape_not_supported_by_macro lit2 = true
  /\ rust_unescape lit2 = Some [52; 68; 32; 53; 65]
  /\ parse (utf8_encode [52; 68; 32; 53; 65]) = Ok (inr [Save 0; Byte 77; Byte 90])
  /\ macro_model lit2 = MLiteral (RUnknownEscape 120).
Proof. vm_compute. repeat split; reflexivity. Qed.

(* (2) totality: every outcome of the unescaper is a value or one of the six explicit refusals (there is no
   arithmetic, no indexing and no unwrap in it), and the macro up to code generation never faults *)
Theorem macro_no_fault lit : forall f, macro_model lit <> MFault f.
Proof.
  intros f. unfold macro_model, macro_with. destruct (parse_str_literal lit) as [r|s]; [discriminate|].
  destruct (parse_total (utf8_encode s)) as (r & Hr & _). rewrite Hr.
  destruct r as [[e pos]|atoms]; discriminate.
Qed.
Theorem macro_orig_no_fault lit : forall f, macro_model_orig lit <> MFault f.
Proof.
  intros f. unfold macro_model_orig, macro_with. destruct (parse_str_literal_orig lit) as [r|s]; [discriminate|].
  destruct (parse_total (utf8_encode s)) as (r & Hr & _). rewrite Hr.
  destruct r as [[e pos]|atoms]; discriminate.
Qed.

(* what each refusal means *)
Lemma loop_rest_suffix : forall n cs acc s rest, (length cs <= n)%nat ->
  unescape_loop cs acc = inr (s, rest) -> exists pre, cs = pre ++ 34 :: rest.
Proof.
  induction n as [|n IH]; intros cs acc s rest Hn H.
  - destruct cs; [discriminate|cbn [length] in Hn; lia].
  - destruct cs as [|c t]; [discriminate|]. cbn [length] in Hn. cbn [unescape_loop] in H.
    destruct (N.eqb_spec c 92) as [->|].
    + destruct t as [|e t']; [discriminate|]. cbn [length] in Hn. destruct (escape e); [discriminate|].
      apply IH in H; [|lia]. destruct H as [pre ->]. exists (92 :: e :: pre). reflexivity.
    + destruct (N.eqb_spec c 34) as [->|].
      * injection H as _ <-. exists []. reflexivity.
      * apply IH in H; [|lia]. destruct H as [pre ->]. exists (c :: pre). reflexivity.
Qed.
Theorem macro_accepts_shape lit s : parse_str_literal lit = inr s ->
  exists inner, lit = 34 :: inner ++ [34].
Proof.
  intros H. destruct lit as [|q t]; [discriminate|]. unfold parse_str_literal in H.
  destruct (N.eqb_spec q 34) as [->|]; [|discriminate].
  destruct (unescape_loop t []) as [r|[s' rest]] eqn:E; [discriminate|]. destruct rest; [|discriminate].
  apply (loop_rest_suffix (length t)) in E; [|lia]. destruct E as [pre ->]. exists pre. reflexivity.
Qed.
Theorem macro_rejects_non_string lit q t : lit = q :: t -> q <> 34 -> parse_str_literal lit = inl RNoQuote.
Proof. intros -> Hq. unfold parse_str_literal. destruct (N.eqb_spec q 34); [contradiction|reflexivity]. Qed.

(* ---------------------------------------------------------------- (3) the composition *)
(* by definition the macro hands to the code generator what the run-time parser returns for the unescaped text *)
Theorem macro_is_parse_of_unescape lit :
  macro_model lit = match parse_str_literal lit with
                    | inl r => MLiteral r
                    | inr s => of_parse (parse (utf8_encode s))
                    end.
Proof. reflexivity. Qed.

(* the property, model level: for a Rust string literal outside the known class the macro expands to exactly
   the run-time parser's atoms for the literal's value, and does not compile if the parser rejects it *)
Theorem macro_eq_runtime_parse lit s : rust_unescape lit = Some s -> escape_not_supported_by_macro lit = false ->
  exists r, parse (utf8_encode s) = Ok r /\
    macro_model lit = match r with inr atoms => MExpands atoms | inl (e, pos) => MPattern e pos end.
Proof.
  intros H Ho. destruct (parse_total (utf8_encode s)) as (r & Hr & _). exists r. split; [exact Hr|].
  unfold macro_model, macro_with. rewrite (macro_unescape_complete lit s H Ho). rewrite Hr.
  destruct r as [[e pos]|atoms]; reflexivity.
Qed.
(* conversely, whatever the macro expands to is the run-time parser's result on Rust's reading of the literal *)
Theorem macro_expansion_is_runtime_parse lit atoms : ~ In 13 lit -> macro_model lit = MExpands atoms ->
  exists s, rust_unescape lit = Some s /\ parse (utf8_encode s) = Ok (inr atoms).
Proof.
  intros Hcr H. unfold macro_model, macro_with in H.
  destruct (parse_str_literal lit) as [r|s] eqn:E; [discriminate|].
  exists s. split; [exact (macro_unescape_sound lit s Hcr E)|].
  destruct (parse (utf8_encode s)) as [[[e pos]|a]|e|f]; try discriminate. injection H as ->. reflexivity.
Qed.
(* in the known class the macro never expands to anything: the refusal is a compile error, not a different pattern *)
Theorem known_class_is_loud lit : escape_not_supported_by_macro lit = true -> ~ In 13 lit ->
  forall atoms, macro_model lit <> MExpands atoms \/
                exists s, rust_unescape lit = Some s /\ parse (utf8_encode s) = Ok (inr atoms).
Proof.
  intros _ Hcr atoms. destruct (macro_model lit) eqn:E; try (left; discriminate).
  destruct (macro_expansion_is_runtime_parse lit atoms0 Hcr E) as (s & H1 & H2).
  destruct (list_eq_dec (fun a b : atom => ltac:(decide equality; apply N.eq_dec) : {a = b} + {a <> b}) atoms0 atoms) as [->|Hne].
  - right. exists s. split; assumption.
  - left. intros [= Heq]. contradiction.
Qed.

(* ---------------------------------------------------------------- CRLF normalisation *)
Lemma normalize_no_crlf_id : forall src, ~ In 13 src -> normalize_crlf src = src.
Proof.
  induction src as [|c t IH]; intros H; [reflexivity|]. cbn [normalize_crlf].
  destruct t as [|d t']; [reflexivity|].
  destruct (N.eqb_spec c 13) as [->|]; [exfalso; apply H; left; reflexivity|].
  cbn [andb]. rewrite IH; [reflexivity|]. intros Hin. apply H. right. exact Hin.
Qed.

(* ---------------------------------------------------------------- UTF-8: chars of the pushed String *)
Definition scalar (c : N) : Prop := c < 55296 \/ (57344 <= c /\ c < 1114112).

Lemma utf8_decode_encode_char c rest : scalar c ->
  utf8_decode (utf8_encode_char c ++ rest) = option_map (cons c) (utf8_decode rest).
Proof.
  intros Hs. unfold utf8_encode_char.
  destruct (N.ltb_spec c 128) as [H1|H1].
  - cbn [app utf8_decode]. destruct (N.ltb_spec c 128); [reflexivity|lia].
  - destruct (N.ltb_spec c 2048) as [H2|H2].
    + cbn [app utf8_decode].
      destruct (N.ltb_spec (192 + c / 64) 128); [lia|]. destruct (N.ltb_spec (192 + c / 64) 192); [lia|].
      destruct (N.ltb_spec (192 + c / 64) 224); [|lia].
      unfold is_cont. destruct (N.leb_spec 128 (128 + c mod 64)); [|lia].
      destruct (N.ltb_spec (128 + c mod 64) 192); [|lia]. cbn [andb].
      replace ((192 + c / 64 - 192) * 64 + (128 + c mod 64 - 128)) with c by lia. reflexivity.
    + destruct (N.ltb_spec c 65536) as [H3|H3].
      * cbn [app utf8_decode].
        destruct (N.ltb_spec (224 + c / 4096) 128); [lia|]. destruct (N.ltb_spec (224 + c / 4096) 192); [lia|].
        destruct (N.ltb_spec (224 + c / 4096) 224); [lia|]. destruct (N.ltb_spec (224 + c / 4096) 240); [|lia].
        unfold is_cont.
        destruct (N.leb_spec 128 (128 + (c / 64) mod 64)); [|lia].
        destruct (N.ltb_spec (128 + (c / 64) mod 64) 192); [|lia].
        destruct (N.leb_spec 128 (128 + c mod 64)); [|lia].
        destruct (N.ltb_spec (128 + c mod 64) 192); [|lia]. cbn [andb].
        replace ((224 + c / 4096 - 224) * 4096 + (128 + (c / 64) mod 64 - 128) * 64 + (128 + c mod 64 - 128)) with c by lia.
        reflexivity.
      * assert (c < 1114112) by (unfold scalar in Hs; lia).
        cbn [app utf8_decode].
        destruct (N.ltb_spec (240 + c / 262144) 128); [lia|]. destruct (N.ltb_spec (240 + c / 262144) 192); [lia|].
        destruct (N.ltb_spec (240 + c / 262144) 224); [lia|]. destruct (N.ltb_spec (240 + c / 262144) 240); [lia|].
        destruct (N.ltb_spec (240 + c / 262144) 248); [|lia].
        unfold is_cont.
        destruct (N.leb_spec 128 (128 + (c / 4096) mod 64)); [|lia].
        destruct (N.ltb_spec (128 + (c / 4096) mod 64) 192); [|lia].
        destruct (N.leb_spec 128 (128 + (c / 64) mod 64)); [|lia].
        destruct (N.ltb_spec (128 + (c / 64) mod 64) 192); [|lia].
        destruct (N.leb_spec 128 (128 + c mod 64)); [|lia].
        destruct (N.ltb_spec (128 + c mod 64) 192); [|lia]. cbn [andb].
        replace ((240 + c / 262144 - 240) * 262144 + (128 + (c / 4096) mod 64 - 128) * 4096
                 + (128 + (c / 64) mod 64 - 128) * 64 + (128 + c mod 64 - 128)) with c by lia.
        reflexivity.
Qed.
(* the chars of a String built by push are the chars pushed: the byte level loses nothing *)
Theorem utf8_decode_encode : forall cs, Forall scalar cs -> utf8_decode (utf8_encode cs) = Some cs.
Proof.
  induction cs as [|c t IH]; intros H; [reflexivity|].
  inversion H as [|? ? Hc Ht]; subst. unfold utf8_encode. cbn [flat_map].
  rewrite utf8_decode_encode_char by exact Hc. fold (utf8_encode t). rewrite IH by exact Ht. reflexivity.
Qed.
Lemma utf8_encode_ascii : forall cs, Forall (fun c => c < 128) cs -> utf8_encode cs = cs.
Proof.
  induction cs as [|c t IH]; intros H; [reflexivity|]. inversion H as [|? ? Hc Ht]; subst.
  unfold utf8_encode. cbn [flat_map]. fold (utf8_encode t). rewrite IH by exact Ht.
  unfold utf8_encode_char. destruct (N.ltb_spec c 128); [reflexivity|lia].
Qed.

(* ---------------------------------------------------------------- the oracle is the reflection of (3) *)
Lemma atom_eqb_refl a : atom_eqb a a = true.
Proof. destruct a; cbn [atom_eqb]; try reflexivity; apply N.eqb_refl. Qed.
Lemma atoms_agree_refl : forall l, forallb (fun p => atom_eqb (fst p) (snd p)) (combine l l) = true.
Proof. induction l as [|a t IH]; [reflexivity|]. cbn [combine forallb fst snd]. rewrite atom_eqb_refl, IH. reflexivity. Qed.

Definition obs_of_parse (r : res ((paterr * nat) + list atom)) : option (list atom) :=
  match r with Ok (inr a) => Some a | _ => None end.
Definition obs_of_macro (m : macro_result) : option (list atom) :=
  match m with MExpands a => Some a | _ => None end.

(* on the model's own outputs the oracle holds for every literal outside the known class that has no isolated CR:
   the boolean that is evaluated on the generated crate's output is the statement of macro_eq_runtime_parse *)
Theorem oracle_holds_on_model lit : ~ In 13 lit -> escape_not_supported_by_macro lit = false ->
  c17_oracle (option_map utf8_encode (rust_unescape lit))
             (match rust_unescape lit with Some s => obs_of_parse (parse (utf8_encode s)) | None => None end)
             (obs_of_macro (macro_model lit)) = true.
Proof.
  intros Hcr Ho. unfold c17_oracle, macro_agrees. destruct (rust_unescape lit) as [s|] eqn:E; cbn [option_map].
  - destruct (macro_eq_runtime_parse lit s E Ho) as (r & Hr & Hm). rewrite Hr, Hm.
    destruct r as [[e pos]|atoms]; cbn [obs_of_parse obs_of_macro]; [reflexivity|].
    rewrite Nat.eqb_refl, atoms_agree_refl. reflexivity.
  - destruct (macro_model lit) eqn:Em; cbn [obs_of_macro]; try reflexivity.
    destruct (macro_expansion_is_runtime_parse lit atoms Hcr Em) as (s & H1 & _). congruence.
Qed.
