(* C11 / C03: every pattern the (repaired, F40) parser accepts passes the static nesting check of Spec/WorkSpec.v:
     parse s = Ok (inr p) -> cases_nested p = true.
   Architecture.
   (1) [nestP X q p d]: [nest] without fuel and without the "beyond the end of the pattern" case, as an inductive
       predicate; antitone in the depth d; [nz] = the same with an integer depth, a negative depth meaning "the walk has
       already returned" (a '}' may close a brace that was opened before the group).  A derivation for the untrimmed
       parser result gives [nest ... = true] on every prefix of it (the parser trims trailing atoms).
   (2) The parser back-patches: Case and Break operands are filled in later and '{' rewrites the last atom.  All facts
       are therefore stated for every list X that REFINES the current result: equal to it except at the last position
       and at the positions the open groups still have to patch (a Break stays a Break).  A later state refines an
       earlier one, so facts never have to be transported.
   (3) Invariant: (F1) every closed alternative (a patched Case k at pc) satisfies nestP X (pc+1+k) (pc+1) 0;
       (chain) for two adjacent open groups, a walk from the start of the outer group's current alternative leaves
       through the pending Breaks of the inner group or arrives at the inner group's current Case; (top) a walk from the
       start of the innermost current alternative arrives at the last atom or just behind it (two exits, because the
       Breaks of a group that has just been closed point behind the last atom while '{' may still rewrite it) with
       depth (brace depth - depth at the '(').  The repaired parser checks that this difference is 0 at '|' and ')'. *)
From PV.Model Require Import Machine Pattern.
From PV.Spec Require Import WorkSpec.
From PV.Proofs Require Import BaseProofs.
Local Open Scope nat_scope.

Definition eff (a : atom) : Z := match a with Push _ => 1%Z | Pop => (-1)%Z | _ => 0%Z end.
Definition ctl (a : atom) : bool := match a with Case _ | Break _ => true | _ => false end.
Definition flat_atom (a : atom) : bool := match a with Push _ | Pop | Case _ | Break _ => false | _ => true end.

Section NP.
  Variable X : list atom.
  Variable q : nat.
  Inductive nestP : nat -> nat -> Prop :=
  | NP_flat p d a : nth_error X p = Some a -> flat_atom a = true -> p < q -> nestP (S p) d -> nestP p d
  | NP_push p d k : nth_error X p = Some (Push k) -> p < q -> nestP (S p) (S d) -> nestP p d
  | NP_pop0 p : nth_error X p = Some Pop -> p < q -> nestP p 0
  | NP_pop p d : nth_error X p = Some Pop -> p < q -> nestP (S p) d -> nestP p (S d)
  | NP_brk0 p k : nth_error X p = Some (Break k) -> p < q -> nestP p 0
  | NP_brk p d k : nth_error X p = Some (Break k) -> p < q -> nestP (S p + N.to_nat k) d -> nestP p (S d)
  | NP_case p d k : nth_error X p = Some (Case k) -> p < q -> nestP (S p) (S d) -> nestP (S p + N.to_nat k) d -> nestP p d.

  Lemma nestP_anti p d : nestP p d -> forall d', d' <= d -> nestP p d'.
  Proof.
    induction 1 as [p d a Ha Hf Hq _ IH|p d k Ha Hq _ IH|p Ha Hq|p d Ha Hq _ IH|p k Ha Hq|p d k Ha Hq _ IH|p d k Ha Hq _ IH1 _ IH2];
      intros d' Hd.
    - eapply NP_flat; [exact Ha|exact Hf|exact Hq|apply IH; exact Hd].
    - eapply NP_push; [exact Ha|exact Hq|apply IH; lia].
    - replace d' with 0 by lia. eapply NP_pop0; eassumption.
    - destruct d' as [|d']; [eapply NP_pop0; eassumption|eapply NP_pop; [exact Ha|exact Hq|apply IH; lia]].
    - replace d' with 0 by lia. eapply NP_brk0; eassumption.
    - destruct d' as [|d']; [eapply NP_brk0; eassumption|eapply NP_brk; [exact Ha|exact Hq|apply IH; lia]].
    - eapply NP_case; [exact Ha|exact Hq|apply IH1; lia|apply IH2; lia].
  Qed.

  (* integer depth: negative = the walk has already returned true *)
  Definition nz (p : nat) (z : Z) : Prop := (z < 0)%Z \/ nestP p (Z.to_nat z).

  Lemma nz_anti p z z' : nz p z -> (z' <= z)%Z -> nz p z'.
  Proof.
    intros [H|H] Hz; [left; lia|]. destruct (Z.ltb_spec z' 0); [left; assumption|right].
    eapply nestP_anti; [exact H|lia].
  Qed.

  Lemma nz_step p a z : nth_error X p = Some a -> ctl a = false -> p < q -> nz (S p) (z + eff a) -> nz p z.
  Proof.
    intros Ha Hc Hq H. destruct (Z.ltb_spec z 0) as [Hz|Hz]; [left; assumption|right].
    destruct a; try discriminate Hc; cbn [eff] in H;
      try (destruct H as [H|H]; [lia|]; rewrite Z.add_0_r in H; eapply NP_flat; eauto; reflexivity).
    - (* Push *) destruct H as [H|H]; [lia|]. eapply NP_push; eauto. replace (S (Z.to_nat z)) with (Z.to_nat (z + 1)) by lia. exact H.
    - (* Pop *) destruct (Z.eqb_spec z 0) as [->|Hn]; [eapply NP_pop0; eauto|].
      destruct H as [H|H]; [lia|]. replace (Z.to_nat z) with (S (Z.to_nat (z + -1))) by lia. eapply NP_pop; eauto.
  Qed.

  Lemma nz_break0 p k z : nth_error X p = Some (Break k) -> p < q -> (z <= 0)%Z -> nz p z.
  Proof.
    intros Ha Hq Hz. destruct (Z.ltb_spec z 0); [left; assumption|right]. replace (Z.to_nat z) with 0 by lia. eapply NP_brk0; eauto.
  Qed.
  Lemma nz_break p k z : nth_error X p = Some (Break k) -> p < q -> nz (S p + N.to_nat k) (z - 1) -> nz p z.
  Proof.
    intros Ha Hq H. destruct (Z.leb_spec z 0) as [Hz|Hz]; [eapply nz_break0; eauto|right].
    destruct H as [H|H]; [lia|]. replace (Z.to_nat z) with (S (Z.to_nat (z - 1))) by lia. eapply NP_brk; eauto.
  Qed.
  Lemma nz_case p k z : nth_error X p = Some (Case k) -> p < q -> nz (S p) (z + 1) -> nz (S p + N.to_nat k) z -> nz p z.
  Proof.
    intros Ha Hq H1 H2. destruct (Z.ltb_spec z 0) as [Hz|Hz]; [left; assumption|right].
    destruct H1 as [H1|H1]; [lia|]. destruct H2 as [H2|H2]; [lia|].
    eapply NP_case; eauto. replace (S (Z.to_nat z)) with (Z.to_nat (z + 1)) by lia. exact H1.
  Qed.
  Lemma nz_zero p : nz p 0 -> nestP p 0.
  Proof. intros [H|H]; [lia|exact H]. Qed.

  (* the fuelled check of Spec/WorkSpec.v on any list Y of which X is an extension *)
  Lemma nestP_nest Y : (forall i a, nth_error Y i = Some a -> nth_error X i = Some a) ->
    forall p d, nestP p d -> forall f, 1 <= f -> length Y < f + p -> nest Y q f p d = true.
  Proof.
    intros Hpre p d H.
    induction H as [p d a Ha Hf Hq _ IH|p d k Ha Hq _ IH|p Ha Hq|p d Ha Hq _ IH|p k Ha Hq|p d k Ha Hq _ IH|p d k Ha Hq _ IH1 _ IH2];
      intros f Hf1 Hlen; (destruct f as [|f]; [lia|]); cbn [nest];
      (destruct (nth_error Y p) as [b|] eqn:Eb; [|reflexivity]);
      (assert (Hp : p < length Y) by (apply nth_error_Some; rewrite Eb; discriminate));
      apply Hpre in Eb; rewrite Ha in Eb; injection Eb as <-;
      (destruct (Nat.leb_spec q p); [lia|]).
    - destruct a; try discriminate Hf; apply IH; lia.
    - apply IH; lia.
    - reflexivity.
    - apply IH; lia.
    - reflexivity.
    - apply IH; lia.
    - rewrite IH1, IH2 by lia. reflexivity.
  Qed.
End NP.

(* ---------------------------------------------------------------- the parser trims a suffix *)
Lemma trim_rev_suffix l : exists s, l = s ++ trim_rev l.
Proof.
  induction l as [|a t [s IH]]; [exists []; reflexivity|]. cbn [trim_rev].
  destruct (is_redundant a); [exists (a :: s); cbn [app]; f_equal; exact IH|exists []; reflexivity].
Qed.
Lemma trim_prefix l : exists t, l = trim l ++ t.
Proof.
  unfold trim. destruct (trim_rev_suffix (rev l)) as [s Hs]. exists (rev s).
  rewrite <- rev_app_distr, <- Hs, rev_involutive. reflexivity.
Qed.

(* from derivations on the untrimmed result to the boolean check on the trimmed one *)
Lemma cases_nested_of_nestP res :
  (forall pc k, nth_error res pc = Some (Case k) -> nestP res (S pc + N.to_nat k) (S pc) 0) ->
  cases_nested (trim res) = true.
Proof.
  intros H. destruct (trim_prefix res) as [t Ht]. unfold cases_nested. apply forallb_forall. intros pc Hin.
  apply in_seq in Hin. unfold case_nested_at. destruct (nth_error (trim res) pc) as [a|] eqn:Ea; [|reflexivity].
  destruct a; try reflexivity.
  assert (Hpre : forall i a, nth_error (trim res) i = Some a -> nth_error res i = Some a).
  { intros i a Hi. rewrite Ht. rewrite nth_error_app1; [exact Hi|]. apply nth_error_Some. rewrite Hi. discriminate. }
  apply (nestP_nest res _ (trim res) Hpre _ _ (H pc k (Hpre _ _ Ea))); lia.
Qed.

(* ================================================================ list facts *)
From PV.Proofs Require Import PatSyntaxProofs.

Lemma nth_upd_same {A} (l : list A) : forall i x, i < length l -> nth_error (upd l i x) i = Some x.
Proof. induction l as [|h t IH]; intros [|i] x H; cbn [length] in H; cbn [upd nth_error]; try lia; [reflexivity|apply IH; lia]. Qed.
Lemma nth_upd_other {A} (l : list A) : forall i j x, j <> i -> nth_error (upd l i x) j = nth_error l j.
Proof.
  induction l as [|h t IH]; intros [|i] [|j] x H; cbn [upd nth_error]; try reflexivity; try lia. apply IH. lia.
Qed.

Lemma fill_inl brks e : fold_left (fun (acc : paterr + list atom) (brk : nat) =>
    match acc with inl e => inl e | inr r => inr r end) brks (inl e) = inl e.
Proof. induction brks; cbn; auto. Qed.

Lemma fill_breaks_gen (res : list atom) : forall (brks : list nat) (r r' : list atom),
  fold_left (fun (acc : paterr + list atom) brk =>
    match acc with
    | inl e => inl e
    | inr r => let off := (length res - brk - 1)%nat in
               if Nat.leb 256 off then inl SubOverflow else inr (upd r brk (Break (N.of_nat off)))
    end) brks (inr r) = inr r' ->
  length r = length res ->
  length r' = length res /\
  (forall j, ~ In j brks -> nth_error r' j = nth_error r j) /\
  (forall j, In j brks -> j < length res -> nth_error r' j = Some (Break (N.of_nat (length res - j - 1)))).
Proof.
  induction brks as [|b t IH]; intros r r' H Hl; cbn [fold_left] in H.
  - injection H as <-. split; [exact Hl|]. split; [reflexivity|intros j []].
  - cbv zeta in H. destruct (Nat.leb 256 (length res - b - 1)).
    + exfalso. revert H. clear. generalize SubOverflow. induction t as [|x t IHt]; intros e H; cbn [fold_left] in H; [discriminate|]. exact (IHt _ H).
    + destruct (IH _ _ H) as [A [B C]]; [rewrite upd_length; exact Hl|]. split; [exact A|]. split.
      * intros j Hj. rewrite B by (intros Hc; apply Hj; right; exact Hc). apply nth_upd_other. intros ->. apply Hj. left. reflexivity.
      * intros j Hj Hlt. destruct (in_dec Nat.eq_dec j t) as [Hin|Hnin]; [apply C; assumption|].
        destruct Hj as [->|Hj]; [|contradiction]. rewrite B by exact Hnin. apply nth_upd_same. lia.
Qed.

Lemma fill_breaks_spec (res : list atom) brks r' : fill_breaks res brks = inr r' ->
  length r' = length res /\
  (forall j, ~ In j brks -> nth_error r' j = nth_error res j) /\
  (forall j, In j brks -> j < length res -> nth_error r' j = Some (Break (N.of_nat (length res - j - 1)))).
Proof. intros H. apply (fill_breaks_gen res brks res r' H). reflexivity. Qed.

(* ================================================================ refinement and the invariant *)
Definition cases_of (subs : list sub) : list nat := map sb_case subs.
Definition brks_of (subs : list sub) : list nat := flat_map sb_brks subs.

Definition refines (X res : list atom) (subs : list sub) : Prop :=
  forall i a, S i < length res -> nth_error res i = Some a ->
    (In i (brks_of subs) -> exists k, nth_error X i = Some (Break k)) /\
    (~ In i (brks_of subs) -> ~ In i (cases_of subs) -> nth_error X i = Some a).

Fixpoint bk (subs : list sub) (hi : nat) : Prop :=
  match subs with
  | [] => True
  | sb :: tl => sb_case sb < hi /\
                (forall b, In b (sb_brks sb) -> b < sb_case sb /\ forall sb', In sb' tl -> sb_case sb' < b) /\
                bk tl (sb_case sb)
  end.

Lemma bk_mono subs hi hi' : hi <= hi' -> bk subs hi -> bk subs hi'.
Proof. destruct subs as [|sb tl]; cbn [bk]; [auto|]. intros H [A [B C]]. split; [lia|]. split; assumption. Qed.

Lemma bk_bound subs : forall hi, bk subs hi ->
  (forall i, In i (cases_of subs) -> i < hi) /\ (forall i, In i (brks_of subs) -> i < hi) /\
  (forall i, In i (brks_of subs) -> exists sb, In sb subs /\ i < sb_case sb).
Proof.
  induction subs as [|sb tl IH]; intros hi H; cbn [bk cases_of brks_of map flat_map] in *.
  - repeat split; intros i [].
  - destruct H as [A [B C]]. destruct (IH _ C) as [I1 [I2 I3]]. split; [|split].
    + intros i [<-|Hi]; [exact A|]. specialize (I1 i Hi). lia.
    + intros i Hi. apply in_app_or in Hi. destruct Hi as [Hi|Hi]; [destruct (B i Hi); lia|specialize (I2 i Hi); lia].
    + intros i Hi. apply in_app_or in Hi. destruct Hi as [Hi|Hi].
      * exists sb. split; [left; reflexivity|destruct (B i Hi); assumption].
      * destruct (I3 i Hi) as [sb' [S1 S2]]. exists sb'. split; [right; exact S1|exact S2].
Qed.

Lemma pend_notin tl m i : bk tl m -> m <= i -> ~ In i (brks_of tl) /\ ~ In i (cases_of tl).
Proof. intros H Hm. destruct (bk_bound tl m H) as [A [B _]]. split; intros Hi; [specialize (B i Hi)|specialize (A i Hi)]; lia. Qed.

Lemma bk_top_notin sb tl hi i : bk (sb :: tl) hi -> sb_case sb < i -> ~ In i (brks_of (sb :: tl)) /\ ~ In i (cases_of (sb :: tl)).
Proof.
  intros [A [B C]] Hi. destruct (pend_notin tl (sb_case sb) i C ltac:(lia)) as [P1 P2]. cbn [brks_of cases_of flat_map map]. split.
  - intros H. apply in_app_or in H. destruct H as [H|H]; [destruct (B i H); lia|exact (P1 H)].
  - intros [H|H]; [lia|exact (P2 H)].
Qed.

Lemma refines_at X res subs i a : refines X res subs -> S i < length res -> nth_error res i = Some a ->
  ~ In i (brks_of subs) -> ~ In i (cases_of subs) -> nth_error X i = Some a.
Proof. intros R Hi Ha H1 H2. exact (proj2 (R i a Hi Ha) H1 H2). Qed.

Lemma refines_same X res res' subs : length res <= length res' ->
  (forall i, S i < length res -> nth_error res' i = nth_error res i) -> refines X res' subs -> refines X res subs.
Proof. intros Hl He R i a Hi Ha. apply R; [lia|rewrite He; assumption]. Qed.

Definition dz (d : N) (sb : sub) : Z := (Z.of_N d - Z.of_N (sb_depth sb))%Z.
Definition efl (res : list atom) : Z := match nth_error res (length res - 1) with Some a => eff a | None => 0%Z end.

Definition F1 (X res : list atom) (subs : list sub) : Prop :=
  forall pc k, S pc < length res -> nth_error res pc = Some (Case k) -> ~ In pc (cases_of subs) ->
    nestP X (S pc + N.to_nat k) (S pc) 0.
Definition Alink (X : list atom) (outer inner : sub) : Prop :=
  forall q z, sb_case inner <= q ->
    (forall b, In b (sb_brks inner) -> nz X q b (z + dz (sb_depth inner) outer + 1)) ->
    nz X q (sb_case inner) (z + dz (sb_depth inner) outer) -> nz X q (S (sb_case outer)) z.
Fixpoint chain (X : list atom) (subs : list sub) : Prop :=
  match subs with
  | inner :: tl => match tl with outer :: _ => Alink X outer inner /\ chain X tl | [] => True end
  | [] => True
  end.
Definition Btop (X res : list atom) (depth : N) (subs : list sub) : Prop :=
  match subs with
  | [] => True
  | sb :: _ => forall q z, length res <= q ->
      (S (sb_case sb) < length res -> nz X q (length res - 1) (z + dz depth sb - efl res)) ->
      nz X q (length res) (z + dz depth sb) -> nz X q (S (sb_case sb)) z
  end.

Record Inv (res : list atom) (depth : N) (subs : list sub) : Prop := {
  i_bk : bk subs (length res);
  i_last : forall i a, S i = length res -> nth_error res i = Some a ->
             match a with
             | Break _ => False
             | Case _ => match subs with sb :: _ => sb_case sb = i | [] => False end
             | _ => True
             end;
  i_d0 : match subs with sb :: _ => S (sb_case sb) = length res -> depth = sb_depth sb | [] => True end;
  i_facts : forall X, refines X res subs -> F1 X res subs /\ chain X subs /\ Btop X res depth subs
}.
Arguments i_bk {res depth subs}.
Arguments i_last {res depth subs}.
Arguments i_d0 {res depth subs}.
Arguments i_facts {res depth subs}.

Lemma efl_snoc res a : efl (res ++ [a]) = eff a.
Proof.
  unfold efl. rewrite app_length. cbn [length]. replace (length res + 1 - 1) with (length res) by lia.
  rewrite nth_error_app2, Nat.sub_diag by lia. reflexivity.
Qed.

(* the last atom is fixed now: one exit *)
Lemma commit X res depth sb tl : Inv res depth (sb :: tl) -> refines X res (sb :: tl) ->
  (S (sb_case sb) < length res -> nth_error X (length res - 1) = nth_error res (length res - 1)) ->
  forall q z, length res <= q -> nz X q (length res) (z + dz depth sb) -> nz X q (S (sb_case sb)) z.
Proof.
  intros I R HX q z Hq H. destruct (i_facts I X R) as [_ [_ B]]. cbn [Btop] in B. apply (B q z Hq); [|exact H].
  intros Hlt. specialize (HX Hlt).
  destruct (nth_error res (length res - 1)) as [a|] eqn:Ea; [|apply nth_error_None in Ea; lia].
  unfold efl. rewrite Ea.
  pose proof (i_last I (length res - 1) a ltac:(lia) Ea) as HL.
  assert (Hc : ctl a = false). { destruct a; try reflexivity; simpl in HL; [lia|contradiction]. }
  apply (nz_step X q _ a); [exact HX|exact Hc|lia|]. replace (S (length res - 1)) with (length res) by lia.
  replace (z + dz depth sb - eff a + eff a)%Z with (z + dz depth sb)%Z by lia. exact H.
Qed.

(* ================================================================ the parser's moves keep the invariant *)
Ltac lens := repeat (progress (rewrite ?app_length in *; cbn [length] in * )).

(* one atom that is not Push / Case / Break is appended; a Pop lowers the depth *)
Lemma Inv_snoc res d d' subs a : ctl a = false -> (forall k, a <> Push k) -> (Z.of_N d' = Z.of_N d + eff a)%Z ->
  Inv res d subs -> Inv (res ++ [a]) d' subs.
Proof.
  intros Hc Hp Hd I. constructor.
  - rewrite app_length. eapply bk_mono; [|apply (i_bk I)]. lia.
  - intros i b Hi Hb. rewrite app_length in Hi. cbn [length] in Hi. assert (i = length res) by lia. subst i.
    rewrite nth_error_app2, Nat.sub_diag in Hb by lia. injection Hb as <-. destruct a; try exact Logic.I; discriminate Hc.
  - destruct subs as [|sb tl]; [exact Logic.I|]. intros H. rewrite app_length in H. cbn [length] in H.
    pose proof (i_bk I) as [Hb _]. lia.
  - intros X R.
    assert (R0 : refines X res subs).
    { eapply refines_same; [| |exact R]; [rewrite app_length; lia|]. intros i Hi. apply nth_error_app1. lia. }
    destruct (i_facts I X R0) as [HF1 [HCh HB]]. split; [|split; [exact HCh|]].
    + intros pc k Hpc Hn Hnin. rewrite app_length in Hpc. cbn [length] in Hpc.
      destruct (Nat.eq_dec (S pc) (length res)) as [E|E].
      * rewrite nth_error_app1 in Hn by lia. pose proof (i_last I pc _ E Hn) as HL. simpl in HL.
        destruct subs as [|sb tl]; [contradiction|]. exfalso. apply Hnin. left. exact HL.
      * destruct (lt_dec (S pc) (length res)) as [L|L].
        -- apply HF1; [exact L| rewrite nth_error_app1 in Hn by lia; exact Hn|exact Hnin].
        -- rewrite nth_error_app2 in Hn by lia. replace (pc - length res) with 0 in Hn by lia. injection Hn as ->. discriminate Hc.
    + destruct subs as [|sb tl]; [exact Logic.I|]. cbn [Btop]. intros q z Hq H1 _.
      assert (Hc' : sb_case sb < length res) by (exact (proj1 (i_bk I))).
      rewrite efl_snoc in H1. rewrite app_length in *. cbn [length] in *.
      specialize (H1 ltac:(lia)). replace (length res + 1 - 1) with (length res) in H1 by lia.
      apply (commit X res d sb tl I R0); [|lia|].
      * intros Hlt. destruct (nth_error res (length res - 1)) as [a0|] eqn:Ea; [|apply nth_error_None in Ea; lia].
        destruct (bk_top_notin sb tl _ (length res - 1) (i_bk I) ltac:(lia)) as [N1 N2].
        apply (refines_at X (res ++ [a]) (sb :: tl)); [exact R|rewrite app_length; cbn [length]; lia| |exact N1|exact N2].
        rewrite nth_error_app1 by lia. exact Ea.
      * replace (z + dz d sb)%Z with (z + dz d' sb - eff a)%Z by (unfold dz; lia). exact H1.
Qed.

Lemma Inv_snoc_flat res d subs a : Inv res d subs -> flat_atom a = true -> Inv (res ++ [a]) d subs.
Proof.
  intros I Hf. apply (Inv_snoc res d d subs a); [destruct a; try reflexivity; discriminate Hf|intros k ->; discriminate Hf| |exact I].
  destruct a; try discriminate Hf; cbn [eff]; lia.
Qed.

Lemma Inv_app_flat l : forall res d subs, Inv res d subs -> forallb flat_atom l = true -> Inv (res ++ l) d subs.
Proof.
  induction l as [|a l IH]; intros res d subs I H; [rewrite app_nil_r; exact I|].
  cbn [forallb] in H. apply andb_prop in H. destruct H as [Ha Hl].
  replace (res ++ a :: l) with ((res ++ [a]) ++ l) by (rewrite <- app_assoc; reflexivity).
  apply IH; [apply Inv_snoc_flat; assumption|exact Hl].
Qed.

(* the last atom is replaced by another one of the same kind ('?' extends a Skip) *)
Lemma Inv_relast R a a' d subs : flat_atom a = true -> flat_atom a' = true -> Inv (R ++ [a]) d subs -> Inv (R ++ [a']) d subs.
Proof.
  intros Ha Ha' I.
  assert (EL : length (R ++ [a']) = length (R ++ [a])) by (rewrite !app_length; reflexivity).
  assert (Eeff : forall b, flat_atom b = true -> eff b = 0%Z) by (intros b Hb; destruct b; try discriminate Hb; reflexivity).
  constructor.
  - rewrite EL. apply (i_bk I).
  - intros i b Hi Hb. rewrite app_length in Hi. cbn [length] in Hi. rewrite nth_error_app2 in Hb by lia.
    replace (i - length R) with 0 in Hb by lia. injection Hb as <-. destruct a'; try exact Logic.I; discriminate Ha'.
  - rewrite EL. apply (i_d0 I).
  - intros X Rf.
    assert (R0 : refines X (R ++ [a]) subs).
    { eapply refines_same; [| |exact Rf]; [rewrite EL; lia|]. intros i Hi. rewrite app_length in Hi. cbn [length] in Hi.
      rewrite !nth_error_app1 by lia. reflexivity. }
    destruct (i_facts I X R0) as [HF1 [HCh HB]]. split; [|split; [exact HCh|]].
    + intros pc k Hpc Hn Hnin. rewrite EL in Hpc. apply HF1; [exact Hpc| |exact Hnin].
      rewrite app_length in Hpc. cbn [length] in Hpc. rewrite nth_error_app1 in Hn |- * by lia. exact Hn.
    + destruct subs as [|sb tl]; [exact Logic.I|]. cbn [Btop] in *. rewrite EL, !efl_snoc, (Eeff _ Ha'). rewrite efl_snoc, (Eeff _ Ha) in HB. exact HB.
Qed.

(* '{' : the jump at the end becomes Push k; jump *)
Lemma Inv_open R J k d subs : flat_atom J = true -> Inv (R ++ [J]) d subs -> Inv (R ++ [Push k; J]) (d + 1) subs.
Proof.
  intros HJ I.
  assert (EJ : eff J = 0%Z) by (destruct J; try discriminate HJ; reflexivity).
  assert (EL : length (R ++ [Push k; J]) = S (length (R ++ [J]))) by (rewrite !app_length; cbn [length]; lia).
  assert (ELJ : length (R ++ [J]) = S (length R)) by (rewrite app_length; cbn [length]; lia).
  constructor.
  - rewrite EL. eapply bk_mono; [|apply (i_bk I)]. lia.
  - intros i b Hi Hb. rewrite EL, ELJ in Hi. rewrite nth_error_app2 in Hb by lia. replace (i - length R) with 1 in Hb by lia.
    injection Hb as <-. destruct J; try exact Logic.I; discriminate HJ.
  - destruct subs as [|sb tl]; [exact Logic.I|]. intros H. pose proof (i_bk I) as [Hb _]. rewrite EL in H. lia.
  - intros X Rf.
    assert (R0 : refines X (R ++ [J]) subs).
    { eapply refines_same; [| |exact Rf]; [lia|]. intros i Hi. rewrite ELJ in Hi. rewrite !nth_error_app1 by lia. reflexivity. }
    destruct (i_facts I X R0) as [HF1 [HCh HB]]. split; [|split; [exact HCh|]].
    + intros pc kk Hpc Hn Hnin. rewrite EL, ELJ in Hpc. destruct (Nat.eq_dec pc (length R)) as [->|Ne].
      * rewrite nth_error_app2, Nat.sub_diag in Hn by lia. discriminate Hn.
      * apply HF1; [lia| |exact Hnin]. rewrite nth_error_app1 in Hn |- * by lia. exact Hn.
    + destruct subs as [|sb tl]; [exact Logic.I|]. cbn [Btop] in *. intros q z Hq H1 _.
      pose proof (i_bk I) as BK. assert (Hc' : sb_case sb < length (R ++ [J])) by (exact (proj1 BK)).
      replace (efl (R ++ [Push k; J])) with 0%Z in H1
        by (replace (R ++ [Push k; J]) with ((R ++ [Push k]) ++ [J]) by (rewrite <- app_assoc; reflexivity); rewrite efl_snoc; lia).
      rewrite EL in H1, Hq. specialize (H1 ltac:(lia)). replace (S (length (R ++ [J])) - 1) with (length (R ++ [J])) in H1 by lia.
      destruct (Nat.eq_dec (S (sb_case sb)) (length (R ++ [J]))) as [E|E].
      * pose proof (i_d0 I E) as Hd. rewrite E. eapply nz_anti; [exact H1|]. unfold dz. lia.
      * assert (HX : nth_error X (length R) = Some (Push k)).
        { destruct (bk_top_notin sb tl _ (length R) BK ltac:(lia)) as [N1 N2].
          apply (refines_at X (R ++ [Push k; J]) (sb :: tl)); [exact Rf|lia| |exact N1|exact N2].
          rewrite nth_error_app2, Nat.sub_diag by lia. reflexivity. }
        apply (HB q z); [lia| |].
        -- intros _. rewrite efl_snoc, EJ, ELJ. replace (S (length R) - 1) with (length R) by lia.
           apply (nz_step X q _ (Push k)); [exact HX|reflexivity|lia|]. cbn [eff]. rewrite <- ELJ.
           eapply nz_anti; [exact H1|]. unfold dz. lia.
        -- eapply nz_anti; [exact H1|]. unfold dz. lia.
Qed.

(* '(' *)
Lemma Inv_lparen res d subs s sn : Inv res d subs ->
  Inv (res ++ [Case 0]) d ({| sb_case := length res; sb_brks := []; sb_save := s; sb_save_next := sn; sb_depth := d |} :: subs).
Proof.
  intros I. set (new := {| sb_case := length res; sb_brks := []; sb_save := s; sb_save_next := sn; sb_depth := d |}).
  assert (EL : length (res ++ [Case 0]) = S (length res)) by (rewrite app_length; cbn [length]; lia).
  constructor.
  - cbn [bk]. rewrite EL. split; [cbn; lia|]. split; [intros b []|exact (i_bk I)].
  - intros i b Hi Hb. rewrite EL in Hi. assert (i = length res) by lia. subst i.
    rewrite nth_error_app2, Nat.sub_diag in Hb by lia. injection Hb as <-. reflexivity.
  - intros _. reflexivity.
  - intros X Rf.
    assert (R0 : refines X res subs).
    { intros i a Hi Ha. destruct (Rf i a) as [P1 P2]; [rewrite EL; lia|rewrite nth_error_app1 by lia; exact Ha|].
      split; [exact P1|]. intros N1 N2. apply P2; [exact N1|]. cbn [cases_of map]. intros [E|E]; [cbn in E; lia|exact (N2 E)]. }
    destruct (i_facts I X R0) as [HF1 [HCh HB]]. split; [|split].
    + intros pc k Hpc Hn Hnin. rewrite EL in Hpc. cbn [cases_of map] in Hnin.
      assert (Hnin' : ~ In pc (cases_of subs)) by (intros E; apply Hnin; right; exact E).
      rewrite nth_error_app1 in Hn by lia.
      destruct (Nat.eq_dec (S pc) (length res)) as [E|E]; [|apply HF1; [lia|exact Hn|exact Hnin']].
      pose proof (i_last I pc _ E Hn) as HL. simpl in HL. destruct subs as [|sb tl]; [contradiction|].
      exfalso. apply Hnin'. left. exact HL.
    + cbn [chain]. destruct subs as [|sb tl]; [exact Logic.I|]. split; [|exact HCh].
      intros q z Hq _ H. cbn [sb_case sb_depth new] in *.
      apply (commit X res d sb tl I R0); [|exact Hq|exact H].
      intros Hlt. destruct (nth_error res (length res - 1)) as [a0|] eqn:Ea; [|apply nth_error_None in Ea; lia].
      destruct (bk_top_notin sb tl _ (length res - 1) (i_bk I) ltac:(lia)) as [N1 N2].
      apply (refines_at X (res ++ [Case 0]) (new :: sb :: tl)); [exact Rf|lia|rewrite nth_error_app1 by lia; exact Ea|exact N1|].
      change (cases_of (new :: sb :: tl)) with (length res :: cases_of (sb :: tl)). intros [E|E]; [lia|exact (N2 E)].
    + cbn [Btop]. intros q z Hq _ H. cbn [sb_case new]. rewrite EL in H.
      eapply nz_anti; [exact H|]. unfold dz. cbn [sb_depth new]. lia.
Qed.

(* '|' : the alternative is closed; its brace depth is back at the depth of the '(' (the F40 repair) *)
Lemma Inv_pipe res sb tl :
  let koff := N.of_nat (length (res ++ [Break 0]) - sb_case sb - 1) in
  let r2 := upd (res ++ [Break 0]) (sb_case sb) (Case koff) in
  forall s sn,
  Inv res (sb_depth sb) (sb :: tl) ->
  Inv (r2 ++ [Case 0]) (sb_depth sb)
      ({| sb_case := length r2; sb_brks := sb_brks sb ++ [length res]; sb_save := s; sb_save_next := sn; sb_depth := sb_depth sb |} :: tl).
Proof.
  intros koff r2 s sn I.
  set (c := sb_case sb) in *. set (len := length res) in *.
  set (sb' := {| sb_case := length r2; sb_brks := sb_brks sb ++ [len]; sb_save := s; sb_save_next := sn; sb_depth := sb_depth sb |}).
  pose proof (i_bk I) as BK. destruct BK as [Hc [Hbr Htl]]. fold c in Hc, Hbr, Htl. fold len in Hc.
  assert (Lr2 : length r2 = S len) by (unfold r2; rewrite upd_length, app_length; cbn [length]; fold len; lia).
  assert (EL : length (r2 ++ [Case 0]) = S (S len)) by (rewrite app_length, Lr2; cbn [length]; lia).
  assert (Ek : S c + N.to_nat koff = S len).
  { unfold koff. rewrite Nat2N.id, app_length. cbn [length]. fold len c. lia. }
  assert (Nlow : forall i, i < len -> i <> c -> nth_error (r2 ++ [Case 0]) i = nth_error res i).
  { intros i Hi Hne. rewrite nth_error_app1 by lia. unfold r2. rewrite nth_upd_other by exact Hne. apply nth_error_app1. exact Hi. }
  assert (Nc : nth_error (r2 ++ [Case 0]) c = Some (Case koff)).
  { rewrite nth_error_app1 by lia. unfold r2. apply nth_upd_same. rewrite app_length. cbn [length]. fold len. lia. }
  assert (Nlen : nth_error (r2 ++ [Case 0]) len = Some (Break 0)).
  { rewrite nth_error_app1 by lia. unfold r2. rewrite nth_upd_other by lia. rewrite nth_error_app2, Nat.sub_diag by (fold len; lia). reflexivity. }
  assert (Ecs : cases_of (sb' :: tl) = S len :: cases_of tl) by (cbn [cases_of map sb_case sb']; rewrite Lr2; reflexivity).
  assert (Ebs : brks_of (sb' :: tl) = (sb_brks sb ++ [len]) ++ brks_of tl) by reflexivity.
  destruct (bk_bound tl c Htl) as [TC [TB _]].
  constructor.
  - cbn [bk sb_case sb_brks sb']. rewrite EL, Lr2. split; [lia|]. split; [|eapply bk_mono; [|exact Htl]; lia].
    intros b Hb. apply in_app_or in Hb. destruct Hb as [Hb|[<-|[]]].
    + destruct (Hbr b Hb) as [B1 B2]. split; [lia|exact B2].
    + split; [lia|]. intros sb'' Hs. assert (In (sb_case sb'') (cases_of tl)) by (apply in_map; exact Hs). specialize (TC _ H). lia.
  - intros i b Hi Hb. rewrite EL in Hi. assert (i = S len) by lia. subst i.
    rewrite nth_error_app2 in Hb by lia. rewrite Lr2, Nat.sub_diag in Hb. injection Hb as <-. cbn [sb_case sb']. exact Lr2.
  - intros _. reflexivity.
  - intros X Rf.
    assert (R0 : refines X res (sb :: tl)).
    { intros i a Hi Ha. fold len in Hi. split.
      - intros Hin. assert (Hic : i <> c).
        { cbn [brks_of flat_map] in Hin. apply in_app_or in Hin. destruct Hin as [Hin|Hin]; [destruct (Hbr i Hin); lia|specialize (TB i Hin); lia]. }
        destruct (Rf i a) as [P1 _]; [rewrite EL; lia|rewrite Nlow by lia; exact Ha|]. apply P1. rewrite Ebs.
        cbn [brks_of flat_map] in Hin. apply in_app_or in Hin. destruct Hin as [Hin|Hin]; apply in_or_app; [left; apply in_or_app; left; exact Hin|right; exact Hin].
      - intros N1 N2. assert (Hic : i <> c) by (intros ->; apply N2; left; reflexivity).
        destruct (Rf i a) as [_ P2]; [rewrite EL; lia|rewrite Nlow by lia; exact Ha|]. apply P2.
        + rewrite Ebs. intros Hin. apply in_app_or in Hin. destruct Hin as [Hin|Hin].
          * apply in_app_or in Hin. destruct Hin as [Hin|[E|[]]]; [apply N1; cbn [brks_of flat_map]; apply in_or_app; left; exact Hin|lia].
          * apply N1. cbn [brks_of flat_map]. apply in_or_app. right. exact Hin.
        + rewrite Ecs. intros [E|E]; [lia|]. apply N2. right. exact E. }
    destruct (i_facts I X R0) as [HF1 [HCh HB]].
    (* what X looks like at the new positions *)
    assert (HXlen : exists k', nth_error X len = Some (Break k')).
    { destruct (Rf len (Break 0)) as [P1 _]; [rewrite EL; lia|exact Nlen|]. apply P1. rewrite Ebs. apply in_or_app. left. apply in_or_app. right. left. reflexivity. }
    assert (HXlast : S c < len -> nth_error X (len - 1) = nth_error res (len - 1)).
    { intros Hlt. destruct (nth_error res (len - 1)) as [a0|] eqn:Ea; [|apply nth_error_None in Ea; fold len in Ea; lia].
      apply (refines_at X (r2 ++ [Case 0]) (sb' :: tl)); [exact Rf|rewrite EL; lia|rewrite Nlow by lia; exact Ea| |].
      - rewrite Ebs. intros Hin. apply in_app_or in Hin. destruct Hin as [Hin|Hin]; [|specialize (TB _ Hin); lia].
        apply in_app_or in Hin. destruct Hin as [Hin|[E|[]]]; [destruct (Hbr _ Hin); lia|lia].
      - rewrite Ecs. intros [E|E]; [lia|specialize (TC _ E); lia]. }
    assert (Hdz : dz (sb_depth sb) sb = 0%Z) by (unfold dz; lia).
    assert (COM : forall q z, len <= q -> nz X q len z -> nz X q (S c) z).
    { intros q z Hq H. apply (commit X res (sb_depth sb) sb tl I R0 HXlast q z Hq). rewrite Hdz, Z.add_0_r. exact H. }
    split; [|split].
    + intros pc k Hpc Hn Hnin. rewrite EL in Hpc. rewrite Ecs in Hnin.
      destruct (Nat.eq_dec pc c) as [->|Ne].
      * rewrite Nc in Hn. injection Hn as <-. rewrite Ek. apply nz_zero. apply COM; [lia|].
        destruct HXlen as [k' Hk']. apply (nz_break0 X _ _ k'); [exact Hk'|lia|lia].
      * assert (pc <> S len) by (intros ->; apply Hnin; left; reflexivity).
        assert (pc <> len) by (intros ->; rewrite Nlen in Hn; discriminate Hn).
        rewrite Nlow in Hn by lia.
        assert (Hnin' : ~ In pc (cases_of (sb :: tl))) by (intros [E|E]; [fold c in E; lia|apply Hnin; right; exact E]).
        destruct (Nat.eq_dec (S pc) len) as [E|E]; [|apply HF1; [fold len; lia|exact Hn|exact Hnin']].
        pose proof (i_last I pc _ E Hn) as HL. simpl in HL. fold c in HL. lia.
    + cbn [chain]. destruct tl as [|outer tl']; [exact Logic.I|]. destruct HCh as [HA HCh]. split; [|exact HCh].
      intros q z Hq Hb H. cbn [sb_case sb_brks sb_depth sb'] in *. rewrite Lr2 in *.
      apply (HA q z); [fold c; lia| |].
      * intros b Hin. apply Hb. apply in_or_app. left. exact Hin.
      * fold c. apply (nz_case X q c koff).
        -- apply (refines_at X (r2 ++ [Case 0]) (sb' :: outer :: tl')); [exact Rf|rewrite EL; lia|exact Nc| |].
           ++ rewrite Ebs. intros Hin. apply in_app_or in Hin. destruct Hin as [Hin|Hin]; [|specialize (TB _ Hin); lia].
              apply in_app_or in Hin. destruct Hin as [Hin|[E|[]]]; [destruct (Hbr _ Hin); lia|lia].
           ++ rewrite Ecs. intros [E|E]; [lia|specialize (TC _ E); lia].
        -- lia.
        -- apply COM; [lia|]. apply Hb. apply in_or_app. right. left. reflexivity.
        -- rewrite Ek. exact H.
    + cbn [Btop]. intros q z Hq _ H. cbn [sb_case sb']. rewrite Lr2. rewrite EL in H.
      eapply nz_anti; [exact H|]. unfold dz. cbn [sb_depth sb']. lia.
Qed.

(* ')' : the last alternative is closed (same check), its Case becomes Nop, the Breaks get their target = the length *)
Lemma Inv_rparen res sb tl res' :
  fill_breaks (upd res (sb_case sb) Nop) (sb_brks sb) = inr res' ->
  Inv res (sb_depth sb) (sb :: tl) -> Inv res' (sb_depth sb) tl.
Proof.
  intros HF I.
  set (c := sb_case sb) in *. set (len := length res) in *.
  pose proof (i_bk I) as BK. destruct BK as [Hc [Hbr Htl]]. fold c in Hc, Hbr, Htl. fold len in Hc.
  destruct (fill_breaks_spec _ _ _ HF) as [EL [Fo Fb]]. rewrite upd_length in EL, Fb. fold len in EL, Fb.
  destruct (bk_bound tl c Htl) as [TC [TB TBC]].
  assert (Ncb : ~ In c (sb_brks sb)) by (intros Hin; destruct (Hbr c Hin); lia).
  assert (Nc : nth_error res' c = Some Nop) by (rewrite Fo by exact Ncb; apply nth_upd_same; exact Hc).
  assert (Nlow : forall i, i <> c -> ~ In i (sb_brks sb) -> nth_error res' i = nth_error res i).
  { intros i H1 H2. rewrite Fo by exact H2. apply nth_upd_other. exact H1. }
  assert (Nb : forall b, In b (sb_brks sb) -> nth_error res' b = Some (Break (N.of_nat (len - b - 1))) /\ S b + N.to_nat (N.of_nat (len - b - 1)) = len /\ b < c).
  { intros b Hin. destruct (Hbr b Hin) as [B1 _]. split; [apply Fb; [exact Hin|lia]|]. rewrite Nat2N.id. lia. }
  assert (Nlast : S c < len -> nth_error res' (len - 1) = nth_error res (len - 1)).
  { intros Hlt. apply Nlow; [lia|]. intros Hin. destruct (Hbr _ Hin). lia. }
  constructor.
  - rewrite EL. eapply bk_mono; [|exact Htl]. lia.
  - intros i a Hi Ha. rewrite EL in Hi. destruct (Nat.eq_dec i c) as [->|Ne].
    + rewrite Nc in Ha. injection Ha as <-. exact Logic.I.
    + assert (S c < len) by lia. replace i with (len - 1) in * by lia. rewrite Nlast in Ha by assumption.
      pose proof (i_last I (len - 1) a ltac:(fold len; lia) Ha) as HL.
      destruct a; try exact Logic.I; simpl in HL; [fold c in HL; lia|contradiction].
  - destruct tl as [|outer tl']; [exact Logic.I|]. intros E. rewrite EL in E. destruct Htl as [Ho _]. lia.
  - intros X Rf.
    assert (R0 : refines X res (sb :: tl)).
    { intros i a Hi Ha. fold len in Hi. split.
      - intros Hin. destruct (in_dec Nat.eq_dec i (brks_of tl)) as [Ht|Ht].
        + assert (exists a', nth_error res' i = Some a') as [a' Ha'].
          { destruct (nth_error res' i) eqn:E; [eexists; reflexivity|apply nth_error_None in E; lia]. }
          destruct (Rf i a') as [P1 _]; [lia|exact Ha'|]. exact (P1 Ht).
        + cbn [brks_of flat_map] in Hin. apply in_app_or in Hin. destruct Hin as [Hin|Hin]; [|contradiction].
          destruct (Nb i Hin) as [B1 [B2 B3]]. exists (N.of_nat (len - i - 1)).
          apply (refines_at X res' tl); [exact Rf|lia|exact B1|exact Ht|].
          intros Hc'. apply in_map_iff in Hc'. destruct Hc' as [sb'' [E1 E2]]. destruct (Hbr i Hin) as [_ B4]. specialize (B4 _ E2). lia.
      - intros N1 N2. cbn [brks_of flat_map cases_of map] in N1, N2.
        assert (i <> c) by (intros ->; apply N2; left; reflexivity).
        assert (~ In i (sb_brks sb)) by (intros Hin; apply N1; apply in_or_app; left; exact Hin).
        apply (refines_at X res' tl); [exact Rf|lia|rewrite Nlow by assumption; exact Ha| |].
        + intros Hin. apply N1. apply in_or_app. right. exact Hin.
        + intros Hin. apply N2. right. exact Hin. }
    destruct (i_facts I X R0) as [HF1 [HCh HB]]. split; [|split].
    + intros pc k Hpc Hn Hnin. rewrite EL in Hpc.
      assert (pc <> c) by (intros ->; rewrite Nc in Hn; discriminate Hn).
      assert (~ In pc (sb_brks sb)) by (intros Hin; destruct (Nb pc Hin) as [B1 _]; rewrite B1 in Hn; discriminate Hn).
      rewrite Nlow in Hn by assumption. apply HF1; [fold len; lia|exact Hn|].
      intros [E|E]; [fold c in E; lia|exact (Hnin E)].
    + cbn [chain] in HCh. destruct tl as [|outer tl']; [exact Logic.I|]. exact (proj2 HCh).
    + destruct tl as [|outer tl']; [exact Logic.I|]. cbn [Btop]. cbn [chain] in HCh. destruct HCh as [HA _].
      intros q z Hq H1 H2. rewrite EL in *.
      pose proof Htl as Htl2. destruct Htl as [Ho _].
      specialize (H1 ltac:(lia)).
      set (dl := dz (sb_depth sb) outer) in *.
      apply (HA q z); [fold c; lia| |].
      * intros b Hin. destruct (Nb b Hin) as [B1 [B2 B3]].
        assert (HXb : nth_error X b = Some (Break (N.of_nat (len - b - 1)))).
        { apply (refines_at X res' (outer :: tl')); [exact Rf|lia|exact B1| |].
          - intros Hin'. destruct (TBC b Hin') as [sb'' [S1 S2]]. destruct (Hbr b Hin) as [_ B4]. specialize (B4 _ S1). lia.
          - intros Hin'. apply in_map_iff in Hin'. destruct Hin' as [sb'' [E1 E2]]. destruct (Hbr b Hin) as [_ B4]. specialize (B4 _ E2). lia. }
        apply (nz_break X q b _ _ HXb); [lia|]. rewrite B2. fold dl. replace (z + dl + 1 - 1)%Z with (z + dl)%Z by lia. exact H2.
      * fold c. fold dl. destruct (Nat.eq_dec (S c) len) as [E|E].
        -- replace c with (len - 1) by lia. unfold efl in H1. rewrite EL in H1. replace (len - 1) with c in H1 by lia. rewrite Nc in H1. cbn [eff] in H1.
           replace c with (len - 1) in H1 by lia. rewrite Z.sub_0_r in H1. exact H1.
        -- assert (HXc : nth_error X c = Some Nop).
           { destruct (pend_notin (outer :: tl') c c Htl2 ltac:(lia)) as [N1 N2].
             apply (refines_at X res' (outer :: tl')); [exact Rf|lia|exact Nc|exact N1|exact N2]. }
           apply (nz_step X q c Nop _ HXc); [reflexivity|lia|]. cbn [eff]. rewrite Z.add_0_r.
           cbn [Btop] in HB. apply (HB q (z + dl)%Z); [fold len; lia| |].
           ++ intros _. fold len. assert (Hdz : dz (sb_depth sb) sb = 0%Z) by (unfold dz; lia). rewrite Hdz, Z.add_0_r.
              unfold efl in H1 |- *. rewrite EL in H1. fold len. rewrite Nlast in H1 by lia. exact H1.
           ++ fold len. assert (Hdz : dz (sb_depth sb) sb = 0%Z) by (unfold dz; lia). rewrite Hdz, Z.add_0_r. exact H2.
Qed.

(* ================================================================ every iteration of the parser keeps the invariant *)
Local Open Scope N_scope.
Definition InvS (st : pstate) : Prop := Inv (p_res st) (p_depth st) (p_subs st).

Lemma parse_quote_inv : forall rest res r1 r d subs, parse_quote rest res = inr (r1, r) -> Inv res d subs -> Inv r1 d subs.
Proof.
  induction rest as [|c rest IH]; intros res r1 r d subs H I; cbn [parse_quote] in H; [discriminate|].
  destruct (c =? 34); [injection H as <- _; exact I|]. eapply IH; [exact H|]. apply Inv_snoc_flat; [exact I|reflexivity].
Qed.

Ltac fin H I :=
  injection H as <- _ _; cbn [p_res p_depth p_subs];
  repeat match goal with |- context [if ?c then _ else _] => destruct c end;
  repeat (apply Inv_snoc_flat; [|reflexivity]); exact I.

Lemma pstep_inv st chr rest st' rest' u : pstep st chr rest = inr (st', rest', u) -> InvS st -> InvS st'.
Proof.
  unfold InvS, pstep. intros H I. cbv zeta in H.
  destruct (chr =? 37); [fin H I|]. destruct (chr =? 36); [fin H I|]. destruct (chr =? 42); [fin H I|].
  destruct (chr =? 123).
  { destruct (negb (Nat.ltb (p_barrier st) (length (p_res st)))); [discriminate|].
    destruct (last_atom (p_res st)) as [a|] eqn:EL; [|discriminate].
    destruct a; try discriminate;
      (destruct (last_atom_inv _ _ EL) as [R ER]; injection H as <- _ _; cbn [p_res p_depth p_subs]; rewrite ER in I |- *;
       rewrite set_last_snoc, <- app_assoc; cbn [app]; apply Inv_open; [reflexivity|exact I]). }
  destruct (chr =? 125).
  { destruct (p_depth st <=? match p_subs st with sb :: _ => sb_depth sb | [] => 0 end) eqn:E0; [discriminate|]. injection H as <- _ _. cbn [p_res p_depth p_subs].
    apply (Inv_snoc _ (p_depth st)); [reflexivity|intros k; discriminate|cbn [eff]; lia|exact I]. }
  destruct (chr =? 40).
  { injection H as <- _ _. cbn [p_res p_depth p_subs]. apply Inv_lparen. exact I. }
  destruct (chr =? 124).
  { destruct (p_subs st) as [|sb subs] eqn:ES; [discriminate|].
    destruct (negb (p_depth st =? sb_depth sb)) eqn:ED; [discriminate|].
    destruct (Nat.leb 256 (length (p_res st ++ [Break 0]) - sb_case sb - 1)%nat); [discriminate|].
    injection H as <- _ _. cbn [p_res p_depth p_subs].
    assert (Hd : p_depth st = sb_depth sb) by (apply negb_false_iff in ED; lia). rewrite Hd in I.
    apply (Inv_pipe (p_res st) sb subs). exact I. }
  destruct (chr =? 41).
  { destruct (p_subs st) as [|sb subs] eqn:ES; [discriminate|].
    destruct (negb (p_depth st =? sb_depth sb)) eqn:ED; [discriminate|].
    destruct (fill_breaks (upd (p_res st) (sb_case sb) Nop) (sb_brks sb)) as [e|res2] eqn:EF; [discriminate|].
    injection H as <- _ _. cbn [p_res p_depth p_subs].
    assert (Hd : p_depth st = sb_depth sb) by (apply negb_false_iff in ED; lia). rewrite Hd in I.
    exact (Inv_rparen _ _ _ _ EF I). }
  destruct (chr =? 91).
  { destruct (parse_num rest 0 false true) as [e|[[[lower any] term] rest1]]; [discriminate|].
    destruct (negb any); [discriminate|]. destruct (term =? 93); [fin H I|].
    destruct (parse_num rest1 0 false false) as [e|[[[upper any2] term2] rest2]]; [discriminate|].
    destruct (lower <? upper); [fin H I|discriminate]. }
  destruct (is_digit chr || (65 <=? chr) && (chr <=? 70) || (97 <=? chr) && (chr <=? 102)).
  { destruct rest as [|c rest1]; [discriminate|]. destruct (hexval c); [fin H I|discriminate]. }
  destruct (chr =? 34).
  { destruct (parse_quote rest (p_res st)) as [e|[res1 rest1]] eqn:EQ; [discriminate|].
    injection H as <- _ _. cbn [p_res p_depth p_subs]. exact (parse_quote_inv _ _ _ _ _ _ EQ I). }
  destruct (chr =? 39). { destruct (255 <=? p_save st); [discriminate|fin H I]. }
  destruct (chr =? 63).
  { destruct (last_atom (p_res st)) as [a|] eqn:EL; [|fin H I].
    destruct a; try (fin H I).
    destruct (Nat.ltb (p_barrier st) (length (p_res st)) && negb (k =? 0) && (k <? 255)); [|fin H I].
    destruct (last_atom_inv _ _ EL) as [R ER]. injection H as <- _ _. cbn [p_res p_depth p_subs]. rewrite ER in I |- *.
    rewrite set_last_snoc. exact (Inv_relast R (Skip k) (Skip (k + 1)) _ _ eq_refl eq_refl I). }
  destruct (chr =? 64).
  { destruct rest as [|op rest1]; [discriminate|].
    destruct ((48 <=? op) && (op <=? 57)); [fin H I|]. destruct ((65 <=? op) && (op <=? 90)); [fin H I|].
    destruct ((97 <=? op) && (op <=? 122)); [fin H I|discriminate]. }
  destruct ((chr =? 105) || (chr =? 117)).
  { destruct rest as [|c rest1]; [discriminate|].
    destruct (c =? 49); [destruct (255 <=? p_save st); [discriminate|fin H I]|].
    destruct (c =? 50); [destruct (255 <=? p_save st); [discriminate|fin H I]|].
    destruct (c =? 52); [destruct (255 <=? p_save st); [discriminate|fin H I]|discriminate]. }
  destruct (chr =? 122). { destruct (255 <=? p_save st); [discriminate|fin H I]. }
  destruct ((chr =? 32) || (chr =? 10) || (chr =? 13) || (chr =? 9)); [fin H I|discriminate].
Qed.

Lemma Inv_init : Inv [Save 0] 0 [].
Proof.
  constructor; cbn [bk length]; try exact Logic.I.
  - intros i a Hi Ha. assert (i = 0%nat) by lia. subst i. injection Ha as <-. exact Logic.I.
  - intros X _. split; [|split; exact Logic.I]. intros pc k Hpc. cbn [length] in Hpc. lia.
Qed.

Lemma ploop_nested total : forall fuel st rest p, InvS st -> ploop fuel total st rest = Ok (inr p) -> cases_nested p = true.
Proof.
  induction fuel as [|fuel IH]; intros st rest p I H; cbn [ploop] in H; [discriminate|].
  destruct rest as [|chr rest1].
  - destruct (negb (p_depth st =? 0)); [discriminate|]. destruct (p_subs st) as [|sb subs] eqn:ES; [|discriminate].
    injection H as <-. apply cases_nested_of_nestP. intros pc k Hn. unfold InvS in I. rewrite ES in I.
    assert (R : refines (p_res st) (p_res st) []). { intros i a Hi Ha. split; [intros []|intros _ _; exact Ha]. }
    destruct (i_facts I _ R) as [HF1 _]. apply HF1; [|exact Hn|intros []].
    assert (Hpc : (pc < length (p_res st))%nat) by (apply nth_error_Some; rewrite Hn; discriminate).
    destruct (Nat.eq_dec (S pc) (length (p_res st))) as [E|E]; [|lia].
    pose proof (i_last I pc _ E Hn) as HL. simpl in HL. contradiction.
  - destruct (pstep st chr rest1) as [e|[[st' rest2] u]] eqn:E; [discriminate|].
    apply pstep_inv in E; [|exact I]. eapply IH; [|exact H]. unfold InvS in *. destruct u; cbn [p_res p_depth p_subs]; exact E.
Qed.

(* every pattern the repaired parser accepts passes the static nesting check *)
Theorem parse_nested s p : parse s = Ok (inr p) -> cases_nested p = true.
Proof. unfold parse. apply ploop_nested. exact Inv_init. Qed.

(* in particular every compiled AST of the documented syntax (C11 theorem 2) *)
From PV.Spec Require Import PatSyntax.
Corollary compile_nested a : wf a -> cases_nested (compile a) = true.
Proof. intros H. exact (parse_nested _ _ (parse_show_compile a H)). Qed.

(* F40: the parser as it stood accepted a brace left open inside an alternative, and its output fails the check *)
Lemma parse_orig_unbalanced_refuted :
  parse_orig [40; 37; 123; 124; 63; 41; 48; 49] = Ok (inr [Save 0; Case 3; Push 1; Jump1; Break 2; Nop; Skip 1; Byte 1]) /\
  cases_nested [Save 0; Case 3; Push 1; Jump1; Break 2; Nop; Skip 1; Byte 1] = false /\
  parse [40; 37; 123; 124; 63; 41; 48; 49] = Ok (inl (StackError, 3%nat)) /\
  parse [40; 37; 123; 63; 41] = Ok (inl (StackError, 4%nat)) /\
  parse [37; 123; 40; 48; 49; 125; 124; 63; 41] = Ok (inl (StackError, 5%nat)).      (* since F43: at the '}' already, not at the '|' *)
Proof. vm_compute. repeat split; reflexivity. Qed.

(* not vacuous: accepted patterns with braces inside alternatives.  The two neighbouring shapes that were still accepted
   when this was written - a '}' closing a brace that was opened before the group ("%{(01}%{|02)}03", F43) and a '{' right
   behind a ')' ("(01|%){02}03", F42) - are rejected since the two repairs; the parser as it stood ([parse_orig42]) accepted
   them and their outputs pass the check (the nesting check is about work, not about meaning). *)
Example parse_nested_nonvacuous :
  parse [40; 37; 123; 48; 49; 125; 124; 63; 41; 48; 50] = Ok (inr [Save 0; Case 5; Push 1; Jump1; Byte 1; Pop; Break 2; Nop; Skip 1; Byte 2]) /\
  (exists p, parse_orig42 [37; 123; 40; 48; 49; 125; 37; 123; 124; 48; 50; 41; 125; 48; 51] = Ok (inr p) /\ cases_nested p = true) /\
  (exists p, parse_orig42 [40; 48; 49; 124; 37; 41; 123; 48; 50; 125; 48; 51] = Ok (inr p) /\ cases_nested p = true) /\
  parse [37; 123; 40; 48; 49; 125; 37; 123; 124; 48; 50; 41; 125; 48; 51] = Ok (inl (StackError, 5%nat)) /\
  parse [40; 48; 49; 124; 37; 41; 123; 48; 50; 125; 48; 51] = Ok (inl (StackInvalid, 6%nat)).
Proof.
  split; [vm_compute; reflexivity|]. split; [eexists; (split; [vm_compute; reflexivity|vm_compute; reflexivity])|].
  split; [eexists; (split; [vm_compute; reflexivity|vm_compute; reflexivity])|]. split; vm_compute; reflexivity.
Qed.
