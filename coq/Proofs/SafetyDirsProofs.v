(* C01 for the directory modules: every borrow a directory parser hands out - struct references, arrays and
   their elements, strings, payload slices - lies inside the buffer of the view and is aligned for the Rust
   type the code casts it to.  Almost everything is a composition of the slice/read and typed-read theorems of
   SafetyProofs.v / BoundsProofs.v with the shape of the model function; the modules with their own pointer
   arithmetic (resources, security, debug payloads, version info, Rich) are argued from their own checks. *)
From PV.Model Require Import Machine Mapping Views Headers.
From PV.Model Require Exports Imports Dirs Resources VersionInfo Rich.
From PV.gen Require Import Layout.
From PV.Spec Require Import SafetySpec SafetyDirsSpec.
From PV.Proofs Require Import BaseProofs ViewsProofs SafetyProofs BoundsProofs.
Ltac Zify.zify_post_hook ::= Z.div_mod_to_equations.

(* ================================================================ generic facts *)

(* the typed reads of a view, by RVA and by VA, in the vocabulary of SafetyDirsSpec *)
Section View.
  Variable v : view.
  Hypothesis Hp : placed (v_addr v) (v_len v).

  Lemma v_rd byva a size align r : rd (sl_of v byva) a size align = Ok r -> vsafe v align r /\ r_len r = size.
  Proof. exact (proj1 (view_typed_safe v byva Hp) a size align r). Qed.
  Lemma v_rd_slice byva a size align n r : rd_slice (sl_of v byva) a size align n = Ok r -> array_safe v size align n r.
  Proof. exact (proj1 (proj2 (proj2 (view_typed_safe v byva Hp))) a size align n r). Qed.
  Lemma v_rd_slice_f byva a size align p r : rd_slice_f (v_get v) (sl_of v byva) a size align p = Ok r ->
    vsafe v align r /\ exists n, r_len r = n * size.
  Proof. exact (proj1 (proj2 (proj2 (proj2 (view_typed_safe v byva Hp)))) a size align p r). Qed.
  Lemma v_rd_c_str byva a r : rd_c_str (v_get v) (sl_of v byva) a = Ok r -> cstr_safe v r.
  Proof. exact (proj2 (proj2 (proj2 (proj2 (view_typed_safe v byva Hp)))) a r). Qed.
  Lemma v_slice a m al r : slice v a m al = Ok r -> slice_safe (v_addr v) (v_len v) m al r.
  Proof. apply slice_safe_view. exact Hp. Qed.
End View.

(* an element of an array that is inside and aligned is inside and aligned: size_of is a multiple of align_of *)
Lemma elem_safe v size align n r k : 0 < align -> size mod align = 0 -> array_safe v size align n r -> k < n ->
  vsafe v align (elem r size k) /\ r_off r <= r_off (elem r size k) /\
  r_off (elem r size k) + r_len (elem r size k) <= r_off r + r_len r.
Proof.
  intros Ha Hs [[Hin Hal] Hlen] Hk. unfold vsafe, typed_safe, region_in, elem in *. cbn [r_off r_len].
  assert (Hm : size * k + size <= size * n).
  { replace (size * k + size) with (size * (k + 1)) by lia. apply N.mul_le_mono_l. lia. }
  split; [split; [lia|]|lia].
  apply N.mod_divide in Hs; [|lia]. destruct Hs as [q ->].
  replace (v_addr v + (r_off r + q * align * k)) with (v_addr v + r_off r + (q * k) * align) by lia.
  rewrite N.mod_add by lia. exact Hal.
Qed.

(* ================================================================ exports *)
Section ExportsSafe.
  Import Exports.
  Variable v : view.
  Hypothesis Hp : placed (v_addr v) (v_len v).

  (* Exports::try_from: derva::<IMAGE_EXPORT_DIRECTORY> *)
  Lemma exports_try_from_safe dd x : try_from (slice v) dd = Ok x -> vsafe v IMAGE_EXPORT_DIRECTORY_align (export_dir x).
  Proof.
    unfold try_from. destruct dd as [[va sz]|]; [|discriminate].
    destruct (rd (slice v) va IMAGE_EXPORT_DIRECTORY_size IMAGE_EXPORT_DIRECTORY_align) as [r| |] eqn:E; cbn [bind]; try discriminate.
    intros H; injection H as <-. apply (v_rd v Hp false) in E. destruct E as [Hs Hl].
    unfold export_dir. rewrite <- Hl. destruct r; exact Hs.
  Qed.

  (* functions / names / name_indices: derva_slice::<Rva | u16> *)
  Lemma table_read size align a n l :
    (r <- rd_slice (slice v) a size align n ;; Ok (elems (v_get v) size (r_off r) n)) = Ok l ->
    exists r, rd_slice (slice v) a size align n = Ok r /\ array_safe v size align n r /\ l = elems (v_get v) size (r_off r) n.
  Proof.
    destruct (rd_slice (slice v) a size align n) as [r| |] eqn:E; cbn [bind]; try discriminate.
    intros H; injection H as <-. exists r. split; [reflexivity|]. split; [|reflexivity]. exact (v_rd_slice v Hp false _ _ _ _ _ E).
  Qed.
  Lemma table_null_as_empty size align a n l :
    null_as_empty (r <- rd_slice (slice v) a size align n ;; Ok (elems (v_get v) size (r_off r) n)) = Ok l ->
    table_src v size align a n l.
  Proof.
    unfold null_as_empty, table_src.
    destruct (r <- rd_slice (slice v) a size align n ;; Ok (elems (v_get v) size (r_off r) n)) as [l'|e|f] eqn:E.
    - intros H; injection H as <-. right. apply table_read. exact E.
    - destruct e; try discriminate. intros H; injection H as <-. left. reflexivity.
    - discriminate.
  Qed.

  (* By: the three tables of a By value, the directory they were located through *)
  Theorem view_by_safe dd t : view_by v dd = Ok t ->
    exists x, try_from (slice v) dd = Ok x /\ vsafe v IMAGE_EXPORT_DIRECTORY_align (export_dir x) /\
      table_src v 4 u32_align (x_fn v x IMAGE_EXPORT_DIRECTORY_AddressOfFunctions_off) (x_fn v x IMAGE_EXPORT_DIRECTORY_NumberOfFunctions_off) (t_funcs t) /\
      table_src v 4 u32_align (x_fn v x IMAGE_EXPORT_DIRECTORY_AddressOfNames_off) (x_fn v x IMAGE_EXPORT_DIRECTORY_NumberOfNames_off) (t_names t) /\
      table_src v 2 u16_align (x_fn v x IMAGE_EXPORT_DIRECTORY_AddressOfNameOrdinals_off) (x_fn v x IMAGE_EXPORT_DIRECTORY_NumberOfNames_off) (t_idxs t).
  Proof.
    unfold view_by, exports_by. destruct (try_from (slice v) dd) as [x| |] eqn:Ex; cbn [bind]; try discriminate.
    intros H. exists x. split; [reflexivity|]. split; [exact (exports_try_from_safe _ _ Ex)|].
    unfold by_ in H.
    destruct (null_as_empty (functions (slice v) (v_get v) x)) as [f| |] eqn:Ef; cbn [bind] in H; try discriminate.
    destruct (null_as_empty (names (slice v) (v_get v) x)) as [n| |] eqn:En; cbn [bind] in H; try discriminate.
    destruct (null_as_empty (name_indices (slice v) (v_get v) x)) as [i| |] eqn:Ei; cbn [bind] in H; try discriminate.
    injection H as <-. cbn [t_funcs t_names t_idxs].
    split; [|split]; apply table_null_as_empty; assumption.
  Qed.

  (* derva_c_str as used by every lookup: the string the bytes were taken from *)
  Theorem view_cstr_safe a s : view_cstr v a = Ok s ->
    exists r, rd_c_str (v_get v) (slice v) a = Ok r /\ cstr_safe v r /\ s = bytes_of (v_get v) (r_off r) (r_len r - 1).
  Proof.
    unfold view_cstr, cstr_of. destruct (rd_c_str (v_get v) (slice v) a) as [r| |] eqn:E; cbn [bind]; try discriminate.
    intros H; injection H as <-. exists r. split; [reflexivity|]. split; [|reflexivity]. exact (v_rd_c_str v Hp false _ _ E).
  Qed.
End ExportsSafe.

Theorem exports_regions v dd : placed (v_addr v) (v_len v) ->
  (forall x, Exports.try_from (slice v) dd = Ok x -> vsafe v IMAGE_EXPORT_DIRECTORY_align (export_dir x)) /\
  (forall t, Exports.view_by v dd = Ok t ->
     exists x, Exports.try_from (slice v) dd = Ok x /\ vsafe v IMAGE_EXPORT_DIRECTORY_align (export_dir x) /\
       table_src v 4 u32_align (x_fn v x IMAGE_EXPORT_DIRECTORY_AddressOfFunctions_off) (x_fn v x IMAGE_EXPORT_DIRECTORY_NumberOfFunctions_off) (Exports.t_funcs t) /\
       table_src v 4 u32_align (x_fn v x IMAGE_EXPORT_DIRECTORY_AddressOfNames_off) (x_fn v x IMAGE_EXPORT_DIRECTORY_NumberOfNames_off) (Exports.t_names t) /\
       table_src v 2 u16_align (x_fn v x IMAGE_EXPORT_DIRECTORY_AddressOfNameOrdinals_off) (x_fn v x IMAGE_EXPORT_DIRECTORY_NumberOfNames_off) (Exports.t_idxs t)) /\
  (forall a s, Exports.view_cstr v a = Ok s ->
     exists r, rd_c_str (v_get v) (slice v) a = Ok r /\ cstr_safe v r /\ s = Exports.bytes_of (v_get v) (r_off r) (r_len r - 1)).
Proof.
  intros Hp. split; [|split].
  - intros x. apply exports_try_from_safe. exact Hp.
  - intros t. apply view_by_safe. exact Hp.
  - intros a s. apply view_cstr_safe. exact Hp.
Qed.

(* ================================================================ imports *)
Section ImportsSafe.
  Import Imports.
  Variable p : pe.
  Hypothesis Hp : placed (v_addr (p_v p)) (v_len (p_v p)).

  Lemma va_bytes_pos : 0 < va_bytes p.
  Proof. unfold va_bytes. destruct (f_64 (p_f p)); lia. Qed.

  (* Imports::try_from: derva_slice_f::<IMAGE_IMPORT_DESCRIPTOR>; every descriptor the iterator yields *)
  Theorem imports_safe r : imports p = Ok r ->
    exists n, array_safe (p_v p) IMAGE_IMPORT_DESCRIPTOR_size IMAGE_IMPORT_DESCRIPTOR_align n r /\
      forall k, k < n -> vsafe (p_v p) IMAGE_IMPORT_DESCRIPTOR_align (elem r IMAGE_IMPORT_DESCRIPTOR_size k).
  Proof.
    unfold imports. destruct (dir_entry p IMAGE_DIRECTORY_ENTRY_IMPORT) as [d| |]; cbn [bind]; try discriminate.
    intros H. apply (v_rd_slice_f (p_v p) Hp false) in H. destruct H as [Hs [n Hn]].
    assert (Ha : array_safe (p_v p) IMAGE_IMPORT_DESCRIPTOR_size IMAGE_IMPORT_DESCRIPTOR_align n r).
    { split; [exact Hs|]. rewrite Hn. apply N.mul_comm. }
    exists n. split; [exact Ha|]. intros k Hk.
    refine (proj1 (elem_safe _ _ _ _ _ k _ _ Ha Hk)); reflexivity.
  Qed.

  (* Desc::dll_name *)
  Theorem dll_name_safe d r : dll_name p d = Ok r -> cstr_safe (p_v p) r.
  Proof. exact (v_rd_c_str (p_v p) Hp false _ _). Qed.

  (* Desc::iat / Desc::int: derva_slice_s::<Va> *)
  Theorem thunks_safe rva r : thunks p rva = Ok r ->
    exists n, array_safe (p_v p) (va_bytes p) (va_align p) n r /\
      forall k, k < n -> vsafe (p_v p) (va_align p) (elem r (va_bytes p) k).
  Proof.
    unfold thunks, rd_slice_s. intros H. apply (v_rd_slice_f (p_v p) Hp false) in H. destruct H as [Hs [n Hn]].
    assert (Ha : array_safe (p_v p) (va_bytes p) (va_align p) n r).
    { split; [exact Hs|]. rewrite Hn. apply N.mul_comm. }
    exists n. split; [exact Ha|]. intros k Hk.
    refine (proj1 (elem_safe _ _ _ _ _ k va_bytes_pos _ Ha Hk)).
    unfold va_align. apply N.mod_same. pose proof va_bytes_pos. lia.
  Qed.

  (* import_from_va: the hint is read through an aligned &u16, the name is a C string of the buffer *)
  Theorem import_from_va_safe va i : import_from_va p va = Ok i -> import_safe p i.
  Proof.
    unfold import_from_va. destruct (N.land va (ordinal_flag p) =? 0).
    - destruct (rd (slice (p_v p)) (va mod W32) 2 2) as [h| |]; cbn [bind]; try discriminate.
      destruct (checked_add W32 (va mod W32) 2) as [a|]; [|discriminate].
      destruct (rd_c_str (p_get p) (slice (p_v p)) a) as [nm| |] eqn:E; cbn [bind]; try discriminate.
      intros H; injection H as <-. cbn [import_safe]. exact (v_rd_c_str (p_v p) Hp false _ _ E).
    - intros H; injection H as <-. exact I.
  Qed.
  Lemma import_hint_safe rva h : rd (slice (p_v p)) rva 2 2 = Ok h -> vsafe (p_v p) u16_align h /\ r_len h = 2.
  Proof. exact (v_rd (p_v p) Hp false _ _ _ _). Qed.

  (* IAT::try_from: derva_slice::<Va>(VirtualAddress, Size / size_of::<Va>()) *)
  Theorem iat_safe r : iat p = Ok r ->
    exists d, dir_entry p IMAGE_DIRECTORY_ENTRY_IAT = Ok d /\
      array_safe (p_v p) (va_bytes p) (va_align p) (snd d / va_bytes p) r /\
      forall k, k < snd d / va_bytes p -> vsafe (p_v p) (va_align p) (elem r (va_bytes p) k).
  Proof.
    unfold iat. destruct (dir_entry p IMAGE_DIRECTORY_ENTRY_IAT) as [d| |]; cbn [bind]; try discriminate.
    intros H. apply (v_rd_slice (p_v p) Hp false) in H. exists d. split; [reflexivity|]. split; [exact H|].
    intros k Hk. refine (proj1 (elem_safe _ _ _ _ _ k va_bytes_pos _ H Hk)).
    unfold va_align. apply N.mod_same. pose proof va_bytes_pos. lia.
  Qed.

  (* the decoding iterators: every import they yield *)
  Theorem int_imports_safe r : Forall (fun ri => forall i, ri = Ok i -> import_safe p i) (int_imports p r).
  Proof.
    apply Forall_forall. intros ri Hin. unfold int_imports in Hin. apply in_map_iff in Hin. destruct Hin as [va [<- _]].
    intros i. apply import_from_va_safe.
  Qed.
  Theorem iat_iter_safe r : Forall (fun x => forall i, snd x = Ok i -> import_safe p i) (iat_iter p r).
  Proof.
    apply Forall_forall. intros x Hin. unfold iat_iter in Hin. apply in_map_iff in Hin. destruct Hin as [va [<- _]].
    cbn [snd]. intros i. apply import_from_va_safe.
  Qed.
End ImportsSafe.

Theorem imports_regions p : placed (v_addr (Imports.p_v p)) (v_len (Imports.p_v p)) ->
  (forall r, Imports.imports p = Ok r ->
     exists n, array_safe (Imports.p_v p) IMAGE_IMPORT_DESCRIPTOR_size IMAGE_IMPORT_DESCRIPTOR_align n r /\
       forall k, k < n -> vsafe (Imports.p_v p) IMAGE_IMPORT_DESCRIPTOR_align (elem r IMAGE_IMPORT_DESCRIPTOR_size k)) /\
  (forall d r, Imports.dll_name p d = Ok r -> cstr_safe (Imports.p_v p) r) /\
  (forall rva r, Imports.thunks p rva = Ok r ->
     exists n, array_safe (Imports.p_v p) (Imports.va_bytes p) (va_align p) n r /\
       forall k, k < n -> vsafe (Imports.p_v p) (va_align p) (elem r (Imports.va_bytes p) k)) /\
  (forall va i, Imports.import_from_va p va = Ok i -> import_safe p i) /\
  (forall r, Forall (fun ri => forall i, ri = Ok i -> import_safe p i) (Imports.int_imports p r)) /\
  (forall r, Imports.iat p = Ok r ->
     exists d, Imports.dir_entry p IMAGE_DIRECTORY_ENTRY_IAT = Ok d /\
       array_safe (Imports.p_v p) (Imports.va_bytes p) (va_align p) (snd d / Imports.va_bytes p) r /\
       forall k, k < snd d / Imports.va_bytes p -> vsafe (Imports.p_v p) (va_align p) (elem r (Imports.va_bytes p) k)) /\
  (forall r, Forall (fun x => forall i, snd x = Ok i -> import_safe p i) (Imports.iat_iter p r)).
Proof.
  intros Hp. split; [|split; [|split; [|split; [|split; [|split]]]]].
  - intros r. apply imports_safe. exact Hp.
  - intros d r. apply dll_name_safe. exact Hp.
  - intros rva r. apply thunks_safe. exact Hp.
  - intros va i. apply import_from_va_safe. exact Hp.
  - intros r. apply int_imports_safe. exact Hp.
  - intros r. apply iat_safe. exact Hp.
  - intros r. apply iat_iter_safe. exact Hp.
Qed.
(* the thunk width is the alignment of Va in the format of the image *)
Lemma va_align_layout p : va_align p = if f_64 (Imports.p_f p) then 8 else 4.
Proof. reflexivity. Qed.

(* ================================================================ exception directory *)
From PV.Proofs Require DirsProofs DirsLayout.
Section DirsSafe.
  Import Dirs.
  Variable v : view.
  Hypothesis Hp : placed (v_addr v) (v_len v).

  (* a table directory (exception, debug): derva_slice::<T>(VirtualAddress, Size / size_of::<T>()) *)
  Lemma table_dir_safe size align va n r : 0 < align -> size mod align = 0 ->
    rd_slice (slice v) va size align n = Ok r ->
    array_safe v size align n r /\ forall k, k < n -> vsafe v align (elem r size k).
  Proof.
    intros Ha Hs H. apply (v_rd_slice v Hp false) in H. split; [exact H|].
    intros k Hk. exact (proj1 (elem_safe _ _ _ _ _ k Ha Hs H Hk)).
  Qed.

  (* Exception::try_from: the &[RUNTIME_FUNCTION] and every &RUNTIME_FUNCTION handed out by functions() / lookup *)
  Theorem exception_try_from_safe dd r : exception_try_from v dd = Ok r ->
    exists n, array_safe v RUNTIME_FUNCTION_size RUNTIME_FUNCTION_align n r /\
      forall k, k < n -> vsafe v RUNTIME_FUNCTION_align (elem r RUNTIME_FUNCTION_size k).
  Proof.
    unfold exception_try_from. destruct dd as [[va size]|]; [|discriminate].
    destruct (negb (size mod 12 =? 0)); [discriminate|]. intros H. exists (size / 12).
    exact (table_dir_safe 12 4 va (size / 12) r eq_refl eq_refl H).
  Qed.
  (* Function::bytes *)
  Theorem function_bytes_safe f r : function_bytes v f = Ok r -> region_in (v_len v) r /\ r_len r = rf_end f - rf_begin f.
  Proof.
    unfold function_bytes. destruct (rf_end f <? rf_begin f); [discriminate|]. intros H.
    apply (v_rd_slice v Hp false) in H. destruct H as [[Hin _] Hl]. split; [exact Hin|lia].
  Qed.
  (* Function::unwind_info: the &UNWIND_INFO and the &[UNWIND_CODE] from_raw_parts builds behind it *)
  Theorem unwind_info_safe f u : unwind_info v f = Ok u ->
    vsafe v UNWIND_INFO_align u /\ UNWIND_INFO_size <= r_len u /\
    r_off (uw_codes (v_get v) u) = r_off u + UNWIND_INFO_UnwindCode_off /\
    r_len (uw_codes (v_get v) u) = UNWIND_CODE_size * uw_count (v_get v) u /\
    r_off (uw_codes (v_get v) u) + r_len (uw_codes (v_get v) u) = r_off u + r_len u /\
    vsafe v UNWIND_CODE_align (uw_codes (v_get v) u).
  Proof.
    intros H. destruct (DirsProofs.unwind_info_shape v f u H) as [b [Hb [Ho [Hl [Hle [Hc Hcodes]]]]]].
    apply (v_slice v Hp) in Hb. destruct Hb as [Hin [_ Hal]].
    unfold vsafe, typed_safe, region_in in *. rewrite Hcodes, Hc. cbn [r_off r_len].
    change UNWIND_INFO_align with 1. change UNWIND_CODE_align with 1. change UNWIND_INFO_size with 4.
    change UNWIND_INFO_UnwindCode_off with 4. change UNWIND_CODE_size with 2.
    rewrite !N.mod_1_r. repeat split; lia.
  Qed.

  (* ================================================================ security directory *)
  (* security::try_from (file views only): the WIN_CERTIFICATE header reference and certificate_data's get_unchecked(8..) *)
  Theorem security_try_from_safe dd r : security_try_from v dd = Ok r ->
    vsafe v WIN_CERTIFICATE_align r /\ WIN_CERTIFICATE_size <= r_len r /\
    exists d, certificate_data r = Ok d /\ region_in (v_len v) d /\
              r_off d = r_off r + WIN_CERTIFICATE_bCertificate_off /\ r_off d + r_len d = r_off r + r_len r.
  Proof.
    unfold security_try_from. destruct (negb (v_file v)); [discriminate|]. destruct dd as [[va size]|]; [|discriminate].
    destruct (va =? 0); [discriminate|]. destruct (negb (aligned_to 8 va) || negb (aligned_to 8 size)); [discriminate|].
    destruct (size =? 0); [discriminate|]. destruct (checked_add W64 va size) as [e|]; [|discriminate].
    unfold get_range. destruct ((va <=? e) && (e <=? v_len v)) eqn:E; [|discriminate].
    unfold security_new. cbn [r_off r_len].
    destruct (aligned_to 4 (v_addr v + va)) eqn:Ea; cbn [negb]; [|discriminate].
    destruct (e - va <? 8) eqn:E8; [discriminate|]. intros H; injection H as <-.
    apply aligned_to_spec in Ea. unfold vsafe, typed_safe, region_in, certificate_data. cbn [r_off r_len].
    rewrite E8. change WIN_CERTIFICATE_align with 4. change WIN_CERTIFICATE_size with 8. change WIN_CERTIFICATE_bCertificate_off with 8.
    split; [split; [lia|exact Ea]|]. split; [lia|]. eexists. split; [reflexivity|]. cbn [r_off r_len]. lia.
  Qed.
  (* the address of the certificate is a multiple of 4 because the header gate made the buffer dword aligned and
     the directory's VirtualAddress (a file offset) is a multiple of 8: no debug assertion is needed for it *)
  Theorem security_aligned_by_gate dd : v_addr v mod 4 = 0 -> no_fault (security_try_from v dd).
  Proof. apply DirsProofs.security_no_fault. Qed.

  (* ================================================================ debug directory *)
  Theorem debug_try_from_safe dd r : debug_try_from v dd = Ok r ->
    exists n, array_safe v IMAGE_DEBUG_DIRECTORY_size IMAGE_DEBUG_DIRECTORY_align n r /\
      forall k, k < n -> vsafe v IMAGE_DEBUG_DIRECTORY_align (elem r IMAGE_DEBUG_DIRECTORY_size k).
  Proof.
    unfold debug_try_from. destruct dd as [[va size]|]; [|discriminate].
    destruct (negb (size mod 28 =? 0)); [discriminate|]. intros H. exists (size / 28).
    exact (table_dir_safe 28 4 va (size / 28) r eq_refl eq_refl H).
  Qed.
  (* every Dir the iterator yields borrows an element of that array *)
  Lemma ddir_table_offs g : forall n off d, In d (ddir_table g off n) -> exists k, k < N.of_nat n /\ dd_off d = off + 28 * k.
  Proof.
    induction n as [|n IH]; intros off d Hin; cbn [ddir_table] in Hin; [elim Hin|].
    destruct Hin as [<-|Hin].
    - exists 0. cbn [ddir_at dd_off]. split; lia.
    - apply IH in Hin. destruct Hin as [k [Hk Ho]]. exists (k + 1). split; lia.
  Qed.
  Theorem debug_dirs_safe n r d : array_safe v IMAGE_DEBUG_DIRECTORY_size IMAGE_DEBUG_DIRECTORY_align n r ->
    In d (debug_dirs v r) ->
    vsafe v IMAGE_DEBUG_DIRECTORY_align {| r_off := dd_off d; r_len := IMAGE_DEBUG_DIRECTORY_size |}.
  Proof.
    intros Ha Hin. unfold debug_dirs in Hin. apply ddir_table_offs in Hin. destruct Hin as [k [Hk Ho]].
    assert (Hn : r_len r / 28 = n).
    { destruct Ha as [_ Hl]. rewrite Hl. change IMAGE_DEBUG_DIRECTORY_size with 28. rewrite N.mul_comm. apply N.div_mul. lia. }
    rewrite N2Nat.id, Hn in Hk.
    pose proof (proj1 (elem_safe v 28 4 n r k eq_refl eq_refl Ha Hk)) as He.
    unfold elem in He. change IMAGE_DEBUG_DIRECTORY_size with 28 in *. rewrite Ho. exact He.
  Qed.

  (* Dir::data: image.get(offset..offset + size) *)
  Theorem dir_data_safe d b : dir_data v d = Some b -> region_in (v_len v) b.
  Proof.
    unfold dir_data, get_range. destruct (_ && _) eqn:E; [|discriminate]. intros H; injection H as <-.
    unfold region_in. cbn [r_off r_len]. lia.
  Qed.
  Lemma cstr_in g off len n : cstr_from_bytes g off len = Some n -> r_off n = off /\ 0 < r_len n /\ r_len n <= len.
  Proof.
    intros H. pose proof (DirsProofs.cstr_from_bytes_spec g off len) as S. rewrite H in S. tauto.
  Qed.
  (* Dir::entry: the casts of code_view (IMAGE_DEBUG_CV_INFO_PDB20 / PDB70 + the file name), dbg (IMAGE_DEBUG_MISC),
     pgo (&[u32]) and the raw bytes of an unknown type *)
  Theorem dir_entry_safe d e : dir_entry v d = Ok e -> entry_safe v e.
  Proof.
    unfold dir_entry. destruct (dd_type d =? 2); [|destruct (dd_type d =? 4); [|destruct (dd_type d =? 13)]].
    - unfold code_view. destruct (dir_data v d) as [b|] eqn:Ed; [|discriminate]. apply dir_data_safe in Ed.
      destruct (r_len b <? 16) eqn:E16; [discriminate|].
      destruct (aligned_to 4 (v_addr v + r_off b)) eqn:Ea; cbn [negb]; [|discriminate]. apply aligned_to_spec in Ea.
      destruct (u32at (v_get v) (r_off b) =? SIG_NB10).
      + destruct (cstr_from_bytes (v_get v) (r_off b + 16) (r_len b - 16)) as [n|] eqn:En; [|discriminate].
        intros H; injection H as <-. apply cstr_in in En. destruct En as [E1 [E2 E3]].
        unfold entry_safe, vsafe, typed_safe, cstr_safe, region_in in *. cbn [r_off r_len].
        change IMAGE_DEBUG_CV_INFO_PDB20_size with 16. change IMAGE_DEBUG_CV_INFO_PDB20_align with 4.
        repeat split; try assumption; lia.
      + destruct (u32at (v_get v) (r_off b) =? SIG_RSDS); [|discriminate].
        destruct (r_len b <? 24) eqn:E24; [discriminate|].
        destruct (cstr_from_bytes (v_get v) (r_off b + 24) (r_len b - 24)) as [n|] eqn:En; [|discriminate].
        intros H; injection H as <-. apply cstr_in in En. destruct En as [E1 [E2 E3]].
        unfold entry_safe, vsafe, typed_safe, cstr_safe, region_in in *. cbn [r_off r_len].
        change IMAGE_DEBUG_CV_INFO_PDB70_size with 24. change IMAGE_DEBUG_CV_INFO_PDB70_align with 4.
        repeat split; try assumption; lia.
    - unfold dbg_entry. destruct (dir_data v d) as [b|] eqn:Ed; [|discriminate]. apply dir_data_safe in Ed.
      destruct (r_len b <? 12) eqn:E12; [discriminate|].
      destruct (aligned_to 4 (v_addr v + r_off b)) eqn:Ea; cbn [negb]; [|discriminate]. apply aligned_to_spec in Ea.
      intros H; injection H as <-. unfold entry_safe, vsafe, typed_safe, region_in in *. cbn [r_off r_len].
      change IMAGE_DEBUG_MISC_size with 12. change IMAGE_DEBUG_MISC_align with 4. split; [lia|exact Ea].
    - unfold pgo_entry. destruct (dir_data v d) as [b|] eqn:Ed; [|discriminate]. apply dir_data_safe in Ed.
      destruct (r_len b <? 4) eqn:E4; [discriminate|].
      destruct (aligned_to 4 (v_addr v + r_off b)) eqn:Ea; cbn [negb]; [|discriminate]. apply aligned_to_spec in Ea.
      intros H; injection H as <-. unfold entry_safe, vsafe, typed_safe, region_in, u32_align in *. cbn [r_off r_len].
      split; [split; [lia|exact Ea]|]. rewrite N.mul_comm. apply N.mod_mul. lia.
    - intros H; injection H as <-. unfold entry_safe. destruct (dir_data v d) as [b|] eqn:Ed; [|exact I].
      apply dir_data_safe in Ed. exact Ed.
  Qed.
  (* Debug::pdb_file_name *)
  Theorem pdb_file_name_safe ds n : pdb_file_name v ds = Some n -> cstr_safe v n.
  Proof.
    induction ds as [|d rest IH]; cbn [pdb_file_name]; [discriminate|].
    destruct (dir_entry v d) as [e| |] eqn:E; try exact IH.
    apply dir_entry_safe in E. destruct e; try exact IH; intros H; injection H as <-; exact (proj2 E).
  Qed.
  (* PgoIter: every name lies inside the dword slice it was cut from *)
  Lemma pgo_items_safe g : forall fuel off n items, pgo_items fuel g off n = Ok items ->
    Forall (fun it => off <= r_off (pg_name it) /\ 0 < r_len (pg_name it) /\ r_off (pg_name it) + r_len (pg_name it) <= off + 4 * n) items.
  Proof.
    induction fuel as [|fuel IH]; intros off n items; cbn [pgo_items]; [discriminate|].
    destruct (3 <=? n) eqn:E3; [|intros H; injection H as <-; constructor].
    destruct (cstr_from_bytes g (off + 8) (4 * (n - 2))) as [name|] eqn:En; [|intros H; injection H as <-; constructor].
    apply cstr_in in En. destruct En as [E1 [E2 E4]].
    destruct (n <? 2 + (r_len name - 1) / 4 + 1) eqn:El; [discriminate|].
    destruct (pgo_items fuel g (off + 4 * (2 + (r_len name - 1) / 4 + 1)) (n - (2 + (r_len name - 1) / 4 + 1))) as [rest| |] eqn:Er; cbn [bind]; try discriminate.
    intros H; injection H as <-. apply IH in Er. constructor.
    - cbn [pg_name]. lia.
    - eapply Forall_impl; [|exact Er]. cbv beta. intros it [A [B C]]. lia.
  Qed.
  Theorem pgo_iter_safe image items : vsafe v u32_align image -> pgo_iter (v_get v) image = Ok items ->
    Forall (fun it => cstr_safe v (pg_name it) /\ r_off image <= r_off (pg_name it) /\
                      r_off (pg_name it) + r_len (pg_name it) <= r_off image + r_len image) items.
  Proof.
    intros [Hin _] H. unfold pgo_iter in H. unfold region_in, cstr_safe in *.
    destruct (1 <=? r_len image / 4) eqn:E1; apply pgo_items_safe in H; (eapply Forall_impl; [|exact H]); cbv beta;
      intros it [A [B C]]; unfold region_in; lia.
  Qed.

  (* ================================================================ TLS directory *)
  Lemma va_size_is : va_size v = (if is32 v then 4 else 8).
  Proof. reflexivity. Qed.
  Lemma va_size_mod : va_size v mod va_align_v v = 0 /\ 0 < va_align_v v.
  Proof. unfold va_align_v, va_size. destruct (v_w v =? W32); split; reflexivity. Qed.

  Theorem tls_try_from_safe dd t : tls_try_from v dd = Ok t -> vsafe v (tls_align v) t /\ r_len t = tls_size v.
  Proof.
    unfold tls_try_from. destruct dd as [[va sz]|]; [|discriminate]. intros H. apply (v_rd v Hp false) in H.
    unfold tls_align, tls_size, is32. unfold va_size, tls_dir_size in H. destruct (v_w v =? W32); exact H.
  Qed.
  Theorem tls_raw_data_safe t r : tls_raw_data v t = Ok r -> region_in (v_len v) r /\ r_len r = tls_end v t - tls_start v t.
  Proof.
    unfold tls_raw_data. destruct (tls_end v t <? tls_start v t); [discriminate|]. intros H.
    apply (v_rd_slice v Hp true) in H. destruct H as [[Hin _] Hl]. split; [exact Hin|lia].
  Qed.
  Theorem tls_slot_safe t r : tls_slot v t = Ok r -> vsafe v u32_align r /\ r_len r = 4.
  Proof. exact (v_rd v Hp true _ _ _ _). Qed.
  Theorem tls_callbacks_safe t r : tls_callbacks v t = Ok r ->
    exists n, array_safe v (va_size v) (va_align_v v) n r /\ forall k, k < n -> vsafe v (va_align_v v) (elem r (va_size v) k).
  Proof.
    unfold tls_callbacks, rd_slice_s. intros H. apply (v_rd_slice_f v Hp true) in H. destruct H as [Hs [n Hn]].
    assert (Ha : array_safe v (va_size v) (va_align_v v) n r) by (split; [exact Hs|rewrite Hn; apply N.mul_comm]).
    exists n. split; [exact Ha|]. intros k Hk.
    exact (proj1 (elem_safe _ _ _ _ _ k (proj2 va_size_mod) (proj1 va_size_mod) Ha Hk)).
  Qed.

  (* ================================================================ load config directory *)
  Theorem load_config_try_from_safe dd t : load_config_try_from v dd = Ok t -> vsafe v (lc_align v) t /\ r_len t = lc_size v.
  Proof.
    unfold load_config_try_from. destruct dd as [[va sz]|]; [|discriminate]. intros H. apply (v_rd v Hp false) in H.
    unfold lc_align, lc_size, is32. unfold va_size, lc_dir_size in H. destruct (v_w v =? W32); exact H.
  Qed.
  Theorem lc_security_cookie_safe t r : lc_security_cookie v t = Ok r -> vsafe v u32_align r /\ r_len r = 4.
  Proof. exact (v_rd v Hp true _ _ _ _). Qed.
  Theorem lc_se_handler_table_safe t r : lc_se_handler_table v t = Ok r ->
    array_safe v (va_size v) (va_align_v v) (lc_count v t) r /\
    forall k, k < lc_count v t -> vsafe v (va_align_v v) (elem r (va_size v) k).
  Proof.
    unfold lc_se_handler_table. intros H. apply (v_rd_slice v Hp true) in H. split; [exact H|].
    intros k Hk. exact (proj1 (elem_safe _ _ _ _ _ k (proj2 va_size_mod) (proj1 va_size_mod) H Hk)).
  Qed.
End DirsSafe.

(* ---- the statements pinned in Properties/C01.v ---- *)
Theorem exception_regions v : placed (v_addr v) (v_len v) ->
  (forall dd r, Dirs.exception_try_from v dd = Ok r ->
     exists n, array_safe v RUNTIME_FUNCTION_size RUNTIME_FUNCTION_align n r /\
       forall k, k < n -> vsafe v RUNTIME_FUNCTION_align (elem r RUNTIME_FUNCTION_size k)) /\
  (forall f r, Dirs.function_bytes v f = Ok r -> region_in (v_len v) r /\ r_len r = Dirs.rf_end f - Dirs.rf_begin f) /\
  (forall f u, Dirs.unwind_info v f = Ok u ->
     vsafe v UNWIND_INFO_align u /\ UNWIND_INFO_size <= r_len u /\
     r_off (Dirs.uw_codes (v_get v) u) = r_off u + UNWIND_INFO_UnwindCode_off /\
     r_len (Dirs.uw_codes (v_get v) u) = UNWIND_CODE_size * Dirs.uw_count (v_get v) u /\
     r_off (Dirs.uw_codes (v_get v) u) + r_len (Dirs.uw_codes (v_get v) u) = r_off u + r_len u /\
     vsafe v UNWIND_CODE_align (Dirs.uw_codes (v_get v) u)).
Proof.
  intros Hp. split; [|split].
  - intros dd r. apply exception_try_from_safe. exact Hp.
  - intros f r. apply function_bytes_safe. exact Hp.
  - intros f u. apply unwind_info_safe. exact Hp.
Qed.

Theorem security_region v dd r : Dirs.security_try_from v dd = Ok r ->
  vsafe v WIN_CERTIFICATE_align r /\ WIN_CERTIFICATE_size <= r_len r /\
  exists d, Dirs.certificate_data r = Ok d /\ region_in (v_len v) d /\
            r_off d = r_off r + WIN_CERTIFICATE_bCertificate_off /\ r_off d + r_len d = r_off r + r_len r.
Proof. apply security_try_from_safe. Qed.

Theorem debug_regions v : placed (v_addr v) (v_len v) ->
  (forall dd r, Dirs.debug_try_from v dd = Ok r ->
     exists n, array_safe v IMAGE_DEBUG_DIRECTORY_size IMAGE_DEBUG_DIRECTORY_align n r /\
       (forall k, k < n -> vsafe v IMAGE_DEBUG_DIRECTORY_align (elem r IMAGE_DEBUG_DIRECTORY_size k)) /\
       (forall d, In d (Dirs.debug_dirs v r) ->
          vsafe v IMAGE_DEBUG_DIRECTORY_align {| r_off := Dirs.dd_off d; r_len := IMAGE_DEBUG_DIRECTORY_size |})) /\
  (forall d b, Dirs.dir_data v d = Some b -> region_in (v_len v) b) /\
  (forall d e, Dirs.dir_entry v d = Ok e -> entry_safe v e) /\
  (forall ds n, Dirs.pdb_file_name v ds = Some n -> cstr_safe v n) /\
  (forall image items, vsafe v u32_align image -> Dirs.pgo_iter (v_get v) image = Ok items ->
     Forall (fun it => cstr_safe v (Dirs.pg_name it) /\ r_off image <= r_off (Dirs.pg_name it) /\
                       r_off (Dirs.pg_name it) + r_len (Dirs.pg_name it) <= r_off image + r_len image) items).
Proof.
  intros Hp. split; [|split; [|split; [|split]]].
  - intros dd r H. destruct (debug_try_from_safe v Hp dd r H) as [n [Ha He]]. exists n. split; [exact Ha|]. split; [exact He|].
    intros d Hd. exact (debug_dirs_safe v n r d Ha Hd).
  - intros d b. apply dir_data_safe.
  - intros d e. apply dir_entry_safe.
  - intros ds n. apply pdb_file_name_safe.
  - intros image items. apply pgo_iter_safe.
Qed.

Theorem tls_regions v : placed (v_addr v) (v_len v) ->
  (forall dd t, Dirs.tls_try_from v dd = Ok t -> vsafe v (tls_align v) t /\ r_len t = tls_size v) /\
  (forall t r, Dirs.tls_raw_data v t = Ok r -> region_in (v_len v) r /\ r_len r = Dirs.tls_end v t - Dirs.tls_start v t) /\
  (forall t r, Dirs.tls_slot v t = Ok r -> vsafe v u32_align r /\ r_len r = 4) /\
  (forall t r, Dirs.tls_callbacks v t = Ok r ->
     exists n, array_safe v (Dirs.va_size v) (va_align_v v) n r /\
       forall k, k < n -> vsafe v (va_align_v v) (elem r (Dirs.va_size v) k)).
Proof.
  intros Hp. split; [|split; [|split]].
  - intros dd t. apply tls_try_from_safe. exact Hp.
  - intros t r. apply tls_raw_data_safe. exact Hp.
  - intros t r. apply tls_slot_safe. exact Hp.
  - intros t r. apply tls_callbacks_safe. exact Hp.
Qed.

Theorem load_config_regions v : placed (v_addr v) (v_len v) ->
  (forall dd t, Dirs.load_config_try_from v dd = Ok t -> vsafe v (lc_align v) t /\ r_len t = lc_size v) /\
  (forall t r, Dirs.lc_security_cookie v t = Ok r -> vsafe v u32_align r /\ r_len r = 4) /\
  (forall t r, Dirs.lc_se_handler_table v t = Ok r ->
     array_safe v (Dirs.va_size v) (va_align_v v) (Dirs.lc_count v t) r /\
     forall k, k < Dirs.lc_count v t -> vsafe v (va_align_v v) (elem r (Dirs.va_size v) k)).
Proof.
  intros Hp. split; [|split].
  - intros dd t. apply load_config_try_from_safe. exact Hp.
  - intros t r. apply lc_security_cookie_safe. exact Hp.
  - intros t r. apply lc_se_handler_table_safe. exact Hp.
Qed.

(* ================================================================ resources *)
From PV.Proofs Require ResourcesProofs.
From PV.Spec Require ConvertSimSpec.
Section ResourcesSafe.
  Import Resources.
  Variable s : rsec.

  Ltac fb H :=
    match type of H with
    | fbind ?r _ = FOk _ => let a := fresh "a" in let E := fresh "E" in destruct r as [a| |] eqn:E; cbn [fbind] in H; [|discriminate|discriminate]
    end.

  (* Resources::slice<T>: size_of::<T>() bytes at the offset, the ADDRESS aligned for T (after F4) *)
  Theorem rslice_safe off size align o : splaced s -> rslice s off size align = Ok o -> o = off /\ sec_safe s align o size.
  Proof.
    intros Hp H. apply ResourcesProofs.rslice_ok in H. destruct H as (-> & Hb & Ha). split; [reflexivity|].
    apply aligned_to_spec in Ha. unfold splaced, placed, sec_safe, wadd64 in *. split; [exact Hb|].
    rewrite (N.mod_small (rs_addr s + off) W64) in Ha by (unfold W64 in *; lia). exact Ha.
  Qed.
  (* Resources::slice_ws: the length word and the [n] words behind it *)
  Theorem slice_ws_safe off o n : slice_ws s off = Ok (o, n) ->
    o = off + 2 /\ n = rd16 s off /\ sec_safe s u16_align off 2 /\ sec_safe s u16_align o (2 * n).
  Proof.
    unfold slice_ws. rewrite ResourcesProofs.aligned_wadd64_2.
    destruct ((rs_addr s + off) mod 2 =? 0) eqn:Ea; cbn [negb]; [|discriminate].
    destruct (off + 2 <=? rs_len s) eqn:E2; [|discriminate].
    destruct (off + 2 + rd16 s off * 2 <=? rs_len s) eqn:E3; [|discriminate].
    intros H; injection H as <- <-. unfold sec_safe, u16_align. repeat split; lia.
  Qed.

  (* Directory::try_from: the &IMAGE_RESOURCE_DIRECTORY, the entry array of entries() / named_entries() / id_entries()
     (from_raw_parts behind the directory) and every entry of it *)
  Lemma in_entry_offs first n e : In e (entry_offs first n) -> exists i, i < n /\ e = first + 8 * i.
  Proof.
    unfold entry_offs. intros H. apply in_map_iff in H. destruct H as [i [<- Hi]]. apply in_seq in Hi.
    exists (N.of_nat i). split; lia.
  Qed.
  Theorem dir_try_from_safe off o : dir_try_from s off = Ok o ->
    o = off /\ ent_safe s (EDir o) /\
    (forall e, In e (entries s o) -> sec_safe s IMAGE_RESOURCE_DIRECTORY_ENTRY_align e IMAGE_RESOURCE_DIRECTORY_ENTRY_size) /\
    (forall e, In e (named_entries s o) -> In e (entries s o)) /\ (forall e, In e (id_entries s o) -> In e (entries s o)).
  Proof.
    intros H. apply ResourcesProofs.dir_try_from_ok in H. destruct H as (-> & Hb & Ha).
    split; [reflexivity|]. split; [|split; [|split]].
    - unfold ent_safe, sec_safe. change IMAGE_RESOURCE_DIRECTORY_align with 4. change IMAGE_RESOURCE_DIRECTORY_size with 16.
      change IMAGE_RESOURCE_DIRECTORY_ENTRY_align with 4. change IMAGE_RESOURCE_DIRECTORY_ENTRY_size with 8. repeat split; lia.
    - intros e He. unfold entries in He. apply in_entry_offs in He. destruct He as [i [Hi ->]].
      unfold sec_safe. change IMAGE_RESOURCE_DIRECTORY_ENTRY_align with 4. change IMAGE_RESOURCE_DIRECTORY_ENTRY_size with 8. split; lia.
    - intros e He. rewrite ResourcesProofs.entries_named_then_ids. apply in_or_app. left. exact He.
    - intros e He. rewrite ResourcesProofs.entries_named_then_ids. apply in_or_app. right. exact He.
  Qed.

  (* DirectoryEntry::name: a wide name is the word slice slice_ws cut out *)
  Theorem e_name_safe e nm : e_name s e = Ok nm ->
    match nm with
    | NId _ => True
    | NWide ws => exists o n, slice_ws s (rd32 s e - B31) = Ok (o, n) /\ ws = words s o n /\
                              sec_safe s u16_align (rd32 s e - B31) 2 /\ sec_safe s u16_align o (2 * n)
    | NStr _ => False
    end.
  Proof.
    unfold e_name, e_name_g. destruct (B31 <=? rd32 s e); [|intros H; injection H as <-; exact I].
    destruct (slice_ws s (rd32 s e - B31)) as [[o n]| |] eqn:E; cbn [bind]; try discriminate.
    intros H; injection H as <-. cbn [fst snd]. exists o, n. split; [reflexivity|]. split; [reflexivity|].
    apply slice_ws_safe in E. tauto.
  Qed.
  (* DirectoryEntry::entry: a sub-directory (with its entry array) or the &IMAGE_RESOURCE_DATA_ENTRY *)
  Theorem e_entry_safe e x : e_entry s e = Ok x -> ent_safe s x.
  Proof.
    unfold e_entry, e_entry_g. destruct (B31 <=? rd32 s (e + 4)).
    - fold (dir_try_from s (rd32 s (e + 4) - B31)).
      destruct (dir_try_from s (rd32 s (e + 4) - B31)) as [o| |] eqn:E; cbn [bind]; try discriminate.
      intros H; injection H as <-. apply dir_try_from_safe in E. tauto.
    - destruct (rslice s (rd32 s (e + 4)) 16 4) as [o| |] eqn:E; cbn [bind]; try discriminate.
      intros H; injection H as <-. apply ResourcesProofs.rslice_ok in E. destruct E as (-> & Hb & Ha).
      rewrite ResourcesProofs.aligned_wadd64_4 in Ha. unfold ent_safe, sec_safe.
      change IMAGE_RESOURCE_DATA_ENTRY_align with 4. change IMAGE_RESOURCE_DATA_ENTRY_size with 16. split; lia.
  Qed.
  (* DataEntry::bytes *)
  Theorem data_bytes_safe o r : data_bytes s o = Ok r -> region_in (rs_len s) r.
  Proof.
    unfold data_bytes. destruct (rd32 s o <? rs_va s); [discriminate|]. destruct (W32 <=? _); [discriminate|].
    destruct (_ <=? rs_len s) eqn:E; [|discriminate]. intros H; injection H as <-. unfold region_in. cbn [r_off r_len]. lia.
  Qed.
  Lemma lift_data_bytes_safe o r : lift (data_bytes s o) = FOk r -> region_in (rs_len s) r.
  Proof. destruct (data_bytes s o) as [q| |] eqn:E; cbn [lift]; try discriminate. intros H; injection H as <-. exact (data_bytes_safe _ _ E). Qed.

  (* the find.rs queries that return bytes *)
  Theorem find_resource_safe lo a b r : find_resource lo s a b = FOk r -> region_in (rs_len s) r.
  Proof. unfold find_resource. intros H. fb H. fb H. exact (lift_data_bytes_safe _ _ H). Qed.
  Theorem find_resource_ex_safe lo a b c r : find_resource_ex lo s a b c = FOk r -> region_in (rs_len s) r.
  Proof. unfold find_resource_ex. intros H. fb H. fb H. exact (lift_data_bytes_safe _ _ H). Qed.
  Theorem manifest_safe r : manifest s = FOk r -> region_in (rs_len s) r.
  Proof.
    unfold manifest. intros H. fb H. fb H. fb H. fb H. fb H.
    destruct (utf8_valid _); [|discriminate]. injection H as <-. exact (lift_data_bytes_safe _ _ E3).
  Qed.
  (* version_info(): the bytes handed to VersionInfo::try_from are inside the section and dword aligned *)
  Theorem version_info_safe r : version_info s = FOk r -> region_in (rs_len s) r /\ (rs_addr s + r_off r) mod 4 = 0.
  Proof.
    unfold version_info. intros H. fb H. rewrite ResourcesProofs.aligned_wadd64_4 in H.
    destruct ((rs_addr s + r_off a) mod 4 =? 0) eqn:Ea; [|discriminate]. injection H as <-.
    split; [exact (find_resource_safe _ _ _ _ E)|lia].
  Qed.

  (* GroupResource::new: the &GRPICONDIR and the &[GRPICONDIRENTRY] of entries() (from_raw_parts behind the header) *)
  Theorem group_new_safe g g' : region_in (rs_len s) g -> group_new s g = Ok g' ->
    g' = g /\ sec_safe s GRPICONDIR_align (r_off g) GRPICONDIR_size /\
    r_len g = GRPICONDIR_size + GRPICONDIRENTRY_size * g_count s g /\
    forall e, In e (g_entries s g) ->
      sec_safe s GRPICONDIRENTRY_align e GRPICONDIRENTRY_size /\ r_off g + GRPICONDIR_size <= e /\
      e + GRPICONDIRENTRY_size <= r_off g + r_len g.
  Proof.
    intros Hin. unfold group_new. rewrite ResourcesProofs.aligned_wadd64_2.
    destruct ((rs_addr s + r_off g) mod 2 =? 0) eqn:Ea; cbn [negb]; [|discriminate].
    destruct (r_len g <? 6) eqn:E6; [discriminate|]. destruct (negb _ || negb _); [discriminate|].
    destruct (r_len g =? 6 + rd16 s (r_off g + 4) * 14) eqn:El; cbn [negb]; [|discriminate].
    intros H; injection H as <-. unfold region_in, sec_safe, GRPICONDIR_align, GRPICONDIR_size, GRPICONDIRENTRY_size, GRPICONDIRENTRY_align, g_count in *.
    split; [reflexivity|]. split; [split; lia|]. split; [lia|].
    intros e He. unfold g_entries, g_count in He. apply in_map_iff in He. destruct He as [i [<- Hi]]. apply in_seq in Hi.
    repeat split; lia.
  Qed.
  (* the offsets written out in Model/Resources.v are those of the structs of group.rs *)
  Lemma group_layout_agrees g e :
    g_type s g = rd16 s (r_off g + GRPICONDIR_idType_off) /\ g_count s g = rd16 s (r_off g + GRPICONDIR_idCount_off) /\
    g_entries s g = map (fun i => r_off g + GRPICONDIR_idEntries_off + GRPICONDIRENTRY_size * N.of_nat i) (seq 0 (N.to_nat (g_count s g))) /\
    ge_bytes_in_res s e = rd16 s (e + GRPICONDIRENTRY_dwBytesInResHi_off) * 65536 + rd16 s (e + GRPICONDIRENTRY_dwBytesInResLo_off) /\
    ge_id s e = rd16 s (e + GRPICONDIRENTRY_nId_off) /\ GRPICONDIR_idEntries_off = GRPICONDIR_size.
  Proof. repeat split; reflexivity. Qed.
  Theorem g_image_safe g id r : g_image s g id = FOk r -> region_in (rs_len s) r.
  Proof. apply find_resource_safe. Qed.
  (* icons() / cursors(): every group the listing yields *)
  Theorem group_list_safe ty : Forall (fun x => forall nm g, x = FOk (nm, g) ->
      region_in (rs_len s) g /\ sec_safe s GRPICONDIR_align (r_off g) GRPICONDIR_size /\
      r_len g = GRPICONDIR_size + GRPICONDIRENTRY_size * g_count s g /\
      forall e, In e (g_entries s g) -> sec_safe s GRPICONDIRENTRY_align e GRPICONDIRENTRY_size /\
        r_off g + GRPICONDIR_size <= e /\ e + GRPICONDIRENTRY_size <= r_off g + r_len g) (group_list s ty).
  Proof.
    unfold group_list. destruct (r <-- lift (root s) ;; get_dir 48 s r (NId ty)) as [d| |]; [|constructor|constructor].
    apply Forall_forall. intros x Hx. apply in_map_iff in Hx. destruct Hx as [e [<- _]].
    intros nm g H. fb H. fb H. fb H. fb H. fb H. fb H. injection H as Hn Hg.
    apply lift_data_bytes_safe in E3.
    match type of E4 with
    | lift (group_new s ?rg) = FOk ?gg =>
      destruct (group_new s rg) as [q| |] eqn:Eg; cbn [lift] in E4; try discriminate; injection E4 as Hq; subst q;
      destruct (group_new_safe rg gg E3 Eg) as (Hgg & H1 & H2 & H3)
    end.
    subst. split; [assumption|split; [assumption|split; assumption]].
  Qed.
End ResourcesSafe.

(* Pe::resources(): the section is itself a borrow of the view's buffer, so every section borrow is a buffer borrow *)
Theorem view_resources_safe v dd s : placed (v_addr v) (v_len v) -> ConvertSimSpec.view_resources v dd = Ok s ->
  exists off, sec_of_view v s off /\ splaced s /\
    (forall align o size, sec_safe s align o size -> vsafe v align {| r_off := off + o; r_len := size |}) /\
    (forall r, region_in (Resources.rs_len s) r -> region_in (v_len v) {| r_off := off + r_off r; r_len := r_len r |}).
Proof.
  intros Hp. unfold ConvertSimSpec.view_resources. destruct dd as [[rva size]|]; [|discriminate].
  destruct (slice v rva 0 1) as [r| |] eqn:E; cbn [bind]; try discriminate. intros H; injection H as <-.
  apply (v_slice v Hp) in E. destruct E as [Hin _]. unfold region_in, placed in *.
  exists (r_off r). unfold sec_of_view, splaced, placed, sec_safe, vsafe, typed_safe, region_in. cbn [Resources.rs_addr Resources.rs_len Resources.rs_get r_off r_len].
  split; [split; [reflexivity|split; [lia|reflexivity]]|]. split; [lia|]. split.
  - intros align o sz [H1 H2]. split; [lia|]. rewrite N.add_assoc. exact H2.
  - intros q Hq. lia.
Qed.

Theorem resources_regions s :
  (forall off size align o, splaced s -> Resources.rslice s off size align = Ok o -> o = off /\ sec_safe s align o size) /\
  (forall off o n, Resources.slice_ws s off = Ok (o, n) ->
     o = off + 2 /\ n = Resources.rd16 s off /\ sec_safe s u16_align off 2 /\ sec_safe s u16_align o (2 * n)) /\
  (forall off o, Resources.dir_try_from s off = Ok o ->
     o = off /\ ent_safe s (Resources.EDir o) /\
     (forall e, In e (Resources.entries s o) -> sec_safe s IMAGE_RESOURCE_DIRECTORY_ENTRY_align e IMAGE_RESOURCE_DIRECTORY_ENTRY_size) /\
     (forall e, In e (Resources.named_entries s o) -> In e (Resources.entries s o)) /\
     (forall e, In e (Resources.id_entries s o) -> In e (Resources.entries s o))) /\
  (forall e nm, Resources.e_name s e = Ok nm ->
     match nm with
     | Resources.NId _ => True
     | Resources.NWide ws => exists o n, Resources.slice_ws s (Resources.rd32 s e - Resources.B31) = Ok (o, n) /\ ws = Resources.words s o n /\
                               sec_safe s u16_align (Resources.rd32 s e - Resources.B31) 2 /\ sec_safe s u16_align o (2 * n)
     | Resources.NStr _ => False
     end) /\
  (forall e x, Resources.e_entry s e = Ok x -> ent_safe s x) /\
  (forall o r, Resources.data_bytes s o = Ok r -> region_in (Resources.rs_len s) r) /\
  (forall lo a b r, Resources.find_resource lo s a b = Resources.FOk r -> region_in (Resources.rs_len s) r) /\
  (forall lo a b c r, Resources.find_resource_ex lo s a b c = Resources.FOk r -> region_in (Resources.rs_len s) r) /\
  (forall r, Resources.manifest s = Resources.FOk r -> region_in (Resources.rs_len s) r) /\
  (forall r, Resources.version_info s = Resources.FOk r -> region_in (Resources.rs_len s) r /\ (Resources.rs_addr s + r_off r) mod 4 = 0) /\
  (forall g g', region_in (Resources.rs_len s) g -> Resources.group_new s g = Ok g' ->
     g' = g /\ sec_safe s GRPICONDIR_align (r_off g) GRPICONDIR_size /\
     r_len g = GRPICONDIR_size + GRPICONDIRENTRY_size * Resources.g_count s g /\
     forall e, In e (Resources.g_entries s g) ->
       sec_safe s GRPICONDIRENTRY_align e GRPICONDIRENTRY_size /\ r_off g + GRPICONDIR_size <= e /\
       e + GRPICONDIRENTRY_size <= r_off g + r_len g) /\
  (forall g id r, Resources.g_image s g id = Resources.FOk r -> region_in (Resources.rs_len s) r).
Proof.
  split; [|split; [|split; [|split; [|split; [|split; [|split; [|split; [|split; [|split; [|split]]]]]]]]]].
  - intros off size align o Hp. apply rslice_safe. exact Hp.
  - apply slice_ws_safe.
  - apply dir_try_from_safe.
  - apply e_name_safe.
  - apply e_entry_safe.
  - apply data_bytes_safe.
  - apply find_resource_safe.
  - apply find_resource_ex_safe.
  - apply manifest_safe.
  - apply version_info_safe.
  - apply group_new_safe.
  - apply g_image_safe.
Qed.

(* ================================================================ version info *)
From PV.Proofs Require VersionInfoProofs.
Section VersionInfoSafe.
  Import VersionInfo.

  Lemma words_of_len2 : forall bs, 2 * lenN (words_of bs) <= lenN bs.
  Proof.
    assert (H : forall bs, 2 * lenN (words_of bs) <= lenN bs /\ forall a, 2 * lenN (words_of (a :: bs)) <= lenN (a :: bs)).
    { induction bs as [|b bs [IH1 IH2]].
      - split; [cbn [words_of]; rewrite (@lenN_nil N); lia|]. intros a. cbn [words_of]. rewrite lenN_cons, !(@lenN_nil N). lia.
      - split; [apply IH2|]. intros a. cbn [words_of]. rewrite !lenN_cons. lia. }
    intros bs. apply H.
  Qed.
  (* VersionInfo::try_from: the &[u16] view from_raw_parts(bytes.as_ptr() as *const u16, len / 2) *)
  Theorem vi_try_from_safe base bytes ws : try_from base bytes = Ok ws ->
    base mod 4 = 0 /\ base mod u16_align = 0 /\ ws = words_of bytes /\ 2 * lenN ws <= lenN bytes.
  Proof.
    unfold try_from. destruct (aligned_to 4 base) eqn:E; cbn [negb]; [|discriminate]. intros H; injection H as <-.
    apply aligned_to_spec in E. unfold u16_align. split; [exact E|]. split; [lia|]. split; [reflexivity|apply words_of_len2].
  Qed.
  (* whatever parse_tlv hands to the visitor lies inside the words it was given *)
  Theorem tlv_inside vl ws t rest : VersionInfoProofs.len_ok ws -> parse_tlv vl ws = Ok (t, rest) ->
    3 + lenN (t_key t) <= lenN ws /\ t_voff t + lenN (t_value t) <= lenN ws /\
    t_voff t + lenN (t_value t) + lenN (t_children t) <= lenN ws.
  Proof.
    intros Hok H. pose proof (VersionInfoProofs.parse_tlv_contained vl ws t rest Hok H) as C. cbv zeta in C.
    destruct C as (HL & _ & (a1 & b1 & Hk & Ha1) & (a2 & b2 & Hv & Ha2) & (a3 & Hc & Ha3)).
    assert (Hlen : lenN (take (N.max 4 (word ws 0 / 2)) ws) = N.max 4 (word ws 0 / 2)).
    { rewrite VersionInfoProofs.lenN_take. lia. }
    split; [|split].
    - rewrite Hk, !lenN_app in Hlen. lia.
    - rewrite Hv, !lenN_app in Hlen. lia.
    - rewrite Hc, !lenN_app in Hlen. lia.
  Qed.
  (* the VS_FIXEDFILEINFO cast of visit(): a 52-byte value of the (first) block is inside the resource and
     4-byte aligned when the resource is - the cast never meets the misaligned case of the model *)
  Theorem fixed_info_safe base ws t rest : base mod 4 = 0 -> VersionInfoProofs.len_ok ws -> parse_tlv VBytes ws = Ok (t, rest) ->
    2 * lenN (t_value t) = VS_FIXEDFILEINFO_size ->
    fixed_ref base t = Ok (Some (t_value t)) /\ (base + 2 * t_voff t) mod VS_FIXEDFILEINFO_align = 0 /\
    2 * t_voff t + VS_FIXEDFILEINFO_size <= 2 * lenN ws.
  Proof.
    intros Hb Hok H Hsz. pose proof (tlv_inside VBytes ws t rest Hok H) as (Hk & Hv & _).
    destruct (VersionInfoProofs.parse_tlv_cases VBytes ws Hok) as [E|(t' & rest' & E & _ & _ & Hvo & Hkl)]; rewrite E in H; [discriminate|].
    injection H as <- <-. change VS_FIXEDFILEINFO_size with 52 in *. change VS_FIXEDFILEINFO_align with 4.
    assert (Hne : t_value t' <> []) by (intros X; rewrite X, (@lenN_nil N) in Hsz; lia).
    specialize (Hvo Hne). unfold VersionInfoProofs.len_ok in Hok.
    pose proof (VersionInfoProofs.align2_even (lenN (t_key t')) ltac:(lia)) as Hev.
    assert (Hal : (base + 2 * t_voff t') mod 4 = 0) by (rewrite Hvo; lia).
    split; [|split; [exact Hal|lia]].
    unfold fixed_ref. replace (2 * lenN (t_value t') =? 52) with true by lia.
    unfold aligned_to. rewrite Hal. reflexivity.
  Qed.
  (* Language::from_slice: len/2 Language records over a u16 slice: inside it, and align_of::<Language>() is that of u16 *)
  Theorem lang_from_slice_safe : forall ws, Language_size * lenN (lang_from_slice ws) <= 2 * lenN ws.
  Proof.
    assert (H : forall ws, Language_size * lenN (lang_from_slice ws) <= 2 * lenN ws /\
                           forall a, Language_size * lenN (lang_from_slice (a :: ws)) <= 2 * lenN (a :: ws)).
    { unfold Language_size. induction ws as [|b ws [IH1 IH2]].
      - split; [cbn [lang_from_slice]; rewrite (@lenN_nil N), (@lenN_nil (N * N)); lia|]. intros a. cbn [lang_from_slice]. rewrite lenN_cons, (@lenN_nil N), (@lenN_nil (N * N)). lia.
      - split; [apply IH2|]. intros a. cbn [lang_from_slice]. rewrite !lenN_cons. lia. }
    intros ws. apply H.
  Qed.
End VersionInfoSafe.

Theorem version_info_regions :
  (forall base bytes ws, VersionInfo.try_from base bytes = Ok ws ->
     base mod 4 = 0 /\ base mod u16_align = 0 /\ ws = VersionInfo.words_of bytes /\ 2 * lenN ws <= lenN bytes) /\
  (forall vl ws t rest, vi_len_ok ws -> VersionInfo.parse_tlv vl ws = Ok (t, rest) ->
     3 + lenN (VersionInfo.t_key t) <= lenN ws /\ VersionInfo.t_voff t + lenN (VersionInfo.t_value t) <= lenN ws /\
     VersionInfo.t_voff t + lenN (VersionInfo.t_value t) + lenN (VersionInfo.t_children t) <= lenN ws) /\
  (forall base ws t rest, base mod 4 = 0 -> vi_len_ok ws -> VersionInfo.parse_tlv VersionInfo.VBytes ws = Ok (t, rest) ->
     2 * lenN (VersionInfo.t_value t) = VS_FIXEDFILEINFO_size ->
     VersionInfo.fixed_ref base t = Ok (Some (VersionInfo.t_value t)) /\
     (base + 2 * VersionInfo.t_voff t) mod VS_FIXEDFILEINFO_align = 0 /\
     2 * VersionInfo.t_voff t + VS_FIXEDFILEINFO_size <= 2 * lenN ws) /\
  (forall ws, Language_size * lenN (VersionInfo.lang_from_slice ws) <= 2 * lenN ws) /\
  Language_align = u16_align.
Proof.
  split; [|split; [|split; [|split]]].
  - apply vi_try_from_safe.
  - apply tlv_inside.
  - apply fixed_info_safe.
  - apply lang_from_slice_safe.
  - reflexivity.
Qed.

(* ================================================================ Rich structure *)
From PV.Proofs Require RichProofs.
From PV.Spec Require RichSpec.
(* RichStructure::try_from on the dword view of the image (C01_dword_view): the dos stub, the Rich image and the
   record words it iterates are dword slices inside the buffer *)
Theorem rich_region addr len image s e : addr mod 4 = 0 -> lenN image = len / 4 ->
  Rich.try_from image = Ok (s, e) ->
  (16 <= s)%nat /\ (s + 6 <= e)%nat /\ 4 * N.of_nat e <= len /\
  typed_safe addr len u32_align {| r_off := 0; r_len := 4 * N.of_nat s |} /\
  typed_safe addr len u32_align {| r_off := 4 * N.of_nat s; r_len := 4 * N.of_nat (e - s) |} /\
  typed_safe addr len u32_align {| r_off := 4 * N.of_nat (s + 4); r_len := 4 * N.of_nat (e - s - 6) |}.
Proof.
  intros Ha Hl H. apply RichProofs.try_from_well_formed in H. destruct H as (el & _ & Hn & W).
  unfold RichSpec.well_formed in W. destruct W as (H16 & H6 & He & _).
  rewrite firstn_length in He. unfold lenN in Hl.
  assert (Hb : 4 * N.of_nat e <= len) by lia.
  unfold typed_safe, region_in, u32_align. cbn [r_off r_len].
  split; [exact H16|]. split; [exact H6|]. split; [exact Hb|]. repeat split; lia.
Qed.
Lemma dwords_of_len g len : lenN (ConvertSimSpec.dwords_of g len) = len / 4.
Proof. unfold ConvertSimSpec.dwords_of, lenN. rewrite map_length, seq_length. lia. Qed.
Theorem view_rich_region v s e : v_addr v mod 4 = 0 -> ConvertSimSpec.view_rich (v_get v) (v_len v) = Ok (s, e) ->
  (16 <= s)%nat /\ (s + 6 <= e)%nat /\ 4 * N.of_nat e <= v_len v /\
  vsafe v u32_align {| r_off := 0; r_len := 4 * N.of_nat s |} /\
  vsafe v u32_align {| r_off := 4 * N.of_nat s; r_len := 4 * N.of_nat (e - s) |} /\
  vsafe v u32_align {| r_off := 4 * N.of_nat (s + 4); r_len := 4 * N.of_nat (e - s - 6) |}.
Proof. intros Ha H. exact (rich_region (v_addr v) (v_len v) _ s e Ha (dwords_of_len _ _) H). Qed.

(* ================================================================ base relocations *)
From PV.Model Require Relocs.
From PV.Spec Require RelocSpec.
From PV.Proofs Require RelocsProofs.
(* base_relocs::try_from: pe.slice(VirtualAddress, Size, 4) cut to Size bytes with get_unchecked(..Size) *)
Theorem relocs_try_from_safe v dd r : placed (v_addr v) (v_len v) -> ConvertSimSpec.relocs_try_from v dd = Ok r ->
  vsafe v IMAGE_BASE_RELOCATION_align r /\ exists va, dd = Some (va, r_len r).
Proof.
  intros Hp. unfold ConvertSimSpec.relocs_try_from. destruct dd as [[va size]|]; [|discriminate]. intros H.
  apply (v_rd v Hp false) in H. destruct H as [Hs Hl]. split; [exact Hs|]. exists va. rewrite Hl. reflexivity.
Qed.
(* IterBlocks::peek dereferences every block header as &IMAGE_BASE_RELOCATION and builds its &[u16] with from_raw_parts:
   in a chain that starts at a multiple of 4 every block starts at a multiple of 4 (the words are 2-aligned behind it) *)
Theorem reloc_blocks_aligned data : forall bs off, off mod 4 = 0 -> RelocSpec.chainb data off bs = true ->
  Forall (fun b => Relocs.b_off b mod 4 = 0 /\ Relocs.b_off b + IMAGE_BASE_RELOCATION_size + 2 * lenN (Relocs.b_words b) <= lenN data) bs.
Proof.
  induction bs as [|b bs IH]; intros off Ho H; [constructor|].
  pose proof (RelocsProofs.chainb_inv data off b bs H) as Hinv. cbv zeta in Hinv.
  destruct Hinv as (H1 & _ & _ & _ & Hw & [Hlt Hle] & _ & Hrest).
  constructor.
  - change IMAGE_BASE_RELOCATION_size with 8. split; lia.
  - destruct bs as [|b2 bs2]; [constructor|].
    pose proof (RelocsProofs.chainb_inv data _ b2 bs2 Hrest) as Hinv2. cbv zeta in Hinv2.
    destruct Hinv2 as (_ & _ & _ & _ & _ & [Hlt2 Hle2] & _ & _).
    eapply IH; [|exact Hrest]. unfold RelocSpec.align4 in *. lia.
Qed.

(* ================================================================ the unchecked accesses that return no borrow *)
From PV.Model Require Convert.
From PV.Proofs Require ConvertProofs.
(* The models mark the unchecked accesses whose result is not a returned borrow with a UB fault: the header copy of
   to_view / to_file (get_unchecked(..SizeOfHeaders) on both buffers), the probe of binary_search_by (get_unchecked),
   the VS_FIXEDFILEINFO cast.  None of them is reachable. *)
Theorem no_ub :
  (forall f m, mem_ok m -> no_fault (Convert.pe_to_view f m)) /\
  (forall f m, mem_ok m -> no_fault (Convert.pe_to_file f m)) /\
  (forall t pc, no_fault (Dirs.index_of t pc)) /\
  (forall t pc, no_fault (Dirs.lookup_function_entry t pc)) /\
  (forall St (V : VersionInfo.visitor St) base ws s, base mod 4 = 0 -> vi_len_ok ws -> no_fault (VersionInfo.visit V false base ws s)).
Proof.
  split; [exact ConvertProofs.pe_to_view_no_fault|]. split; [exact ConvertProofs.pe_to_file_no_fault|].
  split; [exact DirsProofs.index_of_no_fault|]. split; [exact DirsProofs.lookup_no_fault|].
  intros St V base ws s Hb Hok f. rewrite (VersionInfoProofs.visit_pure V base ws s Hb Hok). discriminate.
Qed.

(* ================================================================ the CStr invariant *)
(* CStr::from_bytes_unchecked asks for a slice that "ends with the only nul byte" (AsRef strips it with
   get_unchecked(..len - 1)): every C string the typed reads and the debug parsers hand out is such a slice *)
Theorem c_str_invariant get sl a q : rd_c_str get sl a = Ok q ->
  0 < r_len q /\ get (r_off q + r_len q - 1) = 0 /\ forall k, k < r_len q - 1 -> get (r_off q + k) <> 0.
Proof.
  intros H. pose proof (rd_c_str_correct get sl a) as C.
  destruct (sl a 0 1) as [r|e|f] eqn:E.
  - rewrite H in C. destruct C as (Ho & _ & Hz & Hp & Hn). rewrite Ho. split; [exact Hp|]. split; [exact Hz|exact Hn].
  - unfold rd_c_str in H. rewrite E in H. discriminate.
  - unfold rd_c_str in H. rewrite E in H. discriminate.
Qed.
Theorem c_str_invariants :
  (forall get sl a q, rd_c_str get sl a = Ok q ->
     0 < r_len q /\ get (r_off q + r_len q - 1) = 0 /\ forall k, k < r_len q - 1 -> get (r_off q + k) <> 0) /\
  (forall g off len q, Dirs.cstr_from_bytes g off len = Some q ->
     r_off q = off /\ 0 < r_len q /\ r_len q <= len /\ g (r_off q + r_len q - 1) = 0 /\ forall k, k < r_len q - 1 -> g (r_off q + k) <> 0).
Proof.
  split; [exact c_str_invariant|]. intros g off len q H.
  pose proof (DirsProofs.cstr_from_bytes_spec g off len) as S. rewrite H in S. destruct S as (A & B & C & D & E).
  rewrite A. repeat split; assumption.
Qed.
