(* Proofs for C11 theorem 3b, part 1: the interpreter on atom lists that are the flattening of a TREE of groups
   (Push .. Pop around a sub-pattern, Case/Break/Nop around alternatives) is a structural interpreter [cden] over the
   tree, in continuation-passing style without a program counter. The program counter is dealt with once, here:
   every invocation of [exec] has a fixed program counter it returns on success ([pcK]). *)
From PV.Model Require Import Machine Pattern Exec.
From PV.Spec Require Import PatSyntax PatSem.
From PV.Proofs Require Import BaseProofs PatSyntaxProofs PatSemProofs.
Ltac Zify.zify_post_hook ::= Z.div_mod_to_equations.

Inductive code :=
| CA (a : atom)
| CSub (n : N) (body : list code)          (* Push n, body, Pop *)
| CAlt (alts : list (list code)).          (* Case, l1, Break, ..., Nop, ln *)

Fixpoint flatten1 (x : code) : list atom :=
  match x with
  | CA a => [a]
  | CSub n body => Push n :: flat_map flatten1 body ++ [Pop]
  | CAlt ls => alt_code (map (flat_map flatten1) ls)
  end.
Notation flattens := (flat_map flatten1).

(* verdict, cursor, save array *)
Definition ares := (bool * N * list N)%type.
Definition a_ok (r : ares) : bool := fst (fst r).
Definition a_cur (r : ares) : N := snd (fst r).
Definition a_sv (r : ares) : list N := snd r.
Definition cont := N -> N -> N -> list N -> ares.         (* cursor mask ext save *)
Definition kret : cont := fun c _ _ s => (true, c, s).

Fixpoint cmany (run : N -> list N -> ares) (peek : option N) (byte_at : N -> N) (cnt : nat) (i : N) (save : list N) : ares :=
  match cnt with
  | O => (false, 0, save)
  | S cnt' =>
    if match peek with Some b => byte_at i =? b | None => true end
    then let r := run i save in if a_ok r then r else cmany run peek byte_at cnt' (i + 1) (a_sv r)
    else cmany run peek byte_at cnt' (i + 1) save
  end.

Definition atom_ok (a : atom) : bool :=
  match a with
  | Byte _ | Save _ | Skip _ | Rangext _ | Many _ | Jump1 | Jump4 | Ptr | Aligned _
  | ReadI8 _ | ReadU8 _ | ReadI16 _ | ReadU16 _ | ReadI32 _ | ReadU32 _ | Zero _ => true
  | _ => false
  end.

Section CDen.
  Variable sc : scan.

  (* one atom; [rest] = the atoms the continuation [k] stands for (exec_many peeks at them) *)
  Definition catom (a : atom) (rest : list atom) (k : cont) : cont := fun cur mask ext save =>
    let fail := (false, cur, save) in
    match a with
    | Byte b =>
      match sc_read sc 1 cur with
      | Some x => if N.land x mask =? N.land b mask then k (cur + 1) 255 ext save else fail
      | None => fail
      end
    | Save s => k cur mask ext (set_slot save s cur)
    | Skip n => k (wadd32 cur (skip_amount sc ext n)) mask 0 save
    | Rangext e => k cur mask (e * 256) save
    | Many lim =>
      match sc_slice_len sc cur with
      | None => fail
      | Some slen =>
        let limit := ext + lim in
        let n := if limit =? 0 then slen else N.min limit slen in
        cmany (fun i s => k (wadd32 cur i) 255 0 s) (peek_byte rest) (sc_slice_byte sc cur) (N.to_nat n) 0 save
      end
    | Jump1 => match sc_read sc 1 cur with Some x => k (wadd32 (wadd32 cur (sext 8 x)) 1) mask ext save | None => fail end
    | Jump4 => match sc_read sc 4 cur with Some x => k (wadd32 (wadd32 cur x) 4) mask ext save | None => fail end
    | Ptr =>
      match sc_read sc (sc_va_bytes sc) cur with
      | Some va => match sc_pointer sc va with Some rva => k rva mask ext save | None => fail end
      | None => fail
      end
    | Aligned n => if N.land cur (if n <? 32 then 2 ^ n - 1 else W32 - 1) =? 0 then k cur mask ext save else fail
    | ReadU8 s => match sc_read sc 1 cur with Some x => k (wadd32 cur 1) mask ext (set_slot save s x) | None => fail end
    | ReadI8 s => match sc_read sc 1 cur with Some x => k (wadd32 cur 1) mask ext (set_slot save s (sext 8 x)) | None => fail end
    | ReadU16 s => match sc_read sc 2 cur with Some x => k (wadd32 cur 2) mask ext (set_slot save s x) | None => fail end
    | ReadI16 s => match sc_read sc 2 cur with Some x => k (wadd32 cur 2) mask ext (set_slot save s (sext 16 x)) | None => fail end
    | ReadU32 s | ReadI32 s => match sc_read sc 4 cur with Some x => k (wadd32 cur 4) mask ext (set_slot save s x) | None => fail end
    | Zero s => k cur mask ext (set_slot save s 0)
    | _ => fail
    end.

  (* the alternatives of a group, [run l] = the interpreter on alternative l: every alternative but the last runs in an
     invocation of its own (Case ... Break); the last one is inline *)
  Definition calts (run : list code -> list atom -> cont -> cont) (rest : list atom) (k : cont) (cur mask ext : N)
    : list (list code) -> list N -> ares :=
    fix go (ls : list (list code)) (save : list N) : ares :=
      match ls with
      | [] => k cur mask ext save
      | l :: t =>
        match t with
        | [] => run l rest k cur mask ext save
        | _ :: _ =>
          let tail := alt_code (map flattens t) in
          let r := run l (Break (N.of_nat (length tail)) :: tail ++ rest) kret cur 255 0 save in
          if a_ok r then k (a_cur r) mask ext (a_sv r) else go t (a_sv r)
        end
      end.

  Fixpoint cden1 (x : code) (rest : list atom) (k : cont) {struct x} : cont :=
    let seq := fix seq (l : list code) (rest : list atom) (k : cont) {struct l} : cont :=
      match l with [] => k | y :: t => cden1 y (flattens t ++ rest) (seq t rest k) end in
    match x with
    | CA a => catom a rest k
    | CSub n body => fun cur mask ext save =>
      let r := seq body (Pop :: rest) kret cur 255 0 save in
      if a_ok r then k (wadd32 cur (skip_amount sc ext n)) 255 0 (a_sv r) else (false, cur, a_sv r)
    | CAlt ls => fun cur mask ext save => calts seq rest k cur mask ext ls save
    end.
  Definition cdens : list code -> list atom -> cont -> cont :=
    fix seq (l : list code) (rest : list atom) (k : cont) {struct l} : cont :=
      match l with [] => k | y :: t => cden1 y (flattens t ++ rest) (seq t rest k) end.

  Lemma cdens_cons y t rest k : cdens (y :: t) rest k = cden1 y (flattens t ++ rest) (cdens t rest k).
  Proof. reflexivity. Qed.
  Lemma cden1_sub n body rest k cur mask ext save :
    cden1 (CSub n body) rest k cur mask ext save =
    let r := cdens body (Pop :: rest) kret cur 255 0 save in
    if a_ok r then k (wadd32 cur (skip_amount sc ext n)) 255 0 (a_sv r) else (false, cur, a_sv r).
  Proof. reflexivity. Qed.
  Lemma cden1_alt_nil rest k cur mask ext save : cden1 (CAlt []) rest k cur mask ext save = k cur mask ext save.
  Proof. reflexivity. Qed.
  Lemma cden1_alt_one l rest k cur mask ext save : cden1 (CAlt [l]) rest k cur mask ext save = cdens l rest k cur mask ext save.
  Proof. reflexivity. Qed.
  Lemma cden1_alt_cons l l2 t rest k cur mask ext save :
    cden1 (CAlt (l :: l2 :: t)) rest k cur mask ext save =
    let tail := alt_code (map flattens (l2 :: t)) in
    let r := cdens l (Break (N.of_nat (length tail)) :: tail ++ rest) kret cur 255 0 save in
    if a_ok r then k (a_cur r) mask ext (a_sv r) else cden1 (CAlt (l2 :: t)) rest k cur mask ext (a_sv r).
  Proof. reflexivity. Qed.
End CDen.

(* ---------------------------------------------------------------- induction on trees *)
Section CodeInd.
  Variable P : code -> Prop.
  Hypothesis HA : forall a, P (CA a).
  Hypothesis HS : forall n body, Forall P body -> P (CSub n body).
  Hypothesis HL : forall ls, Forall (Forall P) ls -> P (CAlt ls).
  Fixpoint code_ind2 (x : code) : P x :=
    match x with
    | CA a => HA a
    | CSub n body => HS n body ((fix go (l : list code) : Forall P l := match l with [] => Forall_nil _ | y :: t => Forall_cons _ (code_ind2 y) (go t) end) body)
    | CAlt ls => HL ls ((fix gos (ls : list (list code)) : Forall (Forall P) ls :=
                           match ls with [] => Forall_nil _ | l :: t => Forall_cons _ ((fix go (l : list code) : Forall P l := match l with [] => Forall_nil _ | y :: t => Forall_cons _ (code_ind2 y) (go t) end) l) (gos t) end) ls)
    end.
End CodeInd.

Fixpoint code_ok (x : code) : bool :=
  match x with
  | CA a => atom_ok a
  | CSub _ body => forallb code_ok body
  | CAlt ls => forallb (forallb code_ok) ls
  end.

(* ---------------------------------------------------------------- the continuation only matters extensionally, the rest
   only through what exec_many can peek *)
Definition opaque (a : atom) : bool := match a with Byte _ | Save _ => false | _ => true end.
Lemma peek_opaque t : forall a1 r1 a2 r2, opaque a1 = true -> opaque a2 = true -> peek_byte (t ++ a1 :: r1) = peek_byte (t ++ a2 :: r2).
Proof.
  induction t as [|x t IH]; intros a1 r1 a2 r2 H1 H2.
  - cbn [app]. destruct a1; try discriminate H1; destruct a2; try discriminate H2; reflexivity.
  - cbn [app peek_byte]. destruct x; try reflexivity. apply IH; assumption.
Qed.

Definition peq (r1 r2 : list atom) : Prop := forall t, peek_byte (t ++ r1) = peek_byte (t ++ r2).
Definition keq (k1 k2 : cont) : Prop := forall c m e s, k1 c m e s = k2 c m e s.
Lemma peq_refl r : peq r r. Proof. intros t. reflexivity. Qed.
Lemma peq_app l r1 r2 : peq r1 r2 -> peq (l ++ r1) (l ++ r2).
Proof. intros H t. rewrite !app_assoc. apply H. Qed.
Lemma peq_opaque a1 r1 a2 r2 : opaque a1 = true -> opaque a2 = true -> peq (a1 :: r1) (a2 :: r2).
Proof. intros H1 H2 t. apply peek_opaque; assumption. Qed.
Lemma keq_refl k : keq k k. Proof. intros c m e s. reflexivity. Qed.

Section Cong.
  Variable sc : scan.

  Lemma cmany_ext run1 run2 peek ba : (forall i s, run1 i s = run2 i s) ->
    forall cnt i save, cmany run1 peek ba cnt i save = cmany run2 peek ba cnt i save.
  Proof.
    intros H. induction cnt as [|cnt IH]; intros i save; cbn [cmany]; [reflexivity|].
    rewrite H. destruct (match peek with Some b => ba i =? b | None => true end); [|apply IH].
    destruct (a_ok (run2 i save)); [reflexivity|apply IH].
  Qed.

  Lemma catom_cong a rest1 rest2 k1 k2 : peq rest1 rest2 -> keq k1 k2 -> keq (catom sc a rest1 k1) (catom sc a rest2 k2).
  Proof.
    intros Hp Hk c m e s. unfold catom. destruct a; try reflexivity; try apply Hk;
    try solve [repeat (match goal with |- context [match ?x with _ => _ end] => destruct x end; try reflexivity; try apply Hk)].
    destruct (sc_slice_len sc c); [|reflexivity]. cbv zeta. pose proof (Hp []) as Hp0. cbn [app] in Hp0. rewrite Hp0. apply cmany_ext. intros i s'. apply Hk.
  Qed.

  Definition Cong1 (x : code) : Prop := forall rest1 rest2 k1 k2, peq rest1 rest2 -> keq k1 k2 -> keq (cden1 sc x rest1 k1) (cden1 sc x rest2 k2).
  Definition CongS (l : list code) : Prop := forall rest1 rest2 k1 k2, peq rest1 rest2 -> keq k1 k2 -> keq (cdens sc l rest1 k1) (cdens sc l rest2 k2).

  Lemma congS_of l : Forall Cong1 l -> CongS l.
  Proof.
    induction 1 as [|y t Hy _ IH]; intros rest1 rest2 k1 k2 Hp Hk; [exact Hk|].
    rewrite !cdens_cons. apply Hy; [apply peq_app; exact Hp|apply IH; assumption].
  Qed.

  Lemma cden1_cong x : Cong1 x.
  Proof.
    induction x as [a|n body IH|ls IH] using code_ind2; intros rest1 rest2 k1 k2 Hp Hk.
    - apply catom_cong; assumption.
    - intros c m e s. rewrite !cden1_sub. cbv zeta.
      rewrite (congS_of body IH (Pop :: rest1) (Pop :: rest2) kret kret); [|apply (peq_app [Pop]); exact Hp|apply keq_refl].
      destruct (a_ok _); [apply Hk|reflexivity].
    - intros c m e. induction IH as [|l t Hl Ht IHt]; intros s.
      + rewrite !cden1_alt_nil. apply Hk.
      + destruct t as [|l2 t].
        * rewrite !cden1_alt_one. apply (congS_of l Hl); assumption.
        * rewrite !cden1_alt_cons. cbv zeta.
          rewrite (congS_of l Hl (Break (N.of_nat (length (alt_code (map flattens (l2 :: t))))) :: alt_code (map flattens (l2 :: t)) ++ rest1)
                     (Break (N.of_nat (length (alt_code (map flattens (l2 :: t))))) :: alt_code (map flattens (l2 :: t)) ++ rest2) kret kret);
            [|apply peq_opaque; reflexivity|apply keq_refl].
          destruct (a_ok _); [apply Hk|apply IHt].
  Qed.
  Lemma cdens_cong l : CongS l.
  Proof. apply congS_of. induction l; constructor; [apply cden1_cong|assumption]. Qed.

  Lemma cdens_app l1 : forall l2 rest k, keq (cdens sc (l1 ++ l2) rest k) (cdens sc l1 (flattens l2 ++ rest) (cdens sc l2 rest k)).
  Proof.
    induction l1 as [|y t IH]; intros l2 rest k; [apply keq_refl|].
    cbn [app]. rewrite !cdens_cons. rewrite flat_map_app, <- app_assoc. apply cden1_cong; [apply peq_refl|apply IH].
  Qed.
End Cong.

(* ================================================================ exec on the flattening of a tree is [cden] *)
Lemma nth_error_mid {A} (pre : list A) a post : nth_error (pre ++ a :: post) (length pre) = Some a.
Proof. rewrite nth_error_app2 by lia. rewrite Nat.sub_diag. reflexivity. Qed.
Lemma skipn_mid {A} (pre : list A) post : skipn (length pre) (pre ++ post) = post.
Proof. rewrite skipn_app, Nat.sub_diag, skipn_all. reflexivity. Qed.

(* the result of an invocation that returns the program counter pcK when it succeeds *)
Definition agr (pcK : nat) (r : res xres) (a : ares) : Prop :=
  exists pc' cur', r = Ok (a_ok a, pc', cur', a_sv a) /\ (a_ok a = true -> pc' = pcK /\ cur' = a_cur a).

Section ExecCDen.
  Variable sc : scan.
  Hypothesis Hsc : forall rva x, sc_read sc 1 rva = Some x -> rva + 1 < W32.
  Variable pat : list atom.

  (* [K] describes the execution from program counter pc2 with any sufficient fuel *)
  Definition kok (pcK pc2 : nat) (K : cont) : Prop :=
    forall f c m e s, (S (length pat - pc2) <= f)%nat -> agr pcK (exec sc pat f pc2 c m e s) (K c m e s).

  Lemma many_loop_cmany pcK run arun peek ba : (forall i s, agr pcK (run i s) (arun i s)) ->
    forall cnt i save last, agr pcK (many_loop run peek ba cnt i save last) (cmany arun peek ba cnt i save).
  Proof.
    intros H. induction cnt as [|cnt IH]; intros i save last; cbn [many_loop cmany].
    - exists (fst last), (snd last). split; [reflexivity|intros E; discriminate E].
    - destruct (match peek with Some b => ba i =? b | None => true end); [|apply IH].
      destruct (H i save) as [pc' [cur' [E Hp]]]. rewrite E. cbn [bind].
      destruct (a_ok (arun i save)) eqn:Eok; [|apply IH].
      exists pc', cur'. rewrite Eok. split; [reflexivity|exact Hp].
  Qed.

  Lemma agr_fail pcK pc' c' c s : agr pcK (Ok (false, pc', c', s)) (false, c, s).
  Proof. exists pc', c'. split; [reflexivity|intros E; discriminate E]. Qed.

  Lemma exec_catom a pre post pcK K : atom_ok a = true -> pat = pre ++ a :: post ->
    kok pcK (S (length pre)) K -> kok pcK (length pre) (catom sc a post K).
  Proof.
    intros Ha Hpat HK f c m e s Hf.
    assert (Hlen : (length pre < length pat)%nat) by (rewrite Hpat, app_length; cbn [length]; lia).
    destruct f as [|f]; [lia|]. cbn [exec]. rewrite Hpat at 1. rewrite nth_error_mid.
    assert (HK' : forall c m e s, agr pcK (exec sc pat f (S (length pre)) c m e s) (K c m e s)) by (intros; apply HK; lia).
    unfold catom. destruct a; try discriminate Ha.
    - destruct (sc_read sc 1 c) as [x|] eqn:Er; [|apply agr_fail].
      destruct (N.land x m =? N.land b m); [|apply agr_fail].
      unfold chk_add. pose proof (Hsc c x Er). destruct (c + 1 <? W32) eqn:E; [|lia]. cbn [bind]. apply HK'.
    - apply HK'.
    - apply HK'.
    - apply HK'.
    - destruct (sc_slice_len sc c) as [slen|]; [|apply agr_fail]. cbv zeta.
      replace (skipn (S (length pre)) pat) with post.
      2: { rewrite Hpat. change (pre ++ Many k :: post) with (pre ++ [Many k] ++ post). rewrite app_assoc.
           replace (S (length pre)) with (length (pre ++ [Many k])) by (rewrite app_length; cbn [length]; lia). rewrite skipn_mid. reflexivity. }
      apply many_loop_cmany. intros i s'. apply HK'.
    - destruct (sc_read sc 1 c); [apply HK'|apply agr_fail].
    - destruct (sc_read sc 4 c); [apply HK'|apply agr_fail].
    - destruct (sc_read sc (sc_va_bytes sc) c); [|apply agr_fail]. destruct (sc_pointer sc n); [apply HK'|apply agr_fail].
    - destruct (N.land c (if k <? 32 then 2 ^ k - 1 else W32 - 1) =? 0); [apply HK'|apply agr_fail].
    - destruct (sc_read sc 1 c); [apply HK'|apply agr_fail].
    - destruct (sc_read sc 1 c); [apply HK'|apply agr_fail].
    - destruct (sc_read sc 2 c); [apply HK'|apply agr_fail].
    - destruct (sc_read sc 2 c); [apply HK'|apply agr_fail].
    - destruct (sc_read sc 4 c); [apply HK'|apply agr_fail].
    - destruct (sc_read sc 4 c); [apply HK'|apply agr_fail].
    - apply HK'.
  Qed.

  Definition Ex1 (x : code) : Prop := code_ok x = true -> forall pre post pcK K, pat = pre ++ flatten1 x ++ post ->
    kok pcK (length pre + length (flatten1 x)) K -> kok pcK (length pre) (cden1 sc x post K).
  Definition ExS (l : list code) : Prop := forallb code_ok l = true -> forall pre post pcK K, pat = pre ++ flattens l ++ post ->
    kok pcK (length pre + length (flattens l)) K -> kok pcK (length pre) (cdens sc l post K).

  Lemma exS_of l : Forall Ex1 l -> ExS l.
  Proof.
    induction 1 as [|y t Hy _ IH]; intros Hok pre post pcK K Hpat HK.
    - cbn [flat_map length] in HK. rewrite Nat.add_0_r in HK. exact HK.
    - cbn [forallb] in Hok. apply andb_prop in Hok. destruct Hok as [Hoy Hot]. rewrite cdens_cons.
      cbn [flat_map] in Hpat, HK. rewrite <- app_assoc in Hpat.
      apply (Hy Hoy pre (flattens t ++ post) pcK); [exact Hpat|].
      replace (length pre + length (flatten1 y))%nat with (length (pre ++ flatten1 y)) by (rewrite app_length; reflexivity).
      apply (IH Hot (pre ++ flatten1 y) post pcK K); [rewrite <- app_assoc; exact Hpat|].
      rewrite app_length. rewrite app_length in HK. rewrite <- Nat.add_assoc. exact HK.
  Qed.

  Lemma exec_cden1 x : Ex1 x.
  Proof.
    induction x as [a|n body IH|ls IH] using code_ind2; intros Hok pre post pcK K Hpat HK.
    - cbn [flatten1 app length] in Hpat, HK. cbn [code_ok] in Hok. rewrite Nat.add_1_r in HK.
      apply exec_catom; assumption.
    - (* Push n, body, Pop *)
      cbn [code_ok] in Hok. cbn [flatten1] in Hpat, HK.
      intros f c m e s Hf.
      assert (Hlen : (length pre < length pat)%nat) by (rewrite Hpat, app_length; cbn [app length]; lia).
      destruct f as [|f]; [lia|]. cbn [exec]. rewrite Hpat at 1. cbn [app]. rewrite nth_error_mid.
      rewrite cden1_sub. cbv zeta.
      set (B := flattens body) in *.
      assert (Hpat' : pat = (pre ++ [Push n]) ++ B ++ Pop :: post).
      { rewrite Hpat. cbn [app]. rewrite <- !app_assoc. reflexivity. }
      pose proof (exS_of body IH Hok (pre ++ [Push n]) (Pop :: post) (S (length (pre ++ [Push n]) + length B)) kret Hpat') as Hbody.
      assert (Hret : kok (S (length (pre ++ [Push n]) + length B)) (length (pre ++ [Push n]) + length B) kret).
      { intros f' c' m' e' s' Hf'.
        assert (Hl2 : (length (pre ++ [Push n]) + length B < length pat)%nat) by (rewrite Hpat', !app_length; cbn [length]; lia).
        destruct f' as [|f']; [lia|]. cbn [exec].
        replace (length (pre ++ [Push n]) + length B)%nat with (length ((pre ++ [Push n]) ++ B)) by (rewrite app_length; reflexivity).
        rewrite Hpat' at 1. rewrite app_assoc, nth_error_mid.
        exists (S (length ((pre ++ [Push n]) ++ B))), c'. split; [reflexivity|intros _; split; reflexivity]. }
      specialize (Hbody Hret f c 255 0 s).
      replace (length (pre ++ [Push n])) with (S (length pre)) in Hbody by (rewrite app_length; cbn [length]; lia).
      destruct Hbody as [pc' [cur' [E Hp]]]; [lia|]. rewrite E. cbn [bind].
      destruct (a_ok (cdens sc body (Pop :: post) kret c 255 0 s)) eqn:Eok.
      + destruct (Hp eq_refl) as [-> _].
        replace (S (S (length pre) + length B)) with (length pre + length (Push n :: B ++ [Pop]))%nat by (cbn [length]; rewrite app_length; cbn [length]; lia).
        apply HK. cbn [length]. lia.
      + apply agr_fail.
    - (* alternatives *)
      cbn [code_ok] in Hok. cbn [flatten1] in Hpat, HK.
      revert pre Hpat HK. induction IH as [|l t Hl Ht IHt]; intros pre Hpat HK.
      + cbn [map alt_code length] in HK. rewrite Nat.add_0_r in HK. intros f c m e s Hf. rewrite cden1_alt_nil. apply HK. exact Hf.
      + cbn [forallb] in Hok. apply andb_prop in Hok. destruct Hok as [Hol Hot].
        destruct t as [|l2 t].
        * (* the last alternative: Nop, l *)
          cbn [map alt_code] in Hpat, HK. intros f c m e s Hf.
          assert (Hlen : (length pre < length pat)%nat) by (rewrite Hpat, app_length; cbn [app length]; lia).
          destruct f as [|f]; [lia|]. cbn [exec]. rewrite Hpat at 1. cbn [app]. rewrite nth_error_mid.
          rewrite cden1_alt_one.
          assert (Hpat' : pat = (pre ++ [Nop]) ++ flattens l ++ post) by (rewrite Hpat; cbn [app]; rewrite <- !app_assoc; reflexivity).
          pose proof (exS_of l Hl Hol (pre ++ [Nop]) post pcK K Hpat') as H.
          replace (length (pre ++ [Nop])) with (S (length pre)) in H by (rewrite app_length; cbn [length]; lia).
          apply H; [|lia]. cbn [length] in HK. replace (S (length pre) + length (flattens l))%nat with (length pre + S (length (flattens l)))%nat by lia. exact HK.
        * (* Case, l, Break, the others *)
          set (tail := alt_code (map flattens (l2 :: t))) in *.
          assert (Eac : alt_code (map flattens (l :: l2 :: t)) = Case (N.of_nat (length (flattens l) + 1)) :: flattens l ++ Break (N.of_nat (length tail)) :: tail) by reflexivity.
          rewrite Eac in Hpat, HK. intros f c m e s Hf.
          assert (Hlen : (length pre < length pat)%nat) by (rewrite Hpat, app_length; cbn [app length]; lia).
          destruct f as [|f]; [lia|]. cbn [exec]. rewrite Hpat at 1. cbn [app]. rewrite nth_error_mid.
          rewrite cden1_alt_cons. cbv zeta. fold tail.
          set (cs := Case (N.of_nat (length (flattens l) + 1))) in *.
          assert (Hpat' : pat = (pre ++ [cs]) ++ flattens l ++ Break (N.of_nat (length tail)) :: tail ++ post).
          { rewrite Hpat. cbn [app]. rewrite <- !app_assoc. cbn [app]. reflexivity. }
          set (pcE := (length pre + length (cs :: flattens l ++ Break (N.of_nat (length tail)) :: tail))%nat) in *.
          pose proof (exS_of l Hl Hol (pre ++ [cs]) (Break (N.of_nat (length tail)) :: tail ++ post) pcE kret Hpat') as Hrun.
          assert (Hret : kok pcE (length (pre ++ [cs]) + length (flattens l)) kret).
          { intros f' c' m' e' s' Hf'.
            assert (Hl2 : (length (pre ++ [cs]) + length (flattens l) < length pat)%nat) by (rewrite Hpat', !app_length; cbn [length]; lia).
            destruct f' as [|f']; [lia|]. cbn [exec].
            replace (length (pre ++ [cs]) + length (flattens l))%nat with (length ((pre ++ [cs]) ++ flattens l)) by (rewrite app_length; reflexivity).
            rewrite Hpat' at 1. rewrite app_assoc, nth_error_mid.
            eexists. exists c'. split; [reflexivity|intros _; split; [|reflexivity]].
            unfold pcE. rewrite !app_length. cbn [length]. rewrite app_length. cbn [length]. lia. }
          specialize (Hrun Hret f c 255 0 s).
          replace (length (pre ++ [cs])) with (S (length pre)) in Hrun by (rewrite app_length; cbn [length]; lia).
          destruct Hrun as [pc' [cur' [E Hp]]]; [lia|]. rewrite E. cbn [bind].
          destruct (a_ok (cdens sc l (Break (N.of_nat (length tail)) :: tail ++ post) kret c 255 0 s)) eqn:Eok.
          -- destruct (Hp eq_refl) as [-> ->]. apply HK. unfold pcE. cbn [length]. rewrite app_length. cbn [length]. lia.
          -- (* the next alternative *)
             assert (Hpat2 : pat = (pre ++ cs :: flattens l ++ [Break (N.of_nat (length tail))]) ++ alt_code (map flattens (l2 :: t)) ++ post).
             { rewrite Hpat. fold tail. rewrite <- !app_assoc. cbn [app]. rewrite <- !app_assoc. reflexivity. }
             specialize (IHt Hot (pre ++ cs :: flattens l ++ [Break (N.of_nat (length tail))]) Hpat2).
             assert (Hnext : (S (length pre) + N.to_nat (N.of_nat (length (flattens l) + 1)))%nat = length (pre ++ cs :: flattens l ++ [Break (N.of_nat (length tail))])).
             { rewrite Nat2N.id, app_length. cbn [length]. rewrite app_length. cbn [length]. lia. }
             rewrite Hnext. apply IHt.
             ++ fold tail.
                assert (Epc : (length (pre ++ cs :: flattens l ++ [Break (N.of_nat (length tail))]) + length tail)%nat = pcE).
                { unfold pcE. rewrite !app_length. cbn [length]. rewrite !app_length. cbn [length]. lia. }
                rewrite Epc. exact HK.
             ++ rewrite <- Hnext. lia.
  Qed.
  Lemma exec_cdens l : ExS l.
  Proof. apply exS_of. induction l; constructor; [apply exec_cden1|assumption]. Qed.

  (* Scanner::exec on the flattening of a tree *)
  Lemma run_exec_cdens T cursor save : forallb code_ok T = true -> pat = flattens T ->
    run_exec sc pat cursor save = Ok (a_ok (cdens sc T [] kret cursor 255 0 save), a_sv (cdens sc T [] kret cursor 255 0 save)).
  Proof.
    intros Hok Hpat. unfold run_exec.
    assert (Hend : kok (length pat) (length (@nil atom) + length (flattens T)) kret).
    { intros f c m e s Hf. cbn [length Nat.add]. rewrite <- Hpat. destruct f as [|f]; [lia|]. cbn [exec].
      rewrite (proj2 (nth_error_None pat (length pat)) (le_n _)). exists (length pat), c. split; [reflexivity|intros _; split; reflexivity]. }
    pose proof (exec_cdens T Hok [] [] (length pat) kret ltac:(rewrite app_nil_r; exact Hpat) Hend (S (length pat)) cursor 255 0 save) as H.
    cbn [length] in H. destruct H as [pc' [cur' [E _]]]; [lia|]. rewrite E. reflexivity.
  Qed.
End ExecCDen.
