(* Agreement of the hand-written models with the leaf functions regenerated from /repo/src (gen/Leaf.v, written by
   tools/gen_leaf.py on every run).  The proofs live in one file per module so that a changed function of the source
   breaks only the property that depends on it; this file collects them.

     LeafStrings   C20      is_printable_ascii_agrees
     LeafRelocs    C14      rva_of_agrees type_of_agrees encode_type_offset_agrees build_start_agrees build_end_agrees
                            build_gen_step
     LeafRich      C16      decode_agrees encode_agrees record_step_agrees total_len_agrees total_len_rich_model
                            total_len_rich_model_differs
     LeafAlign     C05 C01  align_u32_align_to_agrees align_u32_aligned_to_agrees align_usize_align_to_agrees
                            align_usize_aligned_to_agrees align_u32_ok_iff align_usize_ok_iff align_to_non_pow2_differs
     LeafDirs      C15      uw_version_agrees uw_flags_agrees uw_frame_register_agrees uw_frame_offset_agrees uw_fields_ranges
     LeafResources C12      is_dir_agrees e_name_agrees e_entry_agrees name_is_wide_agrees name_offset_agrees entry_offset_agrees
     LeafImports   C09      import_from_va_agrees_64 import_from_va_agrees_32 import_from_va_leaves_ok by_name_top_bit
                            desc_is_null_agrees
     LeafWrap      C19 C10  code_range_agrees image_range_agrees
     LeafExports   C08      is_forwarded_agrees *)
From PV.Proofs Require Export LeafBase LeafStrings LeafRelocs LeafRich LeafAlign LeafDirs LeafResources LeafImports LeafWrap LeafExports.
