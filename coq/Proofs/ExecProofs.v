(* Proofs for C11 (interpreter part) / C02 / C03: exec never faults and never runs out of the
   stated fuel, on ANY atom list (not only parser output), any cursor, any save array. *)
From PV.Model Require Import Machine Pattern Exec.
From PV.Proofs Require Import BaseProofs.
Ltac Zify.zify_post_hook ::= Z.div_mod_to_equations.

(* the only machine-range fact needed: a byte that can be read does not sit at rva 2^32-1
   (for a file view this follows from the mapping rule: a section's end is below 2^32; for a
   mapped view it is the hypothesis that the buffer is shorter than 4 GiB) *)
Definition scan_ok (sc : scan) : Prop := forall rva x, sc_read sc 1 rva = Some x -> rva + 1 < W32.

Definition pc_of (r : xres) : nat := snd (fst (fst r)).

Section Safe.
  Variable sc : scan.
  Variable pat : list atom.
  Hypothesis Hsc : scan_ok sc.

  (* result predicate: returns, and the program counter never moves backwards *)
  Definition good (pc : nat) (r : res xres) : Prop := exists x, r = Ok x /\ (pc <= pc_of x)%nat.

  Lemma many_loop_good run peek byte_at pc0 :
    (forall i s, good pc0 (run i s)) ->
    forall cnt i save last, (pc0 <= fst last)%nat -> good pc0 (many_loop run peek byte_at cnt i save last).
  Proof.
    intros Hrun. induction cnt as [|cnt IH]; intros i save last Hl; cbn [many_loop].
    - eexists. split; [reflexivity|]. unfold pc_of. cbn [fst snd]. exact Hl.
    - destruct (match peek with Some b => byte_at i =? b | None => true end).
      + destruct (Hrun i save) as [[[[ok pc'] cur'] save'] [Hr Hp]]. rewrite Hr. cbn [bind].
        destruct ok; [eexists; split; [reflexivity|exact Hp]|]. apply IH. exact Hp.
      + apply IH. exact Hl.
  Qed.

  Lemma exec_good : forall fuel pc cur mask ext save, (S (length pat - pc) <= fuel)%nat ->
    good pc (exec sc pat fuel pc cur mask ext save).
  Proof.
    induction fuel as [|fuel IH]; intros pc cur mask ext save Hf; [lia|]. cbn [exec].
    destruct (nth_error pat pc) as [a|] eqn:Ea.
    2: { eexists. split; [reflexivity|]. unfold pc_of. cbn [fst snd]. lia. }
    assert (Hpc : (pc < length pat)%nat) by (apply nth_error_Some; rewrite Ea; discriminate).
    assert (Hf' : forall pc', (S pc <= pc')%nat -> (S (length pat - pc') <= fuel)%nat) by (intros; lia).
    (* continuing at a later pc keeps the result good for the original pc *)
    assert (Hcont : forall pc' cur' mask' ext' save', (S pc <= pc')%nat -> good pc (exec sc pat fuel pc' cur' mask' ext' save')).
    { intros pc' cur' mask' ext' save' Hle. destruct (IH pc' cur' mask' ext' save' (Hf' pc' Hle)) as [x [Hx Hp]].
      exists x. split; [exact Hx|lia]. }
    assert (Hfail : good pc (Ok (false, S pc, cur, save))).
    { eexists. split; [reflexivity|]. unfold pc_of. cbn [fst snd]. lia. }
    destruct a.
    - (* Byte *) destruct (sc_read sc 1 cur) as [x|] eqn:Er; [|exact Hfail].
      destruct (N.land x mask =? N.land b mask); [|exact Hfail].
      unfold chk_add. pose proof (Hsc cur x Er) as Hc. destruct (cur + 1 <? W32) eqn:E; [|lia]. cbn [bind]. apply Hcont. lia.
    - apply Hcont. lia.
    - (* Push *) destruct (IH (S pc) cur 255 0 save (Hf' (S pc) (le_n _))) as [[[[ok pc'] cur'] save'] [Hr Hp]].
      rewrite Hr. cbn [bind]. unfold pc_of in Hp. cbn [fst snd] in Hp.
      destruct ok; [apply Hcont; exact Hp|]. eexists. split; [reflexivity|]. unfold pc_of. cbn [fst snd]. lia.
    - (* Pop *) eexists. split; [reflexivity|]. unfold pc_of. cbn [fst snd]. lia.
    - apply Hcont. lia.
    - apply Hcont. lia.
    - apply Hcont. lia.
    - apply Hcont. lia.
    - (* Many *) destruct (sc_slice_len sc cur) as [slen|]; [|exact Hfail].
      assert (Hg : good (S pc) (many_loop (fun i s => exec sc pat fuel (S pc) (wadd32 cur i) 255 0 s) (peek_byte (skipn (S pc) pat))
                  (sc_slice_byte sc cur) (N.to_nat (if ext + k =? 0 then slen else N.min (ext + k) slen)) 0 save (S pc, cur))).
      { apply many_loop_good; [|cbn [fst]; lia]. intros i s. apply IH. apply Hf'. lia. }
      destruct Hg as [x [Hx Hp]]. exists x. split; [exact Hx|lia].
    - (* Jump1 *) destruct (sc_read sc 1 cur); [apply Hcont; lia|exact Hfail].
    - destruct (sc_read sc 4 cur); [apply Hcont; lia|exact Hfail].
    - destruct (sc_read sc (sc_va_bytes sc) cur); [|exact Hfail]. destruct (sc_pointer sc n); [apply Hcont; lia|exact Hfail].
    - destruct (sc_read sc 4 cur); [apply Hcont; lia|exact Hfail].
    - destruct (vtypename sc cur); [apply Hcont; lia|exact Hfail].
    - destruct (get_slot save s); [|apply Hcont; lia]. destruct (n =? cur); [apply Hcont; lia|exact Hfail].
    - destruct (N.land cur (if k <? 32 then 2 ^ k - 1 else W32 - 1) =? 0); [apply Hcont; lia|exact Hfail].
    - destruct (sc_read sc 1 cur); [apply Hcont; lia|exact Hfail].
    - destruct (sc_read sc 1 cur); [apply Hcont; lia|exact Hfail].
    - destruct (sc_read sc 2 cur); [apply Hcont; lia|exact Hfail].
    - destruct (sc_read sc 2 cur); [apply Hcont; lia|exact Hfail].
    - destruct (sc_read sc 4 cur); [apply Hcont; lia|exact Hfail].
    - destruct (sc_read sc 4 cur); [apply Hcont; lia|exact Hfail].
    - apply Hcont. lia.
    - (* Case *) destruct (IH (S pc) cur 255 0 save (Hf' (S pc) (le_n _))) as [[[[ok pc'] cur'] save'] [Hr Hp]].
      rewrite Hr. cbn [bind]. unfold pc_of in Hp. cbn [fst snd] in Hp.
      destruct ok; apply Hcont; lia.
    - (* Break *) eexists. split; [reflexivity|]. unfold pc_of. cbn [fst snd]. lia.
    - apply Hcont. lia.
  Qed.

  (* Scanner::exec terminates within fuel |pat|+1 and returns a verdict: no panic, no fault, for every atom list *)
  Theorem run_exec_total cursor save : exists ok save', run_exec sc pat cursor save = Ok (ok, save').
  Proof.
    unfold run_exec. destruct (exec_good (S (length pat)) 0 cursor 255 0 save ltac:(lia)) as [[[[ok pc'] cur'] save'] [Hr _]].
    rewrite Hr. cbn [bind]. eexists. eexists. reflexivity.
  Qed.
End Safe.

(* the save array keeps its length, and every slot that changes belongs to an atom of the pattern,
   hence lies below save_len *)
Lemma set_slot_length save s v : length (set_slot save s v) = length save.
Proof.
  unfold set_slot. destruct (s <? lenN save); [|reflexivity].
  generalize (N.to_nat s). clear. induction save as [|h t IH]; intros [|n]; cbn [upd length]; try reflexivity. rewrite IH. reflexivity.
Qed.

Lemma save_len_ge pat : forall a s, In a pat -> atom_slot a = Some s -> s + 1 <= save_len pat.
Proof.
  unfold save_len. intros a s Hin Hs.
  assert (Hmono : forall l acc, acc <= fold_left (fun acc a => match atom_slot a with Some s => N.max acc (s + 1) | None => acc end) l acc).
  { induction l as [|x l IH]; intros acc; cbn [fold_left]; [lia|]. destruct (atom_slot x); [specialize (IH (N.max acc (n + 1)))|specialize (IH acc)]; lia. }
  revert Hin. generalize 0. induction pat as [|x pat IH]; intros acc Hin; [contradiction|]. cbn [fold_left].
  destruct Hin as [->|Hin].
  - rewrite Hs. specialize (Hmono pat (N.max acc (s + 1))). lia.
  - apply IH. exact Hin.
Qed.

(* F11, the code before the repair shifted 1u32 by the operand: Aligned(35) - produced by "@z" - overflows the shift *)
Lemma aligned_shift_overflow : parse [48; 48; 64; 122; 48; 48] = Ok (inr [Save 0; Byte 0; Aligned 35; Byte 0]) /\ 32 <= 35.
Proof. split; [vm_compute; reflexivity|lia]. Qed.

(* the machine-range fact holds for every view over a buffer shorter than 4 GiB *)
From PV.Model Require Import Mapping Views ScanView.
From PV.Spec Require Import MappingSpec ViewSpec.
From PV.Proofs Require Import MappingProofs ViewsProofs.
Lemma scan_of_view_ok v : view_ok v -> v_len v < W32 -> scan_ok (scan_of_view v).
Proof.
  intros Hok Hlen rva x H. unfold scan_of_view in H. cbn [sc_read] in H.
  destruct (N.lt_ge_cases rva W32) as [Hr|Hr].
  - rewrite slice_correct in H by assumption. unfold slice_spec in H. destruct (v_file v).
    + unfold slice_file_spec in H. destruct (rva =? 0); [discriminate|].
      destruct (negb (((v_addr v + rva) mod W64) mod 1 =? 0)); [discriminate|].
      destruct (first_v (v_secs v) rva) as [s|] eqn:Ef; [|discriminate].
      unfold first_v in Ef. apply find_some in Ef. destruct Ef as [_ Ein]. unfold in_virtual in Ein. lia.
    + unfold slice_section_spec in H. destruct (rva =? 0); [discriminate|].
      destruct (negb (((v_addr v + rva) mod W64) mod 1 =? 0)); [discriminate|].
      destruct ((rva <=? v_len v) && (1 <=? v_len v - rva)) eqn:E; [lia|discriminate].
  - (* an rva is a u32: the interpreter never holds a larger cursor; for completeness the model rejects it too *)
    exfalso. unfold slice, slice_file, slice_section in H. destruct (v_file v).
    + destruct (rva =? 0); [discriminate|]. destruct (negb (aligned_to 1 (wadd64 (v_addr v) rva))); [discriminate|].
      destruct (range_file (v_len v) (v_secs v) rva 1) as [r| |] eqn:Er; cbn [bind] in H; try discriminate.
      clear H. destruct Hok as [_ [_ [_ [_ Hs]]]]. revert Er. induction Hs as [|s secs [Hva [Hvs [Hp Hsr]]] _ IH]; cbn [range_file]; [discriminate|].
      assert (Hw : wadd32 (s_va s) (N.max (s_vs s) (s_srd s)) < W32) by (unfold wadd32; apply N.mod_lt; unfold W32; lia).
      destruct ((s_va s <=? rva) && (rva <? wadd32 (s_va s) (N.max (s_vs s) (s_srd s)))) eqn:E; [lia|exact IH].
    + destruct (rva =? 0); [discriminate|]. destruct (negb (aligned_to 1 (wadd64 (v_addr v) rva))); [discriminate|].
      unfold get_from in H. destruct (rva <=? v_len v) eqn:E; [lia|discriminate].
Qed.

Theorem view_exec_total v pat cursor save : view_ok v -> v_len v < W32 ->
  exists ok save', view_exec v pat cursor save = Ok (ok, save').
Proof. intros Hok Hl. apply run_exec_total. apply scan_of_view_ok; assumption. Qed.
