(* src/resources/mod.rs DirectoryEntry::is_dir and the bit tests / offset masks of DirectoryEntry::name and ::entry,
   regenerated into gen/Leaf.v, equal the arithmetic forms Model/Resources.v uses for them
   ([x & 0x80000000 != 0] is [2^31 <=? x], [x & !0x80000000] is [x - 2^31] in that case) (C12). *)
From PV.Model Require Import Machine Mapping Views Resources.
From PV.gen Require Import Leaf Layout.
From PV.Proofs Require Import BaseProofs LeafBase.
Ltac Zify.zify_post_hook ::= Z.div_mod_to_equations.
(* the source may change under these proofs: a step that does not finish fails instead of hanging the build *)
Set Default Timeout 120.

Lemma high_bit_test v : v < 4294967296 -> negb (N.land v 2147483648 =? 0) = (B31 <=? v).
Proof.
  intros H. change 2147483648 with (2 ^ 31). rewrite land_topbit_test by (change (2 ^ (31 + 1)) with 4294967296; exact H).
  unfold B31. change (2 ^ 31) with 2147483648. lia.
Qed.

Lemma low_31_bits v : N.land v (N.lnot 2147483648 32) = v mod 2147483648.
Proof. change 2147483648 with (2 ^ 31). change 32 with (31 + 1). apply land_lnot_topbit. Qed.

Lemma low_31_bits_sub v : v < 4294967296 -> B31 <= v -> N.land v (N.lnot 2147483648 32) = v - B31.
Proof. intros H1 H2. rewrite low_31_bits. unfold B31 in *. lia. Qed.

(* self.image.Offset : u32, the dword at offset IMAGE_RESOURCE_DIRECTORY_ENTRY_Offset_off of the entry *)
Lemma is_dir_agrees : forall s e,
  L_resources_DirectoryEntry_is_dir_dom (rd32 s (e + IMAGE_RESOURCE_DIRECTORY_ENTRY_Offset_off)) = true ->
  L_resources_DirectoryEntry_is_dir_ok (rd32 s (e + IMAGE_RESOURCE_DIRECTORY_ENTRY_Offset_off)) = true /\
  L_resources_DirectoryEntry_is_dir (rd32 s (e + IMAGE_RESOURCE_DIRECTORY_ENTRY_Offset_off)) = e_is_dir s e.
Proof.
  intros s e H. split; [reflexivity|]. unfold IMAGE_RESOURCE_DIRECTORY_ENTRY_Offset_off in *.
  unfold L_resources_DirectoryEntry_is_dir_dom in H.
  unfold L_resources_DirectoryEntry_is_dir, e_is_dir. apply high_bit_test. lia.
Qed.

(* DirectoryEntry::name written with the generated test and mask *)
Lemma e_name_agrees : forall slws s e,
  L_resources_DirectoryEntry_name__is_wide_dom (rd32 s (e + IMAGE_RESOURCE_DIRECTORY_ENTRY_Name_off)) = true ->
  e_name_g slws s e =
    (let v := rd32 s (e + IMAGE_RESOURCE_DIRECTORY_ENTRY_Name_off) in
     if L_resources_DirectoryEntry_name__is_wide v
     then r <- slws s (L_resources_DirectoryEntry_name__offset v) ;; Ok (NWide (words s (fst r) (snd r)))
     else Ok (NId v)).
Proof.
  intros slws s e H. unfold IMAGE_RESOURCE_DIRECTORY_ENTRY_Name_off in *. rewrite N.add_0_r in *.
  unfold L_resources_DirectoryEntry_name__is_wide_dom in H. assert (Hv : rd32 s e < 4294967296) by lia.
  unfold e_name_g, L_resources_DirectoryEntry_name__is_wide, L_resources_DirectoryEntry_name__offset. cbv zeta.
  rewrite (high_bit_test _ Hv). destruct (B31 <=? rd32 s e) eqn:E; [|reflexivity].
  rewrite low_31_bits_sub by (try exact Hv; apply N.leb_le; exact E). reflexivity.
Qed.

(* DirectoryEntry::entry written with the generated is_dir and mask *)
Lemma e_entry_agrees : forall sl s e,
  L_resources_DirectoryEntry_is_dir_dom (rd32 s (e + IMAGE_RESOURCE_DIRECTORY_ENTRY_Offset_off)) = true ->
  e_entry_g sl s e =
    (let v := rd32 s (e + IMAGE_RESOURCE_DIRECTORY_ENTRY_Offset_off) in
     if L_resources_DirectoryEntry_is_dir v
     then o <- dir_try_from_g sl s (L_resources_DirectoryEntry_entry__offset v) ;; Ok (EDir o)
     else o <- sl s v 16 4 ;; Ok (EData o)).
Proof.
  intros sl s e H. unfold IMAGE_RESOURCE_DIRECTORY_ENTRY_Offset_off in *.
  unfold L_resources_DirectoryEntry_is_dir_dom in H. assert (Hv : rd32 s (e + 4) < 4294967296) by lia.
  unfold e_entry_g, L_resources_DirectoryEntry_is_dir, L_resources_DirectoryEntry_entry__offset. cbv zeta.
  rewrite (high_bit_test _ Hv). destruct (B31 <=? rd32 s (e + 4)) eqn:E; [|reflexivity].
  rewrite low_31_bits_sub by (try exact Hv; apply N.leb_le; exact E). reflexivity.
Qed.

(* the masks alone, for every u32 *)
Lemma name_offset_agrees : forall v, L_resources_DirectoryEntry_name__offset_dom v = true ->
  L_resources_DirectoryEntry_name__offset_ok v = true /\ L_resources_DirectoryEntry_name__offset v = v mod B31.
Proof. intros v _. split; [reflexivity|]. apply low_31_bits. Qed.
Lemma entry_offset_agrees : forall v, L_resources_DirectoryEntry_entry__offset_dom v = true ->
  L_resources_DirectoryEntry_entry__offset_ok v = true /\ L_resources_DirectoryEntry_entry__offset v = v mod B31.
Proof. intros v _. split; [reflexivity|]. apply low_31_bits. Qed.
Lemma name_is_wide_agrees : forall v, L_resources_DirectoryEntry_name__is_wide_dom v = true ->
  L_resources_DirectoryEntry_name__is_wide_ok v = true /\ L_resources_DirectoryEntry_name__is_wide v = (B31 <=? v).
Proof.
  intros v H. split; [reflexivity|]. unfold L_resources_DirectoryEntry_name__is_wide_dom in H.
  apply high_bit_test. lia.
Qed.

(* what each binder of the generated definitions stands for in the source (third audit, F2): a function that starts
   reading another field or index changes coq/gen/Leaf.v only in these lists *)
From Coq Require Import List String.
Import ListNotations.
Lemma leaf_reads_resources :
  L_resources_DirectoryEntry_is_dir_args = ["self.image.Offset : u32"%string] /\
  L_resources_DirectoryEntry_name__is_wide_args = ["self.image.Name : u32"%string] /\
  L_resources_DirectoryEntry_name__offset_args = ["self.image.Name : u32"%string] /\
  L_resources_DirectoryEntry_entry__offset_args = ["self.image.Offset : u32"%string].
Proof. repeat split; reflexivity. Qed.
