(* C11: the hypotheses [scan_wf] of theorems 3a/3b hold for every FILE view (PeFile) whose sections do not overlap in
   their virtual extents - a decidable condition on the section table. With overlapping sections the slice at a cursor
   (exec_many peeks into it) lies in the first section containing the cursor, while the byte at cursor+i is looked up again
   and may belong to an earlier-listed section that starts later: model and code agree there, [den] does not. *)
From PV.Model Require Import Machine Mapping Views Pattern Exec ScanView.
From PV.Spec Require Import PatSyntax PatSem MappingSpec ViewSpec.
From PV.Proofs Require Import BaseProofs MappingProofs ViewsProofs ExecProofs PatSemProofs PatSemFull.
Ltac Zify.zify_post_hook ::= Z.div_mod_to_equations.

Definition vdisj (a b : section) : bool := (s_va a + vext a <=? s_va b) || (s_va b + vext b <=? s_va a).
Fixpoint disjoint_secs (l : list section) : bool :=
  match l with [] => true | h :: t => forallb (vdisj h) t && disjoint_secs t end.
Definition sections_disjoint (v : view) : bool := disjoint_secs (v_secs v).

(* with disjoint sections, the first section containing an rva is the only one *)
Lemma first_v_unique secs : disjoint_secs secs = true -> forall x s s', first_v secs x = Some s' -> In s secs -> in_virtual x s = true -> s' = s.
Proof.
  induction secs as [|h t IH]; intros Hd x s s' Hf Hin Hv; [contradiction|].
  cbn [disjoint_secs] in Hd. apply andb_prop in Hd. destruct Hd as [Hh Ht].
  unfold first_v in Hf. cbn [find] in Hf. destruct (in_virtual x h) eqn:Eh.
  - injection Hf as <-. destruct Hin as [->|Hin]; [reflexivity|].
    rewrite forallb_forall in Hh. specialize (Hh s Hin). unfold vdisj in Hh. unfold in_virtual in Eh, Hv. lia.
  - destruct Hin as [->|Hin]; [rewrite Hv in Eh; discriminate|]. exact (IH Ht x s s' Hf Hin Hv).
Qed.

Lemma slice_file_big v rva ms : view_ok v -> v_file v = true -> W32 <= rva -> forall r, slice v rva ms 1 <> Ok r.
Proof.
  intros Hok Hf Hr r H. unfold slice in H. rewrite Hf in H. unfold slice_file in H.
  destruct (rva =? 0); [discriminate|]. destruct (negb (aligned_to 1 (wadd64 (v_addr v) rva))); [discriminate|].
  destruct (range_file (v_len v) (v_secs v) rva ms) as [r0| |] eqn:Er; cbn [bind] in H; try discriminate.
  clear H. destruct Hok as [_ [_ [_ [_ Hs]]]]. revert Er. induction Hs as [|s secs [Hva [Hvs [Hp Hsr]]] _ IH]; cbn [range_file]; [discriminate|].
  assert (Hw : wadd32 (s_va s) (N.max (s_vs s) (s_srd s)) < W32) by (unfold wadd32; apply N.mod_lt; unfold W32; lia).
  destruct ((s_va s <=? rva) && (rva <? wadd32 (s_va s) (N.max (s_vs s) (s_srd s)))) eqn:E; [lia|exact IH].
Qed.

(* the shape of a successful slice of a file view *)
Lemma file_slice v rva ms r : view_ok v -> v_file v = true -> slice v rva ms 1 = Ok r ->
  exists s, first_v (v_secs v) rva = Some s /\ rva < W32 /\ r_off r = s_prd s + (rva - s_va s) /\ r_len r = s_srd s - (rva - s_va s) /\ rva - s_va s <= s_srd s.
Proof.
  intros Hok Hf H.
  destruct (N.lt_ge_cases rva W32) as [Hr|Hr]; [|exfalso; exact (slice_file_big v rva ms Hok Hf Hr r H)].
  rewrite slice_correct in H by assumption. unfold slice_spec in H. rewrite Hf in H. unfold slice_file_spec in H.
  destruct (rva =? 0); [discriminate|]. destruct (negb _); [discriminate|].
  destruct (first_v (v_secs v) rva) as [s|]; [|discriminate]. exists s. split; [reflexivity|]. split; [exact Hr|].
  destruct ((W32 <=? s_prd s + s_srd s) || (v_len v <? s_prd s + s_srd s)); [discriminate|]. cbv zeta in H.
  destruct ((rva - s_va s <=? s_srd s) && (ms <=? s_srd s - (rva - s_va s))) eqn:E; [|discriminate].
  destruct ((v_addr v + s_prd s + (rva - s_va s)) mod 1 =? 0); [|discriminate]. injection H as <-. cbn [r_off r_len]. lia.
Qed.

Lemma file_view_scan_wf v : view_ok v -> v_file v = true -> v_len v < W32 -> (forall o, v_get v o < 256) ->
  sections_disjoint v = true -> scan_wf (scan_of_view v).
Proof.
  intros Hok Hf Hlen Hb Hd. split; [|split].
  - intros rva x H. split; [|exact (scan_of_view_ok v Hok Hlen rva x H)].
    cbn [scan_of_view sc_read] in H. destruct (slice v rva 1 1) as [r| |]; try discriminate. injection H as <-.
    change (N.to_nat 1) with 1%nat. cbn [le_value]. pose proof (Hb (r_off r)). lia.
  - intros va rva H. cbn [scan_of_view sc_pointer] in H. unfold va_to_rva in H.
    destruct (va =? 0); [discriminate|]. destruct ((va <? v_base v) || (v_soi v <? va - v_base v)); [discriminate|].
    injection H as <-. apply N.mod_lt. unfold W32. lia.
  - intros c slen i x Hs Hi Hr. cbn [scan_of_view sc_slice_len sc_slice_byte sc_read] in *.
    destruct (slice v c 0 1) as [r| |] eqn:E1; try discriminate. injection Hs as <-.
    destruct (slice v (wadd32 c i) 1 1) as [r'| |] eqn:E2; try discriminate. injection Hr as <-.
    destruct (file_slice v c 0 r Hok Hf E1) as [s [F1 [Hc [O1 [L1 B1]]]]].
    destruct (file_slice v _ 1 r' Hok Hf E2) as [s' [F2 [_ [O2 _]]]].
    unfold first_v in F1. pose proof (find_some _ _ F1) as [Hin Hv]. fold (first_v (v_secs v) c) in F1.
    unfold in_virtual in Hv.
    assert (Hvx : s_srd s <= vext s) by (unfold vext; lia).
    assert (Ew : wadd32 c i = c + i) by (unfold wadd32; apply N.mod_small; lia).
    rewrite Ew in *.
    assert (Hv' : in_virtual (c + i) s = true) by (unfold in_virtual; lia).
    pose proof (first_v_unique (v_secs v) Hd (c + i) s s' F2 Hin Hv') as ->.
    change (N.to_nat 1) with 1%nat. cbn [le_value]. rewrite O1, O2, N.mul_0_r, N.add_0_r. f_equal. lia.
Qed.

(* theorems 3a and 3b for Scanner::exec on a file view *)
Theorem file_view_exec_compile_den v a cursor save :
  view_ok v -> v_file v = true -> v_len v < W32 -> (forall o, v_get v o < 256) -> sections_disjoint v = true ->
  wf a -> range_skip_in_last_alternative_with_suffix a = false -> untrimmed a = true -> cursor < W32 ->
  exists ok save', view_exec v (compile a) cursor save = Ok (ok, save') /\
    match den_top (scan_of_view v) a cursor with
    | Some lg => ok = true /\ log_ok lg save save'
    | None => ok = false
    end.
Proof.
  intros Hok Hf Hlen Hb Hd Hw Hc Hu Hcur. unfold view_exec.
  apply exec_compile_den; try assumption. apply file_view_scan_wf; assumption.
Qed.
Theorem file_view_exec_compile_den_flat v a cursor save :
  view_ok v -> v_file v = true -> v_len v < W32 -> (forall o, v_get v o < 256) -> sections_disjoint v = true ->
  flat a = true -> wf a -> ends_solid a = true -> cursor < W32 ->
  exists ok save', view_exec v (compile a) cursor save = Ok (ok, save') /\
    match den_top (scan_of_view v) a cursor with
    | Some lg => ok = true /\ save' = apply_log lg save
    | None => ok = false
    end.
Proof.
  intros Hok Hf Hlen Hb Hd Hfl Hw Hs Hcur. unfold view_exec.
  apply exec_compile_den_flat; try assumption. apply file_view_scan_wf; assumption.
Qed.

