(* src/rich_structure.rs RichRecord::decode / encode, the record step of _checksum and the length arithmetic of
   RichStructure::encode, regenerated into gen/Leaf.v, equal their counterparts of Model/Rich.v and Model/Checked.v (C16). *)
From PV.Model Require Import Machine Rich Checked.
From PV.gen Require Import Leaf.
From PV.Proofs Require Import BaseProofs LeafBase.
Ltac Zify.zify_post_hook ::= Z.div_mod_to_equations.
(* the source may change under these proofs: a step that does not finish fails instead of hanging the build *)
Set Default Timeout 120.

Lemma land_65535_small x : N.land x 65535 mod 65536 = N.land x 65535.
Proof. change 65535 with (2 ^ 16 - 1). rewrite land_mask. change (2 ^ 16) with 65536. apply N.mod_mod. discriminate. Qed.

(* key, values[0], values[1] : u32; the result RichRecord { build, product, count } as a triple in declaration order *)
Lemma decode_agrees : forall key v0 v1, L_rich_structure_RichRecord_decode_dom key v0 v1 = true ->
  L_rich_structure_RichRecord_decode_ok key v0 v1 = true /\
  L_rich_structure_RichRecord_decode key v0 v1 =
    (r_build (rdecode key v0 v1), r_product (rdecode key v0 v1), r_count (rdecode key v0 v1)).
Proof.
  intros key v0 v1 _. split; [reflexivity|].
  unfold L_rich_structure_RichRecord_decode, rdecode. cbn [r_build r_product r_count].
  rewrite !land_65535_small. reflexivity.
Qed.

Lemma value_eq b p : b < 65536 -> p < 65536 ->
  N.lor (N.shiftl (p mod 4294967296) 16 mod 4294967296) (b mod 4294967296) = N.lor (N.shiftl p 16) b.
Proof.
  intros Hb Hp. rewrite (N.mod_small p) by lia. rewrite (N.mod_small b) by lia.
  rewrite N.shiftl_mul_pow2. change (2 ^ 16) with 65536. rewrite N.mod_small by lia. reflexivity.
Qed.

(* self.build, self.product : u16, self.count, key : u32 *)
Lemma encode_agrees : forall b p c key, L_rich_structure_RichRecord_encode_dom b p c key = true ->
  L_rich_structure_RichRecord_encode_ok b p c key = true /\
  L_rich_structure_RichRecord_encode b p c key = rencode {| r_build := b; r_product := p; r_count := c |} key.
Proof.
  intros b p c key H. split; [reflexivity|]. unfold L_rich_structure_RichRecord_encode_dom in H.
  unfold L_rich_structure_RichRecord_encode, rencode, rvalue. cbn [r_build r_product r_count].
  rewrite value_eq by lia. reflexivity.
Qed.

Lemma rvalue_lt b p : b < 65536 -> p < 65536 -> N.lor (N.shiftl p 16) b < 4294967296.
Proof.
  intros Hb Hp. rewrite N.shiftl_mul_pow2, N.lor_comm. rewrite lor_disjoint_add by (change (2 ^ 16) with 65536; lia).
  change (2 ^ 16) with 65536. lia.
Qed.

(* csum = u32::wrapping_add(csum, value.rotate_left(record.count)) with value = product << 16 | build *)
Lemma record_step_agrees : forall csum b p c, L_rich_structure_checksum__record_step_dom csum b p c = true ->
  L_rich_structure_checksum__record_step_ok csum b p c = true /\
  L_rich_structure_checksum__record_step csum b p c = rec_step csum {| r_build := b; r_product := p; r_count := c |}.
Proof.
  intros csum b p c H. split; [reflexivity|]. unfold L_rich_structure_checksum__record_step_dom in H.
  unfold L_rich_structure_checksum__record_step, rec_step, rvalue, wadd32, rotl32, W32. cbn [r_build r_product r_count].
  rewrite value_eq by lia. cbv zeta.
  rewrite (rotl_arith 32) by (try change (2 ^ 32) with 4294967296; try apply rvalue_lt; lia).
  change (2 ^ 32) with 4294967296. reflexivity.
Qed.

(* RichStructure::encode: total_len = ((((xor_key / 32) % 3) as usize + n) * 8 + 0x20) / 4 in usize (after the F41 repair).
   The exact counterpart is Model/Checked.v total_size_chk (the same sum with its three overflow checks). *)
Lemma total_len_agrees : forall n key, L_rich_structure_encode__total_len_dom n key = true ->
  (ts <- total_size_chk key n ;; Ok (ts / 4)) =
    if L_rich_structure_encode__total_len_ok n key then Ok (L_rich_structure_encode__total_len n key) else Fault POverflow.
Proof.
  intros n key H. unfold L_rich_structure_encode__total_len_dom in H.
  unfold total_size_chk, chk_add, chk_mul, L_rich_structure_encode__total_len_ok, L_rich_structure_encode__total_len, W64.
  rewrite (N.mod_small ((key / 32) mod 3)) by lia.
  destruct ((key / 32) mod 3 + n <? 18446744073709551616) eqn:E1; [|reflexivity]. cbn [bind andb].
  destruct (((key / 32) mod 3 + n) * 8 <? 18446744073709551616) eqn:E2; [|reflexivity]. cbn [bind andb].
  destruct (((key / 32) mod 3 + n) * 8 + 32 <? 18446744073709551616) eqn:E3; reflexivity.
Qed.

(* Model/Rich.v encode keeps the u32 sum of the code as it stood ([.. mod W32]); it equals the source's value
   exactly when the sum stays in u32 - the stated precondition of the C16 theorems about encode *)
Lemma total_len_rich_model : forall n key, (n + 2) * 8 + 32 < W32 ->
  L_rich_structure_encode__total_len n key = ((((key / 32) mod 3 + n) * 8 + 32) mod W32) / 4.
Proof.
  intros n key H. unfold L_rich_structure_encode__total_len, W32 in *.
  rewrite (N.mod_small ((key / 32) mod 3)) by lia. rewrite (N.mod_small (_ + 32)) by lia. reflexivity.
Qed.
(* and differs from it at the first length for which it does not (2^29 - 6 records, a key with (key / 32) % 3 = 2) *)
Lemma total_len_rich_model_differs :
  L_rich_structure_encode__total_len_ok 536870906 64 = true /\
  L_rich_structure_encode__total_len 536870906 64 = 1073741824 /\
  ((((64 / 32) mod 3 + 536870906) * 8 + 32) mod W32) / 4 = 0.
Proof. vm_compute. repeat split; reflexivity. Qed.

(* what each binder of the generated definitions stands for in the source (third audit, F2): a function that starts
   reading another field or index changes coq/gen/Leaf.v only in these lists *)
From Coq Require Import List String.
Import ListNotations.
Lemma leaf_reads_rich :
  L_rich_structure_RichRecord_decode_args = ["arg1 : u32"%string; "arg2[0] : u32"%string; "arg2[1] : u32"%string] /\
  L_rich_structure_RichRecord_encode_args = ["self.build : u16"%string; "self.product : u16"%string; "self.count : u32"%string; "arg1 : u32"%string] /\
  L_rich_structure_checksum__record_step_args = ["csum : u32"%string; "record.build : u16"%string; "record.product : u16"%string; "record.count : u32"%string] /\
  L_rich_structure_encode__total_len_args = ["n : usize"%string; "xor_key : u32"%string].
Proof. repeat split; reflexivity. Qed.
