(* Proofs for C20. *)
From PV.Model Require Import Machine Strings.
From PV.Spec Require Import Runs.
From PV.Proofs Require Import BaseProofs.
Ltac Zify.zify_post_hook ::= Z.div_mod_to_equations.

Lemma printable_spec b : is_printable b = printable b.
Proof. unfold is_printable, printable. destruct (32 <=? b) eqn:E; lia. Qed.

Lemma qualifies_nul c s l : qualifies c {| r_start := s; r_len := l; r_term := TNul |} = (min_len_nul c <=? l).
Proof. reflexivity. Qed.
Lemma qualifies_other c s l : qualifies c {| r_start := s; r_len := l; r_term := TOther |} = negb (strict c) && (min_len c <=? l).
Proof. reflexivity. Qed.

Definition after (r : run) : N := r_start r + r_len r + match r_term r with TEnd => 0 | _ => 1 end.

(* one call of next = the first qualifying run of the split, and the iterator resumes right after its terminator *)
Lemma scan_spec c base : forall rest start i, start <= i ->
  match scan c base rest start i with
  | None => filter (qualifies c) (runs_aux rest start (i - start)) = []
  | Some (f, off') =>
    exists r, f = found_of base r /\ off' = after r /\ i <= off' /\ (rest <> [] -> i < off') /\ start <= r_start r /\
      filter (qualifies c) (runs_aux rest start (i - start))
      = r :: filter (qualifies c) (runs_aux (skipn (N.to_nat (off' - i)) rest) off' 0)
  end.
Proof.
  induction rest as [|b rest IH]; intros start i Hle.
  - cbn [scan runs_aux].
    destruct (i - start =? 0) eqn:E0.
    + assert (start = i) by lia. subst. rewrite N.eqb_refl. reflexivity.
    + destruct (start =? i) eqn:E1; [lia|]. cbn [negb andb filter qualifies r_term r_len].
      destruct (negb (strict c) && (min_len c <=? i - start)) eqn:E2; [|reflexivity].
      eexists. split; [|split; [|split; [|split; [|split]]]]; cycle 5.
      * replace (N.to_nat (i - i)) with O by lia. cbn [skipn runs_aux filter]. reflexivity.
      * unfold mk, found_of, wadd32. cbn [r_start r_len r_term]. reflexivity.
      * unfold after. cbn [r_start r_len r_term]. lia.
      * lia.
      * intros H; contradiction.
      * cbn [r_start]. lia.
  - cbn [scan runs_aux]. rewrite printable_spec. destruct (printable b) eqn:Ep.
    + specialize (IH start (i + 1) ltac:(lia)). replace (i + 1 - start) with (i - start + 1) in IH by lia.
      destruct (scan c base rest start (i + 1)) as [[f off']|]; [|exact IH].
      destruct IH as [r [H1 [H2 [H3 [H4 [H5 H6]]]]]]. exists r. repeat split; try assumption; try lia.
      rewrite H6. f_equal. f_equal. f_equal.
      replace (N.to_nat (off' - i)) with (S (N.to_nat (off' - (i + 1)))) by lia. reflexivity.
    + cbn [filter].
      assert (Hnext : start + (i - start) + 1 = i + 1) by lia. rewrite Hnext.
      assert (Hsk : forall off', off' = i + 1 -> skipn (N.to_nat (off' - i)) (b :: rest) = rest).
      { intros off' ->. replace (N.to_nat (i + 1 - i)) with 1%nat by lia. reflexivity. }
      destruct (b =? 0) eqn:Eb; rewrite ?qualifies_nul, ?qualifies_other.
      * destruct (min_len_nul c <=? i - start) eqn:Eq.
        -- eexists. split; [|split; [|split; [|split; [|split]]]]; cycle 5.
           ++ rewrite (Hsk (i + 1) eq_refl). reflexivity.
           ++ unfold mk, found_of, wadd32. cbn [r_start r_len r_term]. reflexivity.
           ++ unfold after. cbn [r_start r_len r_term]. lia.
           ++ lia.
           ++ intros _. lia.
           ++ cbn [r_start]. lia.
        -- specialize (IH (i + 1) (i + 1) ltac:(lia)). replace (i + 1 - (i + 1)) with 0 in IH by lia.
           destruct (scan c base rest (i + 1) (i + 1)) as [[f off']|]; [|exact IH].
           destruct IH as [r [H1 [H2 [H3 [H4 [H5 H6]]]]]]. exists r. repeat split; try assumption; try lia.
           rewrite H6. f_equal. f_equal. f_equal.
           replace (N.to_nat (off' - i)) with (S (N.to_nat (off' - (i + 1)))) by lia. reflexivity.
      * destruct (negb (strict c)) eqn:Es; cbn [andb].
        -- destruct (min_len c <=? i - start) eqn:Eq.
           ++ eexists. split; [|split; [|split; [|split; [|split]]]]; cycle 5.
              ** rewrite (Hsk (i + 1) eq_refl). reflexivity.
              ** unfold mk, found_of, wadd32. cbn [r_start r_len r_term]. reflexivity.
              ** unfold after. cbn [r_start r_len r_term]. lia.
              ** lia.
              ** intros _. lia.
              ** cbn [r_start]. lia.
           ++ specialize (IH (i + 1) (i + 1) ltac:(lia)). replace (i + 1 - (i + 1)) with 0 in IH by lia.
              destruct (scan c base rest (i + 1) (i + 1)) as [[f off']|]; [|exact IH].
              destruct IH as [r [H1 [H2 [H3 [H4 [H5 H6]]]]]]. exists r. repeat split; try assumption; try lia.
              rewrite H6. f_equal. f_equal. f_equal.
              replace (N.to_nat (off' - i)) with (S (N.to_nat (off' - (i + 1)))) by lia. reflexivity.
        -- specialize (IH (i + 1) (i + 1) ltac:(lia)). replace (i + 1 - (i + 1)) with 0 in IH by lia.
           destruct (scan c base rest (i + 1) (i + 1)) as [[f off']|]; [|exact IH].
           destruct IH as [r [H1 [H2 [H3 [H4 [H5 H6]]]]]]. exists r. repeat split; try assumption; try lia.
           rewrite H6. f_equal. f_equal. f_equal.
           replace (N.to_nat (off' - i)) with (S (N.to_nat (off' - (i + 1)))) by lia. reflexivity.
Qed.

Lemma enumerate_fuel_spec c base bytes : forall fuel off, off <= lenN bytes ->
  (N.to_nat (lenN bytes - off) < fuel)%nat ->
  enumerate_fuel fuel c base bytes off
  = Ok (map (found_of base) (filter (qualifies c) (runs_aux (skipn (N.to_nat off) bytes) off 0))).
Proof.
  induction fuel as [|fuel IH]; intros off Hoff Hf; [lia|].
  cbn [enumerate_fuel]. unfold next.
  pose proof (scan_spec c base (skipn (N.to_nat off) bytes) off off (N.le_refl _)) as H.
  replace (off - off) with 0 in H by lia.
  destruct (scan c base (skipn (N.to_nat off) bytes) off off) as [[f off']|].
  - destruct H as [r [H1 [H2 [H3 [H4 [H5 H6]]]]]].
    rewrite skipn_skipn_nat in H6. replace (N.to_nat off + N.to_nat (off' - off))%nat with (N.to_nat off') in H6 by lia.
    (* off' stays inside the buffer: otherwise the skipped suffix is empty and off' = off would be forced *)
    destruct (N.le_gt_cases off' (lenN bytes)) as [Hin|Hout].
    + destruct (N.eq_dec off' off) as [Heq|Hne].
      * (* no progress is only possible on an empty rest, where scan returned the End run: impossible with start = i *)
        exfalso. destruct (skipn (N.to_nat off) bytes) as [|b t] eqn:Es.
        -- cbn [runs_aux filter] in H6. change (0 =? 0) with true in H6. cbn [filter] in H6. discriminate.
        -- assert (off < off') by (apply H4; discriminate). lia.
      * rewrite IH by lia. cbn [bind]. rewrite H6. cbn [map]. rewrite H1. reflexivity.
    + (* off' > len: the remaining suffix is empty, the run list after r is empty *)
      assert (Hs : skipn (N.to_nat off') bytes = []) by (apply skipn_all2; unfold lenN in *; lia).
      rewrite Hs in H6. cbn [runs_aux filter] in H6.
      (* but then r ends beyond the buffer, which the split never produces; show via length of runs *)
      exfalso. clear IH.
      assert (Hbound : forall rest start len r, In r (runs_aux rest start len) -> after r <= start + len + lenN rest).
      { clear. induction rest as [|b t IHt]; intros start len r Hin; cbn [runs_aux] in Hin.
        - destruct (len =? 0); [contradiction|]. destruct Hin as [<-|[]]. unfold after, lenN. cbn. lia.
        - rewrite lenN_cons. destruct (printable b).
          + apply IHt in Hin. lia.
          + destruct Hin as [<-|Hin]; [unfold after; cbn [r_start r_len r_term]; destruct (b =? 0); lia|].
            apply IHt in Hin. lia. }
      assert (Hin : In r (runs_aux (skipn (N.to_nat off) bytes) off 0)).
      { assert (In r (filter (qualifies c) (runs_aux (skipn (N.to_nat off) bytes) off 0))) by (rewrite H6; left; reflexivity).
        apply filter_In in H. tauto. }
      apply Hbound in Hin. rewrite lenN_skipn in Hin. lia.
  - rewrite H. reflexivity.
Qed.

Theorem enumerate_correct c base bytes : enumerate c base bytes = Ok (enumerate_spec c base bytes).
Proof.
  unfold enumerate, enumerate_spec, runs.
  rewrite (enumerate_fuel_spec c base bytes (S (length bytes)) 0); [reflexivity|lia|unfold lenN; lia].
Qed.

(* What [runs] means: every run consists of printable bytes only, is delimited on the
   right by a non-printable byte of the stated kind or by the end of the buffer, and
   on the left by the start of the buffer or a non-printable byte; runs are listed in
   ascending, non-overlapping order. *)
Lemma runs_aux_sound : forall bs start len r, In r (runs_aux bs start len) ->
  (start <= r_start r /\ start + len <= r_start r + r_len r) /\
  r_start r + r_len r <= start + len + lenN bs /\
  (forall k, r_start r <= k -> start + len <= k -> k < r_start r + r_len r ->
     printable (nth (N.to_nat (k - (start + len))) bs 0) = true) /\
  match r_term r with
  | TEnd => r_start r + r_len r = start + len + lenN bs /\ 0 < r_len r
  | TNul => nth (N.to_nat (r_start r + r_len r - (start + len))) bs 1 = 0 /\ r_start r + r_len r < start + len + lenN bs
  | TOther => printable (nth (N.to_nat (r_start r + r_len r - (start + len))) bs 0) = false /\
              nth (N.to_nat (r_start r + r_len r - (start + len))) bs 0 <> 0 /\ r_start r + r_len r < start + len + lenN bs
  end.
Proof.
  induction bs as [|b t IH]; intros start len r Hin; cbn [runs_aux] in Hin.
  - destruct (len =? 0) eqn:E; [contradiction|]. destruct Hin as [<-|[]]. cbn [r_start r_len r_term]. unfold lenN. cbn [length].
    split; [lia|]. split; [lia|]. split; [intros k H1 H2 H3; lia|]. lia.
  - rewrite lenN_cons. destruct (printable b) eqn:Ep.
    + apply IH in Hin. destruct Hin as [[H1 H1'] [H2 [H3 H4]]].
      assert (Hidx : forall x, start + (len + 1) <= x -> N.to_nat (x - (start + len)) = S (N.to_nat (x - (start + (len + 1))))) by (intros; lia).
      split; [lia|]. split; [lia|]. split.
      * intros k Hk0 Hk1 Hk2. destruct (N.eq_dec k (start + len)) as [->|Hne].
        -- replace (N.to_nat (start + len - (start + len))) with O by lia. exact Ep.
        -- rewrite Hidx by lia. cbn [nth]. apply H3; lia.
      * destruct (r_term r).
        -- destruct H4 as [H4 H5]. rewrite Hidx by lia. cbn [nth]. split; [exact H4|lia].
        -- destruct H4 as [H4 [H5 H6]]. rewrite Hidx by lia. cbn [nth]. split; [exact H4|]. split; [exact H5|lia].
        -- lia.
    + destruct Hin as [<-|Hin].
      * cbn [r_start r_len r_term]. split; [lia|]. split; [lia|]. split; [intros k H1 H2 H3; lia|].
        replace (N.to_nat (start + len - (start + len))) with O by lia. cbn [nth].
        destruct (b =? 0) eqn:Eb; [split; lia|]. split; [exact Ep|]. split; lia.
      * apply IH in Hin. destruct Hin as [[H1 H1'] [H2 [H3 H4]]].
        assert (Hidx : forall x, start + len + 1 + 0 <= x -> N.to_nat (x - (start + len)) = S (N.to_nat (x - (start + len + 1 + 0)))) by (intros; lia).
        split; [lia|]. split; [lia|]. split.
        -- intros k Hk0 Hk1 Hk2. rewrite Hidx by lia. cbn [nth]. apply H3; lia.
        -- destruct (r_term r).
           ++ destruct H4 as [H4 H5]. rewrite Hidx by lia. cbn [nth]. split; [exact H4|lia].
           ++ destruct H4 as [H4 [H5 H6]]. rewrite Hidx by lia. cbn [nth]. split; [exact H4|]. split; [exact H5|lia].
           ++ lia.
Qed.

(* ascending and non-overlapping: each run starts after the terminator of the previous one *)
Fixpoint ordered (from : N) (l : list run) : Prop :=
  match l with [] => True | r :: t => from <= r_start r /\ ordered (after r) t end.
Lemma runs_aux_ordered : forall bs start len, ordered start (runs_aux bs start len).
Proof.
  induction bs as [|b t IH]; intros start len; cbn [runs_aux].
  - destruct (len =? 0); cbn [ordered r_start]; [exact I|split; [lia|exact I]].
  - destruct (printable b); [apply IH|]. cbn [ordered r_start]. split; [lia|].
    unfold after. cbn [r_start r_len r_term]. destruct (b =? 0); apply IH.
Qed.

(* F18: before the repair 0x7F counted as printable *)
Lemma is_printable_orig_refuted : is_printable_orig 127 = true /\ printable 127 = false.
Proof. split; reflexivity. Qed.
