(* The constants the model of the scanner uses equal the named constants of the source, regenerated into gen/Consts.v (and
   gen/Layout.v) on every run.  One file per module, so that a changed constant breaks only the property that depends on it. *)
From PV.Model Require Import Machine.
From PV.gen Require Import Consts.
From PV.Model Require Scanner.

Lemma scanner_consts : N.of_nat Scanner.QS_BUF_LEN = K_QS_BUF_LEN.
Proof. reflexivity. Qed.
