(* C07: section lookup by name (wrap/sections.rs by_name): the first section header, in table order, whose eight name
   bytes equal the query padded with zeros to eight bytes; nothing for a query longer than eight bytes.  The name field
   is NUL padded, not NUL terminated: interior NULs are compared like any other byte. *)
From Coq Require Import List NArith Lia ZArith ZifyN ZifyBool Bool.
From PV.Model Require Import Machine Headers.
From PV.gen Require Import Layout.
Import ListNotations.
Local Open Scope N_scope.

Lemma list_eqb_spec (a b : list N) : list_eqb a b = true <-> a = b.
Proof.
  revert b; induction a as [|x a IH]; intros [|y b]; cbn [list_eqb]; try (split; [discriminate|discriminate]); [tauto|].
  rewrite andb_true_iff, N.eqb_eq, IH. split; [intros [-> ->]; reflexivity|intros H; injection H as -> ->; split; reflexivity].
Qed.

(* the eight name bytes of the k-th header of a table starting at o *)
Definition name_at (m : mem) (o : N) (k : nat) : list N := bytes_from m (o + IMAGE_SECTION_HEADER_size * N.of_nat k) 8.

Lemma by_name_from_spec m buf : forall n o idx r,
  by_name_from m o n idx buf = Some r <->
  exists k, (k < n)%nat /\ r = idx + N.of_nat k /\ name_at m o k = buf /\ forall j, (j < k)%nat -> name_at m o j <> buf.
Proof.
  induction n as [|n IH]; intros o idx r; cbn [by_name_from].
  - split; [discriminate|intros (k & Hk & _); lia].
  - destruct (list_eqb (bytes_from m o 8) buf) eqn:E.
    + apply list_eqb_spec in E. split.
      * intros H; injection H as <-. exists 0%nat. split; [lia|]. split; [lia|]. split.
        -- unfold name_at. replace (o + IMAGE_SECTION_HEADER_size * N.of_nat 0) with o by lia. exact E.
        -- intros j Hj; lia.
      * intros (k & Hk & -> & Hk1 & Hk2). destruct k as [|k].
        -- f_equal; lia.
        -- exfalso. apply (Hk2 0%nat); [lia|]. unfold name_at. replace (o + IMAGE_SECTION_HEADER_size * N.of_nat 0) with o by lia. exact E.
    + assert (E' : bytes_from m o 8 <> buf) by (intros H; apply list_eqb_spec in H; congruence).
      rewrite IH. split.
      * intros (k & Hk & -> & Hk1 & Hk2). exists (S k). split; [lia|]. split; [lia|]. split.
        -- unfold name_at in *. replace (o + IMAGE_SECTION_HEADER_size * N.of_nat (S k)) with (o + IMAGE_SECTION_HEADER_size + IMAGE_SECTION_HEADER_size * N.of_nat k) by lia. exact Hk1.
        -- intros [|j] Hj.
           ++ unfold name_at. replace (o + IMAGE_SECTION_HEADER_size * N.of_nat 0) with o by lia. exact E'.
           ++ unfold name_at. replace (o + IMAGE_SECTION_HEADER_size * N.of_nat (S j)) with (o + IMAGE_SECTION_HEADER_size + IMAGE_SECTION_HEADER_size * N.of_nat j) by lia.
              apply (Hk2 j). lia.
      * intros (k & Hk & -> & Hk1 & Hk2). destruct k as [|k].
        -- exfalso. apply E'. unfold name_at in Hk1. replace (o + IMAGE_SECTION_HEADER_size * N.of_nat 0) with o in Hk1 by lia. exact Hk1.
        -- exists k. split; [lia|]. split; [lia|]. split.
           ++ unfold name_at in *. replace (o + IMAGE_SECTION_HEADER_size + IMAGE_SECTION_HEADER_size * N.of_nat k) with (o + IMAGE_SECTION_HEADER_size * N.of_nat (S k)) by lia. exact Hk1.
           ++ intros j Hj. specialize (Hk2 (S j) ltac:(lia)). unfold name_at in *.
              replace (o + IMAGE_SECTION_HEADER_size + IMAGE_SECTION_HEADER_size * N.of_nat j) with (o + IMAGE_SECTION_HEADER_size * N.of_nat (S j)) by lia. exact Hk2.
Qed.

(* by_name: Some i exactly for the FIRST header whose name field equals the zero-padded query *)
Theorem by_name_correct f m name i :
  by_name f m name = Some i <->
  lenN name <= IMAGE_SIZEOF_SHORT_NAME /\
  exists k, (k < N.to_nat (h_nsec f m))%nat /\ i = N.of_nat k /\
    name_at m (sec_table_off f m) k = pad8 name 8 /\
    forall j, (j < k)%nat -> name_at m (sec_table_off f m) j <> pad8 name 8.
Proof.
  unfold by_name. destruct (IMAGE_SIZEOF_SHORT_NAME <? lenN name) eqn:E.
  - split; [discriminate|]. intros [H _]. lia.
  - rewrite by_name_from_spec. split.
    + intros (k & Hk & -> & H1 & H2). split; [lia|]. exists k. repeat split; try assumption; lia.
    + intros (_ & k & Hk & -> & H1 & H2). exists k. repeat split; try assumption; lia.
Qed.

(* ... and None exactly when the query is too long or no header carries the name *)
Theorem by_name_none f m name :
  by_name f m name = None <->
  (IMAGE_SIZEOF_SHORT_NAME < lenN name \/ forall k, (k < N.to_nat (h_nsec f m))%nat -> name_at m (sec_table_off f m) k <> pad8 name 8).
Proof.
  destruct (by_name f m name) as [i|] eqn:E.
  - split; [discriminate|]. apply by_name_correct in E. destruct E as (Hl & k & Hk & _ & H1 & _).
    intros [H|H]; [lia|]. exfalso. exact (H k Hk H1).
  - split; [|reflexivity]. intros _.
    destruct (IMAGE_SIZEOF_SHORT_NAME <? lenN name) eqn:El; [left; lia|right].
    intros k Hk Hn.
    (* take the least such k: strong induction *)
    assert (Hex : exists k0, (k0 < N.to_nat (h_nsec f m))%nat /\ name_at m (sec_table_off f m) k0 = pad8 name 8 /\
                   forall j, (j < k0)%nat -> name_at m (sec_table_off f m) j <> pad8 name 8).
    { clear E El. revert Hk Hn. induction k as [k IHk] using (well_founded_induction Wf_nat.lt_wf). intros Hk Hn.
      destruct (List.existsb (fun j => list_eqb (name_at m (sec_table_off f m) j) (pad8 name 8)) (seq 0 k)) eqn:Ex.
      - apply existsb_exists in Ex. destruct Ex as (j & Hj & Hje). apply in_seq in Hj. apply list_eqb_spec in Hje.
        apply (IHk j); [lia|lia|exact Hje].
      - exists k. split; [exact Hk|]. split; [exact Hn|]. intros j Hj Hje.
        assert (Hin : In j (seq 0 k)) by (apply in_seq; lia).
        assert (Ht : List.existsb (fun j => list_eqb (name_at m (sec_table_off f m) j) (pad8 name 8)) (seq 0 k) = true).
        { apply existsb_exists. exists j. split; [exact Hin|]. apply list_eqb_spec. exact Hje. }
        congruence. }
    destruct Hex as (k0 & Hk0 & H1 & H2).
    assert (by_name f m name = Some (N.of_nat k0)).
    { apply by_name_correct. split; [lia|]. exists k0. repeat split; assumption. }
    congruence.
Qed.

(* the padded query: the bytes of the name followed by zeros up to eight *)
Lemma pad8_spec : forall n name, length (pad8 name n) = n /\
  forall i, (i < n)%nat -> nth i (pad8 name n) 0 = nth i name 0.
Proof.
  induction n as [|n IH]; intros name; cbn [pad8]; [split; [reflexivity|intros i Hi; lia]|].
  destruct name as [|b t].
  - destruct (IH []) as [Hl Hn]. split; [cbn [length]; lia|]. intros [|i] Hi; cbn [nth]; [reflexivity|]. rewrite Hn by lia. destruct i; reflexivity.
  - destruct (IH t) as [Hl Hn]. split; [cbn [length]; lia|]. intros [|i] Hi; cbn [nth]; [reflexivity|]. apply Hn. lia.
Qed.
