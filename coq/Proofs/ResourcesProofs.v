(* Proofs for C12 (resources): see Properties/C12.v for the statements. *)
From PV.Model Require Import Machine Mapping Views Resources.
From PV.Spec Require Import ResTree Ico.
From PV.Proofs Require Import BaseProofs.
Ltac Zify.zify_post_hook ::= Z.div_mod_to_equations.

Definition sec_ok (s : rsec) : Prop := forall i, rs_get s i < 256.

Lemma rd16_lt s o : sec_ok s -> rd16 s o < 65536.
Proof. intros H. unfold rd16. pose proof (H o). pose proof (H (o + 1)). lia. Qed.
Lemma rd32_lt s o : sec_ok s -> rd32 s o < W32.
Proof.
  intros H. unfold rd32, W32. pose proof (H o). pose proof (H (o + 1)). pose proof (H (o + 2)). pose proof (H (o + 3)). lia.
Qed.

(* ------------------------------------------------------------------ entry arrays *)
Lemma seq_map_shift (f : nat -> N) a n : map f (seq a n) = map (fun i => f (a + i)%nat) (seq 0 n).
Proof.
  revert a. induction n as [|n IH]; intros a; cbn [seq map]; [reflexivity|].
  f_equal; [f_equal; lia|]. rewrite (IH (S a)), <- seq_shift, map_map. apply map_ext. intros i. f_equal. lia.
Qed.

Lemma entry_offs_app first a b :
  entry_offs first (a + b) = entry_offs first a ++ entry_offs (first + 8 * a) b.
Proof.
  unfold entry_offs. replace (N.to_nat (a + b)) with (N.to_nat a + N.to_nat b)%nat by lia.
  rewrite seq_app, map_app. f_equal. cbn [plus]. rewrite seq_map_shift. apply map_ext. intros i. lia.
Qed.

Lemma entries_named_then_ids s off : entries s off = named_entries s off ++ id_entries s off.
Proof. unfold entries, named_entries, id_entries. rewrite entry_offs_app. f_equal. Qed.

Lemma entry_offs_length first n : length (entry_offs first n) = N.to_nat n.
Proof. unfold entry_offs. rewrite map_length, seq_length. reflexivity. Qed.

Lemma entry_offs_nth first n i d : (i < N.to_nat n)%nat -> nth i (entry_offs first n) d = first + 8 * N.of_nat i.
Proof.
  intros H. unfold entry_offs. rewrite nth_indep with (d' := (fun i => first + 8 * N.of_nat i) 0%nat) by (rewrite map_length, seq_length; exact H).
  rewrite (map_nth (fun i => first + 8 * N.of_nat i)), seq_nth by exact H. reflexivity.
Qed.

Lemma entries_positions s off i d :
  (i < N.to_nat (n_named s off + n_ids s off))%nat -> nth i (entries s off) d = off + 16 + 8 * N.of_nat i.
Proof. intros H. unfold entries. apply entry_offs_nth. exact H. Qed.

(* ------------------------------------------------------------------ alignment of wrapped addresses *)
Lemma aligned_wadd64_2 a o : aligned_to 2 (wadd64 a o) = ((a + o) mod 2 =? 0).
Proof. unfold aligned_to, wadd64, W64. f_equal. lia. Qed.
Lemma aligned_wadd64_4 a o : aligned_to 4 (wadd64 a o) = ((a + o) mod 4 =? 0).
Proof. unfold aligned_to, wadd64, W64. f_equal. lia. Qed.

(* ------------------------------------------------------------------ no faults in the one-step functions *)
Lemma rslice_no_fault s off size align : no_fault (rslice s off size align).
Proof. unfold no_fault, rslice. intros f. destruct (negb _); [discriminate|]. destruct (_ <=? _); discriminate. Qed.

Lemma rslice_ok s off size align o :
  rslice s off size align = Ok o -> o = off /\ off + size <= rs_len s /\ aligned_to align (wadd64 (rs_addr s) off) = true.
Proof.
  unfold rslice. destruct (aligned_to align _) eqn:A; cbn [negb]; [|discriminate].
  destruct (off + size <=? rs_len s) eqn:B; [|discriminate]. intros [= <-]. split; [reflexivity|]. split; [lia|reflexivity].
Qed.

Lemma slice_ws_no_fault s off : no_fault (slice_ws s off).
Proof.
  unfold no_fault, slice_ws. intros f. destruct (negb _); [discriminate|]. destruct (_ <=? _); [|discriminate].
  destruct (_ <=? _); discriminate.
Qed.

Lemma dir_try_from_no_fault s off : no_fault (dir_try_from s off).
Proof.
  unfold no_fault, dir_try_from, dir_try_from_g. intros f.
  destruct (rslice s off 16 4) as [o|e|f0] eqn:R; cbn [bind]; [|discriminate|exfalso; exact (rslice_no_fault _ _ _ _ _ R)].
  apply rslice_ok in R. destruct R as (_ & R & _).
  unfold chk_sub. destruct (off + 16 <=? rs_len s) eqn:B; [|lia]. cbn [bind]. destruct (_ <? _); discriminate.
Qed.

Lemma e_name_no_fault s e : no_fault (e_name s e).
Proof.
  unfold no_fault, e_name, e_name_g. intros f. destruct (B31 <=? rd32 s e); [|discriminate].
  destruct (slice_ws s (rd32 s e - B31)) as [r|er|f0] eqn:R; cbn [bind]; [discriminate|discriminate|].
  exfalso; exact (slice_ws_no_fault _ _ _ R).
Qed.

Lemma e_entry_no_fault s e : no_fault (e_entry s e).
Proof.
  unfold no_fault, e_entry, e_entry_g. intros f. destruct (B31 <=? rd32 s (e + 4)).
  - fold (dir_try_from s (rd32 s (e + 4) - B31)).
    destruct (dir_try_from s (rd32 s (e + 4) - B31)) as [o|er|f0] eqn:R; cbn [bind]; [discriminate|discriminate|].
    exfalso; exact (dir_try_from_no_fault _ _ _ R).
  - destruct (rslice s (rd32 s (e + 4)) 16 4) as [o|er|f0] eqn:R; cbn [bind]; [discriminate|discriminate|].
    exfalso; exact (rslice_no_fault _ _ _ _ _ R).
Qed.

Lemma data_bytes_no_fault s o : no_fault (data_bytes s o).
Proof.
  unfold no_fault, data_bytes. intros f. destruct (_ <? _); [discriminate|]. destruct (W32 <=? _); [discriminate|].
  destruct (_ <=? _); discriminate.
Qed.

(* the precondition of the unchecked slice in entries() is what Directory::try_from established *)
Lemma dir_try_from_ok s off o :
  dir_try_from s off = Ok o ->
  o = off /\ off + 16 + 8 * (n_named s off + n_ids s off) <= rs_len s /\ (rs_addr s + off) mod 4 = 0.
Proof.
  unfold dir_try_from, dir_try_from_g.
  destruct (rslice s off 16 4) as [o'|e|f0] eqn:R; cbn [bind]; [|discriminate|discriminate].
  apply rslice_ok in R. destruct R as (_ & R & A). rewrite aligned_wadd64_4 in A.
  unfold chk_sub. destruct (off + 16 <=? rs_len s) eqn:B; [|lia]. cbn [bind].
  destruct (_ <? _) eqn:C; [discriminate|]. intros [= <-]. split; [reflexivity|]. split; lia.
Qed.

Lemma dir_try_from_entries_safe s off o : dir_try_from s off = Ok o -> entries_safe s o = true.
Proof.
  intros H. apply dir_try_from_ok in H. destruct H as (-> & H1 & H2). unfold entries_safe, aligned_to.
  apply andb_true_intro. split; lia.
Qed.

(* ------------------------------------------------------------------ F4: the code as it stood *)
Definition f4_witness : rsec := {| rs_addr := 4098; rs_len := 16; rs_get := fun _ => 0; rs_va := 4096 |}.
Lemma rslice_orig_refuted : dir_try_from_orig f4_witness 0 = Fault UBAlign /\ dir_try_from f4_witness 0 = Err EMisaligned.
Proof. vm_compute. split; reflexivity. Qed.

(* ------------------------------------------------------------------ induction on trees *)
Section RtreeInd.
  Variable P : rtree -> Prop.
  Hypothesis Hd : forall o st sz cp, P (RData o st sz cp).
  Hypothesis Hr : forall o kids, Forall (fun nk => P (snd nk)) kids -> P (RDir o kids).
  Fixpoint rtree_ind' (t : rtree) : P t :=
    match t with
    | RData o st sz cp => Hd o st sz cp
    | RDir o kids =>
      Hr o kids ((fix go (l : list (name * rtree)) : Forall (fun nk => P (snd nk)) l :=
                    match l with
                    | [] => Forall_nil _
                    | x :: r => Forall_cons x (rtree_ind' (snd x)) (go r)
                    end) kids)
    end.
End RtreeInd.

Lemma list_eqb_eq a b : list_eqb a b = true <-> a = b.
Proof.
  revert b. induction a as [|x a IH]; intros [|y b]; cbn [list_eqb]; split; intros H; try reflexivity; try discriminate.
  - apply andb_prop in H. destruct H as [H1 H2]. apply IH in H2. f_equal; [lia|exact H2].
  - injection H as -> ->. apply andb_true_intro. split; [lia|]. apply IH. reflexivity.
Qed.

(* ------------------------------------------------------------------ the format facts decide the one-step functions *)
Lemma dir_at_try_from s o : dir_at s o = true -> dir_try_from s o = Ok o.
Proof.
  unfold dir_at, in_sec. intros H. apply andb_prop in H. destruct H as [H H3]. apply andb_prop in H. destruct H as [H1 H2].
  unfold dir_try_from, dir_try_from_g, rslice. rewrite aligned_wadd64_4. rewrite H2. cbn [negb].
  rewrite H1. cbn [bind]. unfold chk_sub. destruct (o + 16 <=? rs_len s) eqn:B; [|lia]. cbn [bind].
  unfold n_named, n_ids. destruct (_ <? _) eqn:C; [lia|reflexivity].
Qed.

Lemma try_from_dir_at s off o : dir_try_from s off = Ok o -> o = off /\ dir_at s off = true.
Proof.
  intros H. apply dir_try_from_ok in H. destruct H as (-> & H1 & H2). split; [reflexivity|].
  unfold dir_at, in_sec. unfold n_named, n_ids in H1. repeat (apply andb_true_intro; split); lia.
Qed.

Lemma name_at_e_name s e n : name_at s e n = true -> e_name s e = Ok n.
Proof.
  unfold name_at, e_name, e_name_g. destruct n as [id|ws|cs]; intros H; [| |discriminate].
  - apply andb_prop in H. destruct H as [H1 H2]. destruct (B31 <=? rd32 s e) eqn:B; [lia|]. f_equal. f_equal. lia.
  - apply andb_prop in H. destruct H as [H1 H]. rewrite H1.
    apply andb_prop in H. destruct H as [H H4]. apply andb_prop in H. destruct H as [H2 H3].
    unfold in_sec in H2. apply andb_prop in H2. destruct H2 as [H2 H2'].
    unfold slice_ws. rewrite aligned_wadd64_2, H2'. cbn [negb]. rewrite H2.
    destruct (rd32 s e - B31 + 2 + rd16 s (rd32 s e - B31) * 2 <=? rs_len s) eqn:C; [|lia]. cbn [bind fst snd]. apply list_eqb_eq in H4. rewrite H4. reflexivity.
Qed.

Lemma e_name_name_at s e n : e_name s e = Ok n -> name_at s e n = true.
Proof.
  unfold name_at, e_name, e_name_g. destruct (B31 <=? rd32 s e) eqn:B.
  - unfold slice_ws. rewrite aligned_wadd64_2. destruct ((rs_addr s + (rd32 s e - B31)) mod 2 =? 0) eqn:A; cbn [negb]; [|discriminate].
    destruct (rd32 s e - B31 + 2 <=? rs_len s) eqn:C; [|discriminate].
    destruct (rd32 s e - B31 + 2 + rd16 s (rd32 s e - B31) * 2 <=? rs_len s) eqn:D; [|discriminate]. cbn [bind fst snd]. intros [= <-].
    unfold in_sec. rewrite A, C. cbn [andb]. apply andb_true_intro. split; [lia|]. apply list_eqb_eq. reflexivity.
  - intros [= <-]. apply andb_true_intro. split; lia.
Qed.

Ltac split_andb := repeat match goal with H : _ && _ = true |- _ => apply andb_prop in H; destruct H end.

Lemma data_at_bytes s o st sz cp :
  data_at s o st sz cp = true ->
  rslice s o 16 4 = Ok o /\ data_bytes s o = Ok {| r_off := st; r_len := sz |} /\ data_size s o = sz /\ data_cp s o = cp.
Proof.
  unfold data_at, in_sec. intros H. split_andb.
  assert (Ha : ((rs_addr s + o) mod 4 =? 0) = true) by lia.
  assert (Hb : (o + 16 <=? rs_len s) = true) by lia.
  split; [unfold rslice; rewrite aligned_wadd64_4, Ha; cbn [negb]; rewrite Hb; reflexivity|].
  split; [|split; [unfold data_size; lia|unfold data_cp; lia]].
  unfold data_bytes. destruct (rd32 s o <? rs_va s) eqn:A; [lia|]. replace (rd32 s o - rs_va s) with st by lia.
  replace (rd32 s (o + 4)) with sz by lia. destruct (W32 <=? st + sz) eqn:B; [lia|]. destruct (st + sz <=? rs_len s) eqn:C; [reflexivity|lia].
Qed.

Lemma bytes_data_at s o rg :
  rslice s o 16 4 = Ok o -> data_bytes s o = Ok rg -> data_at s o (r_off rg) (r_len rg) (data_cp s o) = true /\ r_len rg = data_size s o.
Proof.
  intros R. apply rslice_ok in R. destruct R as (_ & R1 & R2). rewrite aligned_wadd64_4 in R2.
  unfold data_bytes, data_at, in_sec, data_cp, data_size. destruct (rd32 s o <? rs_va s) eqn:A; [discriminate|].
  destruct (W32 <=? rd32 s o - rs_va s + rd32 s (o + 4)) eqn:B; [discriminate|].
  destruct (rd32 s o - rs_va s + rd32 s (o + 4) <=? rs_len s) eqn:C; [|discriminate]. intros [= <-]. cbn [r_off r_len].
  split; [|reflexivity]. repeat (apply andb_true_intro; split); lia.
Qed.

Lemma entry_offs_cons e n : entry_offs e (1 + n) = e :: entry_offs (e + 8) n.
Proof.
  unfold entry_offs. replace (N.to_nat (1 + n)) with (S (N.to_nat n)) by lia. cbn [seq map].
  f_equal; [lia|]. rewrite <- seq_shift, map_map. apply map_ext. intros i. lia.
Qed.

(* ------------------------------------------------------------------ Theorem 1: traversal = the tree the bytes denote *)
Definition walk_spec (s : rsec) (t : rtree) : Prop :=
  forall d lvl b, repr s t = true -> (height t <= d)%nat -> size t <= b ->
  match t with
  | RDir o _ => walk d s o lvl b = (flatten s lvl t, b - size t)
  | RData _ _ _ _ => True
  end.

Lemma link_entry s e k :
  link_at s e k = true -> repr s k = true ->
  e_is_dir s e = rt_isdir k /\
  e_entry s e = Ok (if rt_isdir k then EDir (rt_off k) else EData (rt_off k)).
Proof.
  unfold link_at, e_is_dir, e_entry, e_entry_g. destruct k as [o st sz cp|o kids]; cbn [rt_isdir rt_off repr]; intros H R.
  - apply andb_prop in H. destruct H as [H1 H2]. destruct (B31 <=? rd32 s (e + 4)) eqn:B; [lia|]. split; [reflexivity|].
    replace (rd32 s (e + 4)) with o by lia. apply data_at_bytes in R. destruct R as (R & _). rewrite R. reflexivity.
  - apply andb_prop in H. destruct H as [H1 H2]. rewrite H1. split; [reflexivity|].
    replace (rd32 s (e + 4) - B31) with o by lia. apply andb_prop in R. destruct R as [R _]. apply andb_prop in R. destruct R as [R _].
    fold (dir_try_from s o). rewrite (dir_at_try_from _ _ R). reflexivity.
Qed.

Lemma height_kid o kids nk d : In nk kids -> (height (RDir o kids) <= S d)%nat -> (height (snd nk) <= d)%nat.
Proof.
  cbn [height]. intros Hin H. apply le_S_n in H. revert H. induction kids as [|x r IH]; [destruct Hin|].
  cbn [fold_right]. intros H. destruct Hin as [->|Hin]; [lia|]. apply IH; [exact Hin|lia].
Qed.

Lemma walk_loop_repr s d lvl named :
  forall kids e idx b,
  Forall (fun nk => walk_spec s (snd nk)) kids ->
  repr_kids s (fun k => repr s k) e kids = true ->
  (forall nk, In nk kids -> (height (snd nk) <= d)%nat) ->
  size_kids size kids <= b ->
  walk_loop s (walk d s) lvl named (entry_offs e (lenN kids)) idx b
  = (flatten_kids (fun k => flatten s (lvl + 1) k) lvl named e idx kids, b - size_kids size kids).
Proof.
  induction kids as [|[n k] r IH]; intros e idx b HF HR HH HS.
  - change (lenN (@nil (name * rtree))) with 0. unfold entry_offs. change (N.to_nat 0) with 0%nat.
    cbn [seq map walk_loop flatten_kids size_kids fold_right]. f_equal. lia.
  - rewrite lenN_cons, entry_offs_cons. cbn [walk_loop flatten_kids fst snd].
    cbn [size_kids fold_right snd] in HS. fold (size_kids size r) in HS.
    destruct (b =? 0) eqn:B0; [lia|].
    cbn [repr_kids fst snd] in HR.
    apply andb_prop in HR. destruct HR as [HR HR4]. apply andb_prop in HR. destruct HR as [HR HR3].
    apply andb_prop in HR. destruct HR as [HR1 HR2].
    destruct (link_entry s e k HR2 HR3) as [Hisd Hent].
    inversion HF as [|x l HFk HFr]; subst x l. cbn [snd] in HFk.
    assert (Hk : (height k <= d)%nat) by (apply (HH (n, k)); left; reflexivity).
    assert (Hitem : item_at s lvl named idx e = item_of lvl e (idx <? named) n k).
    { unfold item_at, item_of. rewrite Hent, (name_at_e_name _ _ _ HR1), Hisd.
      destruct k as [o st sz cp|o kids']; cbn [rt_isdir rt_off]; [|reflexivity].
      cbn [repr] in HR3. apply data_at_bytes in HR3. destruct HR3 as (_ & Hb & Hs & Hc). rewrite Hb, Hs, Hc. reflexivity. }
    rewrite Hitem, Hent.
    assert (Hsub : (match (if rt_isdir k then EDir (rt_off k) else EData (rt_off k)) with
                    | EDir o => walk d s o (lvl + 1) (b - 1) | EData _ => ([], b - 1) end)
                   = (flatten s (lvl + 1) k, b - 1 - size k)).
    { destruct k as [o st sz cp|o kids']; cbn [rt_isdir rt_off].
      - cbn [flatten size]. f_equal. lia.
      - apply (HFk d (lvl + 1) (b - 1) HR3 Hk). lia. }
    replace (match Ok (if rt_isdir k then EDir (rt_off k) else EData (rt_off k)) with
             | Ok (EDir o) => walk d s o (lvl + 1) (b - 1) | _ => ([], b - 1) end)
      with (flatten s (lvl + 1) k, b - 1 - size k)
      by (rewrite <- Hsub; destruct (rt_isdir k); reflexivity).
    cbn [fst snd].
    rewrite (IH (e + 8) (idx + 1) (b - 1 - size k) HFr HR4); [|intros nk Hin; apply HH; right; exact Hin|lia].
    cbn [fst snd]. f_equal. cbn [size_kids fold_right snd]. fold (size_kids size r). lia.
Qed.

Lemma walk_spec_all t s : walk_spec s t.
Proof.
  induction t as [o st sz cp|o kids IHk] using rtree_ind'; unfold walk_spec; intros d lvl b HR HH HS; [exact I|].
  destruct d as [|d]; [cbn [height] in HH; lia|].
  cbn [walk flatten size]. cbn [repr] in HR. apply andb_prop in HR. destruct HR as [HR HR3]. apply andb_prop in HR. destruct HR as [HR1 HR2].
  unfold entries. replace (n_named s o + n_ids s o) with (lenN kids) by (unfold dir_count, n_named, n_ids in *; lia).
  unfold n_named. apply walk_loop_repr; [exact IHk|exact HR3| |exact HS].
  intros nk Hin. apply (height_kid o kids nk d Hin HH).
Qed.

Theorem walk_repr s o kids d lvl b :
  repr s (RDir o kids) = true -> (height (RDir o kids) <= d)%nat -> size (RDir o kids) <= b ->
  walk d s o lvl b = (flatten s lvl (RDir o kids), b - size (RDir o kids)).
Proof. intros HR HH HS. exact (walk_spec_all (RDir o kids) s d lvl b HR HH HS). Qed.

(* ------------------------------------------------------------------ fsck: no fault, complete, sound *)
Lemma fsck_loop_no_fault s below :
  (forall o b f, below o b <> Fault f) -> forall es b f, fsck_loop s below es b <> Fault f.
Proof.
  intros HB. induction es as [|e r IH]; intros b f; cbn [fsck_loop]; [discriminate|].
  destruct (b =? 0); [discriminate|].
  destruct (e_name s e) as [n|er|f0] eqn:N; cbn [bind]; [|discriminate|exfalso; exact (e_name_no_fault _ _ _ N)].
  destruct (e_entry s e) as [en|er|f0] eqn:E; cbn [bind]; [|discriminate|exfalso; exact (e_entry_no_fault _ _ _ E)].
  destruct en as [o|o].
  - destruct (below o (b - 1)) as [b1|er|f0] eqn:R; cbn [bind]; [apply IH|discriminate|exfalso; exact (HB _ _ _ R)].
  - destruct (data_bytes s o) as [rg|er|f0] eqn:D; cbn [bind]; [apply IH|discriminate|exfalso; exact (data_bytes_no_fault _ _ _ D)].
Qed.

Lemma fsck_dir_no_fault d s : forall off b f, fsck_dir d s off b <> Fault f.
Proof.
  induction d as [|d IH]; intros off b f; cbn [fsck_dir]; [discriminate|].
  apply fsck_loop_no_fault. exact IH.
Qed.

Theorem fsck_no_fault s : no_fault (fsck s).
Proof.
  unfold no_fault, fsck, root. intros f.
  destruct (dir_try_from s 0) as [r|er|f0] eqn:R; cbn [bind]; [|discriminate|exfalso; exact (dir_try_from_no_fault _ _ _ R)].
  destruct (fsck_dir FSCK_DEPTH s r (fsck_budget s)) as [b|er|f0] eqn:F; cbn [bind]; [discriminate|discriminate|].
  exfalso; exact (fsck_dir_no_fault _ _ _ _ _ F).
Qed.

Definition fsck_spec (s : rsec) (t : rtree) : Prop :=
  forall d b, repr s t = true -> (height t <= d)%nat -> size t <= b ->
  match t with
  | RDir o _ => fsck_dir d s o b = Ok (b - size t)
  | RData _ _ _ _ => True
  end.

Lemma fsck_loop_repr s d :
  forall kids e b,
  Forall (fun nk => fsck_spec s (snd nk)) kids ->
  repr_kids s (fun k => repr s k) e kids = true ->
  (forall nk, In nk kids -> (height (snd nk) <= d)%nat) ->
  size_kids size kids <= b ->
  fsck_loop s (fsck_dir d s) (entry_offs e (lenN kids)) b = Ok (b - size_kids size kids).
Proof.
  induction kids as [|[n k] r IH]; intros e b HF HR HH HS.
  - change (lenN (@nil (name * rtree))) with 0. unfold entry_offs. change (N.to_nat 0) with 0%nat.
    cbn [seq map fsck_loop size_kids fold_right]. f_equal. lia.
  - rewrite lenN_cons, entry_offs_cons. cbn [fsck_loop].
    cbn [size_kids fold_right snd] in HS. fold (size_kids size r) in HS.
    destruct (b =? 0) eqn:B0; [lia|].
    cbn [repr_kids fst snd] in HR. split_andb.
    match goal with H : name_at s e n = true |- _ => rewrite (name_at_e_name _ _ _ H) end. cbn [bind].
    match goal with H1 : link_at s e k = true, H2 : repr s k = true |- _ => destruct (link_entry s e k H1 H2) as [_ Hent]; pose proof H2 as HRk end.
    rewrite Hent. cbn [bind].
    inversion HF as [|x l HFk HFr]; subst x l. cbn [snd] in HFk.
    assert (Hk : (height k <= d)%nat) by (apply (HH (n, k)); left; reflexivity).
    assert (Hsub : (match (if rt_isdir k then EDir (rt_off k) else EData (rt_off k)) with
                    | EDir o => fsck_dir d s o (b - 1)
                    | EData o => _ <- data_bytes s o ;; Ok (b - 1) end) = Ok (b - 1 - size k)).
    { destruct k as [o st sz cp|o kids']; cbn [rt_isdir rt_off].
      - cbn [repr] in HRk. apply data_at_bytes in HRk. destruct HRk as (_ & Hb & _). rewrite Hb. cbn [bind size]. f_equal. lia.
      - apply (HFk d (b - 1) HRk Hk). lia. }
    rewrite Hsub. cbn [bind].
    rewrite (IH (e + 8) (b - 1 - size k) HFr); [| assumption |intros nk Hin; apply HH; right; exact Hin|lia].
    f_equal. cbn [size_kids fold_right snd]. fold (size_kids size r). lia.
Qed.

Lemma fsck_spec_all t s : fsck_spec s t.
Proof.
  induction t as [o st sz cp|o kids IHk] using rtree_ind'; unfold fsck_spec; intros d b HR HH HS; [exact I|].
  destruct d as [|d]; [cbn [height] in HH; lia|].
  cbn [fsck_dir size]. cbn [repr] in HR. split_andb.
  unfold entries. replace (n_named s o + n_ids s o) with (lenN kids) by (unfold dir_count, n_named, n_ids in *; lia).
  apply fsck_loop_repr; [exact IHk|assumption| |exact HS].
  intros nk Hin. apply (height_kid o kids nk d Hin HH).
Qed.

Lemma e_entry_inv s e en :
  e_entry s e = Ok en ->
  match en with
  | EDir o => B31 <= rd32 s (e + 4) /\ o = rd32 s (e + 4) - B31 /\ dir_at s o = true
  | EData o => rd32 s (e + 4) < B31 /\ o = rd32 s (e + 4) /\ rslice s o 16 4 = Ok o
  end.
Proof.
  unfold e_entry, e_entry_g. destruct (B31 <=? rd32 s (e + 4)) eqn:B.
  - fold (dir_try_from s (rd32 s (e + 4) - B31)).
    destruct (dir_try_from s (rd32 s (e + 4) - B31)) as [o|er|f0] eqn:R; cbn [bind]; [|discriminate|discriminate].
    intros [= <-]. apply try_from_dir_at in R. destruct R as [-> R]. split; [lia|]. split; [reflexivity|exact R].
  - destruct (rslice s (rd32 s (e + 4)) 16 4) as [o|er|f0] eqn:R; cbn [bind]; [|discriminate|discriminate].
    intros [= <-]. pose proof R as R'. apply rslice_ok in R'. destruct R' as [-> _]. split; [lia|]. split; [reflexivity|exact R].
Qed.

Definition fsck_sound_at (s : rsec) (d : nat) : Prop :=
  forall o b b', dir_at s o = true -> fsck_dir d s o b = Ok b' ->
  exists kids, repr s (RDir o kids) = true /\ (height (RDir o kids) <= d)%nat /\ size_kids size kids + b' = b.

Lemma fsck_loop_sound s d : fsck_sound_at s d ->
  forall m e b b', fsck_loop s (fsck_dir d s) (entry_offs e (N.of_nat m)) b = Ok b' ->
  exists kids, lenN kids = N.of_nat m /\ repr_kids s (fun k => repr s k) e kids = true /\
               (forall nk, In nk kids -> (height (snd nk) <= d)%nat) /\ size_kids size kids + b' = b.
Proof.
  intros HD. induction m as [|m IH]; intros e b b'.
  - unfold entry_offs. change (N.to_nat (N.of_nat 0)) with 0%nat. cbn [seq map fsck_loop]. intros [= <-].
    exists []. split; [reflexivity|]. split; [reflexivity|]. split; [intros nk []|]. cbn [size_kids fold_right]. lia.
  - replace (N.of_nat (S m)) with (1 + N.of_nat m) by lia. rewrite entry_offs_cons. cbn [fsck_loop].
    destruct (b =? 0) eqn:B0; [discriminate|].
    destruct (e_name s e) as [n|er|f0] eqn:Nm; cbn [bind]; [|discriminate|discriminate].
    destruct (e_entry s e) as [en|er|f0] eqn:En; cbn [bind]; [|discriminate|discriminate].
    apply e_name_name_at in Nm. apply e_entry_inv in En.
    destruct en as [o|o].
    + destruct En as (E1 & E2 & E3).
      destruct (fsck_dir d s o (b - 1)) as [b1|er|f0] eqn:F; cbn [bind]; [|discriminate|discriminate].
      intros HL. destruct (HD o (b - 1) b1 E3 F) as (kk & K1 & K2 & K3).
      destruct (IH (e + 8) b1 b' HL) as (kr & R1 & R2 & R3 & R4).
      exists ((n, RDir o kk) :: kr). split; [rewrite lenN_cons; lia|]. split.
      { cbn [repr_kids fst snd]. rewrite Nm, K1, R2. unfold link_at. cbn [rt_isdir rt_off].
        replace (B31 <=? rd32 s (e + 4)) with true by lia. replace (o =? rd32 s (e + 4) - B31) with true by lia. reflexivity. }
      split.
      { intros nk [<-|Hin]; [cbn [snd]; destruct d as [|d']; [cbn [height] in K2; lia|exact K2]|apply R3; exact Hin]. }
      cbn [size_kids fold_right snd size]. fold (size_kids size kr). lia.
    + destruct En as (E1 & E2 & E3).
      destruct (data_bytes s o) as [rg|er|f0] eqn:D; cbn [bind]; [|discriminate|discriminate].
      intros HL. destruct (bytes_data_at s o rg E3 D) as [K1 _].
      destruct (IH (e + 8) (b - 1) b' HL) as (kr & R1 & R2 & R3 & R4).
      exists ((n, RData o (r_off rg) (r_len rg) (data_cp s o)) :: kr). split; [rewrite lenN_cons; lia|]. split.
      { cbn [repr_kids fst snd repr]. rewrite Nm, K1, R2. unfold link_at. cbn [rt_isdir rt_off].
        replace (rd32 s (e + 4) <? B31) with true by lia. replace (o =? rd32 s (e + 4)) with true by lia. reflexivity. }
      split.
      { intros nk [<-|Hin]; [cbn [snd height]; lia|apply R3; exact Hin]. }
      cbn [size_kids fold_right snd size]. fold (size_kids size kr). lia.
Qed.

Lemma height_bound o kids d : (forall nk, In nk kids -> (height (snd nk) <= d)%nat) -> (height (RDir o kids) <= S d)%nat.
Proof.
  cbn [height]. intros H. apply le_n_S. induction kids as [|x r IH]; cbn [fold_right]; [lia|].
  apply Nat.max_lub; [apply H; left; reflexivity|apply IH; intros nk Hin; apply H; right; exact Hin].
Qed.

Lemma fsck_sound_all s d : fsck_sound_at s d.
Proof.
  induction d as [|d IH]; intros o b b' HD; cbn [fsck_dir]; [discriminate|].
  unfold entries. replace (n_named s o + n_ids s o) with (N.of_nat (N.to_nat (dir_count s o))) by (unfold dir_count, n_named, n_ids; lia).
  intros HL. destruct (fsck_loop_sound s d IH _ _ _ _ HL) as (kids & K1 & K2 & K3 & K4).
  exists kids. split; [cbn [repr]; rewrite HD, K2; replace (lenN kids =? dir_count s o) with true by lia; reflexivity|].
  split; [apply height_bound; exact K3|exact K4].
Qed.

(* the consistency check succeeds exactly on the sections whose root denotes a tree (every reachable name, reference
   and data range valid) nested at most 32 directories deep with at most len/8 entries in its unfolding *)
Theorem fsck_iff s :
  fsck s = Ok tt <->
  exists kids, repr s (RDir 0 kids) = true /\ (height (RDir 0 kids) <= FSCK_DEPTH)%nat /\ size (RDir 0 kids) <= rs_len s / 8.
Proof.
  unfold fsck, root, fsck_budget. split.
  - destruct (dir_try_from s 0) as [r|er|f0] eqn:R; cbn [bind]; [|discriminate|discriminate].
    apply try_from_dir_at in R. destruct R as [-> R].
    destruct (fsck_dir FSCK_DEPTH s 0 (rs_len s / 8)) as [b'|er|f0] eqn:F; cbn [bind]; [|discriminate|discriminate].
    intros _. destruct (fsck_sound_all s FSCK_DEPTH 0 _ _ R F) as (kids & K1 & K2 & K3).
    exists kids. split; [exact K1|]. split; [exact K2|]. cbn [size]. lia.
  - intros (kids & K1 & K2 & K3). pose proof K1 as K1'. cbn [repr] in K1'. split_andb.
    match goal with H : dir_at s 0 = true |- _ => rewrite (dir_at_try_from _ _ H) end. cbn [bind].
    pose proof (fsck_spec_all (RDir 0 kids) s FSCK_DEPTH (rs_len s / 8) K1 K2 K3) as HF. cbn beta iota in HF. rewrite HF. reflexivity.
Qed.

(* ------------------------------------------------------------------ names: the code's comparison is the documented rule *)
Lemma decimal_value_ge ds : forall acc, acc <= decimal_value ds acc.
Proof. induction ds as [|d r IH]; intros acc; cbn [decimal_value]; [lia|]. specialize (IH (acc * 10 + (d - 48))). lia. Qed.

Lemma parse_u32_spec ds : forall acc, acc < W32 ->
  parse_u32 ds acc = if forallb digit ds && (decimal_value ds acc <? W32) then Some (decimal_value ds acc) else None.
Proof.
  induction ds as [|c r IH]; intros acc Hacc; cbn [parse_u32 forallb decimal_value].
  - cbn [andb]. destruct (acc <? W32) eqn:A; [reflexivity|lia].
  - unfold is_digit. fold (digit c). destruct (digit c); cbn [andb]; [|reflexivity].
    destruct (acc * 10 + (c - 48) <? W32) eqn:A.
    + apply IH. lia.
    + pose proof (decimal_value_ge r (acc * 10 + (c - 48))).
      destruct (forallb digit r); cbn [andb]; [|reflexivity].
      destruct (decimal_value r (acc * 10 + (c - 48)) <? W32) eqn:B; [lia|reflexivity].
Qed.

Lemma eq_string_id id cs : id < W32 -> eq_string (NId id) cs = str_matches_id id cs.
Proof.
  intros Hid. unfold eq_string, eq_string_g, str_matches_id. destruct cs as [|h [|c rest]]; try reflexivity.
  destruct (h =? 35); cbn [negb andb]; [|reflexivity].
  change ((48 <=? c) && (c <=? 57)) with (digit c). destruct (digit c) eqn:D; [|reflexivity].
  rewrite parse_u32_spec by (unfold W32; lia). cbn [forallb]. rewrite D. cbn [andb].
  destruct (forallb digit rest); cbn [andb]; [|reflexivity].
  destruct (decimal_value (c :: rest) 0 <? W32) eqn:B; [apply N.eqb_sym|].
  symmetry. apply N.eqb_neq. lia.
Qed.

Lemma decode_nonempty u rest cs : cs = [] -> opt_list_eqb (decode_utf16 (u :: rest)) cs = false.
Proof.
  intros ->. cbn [decode_utf16]. destruct ((u <? 55296) || (57343 <? u)); [reflexivity|].
  destruct (56320 <=? u); [reflexivity|]. destruct rest as [|u2 rest']; [reflexivity|].
  destruct ((u2 <? 56320) || (57343 <? u2)); reflexivity.
Qed.

Definition words_ok (ws : list N) : Prop := Forall (fun w => w < 65536) ws.

Lemma wide_eq cs : forallb scalar cs = true ->
  forall ws, words_ok ws -> opt_list_eqb (decode_utf16 ws) cs = list_eqb ws (utf16_encode cs).
Proof.
  induction cs as [|c r IH]; intros Hs ws Hw.
  - destruct ws as [|u rest]; [reflexivity|]. rewrite decode_nonempty by reflexivity. reflexivity.
  - cbn [forallb] in Hs. apply andb_prop in Hs. destruct Hs as [Hc Hr]. specialize (IH Hr). unfold scalar in Hc.
    destruct ws as [|u rest].
    { cbn [decode_utf16 opt_list_eqb utf16_encode]. destruct (c <? 65536); reflexivity. }
    inversion Hw as [|x l Hu Hrest]; subst x l.
    cbn [decode_utf16 utf16_encode]. destruct (c <? 65536) eqn:C.
    + cbn [list_eqb].
      destruct ((u <? 55296) || (57343 <? u)) eqn:U1; [cbn [opt_list_eqb]; rewrite (IH rest Hrest); reflexivity|].
      assert (Hne : (u =? c) = false) by lia. rewrite Hne. cbn [andb].
      destruct (56320 <=? u); [reflexivity|]. destruct rest as [|u2 rest']; [reflexivity|].
      destruct ((u2 <? 56320) || (57343 <? u2)); [reflexivity|].
      cbn [opt_list_eqb]. replace (65536 + (u - 55296) * 1024 + (u2 - 56320) =? c) with false by lia. reflexivity.
    + cbn [list_eqb].
      destruct ((u <? 55296) || (57343 <? u)) eqn:U1.
      { cbn [opt_list_eqb]. replace (u =? c) with false by lia. replace (u =? 55296 + (c - 65536) / 1024) with false by lia. reflexivity. }
      destruct (56320 <=? u) eqn:U2.
      { cbn [opt_list_eqb]. replace (u =? 55296 + (c - 65536) / 1024) with false by lia. reflexivity. }
      destruct rest as [|u2 rest'].
      { cbn [opt_list_eqb list_eqb]. apply eq_sym, andb_false_r. }
      inversion Hrest as [|x l Hu2 Hrest']; subst x l.
      destruct ((u2 <? 56320) || (57343 <? u2)) eqn:U3.
      { cbn [opt_list_eqb list_eqb]. replace (u2 =? 56320 + (c - 65536) mod 1024) with false by lia. cbn [andb]. apply eq_sym, andb_false_r. }
      cbn [opt_list_eqb list_eqb]. rewrite (IH rest' Hrest').
      destruct (list_eqb rest' (utf16_encode r)); [|rewrite !andb_false_r; reflexivity]. rewrite !andb_true_r.
      destruct (65536 + (u - 55296) * 1024 + (u2 - 56320) =? c) eqn:E1;
        destruct (u =? 55296 + (c - 65536) / 1024) eqn:E2; destruct (u2 =? 56320 + (c - 65536) mod 1024) eqn:E3; cbn [andb]; try reflexivity; lia.
Qed.

Lemma words_words_ok s o n : sec_ok s -> words_ok (words s o n).
Proof. intros Hs. unfold words_ok, words. apply Forall_forall. intros x Hx. apply in_map_iff in Hx. destruct Hx as (i & <- & _). apply rd16_lt. exact Hs. Qed.

Definition stored (n : name) : Prop := match n with NId id => id < W32 | NWide ws => words_ok ws | NStr _ => False end.
Definition valid_query (q : name) : Prop := match q with NStr cs => forallb scalar cs = true | _ => True end.

Theorem name_eq_matches n q : stored n -> valid_query q -> name_eq n q = name_matches n q.
Proof.
  unfold name_eq, name_eq_g, name_matches. destruct n as [id|ws|ns]; intros Hn Hq; [| |destruct Hn]; destruct q as [x|a|cs].
  - reflexivity.
  - reflexivity.
  - fold (eq_string (NId id) cs). apply eq_string_id. exact Hn.
  - reflexivity.
  - reflexivity.
  - cbn [eq_string_g]. apply wide_eq; [exact Hq|exact Hn].
Qed.

(* lookup = the first entry, in stored order, whose stored name matches *)
Theorem find_entry_first_match s off q :
  sec_ok s -> valid_query q ->
  find_entry 48 s off q = find (fun e => match e_name s e with Ok n => name_matches n q | _ => false end) (entries s off).
Proof.
  intros Hs Hq. unfold find_entry. induction (entries s off) as [|e r IH]; cbn [find]; [reflexivity|].
  unfold matches at 1. destruct (e_name s e) as [n|er|f0] eqn:N; [|exact IH|exact IH].
  assert (Hst : stored n).
  { unfold e_name, e_name_g in N. destruct (B31 <=? rd32 s e).
    - destruct (slice_ws s (rd32 s e - B31)); cbn [bind] in N; try discriminate. injection N as <-. apply words_words_ok. exact Hs.
    - injection N as <-. cbn [stored]. apply rd32_lt. exact Hs. }
  fold (name_eq n q). rewrite (name_eq_matches n q Hst Hq). destruct (name_matches n q); [reflexivity|exact IH].
Qed.

(* F29: the code as it stood *)
Lemma eq_string_orig_refuted :
  display_id 0 = [35; 48] /\ eq_string_orig (NId 0) (display_id 0) = false /\ eq_string (NId 0) (display_id 0) = true /\
  str_matches_id 0 (display_id 0) = true.
Proof. vm_compute. repeat split; reflexivity. Qed.

(* ------------------------------------------------------------------ the find API never faults *)
Definition fnf {A} (r : fres A) : Prop := forall f, r <> FFault f.
Lemma lift_fnf {A} (r : res A) : no_fault r -> fnf (lift r).
Proof. unfold fnf, no_fault. intros H f. destruct r; cbn [lift]; try discriminate. intros [= <-]. exact (H _ eq_refl). Qed.
Lemma fbind_fnf {A B} (r : fres A) (k : A -> fres B) : fnf r -> (forall a, fnf (k a)) -> fnf (fbind r k).
Proof. unfold fnf. intros H1 H2 f. destruct r as [a|e|f0]; cbn [fbind]; [apply H2|discriminate|]. intros _. exact (H1 f0 eq_refl). Qed.
Lemma as_dir_fnf x : fnf (as_dir x).  Proof. intros f. destruct x; discriminate. Qed.
Lemma as_data_fnf x : fnf (as_data x).  Proof. intros f. destruct x; discriminate. Qed.
Lemma root_fnf s : fnf (lift (root s)).  Proof. apply lift_fnf. apply dir_try_from_no_fault. Qed.
Lemma dir_get_fnf lo s off q : fnf (dir_get lo s off q).
Proof. unfold dir_get. destruct (find_entry lo s off q); [apply lift_fnf, e_entry_no_fault|intros f; discriminate]. Qed.
Lemma get_dir_fnf lo s off q : fnf (get_dir lo s off q).
Proof. apply fbind_fnf; [apply dir_get_fnf|apply as_dir_fnf]. Qed.
Lemma get_data_fnf lo s off q : fnf (get_data lo s off q).
Proof. apply fbind_fnf; [apply dir_get_fnf|apply as_data_fnf]. Qed.
Lemma first_fnf s off : fnf (first s off).
Proof. unfold first. destruct (entries s off); [intros f; discriminate|apply lift_fnf, e_entry_no_fault]. Qed.
Lemma first_data_fnf s off : fnf (first_data s off).
Proof. apply fbind_fnf; [apply first_fnf|apply as_data_fnf]. Qed.
Lemma first_dir_fnf s off : fnf (first_dir s off).
Proof. apply fbind_fnf; [apply first_fnf|apply as_dir_fnf]. Qed.
Lemma find_resources_fnf lo s a b : fnf (find_resources lo s a b).
Proof. apply fbind_fnf; [apply root_fnf|]. intros r. apply fbind_fnf; [apply get_dir_fnf|]. intros d. apply get_dir_fnf. Qed.
Lemma find_resource_fnf lo s a b : fnf (find_resource lo s a b).
Proof.
  apply fbind_fnf; [apply find_resources_fnf|]. intros d. apply fbind_fnf; [apply first_data_fnf|].
  intros x. apply lift_fnf, data_bytes_no_fault.
Qed.
Lemma find_resource_ex_fnf lo s a b c : fnf (find_resource_ex lo s a b c).
Proof.
  apply fbind_fnf; [apply find_resources_fnf|]. intros d. apply fbind_fnf; [apply get_data_fnf|].
  intros x. apply lift_fnf, data_bytes_no_fault.
Qed.
Lemma find_parts_fnf lo s parts : forall cur, fnf (find_parts lo s cur parts).
Proof.
  induction parts as [|p r IH]; intros cur; cbn [find_parts]; [intros f; discriminate|].
  destruct cur as [o|o]; [|intros f; discriminate].
  destruct (find_entry lo s o (NStr p)); [|intros f; discriminate].
  apply fbind_fnf; [apply lift_fnf, e_entry_no_fault|]. intros x. apply IH.
Qed.
Lemma find_path_fnf lo s rooted parts : fnf (find_path lo s rooted parts).
Proof.
  unfold find_path. destruct rooted.
  - apply fbind_fnf; [apply root_fnf|]. intros r. apply find_parts_fnf.
  - destruct parts; intros f; discriminate.
Qed.
Lemma manifest_fnf s : fnf (manifest s).
Proof.
  unfold manifest. apply fbind_fnf; [apply root_fnf|]. intros r. apply fbind_fnf; [apply get_dir_fnf|]. intros d.
  apply fbind_fnf; [apply first_dir_fnf|]. intros d2. apply fbind_fnf; [apply first_data_fnf|]. intros x.
  apply fbind_fnf; [apply lift_fnf, data_bytes_no_fault|]. intros rg. destruct (utf8_valid _); intros f; discriminate.
Qed.
Lemma version_info_fnf s : fnf (version_info s).
Proof. unfold version_info. apply fbind_fnf; [apply find_resource_fnf|]. intros rg. destruct (aligned_to _ _); intros f; discriminate. Qed.
Lemma g_image_fnf s g id : fnf (g_image s g id).
Proof. apply find_resource_fnf. Qed.
Lemma group_new_no_fault s g : no_fault (group_new s g).
Proof.
  unfold no_fault, group_new. intros f. destruct (negb _); [discriminate|]. destruct (_ <? _); [discriminate|].
  destruct (_ || _); [discriminate|]. destruct (negb _); discriminate.
Qed.

Theorem find_api_no_fault lo s a b c off q rooted parts g id :
  fnf (dir_get lo s off q) /\ fnf (get_dir lo s off q) /\ fnf (get_data lo s off q) /\ fnf (first s off) /\
  fnf (first_data s off) /\ fnf (first_dir s off) /\ fnf (find_resources lo s a b) /\ fnf (find_resource lo s a b) /\
  fnf (find_resource_ex lo s a b c) /\ fnf (find_path lo s rooted parts) /\ fnf (manifest s) /\ fnf (version_info s) /\
  fnf (g_image s g id) /\ no_fault (group_new s g).
Proof.
  repeat split; [apply dir_get_fnf|apply get_dir_fnf|apply get_data_fnf|apply first_fnf|apply first_data_fnf|apply first_dir_fnf|
    apply find_resources_fnf|apply find_resource_fnf|apply find_resource_ex_fnf|apply find_path_fnf|apply manifest_fnf|
    apply version_info_fnf|apply g_image_fnf|apply group_new_no_fault].
Qed.

(* ------------------------------------------------------------------ group reassembly = the .ico / .cur encoder *)
Definition mk_images (s : rsec) (es : list N) (datas : list (list N)) : list ico_image :=
  map (fun p => {| ii_head := sec_bytes s (fst p) 12; ii_data := snd p |}) (combine es datas).
Definition total_len (datas : list (list N)) : N := fold_right (fun d m => lenN d + m) 0 datas.

Lemma write_entries_ico s lookup : forall es datas off,
  Forall2 (fun e d => lookup (ge_id s e) = Some d /\ lenN d = ge_bytes_in_res s e) es datas ->
  off + total_len datas < W32 ->
  write_entries s es off = (ico_entries (mk_images s es datas) off, true) /\
  write_images s lookup es = ico_data (mk_images s es datas).
Proof.
  induction es as [|e r IH]; intros datas off HF HT; inversion HF as [|x d l dl [Hl Hn] HF']; subst.
  - split; reflexivity.
  - cbn [total_len fold_right] in HT. fold (total_len dl) in HT.
    cbn [write_entries write_images mk_images combine map ico_entries ico_data concat fst snd ii_head ii_data].
    fold (mk_images s r dl). rewrite Hl, <- Hn.
    destruct (off + lenN d <? W32) eqn:B; [|lia].
    destruct (IH dl (off + lenN d) HF') as [E1 E2]; [lia|].
    rewrite E1, E2. cbn [fst snd]. split; reflexivity.
Qed.

Lemma forall2_length {A B} (R : A -> B -> Prop) l1 l2 : Forall2 R l1 l2 -> length l1 = length l2.
Proof. induction 1; cbn [length]; [reflexivity|f_equal; assumption]. Qed.

Lemma lenN_mk_images s es datas : length es = length datas -> lenN (mk_images s es datas) = lenN es.
Proof. intros H. unfold lenN, mk_images. rewrite map_length, combine_length. lia. Qed.

Lemma header_bytes s o : sec_ok s -> rd16 s o = 0 ->
  sec_bytes s o 6 = ico_header (rd16 s (o + 2)) (rd16 s (o + 4)).
Proof.
  intros Hs H0. unfold sec_bytes, ico_header, le16, rd16 in *. change (N.to_nat 6) with 6%nat. cbn [seq map app].
  change (N.of_nat 0) with 0. change (N.of_nat 1) with 1. change (N.of_nat 2) with 2. change (N.of_nat 3) with 3.
  change (N.of_nat 4) with 4. change (N.of_nat 5) with 5.
  pose proof (Hs o). pose proof (Hs (o + 1)). pose proof (Hs (o + 2)). pose proof (Hs (o + 2 + 1)). pose proof (Hs (o + 4)). pose proof (Hs (o + 4 + 1)).
  replace (o + 0) with o by lia. replace (o + 3) with (o + 2 + 1) by lia. replace (o + 5) with (o + 4 + 1) by lia.
  repeat (f_equal; try lia).
Qed.

(* for an ICON group (idType = 1) accepted by GroupResource::new whose every image is found with the size its entry states,
   and a file below 4 GiB, write produces exactly the .ico file: header, entries with recomputed offsets 6+16n+sum, data.
   (Before the F44 repair the statement also covered idType = 2 through the shared encoder - the code's own assumption
   that a cursor group has the icon layout; cursor groups are ResourcesCur.group_write_cur.) *)
Theorem group_write_ico s lookup g datas :
  sec_ok s -> group_new s g = Ok g -> g_type s g = 1 ->
  Forall2 (fun e d => lookup (ge_id s e) = Some d /\ lenN d = ge_bytes_in_res s e) (g_entries s g) datas ->
  6 + 16 * g_count s g + total_len datas < W32 ->
  write_with s lookup g = (ico_encode 1 (mk_images s (g_entries s g) datas), true).
Proof.
  intros Hs HG HTy HF HT.
  assert (Hlen : lenN (g_entries s g) = g_count s g).
  { unfold g_entries, lenN. rewrite map_length, seq_length. lia. }
  assert (H0 : rd16 s (r_off g) = 0).
  { unfold group_new in HG. destruct (negb (aligned_to 2 _)); [discriminate|]. destruct (r_len g <? 6); [discriminate|].
    destruct (rd16 s (r_off g) =? 0) eqn:Z; [lia|]. cbn [negb orb] in HG. discriminate. }
  unfold write_with. rewrite HTy. change (1 =? 2) with false. cbv iota. rewrite Hlen.
  destruct (write_entries_ico s lookup (g_entries s g) datas (6 + g_count s g * 16) HF) as [E1 E2]; [lia|].
  rewrite E1. cbn [fst snd]. rewrite E2. unfold ico_encode.
  rewrite lenN_mk_images by (exact (forall2_length _ _ _ HF)). rewrite Hlen.
  rewrite (header_bytes s (r_off g) Hs H0). unfold g_type in HTy. rewrite HTy. unfold g_count.
  replace (6 + 16 * rd16 s (r_off g + 4)) with (6 + rd16 s (r_off g + 4) * 16) by lia. reflexivity.
Qed.

(* ------------------------------------------------------------------ witnesses of the code as it stood *)
Definition sec_of (addr va : N) (l : list N) : rsec :=
  {| rs_addr := addr; rs_len := lenN l; rs_get := fun i => nth (N.to_nat i) l 0; rs_va := va |}.

(* F16: a root directory whose only entry points back at offset 0 *)
Definition f16_witness : rsec := sec_of 4096 4096 [0;0;0;0; 0;0;0;0; 0;0;0;0; 0;0; 1;0;  1;0;0;0; 0;0;0;128].
Lemma fsck_orig_self_ref s o e n : entries s o = [e] -> e_name_orig s e = Ok n -> e_entry_orig s e = Ok (EDir o) ->
  forall fuel, fsck_dir_orig fuel s o = Fault OutOfFuel.
Proof.
  intros H1 H2 H3. induction fuel as [|fuel IH]; cbn [fsck_dir_orig]; [reflexivity|].
  rewrite H1, H2. cbn [bind]. rewrite H3. cbn [bind]. rewrite IH. reflexivity.
Qed.
Lemma fsck_orig_refuted :
  (forall fuel, fsck_orig fuel f16_witness = Fault OutOfFuel) /\ fsck f16_witness = Err EInsanity.
Proof.
  split; [|vm_compute; reflexivity]. intros fuel. unfold fsck_orig.
  replace (root_orig f16_witness) with (@Ok N 0) by (vm_compute; reflexivity). cbn [bind].
  apply (fsck_orig_self_ref f16_witness 0 16 (NId 1)); vm_compute; reflexivity.
Qed.

(* F26: a cursor group whose only entry claims 0xFFFFFFFF bytes *)
Definition f26_witness : rsec := sec_of 4096 4096 [0;0; 2;0; 1;0;  1;1;0;0; 1;0; 1;0; 255;255;255;255; 2;0].
Lemma group_write_orig_refuted :
  group_new f26_witness {| r_off := 0; r_len := 20 |} = Ok {| r_off := 0; r_len := 20 |} /\
  write_with_orig f26_witness (fun _ => None) {| r_off := 0; r_len := 20 |} = Fault POverflow /\
  write_with f26_witness (fun _ => None) {| r_off := 0; r_len := 20 |} = ([0;0; 2;0; 1;0], false).
Proof. vm_compute. repeat split; reflexivity. Qed.

(* ------------------------------------------------------------------ a concrete section (non-vacuity) *)
(* root: one id entry (7) -> data entry at 24: 4 bytes at section offset 40, code page 1252, section at RVA 0x1000 *)
Definition ex_sec : rsec :=
  sec_of 4096 4096 [0;0;0;0; 0;0;0;0; 0;0;0;0; 0;0; 1;0;  7;0;0;0; 24;0;0;0;  40;16;0;0; 4;0;0;0; 228;4;0;0; 0;0;0;0; 170;187;204;221].
Definition ex_tree : rtree := RDir 0 [(NId 7, RData 24 40 4 1252)].
Lemma ex_nonvacuous :
  repr ex_sec ex_tree = true /\ fsck ex_sec = Ok tt /\
  fst (walk 32 ex_sec 0 0 5) = flatten ex_sec 0 ex_tree /\
  flatten ex_sec 0 ex_tree = [WItem {| i_lvl := 0; i_eoff := 16; i_named := false; i_name := Ok (NId 7); i_isdir := false;
                                      i_tgt := TData 24 (Ok {| r_off := 40; r_len := 4 |}) 4 1252 |}] /\
  dir_get 48 ex_sec 0 (NStr [35; 48; 55]) = FOk (EData 24) /\ dir_get 48 ex_sec 0 (NStr [35; 56]) = FErr FNotFound.
Proof. vm_compute. repeat split; reflexivity. Qed.
