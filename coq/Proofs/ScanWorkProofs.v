(* C03, Matches::next: the number of candidates handed to Scanner::exec during one call is at most the distance
   range.start moves.  The implementation counts the candidates itself (the field `hits`, incremented once before
   every exec); C10 proves the absolute invariant hits <= range.start.  Here: the counter is only ever
   incremented, nothing else depends on it, so the invariant can be applied to the state whose counter is
   calibrated to range.start, which gives the relative statement for every state. *)
From PV.Model Require Import Machine Mapping Views Pattern Exec ScanView Scanner.
From PV.Proofs Require Import BaseProofs ViewsProofs ScannerProofs.

Definition rel (d : N) (st1 st2 : mstate) : Prop :=
  m_start st2 = m_start st1 /\ m_end st2 = m_end st1 /\ m_hits st1 = m_hits st2 + d.
(* whenever the run with the larger counter returns, the run with the smaller one returns the same verdict,
   captures and range, and the counters still differ by d *)
Definition shifted (d : N) (r1 r2 : res sres) : Prop :=
  match r1 with
  | Ok (ok, st1, sv) => exists st2, r2 = Ok (ok, st2, sv) /\ rel d st1 st2
  | _ => True
  end.

Lemma rel_with_start d st1 st2 s : rel d st1 st2 -> rel d (with_start st1 s) (with_start st2 s).
Proof. intros [A [B C]]. repeat split; assumption. Qed.

Section Shift.
  Variable ex : N -> list N -> res (bool * list N).
  Variable get : N -> N.
  Variable d : N.

  Lemma strategy0_loop_shift : forall fuel endp st1 st2 save, rel d st1 st2 ->
    shifted d (strategy0_loop ex fuel endp st1 save) (strategy0_loop ex fuel endp st2 save).
  Proof.
    induction fuel as [|fuel IH]; intros endp st1 st2 save [A [B C]]; [exact I|]. cbn [strategy0_loop]. rewrite A.
    destruct (m_start st1 <? endp).
    - unfold chk_add. destruct (m_hits st1 + 1 <? W32) eqn:E1; cbn [bind]; [|exact I].
      assert (E2 : (m_hits st2 + 1 <? W32) = true) by lia. rewrite E2. cbn [bind].
      destruct (m_start st1 + 1 <? W32); cbn [bind]; [|exact I].
      destruct (ex (m_start st1) save) as [[ok s']| |]; cbn [bind]; try exact I.
      rewrite B. destruct ok.
      + eexists. split; [reflexivity|]. repeat split; cbn [m_start m_end m_hits]; lia.
      + apply IH. repeat split; cbn [m_start m_end m_hits]; lia.
    - exists st2. split; [reflexivity|]. repeat split; assumption.
  Qed.

  Lemma strategy1_loop_shift byte off slen : forall n i st1 st2 save, rel d st1 st2 ->
    shifted d (strategy1_loop ex get n byte off slen i st1 save) (strategy1_loop ex get n byte off slen i st2 save).
  Proof.
    induction n as [|n IH]; intros i st1 st2 save [A [B C]]; cbn [strategy1_loop].
    - rewrite A. unfold chk_add. destruct (m_start st1 + slen mod W32 <? W32); cbn [bind]; [|exact I].
      eexists. split; [reflexivity|]. apply rel_with_start. repeat split; assumption.
    - destruct (get (off + i) =? byte); [|apply IH; repeat split; assumption].
      unfold chk_add. destruct (m_hits st1 + 1 <? W32) eqn:E1; cbn [bind]; [|exact I].
      assert (E2 : (m_hits st2 + 1 <? W32) = true) by lia. rewrite E2. cbn [bind].
      cbn [with_hits m_start]. rewrite A.
      destruct (m_start st1 + i mod W32 <? W32); cbn [bind]; [|exact I].
      destruct (ex (m_start st1 + i mod W32) save) as [[ok s']| |]; cbn [bind]; try exact I.
      assert (Hr : rel d (with_hits st1 (m_hits st1 + 1)) (with_hits st2 (m_hits st2 + 1))) by (repeat split; cbn [with_hits m_start m_end m_hits]; lia).
      destruct ok.
      + destruct (m_start st1 + i mod W32 + 1 <? W32); cbn [bind]; [|exact I].
        eexists. split; [reflexivity|]. apply rel_with_start. exact Hr.
      + apply IH. exact Hr.
  Qed.

  Lemma strategy2_loop_shift qs qslen lastb jmp off slen : forall fuel i st1 st2 save, rel d st1 st2 ->
    shifted d (strategy2_loop ex get fuel qs qslen lastb jmp off slen i st1 save)
              (strategy2_loop ex get fuel qs qslen lastb jmp off slen i st2 save).
  Proof.
    induction fuel as [|fuel IH]; intros i st1 st2 save [A [B C]]; [exact I|]. cbn [strategy2_loop].
    destruct (i + qslen <=? slen).
    - destruct ((lastb =? get (off + i + (qslen - 1))) && slice_eq get (off + i) qs); [|apply IH; repeat split; assumption].
      unfold chk_add. destruct (m_hits st1 + 1 <? W32) eqn:E1; cbn [bind]; [|exact I].
      assert (E2 : (m_hits st2 + 1 <? W32) = true) by lia. rewrite E2. cbn [bind].
      cbn [with_hits m_start]. rewrite A.
      destruct (m_start st1 + i mod W32 <? W32); cbn [bind]; [|exact I].
      destruct (ex (m_start st1 + i mod W32) save) as [[ok s']| |]; cbn [bind]; try exact I.
      assert (Hr : rel d (with_hits st1 (m_hits st1 + 1)) (with_hits st2 (m_hits st2 + 1))) by (repeat split; cbn [with_hits m_start m_end m_hits]; lia).
      destruct ok.
      + destruct (m_start st1 + i mod W32 + jmp (get (off + i + (qslen - 1))) <? W32); cbn [bind]; [|exact I].
        eexists. split; [reflexivity|]. apply rel_with_start. exact Hr.
      + apply IH. exact Hr.
    - rewrite A. unfold chk_add. destruct (m_start st1 + slen mod W32 <? W32); cbn [bind]; [|exact I].
      eexists. split; [reflexivity|]. apply rel_with_start. repeat split; assumption.
  Qed.

  Lemma strategy_shift qs off slen st1 st2 save : rel d st1 st2 ->
    shifted d (strategy ex get qs off slen st1 save) (strategy ex get qs off slen st2 save).
  Proof.
    intros Hr. unfold strategy. destruct (lenN qs =? 0).
    - unfold strategy0. destruct Hr as [A [B C]]. rewrite A. unfold chk_add.
      destruct (m_start st1 + slen mod W32 <? W32); cbn [bind]; [|exact I]. apply strategy0_loop_shift. repeat split; assumption.
    - destruct (lenN qs <? 4).
      + unfold strategy1. destruct qs; [exact I|]. apply strategy1_loop_shift. exact Hr.
      + unfold strategy2. destruct (chk_sub (lenN qs) 1); cbn [bind]; try exact I. apply strategy2_loop_shift. exact Hr.
  Qed.

  Lemma next_section_shift qs base sl st1 st2 save : rel d st1 st2 ->
    shifted d (next_section ex get qs base sl st1 save) (next_section ex get qs base sl st2 save).
  Proof.
    intros [A [B C]]. unfold next_section. cbn [with_start m_start m_end]. rewrite A, B.
    destruct (chk_sub (N.max base (m_start st1)) base); cbn [bind]; try exact I.
    destruct (chk_sub (m_end st1) base); cbn [bind]; try exact I.
    destruct (N.min (r_len sl) a0 <=? a).
    - eexists. split; [reflexivity|]. repeat split; cbn [with_start m_start m_end m_hits]; assumption.
    - apply strategy_shift. repeat split; cbn [with_start m_start m_end m_hits]; assumption.
  Qed.

  Lemma next_file_shift len qs : forall secs st1 st2 save, rel d st1 st2 ->
    shifted d (next_file (next_section ex get) len qs secs st1 save) (next_file (next_section ex get) len qs secs st2 save).
  Proof.
    induction secs as [|s rest IH]; intros st1 st2 save Hr; cbn [next_file].
    - exists st2. split; [reflexivity|exact Hr].
    - destruct Hr as [A [B C]]. rewrite A, B.
      destruct ((s_va s <? m_end st1) && (m_start st1 <? wadd32 (s_va s) (s_vs s))); [|apply IH; repeat split; assumption].
      destruct (get_range len (s_prd s) (wadd32 (s_prd s) (s_srd s))) as [sl|]; [|apply IH; repeat split; assumption].
      pose proof (next_section_shift qs (s_va s) sl st1 st2 save ltac:(repeat split; assumption)) as Hs.
      destruct (next_section ex get qs (s_va s) sl st1 save) as [[[ok st1'] sv]| |]; cbn [bind]; try exact I.
      destruct Hs as [st2' [-> Hr']]. cbn [bind]. destruct ok.
      + exists st2'. split; [reflexivity|exact Hr'].
      + apply IH. exact Hr'.
  Qed.
End Shift.

Lemma next_shift v pat d st1 st2 save : rel d st1 st2 -> shifted d (next v pat st1 save) (next v pat st2 save).
Proof.
  intros Hr. unfold next, next_with. destruct (v_file v); [apply next_file_shift|apply next_section_shift]; exact Hr.
Qed.

(* one call of Matches::next: the number of exec invocations (the increase of `hits`) is at most the distance
   range.start advances, which is at most what is left of the range *)
Theorem next_candidates_bounded v pat : view_ok v -> v_len v < W32 ->
  forall st save, m_end st < W32 -> m_hits st <= m_start st ->
  exists ok st' save', next v pat st save = Ok (ok, st', save') /\
    m_hits st <= m_hits st' /\
    m_hits st' - m_hits st <= m_start st' - m_start st /\ m_start st <= m_start st' /\
    m_start st' <= N.max (m_start st) (m_end st).
Proof.
  intros Hok Hl st save He Hh.
  set (stc := with_hits st (m_start st)).
  destruct (next_total_sound v pat Hok Hl stc save He ltac:(cbn; lia)) as [ok [stc' [sv (Hr & A & B & C & D & _)]]].
  pose proof (next_shift v pat (m_start st - m_hits st) stc st save) as Hs.
  assert (Hrel : rel (m_start st - m_hits st) stc st) by (repeat split; cbn [stc with_hits m_start m_end m_hits]; lia).
  specialize (Hs Hrel). rewrite Hr in Hs. destruct Hs as [st' [E [R1 [R2 R3]]]].
  exists ok, st', sv. split; [exact E|]. cbn [stc with_hits m_start m_end m_hits] in *.
  (* the counter never decreases: compare with the run started at hits = 0 ... not needed: hits' = hits_c' - delta and hits_c' >= ... *)
  assert (Hmono : m_hits st <= m_hits st').
  { set (st0 := with_hits st 0).
    pose proof (next_shift v pat (m_hits st) st st0 save ltac:(repeat split; cbn [st0 with_hits m_start m_end m_hits]; lia)) as H0.
    rewrite E in H0. destruct H0 as [st0' [_ [_ [_ H0]]]]. lia. }
  split; [exact Hmono|]. split; [lia|]. split; [lia|]. lia.
Qed.

(* the whole iteration started by matches(range): after ANY number of calls the total number of exec invocations
   is at most the distance range.start has moved, hence at most the length of the range *)
Lemma last_cons {A} : forall (t : list A) a d, last (a :: t) d = last t a.
Proof. induction t as [|b t IH]; intros a d; [reflexivity|]. change (last (a :: b :: t) d) with (last (b :: t) d). rewrite !IH. reflexivity. Qed.
Definition final_state (l : list sres) (st : mstate) : mstate := snd (fst (last l (false, st, []))).

Theorem iterate_candidates_bounded v pat : view_ok v -> v_len v < W32 ->
  forall n st save l, m_end st < W32 -> m_hits st <= m_start st -> iterate n v pat st save = Ok l ->
    let st' := final_state l st in
    m_hits st <= m_hits st' /\ m_hits st' - m_hits st <= m_start st' - m_start st /\
    m_start st <= m_start st' /\ m_start st' <= N.max (m_start st) (m_end st).
Proof.
  intros Hok Hl. induction n as [|n IH]; intros st save l He Hh H; cbn [iterate] in H; cbv zeta.
  - injection H as <-. unfold final_state. cbn [last fst snd]. repeat split; lia.
  - destruct (next_candidates_bounded v pat Hok Hl st save He Hh) as [ok1 [st1 [sv1 (E & M & A & B & C)]]].
    destruct (next_total_sound v pat Hok Hl st save He Hh) as [ok2 [st2 [sv2 (E2 & He2 & Hh2 & _)]]].
    rewrite E in E2. injection E2 as <- <- <-.
    rewrite E in H. cbn [bind] in H. destruct ok1.
    + destruct (iterate n v pat st1 sv1) as [t| |] eqn:Et; cbn [bind] in H; try discriminate. injection H as <-.
      unfold final_state. rewrite last_cons.
      assert (Hf : snd (fst (last t (true, st1, sv1))) = final_state t st1).
      { unfold final_state. destruct t as [|x t']; [reflexivity|]. rewrite !last_cons. reflexivity. }
      rewrite Hf. specialize (IH st1 sv1 t ltac:(lia) Hh2 Et). cbv zeta in IH. destruct IH as [P [Q [R S]]].
      repeat split; lia.
    + injection H as <-. unfold final_state. cbn [last fst snd]. repeat split; lia.
Qed.
