(* Proofs about the independent reader of the documented pattern syntax (Spec/PatRead.v):
   the witnesses of F42 / F43 (the parser as it stood accepted strings that are not in the grammar),
   [wfb] decides [wf], relational forms of the lexer and of the recogniser, and
   (a) the reader inverts the printer: read_pat (show a) = Some a. *)
From PV.Model Require Import Machine Pattern Exec.
From PV.Spec Require Import PatSyntax PatSem PatRead.
From PV.Proofs Require Import BaseProofs PatSyntaxProofs PatSemProofs.
Ltac Zify.zify_post_hook ::= Z.div_mod_to_equations.

(* ================================================================ F42 / F43: the parser as it stood *)
(* "(01|%){02}03": accepted before the repair, not in the grammar, and the compiled pattern matches 01 00 02 99 - the byte
   behind the '}' is never compared.  "%{{01}}02": the jump was rewritten twice.  Both are StackInvalid now. *)
Lemma F42_brace_after_group_orig_refuted :
  let s := [40; 48; 49; 124; 37; 41; 123; 48; 50; 125; 48; 51] in                 (* (01|%){02}03 *)
  let p := [Save 0; Case 2; Byte 1; Break 2; Nop; Push 1; Jump1; Byte 2; Pop; Byte 3] in
  parse_orig42 s = Ok (inr p) /\ read_pat s = None /\
  run_exec (list_scan [0x01; 0x00; 0x02; 0x99] 0x1000) p 0x1000 [0] = Ok (true, [0x1000]) /\
  parse s = Ok (inl (StackInvalid, 6%nat)) /\
  let s2 := [37; 123; 123; 48; 49; 125; 125; 48; 50] in                           (* %{{01}}02 *)
  parse_orig42 s2 = Ok (inr [Save 0; Push 1; Push 1; Jump1; Byte 1; Pop; Pop; Byte 2]) /\ read_pat s2 = None /\
  parse s2 = Ok (inl (StackInvalid, 2%nat)).
Proof. vm_compute. repeat split; reflexivity. Qed.

(* "%{(01}%{|02)}03": the '}' inside the group closed the brace opened before the '(' *)
Lemma F43_brace_closed_across_group_orig_refuted :
  let s := [37; 123; 40; 48; 49; 125; 37; 123; 124; 48; 50; 41; 125; 48; 51] in
  parse_orig42 s = Ok (inr [Save 0; Push 1; Jump1; Case 5; Byte 1; Pop; Push 1; Jump1; Break 2; Nop; Byte 2; Pop; Byte 3]) /\
  read_pat s = None /\ parse s = Ok (inl (StackError, 5%nat)).
Proof. vm_compute. repeat split; reflexivity. Qed.

(* the repaired parser still accepts what the grammar contains: whitespace and items that denote nothing between a jump
   and its brace (reading decision R1), braces in alternatives, empty alternatives, nested braces *)
Lemma accepted_nonvacuous :
  Forall (fun s => exists a p, read_pat s = Some a /\ wfb a = true /\ parse s = Ok (inr p) /\ p = compile a)
    [ [42; 34; 34; 9; 91; 48; 48; 93; 10; 123; 34; 104; 105; 34; 48; 48; 125; 40; 41; 40; 124; 41; 64; 122; 105; 49; 117; 52; 122; 39];
      [40; 37; 123; 48; 49; 125; 124; 63; 41; 48; 50];
      [36; 123; 37; 123; 36; 123; 37; 123; 125; 125; 125; 125];
      [40; 48; 49; 124; 37; 32; 123; 48; 50; 125; 41; 48; 51] ].
Proof. repeat (constructor; [eexists; eexists; vm_compute; repeat split; reflexivity|]). constructor. Qed.

(* ================================================================ [wfb] decides [wf] *)
Lemma alt_okb_spec ls : alt_okb ls = true <-> alt_ok ls.
Proof.
  induction ls as [|l t IH]; cbn [alt_okb alt_ok]; [tauto|]. destruct t as [|l' t']; [tauto|].
  rewrite !andb_true_iff, IH, !Nat.ltb_lt. tauto.
Qed.

Lemma wfb_item_spec : forall it c, wfb_item it c = true <-> wf_item it c.
Proof.
  fix IH 1. intros it c. destruct it; cbn [wfb_item wf_item]; try lia; try tauto.
  - (* IStr *) rewrite forallb_forall, Forall_forall. split; intros H x Hx; specialize (H x Hx); lia.
  - (* ISub *)
    generalize (emit c [Push (jpush j); jatom j]). induction sub as [|x t IHt]; intros c0; [tauto|].
    rewrite andb_true_iff, IH, IHt. tauto.
  - (* IAlt *)
    assert (Hgo : forall l c0,
      (fix go (l : list item) (c : cst) : bool := match l with [] => true | x :: t => wfb_item x c && go t (comp_item x c) end) l c0 = true <->
      (fix go (l : list item) (c : cst) : Prop := match l with [] => True | x :: t => wf_item x c /\ go t (comp_item x c) end) l c0).
    { induction l as [|x t IHt]; intros c0; [tauto|]. rewrite andb_true_iff, IH, IHt. tauto. }
    rewrite !andb_true_iff, Hgo, alt_okb_spec.
    assert (Hgos : forall ls,
      (fix gos (ls : list (list item)) : bool := match ls with [] => true | alt :: t =>
         (fix go (l : list item) (c : cst) : bool := match l with [] => true | x :: t => wfb_item x c && go t (comp_item x c) end) alt {| c_res := []; c_save := c_save c; c_closed := false |} && gos t end) ls = true <->
      (fix gos (ls : list (list item)) : Prop := match ls with [] => True | alt :: t =>
         (fix go (l : list item) (c : cst) : Prop := match l with [] => True | x :: t => wf_item x c /\ go t (comp_item x c) end) alt {| c_res := []; c_save := c_save c; c_closed := false |} /\ gos t end) ls).
    { induction ls as [|alt t IHt]; [tauto|]. rewrite andb_true_iff, Hgo, IHt. tauto. }
    rewrite Hgos. tauto.
Qed.

Lemma wfb_seq_spec l : forall c, wfb_seq l c = true <-> wf_seq l c.
Proof. induction l as [|x t IH]; intros c; cbn [wfb_seq wf_seq]; [tauto|]. rewrite andb_true_iff, wfb_item_spec, IH. tauto. Qed.
Theorem wfb_spec a : wfb a = true <-> wf a.
Proof. apply wfb_seq_spec. Qed.

Lemma atom_eqb_spec x y : atom_eqb x y = true <-> x = y.
Proof.
  destruct x, y; cbn [atom_eqb]; try (split; [discriminate|intros H; discriminate H]); try tauto;
  (rewrite N.eqb_eq; split; [intros ->; reflexivity|intros H; injection H as ->; reflexivity]).
Qed.
Lemma atoms_eqb_spec l : forall m, atoms_eqb l m = true <-> l = m.
Proof.
  induction l as [|x l IH]; intros [|y m]; cbn [atoms_eqb]; try (split; [discriminate|intros H; discriminate H]); [tauto|].
  rewrite andb_true_iff, atom_eqb_spec, IH. split; [intros [-> ->]; reflexivity|intros H; injection H as -> ->; split; reflexivity].
Qed.
(* what the oracle of the correspondence check says when it answers true *)
Theorem accepted_ok_spec s atoms : accepted_ok s atoms = true <-> exists a, read_pat s = Some a /\ wf a /\ compile a = atoms.
Proof.
  unfold accepted_ok. destruct (read_pat s) as [a|].
  - rewrite andb_true_iff, wfb_spec, atoms_eqb_spec. split.
    + intros [H1 H2]. exists a. split; [reflexivity|split; assumption].
    + intros [a' [E [H1 H2]]]. injection E as <-. split; assumption.
  - split; [discriminate|]. intros [a' [E _]]. discriminate E.
Qed.

(* ================================================================ the lexer, relationally *)
Inductive lexes : list N -> list tok -> Prop :=
| lexes_nil s : skip_ws s = [] -> lexes s []
| lexes_cons s c t tk r ts : skip_ws s = c :: t -> lex1 (c :: t) = Some (tk, r) -> lexes r ts -> lexes s (tk :: ts).

Lemma skip_ws_length s : (length (skip_ws s) <= length s)%nat.
Proof. induction s as [|c t IH]; cbn [skip_ws length]; [lia|]. destruct (is_ws c); cbn [length]; lia. Qed.
Lemma dec_run_length s : forall acc, (length (snd (dec_run s acc)) <= length s)%nat.
Proof.
  induction s as [|c t IH]; intros acc; cbn [dec_run snd length]; [lia|].
  destruct (dig c); [specialize (IH (acc * 10 + n)); lia|cbn [snd length]; lia].
Qed.
Lemma read_dec_length s v r : read_dec s = Some (v, r) -> (length r <= length s)%nat.
Proof.
  unfold read_dec. destruct s as [|c t]; [discriminate|]. destruct (dig c) eqn:Ed; [|discriminate].
  intros H. assert (H' : dec_run (c :: t) 0 = (v, r)) by congruence.
  pose proof (dec_run_length (c :: t) 0) as L. rewrite H' in L. exact L.
Qed.
Lemma read_str_length s : forall b r, read_str s = Some (b, r) -> (length r < length s)%nat.
Proof.
  induction s as [|c t IH]; intros b r H; cbn [read_str] in H; [discriminate|].
  destruct (c =? 34); [injection H as _ <-; cbn [length]; lia|].
  destruct (read_str t) as [[b' r']|] eqn:E; [|discriminate]. injection H as _ <-. specialize (IH _ _ eq_refl). cbn [length]. lia.
Qed.
Lemma qrun_length s : (length (snd (qrun s)) <= length s)%nat.
Proof.
  induction s as [|c t IH]; cbn [qrun snd length]; [lia|]. destruct (c =? 63); [|cbn [snd length]; lia].
  destruct (qrun t) as [n r]. cbn [snd] in *. lia.
Qed.

Lemma lex1_length s tk r : lex1 s = Some (tk, r) -> (length r < length s)%nat.
Proof.
  unfold lex1. destruct s as [|c t]; [discriminate|]. cbn [length].
  repeat match goal with |- (if ?b then _ else _) = _ -> _ => destruct b; [intros H; injection H as _ <-; lia|] end.
  destruct (c =? 63).
  { pose proof (qrun_length t) as L. destruct (qrun t) as [n r']. intros H. injection H as _ <-. cbn [snd] in L. lia. }
  destruct (c =? 34).
  { destruct (read_str t) as [[b r']|] eqn:E; [|discriminate]. intros H. injection H as _ <-. apply read_str_length in E. lia. }
  destruct (c =? 91).
  { destruct (read_dec t) as [[a [|c1 r1]]|] eqn:E; try discriminate. apply read_dec_length in E. cbn [length] in E.
    destruct (c1 =? 93); [intros H; injection H as _ <-; lia|].
    destruct (c1 =? 45); [|discriminate].
    destruct (read_dec r1) as [[b [|c2 r2]]|] eqn:E2; try discriminate. apply read_dec_length in E2. cbn [length] in E2.
    destruct (c2 =? 93); [intros H; injection H as _ <-; lia|discriminate]. }
  destruct (c =? 64).
  { destruct t as [|k r']; [discriminate|]. destruct (aligndig k); [|discriminate]. intros H. injection H as _ <-. cbn [length]. lia. }
  destruct ((c =? 105) || (c =? 117)).
  { destruct t as [|k r']; [discriminate|]. destruct (read_kind (c =? 105) k); [|discriminate]. intros H. injection H as _ <-. cbn [length]. lia. }
  destruct (hexdig c); [|discriminate]. destruct t as [|c2 r']; [discriminate|]. destruct (hexdig c2); [|discriminate].
  intros H. injection H as _ <-. cbn [length]. lia.
Qed.

Lemma lex_lexes : forall fuel s ts, lex fuel s = Some ts -> lexes s ts.
Proof.
  induction fuel as [|f IH]; intros s ts H; cbn [lex] in H; [discriminate|].
  destruct (skip_ws s) as [|c t] eqn:E; [injection H as <-; apply lexes_nil; exact E|].
  destruct (lex1 (c :: t)) as [[tk r]|] eqn:E1; [|discriminate].
  destruct (lex f r) as [ts'|] eqn:E2; [|discriminate]. injection H as <-.
  eapply lexes_cons; [exact E|exact E1|apply IH; exact E2].
Qed.
Lemma lexes_lex s ts : lexes s ts -> forall fuel, (length s < fuel)%nat -> lex fuel s = Some ts.
Proof.
  induction 1 as [s E|s c t tk r ts E E1 _ IH]; intros fuel Hf; (destruct fuel as [|f]; [lia|]); cbn [lex]; rewrite E; [reflexivity|].
  rewrite E1. pose proof (skip_ws_length s) as L1. rewrite E in L1. apply lex1_length in E1.
  rewrite IH by lia. reflexivity.
Qed.
Lemma lexes_fun s ts : lexes s ts -> forall ts', lexes s ts' -> ts = ts'.
Proof.
  induction 1 as [s E|s c t tk r ts E E1 _ IH]; intros ts' H'; inversion H' as [s' E'|s' c' t' tk' r' ts'' E' E1' H2]; subst; try congruence.
  rewrite E in E'. injection E' as <- <-. rewrite E1 in E1'. injection E1' as <- <-. f_equal. apply IH. exact H2.
Qed.
Lemma lexes_ws c s ts : is_ws c = true -> lexes s ts -> lexes (c :: s) ts.
Proof.
  intros Hc H. inversion H as [s' E|s' c' t tk r ts' E E1 H2]; subst.
  - apply lexes_nil. cbn [skip_ws]. rewrite Hc. exact E.
  - eapply lexes_cons; [cbn [skip_ws]; rewrite Hc; exact E|exact E1|exact H2].
Qed.

(* ================================================================ the recogniser, relationally *)
Definition closer (t : tok) : bool := match t with TRBrace | TPipe | TRParen => true | _ => false end.
Definition stops (ts : list tok) : Prop := match ts with [] => True | t :: _ => closer t = true end.
Definition is_jump (it : item) : bool := match it with IJump _ => true | _ => false end.

Inductive rseq : list tok -> list item -> list tok -> Prop :=
| rs_stop ts : stops ts -> rseq ts [] ts
| rs_item it rest l r : is_jump it = false -> rseq rest l r -> rseq (TItem it :: rest) (it :: l) r
| rs_jump j rest l r : brace_after rest = None -> rseq rest l r -> rseq (TItem (IJump j) :: rest) (IJump j :: l) r
| rs_sub j rest rest1 sub rest2 l r : brace_after rest = Some rest1 -> rseq rest1 sub (TRBrace :: rest2) -> rseq rest2 l r ->
    rseq (TItem (IJump j) :: rest) (ISub j sub :: l) r
| rs_alt rest a more rest1 l r : ralts rest (a :: more) rest1 -> rseq rest1 l r -> rseq (TLParen :: rest) (IAlt a more :: l) r
with ralts : list tok -> list (list item) -> list tok -> Prop :=
| ra_last ts a rest : rseq ts a (TRParen :: rest) -> ralts ts [a] rest
| ra_more ts a rest more r : rseq ts a (TPipe :: rest) -> ralts rest more r -> ralts ts (a :: more) r.
Scheme rseq_mind := Induction for rseq Sort Prop
  with ralts_mind := Induction for ralts Sort Prop.
Combined Scheme rseq_ralts_ind from rseq_mind, ralts_mind.

Lemma brace_after_length ts : forall r, brace_after ts = Some r -> (length r < length ts)%nat.
Proof.
  induction ts as [|t ts IH]; intros r H; cbn [brace_after] in H; [discriminate|].
  destruct t; try (injection H as <-; cbn [length]; lia); try discriminate.
  destruct (null_tok (TItem it)); [|discriminate]. specialize (IH _ H). cbn [length]. lia.
Qed.

(* the functions are sound for the relations *)
Lemma rd_sound : forall f,
  (forall ts l r, rd_seq f ts = Some (l, r) -> rseq ts l r) /\
  (forall ts alts r, rd_alts f ts = Some (alts, r) -> ralts ts alts r).
Proof.
  induction f as [|f [IHs IHa]]; [split; intros; discriminate|]. split.
  - intros ts l r H. cbn [rd_seq] in H. destruct ts as [|t rest]; [injection H as <- <-; apply rs_stop; exact I|].
    destruct t.
    + (* an item token *)
      assert (Hgen : is_jump it = false ->
        match rd_seq f rest with Some (l0, r0) => Some (it :: l0, r0) | None => None end = Some (l, r) -> rseq (TItem it :: rest) l r).
      { intros Hj H1. destruct (rd_seq f rest) as [[l0 r0]|] eqn:E; [|discriminate]. injection H1 as <- <-.
        apply rs_item; [exact Hj|apply IHs; exact E]. }
      destruct it; try (apply Hgen; [reflexivity|exact H]).
      destruct (brace_after rest) as [rest1|] eqn:Eb.
      * destruct (rd_seq f rest1) as [[sub [|t2 rest2]]|] eqn:E1; try discriminate.
        destruct t2; try discriminate.
        destruct (rd_seq f rest2) as [[l0 r0]|] eqn:E2; [|discriminate]. injection H as <- <-.
        eapply rs_sub; [exact Eb|apply IHs; exact E1|apply IHs; exact E2].
      * destruct (rd_seq f rest) as [[l0 r0]|] eqn:E; [|discriminate]. injection H as <- <-.
        apply rs_jump; [exact Eb|apply IHs; exact E].
    + discriminate.
    + injection H as <- <-. apply rs_stop. reflexivity.
    + destruct (rd_alts f rest) as [[[|a more] rest1]|] eqn:E; try discriminate.
      destruct (rd_seq f rest1) as [[l0 r0]|] eqn:E2; [|discriminate]. injection H as <- <-.
      eapply rs_alt; [apply IHa; exact E|apply IHs; exact E2].
    + injection H as <- <-. apply rs_stop. reflexivity.
    + injection H as <- <-. apply rs_stop. reflexivity.
  - intros ts alts r H. cbn [rd_alts] in H.
    destruct (rd_seq f ts) as [[a [|t rest]]|] eqn:E; try discriminate.
    destruct t; try discriminate.
    + destruct (rd_alts f rest) as [[more r0]|] eqn:E2; [|discriminate]. injection H as <- <-.
      eapply ra_more; [apply IHs; exact E|apply IHa; exact E2].
    + injection H as <- <-. apply ra_last. apply IHs. exact E.
Qed.

(* ... and complete, with the fuel [read_toks] gives them *)
Lemma rd_complete :
  (forall ts l r, rseq ts l r -> (length r <= length ts)%nat /\ forall f, (2 * length ts + 1 <= f)%nat -> rd_seq f ts = Some (l, r)) /\
  (forall ts alts r, ralts ts alts r -> (length r < length ts)%nat /\ forall f, (2 * length ts + 2 <= f)%nat -> rd_alts f ts = Some (alts, r)).
Proof.
  apply rseq_ralts_ind.
  - intros ts Hs. split; [lia|]. intros f Hf. destruct f as [|f]; [lia|]. cbn [rd_seq].
    destruct ts as [|t rest]; [reflexivity|]. cbn [stops] in Hs. destruct t; try discriminate; reflexivity.
  - intros it rest l r Hj _ [IL IH]. cbn [length]. split; [lia|]. intros f Hf. destruct f as [|f]; [lia|]. cbn [rd_seq].
    rewrite IH by lia. destruct it; try reflexivity. discriminate.
  - intros j rest l r Hb _ [IL IH]. cbn [length]. split; [lia|]. intros f Hf. destruct f as [|f]; [lia|]. cbn [rd_seq].
    rewrite Hb, IH by lia. reflexivity.
  - intros j rest rest1 sub rest2 l r Hb _ [IL1 IH1] _ [IL2 IH2]. pose proof (brace_after_length _ _ Hb) as Lb.
    cbn [length] in *. split; [lia|]. intros f Hf. destruct f as [|f]; [lia|]. cbn [rd_seq].
    rewrite Hb, IH1 by lia. rewrite IH2 by lia. reflexivity.
  - intros rest a more rest1 l r _ [IL1 IH1] _ [IL2 IH2]. cbn [length]. split; [lia|]. intros f Hf. destruct f as [|f]; [lia|]. cbn [rd_seq].
    rewrite IH1 by lia. rewrite IH2 by lia. reflexivity.
  - intros ts a rest _ [IL IH]. cbn [length] in IL. split; [lia|]. intros f Hf. destruct f as [|f]; [lia|]. cbn [rd_alts].
    rewrite IH by lia. reflexivity.
  - intros ts a rest more r _ [IL1 IH1] _ [IL2 IH2]. cbn [length] in IL1. split; [lia|]. intros f Hf. destruct f as [|f]; [lia|]. cbn [rd_alts].
    rewrite IH1 by lia. rewrite IH2 by lia. reflexivity.
Qed.

Lemma read_toks_rseq ts a : read_toks ts = Some a <-> rseq ts a [].
Proof.
  unfold read_toks. split.
  - destruct (rd_seq (2 * length ts + 2) ts) as [[l [|t r]]|] eqn:E; try discriminate. intros H. injection H as <-.
    exact (proj1 (rd_sound _) _ _ _ E).
  - intros H. destruct (proj1 rd_complete _ _ _ H) as [_ Hc]. rewrite Hc by lia. reflexivity.
Qed.
Lemma read_pat_spec s a : read_pat s = Some a <-> exists ts, lexes s ts /\ rseq ts a [].
Proof.
  unfold read_pat. split.
  - destruct (lex (S (length s)) s) as [ts|] eqn:E; [|discriminate]. intros H. exists ts. split; [exact (lex_lexes _ _ _ E)|apply read_toks_rseq; exact H].
  - intros [ts [H1 H2]]. rewrite (lexes_lex _ _ H1) by lia. apply read_toks_rseq. exact H2.
Qed.

(* ================================================================ (a) the reader inverts the printer *)
Fixpoint toks_item (it : item) : list tok :=
  match it with
  | ISub j sub => TItem (IJump j) :: TLBrace :: flat_map toks_item sub ++ [TRBrace]
  | IAlt a more => TLParen :: flat_map toks_item a ++ flat_map (fun alt => TPipe :: flat_map toks_item alt) more ++ [TRParen]
  | _ => [TItem it]
  end.
Definition toks_seq (l : list item) : list tok := flat_map toks_item l.

(* ---- the lexer on the canonical spelling of one token *)
Definition sep (r : list N) : Prop := match r with [] => True | c :: _ => c = 32 end.

Lemma hexdig_hexc h : h < 16 -> hexdig (hexc h) = Some h.
Proof. intros H. apply lt16 in H. cbn [In] in H. repeat (destruct H as [<-|H]; [reflexivity|]). contradiction. Qed.
Lemma lex1_byte b r : b < 256 -> lex1 (hexc (b / 16) :: hexc (b mod 16) :: r) = Some (TItem (IByte b), r).
Proof.
  intros H. assert (Hh : b / 16 < 16) by lia. assert (Hl : b mod 16 < 16) by lia.
  replace (IByte b) with (IByte (16 * (b / 16) + b mod 16)) by (f_equal; lia).
  generalize (b mod 16) Hl. intros lo Hlo. generalize (b / 16) Hh. intros hi Hhi.
  pose proof (hexdig_hexc lo Hlo) as El.
  apply lt16 in Hhi. cbn [In] in Hhi.
  repeat (destruct Hhi as [<-|Hhi]; [cbn; rewrite El; reflexivity|]). contradiction.
Qed.
Lemma read_str_app s : forall r, Forall (fun ch => ch < 256 /\ ch <> 34) s -> read_str (s ++ 34 :: r) = Some (s, r).
Proof.
  induction s as [|c s IH]; intros r H; cbn [app read_str]; [reflexivity|].
  inversion H as [|? ? [_ Hc] Hs]; subst. destruct (c =? 34) eqn:E; [lia|]. rewrite IH by exact Hs. reflexivity.
Qed.
Lemma qrun_repeat n : forall r, match r with c :: _ => c <> 63 | [] => True end -> qrun (repeat 63 n ++ r) = (n, r).
Proof.
  induction n as [|n IH]; intros r H; cbn [repeat app].
  - destruct r as [|c r']; [reflexivity|]. cbn [qrun]. destruct (c =? 63) eqn:E; [lia|reflexivity].
  - cbn [qrun]. rewrite IH by exact H. reflexivity.
Qed.
Lemma dec_run_digits ds : forall acc t r, Forall (fun d => d < 10) ds -> dig t = None ->
  dec_run (map digc ds ++ t :: r) acc = (dval acc ds, t :: r).
Proof.
  induction ds as [|d ds IH]; intros acc t r Hd Ht; cbn [map app dec_run dval fold_left].
  - rewrite Ht. reflexivity.
  - inversion Hd as [|? ? H1 H2]; subst. assert (E : dig (digc d) = Some d) by (unfold dig, digc; replace (48 + d - 48) with d by lia; destruct ((48 <=? 48 + d) && (48 + d <=? 57)) eqn:E; [reflexivity|lia]).
    rewrite E. apply IH; assumption.
Qed.
Lemma read_dec_show n t r : n < 100000 -> dig t = None -> read_dec (show_dec n ++ t :: r) = Some (n, t :: r).
Proof.
  intros H Ht. destruct (digits_spec n H) as [Hd [Hv Hn]]. unfold show_dec, read_dec.
  destruct (digits n) as [|d ds] eqn:E; [contradiction|]. cbn [map app].
  pose proof (Forall_inv Hd) as H1. cbv beta in H1.
  assert (E1 : dig (digc d) = Some d) by (unfold dig, digc; replace (48 + d - 48) with d by lia; destruct ((48 <=? 48 + d) && (48 + d <=? 57)) eqn:E'; [reflexivity|lia]).
  rewrite E1. change (digc d :: map digc ds ++ t :: r) with (map digc (d :: ds) ++ t :: r).
  rewrite dec_run_digits; [rewrite Hv; reflexivity|exact Hd|exact Ht].
Qed.
Lemma aligndig_alignc k : k < 36 -> aligndig (alignc k) = Some k.
Proof. intros H. apply lt36 in H. cbn [In] in H. repeat (destruct H as [<-|H]; [reflexivity|]). contradiction. Qed.

(* one-token items: the lexer finds the item in its canonical spelling, whatever follows (a separator behind a wildcard run) *)
Definition one_tok (it : item) : bool := match it with ISub _ _ | IAlt _ _ => false | _ => true end.
Lemma lex1_show_item it c r : one_tok it = true -> wf_item it c -> no_empty_wild_item it = true -> sep r ->
  exists ch t, show_item it ++ r = ch :: t /\ is_ws ch = false /\ lex1 (ch :: t) = Some (TItem it, r).
Proof.
  intros H1 Hw Hn Hs. destruct it; try discriminate; cbn [show_item wf_item no_empty_wild_item] in *.
  - (* byte *) eexists _, _. split; [reflexivity|]. split; [|apply lex1_byte; exact Hw].
    assert (Hh : b / 16 < 16) by lia. apply lt16 in Hh. cbn [In] in Hh. repeat (destruct Hh as [<-|Hh]; [reflexivity|]). contradiction.
  - (* string *) exists 34, ((s ++ [34]) ++ r). split; [reflexivity|]. split; [reflexivity|]. rewrite <- app_assoc. cbn [app].
    change (lex1 (34 :: s ++ 34 :: r)) with (match read_str (s ++ 34 :: r) with Some (b, r0) => Some (TItem (IStr b), r0) | None => None end).
    rewrite read_str_app by exact Hw. reflexivity.
  - (* wildcard run *) destruct n as [|n]; [discriminate|]. cbn [repeat app]. exists 63, (repeat 63 n ++ r). split; [reflexivity|]. split; [reflexivity|].
    change (lex1 (63 :: repeat 63 n ++ r)) with (let (n0, r0) := qrun (repeat 63 n ++ r) in Some (TItem (IWild (S n0)), r0)).
    rewrite qrun_repeat; [reflexivity|]. destruct r as [|c0 r']; [exact I|]. cbn [sep] in Hs. lia.
  - (* [n] *) exists 91, ((show_dec n ++ [93]) ++ r). split; [reflexivity|]. split; [reflexivity|]. rewrite <- app_assoc. cbn [app].
    change (lex1 (91 :: show_dec n ++ 93 :: r)) with
      (match read_dec (show_dec n ++ 93 :: r) with
       | Some (a, c1 :: r0) =>
         if c1 =? 93 then Some (TItem (ISkip a), r0)
         else if c1 =? 45 then match read_dec r0 with Some (b, c2 :: r') => if c2 =? 93 then Some (TItem (IRange a b), r') else None | _ => None end
         else None
       | _ => None end).
    rewrite read_dec_show by (try lia; reflexivity). reflexivity.
  - (* [a-b] *) destruct Hw as [Hw1 Hw2]. exists 91, ((show_dec a ++ 45 :: show_dec b ++ [93]) ++ r). split; [reflexivity|]. split; [reflexivity|].
    replace ((show_dec a ++ 45 :: show_dec b ++ [93]) ++ r) with (show_dec a ++ 45 :: show_dec b ++ 93 :: r) by (rewrite <- !app_assoc; cbn [app]; rewrite <- app_assoc; reflexivity).
    change (lex1 (91 :: show_dec a ++ 45 :: show_dec b ++ 93 :: r)) with
      (match read_dec (show_dec a ++ 45 :: show_dec b ++ 93 :: r) with
       | Some (a0, c1 :: r0) =>
         if c1 =? 93 then Some (TItem (ISkip a0), r0)
         else if c1 =? 45 then match read_dec r0 with Some (b0, c2 :: r') => if c2 =? 93 then Some (TItem (IRange a0 b0), r') else None | _ => None end
         else None
       | _ => None end).
    rewrite read_dec_show by (try lia; reflexivity). change (45 =? 93) with false. change (45 =? 45) with true. cbv iota.
    rewrite read_dec_show by (try lia; reflexivity). reflexivity.
  - eexists _, _. split; [reflexivity|]. split; reflexivity.
  - destruct r0; eexists _, _; (split; [reflexivity|]); split; reflexivity.
  - eexists _, _. split; [reflexivity|]. split; reflexivity.
  - (* @k *) exists 64, (alignc k :: r). split; [reflexivity|]. split; [reflexivity|].
    change (lex1 (64 :: alignc k :: r)) with (match aligndig (alignc k) with Some v => Some (TItem (IAlign v), r) | None => None end).
    rewrite aligndig_alignc by exact Hw. reflexivity.
  - destruct j; eexists _, _; (split; [reflexivity|]); split; reflexivity.
Qed.

Lemma lexes_tok ch t tk r ts : is_ws ch = false -> lex1 (ch :: t) = Some (tk, r) -> lexes r ts -> lexes (ch :: t) (tk :: ts).
Proof. intros Hc H1 H2. eapply lexes_cons; [cbn [skip_ws]; rewrite Hc; reflexivity|exact H1|exact H2]. Qed.

(* ---- every item, by nested induction: the canonical spelling lexes to the tokens of the item *)
Definition lex_ok (it : item) : Prop :=
  forall c, wf_item it c -> no_empty_wild_item it = true -> forall r ts, lexes r ts -> sep r -> lexes (show_item it ++ r) (toks_item it ++ ts).

Lemma lexes_show_seq l : Forall lex_ok l -> forall c, wf_seq l c -> forallb no_empty_wild_item l = true ->
  forall r ts, lexes r ts -> lexes (show_seq l ++ r) (toks_seq l ++ ts).
Proof.
  induction l as [|x t IH]; intros HF c Hw Hn r ts Hr; [exact Hr|].
  inversion HF as [|? ? Hx Ht]; subst. cbn [wf_seq] in Hw. destruct Hw as [Wx Wt]. cbn [forallb] in Hn. apply andb_prop in Hn. destruct Hn as [Nx Nt].
  change (show_seq (x :: t)) with ((show_item x ++ [32]) ++ show_seq t). change (toks_seq (x :: t)) with (toks_item x ++ toks_seq t).
  rewrite <- !app_assoc. cbn [app]. apply (Hx c Wx Nx); [|reflexivity].
  apply lexes_ws; [reflexivity|]. exact (IH Ht _ Wt Nt r ts Hr).
Qed.

Lemma lex_ok_all : forall it, lex_ok it.
Proof.
  fix IH 1. intros it c Hw Hn r ts Hr Hs.
  destruct (one_tok it) eqn:E1.
  - destruct (lex1_show_item it c r E1 Hw Hn Hs) as [ch [t [E [Hc Hl]]]]. rewrite E.
    replace (toks_item it) with [TItem it] by (destruct it; try reflexivity; discriminate). cbn [app].
    exact (lexes_tok _ _ _ _ _ Hc Hl Hr).
  - destruct it; try discriminate; cbn [show_item toks_item wf_item no_empty_wild_item] in *.
    + (* j { sub } *)
      assert (HF : Forall lex_ok sub). { clear - IH. induction sub as [|x t IHt]; [constructor|constructor; [apply IH|exact IHt]]. }
      change (flat_map (fun x => show_item x ++ [32]) sub) with (show_seq sub). change (flat_map toks_item sub) with (toks_seq sub).
      cbn [app]. eapply (lexes_tok (jchar j) _ (TItem (IJump j))); [destruct j; reflexivity|destruct j; reflexivity|].
      apply lexes_ws; [reflexivity|]. eapply (lexes_tok 123 _ TLBrace); [reflexivity|reflexivity|]. apply lexes_ws; [reflexivity|].
      rewrite <- !app_assoc. cbn [app]. apply (lexes_show_seq sub HF _ Hw Hn).
      eapply (lexes_tok 125 _ TRBrace); [reflexivity|reflexivity|exact Hr].
    + (* ( a | more ) *)
      assert (HFa : Forall lex_ok a). { clear - IH. induction a as [|x t IHt]; [constructor|constructor; [apply IH|exact IHt]]. }
      assert (HFm : Forall (Forall lex_ok) more).
      { clear - IH. induction more as [|alt t IHt]; [constructor|constructor; [|exact IHt]].
        induction alt as [|x t' IHt']; [constructor|constructor; [apply IH|exact IHt']]. }
      destruct Hw as [Wa [Wm _]]. apply wf_alts_forall in Wm. apply andb_prop in Hn. destruct Hn as [Na Nm].
      change (flat_map (fun x => show_item x ++ [32]) a) with (show_seq a). change (flat_map toks_item a) with (toks_seq a).
      cbn [app]. eapply (lexes_tok 40 _ TLParen); [reflexivity|reflexivity|]. apply lexes_ws; [reflexivity|].
      rewrite <- !app_assoc. apply (lexes_show_seq a HFa _ Wa Na).
      clear Wa Na HFa E1. revert HFm Wm Nm. induction more as [|alt more IHm]; intros HFm Wm Nm; cbn [flat_map app].
      * eapply (lexes_tok 41 _ TRParen); [reflexivity|reflexivity|exact Hr].
      * inversion HFm as [|? ? F1 F2]; subst. inversion Wm as [|? ? W1 W2]; subst. cbn [forallb] in Nm. apply andb_prop in Nm. destruct Nm as [N1 N2].
        eapply (lexes_tok 124 _ TPipe); [reflexivity|reflexivity|]. apply lexes_ws; [reflexivity|].
        change (flat_map (fun x => show_item x ++ [32]) alt) with (show_seq alt). change (flat_map toks_item alt) with (toks_seq alt).
        rewrite <- !app_assoc. apply (lexes_show_seq alt F1 _ W1 N1). exact (IHm F2 W2 N2).
Qed.

Lemma lexes_show l : forall c, wf_seq l c -> no_empty_wild l = true -> lexes (show l) (toks_seq l).
Proof.
  induction l as [|x t IH]; intros c Hw Hn; [apply lexes_nil; reflexivity|].
  cbn [wf_seq] in Hw. destruct Hw as [Wx Wt]. unfold no_empty_wild in Hn. cbn [forallb] in Hn. apply andb_prop in Hn. destruct Hn as [Nx Nt].
  change (toks_seq (x :: t)) with (toks_item x ++ toks_seq t). cbn [show]. destruct t as [|y t'].
  - cbn [toks_seq flat_map]. rewrite <- (app_nil_r (show_item x)).
    apply (lex_ok_all x c Wx Nx [] []); [apply lexes_nil; reflexivity|exact I].
  - apply (lex_ok_all x c Wx Nx); [|reflexivity]. apply lexes_ws; [reflexivity|]. exact (IH _ Wt Nt).
Qed.

(* ---- the recogniser on the tokens of an AST *)
Definition nb (ts : list tok) : Prop := brace_after ts = None.
Lemma stops_nb ts : stops ts -> nb ts.
Proof. unfold nb. destruct ts as [|t r]; [reflexivity|]. cbn [stops]. destruct t; try discriminate; reflexivity. Qed.
Lemma nb_toks l : forall r, nb r -> nb (toks_seq l ++ r).
Proof.
  induction l as [|x t IH]; intros r H; [exact H|]. change (toks_seq (x :: t)) with (toks_item x ++ toks_seq t). rewrite <- app_assoc.
  specialize (IH r H). unfold nb in *. destruct x; cbn [toks_item app brace_after null_tok]; try reflexivity.
  - destruct s; [exact IH|reflexivity].
  - destruct (n =? 0); [exact IH|reflexivity].
Qed.

Definition rd_ok (it : item) : Prop := forall r l' r', rseq r l' r' -> nb r -> rseq (toks_item it ++ r) (it :: l') r'.
Lemma rseq_toks_seq l : Forall rd_ok l -> forall r l' r', rseq r l' r' -> nb r -> rseq (toks_seq l ++ r) (l ++ l') r'.
Proof.
  induction l as [|x t IH]; intros HF r l' r' Hr Hn; [exact Hr|]. inversion HF as [|? ? Hx Ht]; subst.
  change (toks_seq (x :: t)) with (toks_item x ++ toks_seq t). rewrite <- app_assoc. cbn [app].
  apply Hx; [exact (IH Ht _ _ _ Hr Hn)|apply nb_toks; exact Hn].
Qed.
Lemma rd_ok_all : forall it, rd_ok it.
Proof.
  fix IH 1. intros it r l' r' Hr Hn. destruct it; cbn [toks_item app];
    try (apply rs_item; [reflexivity|exact Hr]).
  - apply rs_jump; [exact Hn|exact Hr].
  - assert (HF : Forall rd_ok sub). { clear - IH. induction sub as [|x t IHt]; [constructor|constructor; [apply IH|exact IHt]]. }
    change (flat_map toks_item sub) with (toks_seq sub). rewrite <- app_assoc. cbn [app].
    eapply rs_sub; [reflexivity| |exact Hr].
    rewrite <- (app_nil_r sub) at 2. apply (rseq_toks_seq sub HF); [apply rs_stop; reflexivity|apply stops_nb; reflexivity].
  - assert (HFa : Forall rd_ok a). { clear - IH. induction a as [|x t IHt]; [constructor|constructor; [apply IH|exact IHt]]. }
    assert (HFm : Forall (Forall rd_ok) more).
    { clear - IH. induction more as [|alt t IHt]; [constructor|constructor; [|exact IHt]].
      induction alt as [|x t' IHt']; [constructor|constructor; [apply IH|exact IHt']]. }
    change (flat_map toks_item a) with (toks_seq a). rewrite <- !app_assoc.
    eapply rs_alt; [|exact Hr]. clear Hr. revert a HFa. induction more as [|alt more IHm]; intros a HFa; cbn [flat_map app].
    + apply ra_last. rewrite <- (app_nil_r a) at 2. apply (rseq_toks_seq a HFa); [apply rs_stop; reflexivity|apply stops_nb; reflexivity].
    + inversion HFm as [|? ? F1 F2]; subst. eapply ra_more.
      * rewrite <- (app_nil_r a) at 2. apply (rseq_toks_seq a HFa); [apply rs_stop; reflexivity|apply stops_nb; reflexivity].
      * change (flat_map toks_item alt) with (toks_seq alt). rewrite <- app_assoc. exact (IHm F2 alt F1).
Qed.

(* (a) for every well-formed AST without an empty wildcard run the reader finds the AST in its canonical spelling *)
Theorem read_show a : wf a -> no_empty_wild a = true -> read_pat (show a) = Some a.
Proof.
  intros Hw Hn. apply read_pat_spec. exists (toks_seq a). split; [exact (lexes_show a cinit Hw Hn)|].
  assert (H : rseq (toks_seq a ++ []) (a ++ []) []).
  { apply rseq_toks_seq; [|apply rs_stop; exact I|reflexivity].
    clear. induction a as [|x t IH]; [constructor|constructor; [apply rd_ok_all|exact IH]]. }
  rewrite !app_nil_r in H. exact H.
Qed.
(* an empty run of question marks prints as nothing: the reader cannot see it *)
Lemma read_show_empty_wild_refuted : wf [IByte 1; IWild 0; IByte 2] /\ read_pat (show [IByte 1; IWild 0; IByte 2]) = Some [IByte 1; IByte 2].
Proof. split; [vm_compute; repeat split; lia|vm_compute; reflexivity]. Qed.
