(* src/pe64/exception.rs UnwindInfo::{version, flags, frame_register, frame_offset}, regenerated into gen/Leaf.v,
   equal the accessors of Model/Dirs.v on the byte of the UNWIND_INFO header they read (C15); the byte positions are
   the field offsets of gen/Layout.v.  The fields are u8: every statement is decided for each of the 256 bytes. *)
From PV.Model Require Import Machine Mapping Views Dirs.
From PV.gen Require Import Leaf Layout.
From PV.Proofs Require Import BaseProofs LeafBase.
Ltac Zify.zify_post_hook ::= Z.div_mod_to_equations.
(* the source may change under these proofs: a step that does not finish fails instead of hanging the build *)
Set Default Timeout 120.

(* the accessors of the model as functions of the byte they read *)
Lemma uw_as_byte : forall g r,
  uw_version g r = N.land (u8at g (r_off r + UNWIND_INFO_VersionFlags_off)) 7 /\
  uw_flags g r = u8at g (r_off r + UNWIND_INFO_VersionFlags_off) / 8 /\
  uw_frame_register g r = N.land (u8at g (r_off r + UNWIND_INFO_FrameRegisterOffset_off)) 15 /\
  uw_frame_offset g r = u8at g (r_off r + UNWIND_INFO_FrameRegisterOffset_off) / 16.
Proof. intros g r. unfold UNWIND_INFO_VersionFlags_off. rewrite N.add_0_r. repeat split; reflexivity. Qed.

Ltac byte_sweep ok f m :=
  let S := fresh "S" in let E := fresh "E" in
  pose proof (sweep256 (fun x => ok x && (f x =? m x))) as S;
  assert (E : forallb (fun x => ok x && (f x =? m x)) bytes256 = true) by (vm_compute; reflexivity);
  specialize (S E).

Lemma uw_version_agrees : forall g r, L_exception_UnwindInfo_version_dom (u8at g (r_off r + UNWIND_INFO_VersionFlags_off)) = true ->
  L_exception_UnwindInfo_version_ok (u8at g (r_off r + UNWIND_INFO_VersionFlags_off)) = true /\
  L_exception_UnwindInfo_version (u8at g (r_off r + UNWIND_INFO_VersionFlags_off)) = uw_version g r.
Proof.
  intros g r H. destruct (uw_as_byte g r) as (-> & _). generalize dependent (u8at g (r_off r + UNWIND_INFO_VersionFlags_off)).
  intros x H. unfold L_exception_UnwindInfo_version_dom in H.
  byte_sweep L_exception_UnwindInfo_version_ok L_exception_UnwindInfo_version (fun x => N.land x 7).
  specialize (S x ltac:(lia)). apply andb_prop in S. destruct S as [S1 S2]. split; [exact S1 | apply N.eqb_eq; exact S2].
Qed.

Lemma uw_flags_agrees : forall g r, L_exception_UnwindInfo_flags_dom (u8at g (r_off r + UNWIND_INFO_VersionFlags_off)) = true ->
  L_exception_UnwindInfo_flags_ok (u8at g (r_off r + UNWIND_INFO_VersionFlags_off)) = true /\
  L_exception_UnwindInfo_flags (u8at g (r_off r + UNWIND_INFO_VersionFlags_off)) = uw_flags g r.
Proof.
  intros g r H. destruct (uw_as_byte g r) as (_ & -> & _). generalize dependent (u8at g (r_off r + UNWIND_INFO_VersionFlags_off)).
  intros x H. unfold L_exception_UnwindInfo_flags_dom in H.
  byte_sweep L_exception_UnwindInfo_flags_ok L_exception_UnwindInfo_flags (fun x => x / 8).
  specialize (S x ltac:(lia)). apply andb_prop in S. destruct S as [S1 S2]. split; [exact S1 | apply N.eqb_eq; exact S2].
Qed.

Lemma uw_frame_register_agrees : forall g r,
  L_exception_UnwindInfo_frame_register_dom (u8at g (r_off r + UNWIND_INFO_FrameRegisterOffset_off)) = true ->
  L_exception_UnwindInfo_frame_register_ok (u8at g (r_off r + UNWIND_INFO_FrameRegisterOffset_off)) = true /\
  L_exception_UnwindInfo_frame_register (u8at g (r_off r + UNWIND_INFO_FrameRegisterOffset_off)) = uw_frame_register g r.
Proof.
  intros g r H. destruct (uw_as_byte g r) as (_ & _ & -> & _). generalize dependent (u8at g (r_off r + UNWIND_INFO_FrameRegisterOffset_off)).
  intros x H. unfold L_exception_UnwindInfo_frame_register_dom in H.
  byte_sweep L_exception_UnwindInfo_frame_register_ok L_exception_UnwindInfo_frame_register (fun x => N.land x 15).
  specialize (S x ltac:(lia)). apply andb_prop in S. destruct S as [S1 S2]. split; [exact S1 | apply N.eqb_eq; exact S2].
Qed.

Lemma uw_frame_offset_agrees : forall g r,
  L_exception_UnwindInfo_frame_offset_dom (u8at g (r_off r + UNWIND_INFO_FrameRegisterOffset_off)) = true ->
  L_exception_UnwindInfo_frame_offset_ok (u8at g (r_off r + UNWIND_INFO_FrameRegisterOffset_off)) = true /\
  L_exception_UnwindInfo_frame_offset (u8at g (r_off r + UNWIND_INFO_FrameRegisterOffset_off)) = uw_frame_offset g r.
Proof.
  intros g r H. destruct (uw_as_byte g r) as (_ & _ & _ & ->). generalize dependent (u8at g (r_off r + UNWIND_INFO_FrameRegisterOffset_off)).
  intros x H. unfold L_exception_UnwindInfo_frame_offset_dom in H.
  byte_sweep L_exception_UnwindInfo_frame_offset_ok L_exception_UnwindInfo_frame_offset (fun x => x / 16).
  specialize (S x ltac:(lia)). apply andb_prop in S. destruct S as [S1 S2]. split; [exact S1 | apply N.eqb_eq; exact S2].
Qed.

(* the results are u8 bit fields: version < 8, flags < 32, frame_register < 16, frame_offset < 16 *)
Lemma uw_fields_ranges : forall x, x < 256 ->
  L_exception_UnwindInfo_version x < 8 /\ L_exception_UnwindInfo_flags x < 32 /\
  L_exception_UnwindInfo_frame_register x < 16 /\ L_exception_UnwindInfo_frame_offset x < 16.
Proof.
  intros x Hx.
  pose proof (sweep256 (fun x => (L_exception_UnwindInfo_version x <? 8) && (L_exception_UnwindInfo_flags x <? 32) &&
                                 (L_exception_UnwindInfo_frame_register x <? 16) && (L_exception_UnwindInfo_frame_offset x <? 16))) as S.
  specialize (S ltac:(vm_compute; reflexivity) x Hx). cbv beta in S. lia.
Qed.

(* what each binder of the generated definitions stands for in the source (third audit, F2): a function that starts
   reading another field or index changes coq/gen/Leaf.v only in these lists *)
From Coq Require Import List String.
Import ListNotations.
Lemma leaf_reads_dirs :
  L_exception_UnwindInfo_version_args = ["self.image.VersionFlags : u8"%string] /\
  L_exception_UnwindInfo_flags_args = ["self.image.VersionFlags : u8"%string] /\
  L_exception_UnwindInfo_frame_register_args = ["self.image.FrameRegisterOffset : u8"%string] /\
  L_exception_UnwindInfo_frame_offset_args = ["self.image.FrameRegisterOffset : u8"%string].
Proof. repeat split; reflexivity. Qed.
