(* Proofs for C12, tree printer text (Model/ResourcesArt.v): the text model has the recursion skeleton [draw] of
   Model/Resources.v - same number of lines, same budget - so the bounds proved for [display_lines] are bounds on the text. *)
From PV.Model Require Import Machine Mapping Views Resources ResourcesArt.
From PV.Spec Require Import ResTree.
From PV.Proofs Require Import BaseProofs ResourcesProofs.

Lemma draw_text_loop_skeleton s belowt below root margin :
  (forall o m b, lenN (fst (belowt o m b)) = fst (below o b) /\ snd (belowt o m b) = snd (below o b)) ->
  forall es b, lenN (fst (draw_text_loop s belowt root margin es b)) = fst (draw_loop s below es b) /\
               snd (draw_text_loop s belowt root margin es b) = snd (draw_loop s below es b).
Proof.
  intros Hb. induction es as [|e r IH]; intros b; cbn [draw_text_loop draw_loop]; [split; reflexivity|].
  destruct (b =? 0); [split; reflexivity|].
  set (tail := match r with [] => true | _ => false end).
  assert (Hsub : lenN (fst (match e_entry s e with Ok (EDir o) => belowt o (margin ++ [tail]) (b - 1) | _ => ([], b - 1) end)) =
                 fst (match e_entry s e with Ok (EDir o) => below o (b - 1) | _ => (0, b - 1) end) /\
                 snd (match e_entry s e with Ok (EDir o) => belowt o (margin ++ [tail]) (b - 1) | _ => ([], b - 1) end) =
                 snd (match e_entry s e with Ok (EDir o) => below o (b - 1) | _ => (0, b - 1) end)).
  { destruct (e_entry s e) as [[o|o]|x|f]; try (split; reflexivity). apply Hb. }
  destruct Hsub as [H1 H2]. cbn [fst snd]. rewrite H2. destruct (IH (snd (match e_entry s e with Ok (EDir o) => below o (b - 1) | _ => (0, b - 1) end))) as [I1 I2].
  split; [|exact I2]. rewrite lenN_cons, lenN_app, H1, I1. lia.
Qed.

Lemma draw_text_skeleton : forall d s off root margin b,
  lenN (fst (draw_text d s off root margin b)) = fst (draw d s off b) /\ snd (draw_text d s off root margin b) = snd (draw d s off b).
Proof.
  induction d as [|d IH]; intros s off root margin b; cbn [draw_text draw]; [split; reflexivity|].
  apply draw_text_loop_skeleton. intros o m b'. apply IH.
Qed.

(* the number of lines (chunks) of the text is display_lines, for every section *)
Theorem display_text_lines s : lenN (display_text s) = display_lines s.
Proof.
  unfold display_text, display_lines. pose proof (dir_try_from_no_fault s 0) as NF. unfold root.
  destruct (dir_try_from s 0) as [r|x|f]; [|reflexivity|exfalso; exact (NF f eq_refl)].
  rewrite lenN_cons. destruct (draw_text_skeleton 32 s r true [] (fsck_budget s)) as [H _]. rewrite H. reflexivity.
Qed.

(* non-vacuity: id 7 at the root prints as #FONTDIR; the self-containing directory of F16 prints len/8 = 3 entries; a rejected root *)
Lemma art_nonvacuous :
  display_text ex_sec = [T_HEADING; [96; 45; 45; 32; 35; 70; 79; 78; 84; 68; 73; 82; 10]] /\
  display_text f16_witness = [T_HEADING; [96; 45; 45; 32; 35; 67; 85; 82; 83; 79; 82; 47; 10];
                                         [32; 32; 32; 32; 96; 45; 45; 32; 35; 49; 47; 10];
                                         [32; 32; 32; 32; 32; 32; 32; 32; 96; 45; 45; 32; 35; 49; 47; 10]] /\
  display_lines f16_witness = 4 /\
  display_text (sec_of 4098 4096 [0;0;0;0; 0;0;0;0; 0;0;0;0; 0;0; 0;0]) =
    [T_HEADING ++ [97; 100; 100; 114; 101; 115; 115; 32; 109; 105; 115; 97; 108; 105; 103; 110; 101; 100]].
Proof. vm_compute. repeat split; reflexivity. Qed.
