(* Proofs for C18, second part: the iterators built from std adaptors *)
From PV.Model Require Import Machine Rich Iters ItersMore.
From PV.Spec Require Import Deque.
From PV.Proofs Require Import BaseProofs ItersProofs.
Ltac Zify.zify_post_hook ::= Z.div_mod_to_equations.

(* ------------------------------------------------------------------ *)
(* 1. from one call to all histories, with literal equality of the outputs
      (also for iterators that are not double-ended: their size hint is exact) *)

Section SimEq.
  Context {S A : Type}.
  Variables (impl : iter_impl S A) (abs : S -> list A) (Inv : S -> Prop).
  Let full := m_full impl.
  Hypothesis Hsim : forall s o, Inv s -> is_clone o = false ->
    exists s', m_step1 impl s o = Ok (s', snd (step1 full (abs s) o)) /\ abs s' = fst (step1 full (abs s) o) /\ Inv s'.

  Lemma sim_step_eq pool c : Forall Inv pool ->
    exists pool', m_step impl pool c = Ok (pool', snd (step full (map abs pool) c))
      /\ map abs pool' = fst (step full (map abs pool) c) /\ Forall Inv pool'.
  Proof.
    intros Hp. unfold m_step, step. rewrite nth_error_map'.
    destruct (nth_error pool (fst c)) as [s|] eqn:En; cbn [option_map].
    - destruct (is_clone (snd c)) eqn:Ec.
      + exists (pool ++ [s]). cbn [fst snd]. split; [reflexivity|].
        split; [rewrite map_app; reflexivity|]. apply Forall_app. split; [exact Hp|]. constructor; [|constructor].
        eapply nth_error_Forall; eauto.
      + assert (Hs : Inv s) by (eapply nth_error_Forall; eauto).
        destruct (Hsim s (snd c) Hs Ec) as [s' [H1 [H3 H4]]].
        rewrite H1. cbn [bind fst snd]. exists (set_nth (fst c) s' pool).
        split; [reflexivity|]. split; [rewrite set_nth_map, H3; reflexivity|].
        apply set_nth_Forall; assumption.
    - exists pool. cbn [fst snd]. split; [reflexivity|]. split; [reflexivity|exact Hp].
  Qed.

  Theorem sim_run_eq : forall hist pool, Forall Inv pool ->
    m_run impl pool hist = Ok (run full (map abs pool) hist).
  Proof.
    induction hist as [|c h IH]; intros pool Hp; cbn [m_run run]; [reflexivity|].
    destruct (sim_step_eq pool c Hp) as [pool' [H1 [H3 H4]]].
    rewrite H1. cbn [bind fst snd]. rewrite (IH pool' H4). cbn [bind]. rewrite H3. reflexivity.
  Qed.
End SimEq.

(* ------------------------------------------------------------------ *)
(* 2. an adaptor that inherits nth and count, over primitives that step the sequence *)

Section Adaptor.
  Context {S A : Type}.
  Variables (impl : iter_impl S A) (abs : S -> list A) (Inv : S -> Prop) (measure : S -> nat).
  Hypothesis Hprov : provided_nth_count impl measure.
  Hypothesis Hmeasure : forall s, Inv s -> (length (abs s) <= measure s)%nat /\ N.of_nat (measure s) < W64.

  Lemma adaptor_nth e s k : prim_ok e impl abs Inv -> Inv s ->
    exists o s', m_nth impl s k = Ok (o, s') /\ Inv s' /\ opt_out o = snd (dq_nth (abs s) k) /\ abs s' = fst (dq_nth (abs s) k).
  Proof.
    intros Hp Hi. destruct Hprov as [Hn _]. rewrite Hn.
    apply (fwd_nth_sim (m_next impl) measure abs Inv (p_next _ _ _ _ Hp) Hmeasure); [exact Hi|].
    destruct (Hmeasure s Hi). lia.
  Qed.
  Lemma adaptor_count e s : prim_ok e impl abs Inv -> Inv s -> m_count impl s = Ok (lenN (abs s)).
  Proof.
    intros Hp Hi. destruct Hprov as [_ [Hc _]]. rewrite Hc. destruct (Hmeasure s Hi) as [H1 H2].
    rewrite (fwd_count_sim (m_next impl) measure abs Inv (p_next _ _ _ _ Hp) Hmeasure); [f_equal; lia|exact Hi|lia|unfold lenN; lia].
  Qed.

  (* the inherited nth_back of a double-ended adaptor: the provided loop over its own next_back *)
  Lemma adaptor_nth_back e s k : prim_ok e impl abs Inv -> m_full impl = true -> Inv s ->
    exists o s', m_nth_back impl s k = Ok (o, s') /\ Inv s' /\ opt_out o = snd (dq_nth_back (abs s) k) /\ abs s' = fst (dq_nth_back (abs s) k).
  Proof.
    intros Hp Ef Hi. destruct Hprov as [_ [_ Hb]]. rewrite (Hb Ef).
    apply (prov_nth_back_sim (m_next_back impl) abs Inv (p_next_back _ _ _ _ Hp Ef)); [exact Hi|].
    destruct (Hmeasure s Hi). lia.
  Qed.

  (* exact primitives: every call's output is literally the deque's *)
  Lemma adaptor_step_exact : prim_ok true impl abs Inv -> forall s o, Inv s -> is_clone o = false ->
    exists s', m_step1 impl s o = Ok (s', snd (step1 (m_full impl) (abs s) o))
               /\ abs s' = fst (step1 (m_full impl) (abs s) o) /\ Inv s'.
  Proof.
    intros Hp s o Hi Hc.
    destruct (p_size_hint _ _ _ _ Hp s Hi) as [lo [hi [Hh [_ [_ Hex]]]]]. destruct (Hex eq_refl) as [-> ->].
    destruct o; cbn [m_step1 step1]; try discriminate.
    - destruct (p_next _ _ _ _ Hp s Hi) as [o [s' [H1 [H2 [H3 H4]]]]]. rewrite H1. cbn [bind fst snd]. rewrite H3. exists s'. auto.
    - destruct (m_full impl) eqn:Ef.
      + destruct (p_next_back _ _ _ _ Hp Ef s Hi) as [o [s' [H1 [H2 [H3 H4]]]]]. rewrite H1. cbn [bind fst snd]. rewrite H3. exists s'. auto.
      + exists s. auto.
    - destruct (adaptor_nth true s k Hp Hi) as [o [s' [H1 [H2 [H3 H4]]]]]. rewrite H1. cbn [bind fst snd]. rewrite H3. exists s'. auto.
    - destruct (m_full impl) eqn:Ef.
      + unfold m_len. rewrite Hh. cbn [bind fst snd]. rewrite N.eqb_refl. cbn [bind]. exists s. auto.
      + exists s. auto.
    - rewrite Hh. cbn [bind fst snd]. exists s. auto.
    - rewrite (adaptor_count true s Hp Hi). cbn [bind fst snd]. exists s. auto.
    - destruct (m_full impl) eqn:Ef.
      + destruct (adaptor_nth_back true s k Hp Ef Hi) as [o [s' [H1 [H2 [H3 H4]]]]]. rewrite H1. cbn [bind fst snd]. rewrite H3. exists s'. auto.
      + exists s. auto.
  Qed.

  Theorem adaptor_exact : prim_ok true impl abs Inv -> forall hist pool, Forall Inv pool ->
    m_run impl pool hist = Ok (run (m_full impl) (map abs pool) hist).
  Proof. intros Hp. apply (sim_run_eq impl abs Inv (adaptor_step_exact Hp)). Qed.

  (* primitives whose size hint is only a bound (a Wrap in the stack): forward iterators, size hints valid bounds *)
  Lemma adaptor_step_bound e : prim_ok e impl abs Inv -> m_full impl = false -> forall s o, Inv s -> is_clone o = false ->
    exists s' r, m_step1 impl s o = Ok (s', r) /\ out_ok (m_full impl) (snd (step1 (m_full impl) (abs s) o)) r
                 /\ abs s' = fst (step1 (m_full impl) (abs s) o) /\ Inv s'.
  Proof.
    intros Hp Ef s o Hi Hc. rewrite Ef.
    destruct o; cbn [m_step1 step1]; rewrite ?Ef; try discriminate.
    - destruct (p_next _ _ _ _ Hp s Hi) as [o [s' [H1 [H2 [H3 H4]]]]]. rewrite H1. cbn [bind fst snd]. exists s', (opt_out o).
      split; [reflexivity|]. split; [rewrite <- H3; apply out_ok_refl; destruct o; discriminate|]. auto.
    - exists s, OUnsupported. cbn [fst snd]. split; [reflexivity|]. split; [reflexivity|]. auto.
    - destruct (adaptor_nth e s k Hp Hi) as [o [s' [H1 [H2 [H3 H4]]]]]. rewrite H1. cbn [bind fst snd]. exists s', (opt_out o).
      split; [reflexivity|]. split; [rewrite <- H3; apply out_ok_refl; destruct o; discriminate|]. auto.
    - exists s, OUnsupported. cbn [fst snd]. split; [reflexivity|]. split; [reflexivity|]. auto.
    - destruct (p_size_hint _ _ _ _ Hp s Hi) as [lo [hi [Hh [Hlo [Hhi _]]]]]. rewrite Hh. cbn [bind fst snd].
      exists s, (OHint lo hi). split; [reflexivity|]. split; [unfold out_ok; split; assumption|]. auto.
    - rewrite (adaptor_count e s Hp Hi). cbn [bind fst snd]. exists s, (ONum (lenN (abs s))).
      split; [reflexivity|]. split; [reflexivity|]. auto.
    - exists s, OUnsupported. cbn [fst snd]. split; [reflexivity|]. split; [reflexivity|]. auto.
  Qed.

  Theorem adaptor_bound e : prim_ok e impl abs Inv -> m_full impl = false -> forall hist pool, Forall Inv pool ->
    exists outs, m_run impl pool hist = Ok outs /\ Forall2 (out_ok false) (run false (map abs pool) hist) outs.
  Proof.
    intros Hp Ef hist pool HI.
    destruct (sim_run impl abs Inv (adaptor_step_bound e Hp Ef) hist pool HI) as [outs [H1 H2]].
    rewrite Ef in H2. exists outs. auto.
  Qed.
End Adaptor.

(* ------------------------------------------------------------------ *)
(* 3. the primitives of each std adaptor                               *)

(* slice::Iter (trusted to be the deque of its slice) *)
Lemma slice_prim_below {B} (bound : N) : 0 < bound -> prim_ok true (@slice_impl B) (fun l => l) (fun l => lenN l < bound).
Proof.
  intros Hb. constructor.
  - intros l Hl. cbn [slice_impl m_next]. destruct l as [|x t]; cbn [sl_next fst snd dq_next].
    + exists None, []. auto.
    + exists (Some x), t. split; [reflexivity|]. split; [rewrite lenN_cons in Hl; lia|]. auto.
  - intros _ l Hl. cbn [slice_impl m_next_back]. unfold sl_next_back, dq_next_back.
    destruct (rev l) as [|x t] eqn:Er; cbn [fst snd].
    + exists None, []. split; [reflexivity|]. split; [exact Hb|]. auto.
    + exists (Some x), (rev t). split; [reflexivity|]. split; [|auto].
      assert (length l = Datatypes.S (length t)) by (rewrite <- (rev_length l), Er; reflexivity).
      unfold lenN in *. rewrite rev_length. lia.
  - intros l Hl. exists (lenN l), (Some (lenN l)). cbn [slice_impl m_size_hint]. unfold sl_size_hint.
    split; [reflexivity|]. split; [lia|]. split; [lia|]. auto.
  - reflexivity.
Qed.
Lemma slice_prim {B} : prim_ok true (@slice_impl B) (fun l => l) (fun l => lenN l < W64).
Proof. apply slice_prim_below. reflexivity. Qed.

(* Range<u32>: the deque of the index list *)
Lemma lenN_nseq n : forall a, lenN (nseq a n) = N.of_nat n.
Proof. induction n as [|n IH]; intros a; [reflexivity|]. cbn [nseq]. rewrite lenN_cons, IH. lia. Qed.
Lemma nseq_snoc n : forall a, nseq a (Datatypes.S n) = nseq a n ++ [a + N.of_nat n].
Proof.
  induction n as [|n IH]; intros a.
  - cbn [nseq app]. f_equal. lia.
  - change (nseq a (Datatypes.S (Datatypes.S n))) with (a :: nseq (a + 1) (Datatypes.S n)). rewrite IH. cbn [nseq app]. do 3 f_equal. lia.
Qed.
Lemma nseq_app_firstn n : forall a m, firstn n (nseq a (n + m)) = nseq a n.
Proof. induction n as [|n IH]; intros a m; [reflexivity|]. cbn [Nat.add nseq firstn]. rewrite IH. reflexivity. Qed.
Lemma nseq_skipn k : forall a n, skipn k (nseq a n) = nseq (a + N.of_nat k) (n - k).
Proof.
  induction k as [|k IH]; intros a n.
  - cbn [skipn]. rewrite Nat.sub_0_r. f_equal. lia.
  - destruct n as [|n]; [reflexivity|]. cbn [nseq skipn]. rewrite IH. cbn [Nat.sub]. f_equal. lia.
Qed.
Lemma range_abs_lt a e : a < e -> range_abs (a, e) = a :: range_abs (a + 1, e).
Proof.
  intros H. unfold range_abs. cbn [fst snd].
  replace (N.to_nat (e - a)) with (Datatypes.S (N.to_nat (e - (a + 1)))) by lia. reflexivity.
Qed.
Lemma range_abs_ge a e : e <= a -> range_abs (a, e) = [].
Proof. intros H. unfold range_abs. cbn [fst snd]. replace (N.to_nat (e - a)) with 0%nat by lia. reflexivity. Qed.
Lemma range_abs_back a e : a < e -> range_abs (a, e) = range_abs (a, e - 1) ++ [e - 1].
Proof.
  intros H. unfold range_abs. cbn [fst snd].
  replace (N.to_nat (e - a)) with (Datatypes.S (N.to_nat (e - 1 - a))) by lia. rewrite nseq_snoc. do 2 f_equal. lia.
Qed.
Lemma lenN_range_abs s : lenN (range_abs s) = snd s - fst s.
Proof. unfold range_abs. rewrite lenN_nseq. lia. Qed.

(* a Range<u32>: both ends are u32 values (nth_back sets end := start when it runs out, so the start matters too) *)
Definition range_inv (s : range_st) : Prop := fst s < W32 /\ snd s < W32.

Lemma range_prim : prim_ok true range_impl range_abs range_inv.
Proof.
  constructor.
  - intros [a e] Hi. cbn [range_impl m_next range_next]. destruct (a <? e) eqn:E.
    + exists (Some a), (a + 1, e). rewrite (range_abs_lt a e) by lia. cbn [dq_next fst snd opt_out].
      split; [reflexivity|]. split; [unfold range_inv in *; cbn [fst snd] in *; lia|]. auto.
    + exists None, (a, e). rewrite (range_abs_ge a e) by lia. cbn [dq_next fst snd opt_out]. auto.
  - intros _ [a e] Hi. cbn [range_impl m_next_back range_next_back]. destruct (a <? e) eqn:E.
    + exists (Some (e - 1)), (a, e - 1). rewrite (range_abs_back a e) by lia. rewrite dq_next_back_meaning. cbn [fst snd opt_out].
      split; [reflexivity|]. split; [unfold range_inv in *; cbn [fst snd] in *; lia|]. auto.
    + exists None, (a, e). rewrite (range_abs_ge a e) by lia. cbn [dq_next_back rev fst snd opt_out]. auto.
  - intros [a e] Hi. cbn [range_impl m_size_hint range_size_hint]. rewrite lenN_range_abs. cbn [fst snd].
    destruct (a <? e) eqn:E.
    + exists (e - a), (Some (e - a)). split; [reflexivity|]. split; [lia|]. split; [lia|]. auto.
    + exists 0, (Some 0). split; [reflexivity|]. split; [lia|]. split; [lia|]. intros _. split; [lia|f_equal; lia].
  - reflexivity.
Qed.

(* every method of Range<u32>, including the overridden nth and count *)
Lemma range_sim : forall s o, range_inv s -> is_clone o = false ->
  exists s' r, m_step1 range_impl s o = Ok (s', r) /\ out_ok true (snd (step1 true (range_abs s) o)) r
               /\ range_abs s' = fst (step1 true (range_abs s) o) /\ range_inv s'.
Proof.
  intros s o Hi Hc. unfold out_ok.
  destruct (p_size_hint _ _ _ _ range_prim s Hi) as [lo [hi [Hh [_ [_ Hex]]]]]. destruct (Hex eq_refl) as [-> ->].
  destruct o; cbn [m_step1 step1]; change (m_full range_impl) with true; cbn iota; try discriminate.
  - destruct (p_next _ _ _ _ range_prim s Hi) as [o [s' [H1 [H2 [H3 H4]]]]]. rewrite H1. cbn [bind fst snd].
    exists s', (opt_out o). auto.
  - destruct (p_next_back _ _ _ _ range_prim eq_refl s Hi) as [o [s' [H1 [H2 [H3 H4]]]]]. rewrite H1. cbn [bind fst snd].
    exists s', (opt_out o). auto.
  - destruct s as [a e]. unfold range_inv in Hi. cbn [fst snd] in Hi. destruct Hi as [Hia Hie]. cbn [m_nth range_impl]. unfold range_nth, forward_checked32, checked_add, dq_nth.
    rewrite lenN_range_abs. cbn [fst snd].
    destruct (e - a <=? k) eqn:Ek.
    + (* at most k items: exhausted *)
      destruct (k <? W32) eqn:E1; [destruct (a + k <? W32) eqn:E2; [destruct (a + k <? e) eqn:E3; [lia|]|]|];
        cbn [bind fst snd]; exists (e, e), ONone; (split; [reflexivity|]; split; [reflexivity|]; split; [apply range_abs_ge; lia|split; exact Hie]).
    + assert (Hk : a + k < e) by lia.
      destruct (k <? W32) eqn:E1; [|lia]. destruct (a + k <? W32) eqn:E2; [|lia]. destruct (a + k <? e) eqn:E3; [|lia].
      assert (Hsk : skipn (N.to_nat k) (range_abs (a, e)) = (a + k) :: range_abs (a + k + 1, e)).
      { unfold range_abs. cbn [fst snd]. rewrite nseq_skipn.
        replace (N.to_nat (e - a) - N.to_nat k)%nat with (Datatypes.S (N.to_nat (e - (a + k + 1)))) by lia.
        cbn [nseq]. rewrite N2Nat.id. reflexivity. }
      rewrite Hsk. cbn [bind fst snd dq_next]. exists (a + k + 1, e), (OItem (a + k)).
      split; [reflexivity|]. split; [reflexivity|]. split; [reflexivity|unfold range_inv; cbn [fst snd]; lia].
  - unfold m_len. rewrite Hh. cbn [bind fst snd]. rewrite N.eqb_refl. cbn [bind].
    exists s, (ONum (lenN (range_abs s))). auto.
  - rewrite Hh. cbn [bind fst snd]. exists s, (OHint (lenN (range_abs s)) (Some (lenN (range_abs s)))). auto.
  - destruct s as [a e]. cbn [m_count range_impl range_count]. rewrite lenN_range_abs. cbn [fst snd].
    destruct (a <? e) eqn:E; cbn [bind fst snd].
    + exists (a, e), (ONum (e - a)). auto.
    + exists (a, e), (ONum 0). split; [reflexivity|]. split; [f_equal; lia|]. auto.
  - (* nth_back: backward_checked, then the item below it; end := start when there is no such item *)
    destruct s as [a e]. unfold range_inv in Hi. cbn [fst snd] in Hi. destruct Hi as [Hia Hie]. cbn [m_nth_back range_impl].
    unfold range_nth_back, backward_checked32, dq_nth_back. rewrite lenN_range_abs. cbn [fst snd].
    destruct (e - a <=? k) eqn:Ek.
    + destruct (k <? W32) eqn:E1; [destruct (k <=? e) eqn:E2; [destruct (a <? e - k) eqn:E3; [lia|]|]|];
        cbn [bind fst snd]; exists (a, a), ONone; (split; [reflexivity|]; split; [reflexivity|]; split; [apply range_abs_ge; lia|split; exact Hia]).
    + assert (Hk : a + k < e) by lia.
      destruct (k <? W32) eqn:E1; [|lia]. destruct (k <=? e) eqn:E2; [|lia]. destruct (a <? e - k) eqn:E3; [|lia].
      assert (Hfn : firstn (length (range_abs (a, e)) - N.to_nat k) (range_abs (a, e)) = range_abs (a, e - k - 1) ++ [e - k - 1]).
      { unfold range_abs. cbn [fst snd]. pose proof (lenN_nseq (N.to_nat (e - a)) a) as L. unfold lenN in L.
        replace (length (nseq a (N.to_nat (e - a))) - N.to_nat k)%nat with (Datatypes.S (N.to_nat (e - k - 1 - a))) by lia.
        replace (N.to_nat (e - a)) with (Datatypes.S (N.to_nat (e - k - 1 - a)) + N.to_nat k)%nat by lia.
        rewrite nseq_app_firstn, nseq_snoc. do 2 f_equal. lia. }
      rewrite Hfn, dq_next_back_meaning. cbn [bind fst snd]. exists (a, e - k - 1), (OItem (e - k - 1)).
      split; [reflexivity|]. split; [reflexivity|]. split; [reflexivity|unfold range_inv; cbn [fst snd]; lia].
Qed.
Theorem range_faithful hist pool : Forall range_inv pool ->
  m_run range_impl pool hist = Ok (run true (map range_abs pool) hist).
Proof. intros H. apply (sim_run_full range_impl range_abs range_inv range_sim eq_refl hist pool H). Qed.

(* Map: the mapped sequence *)
Section MapProofs.
  Context {S B A : Type}.
  Variables (inner : iter_impl S B) (f : B -> A) (measure : S -> nat) (abs : S -> list B) (Inv : S -> Prop).
  Lemma map_prim e : prim_ok e inner abs Inv -> prim_ok e (map_impl inner f measure) (fun s => map f (abs s)) Inv.
  Proof.
    intros Hp. constructor.
    - intros s Hi. destruct (p_next _ _ _ _ Hp s Hi) as [o [s' [H1 [H2 [H3 H4]]]]].
      cbn [map_impl m_next]. unfold map_next. rewrite H1. cbn [bind fst snd]. exists (option_map f o), s'.
      split; [reflexivity|]. split; [exact H2|]. rewrite H4.
      destruct (abs s) as [|x t]; destruct o; cbn [dq_next fst snd map opt_out] in *; try discriminate; cbn [option_map opt_out].
      + auto.
      + injection H3 as ->. auto.
    - intros Ef s Hi. cbn [map_impl m_full] in Ef. destruct (p_next_back _ _ _ _ Hp Ef s Hi) as [o [s' [H1 [H2 [H3 H4]]]]].
      cbn [map_impl m_next_back]. unfold map_next_back. rewrite H1. cbn [bind fst snd]. exists (option_map f o), s'.
      split; [reflexivity|]. split; [exact H2|]. rewrite H4. unfold dq_next_back in *. rewrite <- map_rev.
      destruct (rev (abs s)) as [|x t]; destruct o; cbn [fst snd map opt_out] in *; try discriminate; cbn [option_map opt_out].
      + auto.
      + injection H3 as ->. rewrite map_rev. auto.
    - intros s Hi. destruct (p_size_hint _ _ _ _ Hp s Hi) as [lo [hi [Hh H]]]. exists lo, hi. cbn [map_impl m_size_hint].
      rewrite lenN_map. auto.
    - cbn [map_impl m_full]. apply (p_full_exact _ _ _ _ Hp).
  Qed.
  Lemma map_provided : provided_nth_count (map_impl inner f measure) measure.
  Proof. split; [|split]; intros; reflexivity. Qed.
End MapProofs.

(* Zip: the deque of the zipped prefix *)
Section ZipProofs.
  Context {SA SB A B : Type}.
  Variables (a : iter_impl SA A) (b : iter_impl SB B) (measure : SA * SB -> nat).
  Variables (absa : SA -> list A) (absb : SB -> list B) (Inva : SA -> Prop) (Invb : SB -> Prop).
  Definition zip_abs (s : SA * SB) : list (A * B) := combine (absa (fst s)) (absb (snd s)).
  Definition zip_inv (s : SA * SB) : Prop := Inva (fst s) /\ Invb (snd s).
  Lemma lenN_combine {X Y} (l : list X) (l' : list Y) : lenN (combine l l') = N.min (lenN l) (lenN l').
  Proof. unfold lenN. rewrite combine_length. lia. Qed.
  Lemma zip_prim ea eb : prim_ok ea a absa Inva -> prim_ok eb b absb Invb ->
    prim_ok (ea && eb) (zip_impl a b measure) zip_abs zip_inv.
  Proof.
    intros Ha Hb. constructor.
    - intros [sa sb] [Hia Hib]. cbn [fst snd] in *. cbn [zip_impl m_next]. unfold zip_next, zip_abs, zip_inv. cbn [fst snd].
      destruct (p_next _ _ _ _ Ha sa Hia) as [oa [sa' [A1 [A2 [A3 A4]]]]]. rewrite A1. cbn [bind fst snd].
      destruct (absa sa) as [|x ta] eqn:Ea; cbn [dq_next fst snd] in A3, A4.
      + destruct oa; [discriminate|]. exists None, (sa', sb). cbn [fst snd]. rewrite A4. cbn [combine dq_next fst snd opt_out]. auto.
      + destruct oa as [x'|]; [|discriminate]. injection A3 as ->.
        destruct (p_next _ _ _ _ Hb sb Hib) as [ob [sb' [B1 [B2 [B3 B4]]]]]. rewrite B1. cbn [bind fst snd].
        destruct (absb sb) as [|y tb] eqn:Eb; cbn [dq_next fst snd] in B3, B4.
        * destruct ob; [discriminate|]. exists None, (sa', sb'). cbn [fst snd]. rewrite A4, B4, !combine_nil.
          cbn [combine dq_next fst snd opt_out]. auto.
        * destruct ob as [y'|]; [|discriminate]. injection B3 as ->. exists (Some (x, y)), (sa', sb'). cbn [fst snd].
          rewrite A4, B4. cbn [combine dq_next fst snd opt_out]. auto.
    - discriminate.
    - intros [sa sb] [Hia Hib]. cbn [fst snd] in *. cbn [zip_impl m_size_hint]. unfold zip_size_hint, zip_abs. cbn [fst snd].
      destruct (p_size_hint _ _ _ _ Ha sa Hia) as [la [ha [A1 [A2 [A3 A4]]]]].
      destruct (p_size_hint _ _ _ _ Hb sb Hib) as [lb [hb [B1 [B2 [B3 B4]]]]].
      rewrite A1, B1. cbn [bind fst snd]. exists (N.min la lb), (zip_upper ha hb). rewrite lenN_combine.
      split; [reflexivity|]. split; [lia|]. split.
      + destruct ha, hb; cbn [zip_upper]; first [lia|exact I].
      + intros E. apply andb_prop in E. destruct E as [E1 E2].
        destruct (A4 E1) as [-> ->]. destruct (B4 E2) as [-> ->]. cbn [zip_upper]. auto.
    - discriminate.
  Qed.
  Lemma zip_provided : provided_nth_count (zip_impl a b measure) measure.
  Proof. split; [|split]; [reflexivity|reflexivity|discriminate]. Qed.
End ZipProofs.

(* behind `impl Iterator`: the same primitives *)
Lemma erase_prim {S A} e (impl : iter_impl S A) abs Inv : prim_ok e impl abs Inv -> prim_ok e (erase impl) abs Inv.
Proof.
  intros Hp. constructor.
  - exact (p_next _ _ _ _ Hp).
  - discriminate.
  - exact (p_size_hint _ _ _ _ Hp).
  - discriminate.
Qed.
Lemma erase_provided {S A} (impl : iter_impl S A) measure : provided_nth_count impl measure -> provided_nth_count (erase impl) measure.
Proof. intros [H1 [H2 _]]. split; [exact H1|]. split; [exact H2|discriminate]. Qed.

(* Wrap<I32, I64>: forwards next only; the provided size_hint is (0, None) *)
Lemma wrap_prim {S A W} e (inner : iter_impl S A) (tag : A -> W) measure abs Inv :
  prim_ok e inner abs Inv -> prim_ok false (wrap_impl inner tag measure) (fun s => map tag (abs s)) Inv.
Proof.
  intros Hp. constructor.
  - intros s Hi. destruct (p_next _ _ _ _ Hp s Hi) as [o [s' [H1 [H2 [H3 H4]]]]].
    cbn [wrap_impl fwd_impl m_next]. unfold wrap_next. rewrite H1. cbn [bind fst snd]. exists (option_map tag o), s'.
    split; [reflexivity|]. split; [exact H2|]. rewrite H4.
    destruct (abs s) as [|x t]; destruct o; cbn [dq_next fst snd map opt_out] in *; try discriminate; cbn [option_map opt_out].
    + auto.
    + injection H3 as ->. auto.
  - discriminate.
  - intros s Hi. exists 0, None. cbn [wrap_impl fwd_impl m_size_hint]. split; [reflexivity|]. split; [lia|]. split; [exact I|discriminate].
  - discriminate.
Qed.
Lemma wrap_provided {S A W} (inner : iter_impl S A) (tag : A -> W) measure : provided_nth_count (wrap_impl inner tag measure) measure.
Proof. split; [|split]; [reflexivity|reflexivity|discriminate]. Qed.

(* ------------------------------------------------------------------ *)
(* 4. the shapes the library builds                                    *)

Definition small {B} (l : list B) : Prop := lenN l < W64.

Lemma length_measure {B A} (f : B -> A) (l : list B) : small l ->
  (length (map f l) <= length l)%nat /\ N.of_nat (length l) < W64.
Proof. intros H. rewrite map_length. split; [lia|exact H]. Qed.

(* Entries (resource directories), IAT::iter, Desc::int: Map<slice::Iter, F>, double-ended and exact-size *)
Theorem entries_faithful {B A} (f : B -> A) hist (pool : list (list B)) : Forall small pool ->
  m_run (entries_impl f) pool hist = Ok (run true (map (map f) pool) hist).
Proof.
  apply (adaptor_exact (entries_impl f) (fun l => map f l) small (fun l => length l)
           (map_provided slice_impl f _) (length_measure f) (map_prim slice_impl f _ _ _ true slice_prim) hist pool).
Qed.

(* exports::By::iter *)
Theorem exp_iter_faithful {B A} (f : B -> A) hist (pool : list (list B)) : Forall small pool ->
  m_run (exp_iter_impl f) pool hist = Ok (run false (map (map f) pool) hist).
Proof.
  apply (adaptor_exact (exp_iter_impl f) (fun l => map f l) small (fun l => length l)
           (erase_provided _ _ (map_provided slice_impl f _)) (length_measure f)
           (erase_prim true _ _ _ (map_prim slice_impl f _ _ _ true slice_prim)) hist pool).
Qed.

(* exports::By::iter_names *)
Lemma range_measure_ok {A} (g : N -> A) s : range_inv s ->
  (length (map g (range_abs s)) <= range_measure s)%nat /\ N.of_nat (range_measure s) < W64.
Proof.
  intros H. unfold range_inv in H. rewrite map_length. unfold range_abs, range_measure.
  pose proof (lenN_nseq (N.to_nat (snd s - fst s)) (fst s)) as L. unfold lenN in L. unfold W32, W64 in *. lia.
Qed.
Theorem exp_names_all {A} (g : N -> A) hist pool : Forall range_inv pool ->
  m_run (exp_names_impl g) pool hist = Ok (run false (map (fun s => map g (range_abs s)) pool) hist).
Proof.
  apply (adaptor_exact (exp_names_impl g) (fun s => map g (range_abs s)) range_inv range_measure
           (erase_provided _ _ (map_provided range_impl g _)) (range_measure_ok g)
           (erase_prim true _ _ _ (map_prim range_impl g _ _ _ true range_prim)) hist pool).
Qed.
Lemma exp_names_start_abs {R} (names : list R) : lenN names < W32 ->
  range_inv (exp_names_start names) /\ range_abs (exp_names_start names) = nseq 0 (length names).
Proof.
  intros H. unfold exp_names_start, range_inv, range_abs. cbn [fst snd]. rewrite N.mod_small by exact H.
  split; [split; [reflexivity|exact H]|]. f_equal. unfold lenN. lia.
Qed.
Theorem exp_names_faithful {R A} (g : N -> A) (names : list R) hist : lenN names < W32 ->
  m_run (exp_names_impl g) [exp_names_start names] hist = Ok (run false [map g (nseq 0 (length names))] hist).
Proof.
  intros H. destruct (exp_names_start_abs names H) as [Hi Ha].
  rewrite (exp_names_all g hist [exp_names_start names]) by (constructor; [exact Hi|constructor]).
  cbn [map]. rewrite Ha. reflexivity.
Qed.

(* exports::By::iter_name_indices: the zipped prefix - as long as the SHORTER of the two tables *)
Definition nidx_inv {I} (s : range_st * list I) : Prop := range_inv (fst s) /\ small (snd s).
Definition nidx_abs {I A} (g : N * I -> A) (s : range_st * list I) : list A :=
  map g (combine (range_abs (fst s)) (snd s)).
Lemma nidx_measure_ok {I A} (g : N * I -> A) s : nidx_inv s ->
  (length (nidx_abs g s) <= nidx_measure s)%nat /\ N.of_nat (nidx_measure s) < W64.
Proof.
  intros [_ H]. unfold nidx_abs, nidx_measure. rewrite map_length, combine_length. split; [lia|exact H].
Qed.
Theorem exp_nidx_all {I A} (g : N * I -> A) hist pool : Forall nidx_inv pool ->
  m_run (exp_nidx_impl g) pool hist = Ok (run false (map (nidx_abs g) pool) hist).
Proof.
  apply (adaptor_exact (exp_nidx_impl g) (nidx_abs g) nidx_inv nidx_measure
           (erase_provided _ _ (map_provided _ g _)) (nidx_measure_ok g)
           (erase_prim true _ _ _
              (map_prim _ g _ _ _ true
                 (zip_prim range_impl slice_impl nidx_measure range_abs (fun l => l) range_inv small true true range_prim slice_prim)))
           hist pool).
Qed.
Theorem exp_nidx_faithful {R I A} (g : N * I -> A) (names : list R) (idx : list I) hist : lenN names < W32 -> lenN idx < W64 ->
  m_run (exp_nidx_impl g) [exp_nidx_start names idx] hist
  = Ok (run false [map g (combine (nseq 0 (length names)) idx)] hist).
Proof.
  intros H Hx. destruct (exp_names_start_abs names H) as [Hi Ha].
  rewrite (exp_nidx_all g hist [exp_nidx_start names idx]) by (constructor; [split; [exact Hi|exact Hx]|constructor]).
  cbn [map]. unfold nidx_abs, exp_nidx_start. cbn [fst snd]. rewrite Ha. reflexivity.
Qed.
Lemma nidx_length {I} n (idx : list I) : lenN (combine (nseq 0 n) idx) = N.min (N.of_nat n) (lenN idx).
Proof. rewrite lenN_combine, lenN_nseq. reflexivity. Qed.
(* the item at position i pairs the hint i with the i-th name index *)
Lemma nidx_item {I} (idx : list I) : forall n a i h x, nth_error (combine (nseq a n) idx) i = Some (h, x) ->
  h = a + N.of_nat i /\ nth_error idx i = Some x /\ (i < n)%nat.
Proof.
  induction idx as [|y t IH]; intros n a i h x H.
  - rewrite combine_nil in H. destruct i; discriminate.
  - destruct n as [|n]; [destruct i; discriminate|]. cbn [nseq combine] in H. destruct i as [|i]; cbn [nth_error] in *.
    + injection H as <- <-. split; [lia|]. split; [reflexivity|lia].
    + apply IH in H. destruct H as [H1 [H2 H3]]. split; [lia|]. split; [exact H2|lia].
Qed.

(* resource directories: the three slices *)
Lemma firstn_plus {B} a : forall b (l : list B), firstn (a + b) l = firstn a l ++ firstn b (skipn a l).
Proof.
  induction a as [|a IH]; intros b l; [reflexivity|]. destruct l as [|x t].
  - cbn [Nat.add firstn skipn app]. rewrite firstn_nil. reflexivity.
  - cbn [Nat.add firstn skipn app]. rewrite IH. reflexivity.
Qed.
Theorem res_slices {B} nn ni (arr : list B) :
  res_named nn ni arr ++ res_id nn ni arr = res_all nn ni arr /\
  (nn + ni <= lenN arr -> lenN (res_named nn ni arr) = nn /\ lenN (res_id nn ni arr) = ni /\ lenN (res_all nn ni arr) = nn + ni).
Proof.
  unfold res_named, res_id, res_all. split.
  - rewrite N2Nat.inj_add, firstn_plus. reflexivity.
  - intros H. unfold lenN in *. rewrite !firstn_length, skipn_length. lia.
Qed.

(* the format-agnostic wrappers over Map<slice::Iter> / slice::Iter, and Map over such a Wrap *)
Lemma length_measure2 {B A W} (f : B -> A) (tag : A -> W) (l : list B) : small l ->
  (length (map tag (map f l)) <= length l)%nat /\ N.of_nat (length l) < W64.
Proof. intros H. rewrite !map_length. split; [lia|exact H]. Qed.
Lemma length_measure3 {B A W X} (f : B -> A) (tag : A -> W) (into : W -> X) (l : list B) : small l ->
  (length (map into (map tag (map f l))) <= length l)%nat /\ N.of_nat (length l) < W64.
Proof. intros H. rewrite !map_length. split; [lia|exact H]. Qed.

(* Wrap<IAT32, IAT64>::iter *)
Theorem wrap_entries_faithful {B A W} (f : B -> A) (tag : A -> W) hist (pool : list (list B)) : Forall small pool ->
  exists outs, m_run (wrap_entries_impl f tag) pool hist = Ok outs /\
               Forall2 (out_ok false) (run false (map (fun l => map tag (map f l)) pool) hist) outs.
Proof.
  apply (adaptor_bound (wrap_entries_impl f tag) (fun l => map tag (map f l)) small (fun l => length l)
           (wrap_provided _ tag _) (length_measure2 f tag)
           false (wrap_prim true _ tag _ _ _ (map_prim slice_impl f _ _ _ true slice_prim)) eq_refl hist pool).
Qed.
(* Wrap<Desc32, Desc64>::iat *)
Theorem wrap_slice_faithful {B W} (tag : B -> W) hist (pool : list (list B)) : Forall small pool ->
  exists outs, m_run (wrap_slice_impl tag) pool hist = Ok outs /\
               Forall2 (out_ok false) (run false (map (map tag) pool) hist) outs.
Proof.
  apply (adaptor_bound (wrap_slice_impl tag) (fun l => map tag l) small (fun l => length l)
           (wrap_provided _ tag _) (length_measure tag)
           false (wrap_prim true _ tag _ _ _ slice_prim) eq_refl hist pool).
Qed.
(* Wrap<Desc32, Desc64>::int: Map over Wrap over Map over slice::Iter *)
Theorem wrap_int_faithful {B A W X} (f : B -> A) (tag : A -> W) (into : W -> X) hist (pool : list (list B)) : Forall small pool ->
  exists outs, m_run (wrap_int_impl f tag into) pool hist = Ok outs /\
               Forall2 (out_ok false) (run false (map (fun l => map into (map tag (map f l))) pool) hist) outs.
Proof.
  apply (adaptor_bound (wrap_int_impl f tag into) (fun l => map into (map tag (map f l))) small (fun l => length l)
           (map_provided _ into _) (length_measure3 f tag into)
           false (map_prim _ into _ _ _ false (wrap_prim true _ tag _ _ _ (map_prim slice_impl f _ _ _ true slice_prim))) eq_refl hist pool).
Qed.

(* slice::Iter handed out as is (Desc::iat): the delegation diagram with the identity *)
(* every method of slice::Iter (trusted [sl_*]) against the deque, nth_back included *)
Lemma slice_sim {B} : forall (l : list B) o, True -> is_clone o = false ->
  exists l', m_step1 slice_impl l o = Ok (l', snd (step1 true l o)) /\ l' = fst (step1 true l o) /\ True.
Proof.
  intros l o _ Hc.
  destruct o; cbn [m_step1 step1 slice_impl m_full m_next m_next_back m_nth m_size_hint m_count m_nth_back bind fst snd]; try discriminate.
  - destruct l as [|x t]; cbn [sl_next dq_next fst snd opt_out]; eexists; repeat split.
  - unfold sl_next_back, dq_next_back. destruct (rev l) as [|x t]; cbn [fst snd opt_out]; eexists; repeat split.
  - unfold sl_nth, dq_nth. destruct (lenN l <=? k); [cbn [fst snd opt_out]; eexists; repeat split|].
    destruct (skipn (N.to_nat k) l) as [|x t]; cbn [sl_next dq_next fst snd opt_out]; eexists; repeat split.
  - unfold m_len. cbn [slice_impl m_size_hint sl_size_hint bind fst snd]. rewrite N.eqb_refl. cbn [bind]. eexists; repeat split.
  - unfold sl_size_hint. cbn [fst snd]. eexists; repeat split.
  - unfold sl_count. eexists; repeat split.
  - unfold sl_nth_back, dq_nth_back. destruct (lenN l <=? k); [cbn [fst snd opt_out]; eexists; repeat split|].
    unfold sl_next_back, dq_next_back. destruct (rev (firstn (length l - N.to_nat k) l)) as [|x t]; cbn [fst snd opt_out]; eexists; repeat split.
Qed.
Theorem slice_faithful {B} hist (pool : list (list B)) : m_run slice_impl pool hist = Ok (run true pool hist).
Proof.
  rewrite (sim_run_eq slice_impl (fun l : list B => l) (fun _ => True) slice_sim hist pool) by (apply Forall_forall; intros; exact I).
  rewrite map_id. reflexivity.
Qed.

(* FlatMap over an outer iterator of at most one item: the items of the frontiter, then those of the item not yet taken *)
Section FlatProofs.
  Context {S X A : Type}.
  Variables (inner : iter_impl S A) (mk : X -> S) (measure : option S * option X -> nat).
  Variables (absi : S -> list A) (Invi : S -> Prop).
  Definition flat_abs (s : option S * option X) : list A :=
    (match fst s with Some si => absi si | None => [] end) ++ (match snd s with Some x => absi (mk x) | None => [] end).
  Definition flat_inv (s : option S * option X) : Prop :=
    (match fst s with Some si => Invi si | None => True end) /\ (match snd s with Some x => Invi (mk x) | None => True end).
  Definition outer_abs (outer : option X) : list A := match outer with Some x => absi (mk x) | None => [] end.
  Lemma flat_from_outer_sim e outer : prim_ok e inner absi Invi -> (match outer with Some x => Invi (mk x) | None => True end) ->
    exists o s', flat_from_outer inner mk outer = Ok (o, s') /\ flat_inv s' /\
      opt_out o = snd (dq_next (outer_abs outer)) /\ flat_abs s' = fst (dq_next (outer_abs outer)).
  Proof.
    intros Hp Hi. unfold flat_from_outer, flat_abs, outer_abs. destruct outer as [x|].
    - destruct (p_next _ _ _ _ Hp (mk x) Hi) as [o [s' [H1 [H2 [H3 H4]]]]]. rewrite H1. cbn [bind fst snd].
      destruct (absi (mk x)) as [|a t] eqn:Ea; destruct o as [a'|]; cbn [dq_next fst snd opt_out] in *; try discriminate.
      + exists None, (None, None). cbn [fst snd app]. split; [reflexivity|]. split; [split; exact I|]. auto.
      + injection H3 as ->. exists (Some a), (Some s', None). cbn [fst snd]. rewrite H4, app_nil_r.
        split; [reflexivity|]. split; [split; [exact H2|exact I]|]. auto.
    - exists None, (None, None). cbn [fst snd app dq_next opt_out]. split; [reflexivity|]. split; [split; exact I|]. auto.
  Qed.
  Lemma flat_prim e : prim_ok e inner absi Invi -> prim_ok false (flat_impl inner mk measure) flat_abs flat_inv.
  Proof.
    intros Hp. constructor.
    - intros [front outer] [Hf Ho]. cbn [fst snd] in *. cbn [flat_impl m_next]. unfold flat_next. cbn [fst snd].
      destruct front as [si|].
      + destruct (p_next _ _ _ _ Hp si Hf) as [o [s' [H1 [H2 [H3 H4]]]]]. rewrite H1. cbn [bind fst snd].
        assert (Eabs : flat_abs (Some si, outer) = absi si ++ outer_abs outer) by reflexivity. rewrite Eabs.
        destruct (absi si) as [|a t] eqn:Ea; destruct o as [a'|]; cbn [dq_next fst snd opt_out app] in *; try discriminate.
        * apply (flat_from_outer_sim e outer Hp Ho).
        * injection H3 as ->. exists (Some a), (Some s', outer). unfold flat_abs, flat_inv, outer_abs. cbn [fst snd]. rewrite H4.
          split; [reflexivity|]. split; [split; assumption|]. auto.
      + assert (Eabs : flat_abs (None, outer) = outer_abs outer) by reflexivity. rewrite Eabs.
        apply (flat_from_outer_sim e outer Hp Ho).
    - discriminate.
    - intros [front outer] [Hf Ho]. cbn [fst snd] in *. cbn [flat_impl m_size_hint]. unfold flat_size_hint, flat_abs. cbn [fst snd].
      rewrite lenN_app.
      assert (Hfh : exists lo hi, (match front with Some si => m_size_hint inner si | None => Ok (0, Some 0) end) = Ok (lo, hi) /\
                lo <= lenN (match front with Some si => absi si | None => [] end) /\
                match hi with Some h => lenN (match front with Some si => absi si | None => [] end) <= h | None => True end).
      { destruct front as [si|].
        - destruct (p_size_hint _ _ _ _ Hp si Hf) as [lo [hi [H1 [H2 [H3 _]]]]]. exists lo, hi. auto.
        - exists 0, (Some 0). split; [reflexivity|]. change (lenN (@nil A)) with 0. split; lia. }
      destruct Hfh as [lo [hi [H1 [H2 H3]]]]. rewrite H1. cbn [bind fst snd].
      destruct outer as [x|].
      + exists lo, None. split; [reflexivity|]. split; [lia|]. split; [exact I|discriminate].
      + exists lo, hi. split; [reflexivity|]. change (lenN (@nil A)) with 0. split; [lia|]. split; [|discriminate].
        destruct hi; [lia|exact I].
    - discriminate.
  Qed.
  Lemma flat_provided : provided_nth_count (flat_impl inner mk measure) measure.
  Proof. split; [|split]; [reflexivity|reflexivity|discriminate]. Qed.
End FlatProofs.

(* Resources::icons / cursors: slices of fewer than 2^63 entries (so that the two parts together stay below 2^64) *)
Definition W63 : N := 9223372036854775808.
Definition half {B} (l : list B) : Prop := lenN l < W63.
Lemma icons_measure_ok {B A} (f : B -> A) (s : option (list B) * option (list B)) :
  flat_inv (fun l : list B => l) (fun l => half l) s ->
  (length (flat_abs (fun l : list B => l) (fun l => map f l) s) <= icons_measure s)%nat /\ N.of_nat (icons_measure s) < W64.
Proof.
  destruct s as [[l1|] [l2|]]; unfold flat_inv, flat_abs, icons_measure, half, lenN, W63, W64; cbn [fst snd];
    intros [H1 H2]; rewrite ?app_length, ?map_length; cbn [length]; split; lia.
Qed.
Theorem icons_faithful {B A} (f : B -> A) hist pool : Forall (flat_inv (fun l : list B => l) (fun l => half l)) pool ->
  exists outs, m_run (icons_impl f) pool hist = Ok outs /\
               Forall2 (out_ok false) (run false (map (flat_abs (fun l : list B => l) (fun l => map f l)) pool) hist) outs.
Proof.
  apply (adaptor_bound (icons_impl f) (flat_abs (fun l : list B => l) (fun l => map f l)) (flat_inv (fun l : list B => l) (fun l => half l)) icons_measure
           (flat_provided _ _ _) (icons_measure_ok f)
           false (flat_prim _ _ _ _ _ true (map_prim slice_impl f _ _ _ true (slice_prim_below W63 eq_refl))) eq_refl hist pool).
Qed.
(* the iterator icons() / cursors() hands out: all the entries of the group directory if there is one, nothing otherwise *)
Corollary icons_start_faithful {B A} (f : B -> A) (group_dir : option (list B)) hist :
  (match group_dir with Some l => lenN l < W63 | None => True end) ->
  exists outs, m_run (icons_impl f) [icons_start group_dir] hist = Ok outs /\
               Forall2 (out_ok false) (run false [match group_dir with Some l => map f l | None => [] end] hist) outs.
Proof.
  intros H. destruct (icons_faithful f hist [icons_start group_dir]) as [outs [H1 H2]].
  { constructor; [|constructor]. split; [exact I|]. destruct group_dir; exact H. }
  exists outs. split; [exact H1|]. destruct group_dir; exact H2.
Qed.

(* ------------------------------------------------------------------ *)
(* 4b. Exception::functions, SectionHeaders::iter, flags!::to_strs     *)

(* Exception::functions: the Map<slice::Iter, F> itself - double-ended, exact-size, nth / count / nth_back inherited *)
Theorem exc_functions_faithful {B A} (f : B -> A) hist (pool : list (list B)) : Forall small pool ->
  m_run (exc_functions_impl f) pool hist = Ok (run true (map (map f) pool) hist).
Proof. exact (entries_faithful f hist pool). Qed.

(* SectionHeaders::iter: the slice::Iter over the section headers *)
Theorem sections_iter_faithful {B} hist (pool : list (list B)) : m_run sections_iter_impl pool hist = Ok (run true pool hist).
Proof. exact (slice_faithful hist pool). Qed.

(* FilterMap: the sequence of the answers that are Some, in order *)
Lemma fm_list_length {B A} (f : B -> option A) (l : list B) : (length (fm_list f l) <= length l)%nat.
Proof. induction l as [|x t IH]; [cbn; lia|]. cbn [fm_list]. destruct (f x); cbn [length]; lia. Qed.
Section FilterMapProofs.
  Context {S B A : Type}.
  Variables (inner : iter_impl S B) (f : B -> option A) (measure : S -> nat) (absi : S -> list B) (Invi : S -> Prop).
  Hypothesis Hfuel : forall s, Invi s -> (length (absi s) <= measure s)%nat.
  Lemma fm_find_sim e : prim_ok e inner absi Invi -> forall fuel s, Invi s -> (length (absi s) < fuel)%nat ->
    exists o s', fm_find inner f fuel s = Ok (o, s') /\ Invi s' /\
      opt_out o = snd (dq_next (fm_list f (absi s))) /\ fm_list f (absi s') = fst (dq_next (fm_list f (absi s))).
  Proof.
    intros Hp. induction fuel as [|fuel IH]; intros s Hi Hf; [lia|]. cbn [fm_find].
    destruct (p_next _ _ _ _ Hp s Hi) as [o [s' [H1 [H2 [H3 H4]]]]]. rewrite H1. cbn [bind fst snd].
    destruct (absi s) as [|x t] eqn:Ea; cbn [dq_next fst snd] in H3, H4.
    - destruct o; [discriminate|]. exists None, s'. rewrite H4. cbn [fm_list dq_next fst snd opt_out]. auto.
    - destruct o as [x'|]; [|discriminate]. injection H3 as ->. cbn [fm_list]. destruct (f x) as [y|].
      + exists (Some y), s'. rewrite H4. cbn [dq_next fst snd opt_out]. auto.
      + cbn [length] in Hf. rewrite <- H4 in Hf. destruct (IH s' H2 ltac:(lia)) as [o [s'' [G1 [G2 [G3 G4]]]]].
        exists o, s''. rewrite <- H4. auto.
  Qed.
  Lemma filter_map_prim e : prim_ok e inner absi Invi ->
    prim_ok false (filter_map_impl inner f measure) (fun s => fm_list f (absi s)) Invi.
  Proof.
    intros Hp. constructor.
    - intros s Hi. cbn [filter_map_impl m_next]. unfold filter_map_next.
      apply (fm_find_sim e Hp); [exact Hi|]. pose proof (Hfuel s Hi). lia.
    - discriminate.
    - intros s Hi. destruct (p_size_hint _ _ _ _ Hp s Hi) as [lo [hi [Hh [_ [Hhi _]]]]].
      cbn [filter_map_impl m_size_hint]. unfold filter_map_size_hint. rewrite Hh. cbn [bind fst snd].
      exists 0, hi. split; [reflexivity|]. split; [lia|]. split; [|discriminate].
      pose proof (fm_list_length f (absi s)). destruct hi; [unfold lenN in *; lia|exact I].
    - discriminate.
  Qed.
  Lemma filter_map_provided : provided_nth_count (filter_map_impl inner f measure) measure.
  Proof. split; [|split]; [reflexivity|reflexivity|discriminate]. Qed.
End FilterMapProofs.

(* flags!::to_strs: the identifiers of the set bits that have one, by increasing bit index *)
Lemma to_strs_measure_ok {A} (g : N -> option A) s : range_inv s ->
  (length (fm_list g (range_abs s)) <= range_measure s)%nat /\ N.of_nat (range_measure s) < W64.
Proof.
  intros H. unfold range_inv in H. pose proof (fm_list_length g (range_abs s)) as L1.
  unfold range_abs, range_measure in *.
  pose proof (lenN_nseq (N.to_nat (snd s - fst s)) (fst s)) as L. unfold lenN in L. unfold W32, W64 in *. lia.
Qed.
Lemma range_fuel_ok s : range_inv s -> (length (range_abs s) <= range_measure s)%nat.
Proof.
  intros _. unfold range_abs, range_measure.
  pose proof (lenN_nseq (N.to_nat (snd s - fst s)) (fst s)) as L. unfold lenN in L. lia.
Qed.
Theorem to_strs_all {A} (flag_str : N -> option A) (value : N) hist pool : Forall range_inv pool ->
  exists outs, m_run (to_strs_impl flag_str value) pool hist = Ok outs /\
               Forall2 (out_ok false) (run false (map (fun s => fm_list (to_strs_f flag_str value) (range_abs s)) pool) hist) outs.
Proof.
  apply (adaptor_bound (to_strs_impl flag_str value) (fun s => fm_list (to_strs_f flag_str value) (range_abs s)) range_inv range_measure
           (filter_map_provided _ _ _) (to_strs_measure_ok _)
           false (filter_map_prim range_impl _ range_measure range_abs range_inv range_fuel_ok true range_prim) eq_refl hist pool).
Qed.
Theorem to_strs_faithful {A} (flag_str : N -> option A) (value bits : N) hist : bits < W32 ->
  exists outs, m_run (to_strs_impl flag_str value) [to_strs_start bits] hist = Ok outs /\
               Forall2 (out_ok false) (run false [fm_list (to_strs_f flag_str value) (nseq 0 (N.to_nat bits))] hist) outs.
Proof.
  intros Hb. destruct (to_strs_all flag_str value hist [to_strs_start bits]) as [outs [H1 H2]].
  { constructor; [|constructor]. unfold to_strs_start, range_inv. cbn [fst snd]. split; [reflexivity|exact Hb]. }
  exists outs. split; [exact H1|]. cbn [map] in H2. unfold to_strs_start, range_abs in H2. cbn [fst snd] in H2.
  rewrite N.sub_0_r in H2. exact H2.
Qed.
(* the item function: bit i of the value is set and the table names it *)
Lemma to_strs_f_testbit {A} (flag_str : N -> option A) value i :
  to_strs_f flag_str value i = if N.testbit value i then flag_str i else None.
Proof.
  unfold to_strs_f. rewrite N.shiftl_1_l.
  destruct (N.testbit value i) eqn:Eb.
  - destruct (N.land value (2 ^ i) =? 0) eqn:E; [|reflexivity]. apply N.eqb_eq in E.
    assert (H : N.testbit (N.land value (2 ^ i)) i = false) by (rewrite E; apply N.bits_0).
    rewrite N.land_spec, Eb, N.pow2_bits_true in H. discriminate.
  - assert (E : N.land value (2 ^ i) = 0).
    { apply N.bits_inj. intros n. rewrite N.land_spec, N.bits_0, N.pow2_bits_eqb.
      destruct (N.eqb_spec i n) as [->|]; [rewrite Eb; reflexivity|apply andb_false_r]. }
    rewrite E. reflexivity.
Qed.

(* ------------------------------------------------------------------ *)
(* 5. concrete runs (non-vacuity) and the code as it stood             *)

(* three names, two name indices: the iterator has two items; nth past the end exhausts; the clone is independent *)
Definition ex_nidx_hist : list (nat * op) :=
  [(0%nat, SizeHint); (0%nat, Clone); (0%nat, Next); (0%nat, Nth 1); (0%nat, Next); (1%nat, Count); (1%nat, Nth 1);
   (1%nat, NextBack); (1%nat, Len); (1%nat, SizeHint); (2%nat, Next)].
Lemma ex_nidx_run :
  m_run (exp_nidx_impl (fun p : N * N => p)) [exp_nidx_start [10; 20; 30] [7; 9]] ex_nidx_hist
  = Ok [OHint 2 (Some 2); OCloned; OItem (0, 7); ONone; ONone; ONum 2; OItem (1, 9); OUnsupported; OUnsupported;
        OHint 0 (Some 0); ONoIter]
  /\ m_run (exp_names_impl (fun h : N => h)) [exp_names_start [10; 20; 30]] [(0%nat, Nth 1); (0%nat, SizeHint); (0%nat, Next); (0%nat, Next)]
     = Ok [OItem 1; OHint 1 (Some 1); OItem 2; ONone]
  /\ m_run (entries_impl (fun x : N => x + 100)) [res_id 2 3 [1; 2; 3; 4; 5; 6]] [(0%nat, Len); (0%nat, NextBack); (0%nat, Nth 1); (0%nat, Next)]
     = Ok [ONum 3; OItem 105; OItem 104; ONone]
  /\ m_run (wrap_int_impl (fun x : N => x + 1) (fun x : N => (64, x)) (fun p : N * N => snd p)) [[1; 2; 3]] [(0%nat, SizeHint); (0%nat, Nth 2); (0%nat, Count)]
     = Ok [OHint 0 None; OItem 4; ONum 0].
Proof. vm_compute. repeat split; reflexivity. Qed.

(* F7 seen through the iterator: with a null name index table the code as it stood indexed name_indices[0] *)
Lemma nidx_orig_refuted :
  exp_nidx_next_orig 0 (fun p : N * N => p) [] (exp_names_start [10]) = Fault PIndex /\
  m_run (exp_nidx_impl (fun p : N * N => p)) [exp_nidx_start [10] []] [(0%nat, Next); (0%nat, SizeHint)] = Ok [ONone; OHint 0 (Some 0)].
Proof. vm_compute. split; reflexivity. Qed.

Corollary exp_nidx_no_fault {R I A} (g : N * I -> A) (names : list R) (idx : list I) hist : lenN names < W32 -> lenN idx < W64 ->
  no_fault (m_run (exp_nidx_impl g) [exp_nidx_start names idx] hist).
Proof. intros H1 H2 f. rewrite (exp_nidx_faithful g names idx hist H1 H2). discriminate. Qed.

(* icons(): a group directory of three entries; no group directory *)
Lemma ex_icons_run :
  m_run (icons_impl (fun x : N => x + 100)) [icons_start (Some [1; 2; 3])]
        [(0%nat, SizeHint); (0%nat, Next); (0%nat, SizeHint); (0%nat, Clone); (0%nat, Nth 5); (1%nat, Count); (1%nat, Next); (0%nat, SizeHint)]
  = Ok [OHint 0 None; OItem 101; OHint 2 (Some 2); OCloned; ONone; ONum 2; OItem 102; OHint 0 (Some 0)]
  /\ m_run (icons_impl (fun x : N => x + 100)) [icons_start None] [(0%nat, SizeHint); (0%nat, Next); (0%nat, Count)]
     = Ok [OHint 0 (Some 0); ONone; ONum 0].
Proof. vm_compute. split; reflexivity. Qed.

(* on an iterator that is not double-ended nth_back is not callable, in the model and in the deque alike, exactly as next_back *)
Lemma nth_back_unsupported {S A} (impl : iter_impl S A) (s : S) (l : list A) k : m_full impl = false ->
  m_step1 impl s (NthBack k) = Ok (s, OUnsupported) /\ step1 false l (NthBack k) = (l, OUnsupported) /\
  m_step1 impl s NextBack = Ok (s, OUnsupported) /\ step1 false l NextBack = (l, OUnsupported).
Proof. intros E. cbn [m_step1 step1]. rewrite E. repeat split; reflexivity. Qed.

(* nth_back: histories on the double-ended families in which nth_back changes what later calls see *)
Definition ex_nth_back_hist : list (nat * op) :=
  [(0%nat, Clone); (0%nat, NthBack 1); (0%nat, Len); (0%nat, NextBack); (0%nat, Next); (1%nat, NthBack 5); (1%nat, Next); (1%nat, SizeHint);
   (0%nat, NthBack 0); (0%nat, NthBack 0); (0%nat, NthBack (2 ^ 63))].
Lemma ex_nth_back_run :
  (* Exception::functions / Entries: Map<slice::Iter> with the inherited nth_back *)
  m_run (exc_functions_impl (fun x : N => x + 100)) [[1; 2; 3; 4; 5]] ex_nth_back_hist
  = Ok [OCloned; OItem 104; ONum 3; OItem 103; OItem 101; ONone; ONone; OHint 0 (Some 0); OItem 102; ONone; ONone]
  (* the same history without the first nth_back: the later calls answer differently *)
  /\ m_run (exc_functions_impl (fun x : N => x + 100)) [[1; 2; 3; 4; 5]] [(0%nat, Len); (0%nat, NextBack); (0%nat, Next)]
     = Ok [ONum 5; OItem 105; OItem 101]
  (* imports::Iter / debug::Iter (provided loop over their next_back), slice::Iter (its own nth_back), Range<u32> (backward_checked) *)
  /\ m_run (deleg_impl (fun x : N => x + 100)) [[1; 2; 3; 4; 5]] ex_nth_back_hist
     = Ok [OCloned; OItem 104; ONum 3; OItem 103; OItem 101; ONone; ONone; OHint 0 (Some 0); OItem 102; ONone; ONone]
  /\ m_run (@slice_impl N) [[1; 2; 3; 4; 5]] ex_nth_back_hist
     = Ok [OCloned; OItem 4; ONum 3; OItem 3; OItem 1; ONone; ONone; OHint 0 (Some 0); OItem 2; ONone; ONone]
  /\ m_run range_impl [(1, 6)] ex_nth_back_hist
     = Ok [OCloned; OItem 4; ONum 3; OItem 3; OItem 1; ONone; ONone; OHint 0 (Some 0); OItem 2; ONone; ONone]
  (* RichIter (provided loop over RichIter::next_back) *)
  /\ m_run rich_impl [(ex_words, ex_key)] [(0%nat, NthBack 1); (0%nat, Len); (0%nat, NextBack); (0%nat, NextBack)]
     = Ok [OItem {| r_build := 9; r_product := 258; r_count := 0 |}; ONum 1; OItem {| r_build := 7; r_product := 7; r_count := 3 |}; ONone]
  (* forward-only families: nth_back does not exist, exactly as next_back *)
  /\ m_run (exp_iter_impl (fun x : N => x)) [[1; 2; 3]] [(0%nat, NthBack 1); (0%nat, NextBack); (0%nat, Len); (0%nat, Next)]
     = Ok [OUnsupported; OUnsupported; OUnsupported; OItem 1].
Proof. vm_compute. repeat split; reflexivity. Qed.

(* to_strs: a 16-bit value with bits 1, 5, 13 set; the table names bits 0..7 and 13 only *)
Definition ex_flag_str (i : N) : option N := if (i <? 8) || (i =? 13) then Some (1000 + i) else None.
Lemma ex_to_strs_run :
  m_run (to_strs_impl ex_flag_str 8226) [to_strs_start 16]
        [(0%nat, SizeHint); (0%nat, Count); (0%nat, Clone); (0%nat, Next); (0%nat, SizeHint); (0%nat, Nth 1); (0%nat, SizeHint);
         (1%nat, Nth 2); (1%nat, Next); (0%nat, NextBack); (0%nat, NthBack 0)]
  = Ok [OHint 0 (Some 16); ONum 3; OCloned; OItem 1001; OHint 0 (Some 14); OItem 1013; OHint 0 (Some 2);
        OItem 1013; ONone; OUnsupported; OUnsupported]
  /\ fm_list (to_strs_f ex_flag_str 8226) (nseq 0 16) = [1001; 1005; 1013]
  /\ fm_list (to_strs_f ex_flag_str 65535) (nseq 0 16) = [1000; 1001; 1002; 1003; 1004; 1005; 1006; 1007; 1013].
Proof. vm_compute. repeat split; reflexivity. Qed.
