(* The constants the model of resources uses equal the named constants of the source, regenerated into gen/Consts.v (and
   gen/Layout.v) on every run.  One file per module, so that a changed constant breaks only the property that depends on it. *)
From PV.Model Require Import Machine.
From PV.gen Require Import Consts.
From PV.Model Require Resources.

Lemma resources_consts :
  N.of_nat Resources.FSCK_DEPTH = K_FSCK_MAX_DEPTH /\
  (forall id, Resources.rsrc_type id = match nth_error K_RSRC_TYPES (N.to_nat id) with Some (Some s) => Some s | _ => None end) /\
  Resources.RT_CURSOR = K_RT_CURSOR /\ Resources.RT_ICON = K_RT_ICON /\ Resources.RT_GROUP_CURSOR = K_RT_GROUP_CURSOR /\
  Resources.RT_GROUP_ICON = K_RT_GROUP_ICON /\ Resources.RT_VERSION = K_RT_VERSION /\ Resources.RT_MANIFEST = K_RT_MANIFEST.
Proof.
  split; [reflexivity|]. split; [|repeat split; reflexivity].
  intros id. destruct id as [|p]; [reflexivity|].
  (* ids 1..24 by computation, everything above is None on both sides *)
  destruct (Pos.leb p 25) eqn:E.
  - do 25 (destruct p as [p|p|]; try reflexivity); try discriminate.
  - assert (H : (25 <= N.to_nat (Npos p))%nat) by (apply Pos.leb_gt in E; lia).
    assert (Hn : nth_error K_RSRC_TYPES (N.to_nat (Npos p)) = None) by (apply nth_error_None; exact H).
    rewrite Hn. unfold Resources.rsrc_type.
    apply Pos.leb_gt in E.
    repeat (match goal with |- context [match ?x with _ => _ end] => destruct x end); try reflexivity; lia.
Qed.
