(* C11: the parser trims a trailing Pop (a pattern that ends in a closing brace). The interpreter does not see the
   difference: the invocation that would return at the Pop returns at the end of the pattern instead. *)
From PV.Model Require Import Machine Pattern Exec.
From PV.Spec Require Import PatSyntax PatSem.
From PV.Proofs Require Import BaseProofs PatSyntaxProofs PatSemProofs PatSemFull.
Ltac Zify.zify_post_hook ::= Z.div_mod_to_equations.

Lemma peek_byte_pop X : peek_byte (X ++ [Pop]) = peek_byte X.
Proof. induction X as [|a t IH]; [reflexivity|]. cbn [app peek_byte]. destruct a; try reflexivity. exact IH. Qed.

Section TrailPop.
  Variable sc : scan.
  Hypothesis Hsc : forall rva x, sc_read sc 1 rva = Some x -> rva + 1 < W32.
  Variable pat : list atom.
  Notation L := (length pat).
  Notation P' := (pat ++ [Pop]).

  Definition pcrel (pc1 pc2 : nat) : Prop := pc1 = pc2 \/ (pc2 = L /\ pc1 = S L).
  Definition rel (r' r : res xres) : Prop :=
    exists ok pc1 pc2 cur save, r' = Ok (ok, pc1, cur, save) /\ r = Ok (ok, pc2, cur, save) /\ pcrel pc1 pc2.

  Lemma many_rel run' run peek ba : (forall i s, rel (run' i s) (run i s)) ->
    forall cnt i save last' last, pcrel (fst last') (fst last) -> snd last' = snd last ->
    rel (many_loop run' peek ba cnt i save last') (many_loop run peek ba cnt i save last).
  Proof.
    intros H. induction cnt as [|cnt IH]; intros i save last' last Hp Hc; cbn [many_loop].
    - exists false, (fst last'), (fst last), (snd last), save. rewrite Hc. split; [reflexivity|split; [reflexivity|exact Hp]].
    - destruct (match peek with Some b => ba i =? b | None => true end); [|apply IH; assumption].
      destruct (H i save) as [ok [pc1 [pc2 [cur [sv [E1 [E2 Hr]]]]]]]. rewrite E1, E2. cbn [bind].
      destruct ok; [exists true, pc1, pc2, cur, sv; split; [reflexivity|split; [reflexivity|exact Hr]]|].
      apply IH; [exact Hr|reflexivity].
  Qed.

  Lemma trail : forall f f' pc cur mask ext save, (S (S L - pc) <= f')%nat -> (S (L - pc) <= f)%nat ->
    rel (exec sc P' f' pc cur mask ext save) (exec sc pat f pc cur mask ext save).
  Proof.
    induction f as [|f IH]; intros f' pc cur mask ext save Hf' Hf; [lia|]. destruct f' as [|f']; [lia|]. cbn [exec].
    destruct (Nat.lt_ge_cases pc L) as [Hpc|Hpc].
    2: { (* at or beyond the end of the shorter pattern *)
      rewrite (proj2 (nth_error_None pat pc) Hpc).
      destruct (Nat.eq_dec pc L) as [->|Hne].
      - rewrite nth_error_app2, Nat.sub_diag by lia. cbn [nth_error].
        exists true, (S L), L, cur, save. split; [reflexivity|split; [reflexivity|right; split; reflexivity]].
      - rewrite (proj2 (nth_error_None P' pc)) by (rewrite app_length; cbn [length]; lia).
        exists true, pc, pc, cur, save. split; [reflexivity|split; [reflexivity|left; reflexivity]]. }
    rewrite nth_error_app1 by exact Hpc.
    destruct (nth_error pat pc) as [a|] eqn:Ea; [|apply nth_error_None in Ea; lia].
    assert (Hsame : forall pc', (pc < pc')%nat -> forall c m e s, rel (exec sc P' f' pc' c m e s) (exec sc pat f pc' c m e s)).
    { intros pc' Hlt c m e s. apply IH; lia. }
    assert (Hcont : forall pc1 pc2, pcrel pc1 pc2 -> (pc < pc2)%nat -> forall c m e s, rel (exec sc P' f' pc1 c m e s) (exec sc pat f pc2 c m e s)).
    { intros pc1 pc2 [->|[-> ->]] Hlt c m e s; [apply Hsame; exact Hlt|].
      destruct f' as [|f'']; [lia|]. destruct f as [|f0]; [lia|]. cbn [exec].
      rewrite (proj2 (nth_error_None pat L) (le_n _)). rewrite (proj2 (nth_error_None P' (S L))) by (rewrite app_length; cbn [length]; lia).
      exists true, (S L), L, c, s. split; [reflexivity|split; [reflexivity|right; split; reflexivity]]. }
    assert (Hfail : forall c s, rel (Ok (false, S pc, c, s)) (Ok (false, S pc, c, s))).
    { intros c s. exists false, (S pc), (S pc), c, s. split; [reflexivity|split; [reflexivity|left; reflexivity]]. }
    destruct a.
    - destruct (sc_read sc 1 cur) as [x|] eqn:Er; [|apply Hfail].
      destruct (N.land x mask =? N.land b mask); [|apply Hfail].
      unfold chk_add. pose proof (Hsc cur x Er). destruct (cur + 1 <? W32) eqn:E; [|lia]. cbn [bind]. apply Hsame. lia.
    - apply Hsame. lia.
    - (* Push *) destruct (Hsame (S pc) ltac:(lia) cur 255 0 save) as [ok [pc1 [pc2 [c' [sv [E1 [E2 Hr]]]]]]]. rewrite E1, E2. cbn [bind].
      assert (Hlt : (pc < pc2)%nat).
      { pose proof (ExecProofs.exec_good sc pat Hsc f (S pc) cur 255 0 save ltac:(lia)) as [x [Hx Hp]]. rewrite E2 in Hx. injection Hx as <-.
        unfold ExecProofs.pc_of in Hp. cbn [fst snd] in Hp. lia. }
      destruct ok; [apply Hcont; assumption|]. exists false, pc1, pc2, c', sv. split; [reflexivity|split; [reflexivity|exact Hr]].
    - exists true, (S pc), (S pc), cur, save. split; [reflexivity|split; [reflexivity|left; reflexivity]].
    - apply Hsame. lia.
    - apply Hsame. lia.
    - apply Hsame. lia.
    - apply Hsame. lia.
    - (* Many *) destruct (sc_slice_len sc cur) as [slen|]; [|apply Hfail].
      assert (Epk : peek_byte (skipn (S pc) P') = peek_byte (skipn (S pc) pat)).
      { rewrite skipn_app. replace (S pc - L)%nat with 0%nat by lia. cbn [skipn]. apply peek_byte_pop. }
      rewrite Epk. apply many_rel; [intros i s; apply Hsame; lia|left; reflexivity|reflexivity].
    - destruct (sc_read sc 1 cur); [apply Hsame; lia|apply Hfail].
    - destruct (sc_read sc 4 cur); [apply Hsame; lia|apply Hfail].
    - destruct (sc_read sc (sc_va_bytes sc) cur); [|apply Hfail]. destruct (sc_pointer sc n); [apply Hsame; lia|apply Hfail].
    - destruct (sc_read sc 4 cur); [apply Hsame; lia|apply Hfail].
    - destruct (vtypename sc cur); [apply Hsame; lia|apply Hfail].
    - destruct (get_slot save s); [|apply Hsame; lia]. destruct (n =? cur); [apply Hsame; lia|apply Hfail].
    - destruct (N.land cur (if k <? 32 then 2 ^ k - 1 else W32 - 1) =? 0); [apply Hsame; lia|apply Hfail].
    - destruct (sc_read sc 1 cur); [apply Hsame; lia|apply Hfail].
    - destruct (sc_read sc 1 cur); [apply Hsame; lia|apply Hfail].
    - destruct (sc_read sc 2 cur); [apply Hsame; lia|apply Hfail].
    - destruct (sc_read sc 2 cur); [apply Hsame; lia|apply Hfail].
    - destruct (sc_read sc 4 cur); [apply Hsame; lia|apply Hfail].
    - destruct (sc_read sc 4 cur); [apply Hsame; lia|apply Hfail].
    - apply Hsame. lia.
    - (* Case *) destruct (Hsame (S pc) ltac:(lia) cur 255 0 save) as [ok [pc1 [pc2 [c' [sv [E1 [E2 Hr]]]]]]]. rewrite E1, E2. cbn [bind].
      assert (Hlt : (pc < pc2)%nat).
      { pose proof (ExecProofs.exec_good sc pat Hsc f (S pc) cur 255 0 save ltac:(lia)) as [x [Hx Hp]]. rewrite E2 in Hx. injection Hx as <-.
        unfold ExecProofs.pc_of in Hp. cbn [fst snd] in Hp. lia. }
      destruct ok; [apply Hcont; assumption|]. apply Hsame. lia.
    - eexists true, _, _, cur, save. split; [reflexivity|split; [reflexivity|left; reflexivity]].
    - apply Hsame. lia.
  Qed.

  (* Scanner::exec does not see a trailing Pop *)
  Lemma run_exec_trail_pop cursor save : run_exec sc (pat ++ [Pop]) cursor save = run_exec sc pat cursor save.
  Proof.
    unfold run_exec.
    destruct (trail (S L) (S (length P')) 0 cursor 255 0 save) as [ok [pc1 [pc2 [c' [sv [E1 [E2 _]]]]]]].
    - rewrite app_length. cbn [length]. lia.
    - lia.
    - rewrite E1, E2. reflexivity.
  Qed.
End TrailPop.

Lemma run_exec_trail_pops sc (Hsc : forall rva x, sc_read sc 1 rva = Some x -> rva + 1 < W32) n : forall pat cursor save,
  run_exec sc (pat ++ repeat Pop n) cursor save = run_exec sc pat cursor save.
Proof.
  induction n as [|n IH]; intros pat cursor save; [cbn [repeat]; rewrite app_nil_r; reflexivity|].
  change (repeat Pop (S n)) with ([Pop] ++ repeat Pop n). rewrite app_assoc, IH. apply run_exec_trail_pop. exact Hsc.
Qed.

(* the parser's trimming removes nothing but closing braces: the compiler output is r ++ Pop^n with r ending solid *)
Lemma strip_pops_rev_spec l : exists n, l = repeat Pop n ++ strip_pops_rev l.
Proof.
  induction l as [|a t [n IH]]; [exists 0%nat; reflexivity|].
  destruct a; try (exists 0%nat; reflexivity). exists (S n). cbn [strip_pops_rev repeat app]. rewrite <- IH. reflexivity.
Qed.
Lemma trim_rev_pops n r : trim_rev (repeat Pop n ++ r) = trim_rev r.
Proof. induction n as [|n IH]; [reflexivity|]. cbn [repeat app trim_rev is_redundant]. exact IH. Qed.
Lemma rev_repeat {A} (x : A) n : rev (repeat x n) = repeat x n.
Proof.
  induction n as [|n IH]; [reflexivity|]. cbn [repeat rev]. rewrite IH. clear IH.
  induction n as [|n IH]; [reflexivity|]. cbn [repeat app]. rewrite IH. reflexivity.
Qed.

Lemma compile_braces a : trims_only_braces a = true -> exists n, c_res (comp_seq a cinit) = compile a ++ repeat Pop n.
Proof.
  unfold trims_only_braces, compile, trim. generalize (c_res (comp_seq a cinit)). intros l H.
  destruct (strip_pops_rev_spec (rev l)) as [n E]. exists n.
  set (S := strip_pops_rev (rev l)) in *.
  assert (Et : trim_rev S = S).
  { destruct S as [|x t]; [reflexivity|]. cbn [trim_rev]. destruct (is_redundant x); [discriminate H|reflexivity]. }
  rewrite E, trim_rev_pops, Et. apply (f_equal (@rev atom)) in E. rewrite rev_involutive, rev_app_distr, rev_repeat in E. exact E.
Qed.

(* theorem 3b for patterns that end in closing braces *)
Theorem exec_compile_den_braces sc a cursor save : scan_wf sc -> wf a -> range_skip_in_last_alternative_with_suffix a = false ->
  trims_only_braces a = true -> cursor < W32 ->
  exists ok save', run_exec sc (compile a) cursor save = Ok (ok, save') /\
    match den_top sc a cursor with
    | Some lg => ok = true /\ log_ok lg save save'
    | None => ok = false
    end.
Proof.
  intros Hwf Hw Hc Ht Hcur.
  assert (Hsc : forall rva x, sc_read sc 1 rva = Some x -> rva + 1 < W32).
  { intros rva x H. exact (proj2 (proj1 Hwf rva x H)). }
  destruct (compile_braces a Ht) as [n E].
  rewrite <- (run_exec_trail_pops sc Hsc n (compile a) cursor save), <- E. apply exec_comp_den; assumption.
Qed.

Lemma untrimmed_braces a : untrimmed a = true -> trims_only_braces a = true.
Proof.
  unfold untrimmed, trims_only_braces, last_atom. destruct (rev (c_res (comp_seq a cinit))) as [|x t]; [reflexivity|].
  intros H. destruct x; try discriminate H; exact H.
Qed.
