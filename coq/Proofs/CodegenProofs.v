(* Proofs for the code generation step of C17: the text printed by the derived Debug inside the format string
   (Model/Codegen.v), read back by the independent reader of the Rust fragment (Spec/RustTokens.v), is the atom
   vector; composed with the theorems about the unescaper and the parser (UnescapeProofs.v). *)
From Coq Require Import String Ascii.
From PV.Model Require Import Machine Pattern Unescape Codegen.
From PV.Spec Require Import RustLiteral RustTokens.
From PV.Proofs Require Import BaseProofs PatternProofs UnescapeProofs.
Ltac Zify.zify_post_hook ::= Z.div_mod_to_equations.

(* ---------------------------------------------------------------- option plumbing *)
Lemma with_tokens_nil r : with_tokens [] r = r.
Proof. destruct r; reflexivity. Qed.
Lemma with_tokens_emit a b r : with_tokens a (with_tokens b r) = with_tokens (a ++ b) r.
Proof. destruct r as [l|]; [|reflexivity]. unfold with_tokens. cbn [option_map]. rewrite app_assoc. reflexivity. Qed.
Lemma with_tokens_some a l : with_tokens a (Some l) = Some (a ++ l).
Proof. reflexivity. Qed.

(* ---------------------------------------------------------------- decimal: print, then read *)
Definition dstep (v d : N) : N := v * 10 + (d - 48).

Lemma dec_loop_digits : forall fuel n acc, Forall (fun d => tk_digit d = true) acc ->
  Forall (fun d => tk_digit d = true) (dec_loop fuel n acc).
Proof.
  induction fuel as [|f IH]; intros n acc H; cbn [dec_loop]; [exact H|].
  assert (Hd : Forall (fun d => tk_digit d = true) ((48 + n mod 10) :: acc)).
  { constructor; [|exact H]. unfold tk_digit. apply andb_true_intro. split; [apply N.leb_le|apply N.leb_le]; lia. }
  destruct (n / 10 =? 0); [exact Hd|]. apply IH. exact Hd.
Qed.

Lemma dec_loop_nonempty : forall fuel n acc, fuel <> O -> dec_loop fuel n acc <> [].
Proof.
  destruct fuel as [|f]; intros n acc H; [congruence|]. cbn [dec_loop].
  destruct (n / 10 =? 0); [discriminate|].
  clear H. generalize (n / 10) ((48 + n mod 10) :: acc) (@nil_cons _ (48 + n mod 10) acc).
  induction f as [|f IH]; intros m l Hl; cbn [dec_loop]; [congruence|].
  destruct (m / 10 =? 0); [discriminate|]. apply IH. discriminate.
Qed.

(* reading the printed digits from the left, starting at 0, gives n back (no power of ten needed: the accumulator of
   the reader after the digits of n, continued over [acc], is the reader started at n over [acc]) *)
Lemma dec_loop_value : forall fuel n acc, n < 2 ^ N.of_nat fuel ->
  fold_left dstep (dec_loop fuel n acc) 0 = fold_left dstep acc n.
Proof.
  induction fuel as [|f IH]; intros n acc H.
  - cbn [dec_loop]. change (2 ^ N.of_nat 0) with 1 in H. assert (n = 0) by lia. subst. reflexivity.
  - cbn [dec_loop]. rewrite Nat2N.inj_succ, N.pow_succ_r' in H.
    destruct (N.eqb_spec (n / 10) 0) as [E|E].
    + cbn [fold_left]. unfold dstep at 2. f_equal. lia.
    + rewrite IH by lia. cbn [fold_left]. f_equal. unfold dstep. lia.
Qed.

Lemma fmt_dec_fuel n : n < 2 ^ N.of_nat (S (N.to_nat (N.log2 n))).
Proof.
  rewrite Nat2N.inj_succ, N2Nat.id.
  destruct (N.eq_dec n 0) as [->|Hn]; [reflexivity|].
  apply N.log2_spec. lia.
Qed.
Lemma fmt_dec_value n : fold_left dstep (fmt_dec n) 0 = n.
Proof. unfold fmt_dec. rewrite dec_loop_value by apply fmt_dec_fuel. reflexivity. Qed.
Lemma fmt_dec_digits n : Forall (fun d => tk_digit d = true) (fmt_dec n).
Proof. apply dec_loop_digits. constructor. Qed.
Lemma fmt_dec_nonempty n : fmt_dec n <> [].
Proof. apply dec_loop_nonempty. discriminate. Qed.

Lemma digit_not_ident_start d : tk_digit d = true -> tk_ident_start d = false.
Proof. unfold tk_digit, tk_ident_start. lia. Qed.

Lemma lex_int_run : forall ds rest v, Forall (fun d => tk_digit d = true) ds ->
  lex (ds ++ rest) (LInt v) = lex rest (LInt (fold_left dstep ds v)).
Proof.
  induction ds as [|d ds IH]; intros rest v H; [reflexivity|].
  inversion H as [|? ? Hd Hds]; subst. cbn [app lex fold_left].
  rewrite (digit_not_ident_start d Hd), Hd. apply IH. exact Hds.
Qed.

(* the decimal round trip, for every N: the reader that has just started a token reads the printed number as [TInt n]
   (the token is completed by whatever follows) *)
Lemma lex_fmt_dec n rest : lex (fmt_dec n ++ rest) LNone = lex rest (LInt n).
Proof.
  pose proof (fmt_dec_value n) as Hv. pose proof (fmt_dec_digits n) as Hd. pose proof (fmt_dec_nonempty n) as Hn.
  destruct (fmt_dec n) as [|d ds]; [congruence|].
  apply Forall_cons_iff in Hd. destruct Hd as [Hd1 Hds]. cbn [app lex].
  rewrite (digit_not_ident_start d Hd1), Hd1. rewrite lex_int_run by exact Hds.
  cbn [fold_left] in Hv. unfold dstep at 2 in Hv. replace (0 * 10 + (d - 48)) with (d - 48) in Hv by lia.
  rewrite Hv. reflexivity.
Qed.

(* what the printer prints is a decimal number in the strict sense: no leading zero except for 0 itself *)
Lemma fmt_dec_zero : fmt_dec 0 = [48].
Proof. reflexivity. Qed.

(* ---------------------------------------------------------------- one atom *)
Definition atom_name (a : atom) : string :=
  match a with
  | Byte _ => "Byte" | Save _ => "Save" | Push _ => "Push" | Pop => "Pop" | Fuzzy _ => "Fuzzy" | Skip _ => "Skip"
  | Back _ => "Back" | Rangext _ => "Rangext" | Many _ => "Many" | Jump1 => "Jump1" | Jump4 => "Jump4" | Ptr => "Ptr"
  | Pir _ => "Pir" | VTypeName => "VTypeName" | Check _ => "Check" | Aligned _ => "Aligned" | ReadI8 _ => "ReadI8"
  | ReadU8 _ => "ReadU8" | ReadI16 _ => "ReadI16" | ReadU16 _ => "ReadU16" | ReadI32 _ => "ReadI32"
  | ReadU32 _ => "ReadU32" | Zero _ => "Zero" | Case _ => "Case" | Break _ => "Break" | Nop => "Nop"
  end.
Definition atom_tokens (a : atom) : list token :=
  match atom_field a with
  | Some x => [TIdent (text_of (atom_name a)); TPunct 40; TInt x; TPunct 41]
  | None => [TIdent (text_of (atom_name a))]
  end.

Lemma debug_atom_shape a :
  debug_atom a = match atom_field a with
                 | Some x => debug_tuple1 (bytes_of_string (atom_name a)) x
                 | None => debug_unit (bytes_of_string (atom_name a))
                 end.
Proof. destruct a; reflexivity. Qed.

(* the printed variant name is read as one identifier (ended by whatever follows) *)
Lemma lex_atom_name a rest :
  lex (bytes_of_string (atom_name a) ++ rest) LNone = lex rest (LIdent (text_of (atom_name a))).
Proof. destruct a; reflexivity. Qed.

(* text that starts with `,` or `]`: it ends the token under construction *)
Definition delim_start (y : list N) : Prop := exists c r, y = c :: r /\ (c = 44 \/ c = 93).
Lemma lex_comma r st : lex (44 :: r) st = with_tokens (finish_token st ++ [TPunct 44]) (lex r LNone).
Proof. reflexivity. Qed.
Lemma lex_bracket r st : lex (93 :: r) st = with_tokens (finish_token st ++ [TPunct 93]) (lex r LNone).
Proof. reflexivity. Qed.
Lemma lex_delim y st : delim_start y -> lex y st = with_tokens (finish_token st) (lex y LNone).
Proof.
  intros (c & r & -> & [->| ->]).
  - rewrite (lex_comma r st), (lex_comma r LNone), with_tokens_emit. reflexivity.
  - rewrite (lex_bracket r st), (lex_bracket r LNone), with_tokens_emit. reflexivity.
Qed.

Lemma lex_debug_atom a y : delim_start y ->
  lex (debug_atom a ++ y) LNone = with_tokens (atom_tokens a) (lex y LNone).
Proof.
  intros Hy. rewrite debug_atom_shape. unfold atom_tokens. destruct (atom_field a) as [x|].
  - unfold debug_tuple1. rewrite <- !app_assoc. rewrite lex_atom_name.
    change (lex ([40] ++ fmt_dec x ++ [41] ++ y) (LIdent (text_of (atom_name a))))
      with (with_tokens ([TIdent (text_of (atom_name a))] ++ [TPunct 40]) (lex (fmt_dec x ++ [41] ++ y) LNone)).
    rewrite lex_fmt_dec.
    change (lex ([41] ++ y) (LInt x)) with (with_tokens ([TInt x] ++ [TPunct 41]) (lex y LNone)).
    rewrite with_tokens_emit. reflexivity.
  - unfold debug_unit. rewrite lex_atom_name. rewrite (lex_delim y _ Hy). reflexivity.
Qed.

(* every variant resolves to itself when its field fits the field type *)
Lemma resolve_atom a : atom_u8 a ->
  resolve (text_of (atom_name a)) (option_map (fun x => [x]) (atom_field a)) = Some a.
Proof.
  destruct a; unfold atom_u8; cbn [atom_field atom_name option_map]; intros H; unfold resolve;
  match goal with |- context [lookup_variant ?n ?t] => let v := eval vm_compute in (lookup_variant n t) in change (lookup_variant n t) with v end;
  cbv beta iota; try reflexivity;
  cbn [int_max]; match goal with |- context [?x <=? 255] => destruct (N.leb_spec x 255); [reflexivity|lia] end.
Qed.
(* ... and to nothing when it does not: the text of an out-of-range vector does not compile *)
Lemma resolve_out_of_range a x : atom_field a = Some x -> 256 <= x ->
  resolve (text_of (atom_name a)) (Some [x]) = None.
Proof.
  destruct a; cbn [atom_field atom_name]; intros [= <-] H; unfold resolve;
  match goal with |- context [lookup_variant ?n ?t] => let v := eval vm_compute in (lookup_variant n t) in change (lookup_variant n t) with v end;
  cbv beta iota; cbn [int_max]; match goal with |- context [?x <=? 255] => destruct (N.leb_spec x 255); [lia|reflexivity] end.
Qed.

(* ---------------------------------------------------------------- the list *)
Fixpoint entries_tokens (l : list atom) (has_fields : bool) : list token :=
  match l with
  | [] => []
  | a :: t => (if has_fields then [TPunct 44] else []) ++ atom_tokens a ++ entries_tokens t true
  end.

Definition tail_text : list N := [93; 32; 125].            (* ] } *)
Definition tail_tokens : list token := [TPunct 93; TPunct 125].

Lemma entries_delim l : delim_start (debug_entries l true ++ tail_text).
Proof.
  destruct l as [|a t]; cbn [debug_entries app].
  - exists 93, [32; 125]. split; [reflexivity|right; reflexivity].
  - eexists 44, _. split; [reflexivity|left; reflexivity].
Qed.

Lemma lex_entries : forall l hf,
  lex (debug_entries l hf ++ tail_text) LNone = Some (entries_tokens l hf ++ tail_tokens).
Proof.
  induction l as [|a t IH]; intros hf; [reflexivity|].
  cbn [debug_entries entries_tokens]. rewrite <- !app_assoc.
  assert (H : lex (debug_atom a ++ debug_entries t true ++ tail_text) LNone
              = Some (atom_tokens a ++ entries_tokens t true ++ tail_tokens)).
  { rewrite lex_debug_atom by apply entries_delim. rewrite IH. reflexivity. }
  destruct hf; [|exact H].
  change (lex ([44; 32] ++ debug_atom a ++ debug_entries t true ++ tail_text) LNone)
    with (with_tokens ([] ++ [TPunct 44]) (with_tokens [] (lex (debug_atom a ++ debug_entries t true ++ tail_text) LNone))).
  rewrite H. reflexivity.
Qed.

(* the format string has exactly one hole and two escaped braces on each side *)
Definition head_text : list N := bytes_of_string "{ use ::pelite::pattern::Atom::*; &".
Lemma rust_format_ok arg :
  rust_format format_string arg = Some (head_text ++ arg ++ [32; 125]).
Proof. reflexivity. Qed.
Lemma expansion_eq atoms : expansion atoms = head_text ++ debug_atoms atoms ++ [32; 125].
Proof. unfold expansion. rewrite rust_format_ok. reflexivity. Qed.
Lemma expansion_shape atoms : expansion atoms = head_text ++ [91] ++ debug_entries atoms false ++ tail_text.
Proof. rewrite expansion_eq. unfold debug_atoms. rewrite <- !app_assoc. reflexivity. Qed.

(* single steps of the reader on the constant part of the text *)
Lemma lex_punct c r st : tk_ident_start c = false -> tk_digit c = false -> tk_ws c = false -> tk_punct c = true ->
  lex (c :: r) st = with_tokens (finish_token st ++ [TPunct c]) (lex r LNone).
Proof. intros H1 H2 H3 H4. cbn [lex]. rewrite H1, H2, H3, H4. reflexivity. Qed.
Lemma lex_space r st : lex (32 :: r) st = with_tokens (finish_token st) (lex r LNone).
Proof. reflexivity. Qed.
Lemma lex_pathsep r st : lex (58 :: 58 :: r) st = with_tokens (finish_token st ++ [TPathSep]) (lex r LNone).
Proof. reflexivity. Qed.
Lemma lex_word_use r : lex (text_of "use" ++ r) LNone = lex r (LIdent (text_of "use")). Proof. reflexivity. Qed.
Lemma lex_word_pelite r : lex (text_of "pelite" ++ r) LNone = lex r (LIdent (text_of "pelite")). Proof. reflexivity. Qed.
Lemma lex_word_pattern r : lex (text_of "pattern" ++ r) LNone = lex r (LIdent (text_of "pattern")). Proof. reflexivity. Qed.
Lemma lex_word_Atom r : lex (text_of "Atom" ++ r) LNone = lex r (LIdent (text_of "Atom")). Proof. reflexivity. Qed.

Lemma head_text_eq rest :
  head_text ++ [91] ++ rest
  = 123 :: 32 :: text_of "use" ++ 32 :: 58 :: 58 :: text_of "pelite" ++ 58 :: 58 :: text_of "pattern" ++ 58 :: 58 ::
    text_of "Atom" ++ 58 :: 58 :: 42 :: 59 :: 32 :: 38 :: 91 :: rest.
Proof. reflexivity. Qed.

Lemma lex_head rest : lex (head_text ++ [91] ++ rest) LNone = with_tokens block_head (lex rest LNone).
Proof.
  rewrite head_text_eq.
  rewrite (lex_punct 123) by reflexivity. rewrite lex_space, lex_word_use, lex_space, lex_pathsep, lex_word_pelite,
    lex_pathsep, lex_word_pattern, lex_pathsep, lex_word_Atom, lex_pathsep.
  rewrite (lex_punct 42) by reflexivity. rewrite (lex_punct 59) by reflexivity. rewrite lex_space.
  rewrite (lex_punct 38) by reflexivity. rewrite (lex_punct 91) by reflexivity.
  rewrite !with_tokens_emit. reflexivity.
Qed.

Theorem tokenize_expansion atoms :
  tokenize (expansion atoms) = Some (block_head ++ entries_tokens atoms false ++ tail_tokens).
Proof. unfold tokenize. rewrite expansion_shape, lex_head, lex_entries. reflexivity. Qed.

(* ---------------------------------------------------------------- evaluating the tokens *)
Lemma eval_call n x ts acc :
  eval_array ([TIdent n; TPunct 40; TInt x; TPunct 41] ++ ts) SElem acc
  = with_atom (resolve n (Some [x])) (fun a => eval_array ts SSep (acc ++ [a])).
Proof. reflexivity. Qed.
Lemma eval_path_comma n ts acc :
  eval_array ([TIdent n] ++ TPunct 44 :: ts) SElem acc = with_atom (resolve n None) (fun a => eval_array ts SElem (acc ++ [a])).
Proof. reflexivity. Qed.
Lemma eval_path_close n acc :
  eval_array ([TIdent n] ++ tail_tokens) SElem acc = with_atom (resolve n None) (fun a => Some (acc ++ [a])).
Proof. reflexivity. Qed.

Lemma eval_atom_comma a ts acc : atom_u8 a ->
  eval_array (atom_tokens a ++ TPunct 44 :: ts) SElem acc = eval_array ts SElem (acc ++ [a]).
Proof.
  intros H. pose proof (resolve_atom a H) as R. unfold atom_tokens. destruct (atom_field a) as [x|]; cbn [option_map] in R.
  - rewrite eval_call, R. reflexivity.
  - rewrite eval_path_comma, R. reflexivity.
Qed.
Lemma eval_atom_close a acc : atom_u8 a ->
  eval_array (atom_tokens a ++ tail_tokens) SElem acc = Some (acc ++ [a]).
Proof.
  intros H. pose proof (resolve_atom a H) as R. unfold atom_tokens. destruct (atom_field a) as [x|]; cbn [option_map] in R.
  - rewrite eval_call, R. reflexivity.
  - rewrite eval_path_close, R. reflexivity.
Qed.

Lemma eval_entries : forall l a acc, Forall atom_u8 (a :: l) ->
  eval_array (atom_tokens a ++ entries_tokens l true ++ tail_tokens) SElem acc = Some (acc ++ a :: l).
Proof.
  induction l as [|b t IH]; intros a acc H; inversion H as [|? ? Ha Hl]; subst.
  - cbn [entries_tokens app]. rewrite eval_atom_close by exact Ha. reflexivity.
  - cbn [entries_tokens]. rewrite <- !app_assoc. cbn [app].
    rewrite eval_atom_comma by exact Ha. rewrite IH by exact Hl. rewrite <- app_assoc. reflexivity.
Qed.

Lemma expect_head ts : expect_tokens block_head (block_head ++ ts) = Some ts.
Proof. reflexivity. Qed.

Theorem eval_tokens_roundtrip atoms : Forall atom_u8 atoms ->
  eval_tokens (block_head ++ entries_tokens atoms false ++ tail_tokens) = Some atoms.
Proof.
  intros H. unfold eval_tokens. rewrite expect_head. destruct atoms as [|a l]; [reflexivity|].
  cbn [entries_tokens]. rewrite <- !app_assoc. cbn [app]. apply (eval_entries l a [] H).
Qed.

(* ---------------------------------------------------------------- the round trip *)
(* the text printed for an atom vector whose fields fit their type, read as Rust, is that vector *)
Theorem codegen_roundtrip atoms : Forall atom_u8 atoms -> eval_expansion (expansion atoms) = Some atoms.
Proof. intros H. unfold eval_expansion. rewrite tokenize_expansion. apply eval_tokens_roundtrip. exact H. Qed.

(* two different vectors are never printed as the same text *)
Corollary expansion_injective a b : Forall atom_u8 a -> Forall atom_u8 b -> expansion a = expansion b -> a = b.
Proof.
  intros Ha Hb E. apply codegen_roundtrip in Ha. apply codegen_roundtrip in Hb. rewrite E in Ha. congruence.
Qed.

(* ... and only those: the text of a vector with a field outside its type does not compile *)
Lemma atom_u8_dec a : atom_u8 a \/ ~ atom_u8 a.
Proof. unfold atom_u8. destruct (atom_field a) as [x|]; [|left; exact I]. destruct (N.ltb_spec x 256); [left|right]; lia. Qed.
Lemma eval_atom_bad a ts acc : ~ atom_u8 a -> eval_array (atom_tokens a ++ ts) SElem acc = None.
Proof.
  intros H. unfold atom_tokens. unfold atom_u8 in H. destruct (atom_field a) as [x|] eqn:E; [|exfalso; apply H; exact I].
  rewrite eval_call, (resolve_out_of_range a x E) by lia. reflexivity.
Qed.
Lemma eval_entries_bad : forall l a acc, ~ Forall atom_u8 (a :: l) ->
  eval_array (atom_tokens a ++ entries_tokens l true ++ tail_tokens) SElem acc = None.
Proof.
  induction l as [|b t IH]; intros a acc H; destruct (atom_u8_dec a) as [Ha|Ha]; try (apply eval_atom_bad; exact Ha).
  - exfalso. apply H. constructor; [exact Ha|constructor].
  - cbn [entries_tokens]. rewrite <- !app_assoc. cbn [app]. rewrite eval_atom_comma by exact Ha.
    apply IH. intros Hl. apply H. constructor; assumption.
Qed.
Theorem codegen_refuses atoms : ~ Forall atom_u8 atoms -> eval_expansion (expansion atoms) = None.
Proof.
  intros H. unfold eval_expansion. rewrite tokenize_expansion. unfold eval_tokens. rewrite expect_head.
  destruct atoms as [|a l]; [exfalso; apply H; constructor|].
  cbn [entries_tokens]. rewrite <- !app_assoc. cbn [app]. apply eval_entries_bad. exact H.
Qed.
Theorem codegen_roundtrip_iff atoms : eval_expansion (expansion atoms) = Some atoms <-> Forall atom_u8 atoms.
Proof.
  split; [|apply codegen_roundtrip]. intros H.
  assert (D : Forall atom_u8 atoms \/ ~ Forall atom_u8 atoms).
  { clear H. induction atoms as [|a t [IH|IH]]; [left; constructor| |].
    - destruct (atom_u8_dec a); [left; constructor; assumption|right; intros Hf; apply Forall_cons_iff in Hf; tauto].
    - right. intros Hf. apply Forall_cons_iff in Hf. tauto. }
  destruct D as [D|D]; [exact D|]. rewrite (codegen_refuses atoms D) in H. discriminate.
Qed.

(* the decimal round trip as a statement about whole texts: the printed number is one integer token with that value *)
Theorem decimal_roundtrip n : tokenize (fmt_dec n) = Some [TInt n].
Proof. unfold tokenize. rewrite <- (app_nil_r (fmt_dec n)), lex_fmt_dec. reflexivity. Qed.

(* the range hypothesis is needed: a field that does not fit a u8 is printed as a literal that does not compile
   (it cannot arise from a Rust value; it can in the model, whose fields are unbounded N) *)
Lemma out_of_range_refused : eval_expansion (expansion [Save 0; Byte 256]) = None.
Proof. vm_compute. reflexivity. Qed.

Lemma atoms_eqb_refl : forall l, atoms_eqb atom_eqb l l = true.
Proof. induction l as [|a t IH]; [reflexivity|]. cbn [atoms_eqb]. rewrite atom_eqb_refl, IH. reflexivity. Qed.
Theorem codegen_oracle_holds atoms : Forall atom_u8 atoms -> codegen_oracle atom_eqb (expansion atoms) atoms = true.
Proof. intros H. unfold codegen_oracle. rewrite codegen_roundtrip by exact H. apply atoms_eqb_refl. Qed.

(* ---------------------------------------------------------------- composition with the unescaper and the parser *)
From PV.Proofs Require Import PatRangeProofs.

Lemma scalar_lt c : scalar c -> c < 1114112.
Proof. unfold scalar. lia. Qed.
Lemma utf8_encode_lt256 : forall cs, Forall scalar cs -> Forall lt256 (utf8_encode cs).
Proof.
  induction cs as [|c t IH]; intros H; [constructor|]. apply Forall_cons_iff in H. destruct H as [Hc Ht].
  unfold utf8_encode. cbn [flat_map]. apply Forall_app. split; [|apply IH, Ht].
  apply scalar_lt in Hc. unfold utf8_encode_char, lt256.
  destruct (c <? 128) eqn:E1; [repeat constructor; lia|].
  destruct (c <? 2048) eqn:E2; [repeat constructor; lia|].
  destruct (c <? 65536) eqn:E3; repeat constructor; lia.
Qed.

Lemma escape_scalar e v : escape e = inr v -> scalar v.
Proof.
  unfold escape, scalar.
  repeat match goal with |- (if ?c then _ else _) = _ -> _ => destruct c end; intros [= <-]; lia.
Qed.
Lemma unescape_loop_scalar : forall n cs acc s rest, (length cs <= n)%nat -> Forall scalar cs -> Forall scalar acc ->
  unescape_loop cs acc = inr (s, rest) -> Forall scalar s.
Proof.
  induction n as [|n IH]; intros cs acc s rest Hn Hcs Hacc H.
  - destruct cs; [discriminate|cbn [length] in Hn; lia].
  - destruct cs as [|c t]; [discriminate|]. cbn [length] in Hn. cbn [unescape_loop] in H.
    apply Forall_cons_iff in Hcs. destruct Hcs as [Hc Ht].
    destruct (c =? 92).
    + destruct t as [|e t']; [discriminate|]. cbn [length] in Hn. apply Forall_cons_iff in Ht. destruct Ht as [He Ht'].
      destruct (escape e) as [r|v] eqn:E; [discriminate|].
      apply IH in H; [exact H|lia|exact Ht'|]. apply Forall_app. split; [exact Hacc|].
      constructor; [exact (escape_scalar e v E)|constructor].
    + destruct (c =? 34); [injection H as <- _; exact Hacc|].
      apply IH in H; [exact H|lia|exact Ht|]. apply Forall_app. split; [exact Hacc|]. constructor; [exact Hc|constructor].
Qed.
(* the String the unescaper builds holds chars, given that the token does (both are Rust `char`s by type) *)
Lemma parse_str_literal_scalar lit s : Forall scalar lit -> parse_str_literal lit = inr s -> Forall scalar s.
Proof.
  intros Hl H. unfold parse_str_literal in H. destruct lit as [|q t]; [discriminate|].
  apply Forall_cons_iff in Hl. destruct Hl as [_ Ht].
  destruct (q =? 34); [|discriminate].
  destruct (unescape_loop t []) as [r|[s' rest]] eqn:E; [discriminate|].
  destruct rest; [|discriminate]. injection H as <-.
  exact (unescape_loop_scalar (length t) t [] s' [] (Nat.le_refl _) Ht (Forall_nil _) E).
Qed.

(* what the macro hands to the code generator fits the field types *)
Theorem macro_atoms_u8 lit atoms : Forall scalar lit -> macro_model lit = MExpands atoms -> Forall atom_u8 atoms.
Proof.
  intros Hl H. rewrite macro_is_parse_of_unescape in H.
  destruct (parse_str_literal lit) as [r|s] eqn:E; [discriminate|].
  destruct (parse (utf8_encode s)) as [[[e pos]|a]|e|f] eqn:Ep; cbn [of_parse] in H; try discriminate.
  injection H as <-. apply (parse_u8 (utf8_encode s)); [|exact Ep].
  apply utf8_encode_lt256. exact (parse_str_literal_scalar lit s Hl E).
Qed.

(* the text the macro returns, read as Rust, is the vector the macro computed *)
Theorem macro_text_roundtrip lit atoms : Forall scalar lit -> macro_model lit = MExpands atoms ->
  macro_expansion lit = TExpands (expansion atoms) /\ eval_expansion (expansion atoms) = Some atoms.
Proof.
  intros Hl H. split; [unfold macro_expansion; rewrite H; reflexivity|].
  apply codegen_roundtrip. exact (macro_atoms_u8 lit atoms Hl H).
Qed.

(* (3) through the printed text: for every Rust string literal outside the known class, the text the macro returns
   evaluates to exactly the atoms the run-time parser returns for the literal's value; the call does not compile when
   the run-time parser rejects the value *)
Theorem macro_text_eq_runtime_parse lit s : Forall scalar lit -> rust_unescape lit = Some s ->
  escape_not_supported_by_macro lit = false ->
  exists r, parse (utf8_encode s) = Ok r /\
    match r with
    | inr atoms => exists text, macro_expansion lit = TExpands text /\ eval_expansion text = Some atoms
    | inl (e, pos) => macro_expansion lit = TPattern e pos
    end.
Proof.
  intros Hl Hu Hk. destruct (macro_eq_runtime_parse lit s Hu Hk) as (r & Hr & Hm).
  exists r. split; [exact Hr|]. destruct r as [[e pos]|atoms].
  - unfold macro_expansion. rewrite Hm. reflexivity.
  - destruct (macro_text_roundtrip lit atoms Hl Hm) as [H1 H2]. exists (expansion atoms). split; assumption.
Qed.

(* conversely: whatever text the macro returns - for ANY token - evaluates to the run-time parser's result on Rust's
   reading of the token *)
Theorem macro_text_is_runtime_parse lit text : ~ In 13 lit -> Forall scalar lit -> macro_expansion lit = TExpands text ->
  exists s atoms, rust_unescape lit = Some s /\ parse (utf8_encode s) = Ok (inr atoms) /\ eval_expansion text = Some atoms.
Proof.
  intros Hcr Hl H. unfold macro_expansion in H. destruct (macro_model lit) as [atoms|r|e pos|f] eqn:Em; try discriminate.
  injection H as <-. destruct (macro_expansion_is_runtime_parse lit atoms Hcr Em) as (s & Hs & Hp).
  exists s, atoms. split; [exact Hs|]. split; [exact Hp|]. apply (macro_text_roundtrip lit atoms Hl Em).
Qed.

(* totality of the whole macro model: an expansion text or an explicit refusal, never a fault; and the text it returns
   always lexes and evaluates (the `.parse().unwrap()` of lib.rs:31 does not panic on it) *)
Theorem macro_expansion_no_fault lit f : macro_expansion lit <> TFault f.
Proof.
  unfold macro_expansion. destruct (macro_model lit) eqn:E; try discriminate.
  intros [= ->]. exact (macro_no_fault lit f E).
Qed.
Theorem macro_text_compiles lit text : Forall scalar lit -> macro_expansion lit = TExpands text ->
  exists ts atoms, tokenize text = Some ts /\ eval_tokens ts = Some atoms /\ macro_model lit = MExpands atoms.
Proof.
  intros Hl H. unfold macro_expansion in H. destruct (macro_model lit) as [atoms|r|e pos|f] eqn:Em; try discriminate.
  injection H as <-. eexists _, atoms. split; [apply tokenize_expansion|]. split; [|reflexivity].
  apply eval_tokens_roundtrip. exact (macro_atoms_u8 lit atoms Hl Em).
Qed.
