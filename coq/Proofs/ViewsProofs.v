(* Proofs for C05. *)
From PV.Model Require Import Machine Mapping Views.
From PV.Spec Require Import MappingSpec ViewSpec.
From PV.Proofs Require Import BaseProofs MappingProofs.
Ltac Zify.zify_post_hook ::= Z.div_mod_to_equations.

Definition view_ok (v : view) : Prop :=
  (v_w v = W32 \/ v_w v = W64) /\ v_base v < v_w v /\ v_soi v < W32 /\ v_soh v < W32 /\
  Forall section_ok (v_secs v).

Theorem rva_to_va_correct v rva : rva_to_va v rva = rva_to_va_spec v rva.
Proof.
  unfold rva_to_va, rva_to_va_spec, checked_add. destruct (rva =? 0); [reflexivity|].
  destruct (rva <? v_soi v) eqn:E1; destruct (v_soi v <=? rva) eqn:E2; try lia; [|reflexivity].
  destruct (v_base v + rva <? v_w v) eqn:E3; destruct (v_w v <=? v_base v + rva) eqn:E4; try lia; reflexivity.
Qed.

Theorem va_to_rva_correct v va : view_ok v -> va_to_rva v va = va_to_rva_spec v va.
Proof.
  intros [Hw [Hb [Hsoi _]]]. unfold va_to_rva, va_to_rva_spec. destruct (va =? 0); [reflexivity|].
  destruct (va <? v_base v) eqn:E1; cbn [orb]; [reflexivity|].
  destruct (v_soi v <? va - v_base v) eqn:E2; destruct (v_base v + v_soi v <? va) eqn:E3; try lia; [reflexivity|].
  rewrite N.mod_small by (unfold W32 in *; lia). reflexivity.
Qed.

(* rva -> va -> rva and va -> rva -> va are the identity on (0, SizeOfImage) *)
Theorem rva_va_roundtrip v r : view_ok v -> 0 < r -> r < v_soi v -> v_base v + r < v_w v ->
  rva_to_va v r = Ok (v_base v + r) /\ va_to_rva v (v_base v + r) = Ok r.
Proof.
  intros Hok H0 H1 H2. rewrite rva_to_va_correct, va_to_rva_correct by exact Hok.
  unfold rva_to_va_spec, va_to_rva_spec.
  destruct (r =? 0) eqn:E0; [lia|]. destruct (v_soi v <=? r) eqn:E1; [lia|].
  destruct (v_w v <=? v_base v + r) eqn:E2; [lia|]. split; [reflexivity|].
  destruct (v_base v + r =? 0) eqn:E3; [lia|].
  destruct ((v_base v + r <? v_base v) || (v_base v + v_soi v <? v_base v + r)) eqn:E4; [lia|].
  f_equal. lia.
Qed.

Theorem va_rva_roundtrip v va r : view_ok v -> va < v_w v -> va_to_rva v va = Ok r -> 0 < r -> r < v_soi v ->
  rva_to_va v r = Ok va.
Proof.
  intros Hok Hva H H0 H1. pose proof Hok as [Hw [Hb [Hsoi _]]].
  rewrite va_to_rva_correct in H by exact Hok. rewrite rva_to_va_correct.
  unfold rva_to_va_spec, va_to_rva_spec in *.
  destruct (va =? 0) eqn:E0; [discriminate|].
  destruct ((va <? v_base v) || (v_base v + v_soi v <? va)) eqn:E4; [discriminate|]. injection H as <-.
  destruct (va - v_base v =? 0) eqn:E1; [lia|]. destruct (v_soi v <=? va - v_base v) eqn:E2; [lia|].
  destruct (v_w v <=? v_base v + (va - v_base v)) eqn:E3; [lia|]. f_equal. lia.
Qed.

Theorem slice_section_correct addr len rva min_size align :
  slice_section addr len rva min_size align = slice_section_spec addr len rva min_size align.
Proof.
  unfold slice_section, slice_section_spec, aligned_to, wadd64, get_from.
  destruct (rva =? 0); [reflexivity|].
  destruct (negb (((addr + rva) mod W64) mod align =? 0)); [reflexivity|].
  destruct (rva <=? len); cbn [andb r_len]; [|reflexivity].
  destruct (min_size <=? len - rva); reflexivity.
Qed.

Theorem slice_correct v rva min_size align : view_ok v -> rva < W32 ->
  slice v rva min_size align = slice_spec v rva min_size align.
Proof.
  intros [_ [_ [_ [_ Hs]]]] Hr. unfold slice, slice_spec. destruct (v_file v).
  - apply slice_file_correct; assumption.
  - apply slice_section_correct.
Qed.

(* reading at B + r is slicing at r *)
Theorem read_is_slice v va min_size align : view_ok v ->
  va <> 0 -> v_base v < va -> va - v_base v <= v_soi v ->
  read v va min_size align = slice v (va - v_base v) min_size align.
Proof.
  intros [_ [_ [Hsoi _]]] H0 H1 H2. unfold read, slice, read_file, read_section, slice_file, slice_section.
  destruct (va =? 0) eqn:E0; [lia|].
  destruct ((va <? v_base v) || (v_soi v <? va - v_base v)) eqn:E1; [lia|].
  destruct (va - v_base v =? 0) eqn:E2; [lia|].
  rewrite (N.mod_small (va - v_base v) W32) by (unfold W32 in *; lia).
  destruct (v_file v); reflexivity.
Qed.

Theorem read_correct v va min_size align : view_ok v ->
  match read_spec v va min_size align with
  | Some r => read v va min_size align = r
  | None => True
  end.
Proof.
  intros Hok. pose proof Hok as [_ [_ [Hsoi _]]]. unfold read_spec.
  destruct (va =? 0) eqn:E0.
  { unfold read, read_file, read_section. rewrite E0. destruct (v_file v); reflexivity. }
  destruct ((va <? v_base v) || (v_soi v <? va - v_base v)) eqn:E1.
  { unfold read, read_file, read_section. rewrite E0, E1. destruct (v_file v); reflexivity. }
  destruct (va =? v_base v) eqn:E2; [exact I|].
  rewrite read_is_slice by (try assumption; lia).
  apply slice_correct; [exact Hok|unfold W32 in *; lia].
Qed.

(* a zero address always yields the null error *)
Theorem zero_is_null v min_size align :
  slice v 0 min_size align = Err ENull /\ read v 0 min_size align = Err ENull /\
  rva_to_va v 0 = Err ENull /\ va_to_rva v 0 = Err ENull.
Proof.
  unfold slice, read, slice_file, slice_section, read_file, read_section, rva_to_va, va_to_rva.
  change (0 =? 0) with true. cbv iota. destruct (v_file v); repeat split; reflexivity.
Qed.

Section TypedProofs.
  Variable get : N -> N.
  Variable sl : N -> N -> N -> res region.

  Theorem typed_zero_is_null size align len p :
    (forall m a, sl 0 m a = Err ENull) ->
    rd sl 0 size align = Err ENull /\ rd_copy sl 0 size = Err ENull /\
    (size * len < W64 -> rd_slice sl 0 size align len = Err ENull) /\
    rd_slice_f get sl 0 size align p = Err ENull /\ rd_c_str get sl 0 = Err ENull.
  Proof.
    intros H. unfold rd, rd_copy, rd_slice, rd_slice_f, rd_c_str, checked_mul. rewrite !H. cbn [bind].
    repeat split; try reflexivity. intros Hm. destruct (size * len <? W64) eqn:E; [|lia]. rewrite H. reflexivity.
  Qed.

  (* fixed-size reads return exactly the first [size] bytes of the untyped slice, or its error *)
  Theorem rd_is_prefix a size align :
    match sl a size align with
    | Ok r => rd sl a size align = Ok {| r_off := r_off r; r_len := size |}
    | Err e => rd sl a size align = Err e
    | Fault f => rd sl a size align = Fault f
    end.
  Proof. unfold rd. destruct (sl a size align); reflexivity. Qed.

  Theorem rd_slice_is_prefix a size align len :
    if size * len <? W64 then
      match sl a (size * len) align with
      | Ok r => rd_slice sl a size align len = Ok {| r_off := r_off r; r_len := size * len |}
      | Err e => rd_slice sl a size align len = Err e
      | Fault f => rd_slice sl a size align len = Fault f
      end
    else rd_slice sl a size align len = Err EOverflow.
  Proof. unfold rd_slice, checked_mul. destruct (size * len <? W64); [|reflexivity]. destruct (sl a (size * len) align); reflexivity. Qed.

  (* the predicate scan: least index, all elements inside the slice, never out of fuel *)
  Lemma scan_f_spec p off blen size : 0 < size -> forall fuel n,
    n <= blen / size -> blen / size + 1 <= n + N.of_nat fuel ->
    match scan_f get fuel p off blen size n with
    | Ok m => n <= m /\ (m + 1) * size <= blen /\ p (elem get off size m) = true /\
              forall k, n <= k -> k < m -> p (elem get off size k) = false
    | Err e => e = EBounds /\ forall k, n <= k -> (k + 1) * size <= blen -> p (elem get off size k) = false
    | Fault _ => False
    end.
  Proof.
    intros Hs. induction fuel as [|fuel IH]; intros n Hn Hf; [lia|].
    cbn [scan_f]. destruct (blen <? n * size + size) eqn:E1.
    - split; [reflexivity|]. intros k Hk Hb. exfalso. nia.
    - fold (elem get off size n). destruct (p (elem get off size n)) eqn:E2.
      + repeat split; try lia; try assumption.
      + assert (Hn1 : n + 1 <= blen / size).
        { apply N.div_le_lower_bound; [lia|]. nia. }
        specialize (IH (n + 1) Hn1 ltac:(lia)).
        destruct (scan_f get fuel p off blen size (n + 1)) as [m|e|f]; [| |exact IH].
        * destruct IH as [H1 [H2 [H3 H4]]]. repeat split; try lia; try assumption.
          intros k Hk1 Hk2. destruct (N.eq_dec k n) as [->|Hne]; [exact E2|]. apply H4; lia.
        * destruct IH as [H1 H2]. split; [exact H1|]. intros k Hk1 Hk2.
          destruct (N.eq_dec k n) as [->|Hne]; [exact E2|]. apply H2; lia.
  Qed.

  Theorem rd_slice_f_correct a size align p : 0 < size ->
    match sl a 0 align with
    | Ok r =>
      match rd_slice_f get sl a size align p with
      | Ok q => exists n, q = {| r_off := r_off r; r_len := n * size |} /\ is_first get p (r_off r) (r_len r) size n
      | Err e => e = EBounds /\ none_in get p (r_off r) (r_len r) size
      | Fault _ => False
      end
    | Err e => rd_slice_f get sl a size align p = Err e
    | Fault f => rd_slice_f get sl a size align p = Fault f
    end.
  Proof.
    intros Hs. unfold rd_slice_f. destruct (sl a 0 align) as [r|e|f]; cbn [bind]; try reflexivity.
    assert (Ha : 0 <= r_len r / size) by apply N.le_0_l.
    assert (Hb : r_len r / size + 1 <= 0 + N.of_nat (S (N.to_nat (r_len r / size))))
      by (generalize (r_len r / size); intros q; lia).
    pose proof (scan_f_spec p (r_off r) (r_len r) size Hs (S (N.to_nat (r_len r / size))) 0 Ha Hb) as H.
    destruct (scan_f get _ p (r_off r) (r_len r) size 0) as [m|e|f]; cbn [bind]; [| |exact H].
    - destruct H as [_ [H2 [H3 H4]]]. exists m. split; [reflexivity|]. unfold is_first. repeat split; try assumption.
      intros k Hk. apply H4; lia.
    - destruct H as [H1 H2]. split; [exact H1|]. intros k Hk. apply H2; [lia|exact Hk].
  Qed.

  Lemma find_nul_spec : forall n off,
    match find_nul get off n with
    | Some i => i < N.of_nat n /\ get (off + i) = 0 /\ forall k, k < i -> get (off + k) <> 0
    | None => forall k, k < N.of_nat n -> get (off + k) <> 0
    end.
  Proof.
    induction n as [|n IH]; intros off; cbn [find_nul]; [intros k Hk; lia|].
    destruct (get off =? 0) eqn:E.
    - split; [lia|split; [rewrite N.add_0_r; lia|intros k Hk; lia]].
    - specialize (IH (off + 1)). destruct (find_nul get (off + 1) n) as [i|].
      + destruct IH as [H1 [H2 H3]]. split; [lia|split; [rewrite <- H2; f_equal; lia|]].
        intros k Hk. destruct (N.eq_dec k 0) as [->|Hne]; [rewrite N.add_0_r; lia|].
        specialize (H3 (k - 1) ltac:(lia)). replace (off + 1 + (k - 1)) with (off + k) in H3 by lia. exact H3.
      + intros k Hk. destruct (N.eq_dec k 0) as [->|Hne]; [rewrite N.add_0_r; lia|].
        specialize (IH (k - 1) ltac:(lia)). replace (off + 1 + (k - 1)) with (off + k) in IH by lia. exact IH.
  Qed.

  (* a C string is the bytes up to and including the first NUL of the slice; Encoding if there is none *)
  Theorem rd_c_str_correct a :
    match sl a 0 1 with
    | Ok r =>
      match rd_c_str get sl a with
      | Ok q => r_off q = r_off r /\ r_len q <= r_len r /\ get (r_off r + r_len q - 1) = 0 /\ 0 < r_len q /\
                forall k, k < r_len q - 1 -> get (r_off r + k) <> 0
      | Err e => e = EEncoding /\ forall k, k < r_len r -> get (r_off r + k) <> 0
      | Fault _ => False
      end
    | Err e => rd_c_str get sl a = Err e
    | Fault f => rd_c_str get sl a = Fault f
    end.
  Proof.
    unfold rd_c_str. destruct (sl a 0 1) as [r|e|f]; cbn [bind]; try reflexivity.
    pose proof (find_nul_spec (N.to_nat (r_len r)) (r_off r)) as H.
    destruct (find_nul get (r_off r) (N.to_nat (r_len r))) as [i|].
    - destruct H as [H1 [H2 H3]]. cbn [r_off r_len]. split; [reflexivity|]. split; [lia|]. split; [|split; [lia|]].
      + replace (r_off r + (i + 1) - 1) with (r_off r + i) by lia. exact H2.
      + intros k Hk. apply H3. lia.
    - split; [reflexivity|]. intros k Hk. apply H. lia.
  Qed.
End TypedProofs.

(* F25, as the code stood before the repair *)
Lemma rva_to_va_orig_refuted :
  rva_to_va_orig {| v_file := true; v_addr := 0; v_len := 0; v_get := fun _ => 0; v_w := W32;
                    v_base := 4294963200; v_soh := 0; v_soi := 65536; v_secs := [] |} 8192 = Fault POverflow.
Proof. vm_compute. reflexivity. Qed.

Lemma nonvacuous_example :
  let v := {| v_file := false; v_addr := 4096; v_len := 8192; v_get := fun i => if i =? 4100 then 0 else 65;
              v_w := W64; v_base := 5368709120; v_soh := 1024; v_soi := 8192; v_secs := [] |} in
  view_ok v /\ rva_to_va v 4096 = Ok 5368713216 /\ va_to_rva v 5368713216 = Ok 4096 /\
  read v 5368713216 4 4 = slice v 4096 4 4 /\ slice v 4096 4 4 = Ok {| r_off := 4096; r_len := 4096 |} /\
  rd_c_str (v_get v) (slice v) 4096 = Ok {| r_off := 4096; r_len := 5 |}.
Proof.
  cbv zeta. split.
  - unfold view_ok. cbn [v_w v_base v_soi v_soh v_secs]. split; [right; reflexivity|].
    split; [reflexivity|]. split; [reflexivity|]. split; [reflexivity|constructor].
  - split; [vm_compute; reflexivity|]. split; [vm_compute; reflexivity|]. split; [vm_compute; reflexivity|].
    split; vm_compute; reflexivity.
Qed.
