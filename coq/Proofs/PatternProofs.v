(* Proofs for C11 (parser part): totality, error positions, shape of the output. *)
From PV.Model Require Import Machine Pattern.
From PV.Proofs Require Import BaseProofs.
Ltac Zify.zify_post_hook ::= Z.div_mod_to_equations.

Lemma parse_num_rest : forall rest acc any d v a t r,
  parse_num rest acc any d = inr (v, a, t, r) -> (length r < length rest)%nat.
Proof.
  induction rest as [|c rest IH]; intros acc any d v a t r H; cbn [parse_num] in H; [discriminate|].
  destruct ((c =? 93) || (d && (c =? 45))); [injection H as _ _ _ <-; cbn [length]; lia|].
  destruct (is_digit c); [|discriminate].
  destruct (16384 <=? acc * 10 + (c - 48)); [discriminate|]. apply IH in H. cbn [length]. lia.
Qed.
Lemma parse_quote_rest : forall rest res r1 r, parse_quote rest res = inr (r1, r) -> (length r < length rest)%nat.
Proof.
  induction rest as [|c rest IH]; intros res r1 r H; cbn [parse_quote] in H; [discriminate|].
  destruct (c =? 34); [injection H as _ <-; cbn [length]; lia|]. apply IH in H. cbn [length]. lia.
Qed.

(* every iteration keeps *pat where it was and never gives input back *)
Lemma pstep_spec st chr rest st' rest' u : pstep st chr rest = inr (st', rest', u) ->
  (length rest' <= length rest)%nat /\ p_pos st' = p_pos st.
Proof.
  unfold pstep. intros H.
  repeat match type of H with
  | (if ?c then _ else _) = _ => destruct c
  | match ?x with _ => _ end = _ => destruct x eqn:?
  | inl _ = inr _ => discriminate
  | inr _ = inr _ => injection H as <- <- <-; cbn [p_pos]; split; [try lia|reflexivity]
  end;
  repeat match goal with
  | E : parse_num _ _ _ _ = inr _ |- _ => apply parse_num_rest in E
  | E : parse_quote _ _ = inr _ |- _ => apply parse_quote_rest in E
  end; cbn [length] in *; try lia.
Qed.

(* parsing any byte string terminates with a pattern or an error whose position lies within the input *)
Lemma ploop_total total : forall fuel st rest, (length rest < fuel)%nat -> (p_pos st <= total)%nat ->
  exists r, ploop fuel total st rest = Ok r /\ match r with inl (_, pos) => (pos <= total)%nat | inr _ => True end.
Proof.
  induction fuel as [|fuel IH]; intros st rest Hf Hp; [lia|]. cbn [ploop].
  destruct rest as [|chr rest1].
  - destruct (negb (p_depth st =? 0)); [eexists; split; [reflexivity|exact Hp]|].
    destruct (p_subs st); eexists; (split; [reflexivity|]); [exact I|exact Hp].
  - destruct (pstep st chr rest1) as [e|[[st' rest2] u]] eqn:E; [eexists; split; [reflexivity|exact Hp]|].
    apply pstep_spec in E. destruct E as [E1 E2]. cbn [length] in Hf.
    apply IH; [lia|]. destruct u; cbn [p_pos]; lia.
Qed.

Theorem parse_total input :
  exists r, parse input = Ok r /\ match r with inl (_, pos) => (pos <= length input)%nat | inr _ => True end.
Proof. unfold parse. apply ploop_total; cbn [p_pos]; lia. Qed.

(* F10, the code before the repair kept the brace depth in a u8: 256 opening braces overflow it.
   (The model of the repaired code keeps it unbounded; the witness is the depth the old code could not hold.) *)
Fixpoint open_braces (n : nat) : list N := match n with O => [] | S k => 36 :: 123 :: open_braces k end.
Lemma depth_exceeds_u8 : exists st rest, pstep {| p_res := [Save 0; Jump4]; p_save := 1; p_depth := 255; p_subs := []; p_pos := 0; p_barrier := 0 |} 123 [] = inr (st, rest, true) /\ p_depth st = 256.
Proof. eexists. eexists. split; [vm_compute; reflexivity|reflexivity]. Qed.
