(* The interpreter and the save array (C10 theorem 5, C11): for a pattern without Check / Pir atoms the save array is
   write-only.  Stated as a parametricity fact: the whole outcome of an execution - fault or verdict, final pc and
   cursor - is fixed by (pattern, pc, cursor, mask, ext) alone, and the outgoing save array is the incoming one with
   a fixed sequence of writes [set_slot . k x] applied ("the write log").  Hence the verdict is the same for any two
   incoming arrays (also of different lengths, e.g. the empty array of the uniqueness probe of finds), and the
   values left in the slots both arrays have agree wherever the execution wrote. *)
From PV.Model Require Import Machine Pattern Exec.
From PV.Proofs Require Import BaseProofs ExecProofs.
Ltac Zify.zify_post_hook ::= Z.div_mod_to_equations.

(* ---- patterns that never read the save array ---- *)
Definition nosave_atom (a : atom) : bool := match a with Check _ | Pir _ => false | _ => true end.
Definition reads_no_saves (pat : list atom) : Prop := forallb nosave_atom pat = true.

(* ---- write logs ---- *)
Definition wlog := list (N * N).                      (* (slot, value), oldest first *)
Fixpoint writes (w : wlog) (s : list N) : list N :=
  match w with [] => s | (k, x) :: t => writes t (set_slot s k x) end.

Lemma writes_app a b s : writes (a ++ b) s = writes b (writes a s).
Proof. revert s. induction a as [|[k x] a IH]; intros s; cbn [writes app]; [reflexivity|apply IH]. Qed.

Lemma writes_length w : forall s, length (writes w s) = length s.
Proof. induction w as [|[k x] w IH]; intros s; cbn [writes]; [reflexivity|]. rewrite IH. apply set_slot_length. Qed.

(* the value a log leaves in slot n (None: the slot is not written) *)
Fixpoint last_write (w : wlog) (n : nat) : option N :=
  match w with
  | [] => None
  | (k, x) :: t => match last_write t n with Some y => Some y | None => if Nat.eqb (N.to_nat k) n then Some x else None end
  end.

Lemma upd_length {A} (l : list A) : forall i x, length (upd l i x) = length l.
Proof. induction l as [|h t IH]; intros [|i] x; cbn [upd length]; try reflexivity. rewrite IH. reflexivity. Qed.

Lemma nth_error_upd {A} (l : list A) : forall i x n, (i < length l)%nat ->
  nth_error (upd l i x) n = if Nat.eqb i n then Some x else nth_error l n.
Proof.
  induction l as [|h t IH]; intros i x n Hi; cbn [length] in Hi; [lia|].
  destruct i as [|i]; destruct n as [|n]; cbn [upd nth_error Nat.eqb]; try reflexivity. apply IH. lia.
Qed.

Lemma nth_error_set_slot s k x n : (n < length s)%nat ->
  nth_error (set_slot s k x) n = if Nat.eqb (N.to_nat k) n then Some x else nth_error s n.
Proof.
  intros Hn. unfold set_slot, lenN. destruct (k <? N.of_nat (length s)) eqn:E.
  - apply nth_error_upd. lia.
  - destruct (Nat.eqb (N.to_nat k) n) eqn:E2; [|reflexivity]. apply Nat.eqb_eq in E2. lia.
Qed.

(* what is in a slot of the array after the writes: the last value written to it, else what was there *)
Lemma writes_nth w : forall s n, (n < length s)%nat ->
  nth_error (writes w s) n = match last_write w n with Some x => Some x | None => nth_error s n end.
Proof.
  induction w as [|[k x] w IH]; intros s n Hn; cbn [writes last_write]; [reflexivity|].
  rewrite IH by (rewrite set_slot_length; exact Hn). destruct (last_write w n); [reflexivity|].
  rewrite (nth_error_set_slot s k x n Hn). destruct (Nat.eqb (N.to_nat k) n); reflexivity.
Qed.

(* two arrays after the same log: a slot both have was either written - then both hold the written value - or
   keeps what each array held before *)
Lemma writes_agree w s1 s2 n : (n < length s1)%nat -> (n < length s2)%nat ->
  (exists x, nth_error (writes w s1) n = Some x /\ nth_error (writes w s2) n = Some x) \/
  (nth_error (writes w s1) n = nth_error s1 n /\ nth_error (writes w s2) n = nth_error s2 n).
Proof.
  intros H1 H2. rewrite (writes_nth w s1 n H1), (writes_nth w s2 n H2). destruct (last_write w n) as [x|].
  - left. exists x. split; reflexivity.
  - right. split; reflexivity.
Qed.

(* ---- outcomes that do not depend on the incoming array ---- *)
Definition outcome := res (bool * nat * N * wlog).
Definition apply_out (o : outcome) (s : list N) : res xres :=
  match o with
  | Ok (ok, pc, cur, w) => Ok (ok, pc, cur, writes w s)
  | Err e => Err e
  | Fault f => Fault f
  end.
Definition uniform (F : list N -> res xres) : Prop := exists o, forall s, F s = apply_out o s.

Definition pre (w : wlog) (o : outcome) : outcome :=
  match o with Ok (ok, pc, cur, w') => Ok (ok, pc, cur, w ++ w') | Err e => Err e | Fault f => Fault f end.
Lemma apply_out_pre w o s : apply_out (pre w o) s = apply_out o (writes w s).
Proof. destruct o as [[[[ok pc] cur] w']|e|f]; cbn [pre apply_out]; [rewrite writes_app|..]; reflexivity. Qed.

Lemma uniform_after F w : uniform F -> uniform (fun s => F (writes w s)).
Proof. intros [o Ho]. exists (pre w o). intros s. rewrite Ho, apply_out_pre. reflexivity. Qed.
Lemma uniform_set F k x : uniform F -> uniform (fun s => F (set_slot s k x)).
Proof. intros H. exact (uniform_after F [(k, x)] H). Qed.
Lemma uniform_ret ok pc cur : uniform (fun s => Ok (ok, pc, cur, s)).
Proof. exists (Ok (ok, pc, cur, [])). intros s. reflexivity. Qed.

Lemma many_loop_uniform run peek byte_at : (forall i, uniform (run i)) ->
  forall cnt i last, uniform (fun s => many_loop run peek byte_at cnt i s last).
Proof.
  intros Hrun. induction cnt as [|cnt IH]; intros i last; cbn [many_loop]; [apply uniform_ret|].
  destruct (match peek with Some b => byte_at i =? b | None => true end); [|apply IH].
  destruct (Hrun i) as [[[[[ok pc'] cur'] w]|e|f] Ho].
  - destruct ok.
    + exists (Ok (true, pc', cur', w)). intros s. rewrite Ho. reflexivity.
    + destruct (uniform_after _ w (IH (i + 1) (pc', cur'))) as [o2 Ho2]. exists o2. intros s.
      rewrite Ho. cbn [apply_out bind]. apply Ho2.
  - exists (Err e). intros s. rewrite Ho. reflexivity.
  - exists (Fault f). intros s. rewrite Ho. reflexivity.
Qed.

Section Uniform.
  Variable sc : scan.
  Variable pat : list atom.
  Hypothesis Hpat : reads_no_saves pat.

  Lemma atom_nosave pc a : nth_error pat pc = Some a -> nosave_atom a = true.
  Proof. intros H. unfold reads_no_saves in Hpat. rewrite forallb_forall in Hpat. apply Hpat. exact (nth_error_In _ _ H). Qed.

  (* the simulation: same fuel, same pc/cursor trajectory, whatever the save array holds *)
  Lemma exec_uniform : forall fuel pc cur mask ext, uniform (exec sc pat fuel pc cur mask ext).
  Proof.
    induction fuel as [|fuel IH]; intros pc cur mask ext.
    { exists (Fault OutOfFuel). intros s. reflexivity. }
    change (uniform (fun s => exec sc pat (S fuel) pc cur mask ext s)). cbn [exec].
    destruct (nth_error pat pc) as [a|] eqn:Ea; [|apply uniform_ret].
    pose proof (atom_nosave pc a Ea) as Hns.
    assert (Hfail : uniform (fun s => Ok (false, S pc, cur, s))) by apply uniform_ret.
    (* a nested call followed by a continuation that depends on its verdict *)
    assert (Hseq : forall cur0 (K : bool -> nat -> N -> list N -> res xres),
               (forall ok pc' cur', uniform (K ok pc' cur')) ->
               uniform (fun s => r <- exec sc pat fuel (S pc) cur0 255 0 s ;;
                                 let '(ok, pc', cur', save') := r in K ok pc' cur' save')).
    { intros cur0 K HK. destruct (IH (S pc) cur0 255 0) as [[[[[ok pc'] cur'] w]|e|f] Ho].
      - destruct (uniform_after _ w (HK ok pc' cur')) as [o2 Ho2]. exists o2. intros s. rewrite Ho. cbn [apply_out bind]. apply Ho2.
      - exists (Err e). intros s. rewrite Ho. reflexivity.
      - exists (Fault f). intros s. rewrite Ho. reflexivity. }
    destruct a; try discriminate Hns.
    - (* Byte *) destruct (sc_read sc 1 cur); [|exact Hfail]. destruct (N.land n mask =? N.land b mask); [|exact Hfail].
      unfold chk_add. destruct (cur + 1 <? W32); cbn [bind]; [apply IH|]. exists (Fault POverflow). intros s. reflexivity.
    - (* Save *) exact (uniform_set _ s cur (IH _ _ _ _)).
    - (* Push *) apply (Hseq cur (fun ok pc' cur' save' => if ok then exec sc pat fuel pc' (wadd32 cur (skip_amount sc ext k)) 255 0 save' else Ok (false, pc', cur', save'))).
      intros ok pc' cur'. destruct ok; [apply IH|apply uniform_ret].
    - (* Pop *) apply uniform_ret.
    - apply IH.
    - apply IH.
    - apply IH.
    - apply IH.
    - (* Many *) destruct (sc_slice_len sc cur) as [slen|]; [|exact Hfail].
      apply many_loop_uniform. intros i. apply IH.
    - destruct (sc_read sc 1 cur); [apply IH|exact Hfail].
    - destruct (sc_read sc 4 cur); [apply IH|exact Hfail].
    - destruct (sc_read sc (sc_va_bytes sc) cur); [|exact Hfail]. destruct (sc_pointer sc n); [apply IH|exact Hfail].
    - destruct (vtypename sc cur); [apply IH|exact Hfail].
    - destruct (N.land cur (if k <? 32 then 2 ^ k - 1 else W32 - 1) =? 0); [apply IH|exact Hfail].
    - destruct (sc_read sc 1 cur); [|exact Hfail]. exact (uniform_set _ _ _ (IH _ _ _ _)).
    - destruct (sc_read sc 1 cur); [|exact Hfail]. exact (uniform_set _ _ _ (IH _ _ _ _)).
    - destruct (sc_read sc 2 cur); [|exact Hfail]. exact (uniform_set _ _ _ (IH _ _ _ _)).
    - destruct (sc_read sc 2 cur); [|exact Hfail]. exact (uniform_set _ _ _ (IH _ _ _ _)).
    - destruct (sc_read sc 4 cur); [|exact Hfail]. exact (uniform_set _ _ _ (IH _ _ _ _)).
    - destruct (sc_read sc 4 cur); [|exact Hfail]. exact (uniform_set _ _ _ (IH _ _ _ _)).
    - exact (uniform_set _ _ _ (IH _ _ _ _)).
    - (* Case *) apply (Hseq cur (fun ok pc' cur' save' => if ok then exec sc pat fuel pc' cur' mask ext save'
                                                          else exec sc pat fuel (S pc + N.to_nat k) cur mask ext save')).
      intros ok pc' cur'. destruct ok; apply IH.
    - (* Break *) apply uniform_ret.
    - apply IH.
  Qed.

  (* Scanner::exec: a verdict and a write log that do not depend on the incoming array *)
  Definition out2 := res (bool * wlog).
  Definition apply_out2 (o : out2) (s : list N) : res (bool * list N) :=
    match o with Ok (ok, w) => Ok (ok, writes w s) | Err e => Err e | Fault f => Fault f end.

  Lemma run_exec_uniform cursor : exists o, forall s, run_exec sc pat cursor s = apply_out2 o s.
  Proof.
    unfold run_exec. destruct (exec_uniform (S (length pat)) 0 cursor 255 0) as [[[[[ok pc'] cur'] w]|e|f] Ho].
    - exists (Ok (ok, w)). intros s. rewrite Ho. reflexivity.
    - exists (Err e). intros s. rewrite Ho. reflexivity.
    - exists (Fault f). intros s. rewrite Ho. reflexivity.
  Qed.

  Lemma run_exec_log cursor : scan_ok sc -> exists ok w, forall s, run_exec sc pat cursor s = Ok (ok, writes w s).
  Proof.
    intros Hsc. destruct (run_exec_uniform cursor) as [[[ok w]|e|f] Ho].
    - exists ok, w. exact Ho.
    - exfalso. destruct (run_exec_total sc pat Hsc cursor []) as [ok [s' H]]. rewrite Ho in H. discriminate.
    - exfalso. destruct (run_exec_total sc pat Hsc cursor []) as [ok [s' H]]. rewrite Ho in H. discriminate.
  Qed.
End Uniform.

(* ---- the parser never emits Check or Pir ---- *)
Lemma nosave_app a b : forallb nosave_atom (a ++ b) = forallb nosave_atom a && forallb nosave_atom b.
Proof. apply forallb_app. Qed.

Lemma nosave_upd l : forall i x, forallb nosave_atom l = true -> nosave_atom x = true -> forallb nosave_atom (upd l i x) = true.
Proof.
  induction l as [|h t IH]; intros i x Hl Hx; [destruct i; reflexivity|].
  cbn [forallb] in Hl. apply andb_true_iff in Hl. destruct Hl as [Hh Ht].
  destruct i; cbn [upd forallb]; apply andb_true_iff; split; auto.
Qed.

Lemma nosave_rev l : forallb nosave_atom (rev l) = forallb nosave_atom l.
Proof.
  induction l as [|h t IH]; [reflexivity|]. cbn [rev forallb]. rewrite nosave_app, IH. cbn [forallb]. rewrite andb_true_r. apply andb_comm.
Qed.

Lemma nosave_trim_rev l : forallb nosave_atom l = true -> forallb nosave_atom (trim_rev l) = true.
Proof.
  induction l as [|h t IH]; intros H; [reflexivity|]. cbn [trim_rev]. destruct (is_redundant h); [|exact H].
  apply IH. cbn [forallb] in H. apply andb_true_iff in H. tauto.
Qed.

Lemma nosave_trim l : forallb nosave_atom l = true -> forallb nosave_atom (trim l) = true.
Proof. intros H. unfold trim. rewrite nosave_rev. apply nosave_trim_rev. rewrite nosave_rev. exact H. Qed.

Lemma nosave_parse_quote : forall rest res r1 r, parse_quote rest res = inr (r1, r) ->
  forallb nosave_atom res = true -> forallb nosave_atom r1 = true.
Proof.
  induction rest as [|c t IH]; intros res r1 r H Hres; cbn [parse_quote] in H; [discriminate|].
  destruct (c =? 34); [inversion H; subst; exact Hres|]. apply (IH _ _ _ H). rewrite nosave_app, Hres. reflexivity.
Qed.

Lemma nosave_fill_breaks (res0 : list atom) : forall brks r0 r, forallb nosave_atom r0 = true ->
  fold_left (fun acc brk =>
    match acc with
    | inl e => inl e
    | inr r => let off := (length res0 - brk - 1)%nat in
               if Nat.leb 256 off then inl SubOverflow else inr (upd r brk (Break (N.of_nat off)))
    end) brks (inr r0) = inr r -> forallb nosave_atom r = true.
Proof.
  induction brks as [|b brks IH]; intros r0 r H0 H; cbn [fold_left] in H; [inversion H; subst; exact H0|].
  cbv zeta in H. destruct (Nat.leb 256 (length res0 - b - 1)).
  - exfalso. clear -H. induction brks as [|x brks IHb]; cbn [fold_left] in H; [discriminate|exact (IHb H)].
  - apply (IH (upd r0 b (Break (N.of_nat (length res0 - b - 1)))) r); [apply nosave_upd; [exact H0|reflexivity]|exact H].
Qed.

Lemma nosave_set_last l x : forallb nosave_atom l = true -> nosave_atom x = true -> forallb nosave_atom (set_last l x) = true.
Proof. intros. unfold set_last. apply nosave_upd; assumption. Qed.

Lemma pstep_nosave st chr rest st' rest' u : pstep st chr rest = inr (st', rest', u) ->
  forallb nosave_atom (p_res st) = true -> forallb nosave_atom (p_res st') = true.
Proof.
  intros H Hres. unfold pstep in H.
  assert (Hsnoc : forall a, nosave_atom a = true -> forallb nosave_atom (p_res st ++ [a]) = true).
  { intros a Ha. rewrite nosave_app, Hres. cbn [forallb]. rewrite Ha. reflexivity. }
  repeat match type of H with
  | (if ?c then _ else _) = _ => destruct c eqn:?
  | match last_atom ?l with _ => _ end = _ => destruct (last_atom l) as [[]|] eqn:?
  | match p_subs ?s with _ => _ end = _ => destruct (p_subs s) as [|? ?] eqn:?
  | match parse_num ?a ?b ?c ?d with _ => _ end = _ => destruct (parse_num a b c d) as [?|[[[? ?] ?] ?]] eqn:?
  | match parse_quote ?a ?b with _ => _ end = _ => destruct (parse_quote a b) as [?|[? ?]] eqn:?
  | match fill_breaks ?a ?b with _ => _ end = _ => destruct (fill_breaks a b) as [?|?] eqn:?
  | match hexval ?a with _ => _ end = _ => destruct (hexval a) eqn:?
  | match ?r with [] => _ | _ :: _ => _ end = _ => destruct r as [|? ?]
  | inl _ = inr _ => discriminate H
  | inr _ = inr _ => inversion H; subst; clear H
  end; cbn [p_res];
  try match goal with Hq : parse_quote _ _ = inr _ |- _ => exact (nosave_parse_quote _ _ _ _ Hq Hres) end;
  try match goal with Hf : fill_breaks _ _ = inr _ |- _ =>
        unfold fill_breaks in Hf; apply nosave_fill_breaks in Hf; [exact Hf|apply nosave_upd; [assumption|reflexivity]] end;
  repeat match goal with |- context [if ?c then _ else _] => destruct c end;
  repeat first [ assumption | reflexivity | rewrite nosave_app; apply andb_true_iff; split
               | apply nosave_set_last | apply nosave_upd ].
Qed.

Lemma ploop_nosave : forall fuel total st rest p, ploop fuel total st rest = Ok (inr p) ->
  forallb nosave_atom (p_res st) = true -> forallb nosave_atom p = true.
Proof.
  induction fuel as [|fuel IH]; intros total st rest p H Hres; cbn [ploop] in H; [discriminate|].
  destruct rest as [|chr rest1].
  - destruct (negb (p_depth st =? 0)); [discriminate|]. destruct (p_subs st); [|discriminate].
    inversion H; subst. apply nosave_trim. exact Hres.
  - destruct (pstep st chr rest1) as [e|[[st' rest2] u]] eqn:Ep; [discriminate|].
    pose proof (pstep_nosave _ _ _ _ _ _ Ep Hres) as Hres'.
    apply (IH _ _ _ _ H). destruct u; cbn [p_res]; exact Hres'.
Qed.

(* every pattern the parser accepts is write-only on the save array *)
Theorem parse_reads_no_saves input p : parse input = Ok (inr p) -> reads_no_saves p.
Proof. unfold parse. intros H. exact (ploop_nosave _ _ _ _ _ H eq_refl). Qed.
