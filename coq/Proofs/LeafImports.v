(* src/pe64/imports.rs import_from_va: the ordinal-flag test, the casts [va as Rva] / [va as Ordinal] and the checked
   name rva, compiled for pe32 (Va = u32, IMAGE_ORDINAL_FLAG32) and for pe64 (Va = u64, IMAGE_ORDINAL_FLAG64), and
   src/image.rs IMAGE_IMPORT_DESCRIPTOR::is_null, regenerated into gen/Leaf.v: Model/Imports.v import_from_va is
   the same function written with them (C09). *)
From PV.Model Require Import Machine Mapping Views Headers Imports.
From PV.gen Require Import Leaf Layout.
From PV.Proofs Require Import BaseProofs LeafBase.
Ltac Zify.zify_post_hook ::= Z.div_mod_to_equations.
(* the source may change under these proofs: a step that does not finish fails instead of hanging the build *)
Set Default Timeout 120.

Definition import_from_va_leaf (by_name : N -> bool) (rva_of : N -> N) (name_rva : N -> option N) (ordinal : N -> N)
                               (p : pe) (va : N) : res import :=
  if by_name va then
    h <- rd (slice (p_v p)) (rva_of va) 2 2 ;;
    match name_rva va with
    | None => Err EOverflow
    | Some a => name <- rd_c_str (p_get p) (slice (p_v p)) a ;; Ok (ByName (le_value (p_get p) (r_off h) 2) name)
    end
  else Ok (ByOrdinal (ordinal va)).

Lemma import_from_va_agrees_64 : forall p va, f_64 (p_f p) = true ->
  import_from_va p va =
    import_from_va_leaf L_pe64_imports_import_from_va__by_name L_pe64_imports_import_from_va__rva
                        L_pe64_imports_import_from_va__name_rva L_pe64_imports_import_from_va__ordinal p va.
Proof. intros p va H. unfold import_from_va, import_from_va_leaf, ordinal_flag. rewrite H. reflexivity. Qed.

Lemma import_from_va_agrees_32 : forall p va, f_64 (p_f p) = false ->
  import_from_va p va =
    import_from_va_leaf L_pe32_imports_import_from_va__by_name L_pe32_imports_import_from_va__rva
                        L_pe32_imports_import_from_va__name_rva L_pe32_imports_import_from_va__ordinal p va.
Proof. intros p va H. unfold import_from_va, import_from_va_leaf, ordinal_flag. rewrite H. reflexivity. Qed.

(* none of the four expressions can panic *)
Lemma import_from_va_leaves_ok : forall va,
  L_pe64_imports_import_from_va__by_name_ok va = true /\ L_pe64_imports_import_from_va__rva_ok va = true /\
  L_pe64_imports_import_from_va__name_rva_ok va = true /\ L_pe64_imports_import_from_va__ordinal_ok va = true /\
  L_pe32_imports_import_from_va__by_name_ok va = true /\ L_pe32_imports_import_from_va__rva_ok va = true /\
  L_pe32_imports_import_from_va__name_rva_ok va = true /\ L_pe32_imports_import_from_va__ordinal_ok va = true.
Proof. intros va. repeat split; reflexivity. Qed.

(* the ordinal flag is the top bit of Va: by name iff va < 2^(w-1) *)
Lemma by_name_top_bit : forall va,
  (L_pe64_imports_import_from_va__by_name_dom va = true -> L_pe64_imports_import_from_va__by_name va = (va <? 2 ^ 63)) /\
  (L_pe32_imports_import_from_va__by_name_dom va = true -> L_pe32_imports_import_from_va__by_name va = (va <? 2 ^ 31)).
Proof.
  intros va. split; intros H.
  - unfold L_pe64_imports_import_from_va__by_name_dom in H. unfold L_pe64_imports_import_from_va__by_name.
    change 9223372036854775808 with (2 ^ 63). apply land_topbit_test. change (2 ^ (63 + 1)) with 18446744073709551616. lia.
  - unfold L_pe32_imports_import_from_va__by_name_dom in H. unfold L_pe32_imports_import_from_va__by_name.
    change 2147483648 with (2 ^ 31). apply land_topbit_test. change (2 ^ (31 + 1)) with 4294967296. lia.
Qed.

(* IMAGE_IMPORT_DESCRIPTOR::is_null reads FirstThunk, the dword at its Layout offset of the 20-byte little-endian value *)
Lemma desc_is_null_agrees : forall x,
  L_image_IMAGE_IMPORT_DESCRIPTOR_is_null_ok (x / 2 ^ (8 * IMAGE_IMPORT_DESCRIPTOR_FirstThunk_off)) = true /\
  L_image_IMAGE_IMPORT_DESCRIPTOR_is_null (x / 2 ^ (8 * IMAGE_IMPORT_DESCRIPTOR_FirstThunk_off)) = desc_is_null x.
Proof. intros x. split; reflexivity. Qed.

(* what each binder of the generated definitions stands for in the source (third audit, F2): a function that starts
   reading another field or index changes coq/gen/Leaf.v only in these lists *)
From Coq Require Import List String.
Import ListNotations.
Lemma leaf_reads_imports :
  L_image_IMAGE_IMPORT_DESCRIPTOR_is_null_args = ["self.FirstThunk : u32"%string] /\
  L_pe32_imports_import_from_va__by_name_args = ["arg2 : u32"%string] /\
  L_pe32_imports_import_from_va__rva_args = ["arg2 : u32"%string] /\
  L_pe32_imports_import_from_va__name_rva_args = ["arg2 : u32"%string] /\
  L_pe32_imports_import_from_va__ordinal_args = ["arg2 : u32"%string] /\
  L_pe64_imports_import_from_va__by_name_args = ["arg2 : u64"%string] /\
  L_pe64_imports_import_from_va__rva_args = ["arg2 : u64"%string] /\
  L_pe64_imports_import_from_va__name_rva_args = ["arg2 : u64"%string] /\
  L_pe64_imports_import_from_va__ordinal_args = ["arg2 : u64"%string].
Proof. repeat split; reflexivity. Qed.
