(* Proofs for the `resources` member of the serialized image (Model/WrapJsonRes.v, Spec/WrapResSpec.v):
   totality on ANY section, the two bounds (entries <= section length / 8, nesting <= FSCK_MAX_DEPTH), the value on a
   section that denotes a tree within the limits, the full-text oracle. *)
From Coq Require Import Strings.String.
From PV.Model Require Import JsonStr.
From PV.Model Require Import Machine Mapping Views Headers Wrap WrapDirs Json WrapJson WrapJsonRes.
From PV.Model Require Resources Util.
From PV.gen Require Import Layout.
From PV.Spec Require Import HeaderSpec WrapSpec WrapResSpec.
From PV.Spec Require ResTree UtilSpec.
From PV.Proofs Require Import BaseProofs HeadersProofs WrapProofs JsonProofs WrapJsonProofs.
From PV.Proofs Require ResourcesProofs UtilText.
Ltac Zify.zify_post_hook ::= Z.div_mod_to_equations.

Module R := Resources.
Module RP := ResourcesProofs.
Module T := ResTree.

(* ------------------------------------------------------------------ (a) totality *)
Lemma json_name_eq n : json_name n = Ok (name_json false n).
Proof.
  destruct n as [id|ws|cs]; cbn [json_name name_json]; [reflexivity| |reflexivity].
  rewrite UtilText.fmt_display_spec. reflexivity.
Qed.
Lemma json_name_total n : tot (json_name n).
Proof. rewrite json_name_eq. apply tot_ok. Qed.

Lemma jwalk_loop_total s below top :
  (forall w, below = Some w -> forall o b, tot (w o b)) -> forall es b, tot (jwalk_loop s below top es b).
Proof.
  intros HB. induction es as [|e r IH]; intros b; cbn [jwalk_loop]; [apply tot_ok|].
  destruct (b =? 0); [apply tot_ok|].
  apply tot_bind; [apply tot_ok_; apply RP.e_name_no_fault|intros on _].
  apply tot_bind; [apply tot_jopt_res; intros x _; apply json_name_total|intros jn _].
  apply tot_bind; [apply tot_ok_; apply RP.e_entry_no_fault|intros en _].
  apply tot_bind.
  { destruct en as [[o|o]|]; [destruct below as [w|]| |]; try apply tot_ok.
    apply tot_bind; [apply (HB w eq_refl)|intros sub _; apply tot_ok]. }
  intros mb _. apply tot_bind; [apply IH|intros rest _; apply tot_ok].
Qed.

Lemma jwalk_total d s : forall off top b, tot (jwalk d s off top b).
Proof.
  induction d as [|d IH]; intros off top b; cbn [jwalk]; apply jwalk_loop_total; intros w Hw; [discriminate|].
  injection Hw as <-. intros o b'. apply IH.
Qed.

(* for ANY section bytes, counts and offsets: the model returns a value - no Err, no Fault, no OutOfFuel.  The fuel of the
   root walk is JRES_DEPTH = FSCK_MAX_DEPTH - 1 levels below the root and it is never the reason the recursion ends with
   a fault: at fuel 0 sub-directories are not followed *)
Theorem json_resources_total s : exists j, json_resources s = Ok j.
Proof.
  unfold json_resources. destruct (R.root s) as [r|e|x] eqn:HR; [|eexists; reflexivity|exfalso; exact (RP.dir_try_from_no_fault _ _ _ HR)].
  destruct (jwalk_total JRES_DEPTH s r true (R.fsck_budget s)) as (w & ->). cbn [bind]. eexists. reflexivity.
Qed.

Lemma acc_resources_no_fault f file m : no_fault (acc_resources f file m).
Proof.
  unfold acc_resources. apply bind_no_fault.
  { unfold dir_entry. destruct (data_dir f m IMAGE_DIRECTORY_ENTRY_RESOURCE); intros x; discriminate. }
  intros d. apply bind_no_fault; [unfold op_slice_bytes; apply slice_no_fault|intros r x; discriminate].
Qed.
Lemma json_resources_member_total f file m : tot (json_resources_member f file m).
Proof.
  unfold json_resources_member. apply tot_bind; [apply tot_ok_; apply acc_resources_no_fault|intros o _].
  apply tot_jopt_res. intros s _. apply json_resources_total.
Qed.

(* the ten-member object is the nine-member object of Model/WrapJson.v with the member appended *)
Definition add_member (j : json) (k : list N) (v : json) : json :=
  match j with JObj l => JObj (l ++ [(k, v)]) | _ => j end.
Lemma json_of_image_full_split f file m :
  json_of_image_full f file m =
  (j <- json_of_image f file m ;; jr <- json_resources_member f file m ;; Ok (add_member j k_res_member jr)).
Proof.
  unfold json_of_image_full, json_of_image.
  destruct (json_headers f m); cbn [bind]; [|reflexivity|reflexivity].
  destruct (json_rich m); cbn [bind]; [|reflexivity|reflexivity].
  destruct (json_exports f file m); cbn [bind]; [|reflexivity|reflexivity].
  destruct (json_imports f file m); cbn [bind]; [|reflexivity|reflexivity].
  destruct (json_base_relocs f file m); cbn [bind]; [|reflexivity|reflexivity].
  destruct (json_debug f file m); cbn [bind]; [|reflexivity|reflexivity].
  destruct (json_tls f file m); cbn [bind]; [|reflexivity|reflexivity].
  destruct (json_load_config f file m); cbn [bind]; [|reflexivity|reflexivity].
  destruct (json_security f file m); cbn [bind]; [|reflexivity|reflexivity].
  destruct (json_resources_member f file m); cbn [bind add_member app]; reflexivity.
Qed.

Theorem json_of_image_full_total f file m soi :
  validate f m = Ok soi -> mem_ok m -> exists j, json_of_image_full f file m = Ok j.
Proof.
  intros Hv Hm. rewrite json_of_image_full_split.
  destruct (json_of_image_total f file m soi Hv Hm) as (j & ->). cbn [bind].
  destruct (json_resources_member_total f file m) as (jr & ->). cbn [bind]. eexists. reflexivity.
Qed.

(* through the wrapper: the text is the print of the held format's ten-member tree, is well formed and parses back to it *)
Theorem serialize_full_text w file m :
  wrap_from_bytes m = Ok w -> mem_ok m ->
  exists j, json_of_image_full (fmt_of w) file m = Ok j /\ wrap_json_full w file m = Ok j /\
            wrap_json_full_text w file m = Ok (print_json j) /\
            well_formed (print_json j) = true /\ parse_json (print_json j) = Some j.
Proof.
  intros Hw Hm. destruct (wrapper_mirrors m w Hw) as (_ & (soi & Hv) & _).
  destruct (json_of_image_full_total (fmt_of w) file m soi Hv Hm) as (j & Hj).
  exists j. split; [exact Hj|].
  assert (Hwj : wrap_json_full w file m = Ok j) by (unfold wrap_json_full; rewrite dispatch_fmt; exact Hj).
  split; [exact Hwj|]. split; [unfold wrap_json_full_text; rewrite Hwj; reflexivity|].
  split; [apply print_well_formed|apply parse_print].
Qed.

(* ------------------------------------------------------------------ (b) the two bounds *)
Definition arr_depth (l : list json) : nat := fold_right Nat.max O (map jdepth l).
Definition arr_entries (l : list json) : N := fold_right N.add 0 (map jentries l).

Lemma name_json_leaf top n : jdepth (name_json top n) = O /\ jentries (name_json top n) = 0.
Proof.
  destruct n as [id|ws|cs]; destruct top; cbn [name_json]; try (split; reflexivity).
  destruct (R.rsrc_type id); split; reflexivity.
Qed.
Lemma jopt_name_leaf on jn : jopt_res json_name on = Ok jn -> jdepth jn = O /\ jentries jn = 0.
Proof.
  destruct on as [n|]; cbn [jopt_res]; [rewrite json_name_eq|]; intros [= <-]; [apply name_json_leaf|split; reflexivity].
Qed.
Lemma entry_obj_measures jn kv :
  jentries (JObj [ (k_name, jn); kv ]) = 1 + (jentries jn + (jentries (snd kv) + 0)) /\
  jdepth (JObj [ (k_name, jn); kv ]) = Nat.max (jdepth jn) (Nat.max (jdepth (snd kv)) O).
Proof. split; reflexivity. Qed.
Lemma data_entry_leaf s o : jdepth (json_data_entry s o) = O /\ jentries (json_data_entry s o) = 0.
Proof. split; reflexivity. Qed.

Lemma jwalk_loop_bound s below top K :
  (forall w, below = Some w -> forall o b l b', w o b = Ok (l, b') -> arr_entries l + b' = b /\ (S (arr_depth l) <= K)%nat) ->
  forall es b l b', jwalk_loop s below top es b = Ok (l, b') -> arr_entries l + b' = b /\ (arr_depth l <= K)%nat.
Proof.
  intros HB. induction es as [|e r IH]; intros b l b'; cbn [jwalk_loop].
  - intros [= <- <-]. split; [reflexivity|apply Nat.le_0_l].
  - destruct (b =? 0) eqn:B0; [intros [= <- <-]; split; [cbn; lia|apply Nat.le_0_l]|].
    destruct (ok_ (R.e_name s e)) as [on|?|?]; cbn [bind]; [|discriminate|discriminate].
    destruct (jopt_res json_name (if top then option_map rename_id on else on)) as [jn|?|?] eqn:Hjn; cbn [bind]; [|discriminate|discriminate].
    destruct (jopt_name_leaf _ _ Hjn) as [Hd He].
    destruct (ok_ (R.e_entry s e)) as [en|?|?]; cbn [bind]; [|discriminate|discriminate].
    match goal with |- context [bind ?X _] => destruct X as [mb|?|?] eqn:Hmb end; cbn [bind]; [|discriminate|discriminate].
    destruct (jwalk_loop s below top r (snd mb)) as [rest|?|?] eqn:Hrest; cbn [bind]; [|discriminate|discriminate].
    intros [= <- <-]. destruct rest as [lr br]. cbn [fst snd] in *.
    destruct (IH _ _ _ Hrest) as [IH1 IH2].
    assert (Hm : jentries (snd (fst mb)) + snd mb = b - 1 /\ (jdepth (snd (fst mb)) <= K)%nat).
    { destruct en as [[o|o]|]; [destruct below as [w|]| |].
      - destruct (w o (b - 1)) as [sub|?|?] eqn:Hw; cbn [bind] in Hmb; [|discriminate|discriminate].
        injection Hmb as <-. destruct sub as [ls bs]. cbn [fst snd]. destruct (HB w eq_refl _ _ _ _ Hw) as [H1 H2].
        split; [exact H1|exact H2].
      - injection Hmb as <-. cbn [fst snd]. split; [cbn; lia|apply Nat.le_0_l].
      - injection Hmb as <-. cbn [fst snd]. destruct (data_entry_leaf s o) as [-> ->]. split; [lia|apply Nat.le_0_l].
      - injection Hmb as <-. cbn [fst snd]. split; [cbn; lia|apply Nat.le_0_l]. }
    destruct Hm as [Hm1 Hm2].
    unfold arr_entries, arr_depth in *. cbn [map fold_right].
    destruct (entry_obj_measures jn (fst mb)) as [-> ->]. rewrite Hd, He. split; [lia|].
    apply Nat.max_lub; [|exact IH2]. cbn [Nat.max]. rewrite Nat.max_0_r. exact Hm2.
Qed.

Lemma jwalk_bound d s : forall off top b l b', jwalk d s off top b = Ok (l, b') -> arr_entries l + b' = b /\ (arr_depth l <= d)%nat.
Proof.
  induction d as [|d IH]; intros off top b l b'; cbn [jwalk]; apply jwalk_loop_bound; intros w Hw; [discriminate|].
  injection Hw as <-. intros o b0 l0 b0' H. destruct (IH _ _ _ _ _ H) as [H1 H2]. split; [exact H1|lia].
Qed.

(* for ANY section: the value has at most (section length / 8) entry objects - exactly the budget that was consumed - and
   its arrays are nested at most FSCK_MAX_DEPTH deep *)
Theorem json_resources_bounded s j :
  json_resources s = Ok j -> jentries j <= R.rs_len s / 8 /\ (jdepth j <= R.FSCK_DEPTH)%nat.
Proof.
  unfold json_resources. destruct (R.root s) as [r|e|x]; [| |discriminate].
  - destruct (jwalk JRES_DEPTH s r true (R.fsck_budget s)) as [[l b']|?|?] eqn:Hw; cbn [bind]; [|discriminate|discriminate].
    intros [= <-]. destruct (jwalk_bound _ _ _ _ _ _ _ Hw) as [H1 H2]. unfold R.fsck_budget in H1.
    cbn [jentries jdepth fst]. fold (arr_entries l). fold (arr_depth l). split; [lia|].
    unfold JRES_DEPTH, R.FSCK_DEPTH in *. cbn [pred] in H2. lia.
  - intros [= <-]. split; [cbn; lia|apply Nat.le_0_l].
Qed.

(* ------------------------------------------------------------------ (c) the value on a section that denotes a tree *)
Lemma json_name_top (top : bool) n : json_name (if top then rename_id n else n) = Ok (name_json top n).
Proof.
  destruct top; [|apply json_name_eq].
  destruct n as [id|ws|cs]; cbn [rename_id name_json]; [|apply (json_name_eq (R.NWide ws))|reflexivity].
  destruct (R.rsrc_type id); reflexivity.
Qed.

Lemma data_entry_json s o st sz cp :
  T.data_at s o st sz cp = true -> json_data_entry s o = tree_json (R.rs_va s) false (T.RData o st sz cp).
Proof.
  intros H. pose proof (RP.data_at_bytes s o st sz cp H) as (_ & _ & Hs & Hc).
  unfold T.data_at in H. repeat (apply andb_prop in H; destruct H as [H ?]).
  unfold json_data_entry. rewrite Hs, Hc. cbn [tree_json].
  replace (R.rd32 s o) with (R.rs_va s + st) by lia. reflexivity.
Qed.

(* what the serializer must find below an entry: the walk of a sub-directory computes its children and consumes its size *)
Definition below_ok (s : R.rsec) (below : option (N -> N -> res (list json * N))) (k : T.rtree) : Prop :=
  match k with
  | T.RDir o kk =>
    exists w, below = Some w /\
      forall b, T.size k <= b -> w o b = Ok (kids_json (fun x => tree_json (R.rs_va s) false x) false kk, b - T.size k)
  | T.RData _ _ _ _ => True
  end.

Lemma jwalk_loop_repr s below top :
  forall kids e b,
  Forall (fun nk => below_ok s below (snd nk)) kids ->
  T.repr_kids s (fun k => T.repr s k) e kids = true ->
  T.size_kids T.size kids <= b ->
  jwalk_loop s below top (R.entry_offs e (lenN kids)) b
  = Ok (kids_json (fun x => tree_json (R.rs_va s) false x) top kids, b - T.size_kids T.size kids).
Proof.
  induction kids as [|[n k] r IH]; intros e b HF HR HS.
  - change (lenN (@nil (R.name * T.rtree))) with 0. unfold R.entry_offs. change (N.to_nat 0) with 0%nat.
    cbn [seq map jwalk_loop kids_json T.size_kids fold_right]. f_equal. f_equal. lia.
  - rewrite lenN_cons, RP.entry_offs_cons. cbn [jwalk_loop kids_json fst snd].
    cbn [T.size_kids fold_right snd] in HS. fold (T.size_kids T.size r) in HS.
    destruct (b =? 0) eqn:B0; [lia|].
    cbn [T.repr_kids fst snd] in HR.
    apply andb_prop in HR. destruct HR as [HR HR4]. apply andb_prop in HR. destruct HR as [HR HR3].
    apply andb_prop in HR. destruct HR as [HR1 HR2].
    destruct (RP.link_entry s e k HR2 HR3) as [_ Hent].
    inversion HF as [|x l HFk HFr]; subst x l. cbn [snd] in HFk.
    rewrite (RP.name_at_e_name _ _ _ HR1). cbn [ok_ bind].
    replace (if top then option_map rename_id (Some n) else Some n) with (Some (if top then rename_id n else n)) by (destruct top; reflexivity).
    cbn [jopt_res]. rewrite json_name_top. cbn [bind]. rewrite Hent. cbn [ok_ bind].
    destruct k as [o st sz cp|o kk]; cbn [T.rt_isdir T.rt_off].
    + cbn [bind fst snd]. cbn [T.repr] in HR3.
      rewrite (IH (e + 8) (b - 1) HFr HR4) by (cbn [T.size] in HS; lia). cbn [bind fst snd].
      rewrite (data_entry_json _ _ _ _ _ HR3). f_equal. f_equal. cbn [T.size_kids fold_right snd T.size]. fold (T.size_kids T.size r). lia.
    + destruct HFk as (w & -> & Hw). rewrite (Hw (b - 1)) by lia. cbn [bind fst snd].
      rewrite (IH (e + 8) (b - 1 - T.size (T.RDir o kk)) HFr HR4) by lia. cbn [bind fst snd].
      f_equal. f_equal. cbn [T.size_kids fold_right snd]. fold (T.size_kids T.size r). lia.
Qed.

Lemma jwalk_unfold d s off top b :
  jwalk d s off top b =
  jwalk_loop s (match d with O => None | S d' => Some (fun o b' => jwalk d' s o false b') end) top (R.entries s off) b.
Proof. destruct d; reflexivity. Qed.

Definition jwalk_spec (s : R.rsec) (t : T.rtree) : Prop :=
  forall d top b, T.repr s t = true -> (T.height t <= S d)%nat -> T.size t <= b ->
  match t with
  | T.RDir o kids => jwalk d s o top b = Ok (kids_json (fun x => tree_json (R.rs_va s) false x) top kids, b - T.size t)
  | T.RData _ _ _ _ => True
  end.

Lemma jwalk_spec_all t s : jwalk_spec s t.
Proof.
  induction t as [o st sz cp|o kids IHk] using RP.rtree_ind'; unfold jwalk_spec; intros d top b HR HH HS; [exact I|].
  rewrite jwalk_unfold. cbn [T.size]. cbn [T.repr] in HR. apply andb_prop in HR. destruct HR as [HR HR3]. apply andb_prop in HR. destruct HR as [HR1 HR2].
  unfold R.entries. replace (R.n_named s o + R.n_ids s o) with (lenN kids) by (unfold T.dir_count, R.n_named, R.n_ids in *; lia).
  apply jwalk_loop_repr; [|exact HR3|exact HS].
  apply Forall_forall. intros nk Hin. pose proof (proj1 (Forall_forall _ _) IHk nk Hin) as Hk.
  pose proof (RP.height_kid o kids nk d Hin HH) as Hh.
  destruct (snd nk) as [o' st sz cp|o' kk] eqn:Ek; cbn [below_ok]; [exact I|].
  destruct d as [|d']; [cbn [T.height] in Hh; lia|].
  eexists. split; [reflexivity|]. intros b0 Hb0.
  assert (Hrk : T.repr s (T.RDir o' kk) = true).
  { clear -HR3 Hin Ek. revert HR3. generalize (o + 16). induction kids as [|x r IH]; [destruct Hin|]. intros e0 H.
    cbn [T.repr_kids] in H. apply andb_prop in H. destruct H as [H H4]. apply andb_prop in H. destruct H as [_ H3].
    destruct Hin as [->|Hin]; [rewrite Ek in H3; exact H3|exact (IH Hin _ H4)]. }
  cbn beta in Hk. rewrite Ek in Hk. exact (Hk d' false b0 Hrk Hh Hb0).
Qed.

(* a section whose root denotes a tree (Spec/ResTree.v [repr]: every reachable name, reference and data entry valid) nested
   at most FSCK_MAX_DEPTH directories deep with at most (length / 8) entries - exactly the sections that pass fsck
   (C12_fsck_iff) - serializes to the declarative value of that tree: names (renamed on the first level only), data
   entries { OffsetToData, Size, CodePage }, nothing cut *)
Theorem json_resources_repr s kids :
  T.repr s (T.RDir 0 kids) = true -> (T.height (T.RDir 0 kids) <= R.FSCK_DEPTH)%nat -> T.size (T.RDir 0 kids) <= R.rs_len s / 8 ->
  json_resources s = Ok (tree_json (R.rs_va s) true (T.RDir 0 kids)).
Proof.
  intros HR HH HS. unfold json_resources, R.root.
  pose proof HR as HR'. cbn [T.repr] in HR'. apply andb_prop in HR'. destruct HR' as [HR' _]. apply andb_prop in HR'. destruct HR' as [HD _].
  rewrite (RP.dir_at_try_from _ _ HD).
  pose proof (jwalk_spec_all (T.RDir 0 kids) s JRES_DEPTH true (R.fsck_budget s) HR HH HS) as HW. cbn beta iota in HW.
  rewrite HW. reflexivity.
Qed.

(* corollary: what fsck accepts is serialized completely *)
Corollary json_resources_of_fsck s :
  R.fsck s = Ok tt -> exists kids, T.repr s (T.RDir 0 kids) = true /\ json_resources s = Ok (tree_json (R.rs_va s) true (T.RDir 0 kids)).
Proof.
  intros H. apply RP.fsck_iff in H. destruct H as (kids & K1 & K2 & K3). exists kids. split; [exact K1|].
  apply json_resources_repr; assumption.
Qed.

(* ------------------------------------------------------------------ the full-text oracle *)
Theorem json_text_full_ok_sound model text : json_text_full_ok model text = true ->
  exists j, model = Ok j /\ parse_json text = Some j /\ well_formed text = true /\ text = print_json j.
Proof.
  unfold json_text_full_ok, well_formed. destruct (parse_json text) as [j|] eqn:HP; [|discriminate].
  destruct model as [jm|e|x]; try discriminate. intros H. apply andb_true_iff in H as [H1 H2].
  apply list_eqb_eq in H1. apply list_eqb_eq in H2. apply print_json_inj in H2. subst jm.
  exists j. repeat split. symmetry. exact H1.
Qed.
Theorem json_text_full_ok_complete j : json_text_full_ok (Ok j) (print_json j) = true.
Proof. unfold json_text_full_ok. rewrite parse_print, list_eqb_refl. reflexivity. Qed.

(* ------------------------------------------------------------------ (d) concrete sections (non-vacuity) *)
Definition fmap_print (r : res json) : option (list N) := match r with Ok j => Some (print_json j) | _ => None end.
(* section at RVA 0x1000, 100 bytes (budget 12):
     root          1 named entry  "A" + an unpaired high surrogate  -> data entry at 80 (4 bytes at 96, code page 0)
                   1 id entry     3 (RT_ICON)                       -> directory at 32
     directory 32  1 id entry     3                                 -> data entry at 56 (4 bytes at 96, code page 1252) *)
Definition ex_res_sec : R.rsec :=
  RP.sec_of 4096 4096
    [0;0;0;0; 0;0;0;0; 0;0;0;0; 1;0; 1;0;   72;0;0;128; 80;0;0;0;   3;0;0;0; 32;0;0;128;
     0;0;0;0; 0;0;0;0; 0;0;0;0; 0;0; 1;0;   3;0;0;0; 56;0;0;0;
     96;16;0;0; 4;0;0;0; 228;4;0;0; 0;0;0;0;
     2;0; 65;0; 0;216; 0;0;
     96;16;0;0; 4;0;0;0; 0;0;0;0; 0;0;0;0;
     170;187;204;221].
Definition ex_res_tree : T.rtree :=
  T.RDir 0 [ (R.NWide [65; 55296], T.RData 80 96 4 0); (R.NId 3, T.RDir 32 [ (R.NId 3, T.RData 56 96 4 1252) ]) ].
(* the F16 witness of C12: a root whose only entry (id 1) is the root itself; 24 bytes, budget 3 *)
Definition ex_res_self : R.rsec := RP.f16_witness.
(* the same root in a section of 320 bytes: budget 40, the depth limit is reached first *)
Definition ex_res_deep : R.rsec :=
  RP.sec_of 4096 4096 ([0;0;0;0; 0;0;0;0; 0;0;0;0; 0;0; 1;0;  1;0;0;0; 0;0;0;128] ++ repeat 0 296).

Lemma ex_res_nonvacuous :
  T.repr ex_res_sec ex_res_tree = true /\ R.fsck ex_res_sec = Ok tt /\
  json_resources ex_res_sec = Ok (tree_json 4096 true ex_res_tree) /\
  fmap_print (json_resources ex_res_sec) =
    Some (S_"[{""name"":""A" ++ [239; 191; 189] ++
          S_""",""data"":{""address"":4192,""size"":4,""code_page"":0}},{""name"":""#ICON"",""directory"":[{""name"":3,""data"":{""address"":4192,""size"":4,""code_page"":1252}}]}]") /\
  fmap_print (json_resources ex_res_self) =
    Some (S_"[{""name"":""#CURSOR"",""directory"":[{""name"":1,""directory"":[{""name"":1,""directory"":[]}]}]}]") /\
  (match json_resources ex_res_deep with Ok j => (jentries j, jdepth j) | _ => (0, O) end) = (32, 32%nat) /\
  json_resources (RP.sec_of 4098 4096 [0;0;0;0; 0;0;0;0; 0;0;0;0; 0;0; 0;0]) = Ok JNull /\
  json_resources (RP.sec_of 4096 4096 [0;0;0;0; 0;0;0;0; 0;0;0;0; 0;0; 0;0]) = Ok (JArr []).
Proof. vm_compute. repeat split; reflexivity. Qed.

(* the full oracle subsumes the oracle of the second round (which dropped the member) *)
Theorem json_text_full_ok_implies_nine f file m text :
  json_text_full_ok (json_of_image_full f file m) text = true -> json_text_ok (json_of_image f file m) text = true.
Proof.
  intros H. apply json_text_full_ok_sound in H. destruct H as (j & Hm & _ & _ & ->).
  unfold json_of_image_full in Hm. unfold json_of_image.
  destruct (json_headers f m) as [jh|?|?]; cbn [bind] in Hm |- *; try discriminate.
  destruct (json_rich m) as [jr|?|?]; cbn [bind] in Hm |- *; try discriminate.
  destruct (json_exports f file m) as [je|?|?]; cbn [bind] in Hm |- *; try discriminate.
  destruct (json_imports f file m) as [ji|?|?]; cbn [bind] in Hm |- *; try discriminate.
  destruct (json_base_relocs f file m) as [jb|?|?]; cbn [bind] in Hm |- *; try discriminate.
  destruct (json_debug f file m) as [jd|?|?]; cbn [bind] in Hm |- *; try discriminate.
  destruct (json_tls f file m) as [jt|?|?]; cbn [bind] in Hm |- *; try discriminate.
  destruct (json_load_config f file m) as [jl|?|?]; cbn [bind] in Hm |- *; try discriminate.
  destruct (json_security f file m) as [js|?|?]; cbn [bind] in Hm |- *; try discriminate.
  destruct (json_resources_member f file m) as [jres|?|?]; cbn [bind] in Hm; try discriminate.
  injection Hm as <-.
  apply (json_text_ok_complete [ (k_headers, jh); (k_rich_structure, jr); (k_exports, je); (k_imports, ji); (k_base_relocs, jb);
             (k_debug, jd); (k_tls, jt); (k_load_config, jl); (k_security, js) ] jres).
  intros k v Hin. cbn [In] in Hin.
  repeat (destruct Hin as [Hin|Hin]; [injection Hin as <- _; reflexivity|]). destruct Hin.
Qed.
