(* C15: which bytes the directory accessors decode how (Spec/DirShape.v). *)
From PV.Model Require Import Machine Mapping Views Dirs DirsFields.
From PV.Spec Require Import MappingSpec ViewSpec DirSpec DirShape.
From PV.Proofs Require Import BaseProofs MappingProofs ViewsProofs DirsProofs.
From PV.gen Require Import Layout.
Ltac Zify.zify_post_hook ::= Z.div_mod_to_equations.

Lemma u32at_dword g o : u32at g o = dword_at g o.
Proof. unfold u32at, dword_at. cbn [le_value]. rewrite <- !N.add_assoc. change (1 + 1) with 2. change (1 + 2) with 3. lia. Qed.
Lemma u16at_word g o : u16at g o = word_at g o.
Proof. unfold u16at, word_at. cbn [le_value]. lia. Qed.
Lemma raw_bytes_at g o n : raw_bytes g o n = bytes_at g o n.
Proof. reflexivity. Qed.
Lemma bytes_at_4 g o : bytes_at g o 4 = [g o; g (o + 1); g (o + 2); g (o + 3)].
Proof.
  unfold bytes_at. cbn [seq map]. change (N.of_nat 0) with 0. change (N.of_nat 1) with 1. change (N.of_nat 2) with 2.
  change (N.of_nat 3) with 3. rewrite N.add_0_r. reflexivity.
Qed.

(* the field accessors are the little-endian values at the literal offsets *)
Theorem entry_fields_is_shape g e : entry_fields g e = entry_fields_shape g e.
Proof.
  destruct e as [i nm|i nm|i|r|d]; cbn [entry_fields entry_fields_shape]; try reflexivity.
  - change IMAGE_DEBUG_CV_INFO_PDB20_CvSignature_off with 0. rewrite N.add_0_r, raw_bytes_at, bytes_at_4, !u32at_dword. reflexivity.
  - change IMAGE_DEBUG_CV_INFO_PDB70_CvSignature_off with 0. rewrite N.add_0_r, !raw_bytes_at, bytes_at_4, !u32at_dword. reflexivity.
  - change IMAGE_DEBUG_MISC_DataType_off with 0. rewrite N.add_0_r, !u32at_dword. reflexivity.
Qed.

(* ---------------------------------------------------------------- security *)
Theorem security_fields v va size r : security_try_from v (Some (va, size)) = Ok r ->
  v_file v = true /\ r = {| r_off := va; r_len := size |} /\ 8 <= size /\ va + size <= v_len v /\
  sec_length (v_get v) r = ss_length (security_fields_shape (v_get v) va size) /\
  sec_revision (v_get v) r = ss_revision (security_fields_shape (v_get v) va size) /\
  certificate_type (v_get v) r = ss_type (security_fields_shape (v_get v) va size) /\
  certificate_bytes (v_get v) r = Ok (ss_payload (security_fields_shape (v_get v) va size)).
Proof.
  unfold security_try_from. destruct (v_file v); cbn [negb]; [|discriminate].
  destruct (va =? 0); [discriminate|].
  destruct (negb (aligned_to 8 va) || negb (aligned_to 8 size)); [discriminate|].
  destruct (size =? 0); [discriminate|].
  unfold checked_add. destruct (va + size <? W64); [|discriminate].
  unfold get_range. destruct ((va <=? va + size) && (va + size <=? v_len v)) eqn:E; [|discriminate].
  unfold security_new. cbn [r_off r_len].
  destruct (negb (aligned_to 4 (v_addr v + va))); [discriminate|].
  replace (va + size - va) with size by lia. destruct (size <? 8) eqn:E8; [discriminate|].
  intros H. injection H as <-. split; [reflexivity|]. split; [reflexivity|]. split; [lia|]. split; [lia|].
  unfold sec_length, sec_revision, certificate_type, certificate_bytes, certificate_data, security_fields_shape.
  cbn [r_off r_len ss_length ss_revision ss_type ss_payload].
  change WIN_CERTIFICATE_dwLength_off with 0. change WIN_CERTIFICATE_wRevision_off with 4.
  rewrite N.add_0_r, u32at_dword, !u16at_word. rewrite E8. cbn [bind r_off r_len].
  repeat split; reflexivity.
Qed.

(* ---------------------------------------------------------------- debug entries *)
Lemma sig_is_bytes g o a b c d : sig_is g o a b c d = true -> g o = a /\ g (o + 1) = b /\ g (o + 2) = c /\ g (o + 3) = d.
Proof. unfold sig_is. lia. Qed.

Lemma cstr_is_path g start room nm : cstr_from_bytes g start room = Some nm -> is_path g start room nm.
Proof.
  intros H. pose proof (cstr_from_bytes_spec g start room) as S. rewrite H in S. exact S.
Qed.

Theorem dir_entry_shape v d e : bytes_lt (v_get v) -> ddir_ok d -> dir_entry v d = Ok e -> entry_shape v d e.
Proof.
  intros Hg Hd. unfold dir_entry, code_view, dbg_entry, pgo_entry. rewrite !(dir_data_correct v d Hd).
  unfold dir_data_spec. fold (payload_off v d). set (o := payload_off v d).
  destruct (dd_type d =? 2) eqn:T2.
  { destruct (o + dd_size d <=? v_len v) eqn:Eb; [|discriminate]. cbn [r_off r_len].
    destruct (dd_size d <? 16) eqn:E16; [discriminate|].
    destruct (negb (aligned_to 4 (v_addr v + o))) eqn:Ea; [discriminate|].
    assert (Hal : (v_addr v + o) mod 4 = 0) by (unfold aligned_to in Ea; lia).
    rewrite (sig_nb10 _ _ Hg), (sig_rsds _ _ Hg).
    destruct (sig_is (v_get v) o 78 66 49 48) eqn:S1.
    - destruct (cstr_from_bytes (v_get v) (o + 16) (dd_size d - 16)) as [nm|] eqn:En; [|discriminate].
      intros H. injection H as <-. unfold entry_shape. fold o. cbv zeta.
      apply sig_is_bytes in S1. destruct S1 as (B0 & B1 & B2 & B3).
      split; [lia|]. split; [reflexivity|]. split; [lia|]. split; [lia|]. split; [exact Hal|]. split.
      + rewrite entry_fields_is_shape. cbn [entry_fields_shape]. rewrite B0, B1, B2, B3. reflexivity.
      + apply cstr_is_path. exact En.
    - destruct (sig_is (v_get v) o 82 83 68 83) eqn:S2; [|discriminate].
      destruct (dd_size d <? 24) eqn:E24; [discriminate|].
      destruct (cstr_from_bytes (v_get v) (o + 24) (dd_size d - 24)) as [nm|] eqn:En; [|discriminate].
      intros H. injection H as <-. unfold entry_shape. fold o. cbv zeta.
      apply sig_is_bytes in S2. destruct S2 as (B0 & B1 & B2 & B3).
      split; [lia|]. split; [reflexivity|]. split; [lia|]. split; [lia|]. split; [exact Hal|]. split.
      + rewrite entry_fields_is_shape. cbn [entry_fields_shape]. rewrite B0, B1, B2, B3. reflexivity.
      + apply cstr_is_path. exact En. }
  destruct (dd_type d =? 4) eqn:T4.
  { destruct (o + dd_size d <=? v_len v) eqn:Eb; [|discriminate]. cbn [r_off r_len].
    destruct (dd_size d <? 12) eqn:E12; [discriminate|].
    destruct (negb (aligned_to 4 (v_addr v + o))) eqn:Ea; [discriminate|].
    assert (Hal : (v_addr v + o) mod 4 = 0) by (unfold aligned_to in Ea; lia).
    intros H. injection H as <-. unfold entry_shape. fold o. cbv zeta.
    split; [lia|]. split; [reflexivity|]. split; [lia|]. split; [lia|]. split; [exact Hal|].
    rewrite entry_fields_is_shape. reflexivity. }
  destruct (dd_type d =? 13) eqn:T13.
  { destruct (o + dd_size d <=? v_len v) eqn:Eb; [|discriminate]. cbn [r_off r_len].
    destruct (dd_size d <? 4) eqn:E4; [discriminate|].
    destruct (negb (aligned_to 4 (v_addr v + o))) eqn:Ea; [discriminate|].
    assert (Hal : (v_addr v + o) mod 4 = 0) by (unfold aligned_to in Ea; lia).
    intros H. injection H as <-. unfold entry_shape. fold o. cbv zeta. cbn [r_off r_len].
    split; [lia|]. split; [reflexivity|]. split; [lia|]. split; [lia|]. split; [exact Hal|reflexivity]. }
  intros H. injection H as <-. unfold entry_shape. fold o. cbv zeta.
  split; [lia|]. split; [lia|]. split; [lia|reflexivity].
Qed.

Ltac pick_type Ht Hmin :=
  rewrite Ht in Hmin |- *;
  change (2 =? 2) with true in Hmin |- *; change (4 =? 2) with false in Hmin |- *; change (4 =? 4) with true in Hmin |- *;
  change (13 =? 2) with false in Hmin |- *; change (13 =? 4) with false in Hmin |- *; change (13 =? 13) with true in Hmin |- *;
  cbv iota in Hmin |- *.

(* the error cases of a typed entry, over the same bytes *)
Theorem dir_entry_errors v d : bytes_lt (v_get v) -> ddir_ok d ->
  let g := v_get v in let o := payload_off v d in
  let typed := dd_type d = 2 \/ dd_type d = 4 \/ dd_type d = 13 in
  let min := if dd_type d =? 2 then 16 else if dd_type d =? 4 then 12 else 4 in
  (typed -> v_len v < o + dd_size d -> dir_entry v d = Err EBounds) /\
  (typed -> o + dd_size d <= v_len v -> dd_size d < min -> dir_entry v d = Err EBounds) /\
  (typed -> o + dd_size d <= v_len v -> min <= dd_size d -> (v_addr v + o) mod 4 <> 0 -> dir_entry v d = Err EMisaligned) /\
  (dd_type d = 2 -> o + dd_size d <= v_len v -> 16 <= dd_size d -> (v_addr v + o) mod 4 = 0 ->
     (bytes_at g o 4 <> [78; 66; 49; 48] -> bytes_at g o 4 <> [82; 83; 68; 83] -> dir_entry v d = Err EBadMagic) /\
     (bytes_at g o 4 = [78; 66; 49; 48] -> (forall k, k < dd_size d - 16 -> g (o + 16 + k) <> 0) -> dir_entry v d = Err EEncoding) /\
     (bytes_at g o 4 = [82; 83; 68; 83] -> dd_size d < 24 -> dir_entry v d = Err EBounds) /\
     (bytes_at g o 4 = [82; 83; 68; 83] -> 24 <= dd_size d -> (forall k, k < dd_size d - 24 -> g (o + 24 + k) <> 0) -> dir_entry v d = Err EEncoding)).
Proof.
  intros Hg Hd. cbv zeta. unfold dir_entry, code_view, dbg_entry, pgo_entry. rewrite !(dir_data_correct v d Hd).
  unfold dir_data_spec. fold (payload_off v d). set (o := payload_off v d).
  assert (Hnone : forall off room, (forall k, k < room -> v_get v (off + k) <> 0) -> cstr_from_bytes (v_get v) off room = None).
  { intros off room Hk. pose proof (cstr_from_bytes_spec (v_get v) off room) as S.
    destruct (cstr_from_bytes (v_get v) off room) as [nm|]; [exfalso|reflexivity].
    destruct S as (S1 & S2 & S3 & S4 & _). apply (Hk (r_len nm - 1)); [lia|]. rewrite <- S4. f_equal. lia. }
  split; [|split; [|split]].
  - intros Ht Hlen. destruct (o + dd_size d <=? v_len v) eqn:Eb; [lia|].
    destruct Ht as [Ht|[Ht|Ht]]; rewrite Ht; reflexivity.
  - intros Ht Hlen Hmin. destruct (o + dd_size d <=? v_len v) eqn:Eb; [|lia]. cbn [r_len r_off].
    destruct Ht as [Ht|[Ht|Ht]]; pick_type Ht Hmin;
      match goal with |- context [dd_size d <? ?c] => destruct (dd_size d <? c) eqn:E; [reflexivity|lia] end.
  - intros Ht Hlen Hmin Hal. destruct (o + dd_size d <=? v_len v) eqn:Eb; [|lia]. cbn [r_len r_off].
    assert (Ea : negb (aligned_to 4 (v_addr v + o)) = true) by (unfold aligned_to; lia).
    destruct Ht as [Ht|[Ht|Ht]]; pick_type Ht Hmin;
      match goal with |- context [dd_size d <? ?c] => destruct (dd_size d <? c) eqn:E; [lia|] end; rewrite Ea; reflexivity.
  - intros Ht Hlen Hmin Hal. rewrite Ht. change (2 =? 2) with true. cbv iota.
    destruct (o + dd_size d <=? v_len v) eqn:Eb; [|lia]. cbn [r_len r_off].
    destruct (dd_size d <? 16) eqn:E16; [lia|].
    assert (Ea : negb (aligned_to 4 (v_addr v + o)) = false) by (unfold aligned_to; lia). rewrite Ea.
    rewrite (sig_nb10 _ _ Hg), (sig_rsds _ _ Hg). rewrite bytes_at_4.
    assert (Hs : forall a b c e, sig_is (v_get v) o a b c e = true <-> [v_get v o; v_get v (o + 1); v_get v (o + 2); v_get v (o + 3)] = [a; b; c; e]).
    { intros a b c e. split.
      - intros H. apply sig_is_bytes in H. destruct H as (-> & -> & -> & ->). reflexivity.
      - intros H. injection H as <- <- <- <-. unfold sig_is. rewrite !N.eqb_refl. reflexivity. }
    split; [|split; [|split]].
    + intros H1 H2. destruct (sig_is (v_get v) o 78 66 49 48) eqn:S1; [exfalso; apply H1, Hs, S1|].
      destruct (sig_is (v_get v) o 82 83 68 83) eqn:S2; [exfalso; apply H2, Hs, S2|]. reflexivity.
    + intros H1 Hk. rewrite (proj2 (Hs _ _ _ _) H1). rewrite Hnone by exact Hk. reflexivity.
    + intros H1 H24. destruct (sig_is (v_get v) o 78 66 49 48) eqn:S1.
      { apply Hs in S1. rewrite S1 in H1. discriminate. }
      rewrite (proj2 (Hs _ _ _ _) H1). destruct (dd_size d <? 24) eqn:E24; [reflexivity|lia].
    + intros H1 H24 Hk. destruct (sig_is (v_get v) o 78 66 49 48) eqn:S1.
      { apply Hs in S1. rewrite S1 in H1. discriminate. }
      rewrite (proj2 (Hs _ _ _ _) H1). destruct (dd_size d <? 24) eqn:E24; [lia|]. rewrite Hnone by exact Hk. reflexivity.
Qed.

(* ---------------------------------------------------------------- exception: function bytes, unwind info *)
Theorem unwind_fields g r :
  {| us_version := uw_version g r; us_flags := uw_flags g r; us_prolog := uw_size_of_prolog g r; us_count := uw_count g r;
     us_reg := uw_frame_register g r; us_offset := uw_frame_offset g r; us_codes := uw_codes g r |}
  = unwind_fields_shape g (r_off r).
Proof.
  unfold unwind_fields_shape, uw_version, uw_flags, uw_size_of_prolog, uw_count, uw_frame_register, uw_frame_offset, uw_codes, u8at.
  change 7 with (N.ones 3). change 15 with (N.ones 4). rewrite !N.land_ones. reflexivity.
Qed.

(* the whole of unwind_info over the bytes: the header is the 4 bytes slicing yields at UnwindData (alignment 1),
   CountOfCodes is its third byte, and the 2*CountOfCodes code bytes must fit in the same slice *)
Theorem unwind_info_closed v f : bytes_lt (v_get v) ->
  unwind_info v f =
    match slice v (rf_unwind f) 4 1 with
    | Ok b => if r_len b <? 4 + 2 * v_get v (r_off b + 2) then Err EBounds
              else Ok {| r_off := r_off b; r_len := 4 + 2 * v_get v (r_off b + 2) |}
    | Err e => Err e
    | Fault x => Fault x
    end.
Proof.
  intros Hg. unfold unwind_info. destruct (slice v (rf_unwind f) 4 1) as [b|e|x]; cbn [bind]; try reflexivity.
  unfold u8at, chk_mul, chk_add. pose proof (Hg (r_off b + 2)) as Hc.
  destruct (2 * v_get v (r_off b + 2) <? W64) eqn:E1; [|unfold W64 in *; lia]. cbn [bind].
  destruct (4 + 2 * v_get v (r_off b + 2) <? W64) eqn:E2; [|unfold W64 in *; lia]. cbn [bind]. reflexivity.
Qed.

Theorem function_bytes_closed v f : rf_end f < W64 ->
  function_bytes v f =
    if rf_end f <? rf_begin f then Err EOverflow
    else match slice v (rf_begin f) (rf_end f - rf_begin f) 1 with
         | Ok b => Ok {| r_off := r_off b; r_len := rf_end f - rf_begin f |}
         | Err e => Err e
         | Fault x => Fault x
         end.
Proof.
  intros He. unfold function_bytes. destruct (rf_end f <? rf_begin f); [reflexivity|].
  unfold rd_slice, checked_mul. rewrite N.mul_1_l. destruct (rf_end f - rf_begin f <? W64) eqn:E; [|lia].
  destruct (slice v (rf_begin f) (rf_end f - rf_begin f) 1); reflexivity.
Qed.

(* ---------------------------------------------------------------- non-vacuity *)
(* a 96-byte file view: an RSDS record at file offset 32 (GUID 1..16, age 7, path "a.pdb") *)
Definition ex_cv_bytes : list N :=
  repeat 0 32 ++ [82; 83; 68; 83] ++ [1;2;3;4;5;6;7;8;9;10;11;12;13;14;15;16] ++ le32 7 ++ [97; 46; 112; 100; 98; 0] ++ repeat 0 34.
Definition ex_cv_view : view :=
  {| v_file := true; v_addr := 4096; v_len := 96; v_get := fun i => nth (N.to_nat i) ex_cv_bytes 0;
     v_w := W32; v_base := 65536; v_soh := 96; v_soi := 4096; v_secs := [] |}.
Definition ex_cv_dir : ddir := {| dd_off := 0; dd_time := 0; dd_type := 2; dd_size := 30; dd_addr := 0; dd_ptr := 32 |}.
Lemma shape_nonvacuous :
  dir_entry ex_cv_view ex_cv_dir = Ok (ECv70 32 {| r_off := 56; r_len := 6 |}) /\
  entry_fields (v_get ex_cv_view) (ECv70 32 {| r_off := 56; r_len := 6 |})
  = FCv70 [82; 83; 68; 83] [1;2;3;4;5;6;7;8;9;10;11;12;13;14;15;16] 7 /\
  entry_fields_shape (v_get ex_cv_view) (ECv70 32 {| r_off := 56; r_len := 6 |})
  = FCv70 [82; 83; 68; 83] [1;2;3;4;5;6;7;8;9;10;11;12;13;14;15;16] 7 /\
  security_try_from ex_cv_view (Some (32, 32)) = Ok {| r_off := 32; r_len := 32 |} /\
  sec_length (v_get ex_cv_view) {| r_off := 32; r_len := 32 |} = 1396986706 /\
  certificate_type (v_get ex_cv_view) {| r_off := 32; r_len := 32 |} = 1027.
Proof. vm_compute. repeat split; reflexivity. Qed.
