(* Proofs for C10, second round: the scanner and the save array (theorem 5, second half), and the per-call theorems
   packaged into a statement about the whole iteration `while matches.next(&mut save) { .. }` (theorem 4). *)
From PV.Model Require Import Machine Mapping Views Pattern Exec ScanView Scanner.
From PV.Spec Require Import MappingSpec ViewSpec ScanSpec.
From PV.Proofs Require Import BaseProofs MappingProofs ViewsProofs ExecProofs ExecSaveProofs ScannerProofs.
Ltac Zify.zify_post_hook ::= Z.div_mod_to_equations.

(* ------------------------------------------------------------------ Scanner::exec on a view ignores the save array *)
Lemma view_exec_outcome v pat : reads_no_saves pat ->
  forall c, exists o, forall s, view_exec v pat c s = apply_out2 o s.
Proof. intros Hp c. unfold view_exec. apply run_exec_uniform. exact Hp. Qed.

Theorem view_exec_log v pat : reads_no_saves pat -> view_ok v -> v_len v < W32 ->
  forall c, exists ok w, forall s, view_exec v pat c s = Ok (ok, writes w s).
Proof. intros Hp Hok Hl c. unfold view_exec. apply run_exec_log; [exact Hp|apply scan_of_view_ok; assumption]. Qed.

(* two incoming arrays, also of different lengths: same verdict; every slot both arrays have holds the same written
   value afterwards, or was not written and keeps what each array held *)
Theorem view_exec_two_arrays v pat : reads_no_saves pat -> view_ok v -> v_len v < W32 ->
  forall c s1 s2 ok s1', view_exec v pat c s1 = Ok (ok, s1') ->
  exists s2', view_exec v pat c s2 = Ok (ok, s2') /\ length s1' = length s1 /\ length s2' = length s2 /\
    forall n, (n < length s1)%nat -> (n < length s2)%nat ->
      (exists x, nth_error s1' n = Some x /\ nth_error s2' n = Some x) \/
      (nth_error s1' n = nth_error s1 n /\ nth_error s2' n = nth_error s2 n).
Proof.
  intros Hp Hok Hl c s1 s2 ok s1' H. destruct (view_exec_log v pat Hp Hok Hl c) as [ok' [w Hw]].
  rewrite Hw in H. inversion H; subst ok' s1'. exists (writes w s2). split; [apply Hw|].
  split; [apply writes_length|]. split; [apply writes_length|]. intros n H1 H2. apply writes_agree; assumption.
Qed.

(* so "succeeds for every incoming array" is "succeeds", on whatever array one tries *)
Theorem Eall_is_success v pat : reads_no_saves pat -> view_ok v -> v_len v < W32 ->
  forall p s, Eall (view_exec v pat) p <-> exists s', view_exec v pat p s = Ok (true, s').
Proof.
  intros Hp Hok Hl p s. split; [intros H; apply H|].
  intros [s' H] s2. destruct (view_exec_two_arrays v pat Hp Hok Hl p s s2 true s' H) as [s2' [H2 _]]. exists s2'. exact H2.
Qed.

(* ------------------------------------------------------------------ Matches::next ignores the save array *)
Definition sout := res (bool * mstate * wlog).
Definition apply_s (o : sout) (s : list N) : res sres :=
  match o with Ok (ok, st, w) => Ok (ok, st, writes w s) | Err e => Err e | Fault f => Fault f end.
Definition suniform (F : list N -> res sres) : Prop := exists o, forall s, F s = apply_s o s.

Lemma sret ok st : suniform (fun s => Ok (ok, st, s)).
Proof. exists (Ok (ok, st, [])). intros s. reflexivity. Qed.
Lemma sfault f : suniform (fun _ => Fault f).
Proof. exists (Fault f). intros s. reflexivity. Qed.
Lemma suniform_after F w : suniform F -> suniform (fun s => F (writes w s)).
Proof.
  intros [o Ho]. exists (match o with Ok (ok, st, w') => Ok (ok, st, w ++ w') | Err e => Err e | Fault f => Fault f end).
  intros s. rewrite Ho. destruct o as [[[ok st] w']|e|f]; cbn [apply_s]; [rewrite writes_app|..]; reflexivity.
Qed.

Section AbstractUniform.
  Variable ex : N -> list N -> res (bool * list N).
  Variable get : N -> N.
  Hypothesis Hexu : forall c, exists o, forall s, ex c s = apply_out2 o s.

  Lemma s_exstep c (K : bool -> list N -> res sres) : (forall ok, suniform (K ok)) ->
    suniform (fun s => r <- ex c s ;; let '(ok, s') := r in K ok s').
  Proof.
    intros HK. destruct (Hexu c) as [[[ok w]|e|f] Ho].
    - destruct (suniform_after _ w (HK ok)) as [o2 Ho2]. exists o2. intros s. rewrite Ho. cbn [apply_out2 bind]. apply Ho2.
    - exists (Err e). intros s. rewrite Ho. reflexivity.
    - exists (Fault f). intros s. rewrite Ho. reflexivity.
  Qed.

  Lemma strategy0_loop_uniform : forall fuel endp st, suniform (strategy0_loop ex fuel endp st).
  Proof.
    induction fuel as [|fuel IH]; intros endp st; [apply sfault|].
    change (suniform (fun s => strategy0_loop ex (S fuel) endp st s)). cbn [strategy0_loop].
    destruct (m_start st <? endp); [|apply sret].
    unfold chk_add. destruct (m_hits st + 1 <? W32); cbn [bind]; [|apply sfault].
    destruct (m_start st + 1 <? W32); cbn [bind]; [|apply sfault].
    apply (s_exstep (m_start st) (fun ok save' =>
      if ok then Ok (true, {| m_start := m_start st + 1; m_end := m_end st; m_hits := m_hits st + 1 |}, save')
      else strategy0_loop ex fuel endp {| m_start := m_start st + 1; m_end := m_end st; m_hits := m_hits st + 1 |} save')).
    intros ok. destruct ok; [apply sret|apply IH].
  Qed.

  Lemma strategy1_loop_uniform byte off slen : forall n i st, suniform (strategy1_loop ex get n byte off slen i st).
  Proof.
    induction n as [|n IH]; intros i st.
    - change (suniform (fun s => strategy1_loop ex get 0 byte off slen i st s)). cbn [strategy1_loop].
      unfold chk_add. destruct (m_start st + slen mod W32 <? W32); cbn [bind]; [apply sret|apply sfault].
    - change (suniform (fun s => strategy1_loop ex get (S n) byte off slen i st s)). cbn [strategy1_loop].
      destruct (get (off + i) =? byte); [|apply IH].
      unfold chk_add. destruct (m_hits st + 1 <? W32); cbn [bind]; [|apply sfault].
      destruct (m_start (with_hits st (m_hits st + 1)) + i mod W32 <? W32); cbn [bind]; [|apply sfault].
      set (st1 := with_hits st (m_hits st + 1)). set (cursor := m_start st1 + i mod W32).
      apply (s_exstep cursor (fun ok save' =>
        if ok then s <- (if cursor + 1 <? W32 then Ok (cursor + 1) else Fault POverflow) ;; Ok (true, with_start st1 s, save')
        else strategy1_loop ex get n byte off slen (i + 1) st1 save')).
      intros ok. destruct ok; [|apply IH]. destruct (cursor + 1 <? W32); cbn [bind]; [apply sret|apply sfault].
  Qed.

  Lemma strategy2_loop_uniform qs qslen lastb jmp off slen : forall fuel i st,
    suniform (strategy2_loop ex get fuel qs qslen lastb jmp off slen i st).
  Proof.
    induction fuel as [|fuel IH]; intros i st; [apply sfault|].
    change (suniform (fun s => strategy2_loop ex get (S fuel) qs qslen lastb jmp off slen i st s)). cbn [strategy2_loop].
    destruct (i + qslen <=? slen).
    2: { unfold chk_add. destruct (m_start st + slen mod W32 <? W32); cbn [bind]; [apply sret|apply sfault]. }
    destruct ((lastb =? get (off + i + (qslen - 1))) && slice_eq get (off + i) qs); [|apply IH].
    unfold chk_add. destruct (m_hits st + 1 <? W32); cbn [bind]; [|apply sfault].
    destruct (m_start (with_hits st (m_hits st + 1)) + i mod W32 <? W32); cbn [bind]; [|apply sfault].
    set (st1 := with_hits st (m_hits st + 1)). set (cursor := m_start st1 + i mod W32). set (jump := jmp (get (off + i + (qslen - 1)))).
    apply (s_exstep cursor (fun ok save' =>
      if ok then s <- (if cursor + jump <? W32 then Ok (cursor + jump) else Fault POverflow) ;; Ok (true, with_start st1 s, save')
      else strategy2_loop ex get fuel qs qslen lastb jmp off slen (i + jump) st1 save')).
    intros ok. destruct ok; [|apply IH]. destruct (cursor + jump <? W32); cbn [bind]; [apply sret|apply sfault].
  Qed.

  Lemma strategy_uniform qs off slen st : suniform (strategy ex get qs off slen st).
  Proof.
    change (suniform (fun s => strategy ex get qs off slen st s)). unfold strategy.
    destruct (lenN qs =? 0).
    - unfold strategy0, chk_add. destruct (m_start st + slen mod W32 <? W32); cbn [bind]; [apply strategy0_loop_uniform|apply sfault].
    - destruct (lenN qs <? 4).
      + unfold strategy1. destruct qs as [|b t]; [apply sfault|apply strategy1_loop_uniform].
      + unfold strategy2, chk_sub. destruct (1 <=? lenN qs); cbn [bind]; [apply strategy2_loop_uniform|apply sfault].
  Qed.

  Lemma next_section_uniform qs base sl st : suniform (next_section ex get qs base sl st).
  Proof.
    change (suniform (fun s => next_section ex get qs base sl st s)). unfold next_section, chk_sub.
    destruct (base <=? m_start (with_start st (N.max base (m_start st)))); cbn [bind]; [|apply sfault].
    destruct (base <=? m_end (with_start st (N.max base (m_start st)))); cbn [bind]; [|apply sfault].
    match goal with |- context [if ?c then _ else _] => destruct c end; [apply sret|apply strategy_uniform].
  Qed.

  Lemma next_file_uniform nsec len qs : (forall base sl st, suniform (nsec qs base sl st)) ->
    forall secs st, suniform (next_file nsec len qs secs st).
  Proof.
    intros Hn. induction secs as [|h rest IH]; intros st.
    - apply sret.
    - change (suniform (fun s => next_file nsec len qs (h :: rest) st s)). cbn [next_file].
      destruct ((s_va h <? m_end st) && (m_start st <? wadd32 (s_va h) (s_vs h))); [|apply IH].
      destruct (get_range len (s_prd h) (wadd32 (s_prd h) (s_srd h))) as [sl|]; [|apply IH].
      destruct (Hn (s_va h) sl st) as [[[[ok st'] w]|e|f] Ho].
      + destruct ok.
        * exists (Ok (true, st', w)). intros s. rewrite Ho. reflexivity.
        * destruct (suniform_after _ w (IH st')) as [o2 Ho2]. exists o2. intros s. rewrite Ho. cbn [apply_s bind]. apply Ho2.
      + exists (Err e). intros s. rewrite Ho. reflexivity.
      + exists (Fault f). intros s. rewrite Ho. reflexivity.
  Qed.
End AbstractUniform.

Lemma next_uniform v pat : reads_no_saves pat -> forall st, suniform (next v pat st).
Proof.
  intros Hp st. change (suniform (fun s => next v pat st s)). unfold next, next_with.
  pose proof (view_exec_outcome v pat Hp) as Hx. destruct (v_file v).
  - apply next_file_uniform. intros base sl st0. apply next_section_uniform. exact Hx.
  - apply next_section_uniform. exact Hx.
Qed.

(* Matches::next: verdict, new range and counter are fixed by (view, pattern, state); the caller's array only
   receives a fixed sequence of writes *)
Theorem next_log v pat : reads_no_saves pat -> view_ok v -> v_len v < W32 ->
  forall st, m_end st < W32 -> m_hits st <= m_start st ->
  exists ok st' w, forall s, next v pat st s = Ok (ok, st', writes w s).
Proof.
  intros Hp Hok Hl st H2 H3. destruct (next_uniform v pat Hp st) as [[[[ok st'] w]|e|f] Ho].
  - exists ok, st', w. exact Ho.
  - exfalso. destruct (next_total_sound v pat Hok Hl st [] H2 H3) as [ok [st' [sv [Hr _]]]]. rewrite Ho in Hr. discriminate.
  - exfalso. destruct (next_total_sound v pat Hok Hl st [] H2 H3) as [ok [st' [sv [Hr _]]]]. rewrite Ho in Hr. discriminate.
Qed.

(* ------------------------------------------------------------------ the iteration *)
Definition ok_of_call (r : sres) : bool := fst (fst r).

(* what an observed run [l] (the outcomes of the successive calls) with reported positions [cs] satisfies:
   all calls but the last returned true and the last returned false; the positions are strictly ascending, lie in
   [lo, rend), and the i-th is a position below the i-th call's new range.start where exec succeeds with exactly
   the captures that call returned *)
Definition run_sound (v : view) (pat : list atom) (lo rend : N) (l : list sres) (cs : list N) : Prop :=
  map ok_of_call l = repeat true (length cs) ++ [false] /\
  ascending cs = true /\
  forall i c, nth_error cs i = Some c ->
    lo <= c /\ c < rend /\
    exists st_i sv_i s_in, nth_error l i = Some (true, st_i, sv_i) /\ c < m_start st_i /\
                           view_exec v pat c s_in = Ok (true, sv_i).

Lemma run_sound_unfold v pat lo rend l cs : run_sound v pat lo rend l cs <->
  (map ok_of_call l = repeat true (length cs) ++ [false] /\
   ascending cs = true /\
   forall i c, nth_error cs i = Some c ->
     lo <= c /\ c < rend /\
     exists st_i sv_i s_in, nth_error l i = Some (true, st_i, sv_i) /\ c < m_start st_i /\
                            view_exec v pat c s_in = Ok (true, sv_i)).
Proof. unfold run_sound. reflexivity. Qed.

Lemma ascending_cons a l : ascending (a :: l) = true <-> (forall b, In b l -> a < b) /\ ascending l = true.
Proof.
  revert a. induction l as [|b t IH]; intros a.
  - split; [intros _; split; [intros b []|reflexivity]|reflexivity].
  - change (ascending (a :: b :: t)) with ((a <? b) && ascending (b :: t)). rewrite andb_true_iff. split.
    + intros [H1 H2]. split; [|exact H2]. intros x [<-|Hx]; [lia|]. apply IH in H2. destruct H2 as [H2 _]. specialize (H2 x Hx). lia.
    + intros [H1 H2]. split; [|exact H2]. specialize (H1 b (or_introl eq_refl)). lia.
Qed.

Lemma ascending_count a : forall l, ascending l = true -> In a l -> count_occ N.eq_dec l a = 1%nat.
Proof.
  induction l as [|b t IH]; intros Hasc Hin; [destruct Hin|].
  apply ascending_cons in Hasc. destruct Hasc as [Hlt Hasc]. cbn [count_occ]. destruct (N.eq_dec b a) as [->|Hne].
  - f_equal. apply count_occ_not_In. intros Hin'. specialize (Hlt a Hin'). lia.
  - destruct Hin as [->|Hin]; [congruence|]. apply IH; assumption.
Qed.

Lemma iterate_unfold n v pat st save ok st' sv l :
  iterate (S n) v pat st save = Ok l -> next v pat st save = Ok (ok, st', sv) ->
  if ok then exists t, iterate n v pat st' sv = Ok t /\ l = (ok, st', sv) :: t else l = [(ok, st', sv)].
Proof.
  intros H Hn. cbn [iterate] in H. rewrite Hn in H. cbn [bind] in H. destruct ok.
  - destruct (iterate n v pat st' sv) as [t| |]; cbn [bind] in H; try discriminate. exists t. split; [reflexivity|]. inversion H. reflexivity.
  - inversion H. reflexivity.
Qed.

Section Iter.
  Variable v : view.
  Variable pat : list atom.
  Variable rend : N.
  Variable Obl : N -> Prop.                      (* the obligation; depends on the range only through range.end *)
  Let ex := view_exec v pat.

  (* what one call guarantees (the per-call theorems, in one predicate) *)
  Definition call_ok (st : mstate) (r : res sres) : Prop :=
    exists ok st' sv, r = Ok (ok, st', sv) /\ m_end st' = rend /\ m_hits st' <= m_start st' /\ m_start st <= m_start st' /\
      if ok then exists c s_in, m_start st <= c /\ c < rend /\ c < m_start st' /\ m_start st' <= rend /\
                   ex c s_in = Ok (true, sv) /\
                   forall p, m_start st <= p -> p < m_start st' -> p <> c -> Obl p -> ~ Eall ex p
      else forall p, m_start st <= p -> Obl p -> ~ Eall ex p.
  Hypothesis Hcall : forall st save, m_end st = rend -> m_hits st <= m_start st -> call_ok st (next v pat st save).

  Inductive enum : N -> list sres -> list N -> Prop :=
  | en_done lo st' sv : enum lo [(false, st', sv)] []
  | en_hit lo st' sv c s_in l cs : lo <= c -> c < rend -> c < m_start st' -> ex c s_in = Ok (true, sv) ->
      enum (m_start st') l cs -> enum lo ((true, st', sv) :: l) (c :: cs).

  Lemma enum_head lo ok st' sv t cs : enum lo ((ok, st', sv) :: t) cs ->
    if ok then exists c cs', cs = c :: cs' /\ enum (m_start st') t cs' else cs = [] /\ t = [].
  Proof. intros H. inversion H; subst; [split; reflexivity|]. eexists. eexists. split; [reflexivity|eassumption]. Qed.

  Lemma enum_lower lo l cs : enum lo l cs -> forall c, In c cs -> lo <= c.
  Proof.
    induction 1 as [|lo st' sv c s_in l cs H1 H2 H3 H4 H5 IH]; intros x Hx; [destruct Hx|].
    destruct Hx as [<-|Hx]; [exact H1|]. specialize (IH x Hx). lia.
  Qed.

  Lemma enum_sound lo l cs : enum lo l cs -> run_sound v pat lo rend l cs.
  Proof.
    induction 1 as [|lo st' sv c s_in l cs H1 H2 H3 H4 H5 IH].
    - split; [reflexivity|]. split; [reflexivity|]. intros i c Hc. destruct i; discriminate.
    - destruct IH as (I1 & I2 & I3). split; [cbn [map length repeat app]; rewrite I1; reflexivity|]. split.
      + apply ascending_cons. split; [|exact I2]. intros b Hb. pose proof (enum_lower _ _ _ H5 b Hb). lia.
      + intros i x Hx. destruct i as [|i]; cbn [nth_error] in *.
        * inversion Hx; subst x. split; [exact H1|]. split; [exact H2|]. exists st', sv, s_in. split; [reflexivity|]. split; [exact H3|exact H4].
        * destruct (I3 i x Hx) as (J1 & J2 & J3). split; [lia|]. split; [exact J2|exact J3].
  Qed.

  (* the iteration terminates within (range.end - range.start) + 1 calls, and its reports are the enumeration *)
  Lemma iterate_enum : forall n st save, m_end st = rend -> m_hits st <= m_start st ->
    (N.to_nat (rend - m_start st) < n)%nat ->
    exists l cs, iterate n v pat st save = Ok l /\ enum (m_start st) l cs /\
                 forall p, m_start st <= p -> Obl p -> Eall ex p -> In p cs.
  Proof.
    induction n as [|n IH]; intros st save He Hh Hn; [lia|]. cbn [iterate].
    destruct (Hcall st save He Hh) as [ok [st' [sv (Hr & A & B & C & D)]]]. rewrite Hr. cbn [bind]. destruct ok.
    - destruct D as [c [s_in (D1 & D2 & D3 & D4 & D5 & D6)]].
      destruct (IH st' sv A B ltac:(lia)) as [l [cs (Hl & Hen & Hcomp)]]. rewrite Hl. cbn [bind].
      exists ((true, st', sv) :: l), (c :: cs). split; [reflexivity|]. split; [exact (en_hit _ _ _ _ _ _ _ D1 D2 D3 D5 Hen)|].
      intros p Hp HO HE. destruct (N.eq_dec p c) as [->|Hne]; [left; reflexivity|]. right.
      destruct (N.lt_ge_cases p (m_start st')) as [Hlt|Hge]; [exfalso; exact (D6 p Hp Hlt Hne HO HE)|]. apply Hcomp; assumption.
    - exists [(false, st', sv)], []. split; [reflexivity|]. split; [apply en_done|]. intros p Hp HO HE. exfalso. exact (D p Hp HO HE).
  Qed.

  Theorem iterate_spec n st save : m_end st = rend -> m_hits st <= m_start st -> (N.to_nat (rend - m_start st) < n)%nat ->
    exists l cs, iterate n v pat st save = Ok l /\ run_sound v pat (m_start st) rend l cs /\
                 forall p, m_start st <= p -> Obl p -> Eall ex p -> count_occ N.eq_dec cs p = 1%nat.
  Proof.
    intros He Hh Hn. destruct (iterate_enum n st save He Hh Hn) as [l [cs (Hl & Hen & Hc)]].
    exists l, cs. split; [exact Hl|]. pose proof (enum_sound _ _ _ Hen) as Hs. split; [exact Hs|].
    intros p Hp HO HE. apply ascending_count; [apply Hs|]. apply Hc; assumption.
  Qed.

  (* ---- finds ---- *)
  Hypothesis Hpat : reads_no_saves pat.
  Hypothesis Hok : view_ok v.
  Hypothesis Hlen : v_len v < W32.
  Hypothesis Hrend : rend < W32.

  Lemma captures_ok_writes fill : forall a b, length a = length b ->
    (forall n, (n < length a)%nat -> nth_error b n = Some fill \/ nth_error a n = nth_error b n) ->
    captures_ok fill a b = true.
  Proof.
    induction a as [|x a IH]; intros b Hl H; destruct b as [|y b]; cbn [length] in Hl; try lia; [reflexivity|].
    cbn [captures_ok]. apply andb_true_iff. split.
    - destruct (H O ltac:(cbn [length]; lia)) as [H0|H0]; cbn [nth_error] in H0; inversion H0; subst; lia.
    - apply IH; [lia|]. intros n Hn. exact (H (S n) ltac:(cbn [length]; lia)).
  Qed.

  (* finds is true exactly when the iteration on the caller's array reports exactly one position; the array it
     returns is the first call's: the write log of the match at the reported position applied to an array of the
     caller's length, hence it agrees with a fresh execution at that position on every slot that execution writes *)
  Theorem finds_enum rs save :
    exists b save1 l cs, finds v pat rs rend save = Ok (b, save1) /\
      iterate (S (N.to_nat (rend - rs))) v pat (matches rs rend) save = Ok l /\
      run_sound v pat rs rend l cs /\
      (forall p, rs <= p -> Obl p -> Eall ex p -> count_occ N.eq_dec cs p = 1%nat) /\
      (b = true <-> length cs = 1%nat) /\
      (exists ok1 st1, nth_error l 0 = Some (ok1, st1, save1)) /\ length save1 = length save /\
      forall c, nth_error cs 0 = Some c ->
        (exists w s_in, (forall s, view_exec v pat c s = Ok (true, writes w s)) /\ length s_in = length save /\ save1 = writes w s_in) /\
        forall fill fresh, view_exec v pat c (repeat fill (length save)) = Ok (true, fresh) -> captures_ok fill save1 fresh = true.
  Proof.
    set (st0 := matches rs rend).
    assert (He0 : m_end st0 = rend) by reflexivity. assert (Hh0 : m_hits st0 <= m_start st0) by (cbn; lia).
    destruct (iterate_enum (S (N.to_nat (rend - rs))) st0 save He0 Hh0 ltac:(cbn [st0 matches m_start]; lia)) as [l [cs (Hl & Hen & Hc)]].
    pose proof (enum_sound _ _ _ Hen) as Hs.
    destruct (next_log v pat Hpat Hok Hlen st0 ltac:(rewrite He0; exact Hrend) Hh0) as [ok1 [st1 [w1 Hn1]]].
    destruct (Hcall st0 save He0 Hh0) as [ok1' [st1' [sv1 (Hr & A & B & C & D)]]]. rewrite Hn1 in Hr. inversion Hr; subst ok1' st1' sv1. clear Hr.
    pose proof (iterate_unfold _ _ _ _ _ _ _ _ _ Hl (Hn1 save)) as Hu.
    assert (Hcount : forall p, rs <= p -> Obl p -> Eall ex p -> count_occ N.eq_dec cs p = 1%nat).
    { intros p Hp HO HE. apply ascending_count; [apply Hs|]. apply Hc; assumption. }
    unfold finds. fold st0. rewrite (Hn1 save). cbn [bind]. destruct ok1; cbn [negb].
    - destruct Hu as [t [Ht ->]]. apply enum_head in Hen. destruct Hen as [c [cs' [-> Hen']]].
      destruct D as [c0 [s_in (D1 & D2 & D3 & D4 & D5 & D6)]].
      destruct (next_log v pat Hpat Hok Hlen st1 ltac:(lia) B) as [ok2 [st2 [w2 Hn2]]].
      rewrite (Hn2 []). cbn [bind].
      exists (negb ok2), (writes w1 save), ((true, st1, writes w1 save) :: t), (c :: cs').
      split; [reflexivity|]. split; [exact Hl|]. split; [exact Hs|]. split; [exact Hcount|]. split.
      + (* exactly one report <-> the second call reports nothing *)
        destruct (N.to_nat (rend - rs)) as [|n'] eqn:En.
        { cbn [iterate] in Ht. inversion Ht; subst t. inversion Hen'. }
        pose proof (iterate_unfold _ _ _ _ _ _ _ _ _ Ht (Hn2 (writes w1 save))) as Hu2. destruct ok2; cbn [negb].
        * destruct Hu2 as [t2 [_ ->]]. apply enum_head in Hen'. destruct Hen' as [c2 [cs2 [-> _]]]. cbn [length]. split; [discriminate|lia].
        * subst t. apply enum_head in Hen'. destruct Hen' as [-> _]. cbn [length]. split; reflexivity.
      + split; [exists true, st1; reflexivity|]. split; [apply writes_length|].
        intros x Hx. cbn [nth_error] in Hx. inversion Hx; subst x. clear Hx.
        (* the position reported first: exec succeeded there with the returned array *)
        destruct Hs as (_ & _ & Hs3). destruct (Hs3 O c eq_refl) as (_ & _ & [st_i [sv_i [s_c (E1 & _ & E3)]]]).
        cbn [nth_error] in E1. inversion E1; subst st_i sv_i. clear E1.
        destruct (view_exec_log v pat Hpat Hok Hlen c) as [okc [wc Hwc]]. rewrite Hwc in E3. inversion E3 as [[E4 E5]]. subst okc.
        assert (Hls : length s_c = length save).
        { rewrite <- (writes_length wc s_c), E5. apply writes_length. }
        split; [exists wc, s_c; split; [exact Hwc|split; [exact Hls|first [reflexivity|exact E5|symmetry; exact E5]]]|].
        intros fill fresh Hf. rewrite Hwc in Hf. inversion Hf; subst fresh. try rewrite <- E5.
        apply (captures_ok_writes fill).
        * rewrite !writes_length, repeat_length. exact Hls.
        * intros n Hn. rewrite writes_length in Hn. rewrite (writes_nth wc s_c n Hn).
          rewrite (writes_nth wc (repeat fill (length save)) n) by (rewrite repeat_length; lia).
          destruct (last_write wc n); [right; reflexivity|]. left.
          apply nth_error_repeat. lia.
    - subst l. apply enum_head in Hen. destruct Hen as [-> _].
      exists false, (writes w1 save), [(false, st1, writes w1 save)], []. split; [reflexivity|]. split; [exact Hl|]. split; [exact Hs|].
      split; [exact Hcount|]. split; [cbn [length]; split; [discriminate|lia]|].
      split; [exists false, st1; reflexivity|]. split; [apply writes_length|]. intros c Hc'. discriminate.
  Qed.
End Iter.

(* ------------------------------------------------------------------ instances of the per-call predicate *)
Lemma call_ok_sound v pat : view_ok v -> v_len v < W32 -> forall rend, rend < W32 ->
  forall st save, m_end st = rend -> m_hits st <= m_start st -> call_ok v pat rend (fun _ => False) st (next v pat st save).
Proof.
  intros Hok Hl rend Hre st save He Hh.
  destruct (next_total_sound v pat Hok Hl st save ltac:(lia) Hh) as [ok [st' [sv (Hr & A & B & C & D & E)]]].
  exists ok, st', sv. split; [exact Hr|]. split; [lia|]. split; [exact B|]. split; [exact C|]. destruct ok.
  - destruct (E eq_refl) as [c [s_in (E1 & E2 & E3 & E4)]]. exists c, s_in. split; [exact E1|]. split; [lia|]. split; [exact E3|].
    split; [lia|]. split; [exact E4|]. intros p _ _ _ [].
  - intros p _ [].
Qed.

Lemma call_ok_mapped v pat : view_ok v -> v_len v < W32 -> v_file v = false ->
  (forall i, v_get v i < 256) -> bytes_ok (setup pat) -> forall rend, rend < W32 ->
  forall st save, m_end st = rend -> m_hits st <= m_start st ->
  call_ok v pat rend (fun p => p + win (setup pat) <= N.min rend (v_len v)) st (next v pat st save).
Proof.
  intros Hok Hl Hf Hg Hq rend Hre st save He Hh.
  destruct (next_total_sound v pat Hok Hl st save ltac:(lia) Hh) as [ok [st' [sv (Hr & A & B & C & D & E)]]].
  destruct (next_complete_mapped v pat Hok Hl Hf Hg Hq st save ltac:(lia) Hh) as [ok' [st2 [sv2 (Hr2 & F)]]].
  rewrite Hr in Hr2. inversion Hr2; subst ok' st2 sv2. clear Hr2.
  exists ok, st', sv. split; [exact Hr|]. split; [lia|]. split; [exact B|]. split; [exact C|]. destruct ok.
  - destruct (E eq_refl) as [c' [s' (E1 & E2 & E3 & E4)]]. destruct F as [c [s_in (F1 & F2 & F3 & F4)]].
    exists c, s_in. split; [exact F1|]. split; [lia|]. split; [exact F2|]. split; [lia|]. split; [exact F3|].
    intros p P1 P2 P3 P4. apply F4; try assumption. rewrite He. exact P4.
  - intros p P1 P2. apply F; [exact P1|]. rewrite He. exact P2.
Qed.

Lemma call_ok_file v pat : view_ok v -> v_len v < W32 -> v_file v = true ->
  (forall i, v_get v i < 256) -> bytes_ok (setup pat) ->
  sorted_by_va (v_secs v) = true -> sections_sane (v_secs v) = true -> forall rend, rend < W32 ->
  forall st save, m_end st = rend -> m_hits st <= m_start st ->
  call_ok v pat rend (obl v pat rend (v_secs v)) st (next v pat st save).
Proof.
  intros Hok Hl Hf Hg Hq Hso Hsa rend Hre st save He Hh.
  destruct (next_total_sound v pat Hok Hl st save ltac:(lia) Hh) as [ok [st' [sv (Hr & A & B & C & D & E)]]].
  destruct (next_complete_file v pat Hok Hl Hf Hg Hq Hso Hsa st save ltac:(lia) Hh) as [ok' [st2 [sv2 (Hr2 & F)]]].
  rewrite Hr in Hr2. inversion Hr2; subst ok' st2 sv2. clear Hr2.
  exists ok, st', sv. split; [exact Hr|]. split; [lia|]. split; [exact B|]. split; [exact C|]. destruct ok.
  - destruct (E eq_refl) as [c' [s' (E1 & E2 & E3 & E4)]]. destruct F as [c [s_in (F1 & F2 & F3 & F4)]].
    exists c, s_in. split; [exact F1|]. split; [lia|]. split; [exact F2|]. split; [lia|]. split; [exact F3|].
    intros p P1 P2 P3 P4. apply F4; try assumption. rewrite He. exact P4.
  - intros p P1 P2. apply F; [exact P1|]. rewrite He. exact P2.
Qed.

(* ------------------------------------------------------------------ the boolean obligation of the oracle implies the Prop of the theorems *)
Lemma win_le_window pat : win (setup pat) <= window pat.
Proof.
  unfold win, window. destruct (setup_spec pat) as [<- _]. destruct (lenN (setup pat) <? 4); lia.
Qed.

(* must_report, unfolded: what the oracle obliges the scanner to report *)
Theorem must_report_obl v pat rs re p : must_report v (window pat) rs re p = true ->
  rs <= p /\
  if v_file v then sections_sane (v_secs v) = true /\ obl v pat re (v_secs v) p
  else p + win (setup pat) <= N.min re (v_len v).
Proof.
  unfold must_report. intros H. apply andb_true_iff in H. destruct H as [H1 H2]. split; [lia|].
  pose proof (win_le_window pat) as Hw. destruct (v_file v).
  - apply andb_true_iff in H2. destruct H2 as [Hs H2]. split; [exact Hs|].
    unfold first_v in H2. destruct (find (in_virtual p) (v_secs v)) as [s|] eqn:Ef; [|discriminate].
    apply andb_true_iff in H2. destruct H2 as [H2 H4]. apply andb_true_iff in H2. destruct H2 as [H2 H3].
    exists s. split; [exact Ef|]. unfold owner_ok. split; [lia|]. split; [lia|]. lia.
  - lia.
Qed.

(* ------------------------------------------------------------------ the iteration theorems on views *)
Section OnViews.
  Variable v : view.
  Variable pat : list atom.
  Hypothesis Hok : view_ok v.
  Hypothesis Hlen : v_len v < W32.

  (* every view, every pattern: termination within the stated number of calls, soundness, strictly ascending reports *)
  Theorem iteration_sound n st save : m_end st < W32 -> m_hits st <= m_start st ->
    (N.to_nat (m_end st - m_start st) < n)%nat ->
    exists l cs, iterate n v pat st save = Ok l /\ run_sound v pat (m_start st) (m_end st) l cs.
  Proof.
    intros H2 H3 Hn.
    destruct (iterate_spec v pat (m_end st) (fun _ => False) (call_ok_sound v pat Hok Hlen (m_end st) H2) n st save eq_refl H3 Hn)
      as [l [cs (A & B & _)]].
    exists l, cs. split; assumption.
  Qed.

  Hypothesis Hget : forall i, v_get v i < 256.
  Hypothesis Hqs : bytes_ok (setup pat).

  Theorem iteration_mapped n st save : v_file v = false -> m_end st < W32 -> m_hits st <= m_start st ->
    (N.to_nat (m_end st - m_start st) < n)%nat ->
    exists l cs, iterate n v pat st save = Ok l /\ run_sound v pat (m_start st) (m_end st) l cs /\
      forall p, m_start st <= p -> p + win (setup pat) <= N.min (m_end st) (v_len v) -> Eall (view_exec v pat) p ->
                count_occ N.eq_dec cs p = 1%nat.
  Proof.
    intros Hf H2 H3 Hn.
    exact (iterate_spec v pat (m_end st) _ (call_ok_mapped v pat Hok Hlen Hf Hget Hqs (m_end st) H2) n st save eq_refl H3 Hn).
  Qed.

  Theorem iteration_file n st save : v_file v = true -> sorted_by_va (v_secs v) = true -> sections_sane (v_secs v) = true ->
    m_end st < W32 -> m_hits st <= m_start st -> (N.to_nat (m_end st - m_start st) < n)%nat ->
    exists l cs, iterate n v pat st save = Ok l /\ run_sound v pat (m_start st) (m_end st) l cs /\
      forall p, m_start st <= p -> obl v pat (m_end st) (v_secs v) p -> Eall (view_exec v pat) p ->
                count_occ N.eq_dec cs p = 1%nat.
  Proof.
    intros Hf Hso Hsa H2 H3 Hn.
    exact (iterate_spec v pat (m_end st) _ (call_ok_file v pat Hok Hlen Hf Hget Hqs Hso Hsa (m_end st) H2) n st save eq_refl H3 Hn).
  Qed.

  (* the obligation of the oracle as one predicate for both kinds of view *)
  Definition obliged (rend p : N) : Prop :=
    if v_file v then obl v pat rend (v_secs v) p else p + win (setup pat) <= N.min rend (v_len v).

  Hypothesis Hcls : sections_not_sorted v = false.              (* outside the known class F28 *)

  Lemma call_ok_obliged rend : rend < W32 -> (v_file v = true -> sections_sane (v_secs v) = true) ->
    forall st save, m_end st = rend -> m_hits st <= m_start st -> call_ok v pat rend (obliged rend) st (next v pat st save).
  Proof.
    intros Hre Hsane st save He Hh. unfold obliged. unfold sections_not_sorted in Hcls. destruct (v_file v) eqn:Hf.
    - cbn [andb] in Hcls. apply negb_false_iff in Hcls.
      exact (call_ok_file v pat Hok Hlen Hf Hget Hqs Hcls (Hsane eq_refl) rend Hre st save He Hh).
    - exact (call_ok_mapped v pat Hok Hlen Hf Hget Hqs rend Hre st save He Hh).
  Qed.

  (* file view whose table is not sane: must_report is false everywhere, the obligation is empty; use soundness *)
  Definition obliged_b (rend p : N) : Prop :=
    (v_file v = true -> sections_sane (v_secs v) = true) /\ obliged rend p.

  Lemma call_ok_obliged_b rend : rend < W32 ->
    forall st save, m_end st = rend -> m_hits st <= m_start st -> call_ok v pat rend (obliged_b rend) st (next v pat st save).
  Proof.
    intros Hre st save He Hh.
    destruct (v_file v) eqn:Hf; [destruct (sections_sane (v_secs v)) eqn:Hs|].
    - destruct (call_ok_obliged rend Hre ltac:(intros _; exact Hs) st save He Hh) as [ok [st' [sv (A & B & C & D & E)]]].
      exists ok, st', sv. split; [exact A|]. split; [exact B|]. split; [exact C|]. split; [exact D|]. destruct ok.
      + destruct E as [c [s_in (E1 & E2 & E3 & E4 & E5 & E6)]]. exists c, s_in. repeat (split; [assumption|]).
        intros p P1 P2 P3 [_ P4]. apply E6; assumption.
      + intros p P1 [_ P2]. apply E; assumption.
    - destruct (call_ok_sound v pat Hok Hlen rend Hre st save He Hh) as [ok [st' [sv (A & B & C & D & E)]]].
      exists ok, st', sv. split; [exact A|]. split; [exact B|]. split; [exact C|]. split; [exact D|]. destruct ok.
      + destruct E as [c [s_in (E1 & E2 & E3 & E4 & E5 & E6)]]. exists c, s_in. repeat (split; [assumption|]).
        intros p P1 P2 P3 [P4 _]. specialize (P4 Hf). rewrite Hs in P4. discriminate.
      + intros p P1 [P2 _]. specialize (P2 Hf). rewrite Hs in P2. discriminate.
    - destruct (call_ok_obliged rend Hre ltac:(intros H; rewrite Hf in H; discriminate) st save He Hh) as [ok [st' [sv (A & B & C & D & E)]]].
      exists ok, st', sv. split; [exact A|]. split; [exact B|]. split; [exact C|]. split; [exact D|]. destruct ok.
      + destruct E as [c [s_in (E1 & E2 & E3 & E4 & E5 & E6)]]. exists c, s_in. repeat (split; [assumption|]).
        intros p P1 P2 P3 [_ P4]. apply E6; assumption.
      + intros p P1 [_ P2]. apply E; assumption.
  Qed.

  Lemma must_report_obliged_b rs re p : must_report v (window pat) rs re p = true -> rs <= p /\ obliged_b re p.
  Proof.
    intros H. destruct (must_report_obl v pat rs re p H) as [H1 H2]. split; [exact H1|]. unfold obliged_b, obliged.
    destruct (v_file v); [destruct H2 as [H2 H3]; split; [intros _; exact H2|exact H3]|split; [discriminate|exact H2]].
  Qed.

  Hypothesis Hpat : reads_no_saves pat.

  (* the headline: for a pattern that does not read the save array, outside the known class, iterating next to
     exhaustion reports - strictly ascending, each a match inside the range - every position the oracle obliges
     (must_report) at which exec succeeds, exactly once *)
  Theorem iteration_enumerates n st save : m_end st < W32 -> m_hits st <= m_start st ->
    (N.to_nat (m_end st - m_start st) < n)%nat ->
    exists l cs, iterate n v pat st save = Ok l /\ run_sound v pat (m_start st) (m_end st) l cs /\
      forall p s s', must_report v (window pat) (m_start st) (m_end st) p = true -> view_exec v pat p s = Ok (true, s') ->
                     count_occ N.eq_dec cs p = 1%nat.
  Proof.
    intros H2 H3 Hn.
    destruct (iterate_spec v pat (m_end st) _ (call_ok_obliged_b (m_end st) H2) n st save eq_refl H3 Hn) as [l [cs (A & B & C)]].
    exists l, cs. split; [exact A|]. split; [exact B|]. intros p s s' Hm He.
    destruct (must_report_obliged_b _ _ _ Hm) as [M1 M2]. apply C; [exact M1|exact M2|].
    apply (Eall_is_success v pat Hpat Hok Hlen p s). exists s'. exact He.
  Qed.

  (* theorem 5 complete: finds *)
  Theorem finds_exact rs re save : re < W32 ->
    exists b save1 l cs, finds v pat rs re save = Ok (b, save1) /\
      iterate (S (N.to_nat (re - rs))) v pat (matches rs re) save = Ok l /\
      run_sound v pat rs re l cs /\
      (forall p s s', must_report v (window pat) rs re p = true -> view_exec v pat p s = Ok (true, s') ->
                      count_occ N.eq_dec cs p = 1%nat) /\
      (b = true <-> length cs = 1%nat) /\
      (exists ok1 st1, nth_error l 0 = Some (ok1, st1, save1)) /\ length save1 = length save /\
      forall c, nth_error cs 0 = Some c ->
        (exists w s_in, (forall s, view_exec v pat c s = Ok (true, writes w s)) /\ length s_in = length save /\ save1 = writes w s_in) /\
        forall fill fresh, view_exec v pat c (repeat fill (length save)) = Ok (true, fresh) -> captures_ok fill save1 fresh = true.
  Proof.
    intros Hre.
    destruct (finds_enum v pat re _ (call_ok_obliged_b re Hre) Hpat Hok Hlen Hre rs save) as [b [save1 [l [cs (A & B & C & D & E)]]]].
    exists b, save1, l, cs. split; [exact A|]. split; [exact B|]. split; [exact C|]. split; [|exact E].
    intros p s s' Hm He. destruct (must_report_obliged_b _ _ _ Hm) as [M1 M2]. apply D; [exact M1|exact M2|].
    apply (Eall_is_success v pat Hpat Hok Hlen p s). exists s'. exact He.
  Qed.
End OnViews.

(* finds on any view and pattern that does not read the save array (no completeness hypotheses): the verdict is
   "exactly one report" *)
Theorem finds_one_report v pat : reads_no_saves pat -> view_ok v -> v_len v < W32 -> forall rs re save, re < W32 ->
  exists b save1 l cs, finds v pat rs re save = Ok (b, save1) /\
    iterate (S (N.to_nat (re - rs))) v pat (matches rs re) save = Ok l /\
    run_sound v pat rs re l cs /\ (b = true <-> length cs = 1%nat) /\
    (exists ok1 st1, nth_error l 0 = Some (ok1, st1, save1)) /\ length save1 = length save /\
    forall c, nth_error cs 0 = Some c ->
      (exists w s_in, (forall s, view_exec v pat c s = Ok (true, writes w s)) /\ length s_in = length save /\ save1 = writes w s_in) /\
      forall fill fresh, view_exec v pat c (repeat fill (length save)) = Ok (true, fresh) -> captures_ok fill save1 fresh = true.
Proof.
  intros Hp Hok Hl rs re save Hre.
  destruct (finds_enum v pat re _ (call_ok_sound v pat Hok Hl re Hre) Hp Hok Hl Hre rs save) as [b [save1 [l [cs (A & B & C & _ & E)]]]].
  exists b, save1, l, cs. split; [exact A|]. split; [exact B|]. split; [exact C|]. exact E.
Qed.

(* ------------------------------------------------------------------ non-vacuity *)
Lemma iter_nonvacuous :
  let v := wit_view true 1536 [{| s_va := 4096; s_vs := 256; s_prd := 1024; s_srd := 256 |};
                               {| s_va := 8192; s_vs := 256; s_prd := 1280; s_srd := 256 |}] in
  reads_no_saves wit_pat /\ sections_not_sorted v = false /\
  must_report v (window wit_pat) 0 12288 4112 = true /\ must_report v (window wit_pat) 0 12288 8208 = true /\
  view_exec v wit_pat 4112 [] = Ok (true, []) /\ view_exec v wit_pat 8208 [7; 7] = Ok (true, [8208; 7]) /\
  finds v wit_pat 0 8192 [0] = Ok (true, [4112]) /\ finds v wit_pat 0 12288 [0] = Ok (false, [4112]).
Proof. vm_compute. repeat split; reflexivity. Qed.
