From PV.Model Require Import Machine VersionInfo.
From PV.Spec Require Import TlvEnc.
From PV.Proofs Require Import BaseProofs.
Ltac Zify.zify_post_hook ::= Z.div_mod_to_equations.

(* ------------------------------------------------------------------ slices *)
Definition len_ok (ws : list N) : Prop := lenN ws + 8 < W64.

Lemma lenN_length {A} (l : list A) : lenN l = N.of_nat (length l).
Proof. reflexivity. Qed.
Lemma lenN_take ws n : lenN (take n ws) = N.min n (lenN ws).
Proof. unfold take, lenN. rewrite firstn_length. lia. Qed.
Lemma lenN_drop ws n : lenN (drop n ws) = lenN ws - n.
Proof. unfold drop. rewrite lenN_skipn. lia. Qed.
Lemma take_drop ws n : take n ws ++ drop n ws = ws.
Proof. apply firstn_skipn. Qed.
Lemma drop_all ws n : lenN ws <= n -> drop n ws = [].
Proof. intros. unfold drop. apply skipn_all2. unfold lenN in H. lia. Qed.
Lemma take_all ws n : lenN ws <= n -> take n ws = ws.
Proof. intros. unfold take. apply firstn_all2. unfold lenN in H. lia. Qed.
Lemma take_app_exact (a b : list N) n : lenN a = n -> take n (a ++ b) = a.
Proof. intros. unfold take. rewrite firstn_app. replace (N.to_nat n - length a)%nat with 0%nat by (unfold lenN in H; lia).
  rewrite firstn_O, app_nil_r. apply firstn_all2. unfold lenN in H; lia. Qed.
Lemma drop_app_exact (a b : list N) n : lenN a = n -> drop n (a ++ b) = b.
Proof. intros. unfold drop. apply skipn_app_exact. unfold lenN in H; lia. Qed.
Lemma lenN_zero_nil {A} (l : list A) : lenN l = 0 -> l = [].
Proof. destruct l; [reflexivity|]. unfold lenN. cbn [length]. lia. Qed.

Lemma lenN_lt {A B} (a : list A) (b : list B) : lenN a < lenN b -> (length a < length b)%nat.
Proof. unfold lenN. lia. Qed.
Lemma lenN_le {A B} (a : list A) (b : list B) : lenN a <= lenN b -> (length a <= length b)%nat.
Proof. unfold lenN. lia. Qed.
Lemma align2_spec x : x + 1 < W64 -> align2 x = x + x mod 2.
Proof. unfold align2, align_to, W64. intros. lia. Qed.
Lemma align2_even x : x + 1 < W64 -> (align2 x) mod 2 = 0.
Proof. intros. rewrite align2_spec by assumption. lia. Qed.

Lemma wstrn_len ws : lenN (wstrn ws) <= lenN ws.
Proof. induction ws as [|w r IH]; cbn [wstrn]; [lia|]. destruct (w =? 0); rewrite ?lenN_cons, ?lenN_nil; lia. Qed.
Lemma wstrn_no_nul ws : ~ In 0 (wstrn ws).
Proof. induction ws as [|w r IH]; cbn [wstrn]; [intros []|]. destruct (w =? 0) eqn:E; [intros []|].
  intros [H|H]; [lia|auto]. Qed.
(* the key is followed by its terminator exactly when the scan did not reach the end *)
Lemma wstrn_split ws : lenN (wstrn ws) <> lenN ws -> exists r, ws = wstrn ws ++ 0 :: r.
Proof. induction ws as [|w r IH]; cbn [wstrn]; [intros H; elim H; reflexivity|].
  destruct (w =? 0) eqn:E.
  - intros _. exists r. assert (w = 0) by lia. subst. reflexivity.
  - rewrite !lenN_cons. intros H. destruct IH as [r' Hr]; [lia|]. exists r'. cbn [app]. congruence. Qed.
Lemma wstrn_app k r : ~ In 0 k -> wstrn (k ++ 0 :: r) = k.
Proof. induction k as [|x k IH]; intros H; cbn [app wstrn].
  - reflexivity.
  - destruct (x =? 0) eqn:E. { elim H. left. lia. } rewrite IH; [reflexivity|]. intros Hin. apply H. right. exact Hin. Qed.

(* ------------------------------------------------------------------ parse_tlv: total, and what it returns *)
Lemma parse_tlv_cases vl ws : len_ok ws ->
  parse_tlv vl ws = Err EInvalid \/
  exists t rest, parse_tlv vl ws = Ok (t, rest) /\
    (length rest < length ws)%nat /\ (length (t_children t) <= length ws)%nat /\
    (t_value t <> [] -> t_voff t = align2 (lenN (t_key t)) + 4) /\ lenN (t_key t) < lenN ws.
Proof.
  unfold len_ok, parse_tlv, parse_tlv_gen. intros Hok.
  destruct (lenN ws <? 4) eqn:E4; [left; reflexivity|].
  destruct (match vl with VZero => if word ws 1 =? 0 then Some 0 else None | VBytes => Some (word ws 1 / 2) | VWords => Some (word ws 1) end) as [vlen|]; [|left; reflexivity].
  remember (N.max 4 (word ws 0 / 2)) as len eqn:Hlen.
  assert (Hlen4 : 4 <= len) by lia.
  destruct (lenN ws <? len) eqn:El; [left; reflexivity|].
  remember (take len ws) as ws1 eqn:Hws1. remember (skipn 3 ws1) as tail eqn:Htail. remember (wstrn tail) as key eqn:Hkey.
  destruct (lenN tail =? lenN key) eqn:Ek; [left; reflexivity|].
  assert (Hl1 : lenN ws1 = len) by (subst ws1; rewrite lenN_take; lia).
  assert (Htl : lenN tail = len - 3) by (subst tail; rewrite lenN_skipn; lia).
  assert (Hkl : lenN key <= lenN tail) by (subst key; apply wstrn_len).
  assert (Ha : align2 (lenN key) = lenN key + lenN key mod 2) by (apply align2_spec; unfold W64 in *; lia).
  unfold chk_add. replace (align2 (lenN key) + 4 <? W64) with true by (unfold W64 in *; lia). cbn [bind].
  remember (N.min (align2 (lenN key) + 4) (lenN ws1)) as voff eqn:Hvoff.
  unfold slice_from. replace (voff <=? lenN ws1) with true by lia. cbn [bind].
  destruct (lenN (drop voff ws1) <? vlen) eqn:Ev; [left; reflexivity|].
  right. eexists _, _. split; [reflexivity|]. cbn [t_key t_value t_children t_voff].
  assert (Hal : align2 len = len + len mod 2) by (apply align2_spec; unfold W64 in *; lia).
  split; [|split; [|split]].
  - apply lenN_lt. rewrite lenN_drop. lia.
  - apply lenN_le. rewrite !lenN_drop. lia.
  - intros Hv. destruct (N.ltb_spec (align2 (lenN key) + 4) (lenN ws1)) as [Hlt|Hge]; [lia|].
    elim Hv. rewrite (drop_all ws1 voff) by lia. unfold take. apply firstn_nil.
  - lia.
Qed.

Lemma parse_tlv_no_fault vl ws : len_ok ws -> no_fault (parse_tlv vl ws).
Proof. intros H f. destruct (parse_tlv_cases vl ws H) as [E|(t & r & E & _)]; rewrite E; discriminate. Qed.

(* ------------------------------------------------------------------ the item list of a parser *)
Fixpoint items_f (fuel : nat) (vl : vlt) (ws : list N) : list tlv :=
  match fuel with
  | O => []
  | S f => match parser_next vl ws with
           | Some (Ok t, rest) => t :: items_f f vl rest
           | Some (_, rest) => items_f f vl rest
           | None => []
           end
  end.
Definition items (vl : vlt) (ws : list N) : list tlv := items_f (S (length ws)) vl ws.

Fixpoint fold_until {St} (g : St -> tlv -> St * bool) (l : list tlv) (s : St) : St :=
  match l with
  | [] => s
  | t :: r => if snd (g s t) then fst (g s t) else fold_until g r (fst (g s t))
  end.

Lemma parser_next_cases vl ws : len_ok ws ->
  (ws = [] /\ parser_next vl ws = None) \/
  (ws <> [] /\ exists e, parser_next vl ws = Some (Err e, [])) \/
  (exists t rest, parser_next vl ws = Some (Ok t, rest) /\ parse_tlv vl ws = Ok (t, rest) /\
     (length rest < length ws)%nat /\ (length (t_children t) <= length ws)%nat /\
     (t_value t <> [] -> t_voff t = align2 (lenN (t_key t)) + 4)).
Proof.
  intros H. unfold parser_next, parser_next_gen. destruct ws as [|w r]; [left; split; reflexivity|]. right.
  fold (parse_tlv vl (w :: r)).
  destruct (parse_tlv_cases vl (w :: r) H) as [E|(t & rest & E & H1 & H2 & H3 & _)]; rewrite E.
  - left. split; [discriminate|]. exists EInvalid. reflexivity.
  - right. exists t, rest. repeat (split; [assumption || reflexivity|]). assumption.
Qed.

Lemma len_ok_le a b : len_ok b -> (length a <= length b)%nat -> len_ok a.
Proof. unfold len_ok, lenN. lia. Qed.

Lemma items_f_enough vl : forall f1 f2 ws, len_ok ws -> (length ws < f1)%nat -> (length ws < f2)%nat -> items_f f1 vl ws = items_f f2 vl ws.
Proof.
  induction f1 as [|f1 IH]; intros f2 ws Hok H1 H2; [lia|]. destruct f2 as [|f2]; [lia|]. cbn [items_f].
  destruct (parser_next_cases vl ws Hok) as [[_ E]|[[Hne [e E]]|(t & rest & E & _ & Hr & _)]]; rewrite E.
  - reflexivity.
  - destruct ws; [congruence|]. cbn [length] in *. destruct f1, f2; try lia; reflexivity.
  - f_equal. apply IH; [eapply len_ok_le; [exact Hok|lia]|lia|lia].
Qed.

(* the loop of the model is a fold over the item list, never faults and never runs out of fuel *)
Lemma for_each_items {St} vl (body : St -> tlv -> res (St * bool)) (g : St -> tlv -> St * bool) :
  forall fuel ws s, len_ok ws -> (length ws < fuel)%nat ->
  (forall t s, In t (items_f fuel vl ws) -> body s t = Ok (g s t)) ->
  for_each false fuel vl ws body s = Ok (fold_until g (items_f fuel vl ws) s).
Proof.
  induction fuel as [|fuel IH]; intros ws s Hok Hf Hb; [lia|]. cbn [for_each]. fold (parser_next vl ws).
  cbn [items_f] in *.
  destruct (parser_next_cases vl ws Hok) as [[_ E]|[[Hne [e E]]|(t & rest & E & _ & Hr & _)]]; rewrite E in *.
  - reflexivity.
  - destruct fuel; [destruct ws; [congruence|cbn [length] in Hf; lia]|]. reflexivity.
  - assert (Hok' : len_ok rest) by (eapply len_ok_le; [exact Hok|lia]).
    rewrite (Hb t s (or_introl eq_refl)). cbn [bind fold_until].
    destruct (snd (g s t)); [reflexivity|].
    apply IH; [assumption|lia|]. intros t' s' Hin. apply Hb. right. exact Hin.
Qed.

Lemma each_items {St} vl (body : St -> tlv -> res (St * bool)) g ws s : len_ok ws ->
  (forall t s, In t (items vl ws) -> body s t = Ok (g s t)) ->
  each false vl ws body s = Ok (fold_until g (items vl ws) s).
Proof. intros. unfold each, items. apply for_each_items; [assumption|lia|assumption]. Qed.

(* every item of a parser over [ws]: children no longer than [ws]; value offset as computed *)
Lemma items_props vl : forall fuel ws t, len_ok ws -> In t (items_f fuel vl ws) ->
  (length (t_children t) <= length ws)%nat /\ (t_value t <> [] -> t_voff t = align2 (lenN (t_key t)) + 4).
Proof.
  induction fuel as [|fuel IH]; intros ws t Hok Hin; [elim Hin|]. cbn [items_f] in Hin.
  destruct (parser_next_cases vl ws Hok) as [[_ E]|[[Hne [e E]]|(t0 & rest & E & _ & Hr & Hc & Hv)]]; rewrite E in Hin.
  - elim Hin.
  - destruct fuel; elim Hin.
  - destruct Hin as [<-|Hin]; [split; assumption|].
    destruct (IH rest t) as [H1 H2]; [eapply len_ok_le; [exact Hok|lia]|exact Hin|]. split; [lia|exact H2].
Qed.

(* ------------------------------------------------------------------ visit without the outcome monad *)
Section Pure.
  Context {St : Type} (V : visitor St).
  Definition p_string (s : St) (t : tlv) : St * bool := (v_string V s (t_key t) (strip_nul (t_value t)), false).
  Definition p_table (s : St) (t : tlv) : St * bool :=
    if negb (snd (v_string_table V s (t_key t))) then (fst (v_string_table V s (t_key t)), false) else
    (v_exit V (fold_until p_string (items VWords (t_children t)) (v_enter V (fst (v_string_table V s (t_key t))) 2)) 2, false).
  Definition p_var (s : St) (t : tlv) : St * bool := (v_var V s (t_key t) (t_value t), false).
  Definition p_file (s : St) (t : tlv) : St * bool :=
    if negb (snd (v_file_info V s (t_key t))) then (fst (v_file_info V s (t_key t)), false) else
    let s1 := v_enter V (fst (v_file_info V s (t_key t))) 1 in
    (v_exit V (if list_eqb (t_key t) StringFileInfo then fold_until p_table (items VZero (t_children t)) s1
               else if list_eqb (t_key t) VarFileInfo then fold_until p_var (items VBytes (t_children t)) s1
               else s1) 1, false).
  Definition fixed_of_tlv (t : tlv) : option (list N) := if 2 * lenN (t_value t) =? 52 then Some (t_value t) else None.
  Definition p_version (s : St) (t : tlv) : St * bool :=
    let r := v_version_info V s (t_key t) (fixed_of_tlv t) in
    if negb (snd r) then (fst r, false) else
    (v_exit V (fold_until p_file (items VZero (t_children t)) (v_enter V (fst r) 0)) 0, true).
  Definition pvisit (ws : list N) (s : St) : St := fold_until p_version (items VBytes ws) s.

  Lemma table_body_pure t s : len_ok (t_children t) -> table_body V false s t = Ok (p_table s t).
  Proof.
    intros Hok. unfold table_body, p_table. destruct (v_string_table V s (t_key t)) as [s1 go]. cbn [fst snd].
    destruct go; cbn [negb]; [|reflexivity].
    rewrite (each_items VWords (string_body V) p_string) by (assumption || reflexivity). reflexivity.
  Qed.
  Lemma file_body_pure t s : len_ok (t_children t) -> file_body V false s t = Ok (p_file s t).
  Proof.
    intros Hok. unfold file_body, p_file. destruct (v_file_info V s (t_key t)) as [s1 go]. cbn [fst snd].
    destruct go; cbn [negb]; [|reflexivity].
    destruct (list_eqb (t_key t) StringFileInfo).
    - rewrite (each_items VZero (table_body V false) p_table); [reflexivity|assumption|].
      intros t' s' Hin. apply table_body_pure. destruct (items_props _ _ _ _ Hok Hin) as [H _]. eapply len_ok_le; eassumption.
    - destruct (list_eqb (t_key t) VarFileInfo); [|reflexivity].
      rewrite (each_items VBytes (var_body V) p_var) by (assumption || reflexivity). reflexivity.
  Qed.
  Lemma version_body_pure base t s : base mod 4 = 0 -> len_ok (t_children t) ->
    (t_value t <> [] -> t_voff t = align2 (lenN (t_key t)) + 4) -> lenN (t_key t) + 1 < W64 ->
    version_body V false base s t = Ok (p_version s t).
  Proof.
    intros Hb Hok Hv Hk. unfold version_body, p_version, fixed_ref, fixed_of_tlv.
    assert (Hfx : (if 2 * lenN (t_value t) =? 52 then if aligned_to 4 (base + 2 * t_voff t) then Ok (Some (t_value t)) else Fault UBAlign else Ok None)
                  = Ok (if 2 * lenN (t_value t) =? 52 then Some (t_value t) else None)).
    { destruct (2 * lenN (t_value t) =? 52) eqn:E; [|reflexivity].
      assert (t_value t <> []) by (intros X; rewrite X in E; cbn in E; discriminate).
      rewrite (Hv H). unfold aligned_to. pose proof (align2_even (lenN (t_key t)) Hk).
      replace ((base + 2 * (align2 (lenN (t_key t)) + 4)) mod 4 =? 0) with true by lia. reflexivity. }
    rewrite Hfx. cbn [bind].
    destruct (v_version_info V s (t_key t) _) as [s1 go]. cbn [fst snd]. destruct go; cbn [negb]; [|reflexivity].
    rewrite (each_items VZero (file_body V false) p_file); [reflexivity|assumption|].
    intros t' s' Hin. apply file_body_pure. destruct (items_props _ _ _ _ Hok Hin) as [H _]. eapply len_ok_le; eassumption.
  Qed.

  (* (5) for every visitor: visit never faults (no panic, no misaligned reference, fuel |ws|+1 suffices) and is the pure walk *)
  Theorem visit_pure base ws s : base mod 4 = 0 -> len_ok ws -> visit V false base ws s = Ok (pvisit ws s).
  Proof.
    intros Hb Hok. unfold visit, pvisit. apply each_items; [assumption|].
    intros t s' Hin. destruct (items_props _ _ _ _ Hok Hin) as [H1 H2].
    apply version_body_pure; [assumption|eapply len_ok_le; eassumption|assumption|].
    (* the key is shorter than the resource *)
    clear - Hok Hin. unfold items in Hin. revert Hin. generalize (S (length ws)). intros fuel. revert ws Hok.
    induction fuel as [|fuel IH]; intros ws Hok Hin; [elim Hin|]. cbn [items_f] in Hin.
    destruct (parser_next_cases VBytes ws Hok) as [[_ E]|[[Hne [e E]]|(t0 & rest & E & Hp & Hr & _)]]; rewrite E in Hin.
    - elim Hin.
    - destruct fuel; elim Hin.
    - destruct Hin as [<-|Hin].
      + destruct (parse_tlv_cases VBytes ws Hok) as [X|(t1 & r1 & X & _ & _ & _ & Hk)]; rewrite X in Hp; [discriminate|].
        injection Hp as <- _. unfold len_ok in Hok. lia.
      + apply (IH rest); [eapply len_ok_le; [exact Hok|lia]|exact Hin].
  Qed.
End Pure.

(* ------------------------------------------------------------------ (1) parse_tlv inverts the documented layout *)
Definition vl_field_ok (vl : vlt) (f : N) (value : list N) : Prop :=
  match vl with VZero => f = 0 /\ value = [] | VBytes => f / 2 = lenN value | VWords => f = lenN value end.

Lemma parse_tlv_shape vl f wtype key g1 value g2 children g3 rest :
  let L := 4 + lenN key + lenN g1 + lenN value + lenN g2 + lenN children in
  ~ In 0 key -> L + 8 + lenN g3 + lenN rest < W64 -> vl_field_ok vl f value ->
  (lenN g1 = lenN key mod 2 \/ (g1 = [] /\ value = [] /\ g2 = [] /\ children = [])) ->
  (lenN g2 = lenN value mod 2 \/ (g2 = [] /\ children = [])) ->
  (lenN g3 = L mod 2 \/ (g3 = [] /\ rest = [])) ->
  parse_tlv vl ((2 * L :: f :: wtype :: key ++ 0 :: g1 ++ value ++ g2 ++ children) ++ g3 ++ rest)
  = Ok ({| t_key := key; t_value := value; t_children := children; t_voff := 4 + lenN key + lenN g1 |}, rest).
Proof.
  intros L Hk Hlen Hvl H1 H2 H3.
  remember (key ++ 0 :: g1 ++ value ++ g2 ++ children) as body eqn:Hbody.
  assert (Hlb : lenN body = L - 3).
  { subst body. rewrite lenN_app, lenN_cons, !lenN_app. unfold L. lia. }
  remember ((2 * L :: f :: wtype :: body) ++ g3 ++ rest) as ws eqn:Hws.
  assert (Hlh : lenN (2 * L :: f :: wtype :: body) = L) by (rewrite !lenN_cons, Hlb; unfold L; lia).
  assert (Hlw : lenN ws = L + lenN g3 + lenN rest) by (subst ws; rewrite !lenN_app, Hlh; lia).
  assert (Hw0 : word ws 0 = 2 * L) by (subst ws; reflexivity).
  assert (Hw1 : word ws 1 = f) by (subst ws; reflexivity).
  assert (Htake : take L ws = 2 * L :: f :: wtype :: body) by (subst ws; apply take_app_exact; exact Hlh).
  assert (HaL : align2 L = L + L mod 2) by (apply align2_spec; unfold W64 in *; lia).
  assert (Hdrop : drop (N.min (align2 L) (lenN ws)) ws = rest).
  { destruct H3 as [H3|[-> ->]].
    - replace (N.min (align2 L) (lenN ws)) with (lenN ((2 * L :: f :: wtype :: body) ++ g3)) by (rewrite lenN_app, Hlh; lia).
      subst ws. rewrite app_assoc. apply drop_app_exact. reflexivity.
    - subst ws. rewrite app_nil_r in *. apply drop_all. lia. }
  assert (Hwk : wstrn body = key) by (subst body; apply wstrn_app; exact Hk).
  assert (Hak : align2 (lenN key) = lenN key + lenN key mod 2) by (apply align2_spec; unfold W64 in *; lia).
  assert (Hvoff : N.min (align2 (lenN key) + 4) L = 4 + lenN key + lenN g1).
  { destruct H1 as [H1|(-> & -> & -> & ->)]; [unfold L; lia|]. unfold L. rewrite !lenN_nil. lia. }
  assert (Hsplit : 2 * L :: f :: wtype :: body = (2 * L :: f :: wtype :: key ++ 0 :: g1) ++ (value ++ g2 ++ children)).
  { subst body. cbn [app]. do 3 f_equal. rewrite <- app_assoc. reflexivity. }
  assert (Hd2 : drop (4 + lenN key + lenN g1) (2 * L :: f :: wtype :: body) = value ++ g2 ++ children).
  { rewrite Hsplit. apply drop_app_exact. rewrite !lenN_cons, lenN_app, lenN_cons. lia. }
  assert (Hav : align2 (lenN value) = lenN value + lenN value mod 2) by (apply align2_spec; unfold L, W64 in *; lia).
  assert (Hvl' : (match vl with VZero => if f =? 0 then Some 0 else None | VBytes => Some (f / 2) | VWords => Some f end) = Some (lenN value)).
  { destruct vl; cbn in Hvl.
    - destruct Hvl as [-> ->]. reflexivity.
    - rewrite Hvl. reflexivity.
    - rewrite Hvl. reflexivity. }
  unfold parse_tlv, parse_tlv_gen.
  replace (lenN ws <? 4) with false by (unfold L in *; lia).
  rewrite Hw0, Hw1, Hvl'. cbv beta iota zeta.
  replace (N.max 4 (2 * L / 2)) with L by (unfold L; lia).
  replace (lenN ws <? L) with false by lia.
  rewrite Htake, Hdrop. cbn [skipn]. rewrite Hwk.
  replace (lenN body =? lenN key) with false by (rewrite Hlb; unfold L; lia).
  unfold chk_add. replace (align2 (lenN key) + 4 <? W64) with true by (unfold L, W64 in *; lia). cbn [bind].
  rewrite Hlh, Hvoff. unfold slice_from. rewrite ?Hlh. replace (4 + lenN key + lenN g1 <=? L) with true by (unfold L; lia). cbn [bind].
  rewrite Hd2. replace (lenN (value ++ g2 ++ children) <? lenN value) with false by (rewrite !lenN_app; lia).
  rewrite (take_app_exact value (g2 ++ children) (lenN value) eq_refl).
  assert (Hc : drop (N.min (align2 (lenN value)) (lenN (value ++ g2 ++ children))) (value ++ g2 ++ children) = children).
  { destruct H2 as [H2|[-> ->]].
    - replace (N.min (align2 (lenN value)) (lenN (value ++ g2 ++ children))) with (lenN (value ++ g2)) by (rewrite !lenN_app; lia).
      rewrite app_assoc. apply drop_app_exact. reflexivity.
    - rewrite !app_nil_r. apply drop_all. lia. }
  rewrite Hc. reflexivity.
Qed.

(* the encoder of the Spec is an instance of the shape *)
Theorem parse_enc_tlv tight vl wtype f key value children pad rest :
  ~ In 0 key -> vl_field_ok vl f value ->
  let e := enc_tlv tight wtype f key value children in
  2 * lenN e < 65536 -> lenN rest + 65536 < W64 ->
  (pad = padw (lenN e) \/ (pad = [] /\ rest = [])) ->
  parse_tlv vl (e ++ pad ++ rest) =
  Ok ({| t_key := key; t_value := value; t_children := children;
         t_voff := 4 + lenN key + (if tight && isnil value && isnil children then 0 else lenN key mod 2) |}, rest).
Proof.
  intros Hk Hvl e Hsmall Hrest Hpad. unfold e, enc_tlv in *.
  set (p1 := if tight && isnil value && isnil children then [] else padw (3 + lenN (key ++ [0]))) in *.
  set (p2 := if tight && isnil children then [] else padw (lenN value)) in *.
  assert (Hbody : (key ++ [0]) ++ p1 ++ value ++ p2 ++ children = key ++ 0 :: p1 ++ value ++ p2 ++ children)
    by (rewrite <- app_assoc; reflexivity).
  rewrite Hbody in *. cbn [app] in *.
  assert (Hlb : lenN (key ++ 0 :: p1 ++ value ++ p2 ++ children) = lenN key + 1 + lenN p1 + lenN value + lenN p2 + lenN children)
    by (rewrite lenN_app, lenN_cons, !lenN_app; lia).
  rewrite !lenN_cons in Hsmall, Hpad. rewrite Hlb in *.
  assert (Hpw : forall n, lenN (padw n) = n mod 2).
  { intros n. unfold padw. destruct (N.even n) eqn:En.
    - apply N.even_spec in En. destruct En as [k ->]. rewrite lenN_nil. lia.
    - assert (N.odd n = true) by (rewrite <- N.negb_even, En; reflexivity). apply N.odd_spec in H. destruct H as [k ->].
      rewrite lenN_cons, lenN_nil. lia. }
  assert (Hp1 : lenN p1 = (if tight && isnil value && isnil children then 0 else lenN key mod 2)).
  { unfold p1. destruct (tight && isnil value && isnil children); [reflexivity|]. rewrite Hpw, lenN_app, lenN_cons, lenN_nil. lia. }
  replace (2 * (3 + (lenN key + 1 + lenN p1 + lenN value + lenN p2 + lenN children)))
    with (2 * (4 + lenN key + lenN p1 + lenN value + lenN p2 + lenN children)) by lia.
  rewrite <- Hp1.
  apply parse_tlv_shape; try assumption.
  - destruct Hpad as [->|[-> ->]]; [rewrite Hpw|rewrite lenN_nil]; unfold W64 in *; lia.
  - unfold p1, p2. destruct tight, value, children; cbn [andb isnil]; rewrite ?Hpw, ?lenN_app, ?lenN_cons, ?lenN_nil;
      first [left; lia | right; repeat split; reflexivity].
  - unfold p2. destruct tight, children; cbn [andb isnil]; rewrite ?Hpw; first [left; lia | right; repeat split; reflexivity].
  - destruct Hpad as [->|[-> ->]]; [left; rewrite Hpw; f_equal; lia|right; split; reflexivity].
Qed.

(* ------------------------------------------------------------------ (4) containment *)
Lemma parser_err_stops vl ws e rest : len_ok ws -> parser_next vl ws = Some (Err e, rest) -> rest = [] /\ parser_next vl rest = None.
Proof.
  intros Hok H. destruct (parser_next_cases vl ws Hok) as [[_ E]|[[_ [e' E]]|(t & r & E & _)]]; rewrite E in H; try discriminate.
  injection H as _ <-. split; reflexivity.
Qed.
Lemma parser_never_faults vl ws f rest : len_ok ws -> parser_next vl ws <> Some (Fault f, rest).
Proof.
  intros Hok H. destruct (parser_next_cases vl ws Hok) as [[_ E]|[[_ [e' E]]|(t & r & E & _)]]; rewrite E in H; discriminate.
Qed.
(* whatever a block yields lies inside the block's own words; the siblings are parsed from what follows it *)
Lemma parse_tlv_contained vl ws t rest : len_ok ws -> parse_tlv vl ws = Ok (t, rest) ->
  let L := N.max 4 (word ws 0 / 2) in
  L <= lenN ws /\ rest = drop (N.min (align2 L) (lenN ws)) ws /\
  (exists a b, take L ws = a ++ t_key t ++ b /\ lenN a = 3) /\
  (exists a b, take L ws = a ++ t_value t ++ b /\ lenN a = t_voff t) /\
  (exists a, take L ws = a ++ t_children t /\ t_voff t + lenN (t_value t) <= lenN a).
Proof.
  intros Hok H L. unfold parse_tlv, parse_tlv_gen in H.
  destruct (lenN ws <? 4) eqn:E4; [discriminate|].
  destruct (match vl with VZero => if word ws 1 =? 0 then Some 0 else None | VBytes => Some (word ws 1 / 2) | VWords => Some (word ws 1) end) as [vlen|]; [|discriminate].
  fold L in H. destruct (lenN ws <? L) eqn:El; [discriminate|].
  remember (take L ws) as ws1 eqn:Hws1. remember (skipn 3 ws1) as tail eqn:Htail. remember (wstrn tail) as key eqn:Hkey.
  destruct (lenN tail =? lenN key) eqn:Ek; [discriminate|].
  unfold chk_add in H. destruct (align2 (lenN key) + 4 <? W64); [|discriminate]. cbn [bind] in H.
  remember (N.min (align2 (lenN key) + 4) (lenN ws1)) as voff eqn:Hvoff.
  unfold slice_from in H. destruct (voff <=? lenN ws1) eqn:Evo; [|discriminate]. cbn [bind] in H.
  remember (drop voff ws1) as ws2 eqn:Hws2.
  destruct (lenN ws2 <? vlen) eqn:Ev; [discriminate|]. injection H as <- <-. cbn [t_key t_value t_children t_voff].
  split; [lia|]. split; [reflexivity|].
  assert (H1 : ws1 = firstn 3 ws1 ++ tail) by (subst tail; symmetry; apply firstn_skipn).
  assert (H2 : exists r, tail = key ++ 0 :: r) by (subst key; apply wstrn_split; lia).
  assert (H3 : ws1 = take voff ws1 ++ ws2) by (subst ws2; symmetry; apply take_drop).
  assert (H4 : ws2 = take vlen ws2 ++ drop vlen ws2) by (symmetry; apply take_drop).
  set (k := N.min (align2 (lenN (take vlen ws2))) (lenN ws2)).
  assert (H5 : ws2 = take k ws2 ++ drop k ws2) by (symmetry; apply take_drop).
  split; [|split].
  - destruct H2 as [r Hr]. exists (firstn 3 ws1), (0 :: r). split; [rewrite <- Hr; exact H1|].
    assert (lenN ws1 = L) by (subst ws1; rewrite lenN_take; lia).
    unfold lenN. rewrite firstn_length. unfold lenN in H. lia.
  - exists (take voff ws1), (drop vlen ws2). split; [rewrite <- H4; exact H3|]. rewrite lenN_take. lia.
  - exists (take voff ws1 ++ take k ws2). split; [rewrite <- app_assoc, <- H5; exact H3|].
    rewrite lenN_app, !lenN_take. assert (lenN (take vlen ws2) = vlen) by (rewrite lenN_take; lia).
    unfold k. rewrite H.
    assert (Hs : vlen + 1 < W64).
    { assert (lenN ws2 <= lenN ws) by (subst ws2 ws1; rewrite lenN_drop, lenN_take; lia). unfold len_ok in Hok. lia. }
    rewrite (align2_spec vlen Hs). lia.
Qed.

(* ------------------------------------------------------------------ (3) queries as functions of the reported events *)
Definition ev_string (t : tlv) : event := EvString (t_key t) (strip_nul (t_value t)).
Definition ev_var (t : tlv) : event := EvVar (t_key t) (t_value t).
Definition ev_table (t : tlv) : list event :=
  [EvTable (t_key t); EvEnter 2] ++ map ev_string (items VWords (t_children t)) ++ [EvExit 2].
Definition ev_file (t : tlv) : list event :=
  [EvFile (t_key t); EvEnter 1] ++
  (if list_eqb (t_key t) StringFileInfo then flat_map ev_table (items VZero (t_children t))
   else if list_eqb (t_key t) VarFileInfo then map ev_var (items VBytes (t_children t)) else []) ++ [EvExit 1].
Definition ev_version (t : tlv) : list event :=
  [EvVersion (t_key t) (fixed_of_tlv t); EvEnter 0] ++ flat_map ev_file (items VZero (t_children t)) ++ [EvExit 0].
(* the complete report of a resource: the first well-formed top-level block *)
Definition all_events (ws : list N) : list event :=
  match items VBytes ws with [] => [] | t :: _ => ev_version t end.

Definition step {St} (V : visitor St) (s : St) (e : event) : St :=
  match e with
  | EvVersion k f => fst (v_version_info V s k f)
  | EvFile k => fst (v_file_info V s k)
  | EvTable k => fst (v_string_table V s k)
  | EvString k v => v_string V s k v
  | EvVar k v => v_var V s k v
  | EvEnter d => v_enter V s d
  | EvExit d => v_exit V s d
  end.

Section AllTrue.
  Context {St : Type} (V : visitor St).
  Hypothesis Hv : forall s k f, snd (v_version_info V s k f) = true.
  Hypothesis Hf : forall s k, snd (v_file_info V s k) = true.
  Hypothesis Ht : forall s k, snd (v_string_table V s k) = true.

  Lemma at_strings l : forall s, fold_until (p_string V) l s = fold_left (step V) (map ev_string l) s.
  Proof. induction l as [|t l IH]; intros s; [reflexivity|]. cbn [fold_until p_string snd fst map fold_left]. apply IH. Qed.
  Lemma at_vars l : forall s, fold_until (p_var V) l s = fold_left (step V) (map ev_var l) s.
  Proof. induction l as [|t l IH]; intros s; [reflexivity|]. cbn [fold_until p_var snd fst map fold_left]. apply IH. Qed.
  Lemma at_table t s : p_table V s t = (fold_left (step V) (ev_table t) s, false).
  Proof.
    unfold p_table, ev_table. rewrite Ht. cbn [negb]. rewrite at_strings.
    cbn [app fold_left]. rewrite fold_left_app. reflexivity.
  Qed.
  Lemma at_tables l : forall s, fold_until (p_table V) l s = fold_left (step V) (flat_map ev_table l) s.
  Proof.
    induction l as [|t l IH]; intros s; [reflexivity|]. cbn [fold_until flat_map]. rewrite at_table. cbn [fst snd].
    rewrite fold_left_app. apply IH.
  Qed.
  Lemma at_file t s : p_file V s t = (fold_left (step V) (ev_file t) s, false).
  Proof.
    unfold p_file, ev_file. rewrite Hf. cbn [negb]. cbn [app fold_left]. rewrite fold_left_app.
    destruct (list_eqb (t_key t) StringFileInfo); [rewrite at_tables; reflexivity|].
    destruct (list_eqb (t_key t) VarFileInfo); [rewrite at_vars; reflexivity|]. reflexivity.
  Qed.
  Lemma at_files l : forall s, fold_until (p_file V) l s = fold_left (step V) (flat_map ev_file l) s.
  Proof.
    induction l as [|t l IH]; intros s; [reflexivity|]. cbn [fold_until flat_map]. rewrite at_file. cbn [fst snd].
    rewrite fold_left_app. apply IH.
  Qed.
  Lemma at_visit ws s : pvisit V ws s = fold_left (step V) (all_events ws) s.
  Proof.
    unfold pvisit, all_events. destruct (items VBytes ws) as [|t l]; [reflexivity|]. cbn [fold_until].
    unfold p_version, ev_version. rewrite Hv. cbn [negb snd fst]. rewrite at_files.
    cbn [app fold_left]. rewrite fold_left_app. reflexivity.
  Qed.
End AllTrue.

Lemma rec_fold evs : forall s, rc_events (fold_left (step (Recorder 0)) evs s) = rc_events s ++ evs.
Proof.
  induction evs as [|e evs IH]; intros s; cbn [fold_left]; [rewrite app_nil_r; reflexivity|].
  rewrite IH. destruct e; cbn [step Recorder v_version_info v_file_info v_string_table v_string v_var v_enter v_exit rc_answer rc_note fst rc_events];
    rewrite <- app_assoc; reflexivity.
Qed.
Lemma src_fold evs : forall s, fold_left (step SourceCode) evs s = s ++ source_of evs.
Proof.
  induction evs as [|e evs IH]; intros s; cbn [fold_left source_of flat_map]; [rewrite app_nil_r; reflexivity|].
  rewrite IH. fold (source_of evs). rewrite app_assoc. f_equal.
  destruct e as [k [f|]|k|k|k v|k v|d|d]; cbn [step SourceCode v_version_info v_file_info v_string_table v_string v_var v_enter v_exit fst line_of];
    rewrite ?app_nil_r; try reflexivity.
  destruct (list_eqb k Translation); cbn [negb]; rewrite ?app_nil_r; reflexivity.
Qed.

Lemma recorder_events ws : rc_events (pvisit (Recorder 0) ws rc_init) = all_events ws.
Proof. rewrite at_visit; try reflexivity. rewrite rec_fold. reflexivity. Qed.
Lemma source_events ws : pvisit SourceCode ws [] = source_of (all_events ws).
Proof. rewrite at_visit; try reflexivity. rewrite src_fold. reflexivity. Qed.

Lemma qf_files l : forall s, fold_until (p_file QueryFixed) l s = s.
Proof. induction l as [|t l IH]; intros s; [reflexivity|]. cbn [fold_until]. unfold p_file at 1 2 3. cbn [QueryFixed v_file_info snd fst negb]. apply IH. Qed.
Lemma fixed_events ws : pvisit QueryFixed ws None = fixed_of (all_events ws).
Proof.
  unfold pvisit, all_events. destruct (items VBytes ws) as [|t l]; [reflexivity|]. cbn [fold_until].
  unfold p_version, ev_version. cbn [QueryFixed v_version_info v_enter v_exit snd fst negb]. rewrite qf_files. reflexivity.
Qed.

(* ------------------------------------------------------------------ the API *)
Lemma words_of_len : forall bs, lenN (words_of bs) <= lenN bs.
Proof.
  assert (H : forall bs, lenN (words_of bs) <= lenN bs /\ forall a, lenN (words_of (a :: bs)) <= lenN (a :: bs)).
  { induction bs as [|b bs [IH1 IH2]]; [split; [cbn [words_of]; lia|intros a; cbn [words_of]; rewrite lenN_cons, lenN_nil; lia]|]. split; [apply IH2|].
    intros a. cbn [words_of]. rewrite !lenN_cons. lia. }
  intros bs. apply H.
Qed.
Definition bytes_len_ok (bytes : list N) : Prop := lenN bytes + 8 < W64.
Lemma words_len_ok bytes : bytes_len_ok bytes -> len_ok (words_of bytes).
Proof. unfold bytes_len_ok, len_ok. pose proof (words_of_len bytes). lia. Qed.

Theorem api_total {St A} (V : visitor St) (init : St) (proj : St -> A) base bytes : bytes_len_ok bytes ->
  api V false init proj base bytes =
  if base mod 4 =? 0 then Ok (proj (pvisit V (words_of bytes) init)) else Err EMisaligned.
Proof.
  intros Hok. unfold api, try_from, aligned_to. destruct (base mod 4 =? 0) eqn:E; cbn [negb bind]; [|reflexivity].
  rewrite visit_pure; [reflexivity|lia|apply words_len_ok; exact Hok].
Qed.
Theorem api_no_fault {St A} (V : visitor St) (init : St) (proj : St -> A) base bytes : bytes_len_ok bytes ->
  no_fault (api V false init proj base bytes).
Proof. intros Hok f. rewrite api_total by assumption. destruct (base mod 4 =? 0); discriminate. Qed.

Theorem queries_of_events base bytes evs : bytes_len_ok bytes -> api_events false 0 base bytes = Ok evs ->
  api_fixed false base bytes = Ok (fixed_of evs) /\ api_source_code false base bytes = Ok (source_of evs).
Proof.
  unfold api_events, api_fixed, api_source_code. intros Hok. rewrite !api_total by assumption.
  destruct (base mod 4 =? 0); [|discriminate]. rewrite recorder_events. intros H. injection H as <-.
  rewrite fixed_events, source_events. split; reflexivity.
Qed.

Lemma f12_refuted : parse_tlv_orig VZero [10; 0; 0; 97; 0] = Fault PIndex.
Proof. vm_compute. reflexivity. Qed.

Theorem api_events_spec base bytes : bytes_len_ok bytes ->
  api_events false 0 base bytes = if base mod 4 =? 0 then Ok (all_events (words_of bytes)) else Err EMisaligned.
Proof. intros Hok. unfold api_events. rewrite api_total by assumption. rewrite recorder_events. reflexivity. Qed.

(* F32: two string tables with the language 040904B0; the first holds A = "1", the second B = "2" *)
Definition f32_lang : list N := [48; 52; 48; 57; 48; 52; 66; 48].
Definition f32_vi : vinfo :=
  {| vi_key := [86; 83]; vi_fixed := [];
     vi_blocks := [BStrings [ {| vt_key := f32_lang; vt_strings := [ {| vs_key := [65]; vs_value := [49; 0] |} ] |};
                              {| vt_key := f32_lang; vt_strings := [ {| vs_key := [66]; vs_value := [50; 0] |} ] |} ]] |}.
Definition f32_ws : list N := encode false f32_vi.
Lemma f32_refuted :
  match visit (Recorder 0) false 0 f32_ws rc_init,
        visit (FileInfoV true) false 0 f32_ws fi_default,
        visit (FileInfoV false) false 0 f32_ws fi_default with
  | Ok r, Ok fo, Ok fn =>
    rc_events r = events_of f32_vi /\
    spec_value (1033, 1200) [65] (rc_events r) = Some [49] /\
    dump_lookup (fi_strings fo) (1033, 1200) [65] = None /\ dump_agrees (rc_events r) (fi_strings fo) = false /\
    dump_lookup (fi_strings fn) (1033, 1200) [65] = Some [49] /\ dump_agrees (rc_events r) (fi_strings fn) = true
  | _, _, _ => False
  end.
Proof. vm_compute. repeat split; reflexivity. Qed.

(* a complete resource, both padding conventions: reported completely and unaltered, all queries agree *)
Definition demo_vi : vinfo :=
  {| vi_key := [86; 83; 95]; vi_fixed := [1213; 65263; 0; 1; 607; 22; 25; 2013; 607; 22; 25; 2013; 63; 0; 0; 0; 4; 0; 2; 0; 0; 0; 0; 0; 0; 0];
     vi_blocks := [ BVars [ {| vv_key := Translation; vv_value := [1033; 1200]; vv_odd := None |} ];
                    BOther [79] [1; 2; 3];
                    BStrings [ {| vt_key := f32_lang; vt_strings := [ {| vs_key := [65; 98; 99]; vs_value := [49; 0; 50; 0] |};
                                                                       {| vs_key := [75]; vs_value := [] |};
                                                                       {| vs_key := [75; 75]; vs_value := [120] |} ] |} ] ] |}.
Lemma demo_roundtrip :
  vinfo_ok true demo_vi = true /\ vinfo_ok false demo_vi = true /\
  api_events false 0 4096 (flat_map le16 (encode true demo_vi)) = Ok (events_of demo_vi) /\
  api_events false 0 4096 (flat_map le16 (encode false demo_vi)) = Ok (events_of demo_vi) /\
  api_translation false 4096 (flat_map le16 (encode true demo_vi)) = Ok [(1033, 1200)] /\
  api_value false (1033, 1200) [65; 98; 99] 4096 (flat_map le16 (encode true demo_vi)) = Ok (Some [49; 0; 50]) /\
  api_strings false (1033, 1200) 4096 (flat_map le16 (encode true demo_vi)) = Ok [([65; 98; 99], [49; 0; 50]); ([75], []); ([75; 75], [120])] /\
  api_events false 0 4098 (flat_map le16 (encode true demo_vi)) = Err EMisaligned.
Proof. vm_compute. repeat split; reflexivity. Qed.

(* ------------------------------------------------------------------ translation() as a function of the events *)
Lemma list_eqb_eq a : forall b, list_eqb a b = true -> a = b.
Proof. induction a as [|x a IH]; intros [|y b] H; cbn [list_eqb] in H; try discriminate; [reflexivity|].
  apply andb_true_iff in H. destruct H as [H1 H2]. f_equal; [lia|apply IH; exact H2]. Qed.
Lemma tr_app a : forall s b, translation_of s (a ++ b) = translation_of (translation_of s a) b.
Proof. induction a as [|e a IH]; intros s b; [reflexivity|]. destruct e; cbn [app translation_of]; apply IH. Qed.
Lemma tr_strings l s : translation_of s (map ev_string l) = s.
Proof. induction l as [|t l IH]; [reflexivity|]. cbn [map translation_of ev_string]. exact IH. Qed.
Lemma tr_tables l s : translation_of s (flat_map ev_table l) = s.
Proof. induction l as [|t l IH]; [reflexivity|]. cbn [flat_map]. rewrite tr_app. unfold ev_table. cbn [app translation_of].
  rewrite tr_app, tr_strings. cbn [translation_of]. exact IH. Qed.
Lemma qt_vars l : forall s, fold_until (p_var QueryTranslation) l s = translation_of s (map ev_var l).
Proof. induction l as [|t l IH]; intros s; [reflexivity|]. cbn [fold_until p_var snd fst map translation_of ev_var QueryTranslation v_var]. apply IH. Qed.
Lemma qt_file t s : p_file QueryTranslation s t = (translation_of s (ev_file t), false).
Proof.
  unfold p_file, ev_file. cbn [QueryTranslation v_file_info v_enter v_exit snd fst app translation_of].
  destruct (list_eqb (t_key t) VarFileInfo) eqn:E; cbn [negb].
  - apply list_eqb_eq in E. rewrite E. cbn [list_eqb N.eqb Pos.eqb andb]. replace (list_eqb VarFileInfo StringFileInfo) with false by reflexivity.
    replace (list_eqb VarFileInfo VarFileInfo) with true by reflexivity. rewrite tr_app, qt_vars. reflexivity.
  - destruct (list_eqb (t_key t) StringFileInfo); rewrite tr_app; [rewrite tr_tables|]; reflexivity.
Qed.
Lemma qt_files l : forall s, fold_until (p_file QueryTranslation) l s = translation_of s (flat_map ev_file l).
Proof. induction l as [|t l IH]; intros s; [reflexivity|]. cbn [fold_until flat_map]. rewrite qt_file. cbn [fst snd]. rewrite tr_app. apply IH. Qed.
Lemma translation_events ws : pvisit QueryTranslation ws [] = translation_of [] (all_events ws).
Proof.
  unfold pvisit, all_events. destruct (items VBytes ws) as [|t l]; [reflexivity|]. cbn [fold_until].
  unfold p_version, ev_version. cbn [QueryTranslation v_version_info v_enter v_exit snd fst negb app translation_of].
  rewrite qt_files, tr_app. reflexivity.
Qed.
Theorem translation_of_events base bytes evs : bytes_len_ok bytes -> api_events false 0 base bytes = Ok evs ->
  api_translation false base bytes = Ok (translation_of [] evs).
Proof.
  unfold api_events, api_translation. intros Hok. rewrite !api_total by assumption.
  destruct (base mod 4 =? 0); [|discriminate]. rewrite recorder_events. intros H. injection H as <-.
  rewrite translation_events. reflexivity.
Qed.
