(* C03, item counts: how many items each traversal can yield and how many iterations its loop can make,
   as a function of the input length (DESIGN.md section 7, table of C03). *)
From PV.Model Require Import Machine.
From PV.Spec Require Import WorkSpec.
From PV.Model Require VersionInfo Resources Rich Dirs Exports Views.
From PV.Proofs Require Import BaseProofs.
From PV.Proofs Require VersionInfoProofs RichProofs ResourcesProofs.
Ltac Zify.zify_post_hook ::= Z.div_mod_to_equations.

(* ================= TLV parser (version_info.rs Parser) ================= *)
Module Tlv.
  Import PV.Model.VersionInfo VersionInfoProofs.

  (* an item that parses consumes at least 4 words *)
  Lemma parse_tlv_consumes4 vl ws t rest : len_ok ws -> parse_tlv vl ws = Ok (t, rest) -> lenN rest + 4 <= lenN ws.
  Proof.
    unfold len_ok, parse_tlv, parse_tlv_gen. intros Hok H.
    destruct (lenN ws <? 4) eqn:E4; [discriminate|].
    destruct (match vl with VZero => if word ws 1 =? 0 then Some 0 else None | VBytes => Some (word ws 1 / 2) | VWords => Some (word ws 1) end) as [vlen|]; [|discriminate].
    remember (N.max 4 (word ws 0 / 2)) as len eqn:Hlen.
    destruct (lenN ws <? len) eqn:El; [discriminate|].
    destruct (lenN (skipn 3 (take len ws)) =? lenN (wstrn (skipn 3 (take len ws)))); [discriminate|].
    destruct (chk_add W64 (align2 (lenN (wstrn (skipn 3 (take len ws))))) 4) as [off| |]; cbn [bind] in H; try discriminate.
    destruct (slice_from (take len ws) (N.min off (lenN (take len ws)))) as [ws2| |]; cbn [bind] in H; try discriminate.
    destruct (lenN ws2 <? vlen); [discriminate|]. injection H as _ <-.
    rewrite lenN_drop. assert (Hal : align2 len = len + len mod 2) by (apply align2_spec; unfold W64 in *; lia).
    assert (Hm : len mod 2 < 2) by (apply N.mod_lt; lia).
    assert (H4 : 4 <= len) by lia. assert (HL : len <= lenN ws) by lia.
    revert Hal Hm H4 HL. generalize (align2 len) (len mod 2) (lenN ws). clear. intros; lia.
  Qed.

  Lemma items_f_count vl : forall fuel ws, len_ok ws -> 4 * lenN (items_f fuel vl ws) <= lenN ws.
  Proof.
    induction fuel as [|fuel IH]; intros ws Hok; [cbn [items_f]; unfold lenN; cbn [length]; lia|]. cbn [items_f].
    destruct (parser_next_cases vl ws Hok) as [[_ E]|[[Hne [e E]]|(t & rest & E & Ep & Hr & _)]]; rewrite E.
    - unfold lenN; cbn [length]; lia.
    - destruct fuel; cbn [items_f parser_next parser_next_gen]; unfold lenN; cbn [length]; lia.
    - rewrite lenN_cons. pose proof (parse_tlv_consumes4 vl ws t rest Hok Ep).
      assert (Hok' : len_ok rest) by (eapply len_ok_le; [exact Hok|lia]). specialize (IH rest Hok'). lia.
  Qed.

  (* at most len/4 items parse per level ... *)
  Theorem tlv_items_bounded vl ws : len_ok ws -> 4 * lenN (items vl ws) <= lenN ws.
  Proof. intros H. apply items_f_count. exact H. Qed.

  (* ... and the iterator itself yields at most len/4 + 1 results before it is exhausted (fuel |ws| + 1 suffices):
     the results that parse number at most len/4, at most one is an error and it is the last *)
  Lemma parser_run_count vl : forall fuel ws, len_ok ws -> (length ws < fuel)%nat ->
    exists l, parser_run fuel vl ws = Some l /\
      4 * lenN (filter is_ok l) <= lenN ws /\ lenN l <= lenN (filter is_ok l) + 1.
  Proof.
    induction fuel as [|fuel IH]; intros ws Hok Hf; [lia|]. cbn [parser_run].
    destruct (parser_next_cases vl ws Hok) as [[_ E]|[[Hne [e E]]|(t & rest & E & Ep & Hr & _)]]; rewrite E.
    - exists []. split; [reflexivity|]. cbn [filter]. unfold lenN; cbn [length]. split; lia.
    - destruct fuel as [|fuel]; [destruct ws; [congruence|cbn in Hf; lia]|]. cbn [parser_run].
      change (parser_next vl []) with (@None (res tlv * list N)). exists [Err e]. split; [reflexivity|]. cbn [filter is_ok]. unfold lenN; cbn [length]. split; lia.
    - pose proof (parse_tlv_consumes4 vl ws t rest Hok Ep).
      assert (Hok' : len_ok rest) by (eapply len_ok_le; [exact Hok|lia]).
      destruct (IH rest Hok' ltac:(lia)) as [l [-> [A B]]]. exists (Ok t :: l). split; [reflexivity|].
      cbn [filter is_ok]. rewrite !lenN_cons. split; lia.
  Qed.
  Theorem tlv_parser_run_bounded vl ws : len_ok ws ->
    exists l, parser_run (S (length ws)) vl ws = Some l /\
      4 * lenN (filter is_ok l) <= lenN ws /\ lenN l <= lenN ws / 4 + 1.
  Proof.
    intros Hok. destruct (parser_run_count vl (S (length ws)) ws Hok ltac:(lia)) as [l [E [A B]]].
    exists l. split; [exact E|]. split; [exact A|].
    assert (lenN (filter is_ok l) <= lenN ws / 4) by (apply N.div_le_lower_bound; lia). lia.
  Qed.
End Tlv.

(* ================= binary searches: the interval halves ================= *)
Lemma log2_fuel d : d < 2 ^ N.of_nat (S (N.to_nat (N.log2 d))).
Proof.
  rewrite Nat2N.inj_succ, N2Nat.id. destruct (N.eq_dec d 0) as [->|Hd]; [cbn; lia|].
  destruct (N.log2_spec d ltac:(lia)) as [_ H]. exact H.
Qed.

Module DirSearch.
  Import PV.Model.Dirs.
  (* exception directory: with d = hi - lo < 2^k, k + 1 iterations suffice and more fuel changes nothing *)
  Lemma bsearch_log c t : forall k lo hi, hi - lo < 2 ^ N.of_nat k ->
    bsearch (S k) c t lo hi <> Fault OutOfFuel /\
    forall f, (k < f)%nat -> bsearch f c t lo hi = bsearch (S k) c t lo hi.
  Proof.
    induction k as [|k IH]; intros lo hi Hd.
    - change (2 ^ N.of_nat 0) with 1 in Hd. assert (Hle : (hi <=? lo) = true) by lia.
      split; [cbn [bsearch]; rewrite Hle; discriminate|]. intros [|f] Hf; [lia|]. cbn [bsearch]. rewrite Hle. reflexivity.
    - rewrite Nat2N.inj_succ, N.pow_succ_r' in Hd.
      assert (H1 : lo + (hi - lo) / 2 - lo < 2 ^ N.of_nat k) by lia.
      assert (H2 : hi - (lo + (hi - lo) / 2 + 1) < 2 ^ N.of_nat k) by lia.
      destruct (IH lo (lo + (hi - lo) / 2) H1) as [A1 B1]. destruct (IH (lo + (hi - lo) / 2 + 1) hi H2) as [A2 B2].
      split.
      + cbn [bsearch]. destruct (hi <=? lo); [discriminate|].
        destruct (nth_error t (N.to_nat (lo + (hi - lo) / 2))) as [x|]; [|discriminate].
        destruct (c x); [exact A2|discriminate|exact A1].
      + intros [|f] Hf; [lia|]. cbn [bsearch]. destruct (hi <=? lo); [reflexivity|].
        destruct (nth_error t (N.to_nat (lo + (hi - lo) / 2))) as [x|]; [|reflexivity].
        destruct (c x); [apply B2; lia|reflexivity|apply B1; lia].
  Qed.

  (* RuntimeFunction lookup: floor(log2 n) + 2 loop iterations (the last one only sees the empty interval) *)
  Theorem index_of_log t pc :
    let fuel := S (S (N.to_nat (N.log2 (lenN t)))) in
    index_of t pc = bsearch fuel (cmp_rf pc) t 0 (lenN t) /\ bsearch fuel (cmp_rf pc) t 0 (lenN t) <> Fault OutOfFuel.
  Proof.
    cbv zeta. destruct t as [|x t']; [split; [reflexivity|cbn; discriminate]|]. set (t := x :: t').
    pose proof (log2_fuel (lenN t)) as Hl.
    destruct (bsearch_log (cmp_rf pc) t (S (N.to_nat (N.log2 (lenN t)))) 0 (lenN t) ltac:(rewrite N.sub_0_r; exact Hl)) as [A B].
    split; [|exact A]. unfold index_of. apply B.
    assert (H : N.log2 (lenN t) < lenN t) by (apply N.log2_lt_lin; unfold lenN, t; cbn [length]; lia).
    unfold lenN in *. lia.
  Qed.
End DirSearch.


Module ExpSearch.
  Import PV.Model.Exports.
  Section S.
    Variable cstr : N -> res (list N).
    Variable t : tables.
    (* export names: with hi - lo < 2^k the loop returns within k + 1 iterations; more fuel changes nothing *)
    Lemma bsearch_log n : forall k lo hi, hi - lo < 2 ^ N.of_nat k ->
      forall f, (k < f)%nat -> bsearch cstr t f lo hi n = bsearch cstr t (S k) lo hi n.
    Proof.
      induction k as [|k IH]; intros lo hi Hd [|f] Hf; try lia; cbn [bsearch].
      - change (2 ^ N.of_nat 0) with 1 in Hd.
        destruct (lo =? hi) eqn:E; [reflexivity|]. unfold chk_sub. assert (Hlt : (lo <=? hi) = false) by lia. rewrite Hlt. reflexivity.
      - rewrite Nat2N.inj_succ, N.pow_succ_r' in Hd.
        destruct (lo =? hi); [reflexivity|].
        unfold chk_sub. destruct (lo <=? hi) eqn:Ele; cbn [bind]; [|reflexivity].
        destruct (chk_add W64 lo ((hi - lo) / 2)) as [i| |] eqn:Ei; cbn [bind]; try reflexivity.
        assert (Hi : i = lo + (hi - lo) / 2).
        { unfold chk_add in Ei. destruct (lo + (hi - lo) / 2 <? W64); [injection Ei as <-; reflexivity|discriminate]. }
        destruct (nthN (t_names t) i) as [rva|]; [|reflexivity].
        destruct (cstr rva) as [s| |]; cbn [bind]; try reflexivity.
        destruct (lex_cmp n s); [reflexivity| |].
        + apply IH; lia.
        + destruct (chk_add W64 i 1) as [i1| |] eqn:Ei1; cbn [bind]; try reflexivity.
          assert (Hi1 : i1 = i + 1) by (unfold chk_add in Ei1; destruct (i + 1 <? W64); [injection Ei1 as <-; reflexivity|discriminate]).
          apply IH; lia.
    Qed.

    (* Exports::by().name(): floor(log2 n) + 2 iterations of the loop at most *)
    Theorem name_log n :
      name cstr t n = bsearch cstr t (S (S (N.to_nat (N.log2 (lenN (t_names t)))))) 0 (lenN (t_names t)) n.
    Proof.
      unfold name. destruct (t_names t) as [|x l] eqn:En; [reflexivity|]. set (ns := x :: l).
      pose proof (log2_fuel (lenN ns)) as Hl.
      apply (bsearch_log n (S (N.to_nat (N.log2 (lenN ns)))) 0 (lenN ns) ltac:(rewrite N.sub_0_r; exact Hl)).
      assert (H : N.log2 (lenN ns) < lenN ns) by (apply N.log2_lt_lin; unfold lenN, ns; cbn [length]; lia).
      unfold lenN in *. lia.
    Qed.
  End S.
End ExpSearch.

(* ================= sentinel scans and C strings ================= *)
Module Scans.
  Import PV.Model.Mapping PV.Model.Views.
  (* derva_slice_f / _s: the element index only grows, the accepted prefix and the terminator lie inside the
     slice; so the loop makes at most blen/size iterations and yields at most blen/size - 1 elements *)
  Lemma scan_f_bound get p off blen size : forall fuel n r, 0 < size ->
    scan_f get fuel p off blen size n = Ok r -> n <= r /\ (r + 1) * size <= blen.
  Proof.
    induction fuel as [|fuel IH]; intros n r Hs H; cbn [scan_f] in H; [discriminate|].
    destruct (blen <? n * size + size) eqn:E; [discriminate|].
    destruct (p (le_value get (off + n * size) (N.to_nat size))).
    - injection H as <-. split; [lia|]. lia.
    - destruct (IH (n + 1) r Hs H) as [A B]. split; lia.
  Qed.
  (* c_str: the NUL is found among the len bytes of the slice *)
  Lemma find_nul_bound get : forall n off i, find_nul get off n = Some i -> i < N.of_nat n.
  Proof.
    induction n as [|n IH]; intros off i H; cbn [find_nul] in H; [discriminate|].
    destruct (get off =? 0); [injection H as <-; lia|].
    destruct (find_nul get (off + 1) n) as [j|] eqn:E; [|discriminate]. injection H as <-.
    specialize (IH _ _ E). lia.
  Qed.
End Scans.

(* ================= Rich header ================= *)
Module RichCount.
  Import PV.Model.Rich.
  Lemma pairs_len : forall (l : list N), length (pairs l) = (length l / 2)%nat.
  Proof.
    fix IH 1. intros [|a [|b t]]; [reflexivity|reflexivity|].
    cbn [pairs length]. rewrite IH. change (S (S (length t))) with (2 + length t)%nat.
    replace (2 + length t)%nat with (length t + 1 * 2)%nat by lia. rewrite Nat.div_add by lia. lia.
  Qed.
  (* records(): one record per pair of dwords between the header (4 dwords) and the trailer (2 dwords) *)
  Theorem records_count image se : (snd se <= length image)%nat -> (fst se + 6 <= snd se)%nat ->
    length (records image se) = ((snd se - fst se - 6) / 2)%nat.
  Proof.
    intros H1 H2. unfold records, body. rewrite map_length, pairs_len, firstn_length, skipn_length.
    rewrite Nat.min_l by lia. reflexivity.
  Qed.
  (* for the structure try_from finds: the count is determined by the two scan positions, and all of it lies
     before e_lfanew *)
  Theorem records_count_try_from image s e : try_from image = Ok (s, e) ->
    length (records image (s, e)) = ((e - s - 6) / 2)%nat /\
    exists e_lfanew, nth_error image 15 = Some e_lfanew /\ (2 * length (records image (s, e)) + 6 + 16 <= N.to_nat (e_lfanew / 4))%nat.
  Proof.
    intros H. destruct (RichProofs.try_from_well_formed image s e H) as [el [E1 [E2 W]]].
    destruct W as [W1 [W2 [W3 _]]]. rewrite firstn_length in W3.
    assert (Hc : length (records image (s, e)) = ((e - s - 6) / 2)%nat) by (apply records_count; cbn [fst snd]; lia).
    split; [exact Hc|]. exists el. split; [exact E1|]. rewrite Hc.
    pose proof (Nat.div_mod (e - s - 6) 2 ltac:(lia)). lia.
  Qed.
End RichCount.

(* ================= resource directory: walk, tree printer, fsck ================= *)
Module ResCount.
  Import PV.Model.Resources.
  Ltac wc := unfold witem_count, lenN; cbn [filter length fst snd app]; lia.
  Lemma witem_count_app a b : witem_count (a ++ b) = witem_count a + witem_count b.
  Proof. unfold witem_count. rewrite filter_app, lenN_app. reflexivity. Qed.

  Lemma walk_loop_count s below lvl named :
    (forall o l b, witem_count (fst (below o l b)) + snd (below o l b) <= b) ->
    forall es idx b, witem_count (fst (walk_loop s below lvl named es idx b)) + snd (walk_loop s below lvl named es idx b) <= b.
  Proof.
    intros Hb. induction es as [|e r IH]; intros idx b; cbn [walk_loop].
    - wc.
    - destruct (b =? 0) eqn:E0; [wc|]. cbn [fst snd].
      set (sub := match e_entry s e with Ok (EDir o) => below o (lvl + 1) (b - 1) | _ => ([], b - 1) end).
      assert (Hs : witem_count (fst sub) + snd sub <= b - 1).
      { unfold sub. destruct (e_entry s e) as [[o|o]| |]; try wc. apply Hb. }
      specialize (IH (idx + 1) (snd sub)).
      change (WItem (item_at s lvl named idx e) :: fst sub ++ fst (walk_loop s below lvl named r (idx + 1) (snd sub)))
        with ([WItem (item_at s lvl named idx e)] ++ fst sub ++ fst (walk_loop s below lvl named r (idx + 1) (snd sub))).
      rewrite !witem_count_app. change (witem_count [WItem (item_at s lvl named idx e)]) with 1. lia.
  Qed.
  (* the traversal lists at most [b] entries whatever the directory offsets say (cycles, shared children) *)
  Theorem walk_count : forall d s off lvl b, witem_count (fst (walk d s off lvl b)) + snd (walk d s off lvl b) <= b.
  Proof.
    induction d as [|d IH]; intros s off lvl b; cbn [walk]; [wc|].
    apply walk_loop_count. intros o l b'. apply IH.
  Qed.
  Theorem walk_budget s r lvl : witem_count (fst (walk 32 s r lvl (fsck_budget s))) <= rs_len s / 8.
  Proof. pose proof (walk_count 32 s r lvl (fsck_budget s)). unfold fsck_budget in *. lia. Qed.

  Lemma draw_loop_count s below : (forall o b, fst (below o b) + snd (below o b) <= b) ->
    forall es b, fst (draw_loop s below es b) + snd (draw_loop s below es b) <= b.
  Proof.
    intros Hb. induction es as [|e r IH]; intros b; cbn [draw_loop]; [cbn; lia|].
    destruct (b =? 0) eqn:E0; [cbn; lia|]. cbn [fst snd].
    set (sub := match e_entry s e with Ok (EDir o) => below o (b - 1) | _ => (0, b - 1) end).
    assert (Hs : fst sub + snd sub <= b - 1).
    { unfold sub. destruct (e_entry s e) as [[o|o]| |]; try (cbn; lia). apply Hb. }
    specialize (IH (snd sub)). lia.
  Qed.
  Theorem draw_count : forall d s off b, fst (draw d s off b) + snd (draw d s off b) <= b.
  Proof.
    induction d as [|d IH]; intros s off b; cbn [draw]; [cbn; lia|]. apply draw_loop_count. intros o b'. apply IH.
  Qed.
  (* the tree printer writes at most len/8 + 1 lines *)
  Theorem display_lines_bound s : display_lines s <= rs_len s / 8 + 1.
  Proof.
    unfold display_lines. destruct (root s); try lia.
    pose proof (draw_count 32 s a (fsck_budget s)). unfold fsck_budget in *. lia.
  Qed.

  (* fsck with its visit counter *)
  Definition remaining (r : res N) : N := match r with Ok b => b | _ => 0 end.
  Lemma fsck_loop_c_spec s below below_c :
    (forall o b, fst (below_c o b) = below o b /\ snd (below_c o b) + remaining (below o b) <= b) ->
    forall es b, fst (WorkSpec.fsck_loop_c s below_c es b) = fsck_loop s below es b /\
                 snd (WorkSpec.fsck_loop_c s below_c es b) + remaining (fsck_loop s below es b) <= b.
  Proof.
    intros Hb. induction es as [|e r IH]; intros b; cbn [WorkSpec.fsck_loop_c fsck_loop]; [cbn; split; [reflexivity|lia]|].
    destruct (b =? 0) eqn:E0; [cbn; split; [reflexivity|lia]|].
    destruct (e_name s e) as [nm|x|x]; cbn [bind]; try (cbn; split; [reflexivity|lia]).
    destruct (e_entry s e) as [en|x|x]; cbn [bind]; try (cbn; split; [reflexivity|lia]).
    set (sub := match en with EDir o => below_c o (b - 1) | EData o => (_ <- data_bytes s o ;; Ok (b - 1), 0) end).
    set (subr := match en with EDir o => below o (b - 1) | EData o => _ <- data_bytes s o ;; Ok (b - 1) end).
    assert (Hs : fst sub = subr /\ snd sub + remaining subr <= b - 1).
    { unfold sub, subr. destruct en as [o|o]; [apply Hb|]. cbn [fst snd]. split; [reflexivity|].
      destruct (data_bytes s o); cbn; lia. }
    destruct Hs as [Hs1 Hs2]. rewrite Hs1. destruct subr as [b1|x|x]; cbn [bind]; try (cbn [fst snd remaining]; split; [reflexivity|lia]).
    destruct (IH b1) as [A B]. cbn [fst snd]. split; [exact A|]. cbn [remaining] in Hs2. lia.
  Qed.
  Lemma fsck_dir_c_spec : forall d s off b,
    fst (WorkSpec.fsck_dir_c d s off b) = fsck_dir d s off b /\ snd (WorkSpec.fsck_dir_c d s off b) + remaining (fsck_dir d s off b) <= b.
  Proof.
    induction d as [|d IH]; intros s off b; cbn [WorkSpec.fsck_dir_c fsck_dir]; [cbn; split; [reflexivity|lia]|].
    apply fsck_loop_c_spec. intros o b'. apply IH.
  Qed.
  (* Resources::fsck looks at no more than len/8 directory entries on ANY section bytes, and never nests deeper
     than 32 directories (the recursion of the model is structural in the depth counter) *)
  Theorem fsck_c_spec s : fst (WorkSpec.fsck_c s) = fsck s /\ snd (WorkSpec.fsck_c s) <= rs_len s / 8.
  Proof.
    unfold WorkSpec.fsck_c, fsck. destruct (root s) as [r|x|x]; cbn [bind fst snd]; try (split; [reflexivity|lia]).
    destruct (fsck_dir_c_spec FSCK_DEPTH s r (fsck_budget s)) as [A B]. rewrite A. split; [reflexivity|].
    change (rs_len s / 8) with (fsck_budget s). revert B. generalize (fsck_budget s). intros; lia.
  Qed.
End ResCount.

(* ================= exception and debug directories: Size/12 and Size/28 records ================= *)
From PV.Proofs Require DirsProofs.
Module DirCount.
  Import PV.Model.Mapping PV.Model.Views PV.Model.Dirs.
  Theorem exception_count v va size r : exception_try_from v (Some (va, size)) = Ok r ->
    r_len r = size /\ length (exception_functions v r) = N.to_nat (size / 12).
  Proof.
    intros H. destruct (DirsProofs.exception_shape v va size) as [_ [_ [_ S]]].
    destruct (S r H) as [_ [A [B _]]]. split; assumption.
  Qed.
  Theorem debug_count v va size r : debug_try_from v (Some (va, size)) = Ok r ->
    r_len r = size /\ length (debug_dirs v r) = N.to_nat (size / 28).
  Proof.
    intros H. destruct (DirsProofs.debug_shape v va size) as [_ [_ [_ S]]].
    destruct (S r H) as [_ [A [B _]]]. split; assumption.
  Qed.
End DirCount.

(* ================= string enumerator: every byte is examined exactly once over a full iteration ================= *)
Module StrWork.
  Import PV.Model.Strings.
  Lemma scan_c_erase c base : forall rest start i, fst (scan_c c base rest start i) = scan c base rest start i.
  Proof.
    induction rest as [|b rest IH]; intros start i; cbn [scan_c scan]; [reflexivity|].
    destruct (is_printable b); [cbn [fst]; apply IH|].
    destruct (b =? 0); [destruct (min_len_nul c <=? i - start); [reflexivity|cbn [fst]; apply IH]|].
    destruct (negb (strict c)); [destruct (min_len c <=? i - start); [reflexivity|cbn [fst]; apply IH]|cbn [fst]; apply IH].
  Qed.

  (* one call: the new offset is past every byte looked at; it moves strictly forward when an item is returned *)
  Lemma scan_c_work c base : forall rest start i,
    match scan_c c base rest start i with
    | (Some (_, off'), n) => i <= off' /\ off' <= i + lenN rest /\ n = off' - i /\ (start = i -> i < off')
    | (None, n) => n = lenN rest
    end.
  Proof.
    induction rest as [|b rest IH]; intros start i; cbn [scan_c].
    - destruct (negb (start =? i) && negb (strict c) && (min_len c <=? i - start)) eqn:E; [|reflexivity].
      change (lenN (@nil N)) with 0. split; [lia|]. split; [lia|]. split; [lia|].
      intros ->. rewrite N.eqb_refl in E. discriminate.
    - rewrite lenN_cons.
      assert (Hmore : forall s', match (let r := scan_c c base rest s' (i + 1) in (fst r, 1 + snd r)) with
                          | (Some (_, off'), n) => i <= off' /\ off' <= i + (1 + lenN rest) /\ n = off' - i /\ (start = i -> i < off')
                          | (None, n) => n = 1 + lenN rest end).
      { intros s'. specialize (IH s' (i + 1)). destruct (scan_c c base rest s' (i + 1)) as [[[x off']|] n]; cbn [fst snd]; [|lia].
        destruct IH as [A [B [C _]]]. repeat split; lia. }
      destruct (is_printable b); [apply Hmore|].
      destruct (b =? 0); [destruct (min_len_nul c <=? i - start); [repeat split; lia|apply Hmore]|].
      destruct (negb (strict c)); [destruct (min_len c <=? i - start); [repeat split; lia|apply Hmore]|apply Hmore].
  Qed.

  Lemma enumerate_fuel_c_spec c base bytes : forall fuel off, off <= lenN bytes -> (N.to_nat (lenN bytes - off) < fuel)%nat ->
    exists l, enumerate_fuel_c fuel c base bytes off = Ok (l, lenN bytes - off) /\ enumerate_fuel fuel c base bytes off = Ok l.
  Proof.
    induction fuel as [|fuel IH]; intros off Ho Hf; [lia|]. cbn [enumerate_fuel_c enumerate_fuel]. unfold next_c, next.
    rewrite <- scan_c_erase. pose proof (scan_c_work c base (skipn (N.to_nat off) bytes) off off) as Hw.
    rewrite lenN_skipn, N2Nat.id in Hw.
    destruct (scan_c c base (skipn (N.to_nat off) bytes) off off) as [[[x off']|] n]; cbn [fst].
    - destruct Hw as [A [B [C D]]]. specialize (D eq_refl).
      destruct (IH off' ltac:(lia) ltac:(lia)) as [l [E1 E2]]. rewrite E1, E2. cbn [bind fst snd].
      exists (x :: l). split; [f_equal; f_equal; lia|reflexivity].
    - exists []. split; [rewrite Hw; reflexivity|reflexivity].
  Qed.

  (* iteration to exhaustion: the enumerator looks at each byte exactly once (offset only moves forward, no byte is
     rescanned), so the work of a full iteration is len, whatever the number of items *)
  Theorem enumerate_work c base bytes :
    exists l, enumerate_c c base bytes = Ok (l, lenN bytes) /\ enumerate c base bytes = Ok l.
  Proof.
    unfold enumerate_c, enumerate.
    destruct (enumerate_fuel_c_spec c base bytes (S (length bytes)) 0 ltac:(lia) ltac:(unfold lenN; lia)) as [l [A B]].
    rewrite N.sub_0_r in A. exists l. split; assumption.
  Qed.
  (* one call: bytes examined = advance of the offset (or the rest of the buffer when nothing is found) *)
  Theorem next_work c base bytes offset : offset <= lenN bytes ->
    fst (next_c c base bytes offset) = next c base bytes offset /\
    match next_c c base bytes offset with
    | (Some (_, off'), n) => offset < off' /\ off' <= lenN bytes /\ n = off' - offset
    | (None, n) => n = lenN bytes - offset
    end.
  Proof.
    intros Ho. unfold next_c, next. split; [apply scan_c_erase|].
    pose proof (scan_c_work c base (skipn (N.to_nat offset) bytes) offset offset) as Hw.
    rewrite lenN_skipn, N2Nat.id in Hw.
    destruct (scan_c c base (skipn (N.to_nat offset) bytes) offset offset) as [[[x off']|] n]; [|exact Hw].
    destruct Hw as [A [B [C D]]]. specialize (D eq_refl). repeat split; lia.
  Qed.
End StrWork.

(* ================= relocation directory: words and pairs ================= *)
From PV.Model Require Relocs.
From PV.Spec Require RelocSpec.
From PV.Proofs Require RelocsProofs.
Module RelocCount.
  Import PV.Model.Relocs PV.Spec.RelocSpec PV.Proofs.RelocsProofs.
  Definition total_words (bs : list block) : N := fold_right (fun b acc => lenN (b_words b) + acc) 0 bs.

  (* every block costs its 8-byte header and 2 bytes per word, all inside the directory *)
  Lemma chainb_words data : forall bs off, chainb data off bs = true ->
    off + 8 * lenN bs + 2 * total_words bs <= N.max off (lenN data).
  Proof.
    induction bs as [|b bs IH]; intros off H.
    - change (lenN (@nil block)) with 0. cbn [total_words fold_right]. lia.
    - pose proof (chainb_inv data off b bs H) as Hinv. cbv zeta in Hinv.
      destruct Hinv as [_ [_ [_ [_ [Hw [[Hlt Hle] [_ Hrest]]]]]]].
      apply IH in Hrest. rewrite lenN_cons. cbn [total_words fold_right]. fold (total_words bs). lia.
  Qed.

  Lemma decode_word_len va w : lenN (decode_word va w) <= 1.
  Proof. unfold decode_word. destruct (w / 4096 =? 0); unfold lenN; cbn [length]; lia. Qed.
  Lemma flat_words_len va : forall ws, lenN (flat_map (decode_word va) ws) <= lenN ws.
  Proof.
    induction ws as [|w ws IH]; [unfold lenN; cbn [flat_map length]; lia|]. cbn [flat_map]. rewrite lenN_app, lenN_cons.
    pose proof (decode_word_len va w). lia.
  Qed.
  Lemma flat_spec_len : forall bs, lenN (flat_spec bs) <= total_words bs.
  Proof.
    induction bs as [|b bs IH]; [unfold flat_spec, lenN; cbn [flat_map length total_words fold_right]; lia|]. unfold flat_spec in *. cbn [flat_map total_words fold_right]. fold (total_words bs).
    rewrite lenN_app. pose proof (flat_words_len (b_va b) (b_words b)). lia.
  Qed.

  (* IterBlocks / fold: at most len/2 words are decoded in total and at most that many (rva, type) pairs come out *)
  Theorem fold_bounded data : lenN data + 3 < W64 ->
    exists bs flat, blocks data = Ok bs /\ fold_pairs data = Ok flat /\
      8 * lenN bs + 2 * total_words bs <= lenN data /\ lenN flat <= total_words bs /\ 2 * lenN flat <= lenN data.
  Proof.
    intros H. destruct (blocks_partition data H) as [bs [Hb Hc]].
    destruct (fold_is_flat data H) as [bs' [Hb' Hf]]. rewrite Hb in Hb'. injection Hb' as <-.
    exists bs, (flat_spec bs). split; [exact Hb|]. split; [exact Hf|].
    pose proof (chainb_words data bs 0 Hc). pose proof (flat_spec_len bs). repeat split; lia.
  Qed.
End RelocCount.
