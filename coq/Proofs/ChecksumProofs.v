(* C07(6): pelite's dword-wise checksum fold equals the standard 16-bit
   one's-complement PE checksum.  Technique: both accumulators are the canonical
   one's-complement representative (mod 2^32-1, resp. 2^16-1) of the true unbounded
   sum; 65535 divides 2^32-1; canonical representatives are unique. *)
From PV.Model Require Import Machine Mapping Headers.
From PV.gen Require Import Layout.
From PV.Spec Require Import HeaderSpec.
Ltac Zify.zify_post_hook ::= Z.div_mod_to_equations.

Definition rep (M c S : N) : Prop := c <= M /\ (S = 0 -> c = 0) /\ (0 < S -> 0 < c /\ c mod M = S mod M).

Lemma rep_step32 acc S dw : dw < 4294967296 -> rep 4294967295 acc S -> rep 4294967295 (step32 acc dw) (S + dw).
Proof.
  intros Hd [H1 [H2 H3]]. unfold rep, step32. cbv zeta.
  destruct (N.eq_dec S 0) as [HS|HS].
  - rewrite (H2 HS). subst S. destruct (4294967295 <? 0 mod 4294967296 + dw + 0 / 4294967296) eqn:E; repeat split; lia.
  - destruct (H3 ltac:(lia)) as [H4 H5].
    destruct (4294967295 <? acc mod 4294967296 + dw + acc / 4294967296) eqn:E; repeat split; lia.
Qed.
Lemma rep_step16 acc S w : w < 65536 -> rep 65535 acc S -> rep 65535 (step16 acc w) (S + w).
Proof.
  intros Hd [H1 [H2 H3]]. unfold rep, step16. cbv zeta.
  destruct (N.eq_dec S 0) as [HS|HS].
  - rewrite (H2 HS). subst S. repeat split; lia.
  - destruct (H3 ltac:(lia)) as [H4 H5]. repeat split; lia.
Qed.
Lemma rep_fin16 acc S : rep 4294967295 acc S -> rep 65535 (fin16 acc) S.
Proof.
  intros [H1 [H2 H3]]. unfold rep, fin16. cbv zeta.
  destruct (N.eq_dec S 0) as [HS|HS].
  - rewrite (H2 HS). subst S. repeat split; lia.
  - destruct (H3 ltac:(lia)) as [H4 H5]. repeat split; lia.
Qed.
Lemma rep_unique a b S T : rep 65535 a S -> rep 65535 b T -> S mod 65535 = T mod 65535 -> (S = 0 <-> T = 0) -> a = b.
Proof.
  intros [A1 [A2 A3]] [B1 [B2 B3]] Hm Hz.
  destruct (N.eq_dec S 0) as [HS|HS].
  - rewrite (A2 HS), (B2 (proj1 Hz HS)). reflexivity.
  - assert (HT : T <> 0) by tauto. destruct (A3 ltac:(lia)) as [A4 A5]. destruct (B3 ltac:(lia)) as [B4 B5]. lia.
Qed.

(* the two accumulators represent congruent sums *)
Definition related (a32 a16 : N) : Prop :=
  exists S T, rep 4294967295 a32 S /\ rep 65535 a16 T /\ S mod 65535 = T mod 65535 /\ (S = 0 <-> T = 0).

Lemma related_finish a32 a16 : related a32 a16 -> fin16 a32 = a16.
Proof. intros [S [T [H1 [H2 [H3 H4]]]]]. eapply rep_unique; [apply rep_fin16; exact H1|exact H2|exact H3|exact H4]. Qed.

Lemma related_0 : related 0 0.
Proof. exists 0, 0. unfold rep. repeat split; lia. Qed.

Lemma related_step a32 a16 dw w0 w1 : related a32 a16 -> w0 < 65536 -> w1 < 65536 -> dw = w0 + 65536 * w1 ->
  related (step32 a32 dw) (step16 (step16 a16 w0) w1).
Proof.
  intros [S [T [H1 [H2 [H3 H4]]]]] Hw0 Hw1 ->. exists (S + (w0 + 65536 * w1)), (T + w0 + w1).
  split; [apply rep_step32; [lia|exact H1]|]. split; [apply rep_step16; [exact Hw1|apply rep_step16; [exact Hw0|exact H2]]|].
  split; lia.
Qed.

Lemma step16_0 x : x <= 65535 -> step16 x 0 = x.
Proof. intros H. unfold step16. cbv zeta. lia. Qed.
Lemma step16_le acc w : acc <= 65535 -> w < 65536 -> step16 acc w <= 65535.
Proof. intros H1 H2. unfold step16. cbv zeta. lia. Qed.

Section WithMem.
  Variable m : mem.
  Hypothesis Hok : mem_ok m.

  Lemma word_at_lt k : word_at m k < 65536.
  Proof. unfold word_at. pose proof (Hok (2 * k)). pose proof (Hok (2 * k + 1)). destruct (2 * k <? m_len m); destruct (2 * k + 1 <? m_len m); lia. Qed.

  Lemma dword_words i : 4 * i + 4 <= m_len m -> rd32 m (4 * i) = word_at m (2 * i) + 65536 * word_at m (2 * i + 1).
  Proof.
    intros H. unfold rd32, rd16, word_at.
    replace (2 * (2 * i)) with (4 * i) by lia. replace (2 * (2 * i + 1)) with (4 * i + 2) by lia.
    destruct (4 * i <? m_len m) eqn:E1; [|lia]. destruct (4 * i + 1 <? m_len m) eqn:E2; [|lia].
    destruct (4 * i + 2 <? m_len m) eqn:E3; [|lia]. destruct (4 * i + 2 + 1 <? m_len m) eqn:E4; [|lia].
    reflexivity.
  Qed.

  (* one dword of the model loop = two words of the spec loop *)
  Lemma loops_related skip : forall n i a32 a16, related a32 a16 -> 4 * (i + N.of_nat n) <= m_len m ->
    related (sum_dwords m skip i n a32) (sum_words m (2 * skip) (2 * i) (2 * n) a16).
  Proof.
    induction n as [|n IH]; intros i a32 a16 Hr Hlen; [exact Hr|].
    replace (2 * S n)%nat with (S (S (2 * n))) by lia. cbn [sum_dwords sum_words].
    replace (2 * i + 1 + 1) with (2 * (i + 1)) by lia. apply IH; [|lia].
    destruct (i =? skip) eqn:E.
    - assert (E1 : ((2 * i =? 2 * skip) || (2 * i =? 2 * skip + 1)) = true) by lia.
      assert (E2 : ((2 * i + 1 =? 2 * skip) || (2 * i + 1 =? 2 * skip + 1)) = true) by lia.
      rewrite E1, E2. exact Hr.
    - assert (E1 : ((2 * i =? 2 * skip) || (2 * i =? 2 * skip + 1)) = false) by lia.
      assert (E2 : ((2 * i + 1 =? 2 * skip) || (2 * i + 1 =? 2 * skip + 1)) = false) by lia.
      rewrite E1, E2. apply related_step; [exact Hr|apply word_at_lt|apply word_at_lt|]. apply dword_words. lia.
  Qed.

  (* splitting the spec's word loop *)
  Lemma sum_words_app skip : forall n1 n2 k acc,
    sum_words m skip k (n1 + n2) acc = sum_words m skip (k + N.of_nat n1) n2 (sum_words m skip k n1 acc).
  Proof.
    induction n1 as [|n1 IH]; intros n2 k acc; cbn [plus sum_words]; [f_equal; lia|].
    rewrite IH. f_equal. lia.
  Qed.

  Lemma tail_related a32 a16 skip : related a32 a16 -> m_len m mod 4 <> 0 -> 2 * skip + 1 < 2 * (m_len m / 4) ->
    related (step32 a32 (tail_dword m))
            (sum_words m (2 * skip) (2 * (m_len m / 4)) (N.to_nat ((m_len m + 1) / 2) - 2 * N.to_nat (m_len m / 4)) a16).
  Proof.
    intros Hr Hm Hs. set (q := m_len m / 4) in *.
    assert (Hw0 : word_at m (2 * q) < 65536) by apply word_at_lt.
    assert (Hw1 : word_at m (2 * q + 1) < 65536) by apply word_at_lt.
    assert (Hd : tail_dword m = word_at m (2 * q) + 65536 * word_at m (2 * q + 1)).
    { unfold tail_dword, word_at, rd8. fold q.
      replace (2 * (2 * q)) with (q * 4) by lia. replace (2 * (2 * q + 1)) with (q * 4 + 2) by lia.
      pose proof (Hok (q * 4)). pose proof (Hok (q * 4 + 1)). pose proof (Hok (q * 4 + 2)).
      destruct (0 <? m_len m mod 4) eqn:E0; destruct (1 <? m_len m mod 4) eqn:E1; destruct (2 <? m_len m mod 4) eqn:E2;
      destruct (q * 4 <? m_len m) eqn:F0; destruct (q * 4 + 1 <? m_len m) eqn:F1; destruct (q * 4 + 2 <? m_len m) eqn:F2;
      destruct (q * 4 + 2 + 1 <? m_len m) eqn:F3; unfold q in *; lia. }
    assert (Hcnt : (N.to_nat ((m_len m + 1) / 2) - 2 * N.to_nat q = 1 \/ N.to_nat ((m_len m + 1) / 2) - 2 * N.to_nat q = 2)%nat) by (unfold q; lia).
    assert (E1 : ((2 * q =? 2 * skip) || (2 * q =? 2 * skip + 1)) = false) by lia.
    assert (E2 : ((2 * q + 1 =? 2 * skip) || (2 * q + 1 =? 2 * skip + 1)) = false) by lia.
    destruct Hcnt as [Hc|Hc]; rewrite Hc; cbn [sum_words]; rewrite E1, ?E2.
    - (* one trailing word: the second one is zero *)
      assert (Hz : word_at m (2 * q + 1) = 0).
      { unfold word_at. destruct (2 * (2 * q + 1) <? m_len m) eqn:F0; [unfold q in *; lia|].
        destruct (2 * (2 * q + 1) + 1 <? m_len m) eqn:F1; [unfold q in *; lia|]. reflexivity. }
      pose proof (related_step a32 a16 (tail_dword m) (word_at m (2 * q)) (word_at m (2 * q + 1)) Hr Hw0 Hw1 Hd) as L.
      rewrite Hz in L. rewrite step16_0 in L; [exact L|].
      apply step16_le; [|exact Hw0]. destruct Hr as [S0 [T0 [_ [[R1 _] _]]]]. exact R1.
    - apply related_step; assumption.
  Qed.
End WithMem.

Theorem check_sum_correct f m : mem_ok m -> (f = fmt32 \/ f = fmt64) ->
  e_lfanew m mod 4 = 0 -> e_lfanew m + f_nt_size f <= m_len m ->
  check_sum f m = pe_checksum (f_64 f) m.
Proof.
  intros Hok Hf He Hnt. unfold check_sum, pe_checksum. f_equal. f_equal.
  set (skip := check_sum_pos f m).
  assert (Hskip : (s_e_lfanew m + OPT_OFF + CSUM_OFF) / 2 = 2 * skip /\ 4 * skip + 8 <= m_len m).
  { unfold skip, check_sum_pos, s_e_lfanew, e_lfanew, OPT_OFF, CSUM_OFF, E_LFANEW_OFF in *.
    destruct Hf as [-> | ->]; cbn [f_opt_off f_csum_off f_nt_size fmt32 fmt64] in *;
    unfold IMAGE_NT_HEADERS32_OptionalHeader_off, IMAGE_OPTIONAL_HEADER32_CheckSum_off, IMAGE_NT_HEADERS64_OptionalHeader_off,
           IMAGE_OPTIONAL_HEADER64_CheckSum_off, IMAGE_NT_HEADERS32_size, IMAGE_NT_HEADERS64_size, IMAGE_DOS_HEADER_e_lfanew_off in *; lia. }
  destruct Hskip as [Hs1 Hs2]. rewrite Hs1.
  set (q := m_len m / 4).
  assert (Hsplit : N.to_nat ((m_len m + 1) / 2) = (2 * N.to_nat q + (N.to_nat ((m_len m + 1) / 2) - 2 * N.to_nat q))%nat) by (unfold q; lia).
  rewrite Hsplit, sum_words_app.
  pose proof (loops_related m Hok skip (N.to_nat q) 0 0 0 related_0 ltac:(unfold q; lia)) as L.
  replace (2 * 0) with 0 in L by lia. replace (0 + N.of_nat (2 * N.to_nat q)) with (2 * q) by lia.
  destruct (m_len m mod 4 =? 0) eqn:E.
  - assert (Hz : (N.to_nat ((m_len m + 1) / 2) - 2 * N.to_nat q = 0)%nat) by (unfold q; lia).
    rewrite Hz. cbn [sum_words]. apply related_finish. exact L.
  - apply related_finish. apply (tail_related m Hok); [exact L|lia|unfold q; lia].
Qed.

(* F21, the code before the repair ignored the trailing len mod 4 bytes: two 6-byte
   buffers that differ in byte 4 get the same value, while their PE checksums differ. *)
Definition f21_m (b : N) : mem := {| m_addr := 0; m_len := 6; m_get := fun i => if i =? 4 then b else 0 |}.
Lemma check_sum_orig_refuted :
  check_sum_orig fmt32 (f21_m 1) = check_sum_orig fmt32 (f21_m 2) /\
  pe_checksum false (f21_m 1) <> pe_checksum false (f21_m 2).
Proof. split; [vm_compute; reflexivity|vm_compute; discriminate]. Qed.
