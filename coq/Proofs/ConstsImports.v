(* The constants the model of imports uses equal the named constants of the source, regenerated into gen/Consts.v (and
   gen/Layout.v) on every run.  One file per module, so that a changed constant breaks only the property that depends on it. *)
From PV.Model Require Import Machine.
From PV.gen Require Import Consts.
From PV.Model Require Imports.
From PV.Model Require Import Headers.

Lemma imports_consts : forall p,
  Imports.ordinal_flag p = if f_64 (Imports.p_f p) then K_IMAGE_ORDINAL_FLAG64 else K_IMAGE_ORDINAL_FLAG32.
Proof. intros p. reflexivity. Qed.
