(* Proofs about Model/Json.v: the parser inverts the printer on every JSON value
   (hence the printer is injective and everything it prints is well formed). *)
From PV.Model Require Import Machine Json.
From PV.Proofs Require Import BaseProofs.
Ltac Zify.zify_post_hook ::= Z.div_mod_to_equations.

(* evaluate comparisons between closed numbers *)
Ltac nev :=
  repeat match goal with
  | |- context [N.eqb ?a ?b] => let r := eval vm_compute in (N.eqb a b) in first [constr_eq r true | constr_eq r false]; change (N.eqb a b) with r
  | |- context [N.ltb ?a ?b] => let r := eval vm_compute in (N.ltb a b) in first [constr_eq r true | constr_eq r false]; change (N.ltb a b) with r
  | |- context [N.leb ?a ?b] => let r := eval vm_compute in (N.leb a b) in first [constr_eq r true | constr_eq r false]; change (N.leb a b) with r
  end; cbn [andb orb negb].

(* ------------------------------------------------------------------ induction over nested lists *)
Section JsonInd.
  Variable P : json -> Prop.
  Hypothesis Hnull : P JNull.
  Hypothesis Hbool : forall b, P (JBool b).
  Hypothesis Hnum : forall n, P (JNum n).
  Hypothesis Hstr : forall s, P (JStr s).
  Hypothesis Harr : forall l, Forall P l -> P (JArr l).
  Hypothesis Hobj : forall l, Forall (fun kv => P (snd kv)) l -> P (JObj l).
  Fixpoint json_ind' (j : json) : P j :=
    match j with
    | JNull => Hnull
    | JBool b => Hbool b
    | JNum n => Hnum n
    | JStr s => Hstr s
    | JArr l => Harr l ((fix go (l : list json) : Forall P l :=
                           match l with [] => Forall_nil _ | x :: t => Forall_cons x (json_ind' x) (go t) end) l)
    | JObj l => Hobj l ((fix go (l : list (list N * json)) : Forall (fun kv => P (snd kv)) l :=
                           match l with
                           | [] => Forall_nil _
                           | (k, v) :: t => Forall_cons (k, v) (json_ind' v) (go t)
                           end) l)
    end.
End JsonInd.

(* ------------------------------------------------------------------ numbers *)
Lemma dvalue_app l d : dvalue (l ++ [d]) = 10 * dvalue l + (d - 48).
Proof. unfold dvalue. rewrite fold_left_app. reflexivity. Qed.

Lemma pow2_succ k : 2 ^ N.of_nat (S k) = 2 * 2 ^ N.of_nat k.
Proof. rewrite Nat2N.inj_succ, N.pow_succ_r'. reflexivity. Qed.

Lemma dec_value : forall fuel n, n < 2 ^ N.of_nat fuel -> dvalue (dec fuel n) = n.
Proof.
  induction fuel as [|k IH]; intros n H.
  - cbn [dec]. change (2 ^ N.of_nat 0) with 1 in H. unfold dvalue. cbn [fold_left]. lia.
  - cbn [dec]. destruct (n <? 10) eqn:E.
    + unfold dvalue. cbn [fold_left]. lia.
    + rewrite dvalue_app, IH; [lia|]. rewrite pow2_succ in H. lia.
Qed.

Lemma dec_digits : forall fuel n, Forall (fun c => is_digit c = true) (dec fuel n).
Proof.
  induction fuel as [|k IH]; intros n; cbn [dec]; [constructor|].
  destruct (n <? 10) eqn:E.
  - constructor; [unfold is_digit; lia|constructor].
  - apply Forall_app. split; [apply IH|]. constructor; [unfold is_digit; lia|constructor].
Qed.

Lemma dec_head : forall fuel n, n < 2 ^ N.of_nat fuel -> 0 < n -> exists d ds, dec fuel n = d :: ds /\ d <> 48.
Proof.
  induction fuel as [|k IH]; intros n H Hp.
  - change (2 ^ N.of_nat 0) with 1 in H. lia.
  - cbn [dec]. destruct (n <? 10) eqn:E.
    + exists (48 + n), []. split; [reflexivity|lia].
    + rewrite pow2_succ in H. destruct (IH (n / 10)) as (d & ds & E1 & E2); [lia|lia|].
      rewrite E1. exists d, (ds ++ [48 + n mod 10]). split; [reflexivity|exact E2].
Qed.

Lemma print_num_fuel n : n < 2 ^ N.of_nat (S (N.to_nat (N.size n))).
Proof.
  rewrite pow2_succ, N2Nat.id. pose proof (N.size_gt n). lia.
Qed.

Lemma print_num_cons n : exists d ds, print_num n = d :: ds /\ is_digit d = true.
Proof.
  pose proof (dec_digits (S (N.to_nat (N.size n))) n) as F. unfold print_num.
  destruct (dec (S (N.to_nat (N.size n))) n) as [|d ds] eqn:E.
  - exfalso. cbn [dec] in E. destruct (n <? 10); [discriminate|]. destruct (dec (N.to_nat (N.size n)) (n / 10)); discriminate.
  - exists d, ds. split; [reflexivity|]. inversion F; assumption.
Qed.

Definition nondigit_head (rest : list N) : Prop := match rest with [] => True | c :: _ => is_digit c = false end.

Lemma take_digits_app ds rest : Forall (fun c => is_digit c = true) ds -> nondigit_head rest ->
  take_digits (ds ++ rest) = (ds, rest).
Proof.
  intros F H. induction F as [|c ds Hc _ IH]; cbn [app take_digits].
  - destruct rest as [|c r]; cbn [take_digits]; [reflexivity|]. cbn [nondigit_head] in H. rewrite H. reflexivity.
  - rewrite Hc, IH. reflexivity.
Qed.

Lemma parse_num_print n rest : nondigit_head rest -> parse_num (print_num n ++ rest) = Some (n, rest).
Proof.
  intros H. unfold parse_num. rewrite take_digits_app; [|apply dec_digits|exact H].
  destruct (N.eq_dec n 0) as [->|Hn].
  - reflexivity.
  - destruct (dec_head _ n (print_num_fuel n)) as (d & ds & E & Hd); [lia|].
    pose proof (dec_value _ n (print_num_fuel n)) as V. unfold print_num. rewrite E in *.
    destruct (d =? 48) eqn:E48; [apply N.eqb_eq in E48; contradiction|]. cbn [andb]. rewrite V. reflexivity.
Qed.

(* ------------------------------------------------------------------ strings *)
Lemma hexv_hexd d : d < 16 -> hexv (hexd d) = Some d.
Proof.
  intros H.
  assert (C : d = 0 \/ d = 1 \/ d = 2 \/ d = 3 \/ d = 4 \/ d = 5 \/ d = 6 \/ d = 7 \/ d = 8 \/ d = 9 \/ d = 10
              \/ d = 11 \/ d = 12 \/ d = 13 \/ d = 14 \/ d = 15) by lia.
  repeat (destruct C as [->|C]; [reflexivity|]). subst d. reflexivity.
Qed.

Lemma psb_u00 hi lo t : hi < 16 -> lo < 16 ->
  parse_str_body (92 :: 117 :: 48 :: 48 :: hexd hi :: hexd lo :: t) =
  match parse_str_body t with Some (r, rest) => Some (utf8_enc (16 * hi + lo) ++ r, rest) | None => None end.
Proof.
  intros H1 H2. cbn [parse_str_body]. nev. rewrite (hexv_hexd hi H1), (hexv_hexd lo H2).
  change (hexv 48) with (Some 0). cbv iota beta.
  replace (4096 * 0 + 256 * 0 + 16 * hi + lo) with (16 * hi + lo) by lia. reflexivity.
Qed.

Lemma psb_esc e b t : e <> 117 -> unesc e = Some b ->
  parse_str_body (92 :: e :: t) = match parse_str_body t with Some (r, rest) => Some (b :: r, rest) | None => None end.
Proof.
  intros H1 H2. cbn [parse_str_body]. nev. destruct (e =? 117) eqn:E; [apply N.eqb_eq in E; contradiction|].
  rewrite H2. reflexivity.
Qed.

Lemma psb_raw c t : c <> 34 -> c <> 92 -> 32 <= c ->
  parse_str_body (c :: t) = match parse_str_body t with Some (r, rest) => Some (c :: r, rest) | None => None end.
Proof.
  intros H1 H2 H3. cbn [parse_str_body].
  destruct (c =? 34) eqn:E1; [apply N.eqb_eq in E1; contradiction|].
  destruct (c =? 92) eqn:E2; [apply N.eqb_eq in E2; contradiction|].
  destruct (c <? 32) eqn:E3; [lia|]. reflexivity.
Qed.

Lemma parse_str_body_print s : forall rest, parse_str_body (flat_map esc_byte s ++ 34 :: rest) = Some (s, rest).
Proof.
  induction s as [|b s IH]; intros rest.
  - cbn [flat_map app parse_str_body]. nev. reflexivity.
  - cbn [flat_map]. rewrite <- app_assoc. unfold esc_byte.
    destruct (b =? 34) eqn:E1; [apply N.eqb_eq in E1; subst b; cbn [app]; rewrite psb_esc with (b := 34), IH; [reflexivity|lia|reflexivity]|].
    destruct (b =? 92) eqn:E2; [apply N.eqb_eq in E2; subst b; cbn [app]; rewrite psb_esc with (b := 92), IH; [reflexivity|lia|reflexivity]|].
    destruct (b =? 8) eqn:E3; [apply N.eqb_eq in E3; subst b; cbn [app]; rewrite psb_esc with (b := 8), IH; [reflexivity|lia|reflexivity]|].
    destruct (b =? 12) eqn:E4; [apply N.eqb_eq in E4; subst b; cbn [app]; rewrite psb_esc with (b := 12), IH; [reflexivity|lia|reflexivity]|].
    destruct (b =? 10) eqn:E5; [apply N.eqb_eq in E5; subst b; cbn [app]; rewrite psb_esc with (b := 10), IH; [reflexivity|lia|reflexivity]|].
    destruct (b =? 13) eqn:E6; [apply N.eqb_eq in E6; subst b; cbn [app]; rewrite psb_esc with (b := 13), IH; [reflexivity|lia|reflexivity]|].
    destruct (b =? 9) eqn:E7; [apply N.eqb_eq in E7; subst b; cbn [app]; rewrite psb_esc with (b := 9), IH; [reflexivity|lia|reflexivity]|].
    destruct (b <? 32) eqn:E8.
    + cbn [app]. rewrite psb_u00, IH by lia.
      replace (16 * (b / 16) + b mod 16) with b by lia. unfold utf8_enc.
      destruct (b <? 128) eqn:E9; [reflexivity|lia].
    + cbn [app]. rewrite psb_raw, IH by lia. reflexivity.
Qed.

Lemma parse_str_print s rest : parse_str (print_str s ++ rest) = Some (s, rest).
Proof.
  unfold parse_str, print_str. cbn [app]. nev. rewrite <- app_assoc. cbn [app]. apply parse_str_body_print.
Qed.

(* ------------------------------------------------------------------ values *)
Fixpoint jsize (j : json) : nat :=
  match j with
  | JArr l => S (fold_right (fun e a => S (jsize e) + a)%nat 0%nat l)
  | JObj l => S (fold_right (fun kv a => match kv with (_, v) => S (jsize v) + a end)%nat 0%nat l)
  | _ => 1%nat
  end.
Definition esize (l : list json) : nat := fold_right (fun e a => S (jsize e) + a)%nat 0%nat l.
Definition msize (l : list (list N * json)) : nat :=
  fold_right (fun kv a => match kv with (_, v) => S (jsize v) + a end)%nat 0%nat l.
Definition pmember (kv : list N * json) : list N := match kv with (k, v) => print_str k ++ 58 :: print_json v end.

(* the first byte of a printed value decides the branch of the parser *)
Definition head_class (c : N) : Prop :=
  c = 110 \/ c = 116 \/ c = 102 \/ c = 34 \/ c = 91 \/ c = 123 \/ is_digit c = true.
Lemma print_head j : exists c t, print_json j = c :: t /\ head_class c.
Proof.
  unfold head_class. destruct j as [|[]|n|s|l|l]; cbn [print_json lit_null lit_true lit_false print_str].
  - exists 110, [117; 108; 108]. tauto.
  - exists 116, [114; 117; 101]. tauto.
  - exists 102, [97; 108; 115; 101]. tauto.
  - destruct (print_num_cons n) as (d & ds & E & Hd). rewrite E. exists d, ds. tauto.
  - eexists _, _. split; [reflexivity|tauto].
  - eexists _, _. split; [reflexivity|tauto].
  - eexists _, _. split; [reflexivity|tauto].
Qed.
Lemma head_class_not c : head_class c -> c <> 93 /\ c <> 125 /\ c <> 44.
Proof. unfold head_class, is_digit. intros H. lia. Qed.

Lemma print_sep_cons {A} (pr : A -> list N) x l :
  print_sep pr (x :: l) = match l with [] => pr x | _ => pr x ++ 44 :: print_sep pr l end.
Proof. destruct l; reflexivity. Qed.

Lemma parse_value_num k s d t : s = d :: t -> is_digit d = true ->
  parse_value (S k) s = match parse_num s with Some (n, r) => Some (JNum n, r) | None => None end.
Proof.
  intros -> H. unfold is_digit in H. cbn [parse_value].
  destruct (d =? 110) eqn:E1; [lia|]. destruct (d =? 116) eqn:E2; [lia|]. destruct (d =? 102) eqn:E3; [lia|].
  destruct (d =? 34) eqn:E4; [lia|]. destruct (d =? 91) eqn:E5; [lia|]. destruct (d =? 123) eqn:E6; [lia|]. reflexivity.
Qed.

Definition PV (j : json) : Prop := forall fuel rest, (jsize j <= fuel)%nat -> nondigit_head rest ->
  parse_value fuel (print_json j ++ rest) = Some (j, rest).

Lemma elems_ok l : Forall PV l -> l <> [] -> forall fuel rest, (esize l <= fuel)%nat ->
  parse_elems fuel (print_sep print_json l ++ 93 :: rest) = Some (l, rest).
Proof.
  induction 1 as [|e l He _ IH]; intros Hne fuel rest Hf; [contradiction|].
  unfold esize in Hf. cbn [fold_right] in Hf. fold (esize l) in Hf.
  destruct fuel as [|k]; [lia|]. rewrite print_sep_cons. destruct l as [|e2 l2].
  - cbn [parse_elems]. rewrite He; [|lia|reflexivity]. nev. reflexivity.
  - rewrite <- app_assoc. cbn [app parse_elems]. rewrite He; [|lia|reflexivity]. nev.
    rewrite IH; [reflexivity|discriminate|lia].
Qed.

Lemma members_ok l : Forall (fun kv => PV (snd kv)) l -> l <> [] -> forall fuel rest, (msize l <= fuel)%nat ->
  parse_members fuel (print_sep pmember l ++ 125 :: rest) = Some (l, rest).
Proof.
  induction 1 as [|[key v] l He _ IH]; intros Hne fuel rest Hf; [contradiction|].
  unfold msize in Hf. cbn [fold_right] in Hf. fold (msize l) in Hf. cbn [snd] in He.
  destruct fuel as [|k]; [lia|]. rewrite print_sep_cons. destruct l as [|e2 l2].
  - cbn [parse_members pmember]. rewrite <- app_assoc. rewrite parse_str_print. cbn [app]. nev.
    rewrite He; [|lia|reflexivity]. nev. reflexivity.
  - cbn [pmember]. rewrite <- !app_assoc. cbn [parse_members]. rewrite parse_str_print. cbn [app]. nev.
    rewrite He; [|lia|reflexivity]. nev.
    rewrite IH; [reflexivity|discriminate|lia].
Qed.

Lemma print_sep_head {A} (pr : A -> list N) x l : (exists c t, pr x = c :: t /\ c <> 93 /\ c <> 125) ->
  exists c t, print_sep pr (x :: l) = c :: t /\ c <> 93 /\ c <> 125.
Proof.
  intros (c & t & E & H). rewrite print_sep_cons. destruct l; rewrite E; cbn [app]; eauto.
Qed.

Theorem parse_value_print j : PV j.
Proof.
  induction j as [|b|n|s|l IH|l IH] using json_ind'; intros fuel rest Hf Hr;
    (destruct fuel as [|k]; [cbn [jsize] in Hf; lia|]).
  - cbn [print_json lit_null app parse_value strip_prefix]. nev. reflexivity.
  - destruct b; cbn [print_json lit_true lit_false app parse_value strip_prefix]; nev; reflexivity.
  - destruct (print_num_cons n) as (d & ds & E & Hd).
    rewrite (parse_value_num k (print_json (JNum n) ++ rest) d (ds ++ rest)); [|cbn [print_json]; rewrite E; reflexivity|exact Hd].
    cbn [print_json]. rewrite parse_num_print by exact Hr. reflexivity.
  - cbn [print_json print_str app parse_value]. nev. rewrite <- app_assoc. cbn [app].
    rewrite parse_str_body_print. reflexivity.
  - cbn [print_json]. cbn [jsize] in Hf. fold (esize l) in Hf. destruct l as [|e l'].
    + cbn [print_sep app parse_value]. nev. reflexivity.
    + destruct (print_sep_head print_json e l') as (c & t & E & H93 & _).
      { destruct (print_head e) as (c & t & E & Hc). apply head_class_not in Hc. exists c, t. tauto. }
      cbn [app]. rewrite <- (app_assoc (print_sep print_json (e :: l'))). cbn [app]. cbn [parse_value]. nev.
      rewrite E at 1. cbn [app]. destruct (c =? 93) eqn:E93; [apply N.eqb_eq in E93; contradiction|].
      rewrite elems_ok; [reflexivity|exact IH|discriminate|lia].
  - cbn [print_json]. cbn [jsize] in Hf. fold (msize l) in Hf. fold pmember. destruct l as [|e l'].
    + cbn [print_sep app parse_value]. nev. reflexivity.
    + destruct (print_sep_head pmember e l') as (c & t & E & _ & H125).
      { destruct e as [key v]. exists 34, (flat_map esc_byte key ++ [34] ++ 58 :: print_json v).
        split; [cbn [pmember print_str app]; rewrite <- app_assoc; reflexivity|lia]. }
      cbn [app]. rewrite <- (app_assoc (print_sep pmember (e :: l'))). cbn [app]. cbn [parse_value]. nev.
      rewrite E at 1. cbn [app]. destruct (c =? 125) eqn:E125; [apply N.eqb_eq in E125; contradiction|].
      rewrite members_ok; [reflexivity|exact IH|discriminate|lia].
Qed.

(* fuel: one unit per value / element / member suffices, and a printed value has at least that many bytes *)
Lemma esize_le l : Forall (fun e => (jsize e <= length (print_json e))%nat) l ->
  (esize l <= length (print_sep print_json l) + 1)%nat.
Proof.
  induction 1 as [|e l He _ IH]; [cbn; lia|].
  unfold esize. cbn [fold_right]. fold (esize l). rewrite print_sep_cons. destruct l.
  - cbn [esize fold_right] in *. lia.
  - rewrite app_length. cbn [length]. lia.
Qed.
Lemma msize_le l : Forall (fun kv => (jsize (snd kv) <= length (print_json (snd kv)))%nat) l ->
  (msize l <= length (print_sep pmember l) + 1)%nat.
Proof.
  induction 1 as [|[key v] l He _ IH]; [cbn; lia|]. cbn [snd] in He.
  unfold msize. cbn [fold_right]. fold (msize l). rewrite print_sep_cons.
  assert (L : (length (pmember (key, v)) >= 3 + length (print_json v))%nat).
  { cbn [pmember]. rewrite app_length. unfold print_str. cbn [length]. rewrite app_length. cbn [length]. lia. }
  destruct l.
  - cbn [msize fold_right] in *. lia.
  - rewrite app_length. cbn [length]. lia.
Qed.
Lemma jsize_le j : (jsize j <= length (print_json j))%nat.
Proof.
  induction j as [|b|n|s|l IH|l IH] using json_ind'.
  - cbn. lia.
  - destruct b; cbn; lia.
  - destruct (print_num_cons n) as (d & ds & E & _). cbn [print_json jsize]. rewrite E. cbn [length]. lia.
  - cbn [print_json jsize print_str length]. lia.
  - cbn [print_json jsize]. fold (esize l). cbn [length]. rewrite app_length. cbn [length].
    pose proof (esize_le l IH). lia.
  - cbn [print_json jsize]. fold (msize l). fold pmember. cbn [length]. rewrite app_length. cbn [length].
    pose proof (msize_le l IH). lia.
Qed.

(* the parser inverts the printer *)
Theorem parse_print j : parse_json (print_json j) = Some j.
Proof.
  unfold parse_json. pose proof (parse_value_print j (S (length (print_json j))) []) as H.
  rewrite app_nil_r in H. rewrite H; [reflexivity|pose proof (jsize_le j); lia|exact I].
Qed.
Theorem print_well_formed j : well_formed (print_json j) = true.
Proof. unfold well_formed. rewrite parse_print. reflexivity. Qed.
Theorem print_json_inj a b : print_json a = print_json b -> a = b.
Proof. intros H. pose proof (parse_print a) as A. rewrite H, parse_print in A. congruence. Qed.

(* the validator does reject: a few ill-formed texts *)
Lemma well_formed_rejects :
  well_formed [123; 34; 97; 34; 58; 125] = false /\            (* {"a":} *)
  well_formed [91; 49; 44; 93] = false /\                      (* [1,] *)
  well_formed [48; 49] = false /\                              (* 01 *)
  well_formed [34; 10; 34] = false /\                          (* a raw line feed inside a string *)
  well_formed [34; 92; 120; 34] = false /\                     (* the escape \x *)
  well_formed [91; 49; 93; 93] = false /\                      (* [1]] *)
  well_formed [123; 34; 97; 34; 58; 91; 49; 44; 123; 125; 93; 125] = true.   (* {"a":[1,{}]} *)
Proof. vm_compute. repeat split; reflexivity. Qed.
