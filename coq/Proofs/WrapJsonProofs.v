(* Proofs for the JSON model (Model/WrapJson.v): the serialization of an accepted image succeeds
   (no accessor or iterator inside it panics), the text it prints is well formed and denotes the
   model's tree, every member of that tree is the value of the model accessor it is built from,
   and an `.ok()` member is null exactly when its accessor returns an error. *)
From Coq Require Import Strings.String.
From PV.Model Require Import JsonStr.
From PV.Model Require Import Machine Mapping Views Headers Wrap WrapDirs Json WrapStrTab WrapJson.
From PV.Model Require Exports Imports Dirs Relocs Rich CStrFmt.
From PV.gen Require Import Layout.
From PV.Spec Require Import HeaderSpec WrapSpec.
From PV.Proofs Require Import BaseProofs HeadersProofs WrapProofs WrapDirsProofs JsonProofs.
From PV.Proofs Require ExportsProofs ImportsProofs DirsProofs RelocsProofs RichProofs CStrFmtProofs.
Ltac Zify.zify_post_hook ::= Z.div_mod_to_equations.

(* ------------------------------------------------------------------ totality: plumbing *)
Definition tot {A} (r : res A) : Prop := exists a, r = Ok a.

Lemma tot_ok {A} (a : A) : tot (Ok a).
Proof. exists a. reflexivity. Qed.
Lemma tot_bind {A B} (r : res A) (k : A -> res B) : tot r -> (forall a, r = Ok a -> tot (k a)) -> tot (bind r k).
Proof. intros [a ->] H. cbn [bind]. apply H. reflexivity. Qed.
Lemma tot_ok_ {A} (r : res A) : no_fault r -> tot (ok_ r).
Proof. intros NF. destruct r as [a|e|x]; cbn [ok_]; [apply tot_ok|apply tot_ok|exfalso; exact (NF x eq_refl)]. Qed.
Lemma ok_inv {A} (r : res A) o : ok_ r = Ok o ->
  match o with Some a => r = Ok a | None => exists e, r = Err e end.
Proof. destruct r as [a|e|x]; cbn [ok_]; intros H; [injection H as <-; reflexivity|injection H as <-; eauto|discriminate]. Qed.
Lemma tot_jopt_res {A} (to : A -> res json) o : (forall x, o = Some x -> tot (to x)) -> tot (jopt_res to o).
Proof. destruct o as [x|]; cbn [jopt_res]; intros H; [apply H; reflexivity|apply tot_ok]. Qed.
Lemma tot_map_res {A B} (g : A -> res B) l : (forall x, In x l -> tot (g x)) -> tot (map_res g l).
Proof.
  induction l as [|x l IH]; intros H; cbn [map_res]; [apply tot_ok|].
  apply tot_bind; [apply H; left; reflexivity|intros y _].
  apply tot_bind; [apply IH; intros z Hz; apply H; right; exact Hz|intros ys _; apply tot_ok].
Qed.
Lemma tot_jcstr bytes : tot (jcstr bytes).
Proof.
  unfold jcstr. destruct (CStrFmtProofs.cstr_display_total bytes) as (out & E & _). rewrite E. cbn [bind]. apply tot_ok.
Qed.
Lemma no_fault_of_neq {A} (r : res A) : (forall x, r <> Fault x) -> no_fault r.
Proof. intros H x. apply H. Qed.

(* ------------------------------------------------------------------ headers, rich structure *)
Lemma json_details_total f m : tot (json_details f m).
Proof. unfold json_details. rewrite details_eq_accessor. cbn [bind]. apply tot_ok. Qed.
Lemma json_headers_total f m : tot (json_headers f m).
Proof. unfold json_headers. apply tot_bind; [apply json_details_total|intros d _; apply tot_ok]. Qed.

Lemma json_rich_total m : tot (json_rich m).
Proof.
  unfold json_rich. apply tot_bind; [|intros o _; apply tot_ok].
  apply tot_ok_. intros x. apply RichProofs.try_from_no_fault.
Qed.

(* ------------------------------------------------------------------ exports *)
Lemma json_export_names_total l : Forall (fun p => no_fault (fst p)) l -> tot (json_export_names l).
Proof.
  induction 1 as [|[rn ix] l Hn _ IH]; cbn [json_export_names]; [apply tot_ok|]. cbn [fst] in Hn.
  destruct rn as [s|e|x]; [|exact IH|exfalso; exact (Hn x eq_refl)].
  destruct (utf8_valid s); [|exact IH]. apply tot_bind; [exact IH|intros r _; apply tot_ok].
Qed.

Lemma view_by_split f file m x t :
  acc_exports_x f file m = Ok x -> acc_exports_by f file m x = Ok t -> op_exports_by f file m = Ok t.
Proof.
  unfold acc_exports_x, acc_exports_by, op_exports_by, Exports.view_by, Exports.exports_by. intros -> H. cbn [bind]. exact H.
Qed.

Lemma json_exports_total f file m : mem_ok m -> tot (json_exports f file m).
Proof.
  intros Hm. unfold json_exports.
  assert (Hsl : forall a n al, no_fault (slice (pe_view f file m) a n al)) by (intros; apply slice_no_fault).
  apply tot_bind.
  { apply tot_ok_. unfold acc_exports_x, Exports.try_from. destruct (dd_of f m IMAGE_DIRECTORY_ENTRY_EXPORT) as [[va sz]|]; [|intros y; discriminate].
    apply bind_no_fault; [apply ExportsProofs.rd_no_fault; exact Hsl|intros r y; discriminate]. }
  intros ox Hox. apply tot_jopt_res. intros x ->. apply ok_inv in Hox.
  assert (NFby : no_fault (acc_exports_by f file m x)).
  { pose proof (ExportsProofs.view_by_no_fault (pe_view f file m) (dd_of f m IMAGE_DIRECTORY_ENTRY_EXPORT)) as NF.
    unfold Exports.view_by, Exports.exports_by in NF. unfold acc_exports_x in Hox. rewrite Hox in NF. exact NF. }
  apply tot_bind; [apply tot_ok_; exact NFby|]. intros ot Hot. apply tot_jopt_res. intros t ->. apply ok_inv in Hot.
  pose proof (view_by_split f file m x t Hox Hot) as Hv.
  destruct (ExportsProofs.view_lookups_no_fault (pe_view f file m) _ t Hm Hv) as (_ & _ & _ & _ & _ & _ & _ & _ & _ & _ & _ & _ & Hni).
  unfold json_by. apply tot_bind.
  { apply tot_ok_. apply no_fault_of_neq. apply ExportsProofs.view_cstr_total. }
  intros dll _. apply tot_bind; [apply tot_jopt_res; intros b _; apply tot_jcstr|]. intros jdll _.
  apply tot_bind; [apply json_export_names_total; exact Hni|intros nm _; apply tot_ok].
Qed.

(* ------------------------------------------------------------------ imports *)
Lemma json_import_total get i : tot (json_import get i).
Proof.
  destruct i as [h name|o]; cbn [json_import]; [|apply tot_ok].
  apply tot_bind; [apply tot_jcstr|intros s _; apply tot_ok].
Qed.
Lemma json_int_total get l : Forall no_fault l -> tot (json_int get l).
Proof.
  induction 1 as [|r l Hr _ IH]; cbn [json_int]; [apply tot_ok|].
  destruct r as [i|e|x]; [|exact IH|exfalso; exact (Hr x eq_refl)].
  apply tot_bind; [apply json_import_total|intros j _]. apply tot_bind; [exact IH|intros rest _; apply tot_ok].
Qed.
Lemma json_desc_total p d : tot (json_desc p d).
Proof.
  destruct (ImportsProofs.tables_no_fault p d 0) as (_ & _ & Hdn & _ & Hint & _).
  unfold json_desc. apply tot_bind; [apply tot_ok_; exact Hdn|intros dn _].
  apply tot_bind; [apply tot_jopt_res; intros r _; apply tot_jcstr|intros jdn _].
  apply tot_bind; [apply tot_ok_; exact Hint|intros oi _].
  apply tot_bind; [|intros ji _; apply tot_ok].
  apply tot_jopt_res. intros r _. apply tot_bind; [|intros l _; apply tot_ok].
  apply json_int_total. unfold Imports.int_imports. apply Forall_forall. intros x Hx.
  apply in_map_iff in Hx as (va & <- & _). apply ImportsProofs.import_from_va_no_fault.
Qed.
Lemma json_imports_total f file m : tot (json_imports f file m).
Proof.
  unfold json_imports. destruct (ImportsProofs.tables_no_fault (pe_of f file m) {| Imports.d_oft := 0; Imports.d_tds := 0; Imports.d_fwd := 0; Imports.d_name := 0; Imports.d_ft := 0 |} 0) as (Hi & _).
  apply tot_bind; [apply tot_ok_; exact Hi|intros oi _].
  apply tot_jopt_res. intros r _. apply tot_bind; [|intros l _; apply tot_ok].
  apply tot_map_res. intros d _. apply json_desc_total.
Qed.

(* ------------------------------------------------------------------ base relocs *)
Lemma rd32_lt m o : mem_ok m -> rd32 m o < W32.
Proof.
  intros H. unfold rd32, rd16, W32. pose proof (H o). pose proof (H (o + 1)). pose proof (H (o + 2)). pose proof (H (o + 2 + 1)). lia.
Qed.
Lemma data_dir_lt f m i d : mem_ok m -> data_dir f m i = Some d -> fst d < W32 /\ snd d < W32.
Proof.
  intros Hm. unfold data_dir. destruct (i <? _); [|discriminate]. intros H. injection H as <-. cbn [fst snd].
  split; apply rd32_lt; exact Hm.
Qed.
Lemma acc_base_relocs_len f file m r : mem_ok m -> acc_base_relocs f file m = Ok r -> r_len r < W32.
Proof.
  intros Hm. unfold acc_base_relocs, dir_entry. destruct (data_dir f m IMAGE_DIRECTORY_ENTRY_BASERELOC) as [d|] eqn:E; cbn [bind]; [|discriminate].
  destruct (op_slice f file m (fst d) (snd d) 4) as [s|e|x]; cbn [bind]; try discriminate. intros H. injection H as <-. cbn [r_len].
  apply (data_dir_lt f m _ d Hm E).
Qed.
Lemma json_base_relocs_total f file m : mem_ok m -> tot (json_base_relocs f file m).
Proof.
  intros Hm. unfold json_base_relocs. destruct (accessors_no_fault f file m) as (_ & _ & _ & _ & Hb & _).
  apply tot_bind; [apply tot_ok_; exact Hb|intros orr Ho]. apply tot_jopt_res. intros r ->. apply ok_inv in Ho.
  pose proof (acc_base_relocs_len f file m r Hm Ho) as Hl.
  destruct (RelocsProofs.blocks_partition (rbytes (m_get m) r)) as (bs & E & _).
  { unfold rbytes. rewrite ExportsProofs.bytes_of_length. unfold W32, W64 in *. lia. }
  rewrite E. cbn [bind]. apply tot_ok.
Qed.
(* the pairs pushed by for_each: the model's flat_map is BaseRelocs::fold as Model/Relocs.v writes it *)
Lemma reloc_pairs_is_fold bs : reloc_pairs bs = fold_left Relocs.fold_block bs [].
Proof.
  assert (B : forall b acc, Relocs.fold_block acc b =
            acc ++ flat_map (fun w => if Relocs.type_of w =? 0 then [] else [(Relocs.rva_of (Relocs.b_va b) w, Relocs.type_of w)]) (Relocs.b_words b)).
  { intros b. unfold Relocs.fold_block. generalize (Relocs.b_words b) as ws. induction ws as [|w ws IH]; intros acc; cbn [fold_left flat_map].
    - rewrite app_nil_r. reflexivity.
    - rewrite IH. destruct (Relocs.type_of w =? 0); cbn [app]; [reflexivity|]. rewrite <- app_assoc. reflexivity. }
  assert (G : forall l acc, fold_left Relocs.fold_block l acc = acc ++ reloc_pairs l).
  { induction l as [|b l IH]; intros acc; cbn [fold_left]; [unfold reloc_pairs; cbn [flat_map]; rewrite app_nil_r; reflexivity|].
    rewrite IH, B. unfold reloc_pairs. cbn [flat_map]. rewrite <- app_assoc. reflexivity. }
  rewrite G. reflexivity.
Qed.

(* ------------------------------------------------------------------ debug *)
Lemma json_entry_total get e : tot (json_entry get e).
Proof.
  destruct e as [img name|img name|img|image|[r|]]; cbn [json_entry]; try apply tot_ok.
  - apply tot_bind; [apply tot_jcstr|intros n _; apply tot_ok].
  - apply tot_bind; [apply tot_jcstr|intros n _; apply tot_ok].
  - destruct (DirsProofs.pgo_iter_correct get image) as (items & E & _). rewrite E. cbn [bind].
    apply tot_bind; [|intros l _; apply tot_ok]. apply tot_map_res. intros it _. unfold json_pgo_item.
    apply tot_bind; [apply tot_jcstr|intros n _; apply tot_ok].
Qed.
Lemma json_dir_total v d : tot (json_dir v d).
Proof.
  unfold json_dir. apply tot_bind; [apply tot_ok_; apply DirsProofs.dir_entry_no_fault|intros oe _].
  apply tot_bind; [apply tot_jopt_res; intros e _; apply json_entry_total|intros je _; apply tot_ok].
Qed.
Lemma json_debug_total f file m : tot (json_debug f file m).
Proof.
  unfold json_debug. apply tot_bind; [apply tot_ok_; apply DirsProofs.debug_try_from_no_fault|intros od _].
  apply tot_jopt_res. intros r _. apply tot_bind; [|intros l _; apply tot_ok]. apply tot_map_res. intros d _. apply json_dir_total.
Qed.

(* ------------------------------------------------------------------ tls, load config, security *)
Lemma sl_total_slice v : DirsProofs.sl_total (slice v).
Proof. intros a n al x. apply DirsProofs.slice_no_fault. Qed.
Lemma sl_total_read v : DirsProofs.sl_total (read v).
Proof. intros a n al x. apply DirsProofs.read_no_fault. Qed.
Lemma va_size_pos v : 0 < Dirs.va_size v.
Proof. unfold Dirs.va_size. destruct (v_w v =? W32); lia. Qed.

Lemma json_tls_total f file m : tot (json_tls f file m).
Proof.
  unfold json_tls, op_tls. apply tot_bind.
  { apply tot_ok_. unfold Dirs.tls_try_from. destruct (dd_of f m IMAGE_DIRECTORY_ENTRY_TLS) as [[va sz]|]; [|intros x; discriminate].
    apply DirsProofs.rd_no_fault. apply sl_total_slice. }
  intros ot _. apply tot_jopt_res. intros t _.
  apply tot_bind.
  { apply tot_ok_. unfold Dirs.tls_raw_data. destruct (_ <? _); [intros x; discriminate|]. apply DirsProofs.rd_slice_no_fault. apply sl_total_read. }
  intros ord _. apply tot_bind; [|intros ocb _; apply tot_ok].
  apply tot_ok_. unfold Dirs.tls_callbacks. apply DirsProofs.rd_slice_s_no_fault; [apply sl_total_read|apply va_size_pos].
Qed.
Lemma json_load_config_total f file m : tot (json_load_config f file m).
Proof.
  unfold json_load_config, op_load_config. apply tot_bind.
  { apply tot_ok_. unfold Dirs.load_config_try_from. destruct (dd_of f m IMAGE_DIRECTORY_ENTRY_LOAD_CONFIG) as [[va sz]|]; [|intros x; discriminate].
    apply DirsProofs.rd_no_fault. apply sl_total_slice. }
  intros ol _. apply tot_jopt_res. intros t _.
  apply tot_bind; [apply tot_ok_; unfold Dirs.lc_security_cookie; apply DirsProofs.rd_no_fault; apply sl_total_read|intros oc _].
  apply tot_bind; [|intros os _; apply tot_ok].
  apply tot_ok_. unfold Dirs.lc_se_handler_table. apply DirsProofs.rd_slice_no_fault. apply sl_total_read.
Qed.

Lemma validate_aligned f m soi : validate f m = Ok soi -> m_addr m mod 4 = 0.
Proof.
  unfold validate. destruct (m_len m <? IMAGE_DOS_HEADER_size); [discriminate|].
  unfold aligned_to. destruct (m_addr m mod 4 =? 0) eqn:E; cbn [negb]; [intros _; lia|discriminate].
Qed.
(* Security::new asserts at least the 8 header bytes: certificate_data's unchecked slice is in bounds *)
Lemma security_len v dd r : Dirs.security_try_from v dd = Ok r -> 8 <= r_len r.
Proof.
  unfold Dirs.security_try_from. destruct (negb (v_file v)); [discriminate|]. destruct dd as [[va size]|]; [|discriminate].
  destruct (va =? 0); [discriminate|]. destruct (_ || _); [discriminate|]. destruct (size =? 0); [discriminate|].
  destruct (checked_add W64 va size); [|discriminate]. destruct (get_range (v_len v) va n) as [g|]; [|discriminate].
  unfold Dirs.security_new. destruct (negb _); [discriminate|]. destruct (r_len g <? 8) eqn:E; [discriminate|].
  intros H. injection H as <-. lia.
Qed.
Lemma json_security_total f file m : m_addr m mod 4 = 0 -> tot (json_security f file m).
Proof.
  intros Ha. unfold json_security, op_security. apply tot_bind.
  { apply tot_ok_. apply DirsProofs.security_no_fault. exact Ha. }
  intros os Ho. apply tot_jopt_res. intros r ->. apply ok_inv in Ho. apply security_len in Ho.
  unfold Dirs.certificate_data. destruct (r_len r <? 8) eqn:E; [lia|]. cbn [bind]. apply tot_ok.
Qed.

(* ------------------------------------------------------------------ serialize_pe succeeds on every accepted image *)
Theorem json_of_image_total f file m soi : validate f m = Ok soi -> mem_ok m -> exists j, json_of_image f file m = Ok j.
Proof.
  intros Hv Hm. change (tot (json_of_image f file m)). unfold json_of_image.
  apply tot_bind; [apply json_headers_total|intros jh _].
  apply tot_bind; [apply json_rich_total|intros jr _].
  apply tot_bind; [apply json_exports_total; exact Hm|intros je _].
  apply tot_bind; [apply json_imports_total|intros ji _].
  apply tot_bind; [apply json_base_relocs_total; exact Hm|intros jb _].
  apply tot_bind; [apply json_debug_total|intros jd _].
  apply tot_bind; [apply json_tls_total|intros jt _].
  apply tot_bind; [apply json_load_config_total|intros jl _].
  apply tot_bind; [apply json_security_total; exact (validate_aligned f m soi Hv)|intros js _].
  apply tot_ok.
Qed.

(* ------------------------------------------------------------------ the text: well formed, and it denotes the model's tree *)
Theorem wrap_json_text_ok m w file : wrap_from_bytes m = Ok w -> mem_ok m ->
  exists j text, json_of_image (fmt_of w) file m = Ok j /\ wrap_json w file m = Ok j /\
    wrap_json_text w file m = Ok text /\ text = print_json j /\
    well_formed text = true /\ parse_json text = Some j.
Proof.
  intros Hw Hm. destruct (wrapper_mirrors m w Hw) as (_ & (soi & Hv) & _).
  destruct (json_of_image_total (fmt_of w) file m soi Hv Hm) as (j & Hj).
  exists j, (print_json j). unfold wrap_json_text, wrap_json. rewrite dispatch_fmt, Hj. cbn [bind].
  repeat split; [apply print_well_formed|apply parse_print].
Qed.

(* the oracle evaluated on the implementation's text is sound: the text is well formed, it is the canonical
   print of the tree it denotes, and that tree without "resources" is the model's *)
Lemma list_eqb_eq a : forall b, list_eqb a b = true -> a = b.
Proof.
  induction a as [|x a IH]; intros [|y b] H; cbn [list_eqb] in H; try discriminate; [reflexivity|].
  apply andb_true_iff in H as [H1 H2]. apply N.eqb_eq in H1. subst. f_equal. apply IH. exact H2.
Qed.
Theorem json_text_ok_sound model text : json_text_ok model text = true ->
  exists j jm, parse_json text = Some j /\ well_formed text = true /\ text = print_json j /\
    model = Ok jm /\ drop_member k_resources j = jm.
Proof.
  unfold json_text_ok, well_formed. destruct (parse_json text) as [j|]; [|discriminate].
  destruct model as [jm|e|x]; try discriminate. intros H. apply andb_true_iff in H as [H1 H2].
  apply list_eqb_eq in H1. apply list_eqb_eq in H2. apply print_json_inj in H2.
  exists j, jm. repeat split; [symmetry; exact H1|exact H2].
Qed.
(* ... and complete on the model's own output (with any "resources" member appended) *)
Lemma list_eqb_refl a : list_eqb a a = true.
Proof. induction a as [|x a IH]; cbn [list_eqb]; [reflexivity|]. rewrite N.eqb_refl, IH. reflexivity. Qed.
Theorem json_text_ok_complete members res_value :
  (forall k v, In (k, v) members -> list_eqb k k_resources = false) ->
  json_text_ok (Ok (JObj members)) (print_json (JObj (members ++ [(k_resources, res_value)]))) = true.
Proof.
  intros Hk. unfold json_text_ok. rewrite parse_print, list_eqb_refl. cbn [andb drop_member].
  replace (filter (fun kv => negb (list_eqb (fst kv) k_resources)) (members ++ [(k_resources, res_value)])) with members; [apply list_eqb_refl|].
  rewrite filter_app. cbn [filter fst]. rewrite list_eqb_refl. cbn [negb]. rewrite app_nil_r.
  symmetry. induction members as [|[k v] l IH]; cbn [filter fst]; [reflexivity|].
  rewrite (Hk k v) by (left; reflexivity). cbn [negb]. f_equal. apply IH. intros k' v' H. apply (Hk k' v'). right. exact H.
Qed.

(* ------------------------------------------------------------------ members = accessors *)
Theorem json_members f file m j : json_of_image f file m = Ok j ->
  exists jh jr je ji jb jd jt jl js,
    json_headers f m = Ok jh /\ json_rich m = Ok jr /\ json_exports f file m = Ok je /\ json_imports f file m = Ok ji /\
    json_base_relocs f file m = Ok jb /\ json_debug f file m = Ok jd /\ json_tls f file m = Ok jt /\
    json_load_config f file m = Ok jl /\ json_security f file m = Ok js /\
    jkeys j = [k_headers; k_rich_structure; k_exports; k_imports; k_base_relocs; k_debug; k_tls; k_load_config; k_security] /\
    jfield k_headers j = Some jh /\ jfield k_rich_structure j = Some jr /\ jfield k_exports j = Some je /\
    jfield k_imports j = Some ji /\ jfield k_base_relocs j = Some jb /\ jfield k_debug j = Some jd /\
    jfield k_tls j = Some jt /\ jfield k_load_config j = Some jl /\ jfield k_security j = Some js.
Proof.
  unfold json_of_image. intros H.
  destruct (json_headers f m) as [jh|?|?]; cbn [bind] in H; try discriminate.
  destruct (json_rich m) as [jr|?|?]; cbn [bind] in H; try discriminate.
  destruct (json_exports f file m) as [je|?|?]; cbn [bind] in H; try discriminate.
  destruct (json_imports f file m) as [ji|?|?]; cbn [bind] in H; try discriminate.
  destruct (json_base_relocs f file m) as [jb|?|?]; cbn [bind] in H; try discriminate.
  destruct (json_debug f file m) as [jd|?|?]; cbn [bind] in H; try discriminate.
  destruct (json_tls f file m) as [jt|?|?]; cbn [bind] in H; try discriminate.
  destruct (json_load_config f file m) as [jl|?|?]; cbn [bind] in H; try discriminate.
  destruct (json_security f file m) as [js|?|?]; cbn [bind] in H; try discriminate.
  injection H as <-. exists jh, jr, je, ji, jb, jd, jt, jl, js. repeat split; reflexivity.
Qed.

(* an `.ok()` member is null exactly when the accessor it is built from returns an error *)
Lemma ok_member_null {A} (r : res A) (to : A -> res json) j :
  (forall x y, to x = Ok y -> y <> JNull) -> (o <- ok_ r ;; jopt_res to o) = Ok j -> (j = JNull <-> exists e, r = Err e).
Proof.
  intros Hto. destruct r as [a|e|x]; cbn [ok_ bind jopt_res]; intros H.
  - split; [intros ->; exfalso; exact (Hto a JNull H eq_refl)|intros [e He]; discriminate].
  - injection H as <-. split; eauto.
  - discriminate.
Qed.
Lemma bind_ok_inv {A B} (r : res A) (k : A -> res B) y : bind r k = Ok y -> exists a, r = Ok a /\ k a = Ok y.
Proof. destruct r as [a|e|x]; cbn [bind]; intros H; try discriminate. eauto. Qed.

Ltac nonnull Hy := cbv zeta in Hy; repeat (apply bind_ok_inv in Hy as (? & _ & Hy)); injection Hy as <-; discriminate.
Lemma json_by_nonnull v x t y : json_by v x t = Ok y -> y <> JNull.
Proof. intros Hy. unfold json_by in Hy. nonnull Hy. Qed.

Theorem ok_members_null_iff_err f file m :
  (forall j, json_rich m = Ok j -> (j = JNull <-> exists e, acc_rich m = Err e)) /\
  (forall j, json_exports f file m = Ok j -> (j = JNull <-> exists e, op_exports_by f file m = Err e)) /\
  (forall j, json_imports f file m = Ok j -> (j = JNull <-> exists e, op_imports f file m = Err e)) /\
  (forall j, json_base_relocs f file m = Ok j -> (j = JNull <-> exists e, op_base_relocs f file m = Err e)) /\
  (forall j, json_debug f file m = Ok j -> (j = JNull <-> exists e, op_debug f file m = Err e)) /\
  (forall j, json_tls f file m = Ok j -> (j = JNull <-> exists e, op_tls f file m = Err e)) /\
  (forall j, json_load_config f file m = Ok j -> (j = JNull <-> exists e, op_load_config f file m = Err e)) /\
  (forall j, json_security f file m = Ok j -> (j = JNull <-> exists e, op_security f file m = Err e)).
Proof.
  repeat apply conj; intros j H.
  - unfold json_rich, acc_rich in *. destruct (Rich.try_from (mem_dwords m)) as [se|e|x]; cbn [ok_ bind jopt] in H; try discriminate;
      injection H as <-; split; try discriminate; eauto. intros [e He]. discriminate.
  - unfold json_exports in H. unfold op_exports_by, Exports.view_by, Exports.exports_by. fold (acc_exports_x f file m).
    destruct (acc_exports_x f file m) as [x|e|y]; cbn [ok_ bind jopt_res] in H; try discriminate.
    + cbn [bind]. change (Exports.by_ (slice (pe_view f file m)) (v_get (pe_view f file m)) (dd_of f m IMAGE_DIRECTORY_ENTRY_EXPORT) x) with (acc_exports_by f file m x).
      apply (ok_member_null _ _ _ (json_by_nonnull (pe_view f file m) x) H).
    + injection H as <-. cbn [bind]. split; eauto.
  - unfold json_imports in H. cbv zeta in H. refine (ok_member_null _ _ _ _ H). intros r y Hy. nonnull Hy.
  - unfold json_base_relocs in H. refine (ok_member_null _ _ _ _ H). intros r y Hy. nonnull Hy.
  - unfold json_debug in H. cbv zeta in H. refine (ok_member_null _ _ _ _ H). intros r y Hy. nonnull Hy.
  - unfold json_tls in H. cbv zeta in H. refine (ok_member_null _ _ _ _ H). intros r y Hy. nonnull Hy.
  - unfold json_load_config in H. cbv zeta in H. refine (ok_member_null _ _ _ _ H). intros r y Hy. nonnull Hy.
  - unfold json_security in H. cbv zeta in H. refine (ok_member_null _ _ _ _ H). intros r y Hy. nonnull Hy.
Qed.

(* ------------------------------------------------------------------ field = accessor: headers *)
Lemma sections_from_range m base : forall n s,
  sections_from m (base + s * IMAGE_SECTION_HEADER_size) n =
  map (fun i => section_at m (base + i * IMAGE_SECTION_HEADER_size)) (range_from s n).
Proof.
  induction n as [|n IH]; intros s; cbn [sections_from range_from map]; [reflexivity|]. f_equal.
  replace (base + s * IMAGE_SECTION_HEADER_size + IMAGE_SECTION_HEADER_size) with (base + (s + 1) * IMAGE_SECTION_HEADER_size) by lia.
  apply IH.
Qed.
(* the decoded section table of Model/Headers.v is the table the JSON array is mapped over *)
Lemma sections_range f m : sections f m = map (fun i => section_at m (sec_off f m i)) (range (h_nsec f m)).
Proof.
  unfold sections, range, sec_off. pose proof (sections_from_range m (sec_table_off f m) (N.to_nat (h_nsec f m)) 0) as H.
  replace (sec_table_off f m + 0 * IMAGE_SECTION_HEADER_size) with (sec_table_off f m) in H by lia. exact H.
Qed.
(* the four geometry members of a serialized section header are the fields of the model's [section] record *)
Lemma json_section_fields m o :
  json_get [Key (S_"VirtualAddress")] (json_section m o) = Some (JNum (s_va (section_at m o))) /\
  json_get [Key (S_"VirtualSize")] (json_section m o) = Some (JNum (s_vs (section_at m o))) /\
  json_get [Key (S_"PointerToRawData")] (json_section m o) = Some (JNum (s_prd (section_at m o))) /\
  json_get [Key (S_"SizeOfRawData")] (json_section m o) = Some (JNum (s_srd (section_at m o))) /\
  json_get [Key (S_"Name")] (json_section m o) = Some (json_sec_name (bytes_from m (o + IMAGE_SECTION_HEADER_Name_off) 8)).
Proof. repeat split; reflexivity. Qed.

Theorem section_fields f m :
  sections f m = map (fun i => section_at m (sec_off f m i)) (range (h_nsec f m)) /\
  forall o,
  json_get [Key (S_"VirtualAddress")] (json_section m o) = Some (JNum (s_va (section_at m o))) /\
  json_get [Key (S_"VirtualSize")] (json_section m o) = Some (JNum (s_vs (section_at m o))) /\
  json_get [Key (S_"PointerToRawData")] (json_section m o) = Some (JNum (s_prd (section_at m o))) /\
  json_get [Key (S_"SizeOfRawData")] (json_section m o) = Some (JNum (s_srd (section_at m o))) /\
  json_get [Key (S_"Name")] (json_section m o) = Some (json_sec_name (bytes_from m (o + IMAGE_SECTION_HEADER_Name_off) 8)).
Proof. split; [apply sections_range|apply json_section_fields]. Qed.

Theorem headers_fields f m jh : json_headers f m = Ok jh ->
  json_get [Key (S_"DosHeader"); Key (S_"e_magic")] jh = Some (JNum (rd16 m IMAGE_DOS_HEADER_e_magic_off)) /\
  json_get [Key (S_"DosHeader"); Key (S_"e_lfanew")] jh = Some (JNum (e_lfanew m)) /\
  json_get [Key (S_"NtHeaders"); Key (S_"Signature")] jh = Some (JNum (rd32 m (e_lfanew m))) /\
  json_get [Key (S_"NtHeaders"); Key (S_"FileHeader"); Key (S_"NumberOfSections")] jh = Some (JNum (h_nsec f m)) /\
  json_get [Key (S_"NtHeaders"); Key (S_"FileHeader"); Key (S_"SizeOfOptionalHeader")] jh = Some (JNum (h_optsz f m)) /\
  json_get [Key (S_"NtHeaders"); Key (S_"OptionalHeader"); Key (S_"Magic")] jh = Some (JNum (h_magic f m)) /\
  json_get [Key (S_"NtHeaders"); Key (S_"OptionalHeader"); Key (S_"SizeOfCode")] jh = Some (JNum (h_soc f m)) /\
  json_get [Key (S_"NtHeaders"); Key (S_"OptionalHeader"); Key (S_"BaseOfCode")] jh = Some (JNum (h_boc f m)) /\
  json_get [Key (S_"NtHeaders"); Key (S_"OptionalHeader"); Key (S_"ImageBase")] jh = Some (JNum (h_base f m)) /\
  json_get [Key (S_"NtHeaders"); Key (S_"OptionalHeader"); Key (S_"SizeOfImage")] jh = Some (JNum (h_soi f m)) /\
  json_get [Key (S_"NtHeaders"); Key (S_"OptionalHeader"); Key (S_"SizeOfHeaders")] jh = Some (JNum (h_soh f m)) /\
  json_get [Key (S_"NtHeaders"); Key (S_"OptionalHeader"); Key (S_"NumberOfRvaAndSizes")] jh = Some (JNum (h_nrva f m)) /\
  json_get [Key (S_"DataDirectory")] jh = Some (JArr (map json_data_dir (op_data_directory f m))) /\
  json_get [Key (S_"SectionHeaders")] jh = Some (JArr (map (fun i => json_section m (sec_off f m i)) (range (h_nsec f m)))) /\
  json_get [Key (S_"details"); Key (S_"OptionalHeader.CheckSum")] jh = Some (JNum (check_sum f m)) /\
  json_get [Key (S_"details"); Key (S_"OptionalHeader.Magic")] jh = Some (jenum tab_OptionalMagic (h_magic f m)) /\
  json_get [Key (S_"details"); Key (S_"DataDirectory.Sections")] jh =
    Some (JArr (map (jopt JNum) (map (fun d => by_rva f m (fst d)) (op_data_directory f m)))).
Proof.
  unfold json_headers, json_details. rewrite details_eq_accessor. cbn [bind]. intros H. injection H as <-.
  unfold json_nt_headers, json_optional_header, details_spec. destruct (f_64 f); repeat split; reflexivity.
Qed.

(* ------------------------------------------------------------------ field = accessor: the directory members *)
Theorem exports_fields v x t j : json_by v x t = Ok j ->
  json_get [Key (S_"time_date_stamp")] j = Some (JNum (Exports.x_field (v_get v) x IMAGE_EXPORT_DIRECTORY_TimeDateStamp_off)) /\
  json_get [Key (S_"ordinal_base")] j = Some (JNum (Exports.t_base t mod W16)) /\
  json_get [Key (S_"functions")] j = Some (JArr (map JNum (Exports.t_funcs t))) /\
  (exists names, json_export_names (Exports.iter_name_indices (Exports.view_cstr v) t) = Ok names /\
                 json_get [Key (S_"names")] j = Some (JObj names)) /\
  (json_get [Key (S_"dll_name")] j = Some JNull <->
   exists e, Exports.view_cstr v (Exports.x_field (v_get v) x IMAGE_EXPORT_DIRECTORY_Name_off) = Err e).
Proof.
  unfold json_by. cbv zeta. intros H.
  apply bind_ok_inv in H as (dll & Hdll & H). apply bind_ok_inv in H as (jdll & Hjdll & H).
  apply bind_ok_inv in H as (names & Hnames & H). injection H as <-.
  split; [reflexivity|]. split; [reflexivity|]. split; [reflexivity|]. split; [exists names; split; [exact Hnames|reflexivity]|].
  change (json_get [Key (S_"dll_name")] _) with (Some jdll).
  apply ok_inv in Hdll. destruct dll as [b|]; cbn [jopt_res] in Hjdll.
  - unfold jcstr in Hjdll. apply bind_ok_inv in Hjdll as (s & _ & Hs). injection Hs as <-. rewrite Hdll.
    split; [discriminate|intros [e He]; discriminate].
  - injection Hjdll as <-. split; [intros _; exact Hdll|reflexivity].
Qed.
(* every name member of the exports is a name the format-specific iterator yields, with its index *)
Lemma export_names_sound l names : json_export_names l = Ok names ->
  forall k v, In (k, v) names -> exists ix, v = JNum ix /\ In (Ok k, ix) l /\ utf8_valid k = true.
Proof.
  revert names. induction l as [|[rn ix] l IH]; intros names H k v Hin; cbn [json_export_names] in H.
  - injection H as <-. contradiction.
  - destruct rn as [s|e|x]; [|destruct (IH names H k v Hin) as (i & ? & ? & ?); exists i; repeat split; [assumption|right; assumption|assumption]|discriminate].
    destruct (utf8_valid s) eqn:U.
    + apply bind_ok_inv in H as (rest & Hrest & H). injection H as <-. destruct Hin as [Hin|Hin].
      * injection Hin as <- <-. exists ix. repeat split; [left; reflexivity|exact U].
      * destruct (IH rest Hrest k v Hin) as (i & ? & ? & ?). exists i. repeat split; [assumption|right; assumption|assumption].
    + destruct (IH names H k v Hin) as (i & ? & ? & ?). exists i. repeat split; [assumption|right; assumption|assumption].
Qed.

Theorem directory_fields f file m :
  (* tls *)
  (forall t j, op_tls f file m = Ok t -> json_tls f file m = Ok j ->
     exists ord ocb, ok_ (Dirs.tls_raw_data (pe_view f file m) t) = Ok ord /\ ok_ (Dirs.tls_callbacks (pe_view f file m) t) = Ok ocb /\
       json_get [Key (S_"raw_data")] j = Some (jopt (fun r => JStr (base64 (rbytes (m_get m) r))) ord) /\
       json_get [Key (S_"callbacks")] j = Some (jopt (fun r => JArr (map JNum (va_values (pe_view f file m) r))) ocb)) /\
  (* load config *)
  (forall t j, op_load_config f file m = Ok t -> json_load_config f file m = Ok j ->
     exists oc os, ok_ (Dirs.lc_security_cookie (pe_view f file m) t) = Ok oc /\ ok_ (Dirs.lc_se_handler_table (pe_view f file m) t) = Ok os /\
       json_get [Key (S_"security_cookie")] j = Some (jopt (fun r => JNum (Dirs.u32at (m_get m) (r_off r))) oc) /\
       json_get [Key (S_"se_handler_table")] j = Some (jopt (fun r => JArr (map JNum (va_values (pe_view f file m) r))) os)) /\
  (* security *)
  (forall r j, op_security f file m = Ok r -> json_security f file m = Ok j ->
     json_get [Key (S_"certificate_type")] j = Some (JNum (Dirs.certificate_type (m_get m) r)) /\
     exists data, Dirs.certificate_data r = Ok data /\
       json_get [Key (S_"certificate_data")] j = Some (JStr (base64 (rbytes (m_get m) data)))) /\
  (* base relocs *)
  (forall r j, op_base_relocs f file m = Ok r -> json_base_relocs f file m = Ok j ->
     exists ps, Relocs.fold_pairs (rbytes (m_get m) r) = Ok ps /\
       json_get [Key (S_"rvas")] j = Some (JArr (map (fun p => JNum (fst p)) ps)) /\
       json_get [Key (S_"types")] j = Some (JArr (map (fun p => JNum (snd p)) ps))) /\
  (* rich structure *)
  (forall se j, acc_rich m = Ok se -> json_rich m = Ok j ->
     json_get [Key (S_"xor_key")] j = Some (JNum (Rich.xor_key (mem_dwords m) se)) /\
     json_get [Key (S_"checksum")] j = Some (JNum (Rich.checksum (mem_dwords m) se)) /\
     json_get [Key (S_"records")] j = Some (JArr (map json_rich_record (Rich.records (mem_dwords m) se)))) /\
  (* imports, debug: one array item per descriptor / directory entry of the format-specific iterator *)
  (forall r j, op_imports f file m = Ok r -> json_imports f file m = Ok j ->
     exists l, map_res (json_desc (pe_of f file m)) (op_descs f file m r) = Ok l /\ j = JArr l) /\
  (forall r j, op_debug f file m = Ok r -> json_debug f file m = Ok j ->
     exists l, map_res (json_dir (pe_view f file m)) (op_debug_dirs f file m r) = Ok l /\ j = JArr l).
Proof.
  repeat apply conj.
  - intros t j Ht H. unfold json_tls in H. cbv zeta in H. rewrite Ht in H. cbn [ok_ bind jopt_res] in H.
    apply bind_ok_inv in H as (ord & Hord & H). apply bind_ok_inv in H as (ocb & Hocb & H). injection H as <-.
    exists ord, ocb. repeat split; assumption.
  - intros t j Ht H. unfold json_load_config in H. cbv zeta in H. rewrite Ht in H. cbn [ok_ bind jopt_res] in H.
    apply bind_ok_inv in H as (oc & Hoc & H). apply bind_ok_inv in H as (os & Hos & H). injection H as <-.
    exists oc, os. repeat split; assumption.
  - intros r j Hr H. unfold json_security in H. cbv zeta in H. rewrite Hr in H. cbn [ok_ bind jopt_res] in H.
    apply bind_ok_inv in H as (data & Hdata & H). injection H as <-. split; [reflexivity|]. exists data. split; [exact Hdata|reflexivity].
  - intros r j Hr H. unfold json_base_relocs in H. unfold op_base_relocs in Hr. rewrite Hr in H. cbn [ok_ bind jopt_res] in H.
    apply bind_ok_inv in H as (bs & Hbs & H). injection H as <-. exists (reloc_pairs bs).
    split; [unfold Relocs.fold_pairs; rewrite Hbs; cbn [bind]; rewrite reloc_pairs_is_fold; reflexivity|]. split; reflexivity.
  - intros se j Hse H. unfold json_rich in H. unfold acc_rich in Hse. cbv zeta in H. rewrite Hse in H. cbn [ok_ bind jopt] in H.
    injection H as <-. repeat split; reflexivity.
  - intros r j Hr H. unfold json_imports in H. cbv zeta in H. unfold op_imports in Hr. rewrite Hr in H. cbn [ok_ bind jopt_res] in H.
    apply bind_ok_inv in H as (l & Hl & H). injection H as <-. exists l. split; [exact Hl|reflexivity].
  - intros r j Hr H. unfold json_debug in H. cbv zeta in H. rewrite Hr in H. cbn [ok_ bind jopt_res] in H.
    apply bind_ok_inv in H as (l & Hl & H). injection H as <-. exists l. split; [exact Hl|reflexivity].
Qed.

(* ------------------------------------------------------------------ a witness *)
Definition f24_json : json := match json_of_image fmt32 true f24_mem with Ok j => j | _ => JNull end.
