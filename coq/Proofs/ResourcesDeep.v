(* Proofs for C12, second round: converse of the traversal theorem, the run-time oracle accepts every model
   listing, listing-level lookups = the model's find functions, Display/eq round trip, step counts. *)
From PV.Model Require Import Machine Mapping Views Resources.
From PV.Spec Require Import ResTree Ico.
From PV.Proofs Require Import BaseProofs ResourcesProofs.
Ltac Zify.zify_post_hook ::= Z.div_mod_to_equations.

(* ------------------------------------------------------------------ 1. converse of walk_repr *)
Lemma items_clean_app a b : items_clean (a ++ b) = items_clean a && items_clean b.
Proof. unfold items_clean. apply forallb_app. Qed.
Lemma items_clean_cons w l : items_clean (w :: l) = item_clean w && items_clean l.
Proof. reflexivity. Qed.

Definition walk_conv_at (s : rsec) (d : nat) : Prop :=
  forall o lvl b items b', dir_at s o = true -> walk d s o lvl b = (items, b') -> items_clean items = true ->
  exists kids, repr s (RDir o kids) = true /\ (height (RDir o kids) <= d)%nat /\ size_kids size kids + b' = b /\
               items = flatten s lvl (RDir o kids).

Lemma walk_loop_conv s d lvl named : walk_conv_at s d ->
  forall m e idx b items b',
  walk_loop s (walk d s) lvl named (entry_offs e (N.of_nat m)) idx b = (items, b') -> items_clean items = true ->
  exists kids, lenN kids = N.of_nat m /\ repr_kids s (fun k => repr s k) e kids = true /\
     (forall nk, In nk kids -> (height (snd nk) <= d)%nat) /\ size_kids size kids + b' = b /\
     items = flatten_kids (fun k => flatten s (lvl + 1) k) lvl named e idx kids.
Proof.
  intros HD. induction m as [|m IH]; intros e idx b items b'.
  - unfold entry_offs. change (N.to_nat (N.of_nat 0)) with 0%nat. cbn [seq map walk_loop]. intros [= <- <-] _.
    exists []. split; [reflexivity|]. split; [reflexivity|]. split; [intros nk []|]. split; [cbn [size_kids fold_right]; lia|reflexivity].
  - replace (N.of_nat (S m)) with (1 + N.of_nat m) by lia. rewrite entry_offs_cons. cbn [walk_loop].
    destruct (b =? 0) eqn:B0; [intros [= <- <-] HC; discriminate HC|]. cbv zeta.
    destruct (e_entry s e) as [[o'|o']|er|f0] eqn:En.
    + (* a sub-directory *)
      destruct (walk d s o' (lvl + 1) (b - 1)) as [si sb] eqn:W. cbn [fst snd].
      destruct (walk_loop s (walk d s) lvl named (entry_offs (e + 8) (N.of_nat m)) (idx + 1) sb) as [ri rb] eqn:WL. cbn [fst snd].
      intros [= <- <-] HC. rewrite items_clean_cons, items_clean_app in HC. split_andb.
      match goal with H : item_clean _ = true |- _ => rename H into HI end.
      unfold item_at in HI. rewrite En in HI. cbn [item_clean i_name i_tgt] in HI.
      destruct (e_name s e) as [n|er|f0] eqn:Nm; [|discriminate HI|discriminate HI].
      pose proof (e_name_name_at _ _ _ Nm) as Nm'. pose proof (e_entry_inv _ _ _ En) as (E1 & E2 & E3).
      destruct (HD o' (lvl + 1) (b - 1) si sb E3 W) as (kk & K1 & K2 & K3 & K4); [assumption|].
      destruct (IH (e + 8) (idx + 1) sb ri rb WL) as (kr & R1 & R2 & R3 & R4 & R5); [assumption|].
      exists ((n, RDir o' kk) :: kr). split; [rewrite lenN_cons; lia|]. split.
      { cbn [repr_kids fst snd]. rewrite Nm', K1, R2. unfold link_at. cbn [rt_isdir rt_off].
        replace (B31 <=? rd32 s (e + 4)) with true by lia. replace (o' =? rd32 s (e + 4) - B31) with true by lia. reflexivity. }
      split.
      { intros nk [<-|Hin]; [cbn [snd]; exact K2|apply R3; exact Hin]. }
      split; [cbn [size_kids fold_right snd size]; fold (size_kids size kr); fold (size_kids size kk); lia|].
      cbn [flatten_kids fst snd]. rewrite <- K4, <- R5. f_equal. f_equal.
      unfold item_at, item_of. rewrite Nm, En. cbn [rt_isdir]. unfold e_is_dir. replace (B31 <=? rd32 s (e + 4)) with true by lia. reflexivity.
    + (* a data entry *)
      cbn [fst snd app].
      destruct (walk_loop s (walk d s) lvl named (entry_offs (e + 8) (N.of_nat m)) (idx + 1) (b - 1)) as [ri rb] eqn:WL. cbn [fst snd].
      intros [= <- <-] HC. rewrite items_clean_cons in HC. split_andb.
      match goal with H : item_clean _ = true |- _ => rename H into HI end.
      unfold item_at in HI. rewrite En in HI. cbn [item_clean i_name i_tgt] in HI.
      destruct (e_name s e) as [n|er|f0] eqn:Nm; [|discriminate HI|discriminate HI].
      destruct (data_bytes s o') as [rg|er|f0] eqn:D; [|discriminate HI|discriminate HI].
      pose proof (e_name_name_at _ _ _ Nm) as Nm'. pose proof (e_entry_inv _ _ _ En) as (E1 & E2 & E3).
      destruct (bytes_data_at s o' rg E3 D) as [K1 K2].
      destruct (IH (e + 8) (idx + 1) (b - 1) ri rb WL) as (kr & R1 & R2 & R3 & R4 & R5); [assumption|].
      exists ((n, RData o' (r_off rg) (r_len rg) (data_cp s o')) :: kr). split; [rewrite lenN_cons; lia|]. split.
      { cbn [repr_kids fst snd repr]. rewrite Nm', K1, R2. unfold link_at. cbn [rt_isdir rt_off].
        replace (rd32 s (e + 4) <? B31) with true by lia. replace (o' =? rd32 s (e + 4)) with true by lia. reflexivity. }
      split.
      { intros nk [<-|Hin]; [cbn [snd height]; lia|apply R3; exact Hin]. }
      split; [cbn [size_kids fold_right snd size]; fold (size_kids size kr); lia|].
      cbn [flatten_kids fst snd flatten app]. rewrite <- R5. f_equal. f_equal.
      unfold item_at, item_of. rewrite Nm, En, D. cbn [rt_isdir]. unfold e_is_dir. replace (B31 <=? rd32 s (e + 4)) with false by lia.
      destruct rg as [ro rl]. cbn [r_off r_len] in K2 |- *. rewrite <- K2. reflexivity.
    + cbn [fst snd app]. destruct (walk_loop _ _ _ _ _ _ _) as [ri rb]. cbn [fst snd].
      intros [= <- <-] HC. rewrite items_clean_cons in HC. split_andb.
      match goal with H : item_clean _ = true |- _ => rename H into HI end.
      unfold item_at in HI. rewrite En in HI. cbn [item_clean i_name i_tgt] in HI. destruct (e_name s e); discriminate HI.
    + cbn [fst snd app]. destruct (walk_loop _ _ _ _ _ _ _) as [ri rb]. cbn [fst snd].
      intros [= <- <-] HC. rewrite items_clean_cons in HC. split_andb.
      match goal with H : item_clean _ = true |- _ => rename H into HI end.
      unfold item_at in HI. rewrite En in HI. cbn [item_clean i_name i_tgt] in HI. destruct (e_name s e); discriminate HI.
Qed.

Lemma walk_conv_all s d : walk_conv_at s d.
Proof.
  induction d as [|d IH]; intros o lvl b items b' HD; cbn [walk].
  - intros [= <- <-] HC. discriminate HC.
  - unfold entries. replace (n_named s o + n_ids s o) with (N.of_nat (N.to_nat (dir_count s o))) by (unfold dir_count, n_named, n_ids; lia).
    intros HL HC. destruct (walk_loop_conv s d lvl (n_named s o) IH _ _ _ _ _ _ HL HC) as (kids & K1 & K2 & K3 & K4 & K5).
    exists kids. split; [cbn [repr]; rewrite HD, K2; replace (lenN kids =? dir_count s o) with true by lia; reflexivity|].
    split; [apply height_bound; exact K3|]. split; [exact K4|]. rewrite K5. reflexivity.
Qed.

(* a traversal that lists only valid names, references and data ranges and is neither cut by the depth limit nor
   stopped by the budget IS the depth-first listing of a tree the bytes denote *)
Theorem walk_repr_converse s d o lvl b items b' :
  dir_at s o = true -> walk d s o lvl b = (items, b') -> items_clean items = true ->
  exists kids, repr s (RDir o kids) = true /\ (height (RDir o kids) <= d)%nat /\ size (RDir o kids) + b' = b /\
               items = flatten s lvl (RDir o kids).
Proof. intros H1 H2 H3. exact (walk_conv_all s d o lvl b items b' H1 H2 H3). Qed.

(* the hypothesis [dir_at] (what [root] establishes) is needed: walk itself does not look at the header *)
Definition empty_sec : rsec := {| rs_addr := 4096; rs_len := 0; rs_get := fun _ => 0; rs_va := 4096 |}.
Lemma walk_converse_needs_root :
  walk 1 empty_sec 0 0 0 = ([], 0) /\ items_clean [] = true /\ (forall kids, repr empty_sec (RDir 0 kids) = false).
Proof. split; [reflexivity|]. split; [reflexivity|]. intros kids. reflexivity. Qed.

(* both directions together *)
Lemma flatten_clean s t : forall lvl, items_clean (flatten s lvl t) = true.
Proof.
  induction t as [o st sz cp|o kids IHk] using rtree_ind'; intros lvl; [reflexivity|].
  cbn [flatten]. generalize (o + 16) as e, 0 as idx, (rd16 s (o + 12)) as named.
  induction IHk as [|[n k] r Hk _ IH]; intros e idx named; [reflexivity|].
  cbn [flatten_kids fst snd]. rewrite items_clean_cons, items_clean_app, Hk, IH.
  destruct k; reflexivity.
Qed.

Theorem walk_clean_iff s d o lvl b items b' :
  dir_at s o = true ->
  (walk d s o lvl b = (items, b') /\ items_clean items = true <->
   exists kids, repr s (RDir o kids) = true /\ (height (RDir o kids) <= d)%nat /\ size (RDir o kids) + b' = b /\
                items = flatten s lvl (RDir o kids)).
Proof.
  intros HD. split.
  - intros [H1 H2]. exact (walk_repr_converse s d o lvl b items b' HD H1 H2).
  - intros (kids & K1 & K2 & K3 & K4).
    assert (HS : size (RDir o kids) <= b) by lia.
    pose proof (walk_repr s o kids d lvl b K1 K2 HS) as HW. split.
    + rewrite HW, K4. f_equal. lia.
    + rewrite K4. apply flatten_clean.
Qed.

(* ------------------------------------------------------------------ 2. the run-time oracle accepts every model listing *)
Lemma complete_app a b : complete (a ++ b) = complete a && complete b.
Proof. unfold complete. apply forallb_app. Qed.
Lemma complete_item i l : complete (WItem i :: l) = complete l.
Proof. reflexivity. Qed.

(* the entries of level L in a listing *)
Fixpoint items_at (L : N) (l : list witem) : list item :=
  match l with
  | [] => []
  | WItem i :: r => if i_lvl i =? L then i :: items_at L r else items_at L r
  | _ :: r => items_at L r
  end.
Lemma kids_of_items_at L l : map fst (kids_of L l) = items_at L l.
Proof.
  induction l as [|[i| |] r IH]; cbn [kids_of items_at map]; try assumption; [reflexivity|].
  destruct (i_lvl i =? L); cbn [map fst]; [f_equal|]; exact IH.
Qed.

Definition lvl_ge (L : N) (l : list witem) : bool :=
  forallb (fun w => match w with WItem i => L <=? i_lvl i | _ => true end) l.
Definition nonitems (l : list witem) : bool :=
  forallb (fun w => match w with WItem _ => false | _ => true end) l.
Fixpoint lead_lt (L : N) (l : list witem) : bool :=
  match l with [] => true | WItem i :: _ => i_lvl i <? L | _ :: r => lead_lt L r end.

Lemma items_at_app L a b : items_at L (a ++ b) = items_at L a ++ items_at L b.
Proof.
  induction a as [|[i| |] r IH]; cbn [items_at app]; try assumption; [reflexivity|].
  destruct (i_lvl i =? L); cbn [app]; [f_equal|]; exact IH.
Qed.
Lemma items_at_ge L a : lvl_ge (L + 1) a = true -> items_at L a = [].
Proof.
  unfold lvl_ge. induction a as [|[i| |] r IH]; cbn [items_at forallb]; intros H; try reflexivity; split_andb; try (apply IH; assumption).
  destruct (i_lvl i =? L) eqn:E; [lia|]. apply IH; assumption.
Qed.
Lemma items_at_nonitems L a : nonitems a = true -> items_at L a = [].
Proof.
  unfold nonitems. induction a as [|[i| |] r IH]; cbn [items_at forallb]; intros H; try reflexivity; split_andb; try discriminate; apply IH; assumption.
Qed.
Lemma lvl_ge_weaken L a : lvl_ge (L + 1) a = true -> lvl_ge L a = true.
Proof.
  unfold lvl_ge. induction a as [|[i| |] r IH]; cbn [forallb]; intros H; try reflexivity; split_andb;
    (apply andb_true_intro; split; [lia|apply IH; assumption]).
Qed.
Lemma take_sub_app L a t : lvl_ge (L + 1) a = true -> take_sub L (a ++ t) = a ++ take_sub L t.
Proof.
  unfold lvl_ge. induction a as [|[i| |] r IH]; cbn [take_sub forallb app]; intros H; try reflexivity; split_andb.
  - destruct (L <? i_lvl i) eqn:E; [|lia]. f_equal. apply IH; assumption.
  - f_equal. apply IH; assumption.
  - f_equal. apply IH; assumption.
Qed.
Lemma take_sub_lead L t : lead_lt (L + 1) t = true -> nonitems (take_sub L t) = true.
Proof.
  unfold nonitems. induction t as [|[i| |] r IH]; cbn [take_sub lead_lt forallb]; intros H; try reflexivity; try (apply IH; assumption).
  destruct (L <? i_lvl i) eqn:E; [lia|reflexivity].
Qed.
Lemma lead_lt_mono L t : lead_lt L t = true -> lead_lt (L + 1) t = true.
Proof. induction t as [|[i| |] r IH]; cbn [lead_lt]; intros H; try reflexivity; try (apply IH; assumption). lia. Qed.

Lemma lvl_ge_app L a b : lvl_ge L (a ++ b) = lvl_ge L a && lvl_ge L b.
Proof. unfold lvl_ge. apply forallb_app. Qed.
Lemma lvl_ge_item L i l : lvl_ge L (WItem i :: l) = (L <=? i_lvl i) && lvl_ge L l.
Proof. reflexivity. Qed.
Lemma walk_loop_ge s below L named : (forall o b, lvl_ge (L + 1) (fst (below o (L + 1) b)) = true) ->
  forall es idx b, lvl_ge L (fst (walk_loop s below L named es idx b)) = true.
Proof.
  intros HB. induction es as [|e r IH]; intros idx b; cbn [walk_loop]; [reflexivity|].
  destruct (b =? 0); [reflexivity|]. cbv zeta. cbn [fst].
  rewrite lvl_ge_item, lvl_ge_app, IH. unfold item_at at 1. cbn [i_lvl]. replace (L <=? L) with true by lia. cbn [andb]. rewrite andb_true_r.
  destruct (e_entry s e) as [[o|o]|er|f0]; try reflexivity. apply lvl_ge_weaken. apply HB.
Qed.
Lemma walk_ge s d : forall o L b, lvl_ge L (fst (walk d s o L b)) = true.
Proof.
  induction d as [|d IH]; intros o L b; cbn [walk]; [reflexivity|]. apply walk_loop_ge. intros o' b'. apply IH.
Qed.

Lemma walk_loop_lead s below L named es idx b T : lead_lt L T = true ->
  lead_lt (L + 1) (fst (walk_loop s below L named es idx b) ++ T) = true.
Proof.
  intros H. destruct es as [|e r]; cbn [walk_loop]; [apply lead_lt_mono; exact H|].
  destruct (b =? 0); [cbn [fst app lead_lt]; apply lead_lt_mono; exact H|]. cbv zeta. cbn [fst].
  rewrite <- app_comm_cons. cbn [lead_lt]. unfold item_at. cbn [i_lvl]. lia.
Qed.

(* the one-step functions' failures are what the format facts say *)
Lemma e_name_err s e er : e_name s e = Err er ->
  (B31 <=? rd32 s e) = true /\
  (in_sec s (rd32 s e - B31) 2 2 && (rd32 s e - B31 + 2 + 2 * rd16 s (rd32 s e - B31) <=? rs_len s)) = false.
Proof.
  unfold e_name, e_name_g. destruct (B31 <=? rd32 s e) eqn:B; [|discriminate]. intros H. split; [reflexivity|].
  unfold slice_ws in H. rewrite aligned_wadd64_2 in H. unfold in_sec.
  destruct ((rs_addr s + (rd32 s e - B31)) mod 2 =? 0) eqn:A; cbn [negb] in H; [|rewrite andb_false_r; reflexivity].
  destruct (rd32 s e - B31 + 2 <=? rs_len s) eqn:C; [|reflexivity]. cbn [andb].
  destruct (rd32 s e - B31 + 2 + rd16 s (rd32 s e - B31) * 2 <=? rs_len s) eqn:D; [cbn [bind] in H; discriminate|]. lia.
Qed.
Lemma data_bytes_err s o er : data_bytes s o = Err er ->
  ((rs_va s <=? rd32 s o) && (rd32 s o - rs_va s + rd32 s (o + 4) <=? rs_len s) && (rd32 s o - rs_va s + rd32 s (o + 4) <? W32)) = false.
Proof.
  unfold data_bytes. destruct (rd32 s o <? rs_va s) eqn:A; [intros _; replace (rs_va s <=? rd32 s o) with false by lia; reflexivity|].
  destruct (W32 <=? rd32 s o - rs_va s + rd32 s (o + 4)) eqn:B.
  { intros _. replace (rd32 s o - rs_va s + rd32 s (o + 4) <? W32) with false by lia. apply andb_false_r. }
  destruct (rd32 s o - rs_va s + rd32 s (o + 4) <=? rs_len s) eqn:C; [discriminate|]. intros _. rewrite andb_false_r. reflexivity.
Qed.
Lemma e_entry_err s e er : e_entry s e = Err er ->
  if B31 <=? rd32 s (e + 4) then dir_at s (rd32 s (e + 4) - B31) = false else in_sec s (rd32 s (e + 4)) 16 4 = false.
Proof.
  unfold e_entry, e_entry_g. destruct (B31 <=? rd32 s (e + 4)).
  - fold (dir_try_from s (rd32 s (e + 4) - B31)). destruct (dir_at s (rd32 s (e + 4) - B31)) eqn:DA; [|reflexivity].
    rewrite (dir_at_try_from _ _ DA). discriminate.
  - destruct (in_sec s (rd32 s (e + 4)) 16 4) eqn:IS; [|reflexivity]. unfold in_sec in IS. split_andb.
    unfold rslice. rewrite aligned_wadd64_4.
    match goal with H : (_ mod 4 =? 0) = true |- _ => rewrite H end. cbn [negb].
    match goal with H : (_ <=? rs_len s) = true |- _ => rewrite H end. discriminate.
Qed.

Lemma item_at_sound s L named idx e : e + 8 <= rs_len s -> item_sound s (item_at s L named idx e) = true.
Proof.
  intros He. unfold item_sound, item_at. cbn [i_eoff i_isdir i_name i_tgt].
  apply andb_true_intro; split; [apply andb_true_intro; split; [apply andb_true_intro; split|]|].
  - lia.
  - unfold e_is_dir. apply Bool.eqb_reflx.
  - destruct (e_name s e) as [n|er|f0] eqn:Nm.
    + apply e_name_name_at. exact Nm.
    + destruct (e_name_err _ _ _ Nm) as [A B]. rewrite A, B. reflexivity.
    + exfalso. exact (e_name_no_fault _ _ _ Nm).
  - destruct (e_entry s e) as [[o|o]|er|f0] eqn:En.
    + destruct (e_entry_inv _ _ _ En) as (E1 & E2 & E3). rewrite E3.
      replace (B31 <=? rd32 s (e + 4)) with true by lia. replace (o =? rd32 s (e + 4) - B31) with true by lia. reflexivity.
    + destruct (e_entry_inv _ _ _ En) as (E1 & E2 & E3).
      replace (rd32 s (e + 4) <? B31) with true by lia. replace (o =? rd32 s (e + 4)) with true by lia. cbn [andb].
      pose proof (rslice_ok _ _ _ _ _ E3) as (_ & R1 & R2). rewrite aligned_wadd64_4 in R2.
      unfold in_sec. replace (o + 16 <=? rs_len s) with true by lia. rewrite R2. cbn [andb].
      unfold data_size, data_cp. rewrite !N.eqb_refl. cbn [andb].
      destruct (data_bytes s o) as [rg|er|f0] eqn:D.
      * destruct (bytes_data_at s o rg E3 D) as [K1 K2]. unfold data_cp in K1. rewrite K1. unfold data_size in K2. lia.
      * rewrite (data_bytes_err _ _ _ D). reflexivity.
      * exfalso. exact (data_bytes_no_fault _ _ _ D).
    + pose proof (e_entry_err _ _ _ En) as H. destruct (B31 <=? rd32 s (e + 4)); rewrite H; reflexivity.
    + exfalso. exact (e_entry_no_fault _ _ _ En).
Qed.

(* the entries listed at level L are the stored entries in stored order (all of them when nothing was cut) *)
Lemma walk_loop_listing s below L named f :
  (forall o b, lvl_ge (L + 1) (fst (below o (L + 1) b)) = true) ->
  forall es idx b Nn, nonitems Nn = true ->
  (f = true -> complete (fst (walk_loop s below L named es idx b)) = true) ->
  (if f then list_eqb (map i_eoff (items_at L (fst (walk_loop s below L named es idx b) ++ Nn))) es
   else is_prefix (map i_eoff (items_at L (fst (walk_loop s below L named es idx b) ++ Nn))) es) = true /\
  named_flags_ok named idx (items_at L (fst (walk_loop s below L named es idx b) ++ Nn)) = true.
Proof.
  intros HB. induction es as [|e r IH]; intros idx b Nn HN HC.
  - cbn [walk_loop fst app]. rewrite (items_at_nonitems _ _ HN). destruct f; split; reflexivity.
  - cbn [walk_loop] in HC |- *. destruct (b =? 0).
    + cbn [fst app items_at] in HC |- *. rewrite (items_at_nonitems _ _ HN).
      destruct f; [specialize (HC eq_refl); discriminate HC|]. split; reflexivity.
    + cbv zeta in HC |- *. cbn [fst snd] in HC |- *.
      set (sub := match e_entry s e with Ok (EDir o) => below o (L + 1) (b - 1) | _ => ([], b - 1) end) in *.
      assert (Hsub : lvl_ge (L + 1) (fst sub) = true).
      { unfold sub. destruct (e_entry s e) as [[o|o]|er|f0]; try reflexivity. apply HB. }
      rewrite <- app_comm_cons, <- app_assoc. cbn [items_at]. change (i_lvl (item_at s L named idx e)) with L. rewrite N.eqb_refl.
      rewrite !(items_at_app L (fst sub)), (items_at_ge _ _ Hsub). cbn [app map named_flags_ok].
      destruct (IH (idx + 1) (snd sub) Nn HN) as [A B].
      { intros Hf. specialize (HC Hf). rewrite complete_item, complete_app in HC. split_andb. assumption. }
      split.
      * change (i_eoff (item_at s L named idx e)) with e. destruct f; cbn [list_eqb is_prefix]; rewrite N.eqb_refl; exact A.
      * change (i_named (item_at s L named idx e)) with (idx <? named). rewrite Bool.eqb_reflx. exact B.
Qed.

Lemma want_entries s o : map (entry_pos o) (seq 0 (N.to_nat (dir_count s o))) = entries s o.
Proof. unfold entries, entry_offs, dir_count, n_named, n_ids. apply map_ext. intros i. unfold entry_pos. reflexivity. Qed.

Lemma walk_listing_ok s d o L b f Nn :
  nonitems Nn = true -> (f = true -> complete (fst (walk d s o L b)) = true) ->
  listing_ok s o L (fst (walk d s o L b) ++ Nn) f = true.
Proof.
  intros HN HC. unfold listing_ok. cbv zeta. rewrite kids_of_items_at, want_entries. destruct d as [|d].
  - cbn [walk fst app items_at] in HC |- *. rewrite (items_at_nonitems _ _ HN).
    destruct f; [specialize (HC eq_refl); discriminate HC|]. reflexivity.
  - cbn [walk] in HC |- *.
    destruct (walk_loop_listing s (walk d s) L (n_named s o) f (fun o' b' => walk_ge s d o' (L + 1) b') (entries s o) 0 b Nn HN HC) as [A B].
    rewrite A. change (rd16 s (o + 12)) with (n_named s o). rewrite B. reflexivity.
Qed.

Definition walk_lok_at (s : rsec) (f : bool) (d : nat) : Prop :=
  forall o L b T, dir_at s o = true -> lead_lt L T = true ->
  (f = true -> complete (fst (walk d s o L b)) = true) -> listings_ok s f T = true ->
  listings_ok s f (fst (walk d s o L b) ++ T) = true.

Lemma walk_loop_lok s f d L named : walk_lok_at s f d ->
  forall es idx b T, (forall e, In e es -> e + 8 <= rs_len s) -> lead_lt L T = true ->
  (f = true -> complete (fst (walk_loop s (walk d s) L named es idx b)) = true) -> listings_ok s f T = true ->
  listings_ok s f (fst (walk_loop s (walk d s) L named es idx b) ++ T) = true.
Proof.
  intros HD. induction es as [|e r IH]; intros idx b T Hin HT HC HL.
  - exact HL.
  - cbn [walk_loop] in HC |- *. destruct (b =? 0); [exact HL|]. cbv zeta in HC |- *. cbn [fst snd] in HC |- *.
    set (sub := match e_entry s e with Ok (EDir o) => walk d s o (L + 1) (b - 1) | _ => ([], b - 1) end) in *.
    set (rest := walk_loop s (walk d s) L named r (idx + 1) (snd sub)) in *.
    assert (HC' : f = true -> complete (fst sub) = true /\ complete (fst rest) = true).
    { intros Hf. specialize (HC Hf). rewrite complete_item, complete_app in HC. split_andb. split; assumption. }
    assert (Hlead : lead_lt (L + 1) (fst rest ++ T) = true) by (apply walk_loop_lead; exact HT).
    assert (Hrest : listings_ok s f (fst rest ++ T) = true).
    { apply IH; [intros e' He'; apply Hin; right; exact He'|exact HT|intros Hf; apply (HC' Hf)|exact HL]. }
    rewrite <- app_comm_cons, <- app_assoc. cbn [listings_ok].
    rewrite (item_at_sound s L named idx e (Hin e (or_introl eq_refl))). cbn [andb].
    change (i_lvl (item_at s L named idx e)) with L. unfold item_at. cbn [i_tgt]. unfold sub in *. clear sub.
    destruct (e_entry s e) as [[o|o]|er|f0] eqn:En; cbn [fst app andb]; try exact Hrest.
    destruct (e_entry_inv _ _ _ En) as (E1 & E2 & E3).
    apply andb_true_intro; split.
    + rewrite (take_sub_app L _ _ (walk_ge s d o (L + 1) (b - 1))).
      apply walk_listing_ok; [apply take_sub_lead; exact Hlead|intros Hf; apply (HC' Hf)].
    + apply HD; [exact E3|exact Hlead|intros Hf; apply (HC' Hf)|exact Hrest].
Qed.

Lemma walk_lok_all s f d : walk_lok_at s f d.
Proof.
  induction d as [|d IH]; intros o L b T HD HT HC HL; cbn [walk] in HC |- *; [exact HL|].
  apply walk_loop_lok; [exact IH| |exact HT|exact HC|exact HL].
  intros e He. unfold entries, entry_offs in He. apply in_map_iff in He. destruct He as (i & <- & Hi). apply in_seq in Hi.
  unfold dir_at in HD. split_andb. unfold n_named, n_ids in Hi. lia.
Qed.

(* every listing the model produces - any bytes, any depth, any budget, cut, stopped, with invalid names, references
   or data ranges in it - is accepted by the oracle [walk_sound] that the check evaluates on the implementation's listing *)
Theorem walk_sound_model s d b : dir_at s 0 = true -> walk_sound s (fst (walk d s 0 0 b)) = true.
Proof.
  intros HD. unfold walk_sound. cbv zeta. rewrite HD. cbn [andb].
  pose proof (walk_listing_ok s d 0 0 b (complete (fst (walk d s 0 0 b))) [] eq_refl (fun h => h)) as A.
  pose proof (walk_lok_all s (complete (fst (walk d s 0 0 b))) d 0 0 b [] HD eq_refl (fun h => h) eq_refl) as B.
  rewrite app_nil_r in A, B. rewrite A, B. reflexivity.
Qed.
(* in the form the check computes it: the listing below the root that root() returned *)
Theorem walk_sound_root s r d b : root s = Ok r -> walk_sound s (fst (walk d s r 0 b)) = true.
Proof. unfold root. intros H. apply try_from_dir_at in H. destruct H as [-> H]. apply walk_sound_model. exact H. Qed.

(* ------------------------------------------------------------------ 3. lookups read off a listing = the find functions *)
(* [l] is a complete (neither cut nor stopped) listing of the directory at [o], whose entries are at level [L] *)
Definition is_listing (s : rsec) (o L : N) (l : list witem) : Prop :=
  exists d b, l = fst (walk d s o L b) /\ complete l = true.

Definition kid_rel (s : rsec) (L named : N) (e : N) (k : item * list witem) : Prop :=
  (exists idx, fst k = item_at s L named idx e) /\
  match e_entry s e with Ok (EDir o) => is_listing s o (L + 1) (snd k) | _ => snd k = [] end.

Lemma kids_of_app_ge L a t : lvl_ge (L + 1) a = true -> kids_of L (a ++ t) = kids_of L t.
Proof.
  unfold lvl_ge. induction a as [|[i| |] r IH]; cbn [kids_of forallb app]; intros H; try reflexivity; split_andb; try (apply IH; assumption).
  destruct (i_lvl i =? L) eqn:E; [lia|]. apply IH; assumption.
Qed.
Lemma take_sub_loop_nil s below L named es idx b :
  complete (fst (walk_loop s below L named es idx b)) = true -> take_sub L (fst (walk_loop s below L named es idx b)) = [].
Proof.
  destruct es as [|e r]; cbn [walk_loop]; [reflexivity|]. destruct (b =? 0); [discriminate|]. cbv zeta. cbn [fst take_sub].
  change (i_lvl (item_at s L named idx e)) with L. replace (L <? L) with false by lia. reflexivity.
Qed.

Lemma walk_loop_kids s d L named : forall es idx b,
  complete (fst (walk_loop s (walk d s) L named es idx b)) = true ->
  Forall2 (kid_rel s L named) es (kids_of L (fst (walk_loop s (walk d s) L named es idx b))).
Proof.
  induction es as [|e r IH]; intros idx b HC; [constructor|].
  cbn [walk_loop] in HC |- *. destruct (b =? 0); [discriminate HC|]. cbv zeta in HC |- *. cbn [fst snd] in HC |- *.
  set (sub := match e_entry s e with Ok (EDir o) => walk d s o (L + 1) (b - 1) | _ => ([], b - 1) end) in *.
  set (rest := walk_loop s (walk d s) L named r (idx + 1) (snd sub)) in *.
  rewrite complete_item, complete_app in HC. apply andb_prop in HC. destruct HC as [HC1 HC2].
  assert (Hsub : lvl_ge (L + 1) (fst sub) = true).
  { unfold sub. destruct (e_entry s e) as [[o|o]|er|f0]; try reflexivity. apply walk_ge. }
  cbn [kids_of]. change (i_lvl (item_at s L named idx e)) with L. rewrite N.eqb_refl.
  rewrite (take_sub_app _ _ _ Hsub), (kids_of_app_ge _ _ _ Hsub). unfold rest at 1. rewrite (take_sub_loop_nil _ _ _ _ _ _ _ HC2), app_nil_r.
  constructor; [|apply IH; exact HC2].
  split; [exists idx; reflexivity|]. cbn [snd]. clear HC2 Hsub. clear rest. unfold sub in *. clear sub.
  destruct (e_entry s e) as [[o|o]|er|f0]; try reflexivity. exists d, (b - 1). split; [reflexivity|exact HC1].
Qed.

Lemma listing_kids s o L l : is_listing s o L l -> Forall2 (kid_rel s L (n_named s o)) (entries s o) (kids_of L l).
Proof.
  intros (d & b & -> & HC). destruct d as [|d]; [discriminate HC|]. cbn [walk] in HC |- *. apply walk_loop_kids. exact HC.
Qed.

Lemma find_Forall2 {A B} (R : A -> B -> Prop) (p : A -> bool) (q : B -> bool) l1 l2 :
  Forall2 R l1 l2 -> (forall a b, R a b -> p a = q b) ->
  match find p l1, find q l2 with Some a, Some b => R a b | None, None => True | _, _ => False end.
Proof.
  intros HF HP. induction HF as [|a b l1 l2 HR HF IH]; cbn [find]; [exact I|].
  rewrite <- (HP a b HR). destruct (p a); [exact HR|exact IH].
Qed.

Lemma t_get_rel s o L l q : sec_ok s -> valid_query q -> is_listing s o L l ->
  match find_entry 48 s o q, t_get L l q with
  | Some e, Some k => kid_rel s L (n_named s o) e k
  | None, None => True
  | _, _ => False
  end.
Proof.
  intros Hs Hq HL. rewrite (find_entry_first_match s o q Hs Hq). unfold t_get.
  apply find_Forall2; [apply listing_kids; exact HL|].
  intros e k [[idx Hi] _]. rewrite Hi. reflexivity.
Qed.

Lemma kid_tgt s L named e k : kid_rel s L named e k -> tgt_ent (i_tgt (fst k)) = lift (e_entry s e).
Proof. intros [[idx Hi] _]. rewrite Hi. unfold item_at. cbn [i_tgt]. destruct (e_entry s e) as [[o|o]|er|f0]; reflexivity. Qed.

(* get: the entry found in the directory = the first matching entry of the listing *)
Theorem dir_get_listing s o L l q : sec_ok s -> valid_query q -> is_listing s o L l -> dir_get 48 s o q = t_get_ent L l q.
Proof.
  intros Hs Hq HL. pose proof (t_get_rel s o L l q Hs Hq HL) as H. unfold dir_get, t_get_ent.
  destruct (find_entry 48 s o q) as [e|], (t_get L l q) as [k|]; try contradiction; [|reflexivity].
  symmetry. apply (kid_tgt _ _ _ _ _ H).
Qed.

Definition rel_dir (s : rsec) (L : N) (r1 : fres N) (r2 : fres (list witem)) : Prop :=
  match r1, r2 with
  | FOk o, FOk l => is_listing s o L l
  | FErr e1, FErr e2 => e1 = e2
  | FFault f1, FFault f2 => f1 = f2
  | _, _ => False
  end.

Lemma kid_as_dir s L named e k : kid_rel s L named e k ->
  rel_dir s (L + 1) (x <-- lift (e_entry s e) ;; as_dir x) (as_dir_l k).
Proof.
  intros [[idx Hi] Hs]. unfold as_dir_l. rewrite Hi. unfold item_at. cbn [i_tgt].
  destruct (e_entry s e) as [[o|o]|er|f0]; cbn [lift fbind as_dir rel_dir]; try reflexivity. exact Hs.
Qed.
Lemma kid_as_bytes s L named e k : kid_rel s L named e k ->
  (x <-- (y <-- lift (e_entry s e) ;; as_data y) ;; lift (data_bytes s x)) = as_bytes_l k.
Proof.
  intros [[idx Hi] Hs]. unfold as_bytes_l. rewrite Hi. unfold item_at. cbn [i_tgt].
  destruct (e_entry s e) as [[o|o]|er|f0]; cbn [lift fbind as_data]; reflexivity.
Qed.

Lemma get_dir_listing s o L l q : sec_ok s -> valid_query q -> is_listing s o L l ->
  rel_dir s (L + 1) (get_dir 48 s o q) (t_get_dir L l q).
Proof.
  intros Hs Hq HL. pose proof (t_get_rel s o L l q Hs Hq HL) as H. unfold get_dir, dir_get, t_get_dir.
  destruct (find_entry 48 s o q) as [e|], (t_get L l q) as [k|]; try contradiction; [|reflexivity].
  apply (kid_as_dir _ _ _ _ _ H).
Qed.

Lemma first_listing s o L l : is_listing s o L l ->
  match entries s o, kids_of L l with
  | e :: _, k :: _ => kid_rel s L (n_named s o) e k
  | [], [] => True
  | _, _ => False
  end.
Proof. intros HL. destruct (listing_kids s o L l HL); [exact I|assumption]. Qed.

Lemma first_dir_listing s o L l : is_listing s o L l ->
  rel_dir s (L + 1) (first_dir s o) (k <-- t_first L l ;; as_dir_l k).
Proof.
  intros HL. pose proof (first_listing s o L l HL) as H. unfold first_dir, first, t_first.
  destruct (entries s o) as [|e r], (kids_of L l) as [|k kr]; try contradiction; [reflexivity|].
  cbn [fbind]. apply (kid_as_dir _ _ _ _ _ H).
Qed.
Lemma first_bytes_listing s o L l : is_listing s o L l ->
  (x <-- first_data s o ;; lift (data_bytes s x)) = (k <-- t_first L l ;; as_bytes_l k).
Proof.
  intros HL. pose proof (first_listing s o L l HL) as H. unfold first_data, first, t_first.
  destruct (entries s o) as [|e r], (kids_of L l) as [|k kr]; try contradiction; [reflexivity|].
  cbn [fbind]. apply (kid_as_bytes _ _ _ _ _ H).
Qed.
Lemma get_bytes_listing s o L l q : sec_ok s -> valid_query q -> is_listing s o L l ->
  (x <-- get_data 48 s o q ;; lift (data_bytes s x)) = match t_get L l q with None => FErr FNotFound | Some k => as_bytes_l k end.
Proof.
  intros Hs Hq HL. pose proof (t_get_rel s o L l q Hs Hq HL) as H. unfold get_data, dir_get.
  destruct (find_entry 48 s o q) as [e|], (t_get L l q) as [k|]; try contradiction; [|reflexivity].
  apply (kid_as_bytes _ _ _ _ _ H).
Qed.

Ltac rel_cases H r1 r2 :=
  destruct r1 as [?o|?e1|?f1], r2 as [?l|?e2|?f2]; cbn [rel_dir] in H; try contradiction;
  cbn [fbind]; [|rewrite H; reflexivity|rewrite H; reflexivity].

Lemma root_ok s : dir_at s 0 = true -> root s = Ok 0.
Proof. apply dir_at_try_from. Qed.

(* [type, name] -> directory of languages *)
Lemma find_resources_listing s l a b : sec_ok s -> valid_query a -> valid_query b -> dir_at s 0 = true -> is_listing s 0 0 l ->
  rel_dir s 2 (find_resources 48 s a b) (d1 <-- t_get_dir 0 l a ;; t_get_dir 1 d1 b).
Proof.
  intros Hs Ha Hb HD HL. unfold find_resources. rewrite (root_ok s HD). cbn [lift fbind].
  pose proof (get_dir_listing s 0 0 l a Hs Ha HL) as H1. change (0 + 1) with 1 in H1.
  destruct (get_dir 48 s 0 a) as [o1|e1|f1], (t_get_dir 0 l a) as [l1|e2|f2]; cbn [rel_dir] in H1; try contradiction; cbn [fbind rel_dir]; try exact H1.
  pose proof (get_dir_listing s o1 1 l1 b Hs Hb H1) as H2. exact H2.
Qed.

Theorem find_resource_listing s l a b : sec_ok s -> valid_query a -> valid_query b -> dir_at s 0 = true -> is_listing s 0 0 l ->
  find_resource 48 s a b = t_find_resource l a b.
Proof.
  intros Hs Ha Hb HD HL. pose proof (find_resources_listing s l a b Hs Ha Hb HD HL) as H.
  unfold find_resource, t_find_resource.
  destruct (find_resources 48 s a b) as [o2|e1|f1].
  - destruct (t_get_dir 0 l a) as [l1|e2|f2]; cbn [fbind] in H |- *; try contradiction.
    destruct (t_get_dir 1 l1 b) as [l2|e2|f2]; cbn [fbind rel_dir] in H |- *; try contradiction.
    apply (first_bytes_listing s o2 2 l2 H).
  - destruct (t_get_dir 0 l a) as [l1|e2|f2]; cbn [fbind rel_dir] in H |- *; try contradiction; [|rewrite H; reflexivity].
    destruct (t_get_dir 1 l1 b) as [l2|e3|f2]; cbn [fbind rel_dir] in H |- *; try contradiction. rewrite H; reflexivity.
  - destruct (t_get_dir 0 l a) as [l1|e2|f2]; cbn [fbind rel_dir] in H |- *; try contradiction; [|rewrite H; reflexivity].
    destruct (t_get_dir 1 l1 b) as [l2|e3|f2]; cbn [fbind rel_dir] in H |- *; try contradiction. rewrite H; reflexivity.
Qed.

Theorem find_resource_ex_listing s l a b c : sec_ok s -> valid_query a -> valid_query b -> valid_query c ->
  dir_at s 0 = true -> is_listing s 0 0 l ->
  find_resource_ex 48 s a b c = t_find_resource_ex l a b c.
Proof.
  intros Hs Ha Hb Hc HD HL. pose proof (find_resources_listing s l a b Hs Ha Hb HD HL) as H.
  unfold find_resource_ex, t_find_resource_ex.
  destruct (find_resources 48 s a b) as [o2|e1|f1].
  - destruct (t_get_dir 0 l a) as [l1|e2|f2]; cbn [fbind] in H |- *; try contradiction.
    destruct (t_get_dir 1 l1 b) as [l2|e2|f2]; cbn [fbind rel_dir] in H |- *; try contradiction.
    apply (get_bytes_listing s o2 2 l2 c Hs Hc H).
  - destruct (t_get_dir 0 l a) as [l1|e2|f2]; cbn [fbind rel_dir] in H |- *; try contradiction; [|rewrite H; reflexivity].
    destruct (t_get_dir 1 l1 b) as [l2|e3|f2]; cbn [fbind rel_dir] in H |- *; try contradiction. rewrite H; reflexivity.
  - destruct (t_get_dir 0 l a) as [l1|e2|f2]; cbn [fbind rel_dir] in H |- *; try contradiction; [|rewrite H; reflexivity].
    destruct (t_get_dir 1 l1 b) as [l2|e3|f2]; cbn [fbind rel_dir] in H |- *; try contradiction. rewrite H; reflexivity.
Qed.

(* paths *)
Definition valid_parts (parts : list (list N)) : Prop := Forall (fun p => forallb scalar p = true) parts.

Lemma find_parts_listing s : sec_ok s -> forall parts, valid_parts parts ->
  (forall o L l, is_listing s o L l -> find_parts 48 s (EDir o) parts = t_find_parts L (FOk (EDir o)) (Some l) parts) /\
  (forall o L, find_parts 48 s (EData o) parts = t_find_parts L (FOk (EData o)) None parts).
Proof.
  intros Hs. induction parts as [|p r IH]; intros HV; [split; reflexivity|].
  inversion HV as [|x y Hp Hr]; subst x y. destruct (IH Hr) as [IH1 IH2]. split; [|reflexivity].
  intros o L l HL. cbn [find_parts t_find_parts].
  pose proof (t_get_rel s o L l (NStr p) Hs Hp HL) as H.
  destruct (find_entry 48 s o (NStr p)) as [e|], (t_get L l (NStr p)) as [k|]; try contradiction; [|reflexivity].
  rewrite (kid_tgt _ _ _ _ _ H). destruct H as [_ H].
  destruct (e_entry s e) as [[o'|o']|er|f0]; cbn [lift fbind]; try reflexivity.
  - apply IH1. exact H.
  - apply IH2.
Qed.

Theorem find_path_listing s l parts : sec_ok s -> valid_parts parts -> dir_at s 0 = true -> is_listing s 0 0 l ->
  find_path 48 s true parts = t_find_parts 0 (FOk (EDir 0)) (Some l) parts.
Proof.
  intros Hs HV HD HL. unfold find_path. rewrite (root_ok s HD). cbn [lift fbind].
  apply (proj1 (find_parts_listing s Hs parts HV)). exact HL.
Qed.

(* the helpers *)
Theorem version_info_listing s l : sec_ok s -> dir_at s 0 = true -> is_listing s 0 0 l ->
  version_info s = (rg <-- t_find_resource l (NId 16) (NId 1) ;;
                    if aligned_to 4 (wadd64 (rs_addr s) (r_off rg)) then FOk rg else FErr (FPe EMisaligned)).
Proof. intros Hs HD HL. unfold version_info. rewrite (find_resource_listing s l (NId RT_VERSION) (NId 1) Hs I I HD HL). reflexivity. Qed.

Theorem g_image_listing s l g id : sec_ok s -> dir_at s 0 = true -> is_listing s 0 0 l ->
  g_image s g id = t_find_resource l (NId (if g_type s g =? 1 then 3 else 1)) (NId id).
Proof. intros Hs HD HL. unfold g_image. rewrite (find_resource_listing s l (NId (if g_type s g =? 1 then RT_ICON else RT_CURSOR)) (NId id) Hs I I HD HL). destruct (g_type s g =? 1); reflexivity. Qed.

Theorem manifest_listing s l : sec_ok s -> dir_at s 0 = true -> is_listing s 0 0 l ->
  manifest s = (rg <-- t_manifest l ;; if utf8_valid (sec_bytes s (r_off rg) (r_len rg)) then FOk rg else FErr (FPe EEncoding)).
Proof.
  intros Hs HD HL. unfold manifest, t_manifest. rewrite (root_ok s HD). cbn [lift fbind].
  pose proof (get_dir_listing s 0 0 l (NId RT_MANIFEST) Hs I HL) as H1. change (0 + 1) with 1 in H1. change RT_MANIFEST with 24 in *.
  destruct (get_dir 48 s 0 (NId 24)) as [o1|e1|f1], (t_get_dir 0 l (NId 24)) as [l1|e2|f2]; cbn [rel_dir] in H1; try contradiction; cbn [fbind];
    [|rewrite H1; reflexivity|rewrite H1; reflexivity].
  pose proof (first_dir_listing s o1 1 l1 H1) as H2. change (1 + 1) with 2 in H2.
  destruct (first_dir s o1) as [o2|e1|f1].
  - destruct (t_first 1 l1) as [k1|e2|f2]; cbn [fbind] in H2 |- *; try contradiction.
    destruct (as_dir_l k1) as [l2|e2|f2]; cbn [fbind rel_dir] in H2 |- *; try contradiction.
    pose proof (first_bytes_listing s o2 2 l2 H2) as H3.
    destruct (first_data s o2) as [x|e1|f1]; cbn [fbind] in H3 |- *; rewrite <- H3; reflexivity.
  - destruct (t_first 1 l1) as [k1|e2|f2]; cbn [fbind rel_dir] in H2 |- *; try contradiction; [|rewrite H2; reflexivity].
    destruct (as_dir_l k1) as [l2|e3|f2]; cbn [fbind rel_dir] in H2 |- *; try contradiction. rewrite H2; reflexivity.
  - destruct (t_first 1 l1) as [k1|e2|f2]; cbn [fbind rel_dir] in H2 |- *; try contradiction; [|rewrite H2; reflexivity].
    destruct (as_dir_l k1) as [l2|e3|f2]; cbn [fbind rel_dir] in H2 |- *; try contradiction. rewrite H2; reflexivity.
Qed.

(* icons() / cursors() *)
Lemma group_elem s named e k : kid_rel s 1 named e k ->
  (nm <-- lift (e_name s e) ;; x <-- lift (e_entry s e) ;; d2 <-- as_dir x ;;
   de <-- first_data s d2 ;; rg <-- lift (data_bytes s de) ;; g <-- lift (group_new s rg) ;; FOk (nm, g)) =
  (x <-- (nm <-- lift (i_name (fst k)) ;; d2 <-- as_dir_l k ;; rg <-- (k2 <-- t_first 2 d2 ;; as_bytes_l k2) ;; FOk (nm, rg)) ;;
   g <-- lift (group_new s (snd x)) ;; FOk (fst x, g)).
Proof.
  intros [[idx Hi] Hs]. unfold as_dir_l. rewrite Hi. unfold item_at. cbn [i_tgt i_name]. revert Hs.
  destruct (e_name s e) as [nm|e1|f1]; cbn [lift fbind]; try reflexivity.
  destruct (e_entry s e) as [[o2|o2]|e1|f1]; cbn [lift fbind as_dir]; try reflexivity.
  change (1 + 1) with 2. intros Hs. rewrite <- (first_bytes_listing s o2 2 (snd k) Hs).
  destruct (first_data s o2) as [y|e1|f1]; cbn [fbind]; try reflexivity.
  destruct (lift (data_bytes s y)) as [rg|e1|f1]; cbn [fbind fst snd]; reflexivity.
Qed.

Theorem group_list_listing s l ty : sec_ok s -> dir_at s 0 = true -> is_listing s 0 0 l ->
  group_list s ty = map (fun r => x <-- r ;; g <-- lift (group_new s (snd x)) ;; FOk (fst x, g)) (t_groups l ty).
Proof.
  intros Hs HD HL. unfold group_list, t_groups. rewrite (root_ok s HD). cbn [lift fbind].
  pose proof (get_dir_listing s 0 0 l (NId ty) Hs I HL) as H1. change (0 + 1) with 1 in H1.
  destruct (get_dir 48 s 0 (NId ty)) as [o1|e1|f1], (t_get_dir 0 l (NId ty)) as [l1|e2|f2]; cbn [rel_dir] in H1; try contradiction; try reflexivity.
  rewrite map_map. pose proof (listing_kids s o1 1 l1 H1) as HF.
  induction HF as [|e k es ks HR HF IH]; [reflexivity|]. cbn [map]. f_equal; [|exact IH].
  apply (group_elem _ _ _ _ HR).
Qed.

(* a section that denotes a tree: its depth-first listing is a complete listing *)
Lemma clean_complete l : items_clean l = true -> complete l = true.
Proof.
  unfold items_clean, complete. induction l as [|w r IH]; cbn [forallb]; [reflexivity|]. intros H. split_andb.
  rewrite IH by assumption. destruct w; [reflexivity|discriminate|discriminate].
Qed.
Lemma repr_is_listing s o kids L : repr s (RDir o kids) = true -> is_listing s o L (flatten s L (RDir o kids)).
Proof.
  intros HR. exists (height (RDir o kids)), (size (RDir o kids)). split.
  - rewrite (walk_repr s o kids _ L _ HR (le_n _) (N.le_refl _)). reflexivity.
  - apply clean_complete, flatten_clean.
Qed.
Lemma walk_is_listing s d o L b : complete (fst (walk d s o L b)) = true -> is_listing s o L (fst (walk d s o L b)).
Proof. intros H. exists d, b. split; [reflexivity|exact H]. Qed.

(* everything the find API returns, read off a complete listing [l] of the root *)
Definition lookups_agree (s : rsec) (l : list witem) : Prop :=
  (forall q, valid_query q -> dir_get 48 s 0 q = t_get_ent 0 l q) /\
  (forall a b, valid_query a -> valid_query b -> find_resource 48 s a b = t_find_resource l a b) /\
  (forall a b c, valid_query a -> valid_query b -> valid_query c -> find_resource_ex 48 s a b c = t_find_resource_ex l a b c) /\
  (forall parts, valid_parts parts -> find_path 48 s true parts = t_find_parts 0 (FOk (EDir 0)) (Some l) parts) /\
  manifest s = (rg <-- t_manifest l ;; if utf8_valid (sec_bytes s (r_off rg) (r_len rg)) then FOk rg else FErr (FPe EEncoding)) /\
  version_info s = (rg <-- t_find_resource l (NId 16) (NId 1) ;;
                    if aligned_to 4 (wadd64 (rs_addr s) (r_off rg)) then FOk rg else FErr (FPe EMisaligned)) /\
  (forall g id, g_image s g id = t_find_resource l (NId (if g_type s g =? 1 then 3 else 1)) (NId id)) /\
  (forall ty, group_list s ty = map (fun r => x <-- r ;; g <-- lift (group_new s (snd x)) ;; FOk (fst x, g)) (t_groups l ty)).

Lemma lookups_agree_listing s l : sec_ok s -> dir_at s 0 = true -> is_listing s 0 0 l -> lookups_agree s l.
Proof.
  intros Hs HD HL. unfold lookups_agree.
  split; [intros q Hq; apply dir_get_listing; assumption|].
  split; [intros a b Ha Hb; apply find_resource_listing; assumption|].
  split; [intros a b c Ha Hb Hc; apply find_resource_ex_listing; assumption|].
  split; [intros parts Hp; apply find_path_listing; assumption|].
  split; [apply manifest_listing; assumption|].
  split; [apply version_info_listing; assumption|].
  split; [intros g id; apply g_image_listing; assumption|].
  intros ty. apply group_list_listing; assumption.
Qed.

Theorem lookups_on_walk s d b : sec_ok s -> dir_at s 0 = true -> complete (fst (walk d s 0 0 b)) = true ->
  lookups_agree s (fst (walk d s 0 0 b)).
Proof. intros Hs HD HC. apply lookups_agree_listing; [exact Hs|exact HD|apply walk_is_listing; exact HC]. Qed.

Theorem lookups_on_tree s kids : sec_ok s -> repr s (RDir 0 kids) = true -> lookups_agree s (flatten s 0 (RDir 0 kids)).
Proof.
  intros Hs HR. apply lookups_agree_listing; [exact Hs| |apply repr_is_listing; exact HR].
  cbn [repr] in HR. split_andb. assumption.
Qed.

(* get in any directory, at any level *)
Theorem dir_get_on_walk s d o L b q : sec_ok s -> valid_query q -> complete (fst (walk d s o L b)) = true ->
  dir_get 48 s o q = t_get_ent L (fst (walk d s o L b)) q.
Proof. intros Hs Hq HC. apply dir_get_listing; [exact Hs|exact Hq|apply walk_is_listing; exact HC]. Qed.
Theorem dir_get_on_tree s o kids L q : sec_ok s -> valid_query q -> repr s (RDir o kids) = true ->
  dir_get 48 s o q = t_get_ent L (flatten s L (RDir o kids)) q.
Proof. intros Hs Hq HR. apply dir_get_listing; [exact Hs|exact Hq|apply repr_is_listing; exact HR]. Qed.

(* ------------------------------------------------------------------ 4. Display / eq round trip for every id *)
Lemma digits_fuel_spec fuel : forall x acc, x < 10 ^ N.of_nat fuel -> forallb digit acc = true ->
  forallb digit (digits_fuel fuel x acc) = true /\
  exists k, forall a0, decimal_value (digits_fuel fuel x acc) a0 = decimal_value acc (a0 * 10 ^ k + x).
Proof.
  induction fuel as [|f IH]; intros x acc Hx Hacc.
  - cbn [digits_fuel]. split; [exact Hacc|]. exists 0. intros a0. f_equal. change (N.of_nat 0) with 0 in Hx. rewrite N.pow_0_r in *. lia.
  - cbn [digits_fuel]. destruct (x <? 10) eqn:X.
    + split; [cbn [forallb]; rewrite Hacc; unfold digit; lia|]. exists 1. intros a0. cbn [decimal_value]. f_equal. rewrite N.pow_1_r. lia.
    + rewrite Nat2N.inj_succ, N.pow_succ_r' in Hx.
      destruct (IH (x / 10) ((48 + x mod 10) :: acc)) as [A [k B]].
      { set (P := 10 ^ N.of_nat f) in *. lia. }
      { cbn [forallb]. rewrite Hacc. unfold digit. lia. }
      split; [exact A|]. exists (k + 1). intros a0. rewrite B. cbn [decimal_value]. f_equal.
      rewrite N.pow_add_r, N.pow_1_r. set (P := 10 ^ k). lia.
Qed.
Lemma digits_fuel_keeps fuel : forall x acc, acc <> [] -> digits_fuel fuel x acc <> [].
Proof.
  induction fuel as [|f IH]; intros x acc H; cbn [digits_fuel]; [exact H|].
  destruct (x <? 10); [discriminate|]. apply IH. discriminate.
Qed.
Lemma digits_fuel_nonempty f x : digits_fuel (S f) x [] <> [].
Proof. cbn [digits_fuel]. destruct (x <? 10); [discriminate|]. apply digits_fuel_keeps. discriminate. Qed.

(* the decimal printing of an id consists of digits only and reads back as the id *)
Lemma display_id_spec id : id < W32 ->
  exists c r, display_id id = 35 :: c :: r /\ forallb digit (c :: r) = true /\ decimal_value (c :: r) 0 = id.
Proof.
  intros Hid. unfold display_id.
  destruct (digits_fuel_spec 20 id []) as [A [k B]]; [change (10 ^ N.of_nat 20) with 100000000000000000000; unfold W32 in Hid; lia|reflexivity|].
  destruct (digits_fuel 20 id []) as [|c r] eqn:E; [exfalso; exact (digits_fuel_nonempty 19 id E)|].
  exists c, r. split; [reflexivity|]. split; [exact A|]. rewrite B. cbn [decimal_value]. lia.
Qed.

Theorem display_roundtrip id : id < W32 ->
  eq_string (NId id) (display_id id) = true /\
  name_eq (NId id) (NStr (display_id id)) = true /\ name_eq (NStr (display_id id)) (NId id) = true /\
  name_matches (NId id) (NStr (display_id id)) = true.
Proof.
  intros Hid. destruct (display_id_spec id Hid) as (c & r & E & D & V).
  assert (M : str_matches_id id (display_id id) = true).
  { rewrite E. unfold str_matches_id. cbn [forallb] in D. apply andb_prop in D. destruct D as [D1 D2]. rewrite D1, D2, V.
    rewrite !N.eqb_refl. reflexivity. }
  assert (Q : eq_string (NId id) (display_id id) = true) by (rewrite (eq_string_id id _ Hid); exact M).
  split; [exact Q|]. split; [exact Q|]. split; [exact Q|exact M].
Qed.

(* and nothing else: the printing of one id is not equal to another id *)
Theorem display_injective id id' : id < W32 -> id' < W32 -> eq_string (NId id') (display_id id) = true -> id' = id.
Proof.
  intros Hid Hid' H. rewrite (eq_string_id id' _ Hid') in H. destruct (display_id_spec id Hid) as (c & r & E & D & V).
  rewrite E in H. unfold str_matches_id in H. cbn [forallb] in D. apply andb_prop in D. destruct D as [D1 D2].
  rewrite D1, D2, V in H. rewrite N.eqb_refl in H. cbn [andb] in H. lia.
Qed.


(* ------------------------------------------------------------------ concrete sections (non-vacuity of the second round) *)
(* root -> type 24 (MANIFEST) -> name 1 -> language 1033 -> data entry at 72: 4 bytes "<a/>" at section offset 88 *)
Definition ex3_sec : rsec :=
  sec_of 4096 4096 [0;0;0;0; 0;0;0;0; 0;0;0;0; 0;0; 1;0;   24;0;0;0; 24;0;0;128;
                    0;0;0;0; 0;0;0;0; 0;0;0;0; 0;0; 1;0;   1;0;0;0; 48;0;0;128;
                    0;0;0;0; 0;0;0;0; 0;0;0;0; 0;0; 1;0;   9;4;0;0; 72;0;0;0;
                    88;16;0;0; 4;0;0;0; 0;0;0;0; 0;0;0;0;   60;97;47;62].
Definition ex3_tree : rtree := RDir 0 [(NId 24, RDir 24 [(NId 1, RDir 48 [(NId 1033, RData 72 88 4 0)])])].
Lemma ex_nonvacuous_deep :
  repr ex3_sec ex3_tree = true /\
  walk 32 ex3_sec 0 0 11 = (flatten ex3_sec 0 ex3_tree, 8) /\ items_clean (flatten ex3_sec 0 ex3_tree) = true /\
  walk_sound ex3_sec (fst (walk 32 ex3_sec 0 0 11)) = true /\
  walk_sound ex3_sec (fst (walk 2 ex3_sec 0 0 11)) = true /\ complete (fst (walk 2 ex3_sec 0 0 11)) = false /\
  find_resource 48 ex3_sec (NId 24) (NStr [35; 49]) = FOk {| r_off := 88; r_len := 4 |} /\
  t_find_resource (flatten ex3_sec 0 ex3_tree) (NId 24) (NStr [35; 49]) = FOk {| r_off := 88; r_len := 4 |} /\
  t_find_resource_ex (flatten ex3_sec 0 ex3_tree) (NStr [35; 77; 65; 78; 73; 70; 69; 83; 84]) (NId 1) (NId 1033) = FOk {| r_off := 88; r_len := 4 |} /\
  t_find_parts 0 (FOk (EDir 0)) (Some (flatten ex3_sec 0 ex3_tree)) [[35; 50; 52]; [35; 49]; [35; 49; 48; 51; 51]] = FOk (EData 72) /\
  manifest ex3_sec = FOk {| r_off := 88; r_len := 4 |} /\ t_manifest (flatten ex3_sec 0 ex3_tree) = FOk {| r_off := 88; r_len := 4 |} /\
  fsck_c ex3_sec = (Ok tt, {| c_steps := 3; c_depth := 3 |}) /\
  display_id 4294967295 = [35; 52; 50; 57; 52; 57; 54; 55; 50; 57; 53] /\ display_lines ex3_sec = 4.
Proof. vm_compute. repeat split; reflexivity. Qed.

(* ------------------------------------------------------------------ fsck: everything reachable is valid; cycles are rejected *)
Lemma repr_kids_nth s : forall kids e, repr_kids s (fun k => repr s k) e kids = true ->
  forall i nk, nth_error kids i = Some nk ->
  name_at s (e + 8 * N.of_nat i) (fst nk) = true /\ link_at s (e + 8 * N.of_nat i) (snd nk) = true /\ repr s (snd nk) = true.
Proof.
  induction kids as [|x r IH]; intros e HR i nk Hn; [destruct i; discriminate|].
  cbn [repr_kids] in HR. split_andb. destruct i as [|i]; cbn [nth_error] in Hn.
  - injection Hn as <-. replace (e + 8 * N.of_nat 0) with e by lia. repeat split; assumption.
  - replace (e + 8 * N.of_nat (S i)) with (e + 8 + 8 * N.of_nat i) by lia. apply IH; assumption.
Qed.

Lemma repr_kid_at s o kids i : repr s (RDir o kids) = true -> (i < N.to_nat (dir_count s o))%nat ->
  exists nk, In nk kids /\ name_at s (entry_pos o i) (fst nk) = true /\ link_at s (entry_pos o i) (snd nk) = true /\ repr s (snd nk) = true.
Proof.
  intros HR Hi. cbn [repr] in HR. split_andb.
  assert (Hlen : (i < length kids)%nat) by (unfold lenN in *; lia).
  destruct (nth_error kids i) as [nk|] eqn:E; [|apply nth_error_None in E; lia].
  exists nk. split; [apply (nth_error_In _ _ E)|]. unfold entry_pos.
  match goal with H : repr_kids _ _ _ _ = true |- _ => apply (repr_kids_nth s kids (o + 16) H i nk E) end.
Qed.

Lemma repr_child s o kids o1 : repr s (RDir o kids) = true -> child_dir s o o1 ->
  exists n1 kids1, In (n1, RDir o1 kids1) kids /\ repr s (RDir o1 kids1) = true.
Proof.
  intros HR (i & Hi & HB & ->). destruct (repr_kid_at s o kids i HR Hi) as ([n1 k] & Hin & _ & HL & HK). cbn [fst snd] in *.
  unfold link_at in HL. destruct k as [d st sz cp|o1 kids1]; cbn [rt_isdir rt_off] in HL; split_andb; [lia|].
  exists n1, kids1. replace (rd32 s (entry_pos o i + 4) - B31) with o1 by lia. split; assumption.
Qed.

Lemma path_height s n o o' : dir_path s n o o' -> forall kids, repr s (RDir o kids) = true ->
  exists kids', repr s (RDir o' kids') = true /\ (height (RDir o' kids') + n <= height (RDir o kids))%nat.
Proof.
  induction 1 as [o|n o o1 o' HC HP IH]; intros kids HR.
  - exists kids. split; [exact HR|lia].
  - destruct (repr_child s o kids o1 HR HC) as (n1 & kids1 & Hin & HR1).
    destruct (IH kids1 HR1) as (kids' & HR' & HH). exists kids'. split; [exact HR'|].
    pose proof (height_kid o kids (n1, RDir o1 kids1) (Nat.pred (height (RDir o kids))) Hin) as HK. cbn [snd] in HK.
    assert (0 < height (RDir o kids))%nat by (cbn [height]; lia). lia.
Qed.

Lemma path_app s n a b : dir_path s n a b -> forall m c, dir_path s m b c -> dir_path s (n + m) a c.
Proof. induction 1 as [o|n o o1 o' HC HP IH]; intros m c H2; [exact H2|]. cbn [plus]. apply (dp_step s _ o o1 c HC). apply IH. exact H2. Qed.
Lemma path_loop s m o : dir_path s (S m) o o -> forall k, dir_path s (k * S m) o o.
Proof. intros H. induction k as [|k IH]; [constructor|]. cbn [mult]. apply (path_app s _ _ _ H _ _ IH). Qed.

(* a section in which a reachable directory contains itself is rejected (any such section, not only the F16 witness) *)
Theorem fsck_rejects_cycles s : cyclic s -> fsck s <> Ok tt.
Proof.
  intros (o & n & m & H1 & H2) HF. apply fsck_iff in HF. destruct HF as (kids & HR & _).
  pose proof (path_app s _ _ _ H1 _ _ (path_loop s m o H2 (S (height (RDir 0 kids))))) as HP.
  destruct (path_height s _ _ _ HP kids HR) as (kids' & _ & HH).
  assert (S (height (RDir 0 kids)) <= S (height (RDir 0 kids)) * S m)%nat by (apply Nat.le_trans with (S (height (RDir 0 kids)) * 1)%nat; [lia|apply Nat.mul_le_mono_l; lia]).
  lia.
Qed.

(* an accepted section has no invalid reference anywhere below the root: every reachable directory is a valid directory,
   every one of its entries has a valid name and a valid target, every data entry a valid byte range *)
Theorem fsck_ok_reachable s n o : fsck s = Ok tt -> dir_path s n 0 o ->
  dir_try_from s o = Ok o /\
  forall e, In e (entries s o) ->
    (exists nm, e_name s e = Ok nm) /\
    (exists en, e_entry s e = Ok en /\ match en with EData d => exists rg, data_bytes s d = Ok rg | EDir _ => True end).
Proof.
  intros HF HP. apply fsck_iff in HF. destruct HF as (kids & HR & _).
  destruct (path_height s _ _ _ HP kids HR) as (kids' & HR' & _). split.
  - apply dir_at_try_from. cbn [repr] in HR'. split_andb. assumption.
  - intros e He. unfold entries, entry_offs in He. apply in_map_iff in He. destruct He as (i & <- & Hi). apply in_seq in Hi.
    assert (Hi' : (i < N.to_nat (dir_count s o))%nat) by (unfold dir_count, n_named, n_ids in *; lia).
    destruct (repr_kid_at s o kids' i HR' Hi') as ([n1 k] & _ & HN & HL & HK). cbn [fst snd] in *. unfold entry_pos in *.
    split; [exists n1; apply name_at_e_name; exact HN|].
    destruct (link_entry s _ k HL HK) as [_ HE]. rewrite HE. destruct k as [d st sz cp|o1 kids1]; cbn [rt_isdir rt_off].
    + exists (EData d). split; [reflexivity|]. cbn [repr] in HK. apply data_at_bytes in HK. destruct HK as (_ & HB & _). eexists. exact HB.
    + exists (EDir o1). split; [reflexivity|exact I].
Qed.

Lemma f16_cyclic : cyclic f16_witness.
Proof.
  exists 0, 0%nat, 0%nat. split; [constructor|]. apply (dp_step _ 0%nat 0 0 0); [|constructor].
  exists 0%nat. split; [vm_compute; lia|]. split; vm_compute; [discriminate|reflexivity].
Qed.
