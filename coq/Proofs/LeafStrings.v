(* src/strings.rs is_printable_ascii, regenerated into gen/Leaf.v, equals Model/Strings.v is_printable (C20). *)
From PV.Model Require Import Machine Strings.
From PV.gen Require Import Leaf.
From PV.Proofs Require Import BaseProofs LeafBase.
Ltac Zify.zify_post_hook ::= Z.div_mod_to_equations.
(* the source may change under these proofs: a step that does not finish fails instead of hanging the build *)
Set Default Timeout 120.

(* the domain is u8: byte < 256; the statement is decided for each of the 256 bytes *)
Lemma is_printable_ascii_dom : forall b, L_strings_is_printable_ascii_dom b = true <-> b < 256.
Proof. intros b. unfold L_strings_is_printable_ascii_dom. lia. Qed.

Lemma is_printable_ascii_agrees : forall b, L_strings_is_printable_ascii_dom b = true ->
  L_strings_is_printable_ascii_ok b = true /\ L_strings_is_printable_ascii b = is_printable b.
Proof.
  intros b Hb. apply is_printable_ascii_dom in Hb.
  pose proof (sweep256 (fun b => L_strings_is_printable_ascii_ok b && Bool.eqb (L_strings_is_printable_ascii b) (is_printable b))) as S.
  assert (H : forallb (fun b => L_strings_is_printable_ascii_ok b && Bool.eqb (L_strings_is_printable_ascii b) (is_printable b))
                      bytes256 = true) by (vm_compute; reflexivity).
  specialize (S H b Hb). apply andb_prop in S. destruct S as [S1 S2]. split; [exact S1|]. apply Bool.eqb_prop. exact S2.
Qed.

(* what each binder of the generated definitions stands for in the source (third audit, F2): a function that starts
   reading another field or index changes coq/gen/Leaf.v only in these lists *)
From Coq Require Import List String.
Import ListNotations.
Lemma leaf_reads_strings :
  L_strings_is_printable_ascii_args = ["arg1 : u8"%string].
Proof. repeat split; reflexivity. Qed.
