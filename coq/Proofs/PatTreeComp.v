(* Proofs for C11 theorem 3b, part 2: the compiler output is the flattening of a tree ([tcomp], the compiler of
   Spec/PatSyntax.v on trees), and under the structural interpreter that tree equals the plain concatenation [cisos] of the
   items' trees (a merged skip is two skips), at every nesting depth. *)
From PV.Model Require Import Machine Pattern Exec.
From PV.Spec Require Import PatSyntax PatSem.
From PV.Proofs Require Import BaseProofs PatSyntaxProofs PatSemProofs PatTree.
Ltac Zify.zify_post_hook ::= Z.div_mod_to_equations.

(* ---------------------------------------------------------------- induction on items *)
Section ItemInd.
  Variable P : item -> Prop.
  Hypothesis Hflat : forall it, flat_item it = true -> P it.
  Hypothesis Hsub : forall j sub, Forall P sub -> P (ISub j sub).
  Hypothesis Halt : forall a more, Forall P a -> Forall (Forall P) more -> P (IAlt a more).
  Fixpoint item_ind2 (it : item) : P it :=
    let go := fix go (l : list item) : Forall P l := match l with [] => Forall_nil _ | y :: t => Forall_cons _ (item_ind2 y) (go t) end in
    match it with
    | ISub j sub => Hsub j sub (go sub)
    | IAlt a more => Halt a more (go a)
        ((fix gos (ls : list (list item)) : Forall (Forall P) ls := match ls with [] => Forall_nil _ | l :: t => Forall_cons _ (go l) (gos t) end) more)
    | IByte b => Hflat (IByte b) eq_refl
    | IStr s => Hflat (IStr s) eq_refl
    | IWild n => Hflat (IWild n) eq_refl
    | ISkip n => Hflat (ISkip n) eq_refl
    | IRange a b => Hflat (IRange a b) eq_refl
    | ISave => Hflat ISave eq_refl
    | IRead r => Hflat (IRead r) eq_refl
    | IZero => Hflat IZero eq_refl
    | IAlign k => Hflat (IAlign k) eq_refl
    | IJump j => Hflat (IJump j) eq_refl
    end.
End ItemInd.

Lemma comp_seq_cons x t c : comp_seq (x :: t) c = comp_seq t (comp_item x c).
Proof. reflexivity. Qed.

(* ================================================================ (A) the compiler does not look at a prefix *)
Lemma guard_emit P c l : guard P c -> guard P (emit c l).
Proof.
  intros G E Hc. unfold emit in E, Hc. cbn [c_res c_closed] in E, Hc. apply app_eq_nil in E. destruct E as [E1 ->]. exact (G E1 Hc).
Qed.

Definition PreI (it : item) : Prop := forall P c, guard P c -> comp_item it (pre P c) = pre P (comp_item it c) /\ guard P (comp_item it c).
Definition PreS (l : list item) : Prop := forall P c, guard P c -> comp_seq l (pre P c) = pre P (comp_seq l c) /\ guard P (comp_seq l c).

Lemma preS_of l : Forall PreI l -> PreS l.
Proof.
  induction 1 as [|x t Hx _ IH]; intros P c G; [split; [reflexivity|exact G]|].
  rewrite !comp_seq_cons. destruct (Hx P c G) as [E G']. rewrite E. apply IH. exact G'.
Qed.

Lemma comp_pre it : PreI it.
Proof.
  induction it as [it Hf|j sub IH|a more IHa IHm] using item_ind2; intros P c G.
  - destruct it; try discriminate Hf; cbn [comp_item];
    try (split; [symmetry; apply pre_emit|apply guard_emit; exact G]);
    try (split; [symmetry; apply pre_emit_slot|apply guard_nonempty; unfold emit_slot; cbn [c_res]; intros E; apply app_eq_nil in E; destruct E; discriminate]).
    split; [symmetry; apply pre_wild; exact G|].
    destruct (iter_wild_nonempty n c) as [H| ->]; [apply guard_nonempty; exact H|exact G].
  - cbn [comp_item]. fold (comp_seq sub (emit (pre P c) [Push (jpush j); jatom j])). fold (comp_seq sub (emit c [Push (jpush j); jatom j])).
    rewrite <- pre_emit.
    assert (G1 : guard P (emit c [Push (jpush j); jatom j])).
    { apply guard_nonempty. unfold emit. cbn [c_res]. intros E. apply app_eq_nil in E. destruct E; discriminate. }
    destruct (preS_of sub IH P _ G1) as [E _]. rewrite E, <- pre_emit. split; [reflexivity|].
    apply guard_nonempty. unfold emit. cbn [c_res]. intros E'. apply app_eq_nil in E'. destruct E'; discriminate.
  - cbn [comp_item]. split.
    + unfold pre. cbn [c_res c_save c_closed]. rewrite <- app_assoc. reflexivity.
    + intros _ Hc. discriminate Hc.
Qed.
Lemma comp_pre_seq l : PreS l.
Proof. apply preS_of. induction l; constructor; [apply comp_pre|assumption]. Qed.

(* ================================================================ (B) the compiler on trees *)
Record tst := { t_res : list code; t_save : N; t_closed : bool }.
Definition untree (tc : tst) : cst := {| c_res := flattens (t_res tc); c_save := t_save tc; c_closed := t_closed tc |}.
Definition temit (tc : tst) (l : list atom) : tst :=
  {| t_res := t_res tc ++ map CA l; t_save := t_save tc; t_closed := match l with [] => t_closed tc | _ :: _ => false end |}.
Definition temit_slot (tc : tst) (mk : N -> atom) : tst :=
  {| t_res := t_res tc ++ [CA (mk (t_save tc))]; t_save := t_save tc + 1; t_closed := false |}.
Definition twild1 (tc : tst) : tst :=
  match rev (t_res tc) with
  | CA (Skip k) :: r =>
    if negb (t_closed tc) && negb (k =? 0) && (k <? 255)
    then {| t_res := rev r ++ [CA (Skip (k + 1))]; t_save := t_save tc; t_closed := false |}
    else temit tc [Skip 1]
  | _ => temit tc [Skip 1]
  end.
Fixpoint tcomp_item (it : item) (tc : tst) {struct it} : tst :=
  match it with
  | IByte b => temit tc [Byte b]
  | IStr s => temit tc (map Byte s)
  | IWild n => Nat.iter n twild1 tc
  | ISkip n => temit tc (skip_atoms n)
  | IRange a b => temit tc (skip_atoms a ++ many_atoms (b - a))
  | ISave => temit_slot tc Save
  | IRead r => temit_slot tc (ratom r)
  | IZero => temit_slot tc Zero
  | IAlign k => temit tc [Aligned k]
  | IJump j => temit tc [jatom j]
  | ISub j sub =>
    let b := fold_left (fun c x => tcomp_item x c) sub {| t_res := [CA (jatom j)]; t_save := t_save tc; t_closed := false |} in
    {| t_res := t_res tc ++ [CSub (jpush j) (t_res b)]; t_save := t_save b; t_closed := false |}
  | IAlt a more =>
    let fresh := {| t_res := []; t_save := t_save tc; t_closed := false |} in
    let cs := fold_left (fun c x => tcomp_item x c) a fresh :: map (fun alt => fold_left (fun c x => tcomp_item x c) alt fresh) more in
    {| t_res := t_res tc ++ [CAlt (map t_res cs)]; t_save := fold_right N.max 0 (map t_save cs); t_closed := true |}
  end.
Definition tcomp_seq (l : list item) (tc : tst) : tst := fold_left (fun c x => tcomp_item x c) l tc.
Lemma tcomp_seq_cons x t tc : tcomp_seq (x :: t) tc = tcomp_seq t (tcomp_item x tc).
Proof. reflexivity. Qed.

(* a tree that ends in a group of alternatives has the flag set *)
Definition tinv (tc : tst) : Prop := match rev (t_res tc) with CAlt _ :: _ => t_closed tc = true | _ => True end.
Definition tokb (tc : tst) : bool := forallb code_ok (t_res tc).

Lemma flattens_CA l : flattens (map CA l) = l.
Proof. induction l as [|a t IH]; [reflexivity|]. cbn [map flat_map flatten1 app]. rewrite IH. reflexivity. Qed.
Lemma untree_temit tc l : untree (temit tc l) = emit (untree tc) l.
Proof. unfold untree, temit, emit. cbn [t_res t_save t_closed c_res c_save c_closed]. rewrite flat_map_app, flattens_CA. reflexivity. Qed.
Lemma untree_temit_slot tc mk : untree (temit_slot tc mk) = emit_slot (untree tc) mk.
Proof. unfold untree, temit_slot, emit_slot. cbn [t_res t_save t_closed c_res c_save c_closed]. rewrite flat_map_app. reflexivity. Qed.
Lemma tinv_snoc_CA T a s cl : tinv {| t_res := T ++ [CA a]; t_save := s; t_closed := cl |}.
Proof. unfold tinv. cbn [t_res]. rewrite rev_app_distr. exact I. Qed.
Lemma tinv_temit tc l : tinv tc -> tinv (temit tc l).
Proof.
  intros H. destruct l as [|a l].
  - unfold tinv, temit. cbn [map t_res t_closed]. rewrite app_nil_r. exact H.
  - unfold tinv, temit. cbn [t_res]. rewrite rev_app_distr.
    assert (Hne : a :: l <> []) by discriminate. destruct (exists_last Hne) as [l' [z E]]. rewrite E, map_app, rev_app_distr. exact I.
Qed.
Lemma tokb_temit tc l : forallb atom_ok l = true -> tokb tc = true -> tokb (temit tc l) = true.
Proof.
  intros Hl H. unfold tokb in *. unfold temit. cbn [t_res]. rewrite forallb_app, H. cbn [andb].
  induction l as [|a t IH]; [reflexivity|]. cbn [forallb] in Hl. apply andb_prop in Hl. cbn [map forallb code_ok]. rewrite (proj1 Hl). apply IH. exact (proj2 Hl).
Qed.

Lemma untree_twild1 tc : tinv tc -> untree (twild1 tc) = wild1 (untree tc) /\ tinv (twild1 tc) /\ (tokb tc = true -> tokb (twild1 tc) = true).
Proof.
  intros Hi.
  assert (Hemit : untree (temit tc [Skip 1]) = emit (untree tc) [Skip 1] /\ tinv (temit tc [Skip 1]) /\ (tokb tc = true -> tokb (temit tc [Skip 1]) = true)).
  { split; [apply untree_temit|split; [apply tinv_temit; exact Hi|apply tokb_temit; reflexivity]]. }
  unfold twild1, wild1, tinv in *. destruct (rev (t_res tc)) as [|x r] eqn:Er.
  - apply (f_equal (@rev code)) in Er. rewrite rev_involutive in Er. cbn [rev] in Er.
    unfold untree at 2. cbn [c_res]. rewrite Er. cbn [flat_map last_atom rev]. exact Hemit.
  - apply (f_equal (@rev code)) in Er. rewrite rev_involutive in Er. cbn [rev] in Er.
    destruct x as [a|n body|ls].
    + assert (El : last_atom (c_res (untree tc)) = Some a).
      { unfold untree. cbn [c_res]. rewrite Er, flat_map_app. cbn [flat_map flatten1 app]. apply last_atom_snoc. }
      rewrite El. destruct a; try exact Hemit.
      change (c_closed (untree tc)) with (t_closed tc).
      destruct (negb (t_closed tc) && negb (k =? 0) && (k <? 255)); [|exact Hemit].
      split; [|split].
      * unfold untree. cbn [t_res t_save t_closed c_res c_save c_closed]. rewrite Er, !flat_map_app. cbn [flat_map flatten1 app].
        rewrite set_last_snoc. reflexivity.
      * apply tinv_snoc_CA.
      * unfold tokb. cbn [t_res]. rewrite Er, !forallb_app. cbn [forallb code_ok atom_ok]. intros H. exact H.
    + assert (El : last_atom (c_res (untree tc)) = Some Pop).
      { unfold untree. cbn [c_res]. rewrite Er, flat_map_app. cbn [flat_map flatten1]. rewrite app_nil_r.
        change (Push n :: flattens body ++ [Pop]) with ((Push n :: flattens body) ++ [Pop]). rewrite app_assoc. apply last_atom_snoc. }
      rewrite El. exact Hemit.
    + change (c_closed (untree tc)) with (t_closed tc). rewrite Hi.
      destruct (last_atom (c_res (untree tc))) as [a|]; [|exact Hemit]. destruct a; exact Hemit.
Qed.
Lemma untree_twild n : forall tc, tinv tc ->
  untree (Nat.iter n twild1 tc) = Nat.iter n wild1 (untree tc) /\ tinv (Nat.iter n twild1 tc) /\ (tokb tc = true -> tokb (Nat.iter n twild1 tc) = true).
Proof.
  induction n as [|n IH]; intros tc Hi; [split; [reflexivity|split; [exact Hi|intros H; exact H]]|].
  rewrite !iter_succ_r. destruct (untree_twild1 tc Hi) as [E [Hi' Hk]]. rewrite <- E.
  destruct (IH _ Hi') as [E2 [Hi2 Hk2]]. split; [exact E2|split; [exact Hi2|intros H; apply Hk2, Hk, H]].
Qed.

Lemma atom_ok_bytes bs : forallb atom_ok (map Byte bs) = true.
Proof. induction bs as [|b t IH]; [reflexivity|exact IH]. Qed.
Lemma atom_ok_skip n : forallb atom_ok (skip_atoms n) = true.
Proof. unfold skip_atoms. destruct (n =? 0); [reflexivity|]. destruct (256 <=? n); reflexivity. Qed.
Lemma atom_ok_many n : forallb atom_ok (many_atoms n) = true.
Proof. unfold many_atoms. destruct (256 <=? n); reflexivity. Qed.

Definition TcI (it : item) : Prop := forall tc, tinv tc ->
  comp_item it (untree tc) = untree (tcomp_item it tc) /\ tinv (tcomp_item it tc) /\ (tokb tc = true -> tokb (tcomp_item it tc) = true).
Definition TcS (l : list item) : Prop := forall tc, tinv tc ->
  comp_seq l (untree tc) = untree (tcomp_seq l tc) /\ tinv (tcomp_seq l tc) /\ (tokb tc = true -> tokb (tcomp_seq l tc) = true).

Lemma tcS_of l : Forall TcI l -> TcS l.
Proof.
  induction 1 as [|x t Hx _ IH]; intros tc Hi; [split; [reflexivity|split; [exact Hi|intros H; exact H]]|].
  rewrite comp_seq_cons, tcomp_seq_cons. destruct (Hx tc Hi) as [E [Hi' Hk]]. rewrite E.
  destruct (IH _ Hi') as [E2 [Hi2 Hk2]]. split; [exact E2|split; [exact Hi2|intros H; apply Hk2, Hk, H]].
Qed.

Lemma tcomp_flatten it : TcI it.
Proof.
  induction it as [it Hf|j sub IH|a more IHa IHm] using item_ind2; intros tc Hi.
  - destruct it; try discriminate Hf; cbn [comp_item tcomp_item];
    try (split; [symmetry; apply untree_temit|split; [apply tinv_temit; exact Hi|apply tokb_temit; first [reflexivity|apply atom_ok_bytes|apply atom_ok_skip]]]);
    try (split; [symmetry; apply untree_temit_slot|split; [apply tinv_snoc_CA|unfold tokb, temit_slot; cbn [t_res]; rewrite forallb_app; intros H; rewrite H; reflexivity]]).
    + destruct (untree_twild n tc Hi) as [E [H1 H2]]. split; [symmetry; exact E|split; assumption].
    + split; [symmetry; apply untree_temit|split; [apply tinv_temit; exact Hi|apply tokb_temit]].
      rewrite forallb_app, atom_ok_skip, atom_ok_many. reflexivity.
    + split; [symmetry; apply untree_temit_slot|split; [apply tinv_snoc_CA|unfold tokb, temit_slot; cbn [t_res]; rewrite forallb_app; intros H; rewrite H; destruct r; reflexivity]].
    + split; [symmetry; apply untree_temit|split; [apply tinv_temit; exact Hi|apply tokb_temit; destruct j; reflexivity]].
  - cbn [comp_item tcomp_item].
    set (tb := {| t_res := [CA (jatom j)]; t_save := t_save tc; t_closed := false |}).
    fold (comp_seq sub (emit (untree tc) [Push (jpush j); jatom j])). fold (tcomp_seq sub tb).
    assert (E0 : emit (untree tc) [Push (jpush j); jatom j] = pre (flattens (t_res tc) ++ [Push (jpush j)]) (untree tb)).
    { unfold emit, pre, untree, tb. cbn [c_res c_save c_closed t_res t_save t_closed flat_map flatten1 app]. rewrite <- app_assoc. reflexivity. }
    rewrite E0.
    assert (G : guard (flattens (t_res tc) ++ [Push (jpush j)]) (untree tb)) by (apply guard_nonempty; discriminate).
    destruct (comp_pre_seq sub _ _ G) as [E1 _]. rewrite E1.
    destruct (tcS_of sub IH tb I) as [E2 [_ Hk]]. rewrite E2.
    split; [|split].
    + unfold emit, pre, untree. cbn [c_res c_save c_closed t_res t_save t_closed]. rewrite flat_map_app. cbn [flat_map flatten1].
      rewrite app_nil_r, <- !app_assoc. reflexivity.
    + unfold tinv. cbn [t_res]. rewrite rev_app_distr. exact I.
    + unfold tokb. cbn [t_res]. rewrite forallb_app. intros H. rewrite H. cbn [forallb code_ok andb]. rewrite andb_true_r.
      apply Hk. unfold tokb, tb. cbn [t_res forallb code_ok]. destruct j; reflexivity.
  - cbn [comp_item tcomp_item].
    set (fc := {| c_res := []; c_save := c_save (untree tc); c_closed := false |}).
    set (ft := {| t_res := []; t_save := t_save tc; t_closed := false |}).
    fold (comp_seq a fc). fold (tcomp_seq a ft).
    assert (Ef : fc = untree ft) by reflexivity.
    assert (Ea : comp_seq a fc = untree (tcomp_seq a ft) /\ tokb (tcomp_seq a ft) = true).
    { rewrite Ef. destruct (tcS_of a IHa ft I) as [E [_ Hk]]. split; [exact E|apply Hk; reflexivity]. }
    assert (Em : map (fun alt => fold_left (fun c x => comp_item x c) alt fc) more = map untree (map (fun alt => fold_left (fun c x => tcomp_item x c) alt ft) more)
                 /\ forallb tokb (map (fun alt => fold_left (fun c x => tcomp_item x c) alt ft) more) = true).
    { clear Ea. induction IHm as [|l t Hl _ IHt]; [split; reflexivity|]. cbn [map forallb].
      destruct IHt as [E1 E2]. rewrite E1, E2.
      fold (comp_seq l fc). fold (tcomp_seq l ft). rewrite Ef. destruct (tcS_of l Hl ft I) as [E [_ Hk]]. rewrite E, Hk by reflexivity. split; reflexivity. }
    destruct Ea as [Ea Ka]. destruct Em as [Em Km]. rewrite Ea, Em.
    split; [|split].
    + set (M := map (fun alt => fold_left (fun c x => tcomp_item x c) alt ft) more).
      change (untree (tcomp_seq a ft) :: map untree M) with (map untree (tcomp_seq a ft :: M)).
      generalize (tcomp_seq a ft :: M). intros L.
      assert (E1 : map c_res (map untree L) = map flattens (map t_res L)) by (rewrite !map_map; reflexivity).
      assert (E2 : map c_save (map untree L) = map t_save L) by (rewrite map_map; reflexivity).
      rewrite E1, E2. unfold untree. cbn [t_res t_save t_closed c_res c_save c_closed]. rewrite flat_map_app. cbn [flat_map flatten1]. rewrite app_nil_r. reflexivity.
    + unfold tinv. cbn [t_res t_closed]. rewrite rev_app_distr. reflexivity.
    + unfold tokb. cbn [t_res]. rewrite forallb_app. intros H. rewrite H. cbn [forallb code_ok map andb]. rewrite andb_true_r.
      unfold tokb in Ka. rewrite Ka. cbn [andb]. clear - Km. induction (map (fun alt => fold_left (fun c x => tcomp_item x c) alt ft) more) as [|y t IH]; [reflexivity|].
      cbn [forallb map] in *. apply andb_prop in Km. destruct Km as [K1 K2]. unfold tokb in K1. rewrite K1. apply IH. exact K2.
Qed.
Lemma tcomp_flatten_seq l : TcS l.
Proof. apply tcS_of. induction l; constructor; [apply tcomp_flatten|assumption]. Qed.

(* ================================================================ (C) merged skips are two skips, at every depth *)
Fixpoint ciso (it : item) (s : N) {struct it} : list code :=
  let seq := fix seq (l : list item) (s : N) {struct l} : list code :=
    match l with [] => [] | x :: t => ciso x s ++ seq t (s + slots_of x) end in
  match it with
  | ISub j sub => [CSub (jpush j) (CA (jatom j) :: seq sub s)]
  | IAlt a more => [CAlt (seq a s :: map (fun l => seq l s) more)]
  | _ => map CA (iso it s)
  end.
Definition cisos : list item -> N -> list code :=
  fix seq (l : list item) (s : N) {struct l} : list code :=
    match l with [] => [] | x :: t => ciso x s ++ seq t (s + slots_of x) end.
Lemma cisos_cons x t s : cisos (x :: t) s = ciso x s ++ cisos t (s + slots_of x).
Proof. reflexivity. Qed.

Section Merge.
  Variable sc : scan.
  Definition ceq (A B : list code) : Prop := forall rest k, keq (cdens sc A rest k) (cdens sc B rest k).

  Lemma ceq_refl A : ceq A A.
  Proof. intros rest k. apply keq_refl. Qed.
  Lemma ceq_trans A B C : ceq A B -> ceq B C -> ceq A C.
  Proof. intros H1 H2 rest k c m e s. rewrite H1. apply H2. Qed.
  Lemma ceq_app_r A B S : ceq A B -> ceq (A ++ S) (B ++ S).
  Proof. intros H rest k c m e s. rewrite !(cdens_app sc). apply H. Qed.
  (* replacing the last element: what can be peeked must not change *)
  Lemma ceq_last R X Y : (forall rest, peq (flattens X ++ rest) (flattens Y ++ rest)) -> ceq X Y -> ceq (R ++ X) (R ++ Y).
  Proof.
    intros Hp H rest k c m e s. rewrite !(cdens_app sc). apply cdens_cong; [apply Hp|apply H].
  Qed.

  Lemma ceq_merge R k : 0 < k -> ceq (R ++ [CA (Skip (k + 1))]) (R ++ [CA (Skip k); CA (Skip 1)]).
  Proof.
    intros Hk. apply ceq_last.
    - intros rest. cbn [flat_map flatten1 app]. apply peq_opaque; reflexivity.
    - intros rest K c m e s. rewrite !cdens_cons. cbn [flat_map app cden1 cdens catom]. unfold skip_amount.
      destruct (e + (k + 1) =? 0) eqn:E1; [lia|]. destruct (e + k =? 0) eqn:E2; [lia|].
      change (0 + 1 =? 0) with false. cbv iota. rewrite wadd32_wadd32. replace (e + k + (0 + 1)) with (e + (k + 1)) by lia. reflexivity.
  Qed.

  Lemma ceq_sub R n A B : ceq A B -> ceq (R ++ [CSub n A]) (R ++ [CSub n B]).
  Proof.
    intros H. apply ceq_last.
    - intros rest. cbn [flat_map flatten1 app]. apply peq_opaque; reflexivity.
    - intros rest K c m e s. rewrite !cdens_cons. cbn [flat_map app]. rewrite !cden1_sub. cbv zeta. rewrite (H (Pop :: rest) kret). reflexivity.
  Qed.

  Lemma alt_code_opaque ls : ls <> [] -> exists a r, alt_code ls = a :: r /\ opaque a = true.
  Proof.
    destruct ls as [|l t]; [contradiction|]. intros _. destruct t as [|l2 t]; cbn [alt_code].
    - exists Nop, l. split; reflexivity.
    - eexists. eexists. split; reflexivity.
  Qed.

  Lemma ceq_alt_inner ls ls' : Forall2 ceq ls ls' -> forall rest K, keq (cden1 sc (CAlt ls) rest K) (cden1 sc (CAlt ls') rest K).
  Proof.
    induction 1 as [|l l' t t' Hl Ht IH]; intros rest K c m e s; [reflexivity|].
    destruct Ht as [|l2 l2' t t' Hl2 Ht].
    - rewrite !cden1_alt_one. apply Hl.
    - rewrite !cden1_alt_cons. cbv zeta.
      rewrite (Hl (Break (N.of_nat (length (alt_code (map flattens (l2 :: t))))) :: alt_code (map flattens (l2 :: t)) ++ rest) kret).
      rewrite (cdens_cong sc l' _ (Break (N.of_nat (length (alt_code (map flattens (l2' :: t'))))) :: alt_code (map flattens (l2' :: t')) ++ rest) kret kret);
        [|apply peq_opaque; reflexivity|apply keq_refl].
      destruct (a_ok _); [reflexivity|]. apply IH.
  Qed.
  Lemma ceq_alt R ls ls' : ls <> [] -> Forall2 ceq ls ls' -> ceq (R ++ [CAlt ls]) (R ++ [CAlt ls']).
  Proof.
    intros Hne H. apply ceq_last.
    - intros rest. cbn [flat_map flatten1]. rewrite !app_nil_r.
      assert (Hne' : ls' <> []) by (intros ->; inversion H; subst; contradiction).
      destruct (alt_code_opaque (map flattens ls)) as [a [r [E Ho]]]; [destruct ls; [contradiction|discriminate]|].
      destruct (alt_code_opaque (map flattens ls')) as [a' [r' [E' Ho']]]; [destruct ls'; [contradiction|discriminate]|].
      rewrite E, E'. cbn [app]. apply peq_opaque; assumption.
    - intros rest K c m e s. rewrite !cdens_cons. cbn [flat_map app]. apply ceq_alt_inner. exact H.
  Qed.

  Lemma rev_cons_inv {A} (l : list A) x r : rev l = x :: r -> l = rev r ++ [x].
  Proof. intros E. apply (f_equal (@rev A)) in E. rewrite rev_involutive in E. exact E. Qed.

  Lemma ceq_twild1 tc : ceq (t_res (twild1 tc)) (t_res tc ++ [CA (Skip 1)]) /\ t_save (twild1 tc) = t_save tc.
  Proof.
    unfold twild1. destruct (rev (t_res tc)) as [|x r] eqn:Er; [split; [apply ceq_refl|reflexivity]|].
    destruct x as [a| |]; try (split; [apply ceq_refl|reflexivity]).
    destruct a; try (split; [apply ceq_refl|reflexivity]).
    destruct (negb (t_closed tc) && negb (k =? 0) && (k <? 255)) eqn:Ec; [|split; [apply ceq_refl|reflexivity]].
    split; [|reflexivity]. cbn [t_res]. rewrite (rev_cons_inv _ _ _ Er), <- app_assoc. apply ceq_merge. lia.
  Qed.
  Lemma ceq_twild n : forall tc, ceq (t_res (Nat.iter n twild1 tc)) (t_res tc ++ map CA (repeat (Skip 1) n)) /\ t_save (Nat.iter n twild1 tc) = t_save tc.
  Proof.
    induction n as [|n IH]; intros tc.
    - cbn [Nat.iter nat_rect repeat map]. rewrite app_nil_r. split; [apply ceq_refl|reflexivity].
    - rewrite iter_succ_r. destruct (IH (twild1 tc)) as [H1 H2]. destruct (ceq_twild1 tc) as [H3 H4]. split; [|rewrite H2; exact H4].
      eapply ceq_trans; [exact H1|]. cbn [repeat map]. change (CA (Skip 1) :: map CA (repeat (Skip 1) n)) with ([CA (Skip 1)] ++ map CA (repeat (Skip 1) n)).
      rewrite app_assoc. apply ceq_app_r. exact H3.
  Qed.

  Definition CeqI (it : item) : Prop := forall tc, ceq (t_res (tcomp_item it tc)) (t_res tc ++ ciso it (t_save tc)) /\ t_save (tcomp_item it tc) = t_save tc + slots_of it.
  Definition CeqS (l : list item) : Prop := forall tc, ceq (t_res (tcomp_seq l tc)) (t_res tc ++ cisos l (t_save tc)) /\ t_save (tcomp_seq l tc) = t_save tc + nslots l.

  Lemma ceqS_of l : Forall CeqI l -> CeqS l.
  Proof.
    induction 1 as [|x t Hx _ IH]; intros tc.
    - cbn [tcomp_seq fold_left cisos nslots fold_right]. rewrite app_nil_r, N.add_0_r. split; [apply ceq_refl|reflexivity].
    - rewrite tcomp_seq_cons. destruct (Hx tc) as [H1 H2]. destruct (IH (tcomp_item x tc)) as [H3 H4]. split.
      + eapply ceq_trans; [exact H3|]. rewrite H2, cisos_cons, app_assoc. apply ceq_app_r. exact H1.
      + rewrite H4, H2. cbn [nslots fold_right]. fold (nslots t). lia.
  Qed.

  Lemma max_shift s (f : list item -> N) a more :
    fold_right N.max 0 (map (fun l => s + f l) (a :: more)) = s + fold_right N.max 0 (map f (a :: more)).
  Proof.
    revert a. induction more as [|b t IH]; intros a; cbn [map fold_right]; [lia|].
    specialize (IH b). cbn [map fold_right] in IH. rewrite IH. lia.
  Qed.

  Lemma ceq_tcomp it : CeqI it.
  Proof.
    induction it as [it Hf|j sub IH|a more IHa IHm] using item_ind2; intros tc.
    - destruct it; try discriminate Hf; cbn [tcomp_item ciso iso slots_of temit temit_slot t_res t_save];
      try (split; [apply ceq_refl|lia]).
      destruct (ceq_twild n tc) as [H1 H2]. split; [exact H1|lia].
    - cbn [tcomp_item ciso slots_of t_res t_save].
      set (tb := {| t_res := [CA (jatom j)]; t_save := t_save tc; t_closed := false |}).
      fold (tcomp_seq sub tb). fold (cisos sub (t_save tc)). fold (nslots sub).
      destruct (ceqS_of sub IH tb) as [H1 H2]. split; [|rewrite H2; reflexivity].
      apply ceq_sub. exact H1.
    - cbn [tcomp_item ciso t_res t_save].
      set (ft := {| t_res := []; t_save := t_save tc; t_closed := false |}).
      fold (tcomp_seq a ft). fold (cisos a (t_save tc)).
      change (map (fun l => (fix seq (l0 : list item) (s : N) {struct l0} : list code := match l0 with [] => [] | x :: t => ciso x s ++ seq t (s + slots_of x) end) l (t_save tc)) more)
        with (map (fun l => cisos l (t_save tc)) more).
      change (map (fun alt => fold_left (fun c x => tcomp_item x c) alt ft) more) with (map (fun alt => tcomp_seq alt ft) more).
      assert (Hall : Forall (fun l => ceq (t_res (tcomp_seq l ft)) (cisos l (t_save tc)) /\ t_save (tcomp_seq l ft) = t_save tc + nslots l) (a :: more)).
      { constructor; [apply (ceqS_of a IHa ft)|]. clear - IHm. induction IHm as [|l t Hl _ IHt]; constructor; [apply (ceqS_of l Hl ft)|exact IHt]. }
      split.
      + apply ceq_alt; [discriminate|].
        change (tcomp_seq a ft :: map (fun alt => tcomp_seq alt ft) more) with (map (fun alt => tcomp_seq alt ft) (a :: more)).
        change (cisos a (t_save tc) :: map (fun l => cisos l (t_save tc)) more) with (map (fun l => cisos l (t_save tc)) (a :: more)).
        clear - Hall. induction Hall as [|l t [Hl _] _ IH]; cbn [map]; constructor; assumption.
      + change (tcomp_seq a ft :: map (fun alt => tcomp_seq alt ft) more) with (map (fun alt => tcomp_seq alt ft) (a :: more)).
        rewrite map_map.
        replace (map (fun x => t_save (tcomp_seq x ft)) (a :: more)) with (map (fun l => t_save tc + nslots l) (a :: more)).
        * rewrite max_shift. reflexivity.
        * clear - Hall. induction Hall as [|l t [_ Hl] _ IH]; cbn [map]; [reflexivity|]. rewrite Hl, IH. reflexivity.
  Qed.
  Lemma ceq_tcomp_seq l : CeqS l.
  Proof. apply ceqS_of. induction l; constructor; [apply ceq_tcomp|assumption]. Qed.
End Merge.

(* the whole pattern *)
Definition tinit : tst := {| t_res := [CA (Save 0)]; t_save := 1; t_closed := false |}.
Lemma comp_tree a : c_res (comp_seq a cinit) = flattens (t_res (tcomp_seq a tinit)) /\ forallb code_ok (t_res (tcomp_seq a tinit)) = true.
Proof.
  change cinit with (untree tinit). destruct (tcomp_flatten_seq a tinit I) as [E [_ Hk]]. rewrite E. split; [reflexivity|apply Hk; reflexivity].
Qed.
