(* C11, the converse of theorem 2: every string the parser ACCEPTS is in the documented grammar and means its AST.
     (b)  parse s = Ok p  ->  exists a, read_pat s = Some a /\ wf a /\ p = compile a          (s a string of bytes)
     (c)  read_pat s = Some a -> wf a -> parse s = Ok (compile a)                              (every spelling, not only [show a])
   Part 1 relates one iteration of the parser loop to one token of the independent lexer (Spec/PatRead.v), for an
   arbitrary parser state; part 2 is the structural induction over the token list. *)
From PV.Model Require Import Machine Pattern.
From PV.Spec Require Import PatSyntax PatRead.
From PV.Proofs Require Import BaseProofs PatternProofs PatSyntaxProofs PatReadProofs.
Ltac Zify.zify_post_hook ::= Z.div_mod_to_equations.

(* ================================================================ part 1: one iteration = one token *)
Definition upd_st (st : pstate) (res : list atom) (save : N) : pstate :=
  {| p_res := res; p_save := save; p_depth := p_depth st; p_subs := p_subs st; p_pos := p_pos st; p_barrier := p_barrier st |}.

(* the effect of a one-token item on the state: its atoms are appended, its slot is taken *)
Definition eff (st st1 : pstate) (atoms : list atom) (k : N) : Prop :=
  p_res st1 = p_res st ++ atoms /\ p_save st1 = p_save st + k /\ p_depth st1 = p_depth st /\ p_subs st1 = p_subs st /\
  p_pos st1 = p_pos st /\ p_barrier st1 = p_barrier st.
Definition item_atoms (it : item) (s : N) : list atom :=
  match it with
  | IByte b => [Byte b] | IStr bs => map Byte bs | ISkip n => skip_atoms n | IRange a b => skip_atoms a ++ many_atoms (b - a)
  | ISave => [Save s] | IRead r => [ratom r s] | IZero => [Zero s] | IAlign k => [Aligned k] | IJump j => [jatom j]
  | _ => []
  end.
Definition item_slots (it : item) : N := match it with ISave | IRead _ | IZero => 1 | _ => 0 end.
(* what the parser checks for the item (the rest of [wf_item] is guaranteed by the lexer on a string of bytes) *)
Definition item_condb (it : item) (s : N) : bool :=
  match it with
  | ISkip n => n <? 16384
  | IRange a b => (a <? b) && (b <? 16384)
  | ISave | IRead _ | IZero => s <? 255
  | _ => true
  end.

Ltac solve_eff :=
  unfold eff, upd_st; cbn [p_res p_save p_depth p_subs p_pos p_barrier item_atoms item_slots];
  repeat split; try reflexivity; try lia; try (rewrite app_nil_r; reflexivity).

(* ---- decimal numbers: the digit loop of the parser against [dec_run] *)
Definition is_term (dash : bool) (c : N) : bool := (c =? 93) || (dash && (c =? 45)).
Definition dec_any (s : list N) : bool := match s with c :: _ => is_digit c | [] => false end.
Lemma dig_digit c : dig c = if is_digit c then Some (c - 48) else None.
Proof. reflexivity. Qed.
Lemma dec_run_ge s : forall acc, acc <= fst (dec_run s acc).
Proof.
  induction s as [|c t IH]; intros acc; cbn [dec_run fst]; [lia|]. destruct (dig c) as [d|]; [|cbn [fst]; lia].
  specialize (IH (acc * 10 + d)). lia.
Qed.
Lemma parse_num_spec s : forall acc any dash, acc < 16384 ->
  parse_num s acc any dash =
    let (v, r) := dec_run s acc in
    if 16384 <=? v then inl ManyOverflow
    else match r with
         | [] => inl ManyInvalid
         | t :: r' => if is_term dash t then inr (v, any || dec_any s, t, r') else inl ManyInvalid
         end.
Proof.
  induction s as [|c t IH]; intros acc any dash Ha; cbn [parse_num dec_run].
  - destruct (16384 <=? acc) eqn:E; [lia|reflexivity].
  - fold (is_term dash c). rewrite dig_digit. destruct (is_term dash c) eqn:Et.
    + assert (Ed : is_digit c = false). { unfold is_term in Et. unfold is_digit. destruct dash; lia. }
      rewrite Ed. destruct (16384 <=? acc) eqn:E; [lia|]. rewrite Et. cbn [dec_any]. rewrite Ed, orb_false_r. reflexivity.
    + destruct (is_digit c) eqn:Ed.
      * destruct (16384 <=? acc * 10 + (c - 48)) eqn:Eo.
        -- pose proof (dec_run_ge t (acc * 10 + (c - 48))) as Hge. destruct (dec_run t (acc * 10 + (c - 48))) as [v r]. cbn [fst] in Hge.
           destruct (16384 <=? v) eqn:E; [reflexivity|lia].
        -- rewrite IH by lia. destruct (dec_run t (acc * 10 + (c - 48))) as [v r]. cbn [dec_any]. rewrite Ed, orb_true_r.
           destruct (16384 <=? v); [reflexivity|]. destruct r as [|t0 r']; [reflexivity|]. destruct (is_term dash t0); reflexivity.
      * destruct (16384 <=? acc) eqn:E; [lia|]. rewrite Et. reflexivity.
Qed.
Lemma read_dec_run s : read_dec s = if dec_any s then Some (dec_run s 0) else None.
Proof. unfold read_dec, dec_any. destruct s as [|c t]; [reflexivity|]. rewrite dig_digit. destruct (is_digit c); reflexivity. Qed.

(* ---- strings *)
Lemma parse_quote_spec t : forall res,
  parse_quote t res = match read_str t with Some (b, r) => inr (res ++ map Byte b, r) | None => inl UnclosedQuote end.
Proof.
  induction t as [|c t IH]; intros res; cbn [parse_quote read_str]; [reflexivity|].
  destruct (c =? 34); [cbn [map]; rewrite app_nil_r; reflexivity|]. rewrite IH.
  destruct (read_str t) as [[b r]|]; [|reflexivity]. cbn [map]. rewrite <- app_assoc. reflexivity.
Qed.

(* ---- hex digits of either case *)
Lemma hexval_hexdig c : hexval c = hexdig c.
Proof.
  unfold hexval, hexdig. destruct ((48 <=? c) && (c <=? 57)); [reflexivity|].
  destruct ((65 <=? c) && (c <=? 70)) eqn:E; [f_equal; lia|]. destruct ((97 <=? c) && (c <=? 102)) eqn:E2; [f_equal; lia|reflexivity].
Qed.
Lemma hexdig_in c h : hexdig c = Some h -> In c [48;49;50;51;52;53;54;55;56;57;65;66;67;68;69;70;97;98;99;100;101;102].
Proof.
  unfold hexdig. intros H. cbn [In].
  destruct ((48 <=? c) && (c <=? 57)) eqn:E1; [lia|]. destruct ((65 <=? c) && (c <=? 70)) eqn:E2; [lia|].
  destruct ((97 <=? c) && (c <=? 102)) eqn:E3; [lia|discriminate].
Qed.
Lemma pstep_hex_gen st c h rest : hexdig c = Some h ->
  pstep st c rest =
  match rest with
  | [] => inl UnpairedHexDigit
  | c2 :: rest1 => match hexval c2 with
                   | None => inl UnpairedHexDigit
                   | Some lo => inr (upd_st st (p_res st ++ [Byte (h * 16 + lo)]) (p_save st), rest1, true)
                   end
  end.
Proof.
  intros H. pose proof (hexdig_in c h H) as Hin. cbn [In] in Hin.
  repeat (destruct Hin as [<-|Hin]; [vm_compute in H; injection H as <-; reflexivity|]). contradiction.
Qed.

(* ---- a one-token item (a run of question marks aside): the iteration succeeds exactly when [item_condb] holds, consumes
   exactly the token and has the effect of the item *)
Lemma cond_form {A B : Type} (b : bool) (x : A + B) (v : B) (e : A) :
  x = (if b then inr v else inl e) -> if b then x = inr v else exists e', x = inl e'.
Proof. intros ->. destruct b; [reflexivity|exists e; reflexivity]. Qed.

Lemma pstep_of_lex1 st c t it r : lex1 (c :: t) = Some (TItem it, r) -> c <> 63 ->
  exists st1 u, eff st st1 (item_atoms it (p_save st)) (item_slots it) /\
    if item_condb it (p_save st) then pstep st c t = inr (st1, r, u) else exists e, pstep st c t = inl e.
Proof.
  unfold lex1. intros H Hq.
  destruct (c =? 39) eqn:E39.
  { apply N.eqb_eq in E39. subst c. injection H as <- <-.
    exists (upd_st st (p_res st ++ [Save (p_save st)]) (p_save st + 1)), true. split; [solve_eff|]. apply (cond_form _ _ _ SaveOverflow).
    change (pstep st 39 t) with (if 255 <=? p_save st then inl SaveOverflow else @inr paterr _ (upd_st st (p_res st ++ [Save (p_save st)]) (p_save st + 1), t, true)).
    cbn [item_condb]. destruct (255 <=? p_save st) eqn:E1; destruct (p_save st <? 255) eqn:E2; try reflexivity; lia. }
  destruct (c =? 122) eqn:E122.
  { apply N.eqb_eq in E122. subst c. injection H as <- <-.
    exists (upd_st st (p_res st ++ [Zero (p_save st)]) (p_save st + 1)), true. split; [solve_eff|]. apply (cond_form _ _ _ SaveOverflow).
    change (pstep st 122 t) with (if 255 <=? p_save st then inl SaveOverflow else @inr paterr _ (upd_st st (p_res st ++ [Zero (p_save st)]) (p_save st + 1), t, true)).
    cbn [item_condb]. destruct (255 <=? p_save st) eqn:E1; destruct (p_save st <? 255) eqn:E2; try reflexivity; lia. }
  destruct (c =? 37) eqn:E37.
  { apply N.eqb_eq in E37. subst c. injection H as <- <-. exists (upd_st st (p_res st ++ [Jump1]) (p_save st)), true. split; [solve_eff|reflexivity]. }
  destruct (c =? 36) eqn:E36.
  { apply N.eqb_eq in E36. subst c. injection H as <- <-. exists (upd_st st (p_res st ++ [Jump4]) (p_save st)), true. split; [solve_eff|reflexivity]. }
  destruct (c =? 42) eqn:E42.
  { apply N.eqb_eq in E42. subst c. injection H as <- <-. exists (upd_st st (p_res st ++ [Ptr]) (p_save st)), true. split; [solve_eff|reflexivity]. }
  destruct (c =? 123); [discriminate|]. destruct (c =? 125); [discriminate|]. destruct (c =? 40); [discriminate|].
  destruct (c =? 124); [discriminate|]. destruct (c =? 41); [discriminate|].
  destruct (c =? 63) eqn:E63; [lia|].
  destruct (c =? 34) eqn:E34.
  { apply N.eqb_eq in E34. subst c. destruct (read_str t) as [[b r0]|] eqn:Es; [|discriminate]. injection H as <- <-.
    exists (upd_st st (p_res st ++ map Byte b) (p_save st)), true. split; [solve_eff|]. apply (cond_form _ _ _ UnknownChar).
    change (pstep st 34 t) with (match parse_quote t (p_res st) with inl e => inl e | inr (res1, rest1) => @inr paterr _ (upd_st st res1 (p_save st), rest1, true) end).
    rewrite parse_quote_spec, Es. reflexivity. }
  destruct (c =? 91) eqn:E91.
  { apply N.eqb_eq in E91. subst c.
    change (pstep st 91 t) with
      (match parse_num t 0 false true with
       | inl e => inl e
       | inr (lower, any, term, rest1) =>
         if negb any then inl ManyInvalid
         else
           let res1 := if 0 <? lower then (if 256 <=? lower then p_res st ++ [Rangext (lower / 256)] else p_res st) ++ [Skip (lower mod 256)] else p_res st in
           if term =? 93 then @inr paterr _ (upd_st st res1 (p_save st), rest1, false)
           else
             match parse_num rest1 0 false false with
             | inl e => inl e
             | inr (upper, _, _, rest2) =>
               if lower <? upper then
                 let many := upper - lower in
                 let res2 := (if 256 <=? many then res1 ++ [Rangext (many / 256)] else res1) ++ [Many (many mod 256)] in
                 inr (upd_st st res2 (p_save st), rest2, true)
               else inl ManyRange
             end
       end).
    rewrite read_dec_run in H. destruct (dec_any t) eqn:Ea; [|discriminate].
    rewrite parse_num_spec by lia. destruct (dec_run t 0) as [a r0] eqn:Er. destruct r0 as [|c1 r1]; [discriminate|].
    destruct (c1 =? 93) eqn:E93.
    - (* [n] *) injection H as <- <-. apply N.eqb_eq in E93. subst c1.
      exists (upd_st st (p_res st ++ skip_atoms a) (p_save st)), false. split; [solve_eff|]. apply (cond_form _ _ _ ManyOverflow).
      cbn [item_condb]. destruct (16384 <=? a) eqn:Eo; destruct (a <? 16384) eqn:Eo'; try lia; [reflexivity|].
      rewrite Ea. change (is_term true 93) with true. cbn [orb negb]. cbv beta iota zeta. change (93 =? 93) with true. cbv iota.
      rewrite skip_atoms_eq. reflexivity.
    - destruct (c1 =? 45) eqn:E45; [|discriminate]. apply N.eqb_eq in E45. subst c1.
      rewrite read_dec_run in H. destruct (dec_any r1) eqn:Ea2; [|discriminate].
      destruct (dec_run r1 0) as [b r2] eqn:Er2. destruct r2 as [|c2 r3]; [discriminate|].
      destruct (c2 =? 93) eqn:E93b; [|discriminate]. injection H as <- <-. apply N.eqb_eq in E93b. subst c2.
      exists (upd_st st (p_res st ++ skip_atoms a ++ many_atoms (b - a)) (p_save st)), true. split; [solve_eff|].
      cbn [item_condb]. destruct (16384 <=? a) eqn:Eo.
      { destruct ((a <? b) && (b <? 16384)) eqn:Ec; [lia|]. eexists. reflexivity. }
      rewrite Ea. change (is_term true 45) with true. cbn [orb negb]. cbv beta iota zeta. change (45 =? 93) with false. cbv iota.
      rewrite parse_num_spec by lia. rewrite Er2. destruct (16384 <=? b) eqn:Eo2.
      { destruct ((a <? b) && (b <? 16384)) eqn:Ec; [lia|]. eexists. reflexivity. }
      change (is_term false 93) with true. cbv beta iota. destruct (a <? b) eqn:Eab.
      + assert (Eb : b <? 16384 = true) by lia. rewrite Eb. cbn [andb]. rewrite skip_atoms_eq, many_atoms_eq, <- app_assoc. reflexivity.
      + cbn [andb]. eexists. reflexivity. }
  destruct (c =? 64) eqn:E64.
  { apply N.eqb_eq in E64. subst c. destruct t as [|k r0]; [discriminate|]. destruct (aligndig k) as [v|] eqn:Ek; [|discriminate]. injection H as <- <-.
    exists (upd_st st (p_res st ++ [Aligned v]) (p_save st)), true. split; [solve_eff|]. apply (cond_form _ _ _ UnknownChar). cbn [item_condb].
    change (pstep st 64 (k :: r0)) with
      (if (48 <=? k) && (k <=? 57) then @inr paterr _ (upd_st st (p_res st ++ [Aligned (k - 48)]) (p_save st), r0, true)
       else if (65 <=? k) && (k <=? 90) then inr (upd_st st (p_res st ++ [Aligned (10 + (k - 65))]) (p_save st), r0, true)
       else if (97 <=? k) && (k <=? 122) then inr (upd_st st (p_res st ++ [Aligned (10 + (k - 97))]) (p_save st), r0, true)
       else inl AlignedOperand).
    unfold aligndig in Ek. destruct ((48 <=? k) && (k <=? 57)) eqn:R1; [injection Ek as <-; reflexivity|].
    destruct ((65 <=? k) && (k <=? 90)) eqn:R2; [injection Ek as <-; replace (10 + (k - 65)) with (k - 55) by lia; reflexivity|].
    destruct ((97 <=? k) && (k <=? 122)) eqn:R3; [injection Ek as <-; replace (10 + (k - 97)) with (k - 87) by lia; reflexivity|discriminate]. }
  destruct ((c =? 105) || (c =? 117)) eqn:Eiu.
  { destruct t as [|k r0]; [discriminate|]. destruct (read_kind (c =? 105) k) as [rk|] eqn:Ek; [|discriminate]. injection H as <- <-.
    exists (upd_st st (p_res st ++ [ratom rk (p_save st)]) (p_save st + 1)), true. split; [solve_eff|]. apply (cond_form _ _ _ SaveOverflow). cbn [item_condb].
    assert (Hgoal : forall a, pstep st c (k :: r0) = (if 255 <=? p_save st then inl SaveOverflow else @inr paterr _ (upd_st st (p_res st ++ [a]) (p_save st + 1), r0, true)) ->
                    a = ratom rk (p_save st) ->
                    pstep st c (k :: r0) = (if p_save st <? 255 then inr (upd_st st (p_res st ++ [ratom rk (p_save st)]) (p_save st + 1), r0, true) else inl SaveOverflow)).
    { intros a Ha <-. rewrite Ha. destruct (255 <=? p_save st) eqn:E1; destruct (p_save st <? 255) eqn:E2; try reflexivity; lia. }
    unfold read_kind in Ek. apply orb_true_iff in Eiu. destruct Eiu as [Ec|Ec]; apply N.eqb_eq in Ec; subst c; cbn [N.eqb Pos.eqb] in Ek;
      (destruct (k =? 49) eqn:K1; [apply N.eqb_eq in K1; subst k; injection Ek as <-; eapply Hgoal; reflexivity|]);
      (destruct (k =? 50) eqn:K2; [apply N.eqb_eq in K2; subst k; injection Ek as <-; eapply Hgoal; reflexivity|]);
      (destruct (k =? 52) eqn:K3; [apply N.eqb_eq in K3; subst k; injection Ek as <-; eapply Hgoal; reflexivity|discriminate]). }
  destruct (hexdig c) as [h|] eqn:Eh; [|discriminate]. destruct t as [|c2 r0]; [discriminate|].
  destruct (hexdig c2) as [l|] eqn:El; [|discriminate]. injection H as <- <-.
  exists (upd_st st (p_res st ++ [Byte (16 * h + l)]) (p_save st)), true. split; [solve_eff|]. apply (cond_form _ _ _ UnknownChar). cbn [item_condb].
  rewrite (pstep_hex_gen st c h _ Eh), hexval_hexdig, El. replace (h * 16 + l) with (16 * h + l) by lia. reflexivity.
Qed.

(* ---- where the lexer finds no token the iteration fails *)
Lemma dec_run_none s acc : dec_any s = false -> dec_run s acc = (acc, s).
Proof. destruct s as [|c t]; [reflexivity|]. cbn [dec_any dec_run]. rewrite dig_digit. intros ->. reflexivity. Qed.
Lemma pstep_iu st c t : (c =? 105) || (c =? 117) = true ->
  pstep st c t =
  match t with
  | k :: rest1 =>
    let mk a := if 255 <=? p_save st then inl SaveOverflow else @inr paterr _ (upd_st st (p_res st ++ [a]) (p_save st + 1), rest1, true) in
    if k =? 49 then mk (if c =? 105 then ReadI8 (p_save st) else ReadU8 (p_save st))
    else if k =? 50 then mk (if c =? 105 then ReadI16 (p_save st) else ReadU16 (p_save st))
    else if k =? 52 then mk (if c =? 105 then ReadI32 (p_save st) else ReadU32 (p_save st))
    else inl ReadOperand
  | [] => inl ReadOperand
  end.
Proof. intros H. apply orb_true_iff in H. destruct H as [H|H]; apply N.eqb_eq in H; subst c; reflexivity. Qed.
Lemma hexdig_none c : hexdig c = None -> (is_digit c) || ((65 <=? c) && (c <=? 70)) || ((97 <=? c) && (c <=? 102)) = false.
Proof.
  unfold hexdig, is_digit. destruct ((48 <=? c) && (c <=? 57)); [discriminate|]. destruct ((65 <=? c) && (c <=? 70)); [discriminate|].
  destruct ((97 <=? c) && (c <=? 102)); [discriminate|reflexivity].
Qed.

Lemma pstep_lex1_none st c t : is_ws c = false -> lex1 (c :: t) = None -> exists e, pstep st c t = inl e.
Proof.
  unfold lex1. intros Hws H.
  destruct (c =? 39) eqn:E39; [discriminate|]. destruct (c =? 122) eqn:E122; [discriminate|]. destruct (c =? 37) eqn:E37; [discriminate|].
  destruct (c =? 36) eqn:E36; [discriminate|]. destruct (c =? 42) eqn:E42; [discriminate|]. destruct (c =? 123) eqn:E123; [discriminate|].
  destruct (c =? 125) eqn:E125; [discriminate|]. destruct (c =? 40) eqn:E40; [discriminate|]. destruct (c =? 124) eqn:E124; [discriminate|].
  destruct (c =? 41) eqn:E41; [discriminate|].
  destruct (c =? 63) eqn:E63; [destruct (qrun t); discriminate|].
  destruct (c =? 34) eqn:E34.
  { apply N.eqb_eq in E34. subst c. destruct (read_str t) as [[b r0]|] eqn:Es; [discriminate|].
    change (pstep st 34 t) with (match parse_quote t (p_res st) with inl e => inl e | inr (res1, rest1) => @inr paterr _ (upd_st st res1 (p_save st), rest1, true) end).
    rewrite parse_quote_spec, Es. eexists. reflexivity. }
  destruct (c =? 91) eqn:E91.
  { apply N.eqb_eq in E91. subst c.
    change (pstep st 91 t) with
      (match parse_num t 0 false true with
       | inl e => inl e
       | inr (lower, any, term, rest1) =>
         if negb any then inl ManyInvalid
         else
           let res1 := if 0 <? lower then (if 256 <=? lower then p_res st ++ [Rangext (lower / 256)] else p_res st) ++ [Skip (lower mod 256)] else p_res st in
           if term =? 93 then @inr paterr _ (upd_st st res1 (p_save st), rest1, false)
           else
             match parse_num rest1 0 false false with
             | inl e => inl e
             | inr (upper, _, _, rest2) =>
               if lower <? upper then
                 let many := upper - lower in
                 let res2 := (if 256 <=? many then res1 ++ [Rangext (many / 256)] else res1) ++ [Many (many mod 256)] in
                 inr (upd_st st res2 (p_save st), rest2, true)
               else inl ManyRange
             end
       end).
    rewrite parse_num_spec by lia. rewrite read_dec_run in H. destruct (dec_any t) eqn:Ea.
    2: { rewrite dec_run_none by exact Ea. change (16384 <=? 0) with false. cbv iota. destruct t as [|c1 r1]; [eexists; reflexivity|].
         destruct (is_term true c1); [|eexists; reflexivity]. cbn [orb negb]. eexists. reflexivity. }
    destruct (dec_run t 0) as [a r0] eqn:Er. destruct (16384 <=? a) eqn:Eo; [eexists; reflexivity|].
    destruct r0 as [|c1 r1]; [eexists; reflexivity|]. unfold is_term at 1. cbn [andb].
    destruct (c1 =? 93) eqn:E93; [discriminate|]. destruct (c1 =? 45) eqn:E45; [|eexists; reflexivity].
    cbn [orb negb]. cbv beta iota zeta. rewrite E93. rewrite parse_num_spec by lia.
    rewrite read_dec_run in H. destruct (dec_any r1) eqn:Ea2.
    2: { rewrite dec_run_none by exact Ea2. change (16384 <=? 0) with false. cbv iota. destruct r1 as [|c2 r2]; [eexists; reflexivity|].
         destruct (is_term false c2); [|eexists; reflexivity]. cbv beta iota. destruct (a <? 0) eqn:E0; [lia|]. eexists. reflexivity. }
    destruct (dec_run r1 0) as [b r2] eqn:Er2. destruct (16384 <=? b); [eexists; reflexivity|].
    destruct r2 as [|c2 r3]; [eexists; reflexivity|]. unfold is_term. cbn [andb orb]. rewrite orb_false_r.
    destruct (c2 =? 93) eqn:E93b; [discriminate|]. eexists. reflexivity. }
  destruct (c =? 64) eqn:E64.
  { apply N.eqb_eq in E64. subst c. destruct t as [|k r0]; [eexists; reflexivity|]. destruct (aligndig k) as [v|] eqn:Ek; [discriminate|].
    change (pstep st 64 (k :: r0)) with
      (if (48 <=? k) && (k <=? 57) then @inr paterr _ (upd_st st (p_res st ++ [Aligned (k - 48)]) (p_save st), r0, true)
       else if (65 <=? k) && (k <=? 90) then inr (upd_st st (p_res st ++ [Aligned (10 + (k - 65))]) (p_save st), r0, true)
       else if (97 <=? k) && (k <=? 122) then inr (upd_st st (p_res st ++ [Aligned (10 + (k - 97))]) (p_save st), r0, true)
       else inl AlignedOperand).
    unfold aligndig in Ek. destruct ((48 <=? k) && (k <=? 57)); [discriminate|]. destruct ((65 <=? k) && (k <=? 90)); [discriminate|].
    destruct ((97 <=? k) && (k <=? 122)); [discriminate|]. eexists. reflexivity. }
  destruct ((c =? 105) || (c =? 117)) eqn:Eiu.
  { rewrite (pstep_iu st c t Eiu). destruct t as [|k r0]; [eexists; reflexivity|].
    unfold read_kind in H. destruct (k =? 49); [discriminate|]. destruct (k =? 50); [discriminate|]. destruct (k =? 52); [discriminate|].
    eexists. reflexivity. }
  destruct (hexdig c) as [h|] eqn:Eh.
  { rewrite (pstep_hex_gen st c h t Eh). destruct t as [|c2 r0]; [eexists; reflexivity|]. rewrite hexval_hexdig.
    destruct (hexdig c2); [discriminate|]. eexists. reflexivity. }
  exists UnknownChar. unfold pstep. rewrite E37, E36, E42, E123, E125, E40, E124, E41, E91, (hexdig_none c Eh), E34, E39, E63, E64, Eiu, E122.
  unfold is_ws in Hws. apply orb_false_elim in Hws. destruct Hws as [Hws W13]. apply orb_false_elim in Hws. destruct Hws as [Hws W10].
  apply orb_false_elim in Hws. destruct Hws as [W32 W9]. rewrite W32, W10, W13, W9. reflexivity.
Qed.

(* ---- what the lexer's token says about the input: brackets are one character; an item token is a one-token item whose
   lexical side conditions hold; what follows the token is a suffix of the input *)
Definition tok_char (tk : tok) : N := match tk with TLBrace => 123 | TRBrace => 125 | TLParen => 40 | TPipe => 124 | TRParen => 41 | TItem _ => 0 end.
Definition lexwf (it : item) : Prop :=
  match it with
  | IByte b => b < 256
  | IStr s => Forall (fun ch => ch <> 34) s
  | IAlign k => k < 36
  | IWild n => n <> O
  | ISub _ _ | IAlt _ _ => False
  | _ => True
  end.
Definition in_str (it : item) (inp : list N) : Prop := match it with IStr s => incl s inp | _ => True end.

Lemma dec_run_suffix s : forall acc, exists pre, s = pre ++ snd (dec_run s acc).
Proof.
  induction s as [|c t IH]; intros acc; cbn [dec_run]; [exists []; reflexivity|]. destruct (dig c) as [d|]; [|exists []; reflexivity].
  destruct (IH (acc * 10 + d)) as [pre E]. exists (c :: pre). cbn [app]. rewrite <- E. reflexivity.
Qed.
Lemma read_str_facts s : forall b r, read_str s = Some (b, r) -> s = b ++ 34 :: r /\ Forall (fun ch => ch <> 34) b.
Proof.
  induction s as [|c t IH]; intros b r H; cbn [read_str] in H; [discriminate|].
  destruct (c =? 34) eqn:E; [injection H as <- <-; apply N.eqb_eq in E; subst c; split; [reflexivity|constructor]|].
  destruct (read_str t) as [[b' r']|] eqn:E2; [|discriminate]. injection H as <- <-. destruct (IH _ _ eq_refl) as [-> F].
  split; [reflexivity|constructor; [lia|exact F]].
Qed.
Lemma qrun_spec s : forall n r, qrun s = (n, r) -> s = repeat 63 n ++ r.
Proof.
  induction s as [|c t IH]; intros n r H; cbn [qrun] in H; [injection H as <- <-; reflexivity|].
  destruct (c =? 63) eqn:E; [|injection H as <- <-; reflexivity]. destruct (qrun t) as [n' r'] eqn:E2. injection H as <- <-.
  apply N.eqb_eq in E. subst c. cbn [repeat app]. rewrite (IH _ _ eq_refl). reflexivity.
Qed.
Lemma hexdig_lt c h : hexdig c = Some h -> h < 16.
Proof.
  unfold hexdig. destruct ((48 <=? c) && (c <=? 57)) eqn:E1; [intros [= <-]; lia|]. destruct ((65 <=? c) && (c <=? 70)) eqn:E2; [intros [= <-]; lia|].
  destruct ((97 <=? c) && (c <=? 102)) eqn:E3; [intros [= <-]; lia|discriminate].
Qed.
Lemma aligndig_lt c k : aligndig c = Some k -> k < 36.
Proof.
  unfold aligndig. destruct ((48 <=? c) && (c <=? 57)) eqn:E1; [intros [= <-]; lia|]. destruct ((65 <=? c) && (c <=? 90)) eqn:E2; [intros [= <-]; lia|].
  destruct ((97 <=? c) && (c <=? 122)) eqn:E3; [intros [= <-]; lia|discriminate].
Qed.

Lemma lex1_facts c t tk r : lex1 (c :: t) = Some (tk, r) ->
  (exists pre, c :: t = pre ++ r) /\
  match tk with
  | TItem it => lexwf it /\ in_str it t /\ (c = 63 <-> exists n, it = IWild n)
  | _ => c = tok_char tk /\ r = t
  end.
Proof.
  unfold lex1. intros H.
  assert (Hsimple : forall it, lexwf it -> in_str it t -> ~ (exists n, it = IWild n) -> c <> 63 -> Some (TItem it, t) = Some (tk, r) ->
    (exists pre, c :: t = pre ++ r) /\ match tk with TItem it => lexwf it /\ in_str it t /\ (c = 63 <-> exists n, it = IWild n) | _ => c = tok_char tk /\ r = t end).
  { intros it L S W Q E. injection E as <- <-. split; [exists [c]; reflexivity|]. split; [exact L|split; [exact S|]]. split; [intros ->; contradiction|intros X; contradiction]. }
  assert (Hbr : forall tk0, c = tok_char tk0 -> match tk0 with TItem _ => False | _ => True end -> Some (tk0, t) = Some (tk, r) ->
    (exists pre, c :: t = pre ++ r) /\ match tk with TItem it => lexwf it /\ in_str it t /\ (c = 63 <-> exists n, it = IWild n) | _ => c = tok_char tk /\ r = t end).
  { intros tk0 Ec Hb E. injection E as <- <-. split; [exists [c]; reflexivity|]. destruct tk0; [contradiction|split; [exact Ec|reflexivity]..]. }
  destruct (c =? 39) eqn:E39; [apply (Hsimple ISave); [exact I|exact I|intros [n X]; discriminate|lia|exact H]|].
  destruct (c =? 122) eqn:E122; [apply (Hsimple IZero); [exact I|exact I|intros [n X]; discriminate|lia|exact H]|].
  destruct (c =? 37) eqn:E37; [apply (Hsimple (IJump J1)); [exact I|exact I|intros [n X]; discriminate|lia|exact H]|].
  destruct (c =? 36) eqn:E36; [apply (Hsimple (IJump J4)); [exact I|exact I|intros [n X]; discriminate|lia|exact H]|].
  destruct (c =? 42) eqn:E42; [apply (Hsimple (IJump JP)); [exact I|exact I|intros [n X]; discriminate|lia|exact H]|].
  destruct (c =? 123) eqn:E123; [apply (Hbr TLBrace); [cbn [tok_char]; lia|exact I|exact H]|].
  destruct (c =? 125) eqn:E125; [apply (Hbr TRBrace); [cbn [tok_char]; lia|exact I|exact H]|].
  destruct (c =? 40) eqn:E40; [apply (Hbr TLParen); [cbn [tok_char]; lia|exact I|exact H]|].
  destruct (c =? 124) eqn:E124; [apply (Hbr TPipe); [cbn [tok_char]; lia|exact I|exact H]|].
  destruct (c =? 41) eqn:E41; [apply (Hbr TRParen); [cbn [tok_char]; lia|exact I|exact H]|].
  destruct (c =? 63) eqn:E63.
  { destruct (qrun t) as [n r0] eqn:Eq. injection H as <- <-. apply qrun_spec in Eq. split; [exists (c :: repeat 63 n); rewrite Eq; reflexivity|].
    split; [cbn [lexwf]; discriminate|split; [exact I|]]. split; [intros _; eexists; reflexivity|intros _; lia]. }
  destruct (c =? 34) eqn:E34.
  { destruct (read_str t) as [[b r0]|] eqn:Es; [|discriminate]. injection H as <- <-. destruct (read_str_facts _ _ _ Es) as [Et F].
    split; [exists (c :: b ++ [34]); rewrite Et; cbn [app]; rewrite <- app_assoc; reflexivity|]. split; [exact F|split].
    - cbn [in_str]. rewrite Et. intros x Hx. apply in_or_app. left. exact Hx.
    - split; [intros ->; discriminate|intros [n X]; discriminate]. }
  destruct (c =? 91) eqn:E91.
  { destruct (read_dec t) as [[a [|c1 r1]]|] eqn:Ed; try discriminate.
    assert (S1 : exists pre, t = pre ++ c1 :: r1).
    { unfold read_dec in Ed. destruct t as [|c0 t0]; [discriminate|]. destruct (dig c0); [|discriminate].
      destruct (dec_run_suffix (c0 :: t0) 0) as [pre E]. assert (Ed' : dec_run (c0 :: t0) 0 = (a, c1 :: r1)) by congruence. rewrite Ed' in E. exists pre. exact E. }
    destruct S1 as [pre1 S1].
    destruct (c1 =? 93).
    { injection H as <- <-. split; [exists (c :: pre1 ++ [c1]); rewrite S1; cbn [app]; rewrite <- app_assoc; reflexivity|]. split; [exact I|split; [exact I|]].
      split; [intros ->; discriminate|intros [n X]; discriminate]. }
    destruct (c1 =? 45); [|discriminate].
    destruct (read_dec r1) as [[b [|c2 r2]]|] eqn:Ed2; try discriminate.
    assert (S2 : exists pre, r1 = pre ++ c2 :: r2).
    { unfold read_dec in Ed2. destruct r1 as [|c0 t0]; [discriminate|]. destruct (dig c0); [|discriminate].
      destruct (dec_run_suffix (c0 :: t0) 0) as [pre E]. assert (Ed' : dec_run (c0 :: t0) 0 = (b, c2 :: r2)) by congruence. rewrite Ed' in E. exists pre. exact E. }
    destruct S2 as [pre2 S2]. destruct (c2 =? 93); [|discriminate]. injection H as <- <-.
    split; [exists (c :: pre1 ++ c1 :: pre2 ++ [c2]); rewrite S1, S2; cbn [app]; rewrite <- !app_assoc; cbn [app]; rewrite <- app_assoc; reflexivity|].
    split; [exact I|split; [exact I|]]. split; [intros ->; discriminate|intros [n X]; discriminate]. }
  destruct (c =? 64) eqn:E64.
  { destruct t as [|k r0]; [discriminate|]. destruct (aligndig k) as [v|] eqn:Ek; [|discriminate]. injection H as <- <-.
    split; [exists [c; k]; reflexivity|]. split; [exact (aligndig_lt _ _ Ek)|split; [exact I|]]. split; [intros ->; discriminate|intros [n X]; discriminate]. }
  destruct ((c =? 105) || (c =? 117)) eqn:Eiu.
  { destruct t as [|k r0]; [discriminate|]. destruct (read_kind (c =? 105) k) as [rk|]; [|discriminate]. injection H as <- <-.
    split; [exists [c; k]; reflexivity|]. split; [exact I|split; [exact I|]]. split; [intros ->; discriminate|intros [n X]; discriminate]. }
  destruct (hexdig c) as [h|] eqn:Eh; [|discriminate]. destruct t as [|c2 r0]; [discriminate|].
  destruct (hexdig c2) as [l|] eqn:El; [|discriminate]. injection H as <- <-.
  split; [exists [c; c2]; reflexivity|]. apply hexdig_lt in Eh. apply hexdig_lt in El. split; [cbn [lexwf]; lia|split; [exact I|]].
  split; [intros ->; discriminate|intros [n X]; discriminate].
Qed.

Lemma skip_ws_head s c t : skip_ws s = c :: t -> is_ws c = false.
Proof.
  induction s as [|x s IH]; cbn [skip_ws]; [discriminate|]. destruct (is_ws x) eqn:E; [exact IH|]. intros H. injection H as <- _. exact E.
Qed.
Lemma skip_ws_suffix s : exists pre, s = pre ++ skip_ws s /\ Forall (fun c => is_ws c = true) pre.
Proof.
  induction s as [|x s [pre [E F]]]; cbn [skip_ws]; [exists []; split; [reflexivity|constructor]|].
  destruct (is_ws x) eqn:Ex; [exists (x :: pre); split; [cbn [app]; rewrite <- E; reflexivity|constructor; assumption]|exists []; split; [reflexivity|constructor]].
Qed.

(* ================================================================ part 2: accepted runs of the parser loop *)
(* the loop, started in [st] at any recorded position with enough fuel, accepts [inp] with the pattern [p] *)
Definition succ (st : pstate) (inp : list N) (p : list atom) : Prop :=
  exists fuel total pos, (length inp < fuel)%nat /\ ploop fuel total (set_pos st pos) inp = Ok (inr p).

Lemma set_pos_eta st : set_pos st (p_pos st) = st.
Proof. destruct st; reflexivity. Qed.
Lemma succ_set_pos st pos inp p : succ (set_pos st pos) inp p <-> succ st inp p.
Proof. unfold succ. split; intros [f [tot [ps [Hf H]]]]; exists f, tot, ps; (split; [exact Hf|exact H]). Qed.

Lemma succ_steps st a st' rest p : steps st a st' -> succ st (a ++ rest) p -> succ st' rest p.
Proof.
  intros S [f [tot [ps [Hf H]]]]. rewrite app_length in Hf. destruct (S tot rest f ps Hf) as [f' [ps' [Hf' E]]].
  exists f', tot, ps'. split; [exact Hf'|]. rewrite <- E. exact H.
Qed.
Lemma succ_nil st p : succ st [] p -> p_depth st = 0 /\ p_subs st = [] /\ p = trim (p_res st).
Proof.
  intros [f [tot [ps [Hf H]]]]. destruct f as [|f]; [cbn [length] in Hf; lia|]. cbn [ploop set_pos p_depth p_subs p_res] in H.
  destruct (p_depth st =? 0) eqn:E; [|discriminate]. cbn [negb] in H. destruct (p_subs st); [|discriminate]. injection H as <-.
  split; [lia|split; reflexivity].
Qed.
Lemma succ_cons st chr rest p : succ st (chr :: rest) p ->
  exists pos st1 rest1 u, pstep (set_pos st pos) chr rest = inr (st1, rest1, u) /\ succ st1 rest1 p /\ (length rest1 <= length rest)%nat.
Proof.
  intros [f [tot [ps [Hf H]]]]. destruct f as [|f]; [cbn [length] in Hf; lia|]. cbn [ploop] in H.
  destruct (pstep (set_pos st ps) chr rest) as [e|[[st1 rest1] u]] eqn:E; [discriminate|].
  exists ps, st1, rest1, u. pose proof (pstep_spec _ _ _ _ _ _ E) as [L _]. split; [exact E|split; [|exact L]].
  cbn [length] in Hf. destruct u.
  - exists f, tot, (tot - length rest1)%nat. split; [lia|exact H].
  - exists f, tot, (p_pos st1). split; [lia|]. rewrite set_pos_eta. exact H.
Qed.

Lemma steps_ws st c : is_ws c = true -> steps st [c] st.
Proof.
  intros H. unfold is_ws in H. apply orb_true_iff in H. destruct H as [H|H]; [apply orb_true_iff in H; destruct H as [H|H]; [apply orb_true_iff in H; destruct H as [H|H]|]|];
    apply N.eqb_eq in H; subst c; apply (steps_one st _ [] st true); intros rest pos; reflexivity.
Qed.
Lemma succ_skip_ws st inp p : succ st inp p -> succ st (skip_ws inp) p.
Proof.
  induction inp as [|c t IH]; intros H; [exact H|]. cbn [skip_ws]. destruct (is_ws c) eqn:E; [|exact H].
  apply IH. apply (succ_steps st [c] st t p (steps_ws st c E)). exact H.
Qed.

(* ---- the brackets: when the iteration fails *)
Lemma pstep_open_fail st t : ~ (exists R j, p_res st = R ++ [jatom j] /\ (p_barrier st < length (p_res st))%nat) -> exists e, pstep st 123 t = inl e.
Proof.
  intros Hn.
  change (pstep st 123 t) with
    (if negb (Nat.ltb (p_barrier st) (length (p_res st))) then inl StackInvalid else
     match last_atom (p_res st) with
     | Some Jump1 => let r := set_last (p_res st) (Push 1) ++ [Jump1] in @inr paterr _ ({| p_res := r; p_save := p_save st; p_depth := p_depth st + 1; p_subs := p_subs st; p_pos := p_pos st; p_barrier := length r |}, t, true)
     | Some Jump4 => let r := set_last (p_res st) (Push 4) ++ [Jump4] in inr ({| p_res := r; p_save := p_save st; p_depth := p_depth st + 1; p_subs := p_subs st; p_pos := p_pos st; p_barrier := length r |}, t, true)
     | Some Ptr => let r := set_last (p_res st) (Push 0) ++ [Ptr] in inr ({| p_res := r; p_save := p_save st; p_depth := p_depth st + 1; p_subs := p_subs st; p_pos := p_pos st; p_barrier := length r |}, t, true)
     | _ => inl StackInvalid
     end).
  destruct (Nat.ltb (p_barrier st) (length (p_res st))) eqn:Eb; [|eexists; reflexivity]. apply Nat.ltb_lt in Eb. cbn [negb].
  destruct (last_atom (p_res st)) as [a|] eqn:EL; [|eexists; reflexivity].
  destruct a; try (eexists; reflexivity); exfalso; apply Hn; destruct (last_atom_inv _ _ EL) as [R ER];
    [exists R, J1|exists R, J4|exists R, JP]; (split; [exact ER|exact Eb]).
Qed.
Lemma pstep_close_fail st t : p_depth st <= floor_of (p_subs st) -> exists e, pstep st 125 t = inl e.
Proof.
  intros H.
  change (pstep st 125 t) with
    (if p_depth st <=? floor_of (p_subs st) then inl StackError
     else @inr paterr _ ({| p_res := p_res st ++ [Pop]; p_save := p_save st; p_depth := p_depth st - 1; p_subs := p_subs st; p_pos := p_pos st; p_barrier := p_barrier st |}, t, true)).
  destruct (p_depth st <=? floor_of (p_subs st)) eqn:E; [eexists; reflexivity|lia].
Qed.
Lemma pstep_group_fail st c t : c = 124 \/ c = 41 ->
  (p_subs st = [] \/ exists sb subs, p_subs st = sb :: subs /\ p_depth st <> sb_depth sb) -> exists e, pstep st c t = inl e.
Proof.
  intros Hc H. destruct Hc as [-> | ->]; unfold pstep; cbn [N.eqb Pos.eqb]; cbv zeta;
    (destruct H as [H|[sb [subs [H Hd]]]]; rewrite H; [eexists; reflexivity|];
     destruct (p_depth st =? sb_depth sb) eqn:E; [lia|cbn [negb]; eexists; reflexivity]).
Qed.

(* ---- the break offsets: the parser's checks at ')' give [alt_ok] *)
Lemma fill_fold_inl total brks e : fill_fold total brks (inl e) = inl e.
Proof. induction brks as [|b t IH]; [reflexivity|]. cbn [fill_fold fold_left]. exact IH. Qed.
Lemma alt_ok_cons_intro l t : t <> [] -> (length l + 1 < 256)%nat /\ (length (alt_code t) < 256)%nat /\ alt_ok t -> alt_ok (l :: t).
Proof. destruct t; [contradiction|]. intros _ H. exact H. Qed.
Lemma fill_fold_inv ll : forall ls P total res2, total = length (P ++ partial ls ++ Nop :: ll) ->
  Forall (fun l => (length l + 1 < 256)%nat) ls ->
  fill_fold total (brk_pos (length P) ls) (inr (P ++ partial ls ++ Nop :: ll)) = inr res2 -> alt_ok (ls ++ [ll]).
Proof.
  induction ls as [|l t IH]; intros P total res2 Ht HF H; [exact I|].
  change ((l :: t) ++ [ll]) with (l :: (t ++ [ll])). pose proof (Forall_inv HF) as H1. pose proof (Forall_inv_tail HF) as HF'. cbv beta in H1.
  apply (alt_ok_cons_intro l (t ++ [ll]) (snoc_nonempty _ _)).
  cbn [brk_pos partial fill_fold fold_left] in H.
  set (k := Case (N.of_nat (length l + 1))) in *.
  assert (Hoff : (total - (length P + 1 + length l) - 1)%nat = length (alt_code (t ++ [ll]))).
  { rewrite Ht, alt_code_length. cbn [partial]. lens. lia. }
  rewrite Hoff in H. destruct (Nat.leb 256 (length (alt_code (t ++ [ll])))) eqn:E.
  { match type of H with fold_left ?f ?b ?a = _ => change (fill_fold total b a = inr res2) in H end. rewrite fill_fold_inl in H. discriminate. }
  apply Nat.leb_gt in E. split; [exact H1|split; [exact E|]].
  replace (P ++ (k :: l ++ Break 0 :: partial t) ++ Nop :: ll) with ((P ++ k :: l) ++ Break 0 :: partial t ++ Nop :: ll) in H
    by (rewrite <- !app_assoc; cbn [app]; rewrite <- app_assoc; reflexivity).
  replace (length P + 1 + length l)%nat with (length (P ++ k :: l)) in H by (rewrite app_length; cbn [length]; lia).
  rewrite upd_app_mid in H.
  set (bk := Break (N.of_nat (length (alt_code (t ++ [ll]))))) in *.
  replace ((P ++ k :: l) ++ bk :: partial t ++ Nop :: ll) with (((P ++ k :: l) ++ [bk]) ++ partial t ++ Nop :: ll) in H
    by (rewrite <- !app_assoc; reflexivity).
  replace (length P + length l + 2)%nat with (length ((P ++ k :: l) ++ [bk])) in H by (lens; lia).
  match type of H with fold_left ?f ?b ?a = _ => change (fill_fold total b a = inr res2) in H end.
  apply (IH _ _ _) in H; [exact H| |exact HF']. rewrite Ht. subst k bk. cbn [partial]. lens. lia.
Qed.

(* ---- a one-token item on the image of a compiler state *)
Notation bytes inp := (Forall (fun ch : N => ch < 256) inp).

Lemma eff_img P c0 bar dep sbs pos st1 it : one_tok it = true -> (forall n, it <> IWild n) ->
  eff (set_pos (mkst (pre P c0) bar dep sbs) pos) st1 (item_atoms it (c_save c0)) (item_slots it) ->
  st1 = set_pos (mkst (pre P (comp_item it c0)) bar dep sbs) pos.
Proof.
  intros H1 Hw E. destruct st1 as [res sv dp sb ps br]. unfold eff in E. cbn [set_pos mkst pre p_res p_save p_depth p_subs p_pos p_barrier c_res c_save] in E.
  destruct E as (-> & -> & -> & -> & -> & ->). unfold set_pos, mkst, pre. cbn [p_res p_save p_depth p_subs p_pos p_barrier c_res c_save].
  destruct it; try discriminate; try (exfalso; exact (Hw _ eq_refl));
    cbn [comp_item item_atoms item_slots emit emit_slot c_res c_save]; rewrite <- ?app_assoc, ?N.add_0_r; reflexivity.
Qed.

Lemma conv_item P c0 bar dep sbs c t it r p :
  lex1 (c :: t) = Some (TItem it, r) -> c <> 63 -> bytes (c :: t) ->
  succ (mkst (pre P c0) bar dep sbs) (c :: t) p ->
  wf_item it c0 /\ one_tok it = true /\ (forall n, it <> IWild n) /\ succ (mkst (pre P (comp_item it c0)) bar dep sbs) r p /\ bytes r /\ (length r < length (c :: t))%nat.
Proof.
  intros Hl Hq Hb S. destruct (succ_cons _ _ _ _ S) as [pos [st1 [rest1 [u [E [S1 _]]]]]].
  destruct (pstep_of_lex1 (set_pos (mkst (pre P c0) bar dep sbs) pos) c t it r Hl Hq) as [st1' [u' [Ef Hc]]].
  cbn [set_pos mkst pre p_save c_save] in Hc, Ef.
  destruct (lex1_facts _ _ _ _ Hl) as [[pre0 Hpre] [Hlw [Hin Hwild]]].
  assert (Hnw : forall n, it <> IWild n). { intros n ->. apply Hq. apply Hwild. eexists. reflexivity. }
  assert (H1 : one_tok it = true) by (destruct it; try reflexivity; contradiction).
  destruct (item_condb it (c_save c0)) eqn:Ec; [|destruct Hc as [e Hc]; rewrite Hc in E; discriminate].
  rewrite Hc in E. injection E as <- <- <-.
  apply (eff_img P c0 bar dep sbs pos st1' it H1 Hnw) in Ef. subst st1'. pose proof (proj1 (succ_set_pos _ _ _ _) S1) as S2.
  assert (Hbr : bytes r). { rewrite Hpre in Hb. apply Forall_app in Hb. exact (proj2 Hb). }
  split; [|split; [exact H1|split; [exact Hnw|split; [exact S2|split; [exact Hbr|exact (lex1_length _ _ _ Hl)]]]]].
  destruct it; cbn [wf_item item_condb lexwf in_str] in *; try exact I; try lia; try (exfalso; exact Hlw).
  - (* string *) apply Forall_forall. intros x Hx. split; [|exact (proj1 (Forall_forall _ _) Hlw x Hx)].
    apply Forall_cons_iff in Hb. exact (proj1 (Forall_forall _ _) (proj2 Hb) x (Hin x Hx)).
Qed.

(* ---- every accepted input can be cut into tokens *)
Lemma pstep_q_rest st t st1 rest1 u : pstep st 63 t = inr (st1, rest1, u) -> rest1 = t.
Proof.
  change (pstep st 63 t) with
    (match last_atom (p_res st) with
     | Some (Skip k) =>
       if Nat.ltb (p_barrier st) (length (p_res st)) && negb (k =? 0) && (k <? 255)
       then @inr paterr _ (upd_st st (set_last (p_res st) (Skip (k + 1))) (p_save st), t, false)
       else inr (upd_st st (p_res st ++ [Skip 1]) (p_save st), t, true)
     | _ => inr (upd_st st (p_res st ++ [Skip 1]) (p_save st), t, true)
     end).
  intros H. destruct (last_atom (p_res st)) as [a|]; [|injection H as _ <- _; reflexivity].
  destruct a; try (injection H as _ <- _; reflexivity).
  destruct (Nat.ltb (p_barrier st) (length (p_res st)) && negb (k =? 0) && (k <? 255)); injection H as _ <- _; reflexivity.
Qed.
Lemma pstep_bracket_rest st c t st1 rest1 u : In c [123; 125; 40; 124; 41] -> pstep st c t = inr (st1, rest1, u) -> rest1 = t.
Proof.
  intros Hc H. pose proof (pstep_spec _ _ _ _ _ _ H) as [L _]. cbn [In] in Hc.
  assert (Hlen : length rest1 = length t -> rest1 = t -> rest1 = t) by (intros _ X; exact X). clear Hlen.
  destruct Hc as [<-|[<-|[<-|[<-|[<-|[]]]]]].
  - change (pstep st 123 t) with
      (if negb (Nat.ltb (p_barrier st) (length (p_res st))) then inl StackInvalid else
       match last_atom (p_res st) with
       | Some Jump1 => let r := set_last (p_res st) (Push 1) ++ [Jump1] in @inr paterr _ ({| p_res := r; p_save := p_save st; p_depth := p_depth st + 1; p_subs := p_subs st; p_pos := p_pos st; p_barrier := length r |}, t, true)
       | Some Jump4 => let r := set_last (p_res st) (Push 4) ++ [Jump4] in inr ({| p_res := r; p_save := p_save st; p_depth := p_depth st + 1; p_subs := p_subs st; p_pos := p_pos st; p_barrier := length r |}, t, true)
       | Some Ptr => let r := set_last (p_res st) (Push 0) ++ [Ptr] in inr ({| p_res := r; p_save := p_save st; p_depth := p_depth st + 1; p_subs := p_subs st; p_pos := p_pos st; p_barrier := length r |}, t, true)
       | _ => inl StackInvalid
       end) in H.
    destruct (negb (Nat.ltb (p_barrier st) (length (p_res st)))); [discriminate|]. destruct (last_atom (p_res st)) as [a|]; [|discriminate].
    destruct a; try discriminate; injection H as _ <- _; reflexivity.
  - change (pstep st 125 t) with
      (if p_depth st <=? floor_of (p_subs st) then inl StackError
       else @inr paterr _ ({| p_res := p_res st ++ [Pop]; p_save := p_save st; p_depth := p_depth st - 1; p_subs := p_subs st; p_pos := p_pos st; p_barrier := p_barrier st |}, t, true)) in H.
    destruct (p_depth st <=? floor_of (p_subs st)); [discriminate|]. injection H as _ <- _. reflexivity.
  - rewrite pstep_lparen in H. injection H as _ <- _. reflexivity.
  - destruct (p_subs st) as [|sb subs] eqn:Es; [destruct (pstep_group_fail st 124 t (or_introl eq_refl) (or_introl Es)) as [e He]; rewrite He in H; discriminate|].
    destruct (N.eq_dec (p_depth st) (sb_depth sb)) as [Ed|Ed].
    + rewrite (pstep_pipe st sb subs t Es Ed) in H. destruct (Nat.leb 256 _); [discriminate|]. injection H as _ <- _. reflexivity.
    + destruct (pstep_group_fail st 124 t (or_introl eq_refl)) as [e He]; [right; exists sb, subs; split; assumption|]. rewrite He in H. discriminate.
  - destruct (p_subs st) as [|sb subs] eqn:Es; [destruct (pstep_group_fail st 41 t (or_intror eq_refl) (or_introl Es)) as [e He]; rewrite He in H; discriminate|].
    destruct (N.eq_dec (p_depth st) (sb_depth sb)) as [Ed|Ed].
    + rewrite (pstep_rparen st sb subs t Es Ed) in H. destruct (fill_breaks _ _); [discriminate|]. injection H as _ <- _. reflexivity.
    + destruct (pstep_group_fail st 41 t (or_intror eq_refl)) as [e He]; [right; exists sb, subs; split; assumption|]. rewrite He in H. discriminate.
Qed.
Lemma lexes_q t ts1 : lexes t ts1 -> forall n r, qrun t = (n, r) -> exists ts', lexes r ts'.
Proof.
  intros H n r Hq. destruct t as [|c0 t']; [cbn [qrun] in Hq; injection Hq as _ <-; exists ts1; exact H|].
  cbn [qrun] in Hq. destruct (c0 =? 63) eqn:E; [|injection Hq as _ <-; exists ts1; exact H].
  apply N.eqb_eq in E. subst c0. destruct (qrun t') as [n' r'] eqn:Eq. injection Hq as _ <-.
  inversion H as [s E0|s c1 t1 tk r1 ts0 E0 E1 H2]; subst; cbn [skip_ws is_ws N.eqb Pos.eqb orb] in E0; [discriminate|].
  injection E0 as <- <-.
  change (lex1 (63 :: t')) with (let (n0, r0) := qrun t' in Some (TItem (IWild (S n0)), r0)) in E1. rewrite Eq in E1. injection E1 as _ <-.
  exists ts0. exact H2.
Qed.

Lemma succ_lexes : forall n inp st p, (length inp <= n)%nat -> succ st inp p -> exists ts, lexes inp ts.
Proof.
  induction n as [|n IH]; intros inp st p Hn HS.
  - destruct inp; [|cbn [length] in Hn; lia]. exists []. apply lexes_nil. reflexivity.
  - destruct (skip_ws inp) as [|c t] eqn:Ew; [exists []; apply lexes_nil; exact Ew|].
    pose proof (skip_ws_length inp) as Lw. rewrite Ew in Lw. cbn [length] in Lw.
    pose proof (skip_ws_head _ _ _ Ew) as Hws. apply succ_skip_ws in HS. rewrite Ew in HS.
    destruct (succ_cons _ _ _ _ HS) as [pos [st1 [rest1 [u [E [S1 L1]]]]]].
    destruct (IH rest1 st1 p ltac:(lia) S1) as [ts1 Hts1].
    destruct (lex1 (c :: t)) as [[tk r]|] eqn:El.
    2: { destruct (pstep_lex1_none (set_pos st pos) c t Hws El) as [e He]. rewrite He in E. discriminate. }
    destruct (N.eq_dec c 63) as [->|Hq].
    + apply pstep_q_rest in E. subst rest1.
      change (lex1 (63 :: t)) with (let (n0, r0) := qrun t in Some (TItem (IWild (S n0)), r0)) in El.
      destruct (qrun t) as [n0 r0] eqn:Eq. injection El as <- <-. destruct (lexes_q t ts1 Hts1 _ _ Eq) as [ts' Hts'].
      eexists. eapply lexes_cons; [exact Ew| |exact Hts'].
      change (lex1 (63 :: t)) with (let (n1, r1) := qrun t in Some (TItem (IWild (S n1)), r1)). rewrite Eq. reflexivity.
    + destruct (lex1_facts _ _ _ _ El) as [_ Hf]. destruct tk as [it| | | | |].
      * destruct (pstep_of_lex1 (set_pos st pos) c t it r El Hq) as [st1' [u' [_ Hc]]].
        destruct (item_condb it (p_save (set_pos st pos))); [|destruct Hc as [e Hc]; rewrite Hc in E; discriminate].
        rewrite Hc in E. injection E as _ <- _. eexists. eapply lexes_cons; [exact Ew|exact El|exact Hts1].
      * destruct Hf as [-> ->]. apply pstep_bracket_rest in E; [|cbn [tok_char In]; tauto]. subst rest1. eexists. eapply lexes_cons; [exact Ew|exact El|exact Hts1].
      * destruct Hf as [-> ->]. apply pstep_bracket_rest in E; [|cbn [tok_char In]; tauto]. subst rest1. eexists. eapply lexes_cons; [exact Ew|exact El|exact Hts1].
      * destruct Hf as [-> ->]. apply pstep_bracket_rest in E; [|cbn [tok_char In]; tauto]. subst rest1. eexists. eapply lexes_cons; [exact Ew|exact El|exact Hts1].
      * destruct Hf as [-> ->]. apply pstep_bracket_rest in E; [|cbn [tok_char In]; tauto]. subst rest1. eexists. eapply lexes_cons; [exact Ew|exact El|exact Hts1].
      * destruct Hf as [-> ->]. apply pstep_bracket_rest in E; [|cbn [tok_char In]; tauto]. subst rest1. eexists. eapply lexes_cons; [exact Ew|exact El|exact Hts1].
Qed.

(* ---- small facts for the structural induction *)
Lemma rseq_stops : forall ts l r, rseq ts l r -> stops r.
Proof. apply (rseq_mind (fun ts l r _ => stops r) (fun _ _ _ _ => True)); intros; try assumption; exact I. Qed.

Lemma lexes_head inp tk ts : lexes inp (tk :: ts) -> exists c t r, skip_ws inp = c :: t /\ lex1 (c :: t) = Some (tk, r) /\ lexes r ts.
Proof. intros H. inversion H as [|s c t tk0 r ts0 E E1 H2]; subst. exists c, t, r. split; [exact E|split; [exact E1|exact H2]]. Qed.
Lemma lexes_nil_inv inp : lexes inp [] -> skip_ws inp = [].
Proof. intros H. inversion H. assumption. Qed.
Lemma bytes_skip_ws inp : bytes inp -> bytes (skip_ws inp).
Proof. intros H. destruct (skip_ws_suffix inp) as [pre0 [E _]]. rewrite E in H. apply Forall_app in H. exact (proj2 H). Qed.

(* a bracket token: the input (behind whitespace) starts with the bracket character *)
Lemma lexes_bracket inp tk ts : lexes inp (tk :: ts) -> match tk with TItem _ => False | _ => True end -> bytes inp ->
  exists t, skip_ws inp = tok_char tk :: t /\ lexes t ts /\ (length t < length inp)%nat /\ bytes t.
Proof.
  intros H Hb Hby. destruct (lexes_head _ _ _ H) as [c [t [r [E [E1 H2]]]]]. destruct (lex1_facts _ _ _ _ E1) as [_ Hf].
  pose proof (skip_ws_length inp) as L. rewrite E in L. cbn [length] in L. pose proof (bytes_skip_ws _ Hby) as Hb2. rewrite E in Hb2. apply Forall_cons_iff in Hb2.
  destruct tk; [contradiction|..]; destruct Hf as [-> ->]; exists t; (split; [exact E|split; [exact H2|split; [lia|exact (proj2 Hb2)]]]).
Qed.

Lemma eff_nil st st1 : eff st st1 [] 0 -> st1 = st.
Proof.
  destruct st as [a1 a2 a3 a4 a5 a6], st1 as [b1 b2 b3 b4 b5 b6]. unfold eff. cbn [p_res p_save p_depth p_subs p_pos p_barrier]. intros (-> & -> & -> & -> & -> & ->).
  rewrite app_nil_r, N.add_0_r. reflexivity.
Qed.

(* items that denote nothing between a jump and its brace leave the state alone (reading decision R1) *)
Lemma nulls_run st : forall ts1 rest1 r p, brace_after ts1 = Some rest1 -> lexes r ts1 -> succ st r p -> bytes r ->
  exists r', lexes r' (TLBrace :: rest1) /\ succ st r' p /\ (length r' <= length r)%nat /\ bytes r'.
Proof.
  induction ts1 as [|tk ts1 IH]; intros rest1 r p Hb Hl HS Hby; cbn [brace_after] in Hb; [discriminate|].
  destruct tk as [it| | | | |]; try discriminate.
  2: { injection Hb as <-. exists r. split; [exact Hl|split; [exact HS|split; [lia|exact Hby]]]. }
  destruct (null_tok (TItem it)) eqn:En; [|discriminate].
  destruct (lexes_head _ _ _ Hl) as [c [t [r2 [E [E1 H2]]]]]. destruct (lex1_facts _ _ _ _ E1) as [[pre0 Hpre] [_ [_ Hw]]].
  assert (Hq : c <> 63). { intros ->. destruct (proj1 Hw eq_refl) as [n ->]. discriminate En. }
  pose proof (skip_ws_length r) as L. rewrite E in L. pose proof (bytes_skip_ws _ Hby) as Hb2. rewrite E in Hb2.
  apply succ_skip_ws in HS. rewrite E in HS. destruct (succ_cons _ _ _ _ HS) as [pos [st1 [rest0 [u [Ep [S1 _]]]]]].
  destruct (pstep_of_lex1 (set_pos st pos) c t it r2 E1 Hq) as [st1' [u' [Ef Hc]]].
  assert (Hnull : item_condb it (p_save (set_pos st pos)) = true /\ item_atoms it (p_save (set_pos st pos)) = [] /\ item_slots it = 0).
  { destruct it; try discriminate En; cbn [null_tok] in En.
    - destruct s; [|discriminate]. repeat split.
    - apply N.eqb_eq in En. subst n. repeat split. }
  destruct Hnull as [Hc1 [Ha Hs]]. rewrite Hc1 in Hc. rewrite Ha, Hs in Ef. apply eff_nil in Ef. subst st1'.
  rewrite Hc in Ep. injection Ep as <- <- <-. pose proof (proj1 (succ_set_pos _ _ _ _) S1) as S2.
  pose proof (lex1_length _ _ _ E1) as L2. assert (Hbr : bytes r2). { rewrite Hpre in Hb2. apply Forall_app in Hb2. exact (proj2 Hb2). }
  destruct (IH rest1 r2 p Hb H2 S2 Hbr) as [r' [A [B [C D]]]]. exists r'. split; [exact A|split; [exact B|split; [|exact D]]].
  cbn [length] in *. lia.
Qed.

(* after an item that emits something the last atom is not a jump: no brace may follow *)
Definition brace_ready (P : list atom) (c : cst) (bar : nat) : Prop :=
  exists R j, c_res (pre P c) = R ++ [jatom j] /\ (bar < length (c_res (pre P c)))%nat.

Lemma not_ready_last P c bar R a : c_res c = R ++ [a] -> (forall j, a <> jatom j) -> ~ brace_ready P c bar.
Proof.
  intros E Ha [R2 [j [E2 _]]]. cbn [pre c_res] in E2. rewrite E, app_assoc in E2. apply app_inj_tail in E2. exact (Ha j (proj2 E2)).
Qed.
Lemma item_last it c : one_tok it = true -> (forall n, it <> IWild n) -> is_jump it = false -> null_tok (TItem it) = false ->
  exists R a, c_res (comp_item it c) = R ++ [a] /\ forall j, a <> jatom j.
Proof.
  intros H1 Hw Hj Hn. destruct it; try discriminate; cbn [comp_item emit emit_slot c_res].
  - exists (c_res c), (Byte b). split; [reflexivity|intros []; discriminate].
  - destruct s as [|x s]; [discriminate|]. destruct (@exists_last _ (x :: s) ltac:(discriminate)) as [s' [y E]]. rewrite E, map_app. cbn [map].
    exists (c_res c ++ map Byte s'), (Byte y). split; [rewrite app_assoc; reflexivity|intros []; discriminate].
  - exfalso. exact (Hw _ eq_refl).
  - cbn [null_tok] in Hn. unfold skip_atoms. rewrite Hn. exists (c_res c ++ (if 256 <=? n then [Rangext (n / 256)] else [])), (Skip (n mod 256)).
    split; [rewrite <- app_assoc; reflexivity|intros []; discriminate].
  - unfold many_atoms. exists (c_res c ++ skip_atoms a ++ (if 256 <=? b - a then [Rangext ((b - a) / 256)] else [])), (Many ((b - a) mod 256)).
    split; [rewrite <- !app_assoc; reflexivity|intros []; discriminate].
  - exists (c_res c), (Save (c_save c)). split; [reflexivity|intros []; discriminate].
  - exists (c_res c), (ratom r (c_save c)). split; [reflexivity|intros []; destruct r; discriminate].
  - exists (c_res c), (Zero (c_save c)). split; [reflexivity|intros []; discriminate].
  - exists (c_res c), (Aligned k). split; [reflexivity|intros []; discriminate].
Qed.
Lemma wild1_last c : exists R k, c_res (wild1 c) = R ++ [Skip k].
Proof.
  unfold wild1. destruct (last_atom (c_res c)) as [a|] eqn:E; [|exists (c_res c), 1; reflexivity].
  destruct a; try (exists (c_res c), 1; reflexivity).
  destruct (negb (c_closed c) && negb (k =? 0) && (k <? 255)); [|exists (c_res c), 1; reflexivity].
  destruct (last_atom_inv _ _ E) as [R ER]. exists R, (k + 1). cbn [c_res]. rewrite ER, set_last_snoc. reflexivity.
Qed.

(* ---- closing a brace, an alternative, a group, the pattern *)
Lemma close_brace C bar dep sbs inp ts p : floor_ok dep sbs -> lexes inp ts -> stops ts -> bytes inp ->
  succ (mkst C bar (dep + 1) sbs) inp p ->
  exists ts3 t2, ts = TRBrace :: ts3 /\ lexes t2 ts3 /\ succ (mkst (emit C [Pop]) bar dep sbs) t2 p /\ (length t2 < length inp)%nat /\ bytes t2.
Proof.
  intros Hfl Hl Hs Hby HS. destruct ts as [|tk ts3].
  - apply lexes_nil_inv in Hl. apply succ_skip_ws in HS. rewrite Hl in HS. apply succ_nil in HS. cbn [mkst p_depth] in HS. lia.
  - cbn [stops] in Hs. destruct (lexes_bracket _ _ _ Hl ltac:(destruct tk; [discriminate|exact I..]) Hby) as [t [E [H2 [L Hb2]]]].
    apply succ_skip_ws in HS. rewrite E in HS.
    destruct tk; try discriminate; cbn [tok_char] in *.
    + exists ts3, t. split; [reflexivity|split; [exact H2|split; [|split; [exact L|exact Hb2]]]].
      exact (succ_steps _ [125] _ t p (steps_close C bar dep sbs Hfl) HS).
    + destruct (succ_cons _ _ _ _ HS) as [pos [st1 [r1 [u [Ep _]]]]].
      destruct (pstep_group_fail (set_pos (mkst C bar (dep + 1) sbs) pos) 124 t (or_introl eq_refl)) as [e He]; [|rewrite He in Ep; discriminate].
      cbn [set_pos mkst p_subs p_depth]. destruct sbs as [|sb sbs']; [left; reflexivity|right; exists sb, sbs'; split; [reflexivity|unfold floor_ok in Hfl; lia]].
    + destruct (succ_cons _ _ _ _ HS) as [pos [st1 [r1 [u [Ep _]]]]].
      destruct (pstep_group_fail (set_pos (mkst C bar (dep + 1) sbs) pos) 41 t (or_intror eq_refl)) as [e He]; [|rewrite He in Ep; discriminate].
      cbn [set_pos mkst p_subs p_depth]. destruct sbs as [|sb sbs']; [left; reflexivity|right; exists sb, sbs'; split; [reflexivity|unfold floor_ok in Hfl; lia]].
Qed.

Lemma top_closer C bar inp ts p : lexes inp ts -> stops ts -> bytes inp -> succ (mkst C bar 0 []) inp p -> ts = [] /\ p = trim (c_res C).
Proof.
  intros Hl Hs Hby HS. destruct ts as [|tk ts3].
  - split; [reflexivity|]. apply lexes_nil_inv in Hl. apply succ_skip_ws in HS. rewrite Hl in HS. apply succ_nil in HS. exact (proj2 (proj2 HS)).
  - exfalso. cbn [stops] in Hs. destruct (lexes_bracket _ _ _ Hl ltac:(destruct tk; [discriminate|exact I..]) Hby) as [t [E _]].
    apply succ_skip_ws in HS. rewrite E in HS. destruct (succ_cons _ _ _ _ HS) as [pos [st1 [r1 [u [Ep _]]]]].
    destruct tk; discriminate.   (* the three closers fail by computation on the empty context *)
Qed.

Lemma pipe_cond P0 s0 dep sbs prev cur bar t p : succ (G P0 s0 dep sbs prev cur bar) (124 :: t) p -> (length (c_res cur) + 1 < 256)%nat.
Proof.
  intros HS. destruct (succ_cons _ _ _ _ HS) as [pos [st1 [r1 [u [Ep _]]]]].
  rewrite (pstep_pipe _ (mksub P0 s0 dep prev) sbs) in Ep by reflexivity.
  unfold G, mkst, set_pos, pre, mksub in Ep. cbn [p_res p_save p_depth p_subs p_barrier p_pos c_res c_save c_closed sb_case sb_brks sb_save sb_save_next sb_depth] in Ep.
  match type of Ep with (if Nat.leb 256 ?x then _ else _) = _ => destruct (Nat.leb 256 x) eqn:E; [discriminate|]; apply Nat.leb_gt in E; revert E end.
  unfold ctx. lens. lia.
Qed.

Lemma rparen_cond P0 s0 dep sbs prev cur bar t p : Forall (fun c => (length (c_res c) + 1 < 256)%nat) prev ->
  succ (G P0 s0 dep sbs prev cur bar) (41 :: t) p -> alt_ok (map c_res (prev ++ [cur])).
Proof.
  intros HF HS. destruct (succ_cons _ _ _ _ HS) as [pos [st1 [r1 [u [Ep _]]]]].
  rewrite (pstep_rparen _ (mksub P0 s0 dep prev) sbs) in Ep by reflexivity.
  unfold G, mkst, set_pos, pre, mksub in Ep. cbn [p_res p_save p_depth p_subs p_barrier p_pos c_res c_save c_closed sb_case sb_brks sb_save sb_save_next sb_depth] in Ep.
  set (Ls := map c_res prev) in *. set (Lc := c_res cur) in *.
  assert (Eupd : upd (ctx P0 prev ++ Lc) (length P0 + length (partial Ls)) Nop = P0 ++ partial Ls ++ Nop :: Lc).
  { unfold ctx. fold Ls.
    replace ((P0 ++ partial Ls ++ [Case 0]) ++ Lc) with ((P0 ++ partial Ls) ++ Case 0 :: Lc) by (rewrite <- !app_assoc; reflexivity).
    replace (length P0 + length (partial Ls))%nat with (length (P0 ++ partial Ls)) by (rewrite app_length; reflexivity).
    rewrite upd_app_mid, <- app_assoc. reflexivity. }
  rewrite Eupd in Ep. unfold fill_breaks in Ep.
  match type of Ep with context [fold_left ?f ?b ?a] => change (fold_left f b a) with (fill_fold (length (P0 ++ partial Ls ++ Nop :: Lc)) b a) in Ep end.
  destruct (fill_fold (length (P0 ++ partial Ls ++ Nop :: Lc)) (brk_pos (length P0) Ls) (inr (P0 ++ partial Ls ++ Nop :: Lc))) as [e|res2] eqn:EF; [discriminate|].
  rewrite map_app. cbn [map]. fold Ls Lc. apply (fill_fold_inv Lc Ls P0 _ res2 eq_refl); [|exact EF].
  unfold Ls. apply Forall_map. exact HF.
Qed.

Lemma group_closer P0 s0 dep sbs prev cur bar inp ts p : lexes inp ts -> stops ts -> bytes inp -> succ (G P0 s0 dep sbs prev cur bar) inp p ->
  exists ts3 t2, lexes t2 ts3 /\ (length t2 < length inp)%nat /\ bytes t2 /\
    ((ts = TPipe :: ts3 /\ succ (G P0 s0 dep sbs prev cur bar) (124 :: t2) p) \/
     (ts = TRParen :: ts3 /\ succ (G P0 s0 dep sbs prev cur bar) (41 :: t2) p)).
Proof.
  intros Hl Hs Hby HS. destruct ts as [|tk ts3].
  - apply lexes_nil_inv in Hl. apply succ_skip_ws in HS. rewrite Hl in HS. apply succ_nil in HS. destruct HS as [_ [HS _]]. discriminate HS.
  - cbn [stops] in Hs. destruct (lexes_bracket _ _ _ Hl ltac:(destruct tk; [discriminate|exact I..]) Hby) as [t [E [H2 [L Hb2]]]].
    apply succ_skip_ws in HS. rewrite E in HS. exists ts3, t. split; [exact H2|split; [exact L|split; [exact Hb2|]]].
    destruct tk; try discriminate; cbn [tok_char] in *.
    + exfalso. destruct (succ_cons _ _ _ _ HS) as [pos [st1 [r1 [u [Ep _]]]]].
      destruct (pstep_close_fail (set_pos (G P0 s0 dep sbs prev cur bar) pos) t) as [e He]; [cbn [set_pos G mkst mksub p_depth p_subs floor_of sb_depth]; lia|].
      rewrite He in Ep. discriminate.
    + left. split; [reflexivity|exact HS].
    + right. split; [reflexivity|exact HS].
Qed.

(* ================================================================ the structural induction *)
Definition conv_seq_stmt (n : nat) : Prop :=
  forall inp ts P c bar dep sbs p, (length inp <= n)%nat -> bytes inp -> lexes inp ts ->
    guard P c -> bar_ok (pre P c) bar -> floor_ok dep sbs -> (brace_ready P c bar -> brace_after ts = None) ->
    succ (mkst (pre P c) bar dep sbs) inp p ->
    exists l ts' inp' bar', rseq ts l ts' /\ lexes inp' ts' /\ wf_seq l c /\ guard P (comp_seq l c) /\ bar_ok (pre P (comp_seq l c)) bar' /\
      succ (mkst (pre P (comp_seq l c)) bar' dep sbs) inp' p /\ (length inp' <= length inp)%nat /\ bytes inp'.

Definition conv_alts_stmt (n : nat) : Prop :=
  forall inp ts P0 s0 prev bar dep sbs p, (length inp <= n)%nat -> bytes inp -> lexes inp ts ->
    Forall (fun cur => (length (c_res cur) + 1 < 256)%nat) prev ->
    bar_ok (pre (ctx P0 prev) {| c_res := []; c_save := s0; c_closed := false |}) bar ->
    succ (G P0 s0 dep sbs prev {| c_res := []; c_save := s0; c_closed := false |} bar) inp p ->
    exists alts ts' inp' bar', alts <> [] /\ ralts ts alts ts' /\ lexes inp' ts' /\
      Forall (fun alt => wf_seq alt {| c_res := []; c_save := s0; c_closed := false |}) alts /\
      alt_ok (map c_res (prev ++ map (compf s0) alts)) /\
      bar_ok (closed_cst P0 (prev ++ map (compf s0) alts)) bar' /\
      succ (mkst (closed_cst P0 (prev ++ map (compf s0) alts)) bar' dep sbs) inp' p /\ (length inp' < length inp)%nat /\ bytes inp'.

Lemma bar_ok_item P it c bar : one_tok it = true -> (forall n, it <> IWild n) -> bar_ok (pre P c) bar -> bar_ok (pre P (comp_item it c)) bar.
Proof.
  intros H1 Hw Hb. destruct it; try discriminate; try (exfalso; exact (Hw _ eq_refl)); cbn [comp_item];
    rewrite ?pre_emit, ?pre_emit_slot; first [apply bar_ok_emit|apply bar_ok_emit_slot]; exact Hb.
Qed.
Lemma null_res it c : null_tok (TItem it) = true -> c_res (comp_item it c) = c_res c.
Proof.
  intros H. destruct it; try discriminate H; cbn [null_tok] in H.
  - destruct s; [|discriminate]. cbn [comp_item emit map c_res]. apply app_nil_r.
  - apply N.eqb_eq in H. subst n. cbn [comp_item emit c_res]. apply app_nil_r.
Qed.
Lemma forall_wf_alts s more :
  Forall (fun alt => wf_seq alt {| c_res := []; c_save := s; c_closed := false |}) more ->
  (fix gos (ls : list (list item)) : Prop :=
     match ls with [] => True | alt :: t => wf_seq alt {| c_res := []; c_save := s; c_closed := false |} /\ gos t end) more.
Proof. induction more as [|alt t IH]; intros H; [exact I|]. inversion H; subst. split; [assumption|apply IH; assumption]. Qed.
Lemma not_ready_full P c bar : bar = length (c_res (pre P c)) -> ~ brace_ready P c bar.
Proof. intros E [R [j [_ H]]]. lia. Qed.

Lemma conv_seq_step n : (forall m, (m < n)%nat -> conv_seq_stmt m /\ conv_alts_stmt m) -> conv_seq_stmt n.
Proof.
  intros IH inp ts P c bar dep sbs p Hn Hby Hl HG Hbar Hfl Hrdy HS.
  assert (Hstop : stops ts -> exists l ts' inp' bar', rseq ts l ts' /\ lexes inp' ts' /\ wf_seq l c /\ guard P (comp_seq l c) /\ bar_ok (pre P (comp_seq l c)) bar' /\
      succ (mkst (pre P (comp_seq l c)) bar' dep sbs) inp' p /\ (length inp' <= length inp)%nat /\ bytes inp').
  { intros Hs. exists [], ts, inp, bar. split; [apply rs_stop; exact Hs|]. split; [exact Hl|]. split; [exact I|]. split; [exact HG|]. split; [exact Hbar|].
    split; [exact HS|]. split; [lia|exact Hby]. }
  destruct ts as [|tk ts1]; [apply Hstop; exact I|].
  destruct (lexes_head _ _ _ Hl) as [c0 [t [r [Ew [El Hl1]]]]].
  pose proof (skip_ws_length inp) as Lw. rewrite Ew in Lw.
  pose proof (bytes_skip_ws _ Hby) as Hby2. rewrite Ew in Hby2.
  pose proof (succ_skip_ws _ _ _ HS) as HS2. rewrite Ew in HS2.
  pose proof (lex1_length _ _ _ El) as Lr.
  destruct (lex1_facts _ _ _ _ El) as [[pre0 Hpre] Hf].
  assert (Hbr : bytes r). { rewrite Hpre in Hby2. apply Forall_app in Hby2. exact (proj2 Hby2). }
  (* what remains to do behind the first item [x]: the induction hypothesis on the rest, then put [x] in front *)
  assert (Hnext : forall x c' bar1 r1 ts2, (length r1 < length inp)%nat -> bytes r1 -> lexes r1 ts2 -> wf_item x c -> c' = comp_item x c ->
    guard P c' -> bar_ok (pre P c') bar1 -> (brace_ready P c' bar1 -> brace_after ts2 = None) -> succ (mkst (pre P c') bar1 dep sbs) r1 p ->
    (forall l' ts', rseq ts2 l' ts' -> rseq (tk :: ts1) (x :: l') ts') ->
    exists l ts' inp' bar', rseq (tk :: ts1) l ts' /\ lexes inp' ts' /\ wf_seq l c /\ guard P (comp_seq l c) /\ bar_ok (pre P (comp_seq l c)) bar' /\
      succ (mkst (pre P (comp_seq l c)) bar' dep sbs) inp' p /\ (length inp' <= length inp)%nat /\ bytes inp').
  { intros x c' bar1 r1 ts2 L1 B1 Hl2 Wx Ec' G1 Hb1 Hr1 HS1 Hrs.
    destruct (proj1 (IH (length r1) ltac:(lia)) r1 ts2 P c' bar1 dep sbs p (le_n _) B1 Hl2 G1 Hb1 Hfl Hr1 HS1)
      as [l' [ts' [inp' [bar' [A1 [A2 [A3 [A4 [A5 [A6 [A7 A8]]]]]]]]]]].
    exists (x :: l'), ts', inp', bar'. change (comp_seq (x :: l') c) with (comp_seq l' (comp_item x c)). rewrite <- Ec'.
    split; [exact (Hrs _ _ A1)|]. split; [exact A2|]. split; [split; [exact Wx|rewrite <- Ec'; exact A3]|]. split; [exact A4|]. split; [exact A5|].
    split; [exact A6|]. split; [lia|exact A8]. }
  destruct tk as [it| | | | |].
  - (* ---------------- an item token *)
    destruct Hf as [Hlw [Hin Hwild]].
    destruct (N.eq_dec c0 63) as [Hq|Hq].
    + (* a run of question marks *)
      subst c0. change (lex1 (63 :: t)) with (let (n0, r0) := qrun t in Some (TItem (IWild (S n0)), r0)) in El.
      destruct (qrun t) as [m r0] eqn:Eq. injection El as <- <-. apply qrun_spec in Eq.
      destruct (reaches_wild (S m) (pre P c) dep sbs bar Hfl Hbar) as [bar2 [Hbar2 St]].
      rewrite <- (pre_wild P (S m) c HG) in Hbar2, St.
      assert (HS3 : succ (mkst (pre P (Nat.iter (S m) wild1 c)) bar2 dep sbs) r0 p).
      { apply (succ_steps _ (repeat 63 (S m)) _ r0 p St). cbn [repeat app]. rewrite <- Eq. exact HS2. }
      apply (Hnext (IWild (S m)) (Nat.iter (S m) wild1 c) bar2 r0 ts1);
        [cbn [length] in *; lia|exact Hbr|exact Hl1|exact I|reflexivity|exact (guard_comp_item P (IWild (S m)) c HG)|exact Hbar2| |exact HS3|].
      * intros Hr. exfalso. change (Nat.iter (S m) wild1 c) with (wild1 (Nat.iter m wild1 c)) in Hr.
        destruct (wild1_last (Nat.iter m wild1 c)) as [R [k E]]. refine (not_ready_last P _ bar2 R (Skip k) E _ Hr). intros []; discriminate.
      * intros l' ts' H. apply rs_item; [reflexivity|exact H].
    + (* a one-token item *)
      destruct (conv_item P c bar dep sbs c0 t it r p El Hq Hby2 HS2) as [Wit [H1 [Hnw [HS3 _]]]].
      pose proof (guard_comp_item P it c HG) as HG'. pose proof (bar_ok_item P it c bar H1 Hnw Hbar) as Hbar'.
      assert (Lr1 : (length r < length inp)%nat) by (cbn [length] in *; lia).
      destruct (is_jump it) eqn:Ej.
      * (* a jump symbol *)
        destruct it; try discriminate Ej. clear Ej.
        destruct (brace_after ts1) as [rest1|] eqn:Eb.
        -- (* ... with its brace *)
           destruct (nulls_run _ ts1 rest1 r p Eb Hl1 HS3 Hbr) as [r' [Hl' [HS4 [Lr' Hbr']]]].
           destruct (lexes_bracket _ _ _ Hl' I Hbr') as [t' [Ew' [Hl2 [Lt' Hbt']]]]. cbn [tok_char] in Ew'.
           apply succ_skip_ws in HS4. rewrite Ew' in HS4. cbn [comp_item] in HS4. rewrite pre_emit in HS4.
           pose proof (succ_steps _ [123] _ t' p (steps_open (pre P c) j bar dep sbs (bar_le _ _ Hbar)) HS4) as HS5.
           rewrite <- pre_emit in HS5. set (c2 := emit c [Push (jpush j); jatom j]) in *.
           assert (G2 : guard P c2). { apply guard_nonempty. unfold c2. cbn [emit c_res]. intros E. apply app_eq_nil in E. destruct E; discriminate. }
           assert (Hb2 : bar_ok (pre P c2) (length (c_res (pre P c)) + 2)%nat).
           { unfold c2. rewrite pre_emit. unfold bar_ok, emit. cbn [c_closed c_res]. rewrite app_length. cbn [length]. split; [lia|]. intros _ k.
             change (c_res (pre P c) ++ [Push (jpush j); jatom j]) with (c_res (pre P c) ++ [Push (jpush j)] ++ [jatom j]).
             rewrite app_assoc, last_atom_snoc. destruct j; discriminate. }
           assert (Hr2 : brace_ready P c2 (length (c_res (pre P c)) + 2)%nat -> brace_after rest1 = None).
           { intros Hr. exfalso. refine (not_ready_full P c2 _ _ Hr). unfold c2. rewrite pre_emit. cbn [emit c_res]. rewrite app_length. reflexivity. }
           destruct (proj1 (IH (length t') ltac:(lia)) t' rest1 P c2 _ (dep + 1) sbs p (le_n _) Hbt' Hl2 G2 Hb2 (floor_ok_succ _ _ Hfl) Hr2 HS5)
             as [sub [ts2 [inp2 [bar3 [B1 [B2 [B3 [B4 [B5 [B6 [B7 B8]]]]]]]]]]].
           destruct (close_brace (pre P (comp_seq sub c2)) bar3 dep sbs inp2 ts2 p Hfl B2 (rseq_stops _ _ _ B1) B8 B6)
             as [ts3 [t2 [-> [Hl3 [HS6 [Lt2 Hbt2]]]]]].
           rewrite <- pre_emit in HS6.
           apply (Hnext (ISub j sub) (emit (comp_seq sub c2) [Pop]) bar3 t2 ts3);
             [lia|exact Hbt2|exact Hl3|exact B3|reflexivity| | | |exact HS6|].
           ++ apply guard_nonempty. cbn [emit c_res]. intros E. apply app_eq_nil in E. destruct E; discriminate.
           ++ rewrite pre_emit. apply bar_ok_emit. exact B5.
           ++ intros Hr. exfalso. refine (not_ready_last P (emit (comp_seq sub c2) [Pop]) bar3 (c_res (comp_seq sub c2)) Pop eq_refl _ Hr). intros []; discriminate.
           ++ intros l' ts' H. eapply rs_sub; [exact Eb|exact B1|exact H].
        -- (* ... on its own *)
           apply (Hnext (IJump j) (comp_item (IJump j) c) bar r ts1);
             [exact Lr1|exact Hbr|exact Hl1|exact Wit|reflexivity|exact HG'|exact Hbar'|intros _; exact Eb|exact HS3|].
           intros l' ts' H. apply rs_jump; [exact Eb|exact H].
      * (* any other item *)
        apply (Hnext it (comp_item it c) bar r ts1);
          [exact Lr1|exact Hbr|exact Hl1|exact Wit|reflexivity|exact HG'|exact Hbar'| |exact HS3|].
        -- intros Hr. destruct (null_tok (TItem it)) eqn:En.
           ++ assert (Hr0 : brace_ready P c bar).
              { destruct Hr as [R [j [E L]]]. exists R, j. cbn [pre c_res] in *. rewrite (null_res it c En) in E, L. split; assumption. }
              specialize (Hrdy Hr0). cbn [brace_after] in Hrdy. rewrite En in Hrdy. exact Hrdy.
           ++ exfalso. destruct (item_last it c H1 Hnw Ej En) as [R [a [E Ha]]]. exact (not_ready_last P _ bar R a E Ha Hr).
        -- intros l' ts' H. apply rs_item; [exact Ej|exact H].
  - (* ---------------- '{' that follows no jump symbol *)
    exfalso. destruct Hf as [-> ->]. cbn [tok_char] in HS2.
    destruct (succ_cons _ _ _ _ HS2) as [pos [st1 [r1 [u [Ep _]]]]].
    destruct (pstep_open_fail (set_pos (mkst (pre P c) bar dep sbs) pos) t) as [e He]; [|rewrite He in Ep; discriminate].
    intros [R [j [E L]]]. cbn [set_pos mkst p_res p_barrier] in E, L.
    assert (Hr : brace_ready P c bar) by (exists R, j; split; assumption). specialize (Hrdy Hr). discriminate Hrdy.
  - apply Hstop. reflexivity.
  - (* ---------------- a group *)
    destruct Hf as [-> ->]. cbn [tok_char] in HS2.
    pose proof (steps_lparen P c bar dep sbs Hbar) as X. cbv zeta in X. destruct X as [Hb1 S1].
    pose proof (succ_steps _ [40] _ t p S1 HS2) as HS3.
    assert (Lt : (length t < n)%nat) by (cbn [length] in *; lia).
    destruct (proj2 (IH (length t) Lt) t ts1 (P ++ c_res c) (c_save c) [] bar dep sbs p (le_n _) Hbr Hl1 (Forall_nil _) Hb1 HS3)
      as [alts [ts2 [inp2 [bar2 [Hne [B1 [B2 [B3 [B4 [B5 [B6 [B7 B8]]]]]]]]]]]].
    destruct alts as [|a more]; [contradiction|].
    assert (Efin : pre P (comp_item (IAlt a more) c) = closed_cst (P ++ c_res c) ([] ++ map (compf (c_save c)) (a :: more))).
    { unfold pre, closed_cst. cbn [comp_item c_res c_save c_closed app map]. rewrite app_assoc. reflexivity. }
    rewrite <- Efin in B5, B6.
    apply (Hnext (IAlt a more) (comp_item (IAlt a more) c) bar2 inp2 ts2);
      [cbn [length] in *; lia|exact B8|exact B2| |reflexivity|exact (guard_comp_item P (IAlt a more) c HG)|exact B5| |exact B6|].
    + cbn [wf_item]. inversion B3 as [|? ? W1 W2]; subst. split; [exact W1|split; [apply forall_wf_alts; exact W2|exact B4]].
    + intros Hr. exfalso. refine (not_ready_full P _ bar2 _ Hr). unfold bar_ok in B5. cbn [pre comp_item c_closed] in B5. exact B5.
    + intros l' ts' H. eapply rs_alt; [exact B1|exact H].
  - apply Hstop. reflexivity.
  - apply Hstop. reflexivity.
Qed.

Lemma conv_alts_step n : (forall m, (m < n)%nat -> conv_seq_stmt m /\ conv_alts_stmt m) -> conv_seq_stmt n -> conv_alts_stmt n.
Proof.
  intros IH Hseq inp ts P0 s0 prev bar dep sbs p Hn Hby Hl HF Hbar HS.
  set (fresh := {| c_res := []; c_save := s0; c_closed := false |}) in *.
  assert (Gd : guard (ctx P0 prev) fresh). { intros _ _ k. unfold ctx. rewrite app_assoc, last_atom_snoc. discriminate. }
  assert (Hnr : brace_ready (ctx P0 prev) fresh bar -> brace_after ts = None).
  { intros [R [j [E _]]]. exfalso. cbn [pre c_res fresh] in E. rewrite app_nil_r in E. unfold ctx in E. rewrite app_assoc in E.
    apply app_inj_tail in E. destruct E as [_ E]. destruct j; discriminate. }
  destruct (Hseq inp ts (ctx P0 prev) fresh bar dep (mksub P0 s0 dep prev :: sbs) p Hn Hby Hl Gd Hbar (N.le_refl dep) Hnr HS)
    as [cur [ts2 [inp2 [bar2 [B1 [B2 [B3 [B4 [B5 [B6 [B7 B8]]]]]]]]]]].
  change (comp_seq cur fresh) with (compf s0 cur) in B4, B5, B6.
  destruct (group_closer P0 s0 dep sbs prev (compf s0 cur) bar2 inp2 ts2 p B2 (rseq_stops _ _ _ B1) B8 B6)
    as [ts3 [t2 [Hl3 [Lt2 [Hbt2 [[-> HS3]|[-> HS3]]]]]]].
  - (* '|': one more alternative *)
    pose proof (pipe_cond _ _ _ _ _ _ _ _ _ HS3) as Hlen.
    destruct (alt_pipe P0 s0 dep sbs prev (compf s0 cur) bar2 B5 Hlen) as [Hb3 St].
    pose proof (succ_steps _ [124] _ t2 p St HS3) as HS4.
    assert (HF2 : Forall (fun c => (length (c_res c) + 1 < 256)%nat) (prev ++ [compf s0 cur])).
    { apply Forall_app. split; [exact HF|constructor; [exact Hlen|constructor]]. }
    destruct (proj2 (IH (length t2) ltac:(lia)) t2 ts3 P0 s0 (prev ++ [compf s0 cur]) bar2 dep sbs p (le_n _) Hbt2 Hl3 HF2 Hb3 HS4)
      as [more [ts4 [inp4 [bar4 [_ [C1 [C2 [C3 [C4 [C5 [C6 [C7 C8]]]]]]]]]]]].
    exists (cur :: more), ts4, inp4, bar4. split; [discriminate|]. split; [eapply ra_more; [exact B1|exact C1]|]. split; [exact C2|].
    split; [constructor; [exact B3|exact C3]|]. cbn [map]. rewrite <- app_assoc in C4, C5, C6. cbn [app] in C4, C5, C6.
    split; [exact C4|split; [exact C5|split; [exact C6|split; [lia|exact C8]]]].
  - (* ')': the group is closed *)
    pose proof (rparen_cond _ _ _ _ _ _ _ _ _ HF HS3) as Hok.
    pose proof (succ_steps _ [41] _ t2 p (alt_close P0 s0 dep sbs prev (compf s0 cur) bar2 Hok) HS3) as HS4.
    exists [cur], ts3, t2, (length (P0 ++ alt_code (map c_res (prev ++ [compf s0 cur])))). split; [discriminate|]. split; [apply ra_last; exact B1|].
    split; [exact Hl3|]. split; [constructor; [exact B3|constructor]|]. cbn [map].
    split; [exact Hok|]. split; [reflexivity|]. split; [exact HS4|split; [lia|exact Hbt2]].
Qed.

Theorem conv_all : forall n, conv_seq_stmt n /\ conv_alts_stmt n.
Proof.
  induction n as [n IH] using lt_wf_ind. assert (Hs := conv_seq_step n IH). split; [exact Hs|exact (conv_alts_step n IH Hs)].
Qed.

(* (b) every string of bytes the parser accepts is in the documented grammar, its AST is well-formed, and the pattern is what
   the intended compiler makes of the AST *)
Theorem parse_accepts_grammar s p : bytes s -> parse s = Ok (inr p) -> exists a, read_pat s = Some a /\ wf a /\ p = compile a.
Proof.
  intros Hby H.
  assert (HS : succ (mkst (pre [] cinit) 0 0 []) s p). { exists (S (length s)), (length s), 0%nat. split; [lia|exact H]. }
  destruct (succ_lexes (length s) s _ p (le_n _) HS) as [ts Hl].
  assert (Hb0 : bar_ok (pre [] cinit) 0) by (apply bar_ok_lt; [reflexivity|cbn [pre cinit c_res length app]; lia]).
  assert (Hnr : brace_ready [] cinit 0 -> brace_after ts = None).
  { intros [R [j [E _]]]. exfalso. cbn [pre cinit c_res app] in E. change [Save 0] with ([] ++ [Save 0]) in E. apply app_inj_tail in E.
    destruct E as [_ E]. destruct j; discriminate. }
  destruct (proj1 (conv_all (length s)) s ts [] cinit 0%nat 0 [] p (le_n _) Hby Hl (guard_nil _) Hb0 I Hnr HS)
    as [a [ts' [inp' [bar' [A1 [A2 [A3 [A4 [A5 [A6 [A7 A8]]]]]]]]]]].
  destruct (top_closer _ bar' inp' ts' p A2 (rseq_stops _ _ _ A1) A8 A6) as [-> Ep].
  exists a. split; [apply read_pat_spec; exists ts; split; [exact Hl|exact A1]|]. split; [exact A3|]. rewrite Ep. reflexivity.
Qed.

(* ================================================================ (c) the other direction, for every spelling *)
(* the loop, started in [st] on [inp] at any recorded position, arrives in [st'] with [inp'] left *)
Definition fwd (st : pstate) (inp : list N) (st' : pstate) (inp' : list N) : Prop :=
  forall total fuel pos, (length inp < fuel)%nat -> exists fuel' pos', (length inp' < fuel')%nat /\
    ploop fuel total (set_pos st pos) inp = ploop fuel' total (set_pos st' pos') inp'.
Lemma fwd_refl st inp : fwd st inp st inp.
Proof. intros total fuel pos H. exists fuel, pos. split; [exact H|reflexivity]. Qed.
Lemma fwd_trans st1 i1 st2 i2 st3 i3 : fwd st1 i1 st2 i2 -> fwd st2 i2 st3 i3 -> fwd st1 i1 st3 i3.
Proof.
  intros H1 H2 total fuel pos Hf. destruct (H1 total fuel pos Hf) as [f2 [p2 [Hf2 E1]]]. destruct (H2 total f2 p2 Hf2) as [f3 [p3 [Hf3 E2]]].
  exists f3, p3. split; [exact Hf3|]. rewrite E1. exact E2.
Qed.
Lemma fwd_steps st a st' r : steps st a st' -> fwd st (a ++ r) st' r.
Proof. intros HS total fuel pos Hf. rewrite app_length in Hf. exact (HS total r fuel pos Hf). Qed.
Lemma fwd_ws st inp : fwd st inp st (skip_ws inp).
Proof.
  induction inp as [|c t IH]; [apply fwd_refl|]. cbn [skip_ws]. destruct (is_ws c) eqn:E; [|apply fwd_refl].
  eapply fwd_trans; [exact (fwd_steps st [c] st t (steps_ws st c E))|exact IH].
Qed.
Lemma fwd_pstep st c t st' r : (forall pos, exists u, pstep (set_pos st pos) c t = inr (set_pos st' pos, r, u)) -> fwd st (c :: t) st' r.
Proof.
  intros H total fuel pos Hf. destruct fuel as [|f]; [lia|]. cbn [ploop]. destruct (H pos) as [u E]. rewrite E.
  pose proof (pstep_spec _ _ _ _ _ _ E) as [L _]. cbn [length] in Hf.
  destruct u; [exists f, (total - length r)%nat|exists f, pos]; (split; [lia|reflexivity]).
Qed.
Lemma fwd_parse s st' inp' : fwd {| p_res := [Save 0]; p_save := 1; p_depth := 0; p_subs := []; p_pos := 0; p_barrier := 0 |} s st' inp' ->
  skip_ws inp' = [] -> p_depth st' = 0 -> p_subs st' = [] -> parse s = Ok (inr (trim (p_res st'))).
Proof.
  intros H Hw Hd Hs. pose proof (fwd_trans _ _ _ _ _ _ H (fwd_ws st' inp')) as H2. rewrite Hw in H2.
  unfold parse. destruct (H2 (length s) (S (length s)) 0%nat ltac:(lia)) as [f [ps [Hf E]]].
  change (set_pos {| p_res := [Save 0]; p_save := 1; p_depth := 0; p_subs := []; p_pos := 0; p_barrier := 0 |} 0)
    with {| p_res := [Save 0]; p_save := 1; p_depth := 0; p_subs := []; p_pos := 0; p_barrier := 0 |} in E. rewrite E.
  destruct f as [|f]; [cbn [length] in Hf; lia|]. cbn [ploop set_pos p_depth p_subs p_res]. rewrite Hd, Hs. reflexivity.
Qed.

Lemma lexes_bracket0 inp tk ts : lexes inp (tk :: ts) -> match tk with TItem _ => False | _ => True end ->
  exists t, skip_ws inp = tok_char tk :: t /\ lexes t ts.
Proof.
  intros H Hb. destruct (lexes_head _ _ _ H) as [c [t [r [E [E1 H2]]]]]. destruct (lex1_facts _ _ _ _ E1) as [_ Hf].
  destruct tk; [contradiction|..]; destruct Hf as [-> ->]; exists t; (split; [exact E|exact H2]).
Qed.
Lemma fwd_bracket st st' inp tk ts : lexes inp (tk :: ts) -> match tk with TItem _ => False | _ => True end -> steps st [tok_char tk] st' ->
  exists t, lexes t ts /\ fwd st inp st' t.
Proof.
  intros Hl Hb HS. destruct (lexes_bracket0 _ _ _ Hl Hb) as [t [E H2]]. exists t. split; [exact H2|].
  eapply fwd_trans; [apply fwd_ws|]. rewrite E. exact (fwd_steps st [tok_char tk] st' t HS).
Qed.

(* a one-token item in any spelling *)
Lemma fwd_item P c bar dep sbs inp it ts : lexes inp (TItem it :: ts) -> wf_item it c -> guard P c -> bar_ok (pre P c) bar -> floor_ok dep sbs ->
  exists r bar', lexes r ts /\ fwd (mkst (pre P c) bar dep sbs) inp (mkst (pre P (comp_item it c)) bar' dep sbs) r /\ bar_ok (pre P (comp_item it c)) bar' /\
    ((forall n, it <> IWild n) -> bar' = bar).
Proof.
  intros Hl Hw HG Hbar Hfl. destruct (lexes_head _ _ _ Hl) as [c0 [t [r [Ew [El H2]]]]]. destruct (lex1_facts _ _ _ _ El) as [_ [Hlw [_ Hwild]]].
  destruct (N.eq_dec c0 63) as [Hq|Hq].
  - subst c0. change (lex1 (63 :: t)) with (let (n0, r0) := qrun t in Some (TItem (IWild (S n0)), r0)) in El.
    destruct (qrun t) as [m r0] eqn:Eq. injection El as <- <-. apply qrun_spec in Eq.
    destruct (reaches_wild (S m) (pre P c) dep sbs bar Hfl Hbar) as [bar2 [Hbar2 St]]. rewrite <- (pre_wild P (S m) c HG) in Hbar2, St.
    exists r0, bar2. split; [exact H2|split; [|split; [exact Hbar2|intros Hx; exfalso; exact (Hx _ eq_refl)]]]. eapply fwd_trans; [apply fwd_ws|]. rewrite Ew.
    replace (63 :: t) with (repeat 63 (S m) ++ r0) by (cbn [repeat app]; rewrite <- Eq; reflexivity). exact (fwd_steps _ _ _ r0 St).
  - assert (Hnw : forall n, it <> IWild n). { intros n ->. apply Hq. apply Hwild. eexists. reflexivity. }
    assert (H1 : one_tok it = true) by (destruct it; try reflexivity; contradiction).
    assert (Hc : item_condb it (c_save c) = true). { destruct it; cbn [wf_item item_condb] in *; try reflexivity; lia. }
    exists r, bar. split; [exact H2|split; [|split; [exact (bar_ok_item P it c bar H1 Hnw Hbar)|reflexivity]]].
    eapply fwd_trans; [apply fwd_ws|]. rewrite Ew. apply fwd_pstep. intros pos.
    destruct (pstep_of_lex1 (set_pos (mkst (pre P c) bar dep sbs) pos) c0 t it r El Hq) as [st1 [u [Ef Hp]]].
    cbn [set_pos mkst pre p_save c_save] in Hp, Ef. rewrite Hc in Hp. apply (eff_img P c bar dep sbs pos st1 it H1 Hnw) in Ef. subst st1. exists u. exact Hp.
Qed.

Lemma nulls_fwd st : forall ts1 rest1 r, brace_after ts1 = Some rest1 -> lexes r ts1 -> exists r', lexes r' (TLBrace :: rest1) /\ fwd st r st r'.
Proof.
  induction ts1 as [|tk ts1 IH]; intros rest1 r Hb Hl; cbn [brace_after] in Hb; [discriminate|].
  destruct tk as [it| | | | |]; try discriminate.
  2: { injection Hb as <-. exists r. split; [exact Hl|apply fwd_refl]. }
  destruct (null_tok (TItem it)) eqn:En; [|discriminate].
  destruct (lexes_head _ _ _ Hl) as [c [t [r2 [E [E1 H2]]]]]. destruct (lex1_facts _ _ _ _ E1) as [_ [_ [_ Hw]]].
  assert (Hq : c <> 63). { intros ->. destruct (proj1 Hw eq_refl) as [n ->]. discriminate En. }
  destruct (IH rest1 r2 Hb H2) as [r' [A B]]. exists r'. split; [exact A|].
  eapply fwd_trans; [apply fwd_ws|]. rewrite E. eapply fwd_trans; [|exact B]. apply fwd_pstep. intros pos.
  destruct (pstep_of_lex1 (set_pos st pos) c t it r2 E1 Hq) as [st1 [u [Ef Hc]]].
  assert (Hnull : item_condb it (p_save (set_pos st pos)) = true /\ item_atoms it (p_save (set_pos st pos)) = [] /\ item_slots it = 0).
  { destruct it; try discriminate En; cbn [null_tok] in En.
    - destruct s; [|discriminate]. repeat split.
    - apply N.eqb_eq in En. subst n. repeat split. }
  destruct Hnull as [Hc1 [Ha Hs]]. rewrite Hc1 in Hc. rewrite Ha, Hs in Ef. apply eff_nil in Ef. subst st1. exists u. exact Hc.
Qed.

Lemma ralts_ne ts alts r : ralts ts alts r -> alts <> [].
Proof. intros H. destruct H; discriminate. Qed.

Lemma fwd_all :
  (forall ts l ts', rseq ts l ts' -> forall inp P c bar dep sbs, lexes inp ts -> wf_seq l c -> guard P c -> bar_ok (pre P c) bar -> floor_ok dep sbs ->
     exists inp' bar', lexes inp' ts' /\ fwd (mkst (pre P c) bar dep sbs) inp (mkst (pre P (comp_seq l c)) bar' dep sbs) inp' /\
       guard P (comp_seq l c) /\ bar_ok (pre P (comp_seq l c)) bar') /\
  (forall ts alts ts', ralts ts alts ts' -> forall inp P0 s0 prev bar dep sbs, lexes inp ts ->
     Forall (fun alt => wf_seq alt {| c_res := []; c_save := s0; c_closed := false |}) alts ->
     alt_ok (map c_res (prev ++ map (compf s0) alts)) -> bar_ok (pre (ctx P0 prev) {| c_res := []; c_save := s0; c_closed := false |}) bar ->
     exists inp' bar', lexes inp' ts' /\
       fwd (G P0 s0 dep sbs prev {| c_res := []; c_save := s0; c_closed := false |} bar) inp (mkst (closed_cst P0 (prev ++ map (compf s0) alts)) bar' dep sbs) inp' /\
       bar_ok (closed_cst P0 (prev ++ map (compf s0) alts)) bar').
Proof.
  apply rseq_ralts_ind.
  - (* stop *) intros ts Hs inp P c bar dep sbs Hl _ HG Hbar _. exists inp, bar. split; [exact Hl|split; [apply fwd_refl|split; [exact HG|exact Hbar]]].
  - (* item *) intros it rest l r Hj _ IH inp P c bar dep sbs Hl [Wx Wt] HG Hbar Hfl.
    destruct (fwd_item P c bar dep sbs inp it rest Hl Wx HG Hbar Hfl) as [r1 [bar1 [Hl1 [F1 [Hb1 _]]]]].
    destruct (IH r1 P (comp_item it c) bar1 dep sbs Hl1 Wt (guard_comp_item P it c HG) Hb1 Hfl) as [inp' [bar' [A [B [C D]]]]].
    exists inp', bar'. split; [exact A|split; [exact (fwd_trans _ _ _ _ _ _ F1 B)|split; [exact C|exact D]]].
  - (* plain jump *) intros j rest l r Hb _ IH inp P c bar dep sbs Hl [Wx Wt] HG Hbar Hfl.
    destruct (fwd_item P c bar dep sbs inp (IJump j) rest Hl Wx HG Hbar Hfl) as [r1 [bar1 [Hl1 [F1 [Hb1 _]]]]].
    destruct (IH r1 P (comp_item (IJump j) c) bar1 dep sbs Hl1 Wt (guard_comp_item P (IJump j) c HG) Hb1 Hfl) as [inp' [bar' [A [B [C D]]]]].
    exists inp', bar'. split; [exact A|split; [exact (fwd_trans _ _ _ _ _ _ F1 B)|split; [exact C|exact D]]].
  - (* jump with its brace *) intros j rest rest1 sub rest2 l r Hb _ IHsub _ IH inp P c bar dep sbs Hl [Wx Wt] HG Hbar Hfl.
    destruct (fwd_item P c bar dep sbs inp (IJump j) rest Hl I HG Hbar Hfl) as [r1 [bar1 [Hl1 [F1 [Hb1 Eb1]]]]].
    rewrite (Eb1 ltac:(intros n; discriminate)) in *. clear Eb1 bar1.
    destruct (nulls_fwd (mkst (pre P (comp_item (IJump j) c)) bar dep sbs) rest rest1 r1 Hb Hl1) as [r2 [Hl2 F2]].
    cbn [comp_item] in F1, F2, Hb1. rewrite pre_emit in F1, F2, Hb1.
    destruct (fwd_bracket _ _ r2 TLBrace rest1 Hl2 I (steps_open (pre P c) j bar dep sbs (bar_le _ _ Hbar))) as [t3 [Hl3 F3]].
    rewrite <- (pre_emit P c [Push (jpush j); jatom j]) in F3. set (c2 := emit c [Push (jpush j); jatom j]) in *.
    assert (G2 : guard P c2). { apply guard_nonempty. unfold c2. cbn [emit c_res]. intros E. apply app_eq_nil in E. destruct E; discriminate. }
    assert (Hb2 : bar_ok (pre P c2) (length (c_res (pre P c)) + 2)%nat).
    { unfold c2. rewrite pre_emit. unfold bar_ok, emit. cbn [c_closed c_res]. rewrite app_length. cbn [length]. split; [lia|]. intros _ k.
      change (c_res (pre P c) ++ [Push (jpush j); jatom j]) with (c_res (pre P c) ++ [Push (jpush j)] ++ [jatom j]).
      rewrite app_assoc, last_atom_snoc. destruct j; discriminate. }
    destruct (IHsub t3 P c2 _ (dep + 1) sbs Hl3 Wx G2 Hb2 (floor_ok_succ _ _ Hfl)) as [inp4 [bar4 [Hl4 [F4 [G4 Hb4]]]]].
    destruct (fwd_bracket _ _ inp4 TRBrace rest2 Hl4 I (steps_close (pre P (comp_seq sub c2)) bar4 dep sbs Hfl)) as [t5 [Hl5 F5]].
    rewrite <- pre_emit in F5.
    destruct (IH t5 P (emit (comp_seq sub c2) [Pop]) bar4 dep sbs Hl5 Wt) as [inp' [bar' [A [B [C D]]]]].
    { apply guard_nonempty. cbn [emit c_res]. intros E. apply app_eq_nil in E. destruct E; discriminate. }
    { rewrite pre_emit. apply bar_ok_emit. exact Hb4. }
    { exact Hfl. }
    exists inp', bar'. split; [exact A|split; [|split; [exact C|exact D]]].
    exact (fwd_trans _ _ _ _ _ _ F1 (fwd_trans _ _ _ _ _ _ F2 (fwd_trans _ _ _ _ _ _ F3 (fwd_trans _ _ _ _ _ _ F4 (fwd_trans _ _ _ _ _ _ F5 B))))).
  - (* group *) intros rest a more rest1 l r _ IHa _ IH inp P c bar dep sbs Hl [Wx Wt] HG Hbar Hfl.
    pose proof (steps_lparen P c bar dep sbs Hbar) as X. cbv zeta in X. destruct X as [Hb1 S1].
    destruct (fwd_bracket _ _ inp TLParen rest Hl I S1) as [t1 [Hl1 F1]].
    cbn [wf_item] in Wx. destruct Wx as [Wa [Wm Wok]]. apply wf_alts_forall in Wm.
    destruct (IHa t1 (P ++ c_res c) (c_save c) [] bar dep sbs Hl1 (Forall_cons _ Wa Wm) Wok Hb1) as [inp2 [bar2 [Hl2 [F2 Hb2]]]].
    assert (Efin : pre P (comp_item (IAlt a more) c) = closed_cst (P ++ c_res c) ([] ++ map (compf (c_save c)) (a :: more))).
    { unfold pre, closed_cst. cbn [comp_item c_res c_save c_closed app map]. rewrite app_assoc. reflexivity. }
    rewrite <- Efin in F2, Hb2.
    destruct (IH inp2 P (comp_item (IAlt a more) c) bar2 dep sbs Hl2 Wt (guard_comp_item P (IAlt a more) c HG) Hb2 Hfl) as [inp' [bar' [A [B [C D]]]]].
    exists inp', bar'. split; [exact A|split; [|split; [exact C|exact D]]]. exact (fwd_trans _ _ _ _ _ _ F1 (fwd_trans _ _ _ _ _ _ F2 B)).
  - (* the last alternative *) intros ts a rest _ IH inp P0 s0 prev bar dep sbs Hl HF Hok Hbar.
    set (fresh := {| c_res := []; c_save := s0; c_closed := false |}) in *.
    assert (Gd : guard (ctx P0 prev) fresh). { intros _ _ k. unfold ctx. rewrite app_assoc, last_atom_snoc. discriminate. }
    destruct (IH inp (ctx P0 prev) fresh bar dep (mksub P0 s0 dep prev :: sbs) Hl (Forall_inv HF) Gd Hbar (N.le_refl dep)) as [inp2 [bar2 [Hl2 [F2 [_ Hb2]]]]].
    cbn [map] in Hok |- *.
    destruct (fwd_bracket _ _ inp2 TRParen rest Hl2 I (alt_close P0 s0 dep sbs prev (compf s0 a) bar2 Hok)) as [t3 [Hl3 F3]].
    exists t3, (length (P0 ++ alt_code (map c_res (prev ++ [compf s0 a])))). split; [exact Hl3|split; [exact (fwd_trans _ _ _ _ _ _ F2 F3)|reflexivity]].
  - (* one more alternative *) intros ts a rest more r _ IH Hra IHa inp P0 s0 prev bar dep sbs Hl HF Hok Hbar.
    set (fresh := {| c_res := []; c_save := s0; c_closed := false |}) in *.
    assert (Gd : guard (ctx P0 prev) fresh). { intros _ _ k. unfold ctx. rewrite app_assoc, last_atom_snoc. discriminate. }
    destruct (IH inp (ctx P0 prev) fresh bar dep (mksub P0 s0 dep prev :: sbs) Hl (Forall_inv HF) Gd Hbar (N.le_refl dep)) as [inp2 [bar2 [Hl2 [F2 [_ Hb2]]]]].
    cbn [map] in Hok |- *.
    assert (Hlen : (length (c_res (compf s0 a)) + 1 < 256)%nat).
    { destruct more as [|m1 mr]; [exfalso; exact (ralts_ne _ _ _ Hra eq_refl)|]. rewrite map_app in Hok. cbn [map] in Hok. exact (alt_ok_mid _ _ _ _ Hok). }
    destruct (alt_pipe P0 s0 dep sbs prev (compf s0 a) bar2 Hb2 Hlen) as [Hb3 St].
    destruct (fwd_bracket _ _ inp2 TPipe rest Hl2 I St) as [t3 [Hl3 F3]].
    destruct (IHa t3 P0 s0 (prev ++ [compf s0 a]) bar2 dep sbs Hl3 (Forall_inv_tail HF)) as [inp' [bar' [A [B C]]]].
    { rewrite <- app_assoc. exact Hok. }
    { exact Hb3. }
    rewrite <- app_assoc in B, C. cbn [app] in B, C.
    exists inp', bar'. split; [exact A|split; [exact (fwd_trans _ _ _ _ _ _ F2 (fwd_trans _ _ _ _ _ _ F3 B))|exact C]].
Qed.

(* (c) every string of the documented grammar whose AST is well-formed is accepted and compiled as the AST says -
   theorem 2 for every spelling, not only the printer's *)
Theorem parse_read_compile s a : read_pat s = Some a -> wf a -> parse s = Ok (inr (compile a)).
Proof.
  intros Hr Hw. apply read_pat_spec in Hr. destruct Hr as [ts [Hl Hrs]].
  assert (Hb0 : bar_ok (pre [] cinit) 0) by (apply bar_ok_lt; [reflexivity|cbn [pre cinit c_res length app]; lia]).
  destruct (proj1 fwd_all ts a [] Hrs s [] cinit 0%nat 0 [] Hl Hw (guard_nil _) Hb0 I) as [inp' [bar' [Hl' [F _]]]].
  apply lexes_nil_inv in Hl'. exact (fwd_parse s _ inp' F Hl' eq_refl eq_refl).
Qed.

(* the two directions together: the parser accepts exactly the well-formed strings of the documented grammar *)
Theorem parse_iff_grammar s p : bytes s -> (parse s = Ok (inr p) <-> exists a, read_pat s = Some a /\ wf a /\ p = compile a).
Proof.
  intros Hb. split; [apply parse_accepts_grammar; exact Hb|]. intros [a [Hr [Hw ->]]]. exact (parse_read_compile s a Hr Hw).
Qed.

(* ================================================================ what an accepted string means *)
(* (b) + theorem 3b: for EVERY string of bytes the parser accepts - canonical spelling or not - the reader finds a well-formed
   AST, and outside the known class F34 (and when only returns of closing braces are trimmed) Scanner::exec on the parsed
   pattern accepts exactly the layouts the structural semantics of that AST describes *)
From PV.Model Require Import Exec.
From PV.Spec Require Import PatSem.
From PV.Proofs Require PatTrim.
Theorem accepted_string_means_ast sc s p cursor save : bytes s -> parse s = Ok (inr p) ->
  exists a, read_pat s = Some a /\ wf a /\ p = compile a /\
    (scan_wf sc -> range_skip_in_last_alternative_with_suffix a = false -> trims_only_braces a = true -> cursor < W32 ->
     exists ok save', run_exec sc p cursor save = Ok (ok, save') /\
       match den_top sc a cursor with
       | Some lg => ok = true /\ log_ok lg save save'
       | None => ok = false
       end).
Proof.
  intros Hb H. destruct (parse_accepts_grammar s p Hb H) as [a [Hr [Hw ->]]]. exists a. split; [exact Hr|split; [exact Hw|split; [reflexivity|]]].
  intros Hsc Hc Ht Hcur. exact (PatTrim.exec_compile_den_braces sc a cursor save Hsc Hw Hc Ht Hcur).
Qed.
