(* C15: the record sizes, alignments and field offsets written out in Model/Dirs.v agree with
   coq/gen/Layout.v, which is regenerated from repo/src/image.rs on every run.  A change of a
   #[repr(C)] struct that the model relies on breaks this lemma before it can hide in the model. *)
From PV.Model Require Import Machine Mapping Views Dirs.
From PV.gen Require Import Layout.

Lemma dirs_layout_agrees :
  (* RUNTIME_FUNCTION, UNWIND_INFO, UNWIND_CODE *)
  RUNTIME_FUNCTION_size = 12 /\ RUNTIME_FUNCTION_align = 4 /\ RUNTIME_FUNCTION_BeginAddress_off = 0 /\
  RUNTIME_FUNCTION_EndAddress_off = 4 /\ RUNTIME_FUNCTION_UnwindData_off = 8 /\
  UNWIND_INFO_size = 4 /\ UNWIND_INFO_align = 1 /\ UNWIND_INFO_VersionFlags_off = 0 /\ UNWIND_INFO_SizeOfProlog_off = 1 /\
  UNWIND_INFO_CountOfCodes_off = 2 /\ UNWIND_INFO_FrameRegisterOffset_off = 3 /\ UNWIND_INFO_UnwindCode_off = 4 /\
  UNWIND_CODE_size = 2 /\
  (* WIN_CERTIFICATE *)
  WIN_CERTIFICATE_size = 8 /\ WIN_CERTIFICATE_align = 4 /\ WIN_CERTIFICATE_wCertificateType_off = 6 /\ WIN_CERTIFICATE_bCertificate_off = 8 /\
  (* IMAGE_DEBUG_DIRECTORY and the typed payloads *)
  IMAGE_DEBUG_DIRECTORY_size = 28 /\ IMAGE_DEBUG_DIRECTORY_align = 4 /\ IMAGE_DEBUG_DIRECTORY_TimeDateStamp_off = 4 /\
  IMAGE_DEBUG_DIRECTORY_Type_off = 12 /\ IMAGE_DEBUG_DIRECTORY_SizeOfData_off = 16 /\
  IMAGE_DEBUG_DIRECTORY_AddressOfRawData_off = 20 /\ IMAGE_DEBUG_DIRECTORY_PointerToRawData_off = 24 /\
  IMAGE_DEBUG_CV_INFO_PDB20_size = 16 /\ IMAGE_DEBUG_CV_INFO_PDB20_align = 4 /\ IMAGE_DEBUG_CV_INFO_PDB20_TimeDateStamp_off = 8 /\
  IMAGE_DEBUG_CV_INFO_PDB20_Age_off = 12 /\ IMAGE_DEBUG_CV_INFO_PDB20_PdbFileName_off = 16 /\
  IMAGE_DEBUG_CV_INFO_PDB70_size = 24 /\ IMAGE_DEBUG_CV_INFO_PDB70_align = 4 /\ IMAGE_DEBUG_CV_INFO_PDB70_Signature_off = 4 /\
  IMAGE_DEBUG_CV_INFO_PDB70_Age_off = 20 /\ IMAGE_DEBUG_CV_INFO_PDB70_PdbFileName_off = 24 /\ GUID_size = 16 /\
  IMAGE_DEBUG_MISC_size = 12 /\ IMAGE_DEBUG_MISC_align = 4 /\
  (* TLS and load config, both widths *)
  (forall v, v_w v = W32 -> tls_dir_size v = IMAGE_TLS_DIRECTORY32_size /\ va_size v = IMAGE_TLS_DIRECTORY32_align /\
     va_size v = IMAGE_TLS_DIRECTORY32_EndAddressOfRawData_off /\ 2 * va_size v = IMAGE_TLS_DIRECTORY32_AddressOfIndex_off /\
     3 * va_size v = IMAGE_TLS_DIRECTORY32_AddressOfCallBacks_off /\
     lc_dir_size v = IMAGE_LOAD_CONFIG_DIRECTORY32_size /\ va_size v = IMAGE_LOAD_CONFIG_DIRECTORY32_align /\
     lc_cookie_off v = IMAGE_LOAD_CONFIG_DIRECTORY32_SecurityCookie_off /\
     lc_table_off v = IMAGE_LOAD_CONFIG_DIRECTORY32_SEHandlerTable_off /\ lc_count_off v = IMAGE_LOAD_CONFIG_DIRECTORY32_SEHandlerCount_off) /\
  (forall v, v_w v = W64 -> tls_dir_size v = IMAGE_TLS_DIRECTORY64_size /\ va_size v = IMAGE_TLS_DIRECTORY64_align /\
     va_size v = IMAGE_TLS_DIRECTORY64_EndAddressOfRawData_off /\ 2 * va_size v = IMAGE_TLS_DIRECTORY64_AddressOfIndex_off /\
     3 * va_size v = IMAGE_TLS_DIRECTORY64_AddressOfCallBacks_off /\
     lc_dir_size v = IMAGE_LOAD_CONFIG_DIRECTORY64_size /\ va_size v = IMAGE_LOAD_CONFIG_DIRECTORY64_align /\
     lc_cookie_off v = IMAGE_LOAD_CONFIG_DIRECTORY64_SecurityCookie_off /\
     lc_table_off v = IMAGE_LOAD_CONFIG_DIRECTORY64_SEHandlerTable_off /\ lc_count_off v = IMAGE_LOAD_CONFIG_DIRECTORY64_SEHandlerCount_off) /\
  (* data directory indices and debug types *)
  IMAGE_DIRECTORY_ENTRY_EXCEPTION = 3 /\ IMAGE_DIRECTORY_ENTRY_SECURITY = 4 /\ IMAGE_DIRECTORY_ENTRY_DEBUG = 6 /\
  IMAGE_DIRECTORY_ENTRY_TLS = 9 /\ IMAGE_DIRECTORY_ENTRY_LOAD_CONFIG = 10.
Proof.
  repeat (split; [reflexivity|]). split.
  - intros v Hw. unfold tls_dir_size, va_size, lc_dir_size, lc_cookie_off, lc_table_off, lc_count_off. rewrite Hw.
    change (W32 =? W32) with true. cbv iota. repeat split; reflexivity.
  - split.
    + intros v Hw. unfold tls_dir_size, va_size, lc_dir_size, lc_cookie_off, lc_table_off, lc_count_off. rewrite Hw.
      change (W64 =? W32) with false. cbv iota. repeat split; reflexivity.
    + repeat split; reflexivity.
Qed.
