(* Proofs for C18 *)
From PV.Model Require Import Machine Rich Relocs Strings Iters.
From PV.Spec Require Import Deque.
From PV.Proofs Require Import BaseProofs.
From PV.Proofs Require RichProofs RelocsProofs StringsProofs.
Ltac Zify.zify_post_hook ::= Z.div_mod_to_equations.

(* F23: the code as it stood panics on nth(2^63) and nth(usize::MAX), for every iterator state *)
Lemma rich_nth_orig_refuted :
  rich_nth_orig ([1; 2], 0) (2 ^ 63) = Fault POverflow /\
  rich_nth_orig ([], 0) (2 ^ 64 - 1) = Fault POverflow /\
  rich_nth ([1; 2], 0) (2 ^ 63) = Ok (None, ([], 0)) /\
  snd (dq_nth (A := rec) [rdecode 0 1 2] (2 ^ 63)) = ONone.
Proof. vm_compute. repeat split; reflexivity. Qed.

(* ------------------------------------------------------------------ *)
(* small facts                                                         *)

Lemma idx_ok {A} (d : A) l i : i < lenN l -> idx d l i = Ok (nth (N.to_nat i) l d).
Proof. intros H. unfold idx. destruct (i <? lenN l) eqn:E; [reflexivity|lia]. Qed.
Lemma slice_from_ok {A} (l : list A) i : i <= lenN l -> slice_from l i = Ok (skipn (N.to_nat i) l).
Proof. intros H. unfold slice_from. destruct (i <=? lenN l) eqn:E; [reflexivity|lia]. Qed.
Lemma slice_to_ok {A} (l : list A) i : i <= lenN l -> slice_to l i = Ok (firstn (N.to_nat i) l).
Proof. intros H. unfold slice_to. destruct (i <=? lenN l) eqn:E; [reflexivity|lia]. Qed.
Lemma chk_mul_ok w a b : a * b < w -> chk_mul w a b = Ok (a * b).
Proof. intros H. unfold chk_mul. destruct (a * b <? w) eqn:E; [reflexivity|lia]. Qed.
Lemma chk_add_ok w a b : a + b < w -> chk_add w a b = Ok (a + b).
Proof. intros H. unfold chk_add. destruct (a + b <? w) eqn:E; [reflexivity|lia]. Qed.
Lemma chk_sub_ok a b : b <= a -> chk_sub a b = Ok (a - b).
Proof. intros H. unfold chk_sub. destruct (b <=? a) eqn:E; [reflexivity|lia]. Qed.

Lemma lenN_map {A B} (f : A -> B) l : lenN (map f l) = lenN l.
Proof. unfold lenN. rewrite map_length. reflexivity. Qed.

Lemma set_nth_map {A B} (f : A -> B) i x p : map f (set_nth i x p) = set_nth i (f x) (map f p).
Proof. revert i. induction p as [|y t IH]; intros [|i]; cbn [set_nth map]; try reflexivity. rewrite IH. reflexivity. Qed.
Lemma set_nth_Forall {A} (P : A -> Prop) i x p : Forall P p -> P x -> Forall P (set_nth i x p).
Proof.
  intros Hp Hx. revert i. induction Hp as [|y t Hy Ht IH]; intros [|i]; cbn [set_nth]; constructor; auto.
Qed.
Lemma nth_error_map' {A B} (f : A -> B) l i : nth_error (map f l) i = option_map f (nth_error l i).
Proof. revert i. induction l as [|x t IH]; intros [|i]; cbn; auto. Qed.
Lemma nth_error_Forall {A} (P : A -> Prop) l i x : Forall P l -> nth_error l i = Some x -> P x.
Proof. intros H E. rewrite Forall_forall in H. apply H. eapply nth_error_In; eauto. Qed.

Lemma out_ok_refl {A} full (o : out A) : (forall n h, o <> OHint n h) -> out_ok full o o.
Proof. intros H. unfold out_ok. destruct full; [reflexivity|]. destruct o; try reflexivity. exfalso. eapply H; reflexivity. Qed.

(* ------------------------------------------------------------------ *)
(* 1. from one call to all histories                                   *)

Section Sim.
  Context {S A : Type}.
  Variables (impl : iter_impl S A) (abs : S -> list A) (Inv : S -> Prop).
  Let full := m_full impl.
  Hypothesis Hsim : forall s o, Inv s -> is_clone o = false ->
    exists s' r, m_step1 impl s o = Ok (s', r) /\ out_ok full (snd (step1 full (abs s) o)) r
                 /\ abs s' = fst (step1 full (abs s) o) /\ Inv s'.

  Lemma sim_step pool c : Forall Inv pool ->
    exists pool' r, m_step impl pool c = Ok (pool', r) /\ out_ok full (snd (step full (map abs pool) c)) r
      /\ map abs pool' = fst (step full (map abs pool) c) /\ Forall Inv pool'.
  Proof.
    intros Hp. unfold m_step, step. rewrite nth_error_map'.
    destruct (nth_error pool (fst c)) as [s|] eqn:En; cbn [option_map].
    - destruct (is_clone (snd c)) eqn:Ec.
      + exists (pool ++ [s]), OCloned. cbn [fst snd]. split; [reflexivity|]. split; [apply out_ok_refl; discriminate|].
        split; [rewrite map_app; reflexivity|]. apply Forall_app. split; [exact Hp|]. constructor; [|constructor].
        eapply nth_error_Forall; eauto.
      + assert (Hs : Inv s) by (eapply nth_error_Forall; eauto).
        destruct (Hsim s (snd c) Hs Ec) as [s' [r [H1 [H2 [H3 H4]]]]].
        rewrite H1. cbn [bind fst snd]. exists (set_nth (fst c) s' pool), r.
        split; [reflexivity|]. split; [exact H2|]. split; [rewrite set_nth_map, H3; reflexivity|].
        apply set_nth_Forall; assumption.
    - exists pool, ONoIter. cbn [fst snd]. split; [reflexivity|]. split; [apply out_ok_refl; discriminate|]. split; [reflexivity|exact Hp].
  Qed.

  Theorem sim_run : forall hist pool, Forall Inv pool ->
    exists outs, m_run impl pool hist = Ok outs /\ Forall2 (out_ok full) (run full (map abs pool) hist) outs.
  Proof.
    induction hist as [|c h IH]; intros pool Hp; cbn [m_run run].
    - exists []. split; [reflexivity|constructor].
    - destruct (sim_step pool c Hp) as [pool' [r [H1 [H2 [H3 H4]]]]].
      rewrite H1. cbn [bind fst snd]. destruct (IH pool' H4) as [outs [H5 H6]]. rewrite H5. cbn [bind].
      exists (r :: outs). split; [reflexivity|]. constructor; [exact H2|]. rewrite <- H3. exact H6.
  Qed.

  (* for a double-ended exact-size iterator the outputs are the deque's, literally *)
  Corollary sim_run_full : full = true -> forall hist pool, Forall Inv pool ->
    m_run impl pool hist = Ok (run true (map abs pool) hist).
  Proof.
    intros Hf hist pool Hp. destruct (sim_run hist pool Hp) as [outs [H1 H2]]. rewrite H1. f_equal.
    rewrite Hf in H2. clear H1. induction H2 as [|a b la lb Hab _ IH]; [reflexivity|].
    unfold out_ok in Hab. rewrite Hab, IH. reflexivity.
  Qed.
End Sim.

Lemma dq_nth_cons {A} (x : A) t k : 0 < k -> dq_nth (x :: t) k = dq_nth t (k - 1).
Proof.
  intros Hk. unfold dq_nth. rewrite lenN_cons.
  destruct (lenN t <=? k - 1) eqn:E1; destruct (1 + lenN t <=? k) eqn:E2; try lia; [reflexivity|].
  replace (N.to_nat k) with (S (N.to_nat (k - 1))) by lia. reflexivity.
Qed.

(* ------------------------------------------------------------------ *)
(* 1b. the provided nth / nth_back: the loop [fwd_nth] over any function that steps a sequence;
       nth_back is that loop over next_back, i.e. nth on the reversed sequence *)

Section ProvLoop.
  Context {S A : Type}.
  Variables (stepf : S -> res (option A * S)) (abs : S -> list A) (Inv : S -> Prop).
  Hypothesis Hstep : forall s, Inv s ->
    exists o s', stepf s = Ok (o, s') /\ Inv s' /\ opt_out o = snd (dq_next (abs s)) /\ abs s' = fst (dq_next (abs s)).

  Lemma loop_nth_sim : forall fuel s k, Inv s -> (length (abs s) < fuel)%nat ->
    exists o s', fwd_nth stepf fuel s k = Ok (o, s') /\ Inv s' /\ opt_out o = snd (dq_nth (abs s) k) /\ abs s' = fst (dq_nth (abs s) k).
  Proof.
    induction fuel as [|fuel IH]; intros s k Hi Hf; [lia|]. cbn [fwd_nth].
    destruct (Hstep s Hi) as [o [s' [H1 [H2 [H3 H4]]]]]. rewrite H1. cbn [bind fst snd].
    destruct (abs s) as [|x t] eqn:Ea; cbn [dq_next fst snd] in H3, H4.
    - destruct o; [discriminate|]. exists None, s'. unfold dq_nth. change (lenN (@nil A)) with 0.
      destruct (0 <=? k) eqn:E; [|lia]. auto.
    - destruct o as [y|]; [|discriminate]. injection H3 as ->. destruct (k =? 0) eqn:Ek.
      + apply N.eqb_eq in Ek. subst k. exists (Some x), s'. unfold dq_nth. rewrite lenN_cons.
        destruct (1 + lenN t <=? 0) eqn:E; [lia|]. change (N.to_nat 0) with 0%nat. cbn [skipn dq_next fst snd opt_out]. auto.
      + cbn [length] in Hf. rewrite <- H4 in Hf.
        destruct (IH s' (k - 1) H2 ltac:(lia)) as [o [s'' [G1 [G2 [G3 G4]]]]].
        exists o, s''. rewrite dq_nth_cons by lia. rewrite <- H4. auto.
  Qed.
End ProvLoop.

Lemma lenN_rev {A} (l : list A) : lenN (rev l) = lenN l.
Proof. unfold lenN. rewrite rev_length. reflexivity. Qed.

(* nth_back on a deque is nth on the reversed deque *)
Lemma dq_nth_back_rev {A} (l : list A) k :
  dq_nth_back l k = (rev (fst (dq_nth (rev l) k)), snd (dq_nth (rev l) k)).
Proof.
  unfold dq_nth_back, dq_nth. rewrite lenN_rev. destruct (lenN l <=? k) eqn:E; [reflexivity|].
  unfold dq_next_back. rewrite skipn_rev.
  destruct (rev (firstn (length l - N.to_nat k) l)) as [|x t]; reflexivity.
Qed.

(* DoubleEndedIterator::nth_back (provided) over a next_back that steps the sequence from the back *)
Lemma prov_nth_back_sim {S A} (next_back : S -> res (option A * S)) (abs : S -> list A) (Inv : S -> Prop) :
  (forall s, Inv s -> exists o s', next_back s = Ok (o, s') /\ Inv s' /\
       opt_out o = snd (dq_next_back (abs s)) /\ abs s' = fst (dq_next_back (abs s))) ->
  forall fuel s k, Inv s -> (length (abs s) < fuel)%nat ->
  exists o s', prov_nth_back next_back fuel s k = Ok (o, s') /\ Inv s' /\
    opt_out o = snd (dq_nth_back (abs s) k) /\ abs s' = fst (dq_nth_back (abs s) k).
Proof.
  intros Hb fuel s k Hi Hf. unfold prov_nth_back.
  destruct (loop_nth_sim next_back (fun s => rev (abs s)) Inv) with (fuel := fuel) (s := s) (k := k) as [o [s' [H1 [H2 [H3 H4]]]]].
  - intros s0 Hi0. destruct (Hb s0 Hi0) as [o [s' [G1 [G2 [G3 G4]]]]]. exists o, s'.
    split; [exact G1|]. split; [exact G2|]. unfold dq_next_back in G3, G4.
    destruct (rev (abs s0)) as [|x t]; cbn [dq_next fst snd] in *.
    + rewrite G4. auto.
    + rewrite G4, rev_involutive. auto.
  - exact Hi.
  - rewrite rev_length. exact Hf.
  - exists o, s'. rewrite dq_nth_back_rev. cbn [fst snd]. rewrite <- H4, rev_involutive. auto.
Qed.

(* ------------------------------------------------------------------ *)
(* 2. RichIter                                                         *)

Definition rich_f (key : N) (p : N * N) : rec := rdecode key (fst p) (snd p).
Definition rich_abs (s : rich_st) : list rec := map (rich_f (snd s)) (pairs (fst s)).
(* what holds of every RichIter: an even number of dwords, fewer than 2^64 *)
Definition rich_inv (s : rich_st) : Prop := Nat.even (length (fst s)) = true /\ lenN (fst s) < W64.

Lemma list_ind2 {A} (P : list A -> Prop) :
  P [] -> (forall a, P [a]) -> (forall a b t, P t -> P (a :: b :: t)) -> forall l, P l.
Proof. intros H0 H1 H2. fix IH 1. intros [|a [|b t]]; [exact H0|apply H1|apply H2, IH]. Qed.

Lemma lenN_pairs l : lenN (pairs l) = lenN l / 2.
Proof.
  induction l as [|a|a b t IH] using list_ind2; [reflexivity|reflexivity|].
  cbn [pairs]. rewrite !lenN_cons, IH. lia.
Qed.
Lemma pairs_skipn k : forall l, pairs (skipn (2 * k) l) = skipn k (pairs l).
Proof.
  induction k as [|k IH]; intros l; [reflexivity|].
  replace (2 * S k)%nat with (S (S (2 * k))) by lia.
  destruct l as [|a [|b t]]; cbn [skipn pairs]; [reflexivity|destruct (2 * k)%nat; reflexivity|apply IH].
Qed.
Lemma skipn_two {A} (d : A) n : forall l, (n + 2 <= length l)%nat ->
  skipn n l = nth n l d :: nth (n + 1) l d :: skipn (n + 2) l.
Proof.
  induction n as [|n IH]; intros l H.
  - destruct l as [|a [|b t]]; cbn [length] in H; try lia. reflexivity.
  - destruct l as [|a t]; cbn [length] in H; [lia|]. cbn [skipn nth Nat.add]. apply IH. lia.
Qed.
Lemma pairs_app_even l0 r : Nat.even (length l0) = true -> pairs (l0 ++ r) = pairs l0 ++ pairs r.
Proof.
  induction l0 as [|a|a b t IH] using list_ind2; intros H; [reflexivity|discriminate|].
  cbn [app pairs]. rewrite IH; [reflexivity|exact H].
Qed.
Lemma split_last_two (l : list N) : (2 <= length l)%nat ->
  l = firstn (length l - 2) l ++ [nth (length l - 2) l 0; nth (length l - 1) l 0].
Proof.
  intros H. rewrite <- (firstn_skipn (length l - 2) l) at 1. f_equal.
  rewrite (skipn_two 0 (length l - 2) l) by lia.
  replace (length l - 2 + 1)%nat with (length l - 1)%nat by lia.
  replace (length l - 2 + 2)%nat with (length l) by lia. rewrite skipn_all. reflexivity.
Qed.

Lemma rich_next_sim s : rich_inv s ->
  exists o s', rich_next s = Ok (o, s') /\ rich_inv s' /\ opt_out o = snd (dq_next (rich_abs s)) /\ rich_abs s' = fst (dq_next (rich_abs s)).
Proof.
  destruct s as [l key]. intros [He Hl]. cbn [fst] in *. unfold rich_next, rich_abs. cbn [fst snd].
  destruct l as [|a [|b t]].
  - exists None, ([], key). repeat split; reflexivity || assumption.
  - discriminate.
  - destruct (2 <=? lenN (a :: b :: t)) eqn:E; [|rewrite !lenN_cons in E; lia].
    rewrite idx_ok by (rewrite !lenN_cons; lia). rewrite idx_ok by (rewrite !lenN_cons; lia).
    rewrite slice_from_ok by (rewrite !lenN_cons; lia). cbn [bind].
    change (N.to_nat 0) with 0%nat. change (N.to_nat 1) with 1%nat. change (N.to_nat 2) with 2%nat. cbn [nth skipn].
    exists (Some (rdecode key a b)), (t, key). split; [reflexivity|]. split.
    + split; cbn [fst]; [exact He|rewrite !lenN_cons in Hl; lia].
    + cbn [pairs map dq_next fst snd opt_out]. split; reflexivity.
Qed.

Lemma rich_nth_sim s n : rich_inv s ->
  exists o s', rich_nth s n = Ok (o, s') /\ rich_inv s' /\ opt_out o = snd (dq_nth (rich_abs s) n) /\ rich_abs s' = fst (dq_nth (rich_abs s) n).
Proof.
  destruct s as [l key]. intros [He Hl]. cbn [fst] in *. unfold rich_nth, rich_abs, dq_nth. cbn [fst snd].
  rewrite lenN_map, lenN_pairs.
  destruct (n <? lenN l / 2) eqn:E.
  - assert (Hn : n * 2 + 2 <= lenN l) by lia.
    destruct (lenN l / 2 <=? n) eqn:E2; [lia|].
    unfold rich_nth_take. rewrite !chk_mul_ok by (unfold W64 in *; lia). cbn [bind].
    rewrite !chk_add_ok by (unfold W64 in *; lia). cbn [bind].
    rewrite !idx_ok by lia. cbn [bind]. rewrite slice_from_ok by lia. cbn [bind].
    exists (Some (rdecode key (nth (N.to_nat (n * 2)) l 0) (nth (N.to_nat (n * 2 + 1)) l 0))), (skipn (N.to_nat (n * 2 + 2)) l, key).
    split; [reflexivity|].
    assert (Hlen : (2 * N.to_nat n + 2 <= length l)%nat) by (unfold lenN in Hn; lia).
    split.
    + split; cbn [fst].
      * rewrite skipn_length. rewrite Nat.even_sub by lia. rewrite He.
        replace (N.to_nat (n * 2 + 2)) with (2 * (N.to_nat n + 1))%nat by lia. rewrite Nat.even_mul. reflexivity.
      * rewrite lenN_skipn. lia.
    + rewrite skipn_map, <- pairs_skipn. rewrite (skipn_two 0 (2 * N.to_nat n) l) by lia.
      cbn [pairs map dq_next fst snd opt_out rich_f].
      replace (N.to_nat (n * 2)) with (2 * N.to_nat n)%nat by lia.
      replace (N.to_nat (n * 2 + 1)) with (2 * N.to_nat n + 1)%nat by lia.
      replace (N.to_nat (n * 2 + 2)) with (2 * N.to_nat n + 2)%nat by lia.
      split; reflexivity.
  - destruct (lenN l / 2 <=? n) eqn:E2; [|lia].
    unfold rich_nth_none. cbn [fst snd]. rewrite slice_to_ok by lia. cbn [bind]. change (N.to_nat 0) with 0%nat. cbn [firstn].
    exists None, ([], key). split; [reflexivity|]. split; [split; [reflexivity|unfold W64; reflexivity]|]. split; reflexivity.
Qed.

Lemma rich_next_back_sim s : rich_inv s ->
  exists o s', rich_next_back s = Ok (o, s') /\ rich_inv s' /\ opt_out o = snd (dq_next_back (rich_abs s)) /\ rich_abs s' = fst (dq_next_back (rich_abs s)).
Proof.
  destruct s as [l key]. intros [He Hl]. cbn [fst] in *. unfold rich_next_back, rich_abs, dq_next_back. cbn [fst snd].
  destruct (2 <=? lenN l) eqn:E.
  - assert (H2 : (2 <= length l)%nat) by (unfold lenN in E; lia).
    rewrite !chk_sub_ok by lia. cbn [bind]. rewrite !idx_ok by lia. cbn [bind]. rewrite slice_to_ok by lia. cbn [bind].
    replace (N.to_nat (lenN l - 2)) with (length l - 2)%nat by (unfold lenN; lia).
    replace (N.to_nat (lenN l - 1)) with (length l - 1)%nat by (unfold lenN; lia).
    set (l0 := firstn (length l - 2) l). set (a := nth (length l - 2) l 0). set (b := nth (length l - 1) l 0).
    assert (Hl0 : length l0 = (length l - 2)%nat) by (unfold l0; rewrite firstn_length; lia).
    assert (Hev : Nat.even (length l0) = true).
    { rewrite Hl0, Nat.even_sub by lia. rewrite He. reflexivity. }
    exists (Some (rdecode key a b)), (l0, key). split; [reflexivity|]. split.
    + split; cbn [fst]; [exact Hev|unfold lenN in *; lia].
    + rewrite (split_last_two l H2) at 1 2. fold l0 a b.
      rewrite pairs_app_even by exact Hev. cbn [pairs]. rewrite map_app, rev_app_distr. cbn [map rev app fst snd opt_out rich_f].
      rewrite rev_involutive. split; reflexivity.
  - assert (Hl0 : l = []).
    { destruct l as [|a [|b t]]; [reflexivity|discriminate|rewrite !lenN_cons in E; lia]. }
    subst l. exists None, ([], key). split; [reflexivity|]. split; [split; assumption|]. split; reflexivity.
Qed.

Lemma rich_sim : forall s o, rich_inv s -> is_clone o = false ->
  exists s' r, m_step1 rich_impl s o = Ok (s', r) /\ out_ok true (snd (step1 true (rich_abs s) o)) r
               /\ rich_abs s' = fst (step1 true (rich_abs s) o) /\ rich_inv s'.
Proof.
  intros s o Hi Hc. unfold out_ok.
  assert (Hlen : lenN (rich_abs s) = lenN (fst s) / 2) by (unfold rich_abs; rewrite lenN_map, lenN_pairs; reflexivity).
  destruct o; cbn [m_step1 step1 rich_impl m_full m_next m_next_back m_nth m_size_hint m_count m_nth_back]; try discriminate.
  - destruct (rich_next_sim s Hi) as [o [s' [H1 [H2 [H3 H4]]]]]. rewrite H1. cbn [bind fst snd]. exists s', (opt_out o). auto.
  - destruct (rich_next_back_sim s Hi) as [o [s' [H1 [H2 [H3 H4]]]]]. rewrite H1. cbn [bind fst snd]. exists s', (opt_out o). auto.
  - destruct (rich_nth_sim s k Hi) as [o [s' [H1 [H2 [H3 H4]]]]]. rewrite H1. cbn [bind fst snd]. exists s', (opt_out o). auto.
  - unfold m_len. cbn [rich_impl m_size_hint rich_size_hint bind fst snd]. rewrite N.eqb_refl. cbn [bind].
    exists s, (ONum (lenN (fst s) / 2)). rewrite Hlen. auto.
  - cbn [rich_size_hint bind fst snd]. exists s, (OHint (lenN (fst s) / 2) (Some (lenN (fst s) / 2))). rewrite Hlen. auto.
  - unfold rich_count. cbn [rich_size_hint bind fst snd]. exists s, (ONum (lenN (fst s) / 2)). rewrite Hlen. auto.
  - (* nth_back: the provided loop over rich_next_back *)
    unfold rich_nth_back.
    destruct (prov_nth_back_sim rich_next_back rich_abs rich_inv rich_next_back_sim (Datatypes.S (length (fst s))) s k Hi)
      as [o [s' [H1 [H2 [H3 H4]]]]]; [unfold lenN in Hlen; lia|].
    rewrite H1. cbn [bind fst snd]. exists s', (opt_out o). auto.
Qed.

(* every history over RichIters: the model never faults and returns the deque's outputs *)
Theorem rich_faithful hist pool : Forall rich_inv pool ->
  m_run rich_impl pool hist = Ok (run true (map rich_abs pool) hist).
Proof. intros H. apply (sim_run_full rich_impl rich_abs rich_inv rich_sim eq_refl hist pool H). Qed.

(* the iterator records() hands out satisfies the invariant and abstracts to the record list of C16 *)
Lemma rich_records_inv image se : Rich.try_from image = Ok se -> lenN image < W64 ->
  rich_inv (rich_records_iter image se) /\ rich_abs (rich_records_iter image se) = Rich.records image se.
Proof.
  destruct se as [s e]. intros H Hl. split; [|reflexivity].
  apply RichProofs.try_from_well_formed in H. destruct H as [el [H1 [H2 H3]]].
  destruct H3 as [W1 [W2 [W3 [W4 _]]]]. rewrite firstn_length in W3.
  unfold rich_inv, rich_records_iter, body. cbn [fst snd].
  assert (Hlen : length (firstn (e - s - 6) (skipn (s + 4) image)) = (e - s - 6)%nat).
  { rewrite firstn_length, skipn_length. lia. }
  split.
  - rewrite Hlen. replace (e - s - 6)%nat with (e - s - 2 * 3)%nat by lia.
    rewrite Nat.even_sub by lia. rewrite W4. reflexivity.
  - unfold lenN in *. rewrite Hlen. lia.
Qed.

Theorem rich_records_faithful image se hist : Rich.try_from image = Ok se -> lenN image < W64 ->
  m_run rich_impl [rich_records_iter image se] hist = Ok (run true [Rich.records image se] hist).
Proof.
  intros H Hl. destruct (rich_records_inv image se H Hl) as [Hi Ha].
  rewrite (rich_faithful hist [rich_records_iter image se]) by (constructor; [exact Hi|constructor]).
  cbn [map]. rewrite Ha. reflexivity.
Qed.

(* ------------------------------------------------------------------ *)
(* 3. iterators that only define next: the provided nth / count / size_hint *)

Section FwdSim.
  Context {S A : Type}.
  Variables (next : S -> res (option A * S)) (measure : S -> nat) (abs : S -> list A) (Inv : S -> Prop).
  Hypothesis Hnext : forall s, Inv s ->
    exists o s', next s = Ok (o, s') /\ Inv s' /\ opt_out o = snd (dq_next (abs s)) /\ abs s' = fst (dq_next (abs s)).
  Hypothesis Hmeasure : forall s, Inv s -> (length (abs s) <= measure s)%nat /\ N.of_nat (measure s) < W64.

  Lemma next_cases s : Inv s ->
    (abs s = [] /\ exists s', next s = Ok (None, s') /\ Inv s' /\ abs s' = []) \/
    (exists x t s', abs s = x :: t /\ next s = Ok (Some x, s') /\ Inv s' /\ abs s' = t).
  Proof.
    intros Hi. destruct (Hnext s Hi) as [o [s' [H1 [H2 [H3 H4]]]]].
    destruct (abs s) as [|x t] eqn:Ea; cbn [dq_next fst snd] in H3, H4.
    - left. split; [reflexivity|]. destruct o; [discriminate|]. exists s'. auto.
    - right. destruct o as [y|]; [|discriminate]. injection H3 as ->. exists x, t, s'. auto.
  Qed.

  Lemma fwd_nth_sim : forall fuel s k, Inv s -> (length (abs s) < fuel)%nat ->
    exists o s', fwd_nth next fuel s k = Ok (o, s') /\ Inv s' /\ opt_out o = snd (dq_nth (abs s) k) /\ abs s' = fst (dq_nth (abs s) k).
  Proof.
    induction fuel as [|fuel IH]; intros s k Hi Hf; [lia|]. cbn [fwd_nth].
    destruct (next_cases s Hi) as [[Ea [s' [H1 [H2 H3]]]]|[x [t [s' [Ea [H1 [H2 H3]]]]]]]; rewrite H1; cbn [bind fst snd].
    - exists None, s'. rewrite Ea. unfold dq_nth. change (lenN (@nil A)) with 0.
      destruct (0 <=? k) eqn:E; [|lia]. auto.
    - destruct (k =? 0) eqn:Ek.
      + apply N.eqb_eq in Ek. subst k. exists (Some x), s'. rewrite Ea. unfold dq_nth. rewrite lenN_cons.
        destruct (1 + lenN t <=? 0) eqn:E; [lia|]. change (N.to_nat 0) with 0%nat. cbn [skipn dq_next fst snd opt_out]. auto.
      + rewrite Ea in Hf. cbn [length] in Hf. rewrite <- H3 in Hf.
        destruct (IH s' (k - 1) H2 ltac:(lia)) as [o [s'' [G1 [G2 [G3 G4]]]]].
        exists o, s''. rewrite Ea, dq_nth_cons by lia. rewrite <- H3. auto.
  Qed.

  Lemma fwd_count_sim : forall fuel s acc, Inv s -> (length (abs s) < fuel)%nat -> acc + lenN (abs s) < W64 ->
    fwd_count next fuel s acc = Ok (acc + lenN (abs s)).
  Proof.
    induction fuel as [|fuel IH]; intros s acc Hi Hf Ha; [lia|]. cbn [fwd_count].
    destruct (next_cases s Hi) as [[Ea [s' [H1 [H2 H3]]]]|[x [t [s' [Ea [H1 [H2 H3]]]]]]]; rewrite H1; cbn [bind fst snd].
    - rewrite Ea. change (lenN (@nil A)) with 0. f_equal. lia.
    - rewrite Ea in Ha, Hf. rewrite lenN_cons in Ha. cbn [length] in Hf. rewrite chk_add_ok by lia. cbn [bind].
      rewrite IH; [|exact H2|rewrite H3; lia|rewrite H3; lia]. rewrite Ea, H3, lenN_cons. f_equal. lia.
  Qed.

  Lemma fwd_sim : forall s o, Inv s -> is_clone o = false ->
    exists s' r, m_step1 (fwd_impl next measure) s o = Ok (s', r) /\ out_ok false (snd (step1 false (abs s) o)) r
                 /\ abs s' = fst (step1 false (abs s) o) /\ Inv s'.
  Proof.
    intros s o Hi Hc. destruct (Hmeasure s Hi) as [Hm1 Hm2].
    destruct o; cbn [m_step1 step1 fwd_impl m_full m_next m_nth m_size_hint m_count m_nth_back]; try discriminate.
    - destruct (Hnext s Hi) as [o [s' [H1 [H2 [H3 H4]]]]]. rewrite H1. cbn [bind fst snd]. exists s', (opt_out o).
      split; [reflexivity|]. split; [rewrite <- H3; apply out_ok_refl; destruct o; discriminate|]. auto.
    - exists s, OUnsupported. cbn [fst snd]. split; [reflexivity|]. split; [reflexivity|]. auto.
    - destruct (fwd_nth_sim (Datatypes.S (measure s)) s k Hi ltac:(lia)) as [o [s' [H1 [H2 [H3 H4]]]]].
      rewrite H1. cbn [bind fst snd]. exists s', (opt_out o).
      split; [reflexivity|]. split; [rewrite <- H3; apply out_ok_refl; destruct o; discriminate|]. auto.
    - exists s, OUnsupported. cbn [fst snd]. split; [reflexivity|]. split; [reflexivity|]. auto.
    - cbn [bind fst snd]. exists s, (OHint 0 None). split; [reflexivity|]. split; [unfold out_ok; split; [lia|exact I]|]. auto.
    - rewrite fwd_count_sim by (try assumption; unfold lenN; lia). cbn [bind]. exists s, (ONum (0 + lenN (abs s))).
      split; [reflexivity|]. split; [cbn [fst snd]; unfold out_ok; f_equal|]; auto.
    - exists s, OUnsupported. cbn [fst snd]. split; [reflexivity|]. split; [reflexivity|]. auto.
  Qed.

  Theorem fwd_faithful hist pool : Forall Inv pool ->
    exists outs, m_run (fwd_impl next measure) pool hist = Ok outs /\
                 Forall2 (out_ok false) (run false (map abs pool) hist) outs.
  Proof. intros H. apply (sim_run (fwd_impl next measure) abs Inv fwd_sim hist pool H). Qed.
End FwdSim.

(* ------------------------------------------------------------------ *)
(* 4. the sequence of a forward iterator = what a for loop collects     *)

Section FwdCollect.
  Context {S A : Type}.
  Variables (next : S -> res (option A * S)) (measure : S -> nat) (Inv : S -> Prop).
  (* next never faults; None leaves the state alone (so every later call is None: fused in fact);
     Some makes progress *)
  Hypothesis Hstep : forall s, Inv s ->
    next s = Ok (None, s) \/ (exists x s', next s = Ok (Some x, s') /\ Inv s' /\ (measure s' < measure s)%nat).
  Hypothesis Hrange : forall s, Inv s -> N.of_nat (measure s) < W64.

  Lemma collect_total : forall fuel s, Inv s -> (measure s < fuel)%nat ->
    exists l, collect next fuel s = Ok l /\ (length l <= measure s)%nat.
  Proof.
    induction fuel as [|fuel IH]; intros s Hi Hf; [lia|]. cbn [collect].
    destruct (Hstep s Hi) as [H|[x [s' [H1 [H2 H3]]]]].
    - rewrite H. cbn [bind fst]. exists []. split; [reflexivity|cbn; lia].
    - rewrite H1. cbn [bind fst snd]. destruct (IH s' H2 ltac:(lia)) as [l [G1 G2]]. rewrite G1. cbn [bind].
      exists (x :: l). split; [reflexivity|cbn [length]; lia].
  Qed.
  Lemma collect_mono : forall f1 f2 s l, collect next f1 s = Ok l -> (f1 <= f2)%nat -> collect next f2 s = Ok l.
  Proof.
    induction f1 as [|f1 IH]; intros f2 s l H Hle; [discriminate|]. destruct f2 as [|f2]; [lia|].
    cbn [collect] in *. destruct (next s) as [[o s']| |]; cbn [bind fst snd] in *; try discriminate.
    destruct o as [x|]; [|exact H].
    destruct (collect next f1 s') as [t| |] eqn:E; cbn [bind] in H; try discriminate.
    rewrite (IH f2 s' t E) by lia. exact H.
  Qed.

  Lemma items_next s : Inv s ->
    exists o s', next s = Ok (o, s') /\ Inv s' /\
      opt_out o = snd (dq_next (items next measure s)) /\ items next measure s' = fst (dq_next (items next measure s)).
  Proof.
    intros Hi. unfold items at 1 3. cbn [collect].
    destruct (Hstep s Hi) as [H|[x [s' [H1 [H2 H3]]]]].
    - exists None, s. rewrite H. cbn [bind fst snd dq_next]. split; [reflexivity|]. split; [exact Hi|]. split; [reflexivity|].
      unfold items. cbn [collect]. rewrite H. reflexivity.
    - exists (Some x), s'. rewrite H1. cbn [bind fst snd]. split; [reflexivity|]. split; [exact H2|].
      destruct (collect_total (Datatypes.S (measure s')) s' H2 ltac:(lia)) as [l [G1 G2]].
      rewrite (collect_mono _ (measure s) s' l G1) by lia. cbn [bind dq_next fst snd opt_out].
      unfold items. rewrite G1. split; reflexivity.
  Qed.
  Lemma items_measure s : Inv s -> (length (items next measure s) <= measure s)%nat /\ N.of_nat (measure s) < W64.
  Proof.
    intros Hi. split; [|apply Hrange; exact Hi]. unfold items.
    destruct (collect_total (Datatypes.S (measure s)) s Hi ltac:(lia)) as [l [G1 G2]]. rewrite G1. exact G2.
  Qed.

  (* every history: no fault, no fuel exhaustion, outputs are those of the deque holding the for-loop sequence *)
  Theorem fwd_collect_faithful hist pool : Forall Inv pool ->
    exists outs, m_run (fwd_impl next measure) pool hist = Ok outs /\
                 Forall2 (out_ok false) (run false (map (items next measure) pool) hist) outs.
  Proof. apply (fwd_faithful next measure (items next measure) Inv items_next items_measure). Qed.

  (* fused in fact: after the first None, next returns None forever and never changes the state *)
  Theorem fwd_fused s s' : Inv s -> next s = Ok (None, s') -> s' = s /\ next s' = Ok (None, s').
  Proof.
    intros Hi H. destruct (Hstep s Hi) as [G|[x [s'' [G _]]]]; rewrite G in H; [|discriminate].
    injection H as <-. split; [reflexivity|exact G].
  Qed.
End FwdCollect.

(* ------------------------------------------------------------------ *)
(* 5a. IterBlocks                                                      *)

Definition blk_inv (s : blk_st) : Prop := lenN (snd s) + 3 < W64.

Lemma blk_step s : blk_inv s ->
  blk_next s = Ok (None, s) \/ (exists x s', blk_next s = Ok (Some x, s') /\ blk_inv s' /\ (blk_measure s' < blk_measure s)%nat).
Proof.
  destruct s as [off data]. unfold blk_inv, blk_next, blk_measure. cbn [fst snd]. intros Hi.
  unfold peek. destruct (8 <=? lenN data) eqn:E; [|left; reflexivity]. right. cbn [b_sob].
  set (a := advance (u32_at data 4) (lenN data)).
  assert (Ha : 8 <= a <= lenN data).
  { unfold a. rewrite RelocsProofs.advance_spec by exact Hi. unfold RelocSpec.align4. lia. }
  rewrite slice_from_ok by lia. cbn [bind]. eexists. eexists. split; [reflexivity|]. cbn [snd].
  split; [rewrite lenN_skipn; lia|]. rewrite skipn_length. unfold lenN in Ha. lia.
Qed.
Lemma blk_range s : blk_inv s -> N.of_nat (blk_measure s) < W64.
Proof. unfold blk_inv, blk_measure, lenN. lia. Qed.

(* the for-loop sequence of the model iterator is the block list of C14 *)
Lemma blk_collect_blocks : forall fuel off data, lenN data + 3 < W64 ->
  collect blk_next (S fuel) (off, data) = iter_blocks fuel off data.
Proof.
  induction fuel as [|fuel IH]; intros off data Hi.
  - cbn [collect]. unfold iter_blocks. cbn [iter_blocks_gen]. unfold blk_next. destruct (peek off data) as [b|] eqn:Ep; [|reflexivity].
    unfold peek in Ep. destruct (8 <=? lenN data) eqn:E; [|discriminate].
    assert (Ha : advance (b_sob b) (lenN data) <= lenN data).
    { rewrite RelocsProofs.advance_spec by exact Hi. lia. }
    rewrite slice_from_ok by exact Ha. reflexivity.
  - change (collect blk_next (S (S fuel)) (off, data)) with
      (r <- blk_next (off, data) ;; match fst r with None => Ok [] | Some x => t <- collect blk_next (S fuel) (snd r) ;; Ok (x :: t) end).
    unfold iter_blocks. cbn [iter_blocks_gen]. unfold blk_next. destruct (peek off data) as [b|] eqn:Ep; [|reflexivity].
    unfold peek in Ep. destruct (8 <=? lenN data) eqn:E; [|discriminate].
    assert (Ha : advance (b_sob b) (lenN data) <= lenN data).
    { rewrite RelocsProofs.advance_spec by exact Hi. lia. }
    rewrite slice_from_ok by exact Ha. cbn [bind fst snd]. rewrite IH by (rewrite lenN_skipn; lia). reflexivity.
Qed.
Lemma blk_items_blocks data bs : lenN data + 3 < W64 -> blocks data = Ok bs -> items blk_next blk_measure (0, data) = bs.
Proof.
  intros Hi Hb. unfold items, blk_measure. cbn [snd]. rewrite blk_collect_blocks by exact Hi.
  unfold blocks in Hb. rewrite Hb. reflexivity.
Qed.

Theorem blk_faithful data bs hist : lenN data + 3 < W64 -> blocks data = Ok bs ->
  exists outs, m_run blk_impl [(0, data)] hist = Ok outs /\ Forall2 (out_ok false) (run false [bs] hist) outs.
Proof.
  intros Hi Hb.
  destruct (fwd_collect_faithful blk_next blk_measure blk_inv blk_step blk_range hist [(0, data)]) as [outs [H1 H2]].
  { constructor; [exact Hi|constructor]. }
  exists outs. split; [exact H1|]. cbn [map] in H2. rewrite (blk_items_blocks data bs Hi Hb) in H2. exact H2.
Qed.

(* ------------------------------------------------------------------ *)
(* 5b. strings::Enumerator                                             *)

Section StrProofs.
  Variables (c : cfg) (base : N) (bytes : list N).
  Hypothesis Hlen : lenN bytes < W64.

  Lemma str_step off : True ->
    str_next c base bytes off = Ok (None, off) \/
    (exists x off', str_next c base bytes off = Ok (Some x, off') /\ True /\ (str_measure bytes off' < str_measure bytes off)%nat).
  Proof.
    intros _. unfold str_next, Strings.next, str_measure.
    pose proof (StringsProofs.scan_spec c base (skipn (N.to_nat off) bytes) off off (N.le_refl _)) as H.
    destruct (scan c base (skipn (N.to_nat off) bytes) off off) as [[f off']|] eqn:Es; [|left; reflexivity].
    right. exists f, off'. split; [reflexivity|]. split; [exact I|].
    destruct H as [r [_ [_ [H3 [H4 _]]]]].
    destruct (skipn (N.to_nat off) bytes) as [|b t] eqn:Ek.
    - cbn [scan] in Es. rewrite N.eqb_refl in Es. discriminate.
    - assert (off < off') by (apply H4; discriminate).
      assert (N.to_nat off < length bytes)%nat.
      { destruct (Nat.lt_ge_cases (N.to_nat off) (length bytes)) as [Hlt|Hge]; [exact Hlt|].
        rewrite skipn_all2 in Ek by exact Hge. discriminate. }
      lia.
  Qed.
  Lemma str_range off : True -> N.of_nat (str_measure bytes off) < W64.
  Proof. intros _. unfold str_measure, lenN in *. lia. Qed.

  Lemma str_collect_enumerate : forall fuel off, collect (str_next c base bytes) fuel off = enumerate_fuel fuel c base bytes off.
  Proof.
    induction fuel as [|fuel IH]; intros off; [reflexivity|]. cbn [collect enumerate_fuel]. unfold str_next.
    destruct (Strings.next c base bytes off) as [[f off']|]; cbn [bind fst snd]; [|reflexivity]. rewrite IH. reflexivity.
  Qed.
  Lemma str_items_spec : items (str_next c base bytes) (str_measure bytes) 0 = Runs.enumerate_spec c base bytes.
  Proof.
    unfold items. rewrite str_collect_enumerate. unfold str_measure. change (N.to_nat 0) with 0%nat. rewrite Nat.sub_0_r.
    pose proof (StringsProofs.enumerate_correct c base bytes) as H. unfold enumerate in H. rewrite H. reflexivity.
  Qed.

  Theorem str_faithful hist :
    exists outs, m_run (str_impl c base bytes) [0] hist = Ok outs /\
                 Forall2 (out_ok false) (run false [Runs.enumerate_spec c base bytes] hist) outs.
  Proof.
    destruct (fwd_collect_faithful (str_next c base bytes) (str_measure bytes) (fun _ => True) str_step str_range hist [0]) as [outs [H1 H2]].
    { constructor; [exact I|constructor]. }
    exists outs. split; [exact H1|]. cbn [map] in H2. rewrite str_items_spec in H2. exact H2.
  Qed.
End StrProofs.

(* ------------------------------------------------------------------ *)
(* 5c. PgoIter                                                         *)

Definition pgo_inv (l : list N) : Prop := lenN l < W64.

Lemma nul_pos_lt : forall bs i p, nul_pos bs i = Some p -> i <= p < i + lenN bs.
Proof.
  induction bs as [|b t IH]; intros i p H; cbn [nul_pos] in H; [discriminate|]. rewrite lenN_cons.
  destruct (b =? 0); [injection H as <-; lia|]. apply IH in H. lia.
Qed.
Lemma lenN_flat_le32 l : lenN (flat_map le32 l) = 4 * lenN l.
Proof. induction l as [|x t IH]; [reflexivity|]. cbn [flat_map]. rewrite lenN_app, IH, lenN_cons, lenN_le32. lia. Qed.

Lemma pgo_step l : pgo_inv l ->
  pgo_next l = Ok (None, l) \/ (exists x l', pgo_next l = Ok (Some x, l') /\ pgo_inv l' /\ (pgo_measure l' < pgo_measure l)%nat).
Proof.
  unfold pgo_inv, pgo_next, pgo_measure. intros Hi.
  destruct (3 <=? lenN l) eqn:E; [|left; reflexivity].
  rewrite !idx_ok by lia. cbn [bind]. rewrite slice_from_ok by lia. cbn [bind].
  destruct (nul_pos (flat_map le32 (skipn (N.to_nat 2) l)) 0) as [p|] eqn:Ep; [|left; reflexivity].
  right. apply nul_pos_lt in Ep. rewrite lenN_flat_le32, lenN_skipn in Ep.
  assert (Hp : 2 + p / 4 + 1 <= lenN l) by lia.
  rewrite chk_add_ok by (unfold W64 in *; lia). cbn [bind]. rewrite chk_add_ok by (unfold W64 in *; lia). cbn [bind].
  rewrite slice_from_ok by lia. cbn [bind]. eexists. eexists. split; [reflexivity|].
  split; [rewrite lenN_skipn; lia|]. rewrite skipn_length. unfold lenN in *. lia.
Qed.
Lemma pgo_range l : pgo_inv l -> N.of_nat (pgo_measure l) < W64.
Proof. unfold pgo_inv, pgo_measure, lenN. lia. Qed.

Theorem pgo_faithful l hist : lenN l < W64 ->
  exists outs, m_run pgo_impl [l] hist = Ok outs /\
               Forall2 (out_ok false) (run false [items pgo_next pgo_measure l] hist) outs.
Proof.
  intros Hi. apply (fwd_collect_faithful pgo_next pgo_measure pgo_inv pgo_step pgo_range hist [l]).
  constructor; [exact Hi|constructor].
Qed.

(* ------------------------------------------------------------------ *)
(* 5d. iterators that pass every call to a slice::Iter                  *)

Section Deleg.
  Context {B A : Type}.
  Variable f : B -> A.
  Lemma deleg_next_back_sim (l : list B) : True ->
    exists o l', deleg_next_back f l = Ok (o, l') /\ True /\
      opt_out o = snd (dq_next_back (map f l)) /\ map f l' = fst (dq_next_back (map f l)).
  Proof.
    intros _. unfold deleg_next_back, sl_next_back, dq_next_back. rewrite <- map_rev.
    destruct (rev l) as [|x t]; cbn [map fst snd option_map opt_out].
    - exists None, []. auto.
    - exists (Some (f x)), (rev t). rewrite <- map_rev. auto.
  Qed.
  Lemma deleg_sim : forall l o, True -> is_clone o = false ->
    exists l' r, m_step1 (deleg_impl f) l o = Ok (l', r) /\ out_ok true (snd (step1 true (map f l) o)) r
                 /\ map f l' = fst (step1 true (map f l) o) /\ True.
  Proof.
    intros l o _ Hc. unfold out_ok.
    assert (Fin : forall (l' : list B) (r : out A) X Y Z, X = Ok (l', r) -> Y = r -> map f l' = Z ->
              exists l' r, X = Ok (l', r) /\ Y = r /\ map f l' = Z /\ True).
    { intros l' r X Y Z H1 H2 H3. exists l', r. auto. }
    destruct o; cbn [m_step1 step1 deleg_impl m_full m_next m_next_back m_nth m_size_hint m_count m_nth_back bind fst snd]; try discriminate.
    - destruct l as [|x t]; cbn [sl_next map dq_next fst snd option_map opt_out]; eapply Fin; reflexivity.
    - unfold deleg_next_back. cbn [bind fst snd]. unfold sl_next_back, dq_next_back. rewrite <- map_rev. destruct (rev l) as [|x t]; cbn [map fst snd option_map opt_out].
      + eapply Fin; reflexivity.
      + rewrite <- map_rev. eapply Fin; reflexivity.
    - unfold sl_nth, dq_nth. rewrite lenN_map. destruct (lenN l <=? k); [cbn [fst snd option_map opt_out]; eapply Fin; reflexivity|].
      rewrite skipn_map. destruct (skipn (N.to_nat k) l) as [|x t]; cbn [sl_next map dq_next fst snd option_map opt_out]; eapply Fin; reflexivity.
    - unfold m_len. cbn [deleg_impl m_size_hint sl_size_hint bind fst snd]. rewrite N.eqb_refl, lenN_map. cbn [bind]. eapply Fin; reflexivity.
    - unfold sl_size_hint. cbn [fst snd]. rewrite lenN_map. eapply Fin; reflexivity.
    - unfold sl_count. rewrite lenN_map. eapply Fin; reflexivity.
    - (* nth_back is not overridden: the provided loop over the iterator's own next_back *)
      destruct (prov_nth_back_sim (deleg_next_back f) (map f) (fun _ => True) deleg_next_back_sim (Datatypes.S (length l)) l k I)
        as [o [l' [H1 [_ [H3 H4]]]]]; [rewrite map_length; lia|].
      rewrite H1. cbn [bind fst snd]. eapply Fin; [reflexivity|symmetry; exact H3|exact H4].
  Qed.
  Theorem deleg_faithful hist (pool : list (list B)) :
    m_run (deleg_impl f) pool hist = Ok (run true (map (map f) pool) hist).
  Proof.
    apply (sim_run_full (deleg_impl f) (map f) (fun _ => True) deleg_sim eq_refl hist pool).
    apply Forall_forall. intros; exact I.
  Qed.
End Deleg.

(* ------------------------------------------------------------------ *)
(* 5e. Wrap<Iter32, Iter64> over any iterator that is a faithful sequence *)

Section WrapProofs.
  Context {S A W : Type}.
  Variables (inner : iter_impl S A) (abs : S -> list A) (Inv : S -> Prop) (tag : A -> W).
  Hypothesis Hsim : forall s o, Inv s -> is_clone o = false ->
    exists s' r, m_step1 inner s o = Ok (s', r) /\ out_ok (m_full inner) (snd (step1 (m_full inner) (abs s) o)) r
                 /\ abs s' = fst (step1 (m_full inner) (abs s) o) /\ Inv s'.
  Let wabs (s : S) : list W := map tag (abs s).
  Let wmeasure (s : S) : nat := length (abs s).
  Let winv (s : S) : Prop := Inv s /\ lenN (abs s) < W64.

  Lemma wrap_next_sim s : winv s ->
    exists o s', wrap_next inner tag s = Ok (o, s') /\ winv s' /\ opt_out o = snd (dq_next (wabs s)) /\ wabs s' = fst (dq_next (wabs s)).
  Proof.
    intros [Hi Hl]. destruct (Hsim s Next Hi eq_refl) as [s' [r [H1 [H2 [H3 H4]]]]].
    cbn [m_step1 step1] in H1, H2, H3. unfold wrap_next, wabs.
    destruct (m_next inner s) as [[o s'']| |]; cbn [bind fst snd] in *; try discriminate.
    injection H1 as -> <-. exists (option_map tag o), s'.
    split; [reflexivity|].
    assert (Ho : opt_out o = snd (dq_next (abs s))).
    { unfold out_ok in H2. destruct (m_full inner); [auto|]. destruct (abs s); cbn [dq_next snd] in *; auto. }
    destruct (abs s) as [|x t] eqn:Ea; cbn [dq_next fst snd map] in *.
    - destruct o; [discriminate|]. rewrite H3. cbn [option_map opt_out map]. split; [split; [exact H4|rewrite H3; exact Hl]|]. split; reflexivity.
    - destruct o as [y|]; [|discriminate]. injection Ho as ->. rewrite H3. cbn [option_map opt_out].
      split; [split; [exact H4|rewrite H3; rewrite lenN_cons in Hl; lia]|]. split; reflexivity.
  Qed.
  Lemma wrap_measure s : winv s -> (length (wabs s) <= wmeasure s)%nat /\ N.of_nat (wmeasure s) < W64.
  Proof. intros [_ Hl]. unfold wabs, wmeasure. rewrite map_length. split; [lia|exact Hl]. Qed.

  Theorem wrap_faithful hist pool : Forall winv pool ->
    exists outs, m_run (wrap_impl inner tag wmeasure) pool hist = Ok outs /\
                 Forall2 (out_ok false) (run false (map wabs pool) hist) outs.
  Proof. apply (fwd_faithful (wrap_next inner tag) wmeasure wabs winv wrap_next_sim wrap_measure). Qed.
End WrapProofs.

(* the two wrappers the library hands out: over imports::Iter and debug::Iter *)
Theorem wrap_deleg_faithful {B A W} (f : B -> A) (tag : A -> W) (l : list B) hist : lenN l < W64 ->
  exists outs, m_run (wrap_impl (deleg_impl f) tag (fun s => length (map f s))) [l] hist = Ok outs /\
               Forall2 (out_ok false) (run false [map tag (map f l)] hist) outs.
Proof.
  intros Hl.
  apply (wrap_faithful (deleg_impl f) (map f) (fun _ => True) tag (deleg_sim f) hist [l]).
  constructor; [|constructor]. split; [exact I|rewrite lenN_map; exact Hl].
Qed.

(* ------------------------------------------------------------------ *)
(* 6. what the deque means (so that the Spec itself is pinned down)     *)

Lemma skipn_nth_error {A} : forall n (l : list A),
  match nth_error l n with Some x => skipn n l = x :: skipn (S n) l | None => skipn n l = [] end.
Proof.
  induction n as [|n IH]; intros [|a t]; cbn [nth_error skipn]; try reflexivity. apply IH.
Qed.
Lemma dq_nth_meaning {A} (l : list A) k :
  dq_nth l k = (skipn (S (N.to_nat k)) l, opt_out (nth_error l (N.to_nat k))).
Proof.
  unfold dq_nth. destruct (lenN l <=? k) eqn:E.
  - assert (H : (length l <= N.to_nat k)%nat) by (unfold lenN in E; lia).
    rewrite skipn_all2 by lia. apply nth_error_None in H. rewrite H. reflexivity.
  - pose proof (skipn_nth_error (N.to_nat k) l) as H.
    destruct (nth_error l (N.to_nat k)) as [x|] eqn:En.
    + rewrite H. reflexivity.
    + apply nth_error_None in En. unfold lenN in E. lia.
Qed.
Lemma dq_next_back_meaning {A} (l0 : list A) x : dq_next_back (l0 ++ [x]) = (l0, OItem x).
Proof. unfold dq_next_back. rewrite rev_app_distr. cbn [rev app]. rewrite rev_involutive. reflexivity. Qed.
Lemma dq_next_back_nil {A} : dq_next_back (@nil A) = ([], ONone).
Proof. reflexivity. Qed.

(* next, next, ... yields the items front to back and then none forever *)
Lemma deque_drain {A} full (l : list A) k :
  run full [l] (repeat (0%nat, Next) (length l + k)) = map OItem l ++ repeat ONone k.
Proof.
  induction l as [|a t IH].
  - cbn [length Nat.add map app]. induction k as [|k IHk]; [reflexivity|]. cbn [repeat run]. unfold step at 1 2.
    cbn [nth_error fst snd is_clone step1 dq_next set_nth]. rewrite IHk. reflexivity.
  - cbn [length Nat.add repeat run map app]. unfold step at 1 2.
    cbn [nth_error fst snd is_clone step1 dq_next set_nth]. rewrite IH. reflexivity.
Qed.
(* an exhausted iterator stays exhausted under every call *)
Lemma deque_exhausted {A} full (o : op) : fst (step1 (A := A) full [] o) = [].
Proof.
  destruct o; cbn [step1 fst]; try reflexivity; try (destruct full; reflexivity).
  - unfold dq_nth. rewrite skipn_nil. destruct (lenN (@nil A) <=? k); reflexivity.
  - destruct full; [|reflexivity]. unfold dq_nth_back. rewrite firstn_nil. destruct (lenN (@nil A) <=? k); reflexivity.
Qed.

(* nth_back k: the item with k items behind it, leaving what precedes it; none and exhausted if there is no such item *)
Lemma dq_nth_back_meaning {A} (l0 : list A) x r k : lenN r = k -> dq_nth_back (l0 ++ x :: r) k = (l0, OItem x).
Proof.
  intros Hk. unfold dq_nth_back. rewrite lenN_app, lenN_cons. destruct (lenN l0 + (1 + lenN r) <=? k) eqn:E; [lia|].
  rewrite app_length. cbn [length].
  replace (length l0 + Datatypes.S (length r) - N.to_nat k)%nat with (length (l0 ++ [x]) + 0)%nat
    by (rewrite app_length; cbn [length]; unfold lenN in Hk; lia).
  replace (l0 ++ x :: r) with ((l0 ++ [x]) ++ r) by (rewrite <- app_assoc; reflexivity).
  rewrite firstn_app_2. cbn [firstn]. rewrite app_nil_r. apply dq_next_back_meaning.
Qed.
Lemma dq_nth_back_none {A} (l : list A) k : lenN l <= k -> dq_nth_back l k = ([], ONone).
Proof. intros H. unfold dq_nth_back. destruct (lenN l <=? k) eqn:E; [reflexivity|lia]. Qed.
(* nth_back 0 is next_back *)
Lemma dq_nth_back_0 {A} (l : list A) : dq_nth_back l 0 = dq_next_back l.
Proof.
  unfold dq_nth_back. destruct l as [|a t]; [reflexivity|]. rewrite lenN_cons. destruct (1 + lenN t <=? 0) eqn:E; [lia|].
  change (N.to_nat 0) with 0%nat. rewrite Nat.sub_0_r, firstn_all. reflexivity.
Qed.

(* a concrete history on a RichIter with three records (key 0x11223344) *)
Definition ex_key : N := 287454020.
Definition ex_words : list N := map (fun w => N.lxor w ex_key) [65537 * 7; 3; 65536 * 258 + 9; 0; 1; 4294967295].
Definition ex_hist : list (nat * op) :=
  [(0%nat, SizeHint); (0%nat, Clone); (1%nat, NextBack); (0%nat, Nth 1); (1%nat, Len); (0%nat, Next); (0%nat, Next);
   (1%nat, Nth (2 ^ 64 - 1)); (1%nat, Next); (2%nat, Next); (0%nat, Count)].
Lemma ex_run :
  m_run rich_impl [(ex_words, ex_key)] ex_hist
  = Ok [OHint 3 (Some 3); OCloned;
        OItem {| r_build := 1; r_product := 0; r_count := 4294967295 |};
        OItem {| r_build := 9; r_product := 258; r_count := 0 |};
        ONum 2;
        OItem {| r_build := 1; r_product := 0; r_count := 4294967295 |};
        ONone; ONone; ONone; ONoIter; ONum 0]
  /\ m_run rich_impl_orig [(ex_words, ex_key)] ex_hist = Fault POverflow.
Proof. vm_compute. split; reflexivity. Qed.

Corollary rich_no_fault hist pool : Forall rich_inv pool -> no_fault (m_run rich_impl pool hist).
Proof. intros H f. rewrite (rich_faithful hist pool H). discriminate. Qed.
