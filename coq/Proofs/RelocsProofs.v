(* Proofs for C14: the block iterator partitions the directory, fold = flat_map,
   build/parse round trip. *)
From PV.Model Require Import Machine Relocs.
From PV.Spec Require Import RelocSpec.
From PV.Proofs Require Import BaseProofs.
Ltac Zify.zify_post_hook ::= Z.div_mod_to_equations.

Lemma advance_spec sob rem : rem + 3 < W64 -> advance sob rem = N.min (align4 (N.max sob 8)) rem.
Proof.
  intros H. unfold advance, align4. rewrite align_to_4 by (unfold W64 in *; lia).
  unfold W64 in *. lia.
Qed.

Lemma listN_eqb_refl l : listN_eqb l l = true.
Proof.
  unfold listN_eqb. rewrite Nat.eqb_refl. cbn [andb].
  induction l as [|x l IH]; cbn [combine forallb fst snd]; [reflexivity|].
  rewrite N.eqb_refl. exact IH.
Qed.

Lemma listN_eqb_eq a b : listN_eqb a b = true -> a = b.
Proof.
  unfold listN_eqb. revert b; induction a as [|x a IH]; intros [|y b]; cbn [length combine forallb fst snd Nat.eqb andb];
    try reflexivity; try discriminate.
  intros H. apply andb_prop in H as [Hl H]. apply andb_prop in H as [Hx H].
  apply N.eqb_eq in Hx. subst y. f_equal. apply IH. rewrite Hl. exact H.
Qed.

Lemma pairs_eqb_refl l : pairs_eqb l l = true.
Proof.
  unfold pairs_eqb. rewrite Nat.eqb_refl. cbn [andb].
  induction l as [|x l IH]; cbn [combine forallb fst snd]; [reflexivity|].
  unfold pair_eqb at 1. rewrite !N.eqb_refl. exact IH.
Qed.

Lemma pairs_eqb_eq a b : pairs_eqb a b = true -> a = b.
Proof.
  unfold pairs_eqb. revert b; induction a as [|x a IH]; intros [|y b]; cbn [length combine forallb fst snd Nat.eqb andb];
    try reflexivity; try discriminate.
  intros H. apply andb_prop in H as [Hl H]. apply andb_prop in H as [Hx H].
  unfold pair_eqb in Hx. apply andb_prop in Hx as [H1 H2]. apply N.eqb_eq in H1, H2.
  destruct x, y; cbn [fst snd] in *; subst. f_equal. apply IH. rewrite Hl. exact H.
Qed.

Lemma words_from_spec data base n : forall off,
  words_from (skipn (N.to_nat base) data) off n = words_spec data (base + off) (N.of_nat n).
Proof.
  unfold words_spec. rewrite Nat2N.id.
  induction n as [|n IH]; intros off; cbn [words_from seq map]; [reflexivity|].
  f_equal.
  - rewrite u16_at_skipn. f_equal. lia.
  - rewrite IH. rewrite <- seq_shift, map_map. apply map_ext. intros i. f_equal. lia.
Qed.

Lemma skipn_skipn_N {A} (l : list A) a b :
  skipn (N.to_nat a) (skipn (N.to_nat b) l) = skipn (N.to_nat (b + a)) l.
Proof. rewrite skipn_skipn_nat. f_equal. lia. Qed.

(* T1: for every directory the iterator terminates within fuel = len and its
   output is the partition the spec describes. *)
Lemma iter_blocks_chain data : lenN data + 3 < W64 ->
  forall fuel off, off <= lenN data -> lenN data - off <= 8 * N.of_nat fuel + 7 ->
  exists bs, iter_blocks fuel off (skipn (N.to_nat off) data) = Ok bs /\ chainb data off bs = true.
Proof.
  intros Hlen. induction fuel as [|fuel IH]; intros off Hoff Hrem.
  - exists []. unfold iter_blocks, iter_blocks_gen, peek. rewrite lenN_skipn, N2Nat.id.
    destruct (8 <=? lenN data - off) eqn:E; [lia|]. split; [reflexivity|]. cbn [chainb]. lia.
  - unfold iter_blocks. cbn [iter_blocks_gen]. unfold peek. rewrite lenN_skipn, N2Nat.id.
    destruct (8 <=? lenN data - off) eqn:E.
    + cbn [b_sob]. rewrite u32_at_skipn, u32_at_skipn.
      set (rem := lenN data - off) in *. set (sob := u32_at data (off + 4)).
      rewrite advance_spec by lia.
      set (a := N.min (align4 (N.max sob 8)) rem).
      assert (Ha : 8 <= a <= rem) by (unfold a, align4; lia).
      rewrite skipn_skipn_N.
      destruct (IH (off + a)) as [bs [Hbs Hch]]; [lia|lia|].
      fold iter_blocks. rewrite Hbs. cbn [bind]. eexists. split; [reflexivity|].
      cbn [chainb b_off b_va b_sob b_words]. fold rem. fold sob. fold a.
      rewrite E, !N.eqb_refl. replace (off + 0) with off by lia. rewrite N.eqb_refl. cbn [andb].
      rewrite words_from_spec, N2Nat.id, listN_eqb_refl. cbn [andb].
      rewrite Hch.
      assert (H1 : (off + 8 + 2 * ((N.min sob rem - 8) / 2) <=? off + a) = true) by (unfold a, align4; lia).
      assert (H2 : (off <? off + a) = true) by lia.
      assert (H3 : (off + a <=? lenN data) = true) by lia.
      rewrite H1, H2, H3. reflexivity.
    + exists []. split; [reflexivity|]. cbn [chainb]. lia.
Qed.

Theorem blocks_partition data : lenN data + 3 < W64 ->
  exists bs, blocks data = Ok bs /\ chainb data 0 bs = true.
Proof.
  intros H. unfold blocks.
  pose proof (iter_blocks_chain data H (length data) 0) as L.
  change (skipn (N.to_nat 0) data) with data in L. apply L; [lia|unfold lenN; lia].
Qed.

(* consequences of the chain predicate, in Prop form *)
Lemma chainb_inv data off b bs : chainb data off (b :: bs) = true ->
  let rem := lenN data - off in
  let next := off + N.min (align4 (N.max (b_sob b) 8)) rem in
  b_off b = off /\ b_va b = u32_at data off /\ b_sob b = u32_at data (off + 4) /\
  b_words b = words_spec data (off + 8) ((N.min (b_sob b) rem - 8) / 2) /\
  off + 8 + 2 * lenN (b_words b) <= next /\ off < next <= lenN data /\
  (b_sob b mod 4 = 0 -> 8 <= b_sob b <= rem -> next = off + b_sob b) /\
  chainb data next bs = true.
Proof.
  cbn [chainb]. intros H. rewrite !andb_true_iff in H.
  destruct H as [[[[[[[[H1 H2] H3] H4] H5] H6] H7] H8] H9].
  apply listN_eqb_eq in H5.
  assert (Hl : lenN (b_words b) = (N.min (b_sob b) (lenN data - off) - 8) / 2).
  { rewrite H5. unfold words_spec, lenN. rewrite map_length, seq_length. lia. }
  cbv zeta. rewrite Hl. unfold align4 in *.
  repeat split; try assumption; try lia.
Qed.

(* T2: the internal fold equals flat_map over the blocks *)
Lemma fold_block_spec acc b :
  fold_block acc b = acc ++ flat_map (decode_word (b_va b)) (b_words b).
Proof.
  unfold fold_block. revert acc. induction (b_words b) as [|w ws IH]; intros acc; cbn [fold_left flat_map].
  - rewrite app_nil_r. reflexivity.
  - rewrite IH. unfold decode_word, type_of, rva_of, wadd32.
    destruct (w / 4096 =? 0); cbn [app]; [reflexivity|]. rewrite <- app_assoc. reflexivity.
Qed.

Lemma fold_blocks_spec bs : forall acc, fold_left fold_block bs acc = acc ++ flat_spec bs.
Proof.
  unfold flat_spec. induction bs as [|b bs IH]; intros acc; cbn [fold_left flat_map].
  - rewrite app_nil_r. reflexivity.
  - rewrite IH, fold_block_spec, app_assoc. reflexivity.
Qed.

Theorem fold_is_flat data : lenN data + 3 < W64 ->
  exists bs, blocks data = Ok bs /\ fold_pairs data = Ok (flat_spec bs).
Proof.
  intros H. destruct (blocks_partition data H) as [bs [Hb _]]. exists bs. split; [exact Hb|].
  unfold fold_pairs. rewrite Hb. cbn [bind]. rewrite fold_blocks_spec. reflexivity.
Qed.

Theorem parse_ok_model data : lenN data + 3 < W64 ->
  exists bs flat, blocks data = Ok bs /\ fold_pairs data = Ok flat /\ parse_ok data bs (flat_spec bs) flat = true.
Proof.
  intros H. destruct (blocks_partition data H) as [bs [Hb Hc]].
  destruct (fold_is_flat data H) as [bs' [Hb' Hf]]. rewrite Hb in Hb'. injection Hb' as <-.
  exists bs, (flat_spec bs). repeat split; try assumption.
  unfold parse_ok. rewrite Hc, !pairs_eqb_refl. reflexivity.
Qed.

(* F13, as the code stood before the repair: a block whose size field is
   0xFFFFFFFD..0xFFFFFFFF makes the iterator stand still, whatever the fuel. *)
Definition f13_witness : list N := [0;0;0;0; 253;255;255;255; 0;0;0;0].
Lemma iter_blocks_orig_refuted : forall fuel,
  iter_blocks_gen advance_orig fuel 0 f13_witness = Fault OutOfFuel.
Proof.
  induction fuel as [|fuel IH]; [reflexivity|].
  cbn [iter_blocks_gen]. change (peek 0 f13_witness) with
    (Some {| b_off := 0; b_va := 0; b_sob := 4294967293; b_words := [0;0] |}).
  cbn [b_sob]. change (advance_orig 4294967293 (lenN f13_witness)) with 0.
  change (skipn (N.to_nat 0) f13_witness) with f13_witness. change (0 + 0) with 0.
  rewrite IH. reflexivity.
Qed.

(* ------------------------------------------------------------------ *)
(* T3: build / parse round trip                                        *)

Lemma iter_fuel_mono f1 : forall f2 off data bs,
  iter_blocks f1 off data = Ok bs -> (f1 <= f2)%nat -> iter_blocks f2 off data = Ok bs.
Proof.
  unfold iter_blocks. induction f1 as [|f1 IH]; intros f2 off data bs H Hle.
  - cbn [iter_blocks_gen] in H. destruct f2; cbn [iter_blocks_gen]; destruct (peek off data); try discriminate; exact H.
  - destruct f2 as [|f2]; [lia|]. cbn [iter_blocks_gen] in *. destruct (peek off data) as [b|]; [|exact H].
    destruct (iter_blocks_gen advance f1 _ _) as [r| |] eqn:E; cbn [bind] in H; try discriminate.
    rewrite (IH f2 _ _ r E) by lia. exact H.
Qed.

Lemma u16_at_app_r a b i : u16_at (a ++ b) (lenN a + i) = u16_at b i.
Proof. unfold u16_at. rewrite !byte_at_app_r by lia. f_equal; [|f_equal]; f_equal; lia. Qed.
Lemma u32_at_app_r a b i : u32_at (a ++ b) (lenN a + i) = u32_at b i.
Proof.
  unfold u32_at. rewrite !byte_at_app_r by lia.
  replace (lenN a + i - lenN a) with i by lia. replace (lenN a + i + 1 - lenN a) with (i + 1) by lia.
  replace (lenN a + i + 2 - lenN a) with (i + 2) by lia. replace (lenN a + i + 3 - lenN a) with (i + 3) by lia.
  reflexivity.
Qed.

Lemma words_from_flat ws : Forall (fun w => w < 65536) ws -> forall pre rest,
  words_from (pre ++ flat_map le16 ws ++ rest) (lenN pre) (length ws) = ws.
Proof.
  induction 1 as [|w ws Hw _ IH]; intros pre rest; cbn [length words_from flat_map]; [reflexivity|].
  f_equal.
  - replace (lenN pre) with (lenN pre + 0) by lia. rewrite u16_at_app_r, <- app_assoc.
    apply u16_at_le16. exact Hw.
  - rewrite <- app_assoc. specialize (IH (pre ++ le16 w) rest).
    rewrite lenN_app, lenN_le16, <- app_assoc in IH. exact IH.
Qed.

Definition enc (start : N) (p : N * N) : N := (fst p - start) + snd p * 4096.

Lemma encode_all_ok start : forall rs ts,
  length rs = length ts ->
  Forall (fun r => start <= r <= start + 4095) rs -> Forall (fun t => 1 <= t <= 15) ts ->
  encode_all start rs ts = Ok (map (enc start) (combine rs ts)).
Proof.
  induction rs as [|r rs IH]; intros [|t ts] Hl Hr Ht; try discriminate; [reflexivity|].
  inversion Hr as [|? ? Hr1 Hr2]; subst. inversion Ht as [|? ? Ht1 Ht2]; subst.
  cbn [encode_all combine map]. unfold encode_type_offset, chk_sub.
  destruct (start <=? r) eqn:E; [|lia]. cbn [bind].
  rewrite IH by (try assumption; cbn [length] in Hl; lia). cbn [bind].
  change 4096 with (2 ^ 12). rewrite lor_disjoint_add by (change (2 ^ 12) with 4096; lia).
  change (2 ^ 12) with 4096. unfold enc. cbn [fst snd]. rewrite N.mod_small by lia. reflexivity.
Qed.

Lemma count_page_spec s e : forall rvas,
  Forall (fun r => s <= r <= e) (firstn (count_page s e rvas) rvas) /\ (count_page s e rvas <= length rvas)%nat.
Proof.
  induction rvas as [|r rs [IH1 IH2]]; cbn [count_page firstn length]; [split; [constructor|lia]|].
  destruct ((s <=? r) && (r <=? e)) eqn:E; cbn [firstn]; [|split; [constructor|lia]].
  split; [|lia]. constructor; [lia|exact IH1].
Qed.

Lemma decode_enc start rs : forall ts, length rs = length ts -> start mod 4096 = 0 -> start + 4095 < W32 ->
  Forall (fun r => start <= r <= start + 4095) rs -> Forall (fun t => 1 <= t <= 15) ts ->
  flat_map (decode_word start) (map (enc start) (combine rs ts)) = combine rs ts.
Proof.
  induction rs as [|r rs IH]; intros [|t ts] Hl Hs Hw Hr Ht; try discriminate; [reflexivity|].
  inversion Hr as [|? ? Hr1 Hr2]; subst. inversion Ht as [|? ? Ht1 Ht2]; subst.
  cbn [combine map flat_map]. rewrite IH by (try assumption; cbn [length] in Hl; lia).
  unfold decode_word, enc. cbn [fst snd].
  assert (E1 : (r - start + t * 4096) / 4096 = t) by lia. rewrite E1.
  assert (E2 : (r - start + t * 4096) mod 4096 = r - start) by lia. rewrite E2.
  destruct (t =? 0) eqn:E; [lia|]. cbn [app]. repeat f_equal. unfold W32 in *. rewrite N.mod_small by lia. lia.
Qed.

Lemma combine_firstn_skipn {A B} n : forall (l : list A) (l' : list B),
  combine (firstn n l) (firstn n l') ++ combine (skipn n l) (skipn n l') = combine l l'.
Proof.
  induction n as [|n IH]; intros [|x l] [|y l']; cbn [firstn skipn combine app]; try reflexivity.
  - destruct (skipn n l); reflexivity.
  - f_equal. apply IH.
Qed.

Lemma Forall_firstn {A} (P : A -> Prop) n l : Forall P l -> Forall P (firstn n l).
Proof. rewrite !Forall_forall. intros H x Hx. apply H. rewrite <- (firstn_skipn n l). apply in_or_app; left; exact Hx. Qed.
Lemma Forall_skipn {A} (P : A -> Prop) n l : Forall P l -> Forall P (skipn n l).
Proof. rewrite !Forall_forall. intros H x Hx. apply H. rewrite <- (firstn_skipn n l). apply in_or_app; right; exact Hx. Qed.

Lemma flat_le16_bytes_ok ws : bytes_ok (flat_map le16 ws).
Proof. induction ws as [|w ws IH]; cbn [flat_map]; [constructor|]. apply bytes_ok_app; [apply le16_bytes_ok|exact IH]. Qed.

Lemma lenN_flat_le16 ws : lenN (flat_map le16 ws) = 2 * lenN ws.
Proof. induction ws as [|w ws IH]; cbn [flat_map]; [reflexivity|]. rewrite lenN_app, lenN_le16, IH, lenN_cons. lia. Qed.

(* one block written by build, read back by the iterator *)
Lemma peek_built off start wsp rest :
  start < W32 -> Forall (fun w => w < 65536) wsp -> 8 + 2 * lenN wsp < W32 ->
  peek off (le32 start ++ le32 (8 + 2 * lenN wsp) ++ flat_map le16 wsp ++ rest)
  = Some {| b_off := off; b_va := start; b_sob := 8 + 2 * lenN wsp; b_words := wsp |}.
Proof.
  intros Hs Hw Hsz. unfold peek. set (size := 8 + 2 * lenN wsp) in *.
  rewrite !lenN_app, !lenN_le32, lenN_flat_le16.
  destruct (8 <=? 4 + (4 + (2 * lenN wsp + lenN rest))) eqn:E; [|lia].
  rewrite (u32_at_le32 start _ Hs).
  assert (E4 : u32_at (le32 start ++ le32 size ++ flat_map le16 wsp ++ rest) 4 = size).
  { change 4 with (lenN (le32 start) + 0) at 1. rewrite u32_at_app_r. apply u32_at_le32. exact Hsz. }
  rewrite E4. f_equal. f_equal.
  assert (En : N.to_nat ((N.min size (4 + (4 + (2 * lenN wsp + lenN rest))) - 8) / 2) = length wsp)
    by (unfold size, lenN; lia).
  rewrite En.
  pose proof (words_from_flat wsp Hw (le32 start ++ le32 size) rest) as L.
  rewrite <- app_assoc in L. exact L.
Qed.

Lemma advance_built size rem : size mod 4 = 0 -> 8 <= size <= rem -> size < W32 -> advance size rem = size.
Proof.
  intros Hm Hr Hs. unfold advance. unfold W32 in Hs.
  rewrite align_to_4 by (unfold W64; lia). lia.
Qed.

Definition blk_aligned (b : block) : Prop := b_va b mod 4096 = 0 /\ b_sob b mod 4 = 0.

Lemma build_parse : forall fb fp rvas types off,
  length rvas = length types -> (length rvas <= fb)%nat -> (length rvas <= fp)%nat ->
  2 * lenN rvas + 11 < W32 ->
  Forall (fun r => r < W32) rvas -> Forall (fun t => 1 <= t <= 15) types ->
  exists out bs, build_gen count_page fb rvas types = Ok out /\ bytes_ok out /\
    ((length rvas <= length out)%nat /\ lenN out <= 12 * lenN rvas) /\
    iter_blocks fp off out = Ok bs /\ flat_spec bs = combine rvas types /\ Forall blk_aligned bs.
Proof.
  induction fb as [|fb IH]; intros fp rvas types off Hl Hfb Hfp Hsz Hr Ht.
  - destruct rvas; [|cbn [length] in Hfb; lia]. exists [], []. cbn [build_gen].
    repeat split; try constructor; try (unfold lenN; cbn [length]; lia). destruct fp; reflexivity.
  - destruct rvas as [|r0 rs].
    { exists [], []. cbn [build_gen]. repeat split; try constructor; try (unfold lenN; cbn [length]; lia). destruct fp; reflexivity. }
    assert (Hr0 : r0 < W32) by (inversion Hr; assumption).
    cbn [build_gen]. set (rvas := r0 :: rs) in *.
    assert (Erv : rvas = r0 :: rs) by reflexivity.
    set (start := r0 / 4096 * 4096).
    assert (Hst : start mod 4096 = 0 /\ start <= r0 <= start + 4095 /\ start + 4095 < W32)
      by (unfold start, W32 in *; lia).
    destruct Hst as [Hst1 [Hst2 Hst3]].
    unfold chk_add. destruct (start + 4095 <? W32) eqn:E; [|lia]. cbn [bind].
    set (n := count_page start (start + 4095) rvas).
    destruct (count_page_spec start (start + 4095) rvas) as [Hin Hn]. fold n in Hin, Hn.
    assert (Hn1 : (1 <= n)%nat).
    { unfold n. rewrite Erv. cbn [count_page]. destruct ((start <=? r0) && (r0 <=? start + 4095)) eqn:E2; lia. }
    assert (Hlf : length (firstn n rvas) = length (firstn n types)) by (rewrite !firstn_length; lia).
    rewrite (encode_all_ok start _ _ Hlf Hin (Forall_firstn _ n _ Ht)). cbn [bind].
    set (ws := map (enc start) (combine (firstn n rvas) (firstn n types))).
    assert (Hlw : length ws = n).
    { unfold ws. rewrite map_length, combine_length, !firstn_length. lia. }
    assert (Hws : Forall (fun w => w < 65536) ws).
    { unfold ws. rewrite Forall_forall. intros w Hw. apply in_map_iff in Hw as [[r t] [<- Hin2]].
      pose proof (in_combine_l _ _ _ _ Hin2) as Hi1. pose proof (in_combine_r _ _ _ _ Hin2) as Hi2.
      rewrite Forall_forall in Hin. apply Hin in Hi1.
      pose proof (Forall_firstn _ n _ Ht) as Ht'. rewrite Forall_forall in Ht'. apply Ht' in Hi2.
      unfold enc. cbn [fst snd]. lia. }
    assert (Hlrs : (length (skipn n rvas) <= fb)%nat) by (rewrite skipn_length; cbn [length] in Hfb; lia).
    destruct fp as [|fp]; [rewrite Erv in Hfp; cbn [length] in Hfp; lia|].
    assert (Hlrs' : (length (skipn n rvas) <= fp)%nat) by (rewrite skipn_length; cbn [length] in Hfp; lia).
    set (padw := if N.odd (N.of_nat n) then [0] else @nil N).
    set (wsp := ws ++ padw).
    assert (Hpad : (if N.odd (N.of_nat n) then [0; 0] else []) = flat_map le16 padw).
    { unfold padw. destruct (N.odd (N.of_nat n)); reflexivity. }
    assert (Hodd : lenN padw = N.of_nat n mod 2).
    { unfold padw. rewrite <- N.bit0_mod, N.bit0_odd. destruct (N.odd (N.of_nat n)); reflexivity. }
    assert (Hsize : align_to W64 4 (8 + 2 * N.of_nat n) = 8 + 2 * lenN wsp).
    { unfold wsp. rewrite lenN_app, Hodd. unfold lenN at 1. rewrite Hlw.
      rewrite align_to_4 by (unfold W64, W32, lenN in *; lia). lia. }
    assert (Hszw : 8 + 2 * lenN wsp < W32).
    { unfold wsp. rewrite lenN_app, Hodd. unfold lenN at 1. rewrite Hlw. unfold lenN, W32 in *. lia. }
    edestruct (IH fp (skipn n rvas) (skipn n types) (off + (8 + 2 * lenN wsp)))
      as [rest [bs [Hb [Hok [[Hlen Hub] [Hit [Hfl Hal]]]]]]];
      [rewrite !skipn_length; lia|exact Hlrs|exact Hlrs'| |apply Forall_skipn; exact Hr|apply Forall_skipn; exact Ht|].
    { unfold lenN in *. rewrite skipn_length. lia. }
    rewrite Hb. cbn [bind]. rewrite Hsize, (N.mod_small _ _ Hszw), Hpad.
    rewrite (app_assoc (flat_map le16 ws)), <- flat_map_app. fold wsp.
    assert (Hwsp : Forall (fun w => w < 65536) wsp).
    { unfold wsp, padw. apply Forall_app; split; [exact Hws|]. destruct (N.odd (N.of_nat n)); repeat constructor. }
    eexists. eexists. split; [reflexivity|]. split; [|split; [|split; [|split]]].
    + repeat apply bytes_ok_app; try apply le32_bytes_ok; try apply flat_le16_bytes_ok; exact Hok.
    + assert (Hfl2 : length (flat_map le16 wsp) = (2 * length wsp)%nat).
      { pose proof (lenN_flat_le16 wsp). unfold lenN in *. lia. }
      assert (Hlr : length rvas = (n + length (skipn n rvas))%nat) by (rewrite skipn_length; lia).
      assert (Hlp : (length padw <= 1)%nat) by (unfold padw; destruct (N.odd (N.of_nat n)); cbn [length]; lia).
      unfold lenN in *. rewrite !app_length, Hfl2. change (length (le32 start)) with 4%nat.
      change (length (le32 (8 + 2 * N.of_nat (length wsp)))) with 4%nat.
      unfold wsp. rewrite app_length, Hlw. split; lia.
    + unfold iter_blocks. cbn [iter_blocks_gen]. rewrite (peek_built off start wsp rest) by (try assumption; unfold W32 in *; lia).
      cbn [b_sob]. rewrite advance_built; try assumption.
      * assert (Hsk : skipn (N.to_nat (8 + 2 * lenN wsp))
                 (le32 start ++ le32 (8 + 2 * lenN wsp) ++ flat_map le16 wsp ++ rest) = rest).
        { rewrite !app_assoc. apply skipn_app_exact.
          rewrite !app_length. change (length (le32 start)) with 4%nat. change (length (le32 (8 + 2 * lenN wsp))) with 4%nat.
          pose proof (lenN_flat_le16 wsp). unfold lenN in *. lia. }
        rewrite Hsk. fold iter_blocks. rewrite Hit. cbn [bind]. reflexivity.
      * pose proof Hodd. unfold wsp. rewrite lenN_app. unfold lenN at 1. rewrite Hlw. lia.
      * rewrite !lenN_app, !lenN_le32, lenN_flat_le16. lia.
    + unfold flat_spec in *. cbn [flat_map b_va b_words]. rewrite Hfl. unfold wsp. rewrite flat_map_app.
      unfold ws. rewrite decode_enc; try assumption; [|apply Forall_firstn; exact Ht].
      assert (Hp : flat_map (decode_word start) padw = []).
      { unfold padw. destruct (N.odd (N.of_nat n)); reflexivity. }
      rewrite Hp, app_nil_r. apply combine_firstn_skipn.
    + constructor; [|exact Hal]. unfold blk_aligned. cbn [b_va b_sob]. split; [exact Hst1|].
      pose proof Hodd. unfold wsp. rewrite lenN_app. unfold lenN at 1. rewrite Hlw. lia.
Qed.

Theorem build_roundtrip rvas types :
  length rvas = length types -> 2 * lenN rvas + 11 < W32 ->
  Forall (fun r => r < W32) rvas -> Forall (fun t => 1 <= t <= 15) types ->
  exists out bs, build rvas types = Ok out /\ bytes_ok out /\ lenN out <= 12 * lenN rvas /\ blocks out = Ok bs /\
    fold_pairs out = Ok (combine rvas types) /\ Forall blk_aligned bs.
Proof.
  intros Hl Hsz Hr Ht.
  destruct (build_parse (length rvas) (length rvas) rvas types 0 Hl (le_n _) (le_n _) Hsz Hr Ht)
    as [out [bs [Hb [Hok [[Hlen Hub] [Hit [Hfl Hal]]]]]]].
  exists out, bs. unfold build. rewrite Hl, Nat.eqb_refl, <- Hl. split; [exact Hb|]. split; [exact Hok|]. split; [exact Hub|].
  assert (Hbl : blocks out = Ok bs) by (unfold blocks; apply (iter_fuel_mono _ _ _ _ _ Hit Hlen)).
  split; [exact Hbl|]. split; [|exact Hal].
  unfold fold_pairs. rewrite Hbl. cbn [bind]. rewrite fold_blocks_spec, Hfl. reflexivity.
Qed.

(* F14, as the code stood before the repair: an rva whose page offset is 0xFFF
   is placed in no block (n = 0), so the loop makes no progress. *)
Lemma build_orig_refuted : forall fuel,
  build_gen count_page_orig fuel [8191] [3] = Fault OutOfFuel.
Proof.
  induction fuel as [|fuel IH]; [reflexivity|].
  cbn [build_gen]. change (8191 / 4096 * 4096) with 4096. change (chk_add W32 4096 4095) with (@Ok N 8191).
  cbn [bind]. change (count_page_orig 4096 8191 [8191]) with 0%nat.
  cbn [firstn skipn encode_all bind]. rewrite IH. reflexivity.
Qed.

(* the same statement through the executable oracle that is run on the implementation *)
Lemma forallb_Forall {A} (p : A -> bool) (P : A -> Prop) l :
  (forall x, p x = true -> P x) -> forallb p l = true -> Forall P l.
Proof. intros H Hf. rewrite forallb_forall in Hf. rewrite Forall_forall. intros x Hx. apply H, Hf, Hx. Qed.
Lemma Forall_forallb {A} (p : A -> bool) (P : A -> Prop) l :
  (forall x, P x -> p x = true) -> Forall P l -> forallb p l = true.
Proof. intros H Hf. rewrite forallb_forall. rewrite Forall_forall in Hf. intros x Hx. apply H, Hf, Hx. Qed.

Theorem build_ok_model rvas types :
  build_pre rvas types = true -> 2 * lenN rvas + 11 < W32 ->
  exists out bs flat, build rvas types = Ok out /\ blocks out = Ok bs /\ fold_pairs out = Ok flat /\
    build_ok rvas types out bs flat = true.
Proof.
  unfold build_pre. intros Hp Hsz. rewrite !andb_true_iff in Hp. destruct Hp as [[Hl Hr] Ht].
  apply Nat.eqb_eq in Hl.
  assert (Hr' : Forall (fun r => r < W32) rvas) by (apply (forallb_Forall _ _ _ (fun x H => proj1 (N.ltb_lt _ _) H) Hr)).
  assert (Ht' : Forall (fun t => 1 <= t <= 15) types).
  { apply (forallb_Forall (fun t => (1 <=? t) && (t <=? 15))); [|exact Ht]. intros x H. lia. }
  destruct (build_roundtrip rvas types Hl Hsz Hr' Ht') as [out [bs [Hb [Hok [Hub [Hbl [Hfp Hal]]]]]]].
  exists out, bs, (combine rvas types). repeat split; try assumption.
  assert (Hlen : lenN out + 3 < W64) by (unfold W32, W64 in *; lia).
  destruct (blocks_partition out Hlen) as [bs' [Hbl' Hch]]. rewrite Hbl in Hbl'. injection Hbl' as <-.
  destruct (fold_is_flat out Hlen) as [bs' [Hbl' Hff]]. rewrite Hbl in Hbl'. injection Hbl' as <-.
  rewrite Hfp in Hff. injection Hff as Hff.
  unfold build_ok. rewrite Hch, Hff, !pairs_eqb_refl. cbn [andb]. apply andb_true_iff. split.
  - apply (Forall_forallb _ blk_aligned); [|exact Hal]. unfold blk_aligned. intros b [H1 H2]. lia.
  - apply (Forall_forallb _ (fun x => x < 256)); [|exact Hok]. intros x Hx. lia.
Qed.
