(* UTF-8 (RFC 3629) and the JSON printer: if every string and key of a JSON value is valid UTF-8 then
   so is the text serde_json's compact printer produces for it (RFC 8259 section 8.1). *)
From PV.Model Require Import Machine Json.
From PV.Spec Require Import WrapSpec.
From PV.Proofs Require Import BaseProofs JsonProofs.
Ltac Zify.zify_post_hook ::= Z.div_mod_to_equations.

Lemma range_b a b x : (a <=? x) && (x <=? b) = true -> a <= x <= b.
Proof. intros H. apply andb_true_iff in H as [H1 H2]. apply N.leb_le in H1. apply N.leb_le in H2. split; assumption. Qed.
Lemma range_nb a b x : (a <=? x) && (x <=? b) = false -> x < a \/ b < x.
Proof. intros H. apply andb_false_iff in H as [H|H]; apply N.leb_gt in H; [left|right]; exact H. Qed.

Lemma utf8_valid_fuel_sound : forall fuel s, utf8_valid_fuel fuel s = true -> utf8 s.
Proof.
  induction fuel as [|k IH]; intros s H; [discriminate|]. cbn [utf8_valid_fuel] in H.
  destruct s as [|b0 t]; [constructor|].
  destruct (b0 <? 128) eqn:E1; [apply u_1; [lia|apply IH; exact H]|].
  destruct ((194 <=? b0) && (b0 <=? 223)) eqn:E2.
  { apply range_b in E2. destruct t as [|b1 t]; [discriminate|]. apply andb_true_iff in H as [H1 H2]. apply u_2; [exact E2|exact H1|apply IH; exact H2]. }
  destruct ((224 <=? b0) && (b0 <=? 239)) eqn:E3.
  { apply range_b in E3. destruct t as [|b1 [|b2 t]]; try discriminate.
    apply andb_true_iff in H as [H H5]. apply andb_true_iff in H as [H H4]. apply andb_true_iff in H as [H H3].
    apply andb_true_iff in H as [H1 H2].
    apply u_3; [exact E3|exact H1|exact H2| | |apply IH; exact H5].
    - intros ->. change (224 =? 224) with true in H3. apply N.leb_le in H3. exact H3.
    - intros ->. change (237 =? 237) with true in H4. apply N.leb_le in H4. exact H4. }
  destruct ((240 <=? b0) && (b0 <=? 244)) eqn:E4; [|discriminate]. apply range_b in E4.
  destruct t as [|b1 [|b2 [|b3 t]]]; try discriminate.
  apply andb_true_iff in H as [H H6]. apply andb_true_iff in H as [H H5]. apply andb_true_iff in H as [H H4].
  apply andb_true_iff in H as [H H3]. apply andb_true_iff in H as [H1 H2].
  apply u_4; [exact E4|exact H1|exact H2|exact H3| | |apply IH; exact H6].
  - intros ->. change (240 =? 240) with true in H4. apply N.leb_le in H4. exact H4.
  - intros ->. change (244 =? 244) with true in H5. apply N.leb_le in H5. exact H5.
Qed.

Lemma utf8_valid_fuel_complete s : utf8 s -> forall fuel, (length s < fuel)%nat -> utf8_valid_fuel fuel s = true.
Proof.
  induction 1 as [|b t Hb _ IH|b0 b1 t Hb Hc1 _ IH|b0 b1 b2 t Hb Hc1 Hc2 Ho Hs _ IH|b0 b1 b2 b3 t Hb Hc1 Hc2 Hc3 Ho Hm _ IH];
    intros fuel Hf; (destruct fuel as [|k]; [cbn [length] in Hf; lia|]); cbn [utf8_valid_fuel]; cbn [length] in Hf.
  - reflexivity.
  - destruct (b <? 128) eqn:E; [apply IH; lia|lia].
  - destruct (b0 <? 128) eqn:E1; [lia|]. destruct ((194 <=? b0) && (b0 <=? 223)) eqn:E2; [|lia].
    rewrite Hc1, IH by lia. reflexivity.
  - destruct (b0 <? 128) eqn:E1; [lia|]. destruct ((194 <=? b0) && (b0 <=? 223)) eqn:E2; [lia|].
    destruct ((224 <=? b0) && (b0 <=? 239)) eqn:E3; [|lia]. rewrite Hc1, Hc2, IH by lia. cbn [andb].
    destruct (b0 =? 224) eqn:A; [apply N.eqb_eq in A; specialize (Ho A)|]; (destruct (b0 =? 237) eqn:B; [apply N.eqb_eq in B; specialize (Hs B)|]); lia.
  - destruct (b0 <? 128) eqn:E1; [lia|]. destruct ((194 <=? b0) && (b0 <=? 223)) eqn:E2; [lia|].
    destruct ((224 <=? b0) && (b0 <=? 239)) eqn:E3; [lia|]. destruct ((240 <=? b0) && (b0 <=? 244)) eqn:E4; [|lia].
    rewrite Hc1, Hc2, Hc3, IH by lia. cbn [andb].
    destruct (b0 =? 240) eqn:A; [apply N.eqb_eq in A; specialize (Ho A)|]; (destruct (b0 =? 244) eqn:B; [apply N.eqb_eq in B; specialize (Hm B)|]); lia.
Qed.

(* the boolean check of the model decides the structure *)
Theorem utf8_valid_iff s : utf8_valid s = true <-> utf8 s.
Proof.
  unfold utf8_valid. split; [apply utf8_valid_fuel_sound|intros H; apply utf8_valid_fuel_complete; [exact H|lia]].
Qed.

Lemma utf8_app a b : utf8 a -> utf8 b -> utf8 (a ++ b).
Proof. induction 1; intros Hb; cbn [app]; [exact Hb|apply u_1; auto|apply u_2; auto|apply u_3; auto|apply u_4; auto]. Qed.

Lemma utf8_ascii s : Forall (fun b => b < 128) s -> utf8 s.
Proof. induction 1; constructor; assumption. Qed.

(* ---- the printer ---- *)
Lemma hexd_ascii d : d < 16 -> hexd d < 128.
Proof. unfold hexd. destruct (d <? 10); lia. Qed.

Lemma esc_byte_low b : b < 128 -> Forall (fun x => x < 128) (esc_byte b).
Proof.
  intros H. unfold esc_byte.
  repeat match goal with |- context [if ?c then _ else _] => destruct c eqn:?; [repeat constructor; try lia|] end.
  - apply hexd_ascii. lia.
  - apply hexd_ascii. lia.
  - repeat constructor. exact H.
Qed.
Lemma esc_byte_high b : 128 <= b -> esc_byte b = [b].
Proof.
  intros H. unfold esc_byte.
  repeat match goal with |- context [if ?c then _ else _] => destruct c eqn:?; [lia|] end. reflexivity.
Qed.

Lemma utf8_escaped s : utf8 s -> utf8 (flat_map esc_byte s).
Proof.
  induction 1 as [|b t Hb _ IH|b0 b1 t Hb Hc1 _ IH|b0 b1 b2 t Hb Hc1 Hc2 Ho Hs _ IH|b0 b1 b2 b3 t Hb Hc1 Hc2 Hc3 Ho Hm _ IH];
    cbn [flat_map].
  - constructor.
  - apply utf8_app; [apply utf8_ascii, esc_byte_low; exact Hb|exact IH].
  - pose proof (range_b _ _ _ Hc1). rewrite (esc_byte_high b0), (esc_byte_high b1) by lia. cbn [app]. apply u_2; assumption.
  - pose proof (range_b _ _ _ Hc1). pose proof (range_b _ _ _ Hc2).
    rewrite (esc_byte_high b0), (esc_byte_high b1), (esc_byte_high b2) by lia. cbn [app]. apply u_3; assumption.
  - pose proof (range_b _ _ _ Hc1). pose proof (range_b _ _ _ Hc2). pose proof (range_b _ _ _ Hc3).
    rewrite (esc_byte_high b0), (esc_byte_high b1), (esc_byte_high b2), (esc_byte_high b3) by lia. cbn [app]. apply u_4; assumption.
Qed.

Lemma utf8_print_str s : utf8 s -> utf8 (print_str s).
Proof.
  intros H. unfold print_str. apply (u_1 34); [lia|]. apply utf8_app; [apply utf8_escaped; exact H|apply utf8_ascii; repeat constructor; lia].
Qed.

Lemma print_num_ascii n : Forall (fun b => b < 128) (print_num n).
Proof.
  unfold print_num. eapply Forall_impl; [|apply dec_digits]. intros c H. unfold is_digit in H. lia.
Qed.

Lemma json_utf8_arr l : json_utf8 (JArr l) <-> Forall json_utf8 l.
Proof.
  cbn [json_utf8]. induction l as [|x l IH]; [split; constructor|].
  split; [intros [H1 H2]; constructor; [exact H1|apply IH; exact H2]|intros H; inversion H; subst; split; [assumption|apply IH; assumption]].
Qed.
Lemma json_utf8_obj l : json_utf8 (JObj l) <-> Forall (fun kv => utf8 (fst kv) /\ json_utf8 (snd kv)) l.
Proof.
  cbn [json_utf8]. induction l as [|[k v] l IH]; [split; constructor|].
  split.
  - intros (H1 & H2 & H3). constructor; [split; assumption|apply IH; exact H3].
  - intros H. inversion H as [|? ? [Hk Hv] Hl]; subst. cbn [fst snd] in *. split; [exact Hk|]. split; [exact Hv|apply IH; exact Hl].
Qed.

Lemma utf8_print_sep {A} (pr : A -> list N) l : Forall (fun x => utf8 (pr x)) l -> utf8 (print_sep pr l).
Proof.
  induction 1 as [|x l Hx Hl IH]; [constructor|]. rewrite print_sep_cons. destruct l; [exact Hx|].
  apply utf8_app; [exact Hx|]. apply (u_1 44); [lia|exact IH].
Qed.

Theorem utf8_print_json j : json_utf8 j -> utf8 (print_json j).
Proof.
  induction j as [|b|n|s|l IH|l IH] using json_ind'; intros H.
  - apply utf8_ascii. repeat constructor; lia.
  - destruct b; apply utf8_ascii; repeat constructor; lia.
  - apply utf8_ascii, print_num_ascii.
  - apply utf8_print_str. exact H.
  - cbn [print_json]. apply (u_1 91); [lia|]. apply utf8_app; [|apply utf8_ascii; repeat constructor; lia].
    apply utf8_print_sep. apply json_utf8_arr in H. rewrite Forall_forall in *. intros x Hx. apply IH; [exact Hx|apply H; exact Hx].
  - cbn [print_json]. apply (u_1 123); [lia|]. apply utf8_app; [|apply utf8_ascii; repeat constructor; lia].
    apply utf8_print_sep. apply json_utf8_obj in H. rewrite Forall_forall in *. intros [k v] Hx.
    destruct (H _ Hx) as [Hk Hv]. cbn [fst snd] in *.
    apply utf8_app; [apply utf8_print_str; exact Hk|]. apply (u_1 58); [lia|]. apply (IH _ Hx). exact Hv.
Qed.

(* the text of a value whose strings are UTF-8 is accepted by the UTF-8 check *)
Theorem print_json_utf8_valid j : json_utf8 j -> utf8_valid (print_json j) = true.
Proof. intros H. apply utf8_valid_iff, utf8_print_json. exact H. Qed.
