(* src/util/align.rs: the impl_align_to! macro expanded for u32 and for usize (64 bits), regenerated into gen/Leaf.v,
   equals Model/Machine.v align_to / aligned_to whenever the debug assertion of the source holds (align is a power
   of two) - the precondition under which every model uses them (C05, C01, C02). *)
From PV.Model Require Import Machine.
From PV.gen Require Import Leaf.
From PV.Proofs Require Import BaseProofs LeafBase.
Ltac Zify.zify_post_hook ::= Z.div_mod_to_equations.
(* the source may change under these proofs: a step that does not finish fails instead of hanging the build *)
Set Default Timeout 120.

(* the generated panic predicate: debug_assert!(align.is_power_of_two()) and the subtraction align - 1 *)
Lemma align_ok_spec a : is_pow2 a && (1 <=? a) = true <-> exists k, a = 2 ^ k.
Proof.
  split.
  - intros H. apply andb_prop in H. apply is_pow2_spec. apply H.
  - intros [k ->]. apply andb_true_intro. split; [apply is_pow2_spec; eauto|].
    apply N.leb_le. assert (2 ^ k <> 0) by (apply N.pow_nonzero; discriminate). lia.
Qed.

Lemma align_to_gen w x k : k < w -> x < 2 ^ w ->
  N.land ((x + (2 ^ k - 1)) mod 2 ^ w) (N.lnot (2 ^ k - 1) w) = align_to (2 ^ w) (2 ^ k) x.
Proof.
  intros Hk Hx. unfold align_to. apply land_lnot_mask; [|lia].
  apply N.mod_lt. apply N.pow_nonzero. discriminate.
Qed.

Lemma aligned_to_gen x k : (N.land x (2 ^ k - 1) =? 0) = aligned_to (2 ^ k) x.
Proof. unfold aligned_to. rewrite land_mask. reflexivity. Qed.

Lemma align_u32_align_to_agrees : forall x a, L_align_u32_align_to_dom x a = true -> L_align_u32_align_to_ok x a = true ->
  L_align_u32_align_to x a = align_to W32 a x.
Proof.
  intros x a Hd Hok. unfold L_align_u32_align_to_dom in Hd. apply align_ok_spec in Hok. destruct Hok as [k ->].
  assert (Hk : k < 32) by (apply pow2_lt_inv; change (2 ^ 32) with 4294967296; lia).
  unfold L_align_u32_align_to. cbv zeta. change 4294967296 with (2 ^ 32). change W32 with (2 ^ 32).
  apply align_to_gen; [exact Hk | change (2 ^ 32) with 4294967296; lia].
Qed.

Lemma align_u32_aligned_to_agrees : forall x a, L_align_u32_aligned_to_dom x a = true -> L_align_u32_aligned_to_ok x a = true ->
  L_align_u32_aligned_to x a = aligned_to a x.
Proof.
  intros x a _ Hok. apply align_ok_spec in Hok. destruct Hok as [k ->].
  unfold L_align_u32_aligned_to. cbv zeta. apply aligned_to_gen.
Qed.

Lemma align_usize_align_to_agrees : forall x a, L_align_usize_align_to_dom x a = true -> L_align_usize_align_to_ok x a = true ->
  L_align_usize_align_to x a = align_to W64 a x.
Proof.
  intros x a Hd Hok. unfold L_align_usize_align_to_dom in Hd. apply align_ok_spec in Hok. destruct Hok as [k ->].
  assert (Hk : k < 64) by (apply pow2_lt_inv; change (2 ^ 64) with 18446744073709551616; lia).
  unfold L_align_usize_align_to. cbv zeta. change 18446744073709551616 with (2 ^ 64). change W64 with (2 ^ 64).
  apply align_to_gen; [exact Hk | change (2 ^ 64) with 18446744073709551616; lia].
Qed.

Lemma align_usize_aligned_to_agrees : forall x a, L_align_usize_aligned_to_dom x a = true -> L_align_usize_aligned_to_ok x a = true ->
  L_align_usize_aligned_to x a = aligned_to a x.
Proof.
  intros x a _ Hok. apply align_ok_spec in Hok. destruct Hok as [k ->].
  unfold L_align_usize_aligned_to. cbv zeta. apply aligned_to_gen.
Qed.

(* the precondition is exactly "align is a power of two" (so it holds at every call site of the models: 2, 4, 8, 16, ...) *)
Lemma align_u32_ok_iff : forall x a, L_align_u32_align_to_ok x a = true <-> exists k, a = 2 ^ k.
Proof. intros x a. apply align_ok_spec. Qed.
Lemma align_usize_ok_iff : forall x a, L_align_usize_align_to_ok x a = true <-> exists k, a = 2 ^ k.
Proof. intros x a. apply align_ok_spec. Qed.

(* outside the precondition the source and the model part ways: 5.align_to(3) is 5 in the source (release build; a
   debug build panics), 6 in the model *)
Lemma align_to_non_pow2_differs :
  L_align_u32_align_to_ok 5 3 = false /\ L_align_u32_align_to 5 3 = 5 /\ align_to W32 3 5 = 6.
Proof. vm_compute. repeat split; reflexivity. Qed.

(* what each binder of the generated definitions stands for in the source (third audit, F2): a function that starts
   reading another field or index changes coq/gen/Leaf.v only in these lists *)
From Coq Require Import List String.
Import ListNotations.
Lemma leaf_reads_align :
  L_align_u32_align_to_args = ["self : u32"%string; "arg1 : u32"%string] /\
  L_align_u32_aligned_to_args = ["self : u32"%string; "arg1 : u32"%string] /\
  L_align_usize_align_to_args = ["self : usize"%string; "arg1 : usize"%string] /\
  L_align_usize_aligned_to_args = ["self : usize"%string; "arg1 : usize"%string].
Proof. repeat split; reflexivity. Qed.
