(* Proofs for C04: the section walk with wrapping arithmetic equals the loop-free spec. *)
From PV.Model Require Import Machine Mapping.
From PV.Spec Require Import MappingSpec.
From PV.Proofs Require Import BaseProofs.
Ltac Zify.zify_post_hook ::= Z.div_mod_to_equations.

Lemma in_virtual_wrap s rva : section_ok s -> rva < W32 ->
  ((s_va s <=? rva) && (rva <? wadd32 (s_va s) (N.max (s_vs s) (s_srd s)))) = in_virtual rva s.
Proof.
  intros [Hva [Hvs [Hprd Hsrd]]] Hr. unfold in_virtual, vext, wadd32.
  set (e := N.max (s_vs s) (s_srd s)). assert (He : e < W32) by (unfold e; lia).
  unfold W32 in *. destruct (s_va s + e <? 4294967296) eqn:E.
  - rewrite N.mod_small by lia. rewrite andb_true_r. reflexivity.
  - rewrite andb_false_r. assert ((s_va s + e) mod 4294967296 = s_va s + e - 4294967296) by lia.
    rewrite H. lia.
Qed.

Lemma in_raw_wrap s fo : section_ok s ->
  ((s_prd s <=? fo) && (fo <? wadd32 (s_prd s) (s_srd s))) = in_raw fo s.
Proof.
  intros [Hva [Hvs [Hprd Hsrd]]]. unfold in_raw, wadd32.
  unfold W32 in *. destruct (s_prd s + s_srd s <? 4294967296) eqn:E.
  - rewrite N.mod_small by lia. rewrite andb_true_r. reflexivity.
  - rewrite andb_false_r. assert ((s_prd s + s_srd s) mod 4294967296 = s_prd s + s_srd s - 4294967296) by lia.
    rewrite H. lia.
Qed.

Theorem rva_to_file_offset_correct soh secs rva : Forall section_ok secs -> rva < W32 ->
  rva_to_file_offset soh secs rva = rva_to_file_offset_spec soh secs rva.
Proof.
  intros Hs Hr. unfold rva_to_file_offset, rva_to_file_offset_spec.
  destruct (rva <? soh); [reflexivity|]. unfold first_v.
  induction Hs as [|s secs Hok _ IH]; cbn [rva_to_file_offset_secs find]; [reflexivity|].
  rewrite (in_virtual_wrap s rva Hok Hr).
  destruct (in_virtual rva s) eqn:E; [|exact IH].
  unfold in_virtual, vext in E. destruct Hok as [Hva [Hvs [Hprd Hsrd]]].
  unfold checked_add. destruct (s_prd s + s_srd s <? W32) eqn:E1; destruct (W32 <=? s_prd s + s_srd s) eqn:E2; try lia; [|reflexivity].
  destruct (rva - s_va s <? s_srd s) eqn:E3; [f_equal; lia|].
  destruct (rva - s_va s <? s_vs s) eqn:E4; [reflexivity|]. lia.
Qed.

Theorem file_offset_to_rva_correct soh secs fo : Forall section_ok secs -> fo < W64 ->
  (fo < soh -> fo < W32) ->
  file_offset_to_rva soh secs fo = file_offset_to_rva_spec soh secs fo.
Proof.
  intros Hs Hf Hsoh. unfold file_offset_to_rva, file_offset_to_rva_spec.
  destruct (fo <? soh) eqn:E0; [rewrite N.mod_small by (apply Hsoh; lia); reflexivity|]. unfold first_r.
  clear Hsoh E0. induction Hs as [|s secs Hok _ IH]; cbn [file_offset_to_rva_secs find]; [reflexivity|].
  rewrite (in_raw_wrap s fo Hok).
  destruct (in_raw fo s) eqn:E; [|exact IH].
  unfold in_raw in E. destruct Hok as [Hva [Hvs [Hprd Hsrd]]].
  assert (Hfo : fo mod W32 = fo) by (apply N.mod_small; lia). rewrite Hfo.
  unfold checked_add. destruct (s_va s + s_vs s <? W32) eqn:E1; destruct (W32 <=? s_va s + s_vs s) eqn:E2; try lia; [|reflexivity].
  destruct (fo - s_prd s <? s_vs s) eqn:E3; [f_equal; lia|].
  destruct (fo - s_prd s <? s_srd s) eqn:E4; [reflexivity|]. lia.
Qed.

Lemma range_file_correct len secs rva min_size : Forall section_ok secs -> rva < W32 ->
  range_file len secs rva min_size =
  match first_v secs rva with
  | None => Err EBounds
  | Some s =>
    if (W32 <=? s_prd s + s_srd s) || (len <? s_prd s + s_srd s) then Err EInvalid
    else
      let so := rva - s_va s in
      if (so <=? s_srd s) && (min_size <=? s_srd s - so) then Ok {| r_off := s_prd s + so; r_len := s_srd s - so |}
      else Err (if s_va s + vext s - rva <? min_size then EBounds else EZeroFill)
  end.
Proof.
  intros Hs Hr. unfold first_v.
  induction Hs as [|s secs Hok _ IH]; cbn [range_file find]; [reflexivity|].
  rewrite (in_virtual_wrap s rva Hok Hr).
  destruct (in_virtual rva s) eqn:E; [|exact IH].
  unfold in_virtual in E. destruct Hok as [Hva [Hvs [Hprd Hsrd]]].
  assert (Hvend : wadd32 (s_va s) (N.max (s_vs s) (s_srd s)) = s_va s + vext s).
  { unfold wadd32, vext in *. apply N.mod_small. lia. }
  rewrite Hvend. unfold get_range, wadd32.
  destruct (W32 <=? s_prd s + s_srd s) eqn:E1; cbn [orb].
  - (* raw range wraps: start > end *)
    assert (H : (s_prd s + s_srd s) mod W32 = s_prd s + s_srd s - W32) by (unfold W32 in *; lia).
    rewrite H. destruct (s_prd s <=? s_prd s + s_srd s - W32) eqn:E2; [unfold W32 in *; lia|]. reflexivity.
  - rewrite N.mod_small by lia.
    destruct (s_prd s <=? s_prd s + s_srd s) eqn:E2; [|lia]. cbn [andb].
    destruct (len <? s_prd s + s_srd s) eqn:E3; destruct (s_prd s + s_srd s <=? len) eqn:E4; try lia; [reflexivity|].
    cbn [r_len r_off]. unfold get_from. replace (s_prd s + s_srd s - s_prd s) with (s_srd s) by lia.
    cbv zeta. destruct (rva - s_va s <=? s_srd s) eqn:E5; cbn [andb r_len r_off]; [|reflexivity].
    destruct (min_size <=? s_srd s - (rva - s_va s)) eqn:E6; reflexivity.
Qed.

Theorem slice_file_correct base len secs rva min_size align :
  Forall section_ok secs -> rva < W32 ->
  slice_file base len secs rva min_size align = slice_file_spec base len secs rva min_size align.
Proof.
  intros Hs Hr. unfold slice_file, slice_file_spec, aligned_to, wadd64.
  destruct (rva =? 0); [reflexivity|].
  destruct (negb (((base + rva) mod W64) mod align =? 0)); [reflexivity|].
  rewrite (range_file_correct len secs rva min_size Hs Hr).
  destruct (first_v secs rva) as [s|]; [|reflexivity].
  destruct ((W32 <=? s_prd s + s_srd s) || (len <? s_prd s + s_srd s)); [reflexivity|].
  cbv zeta. destruct ((rva - s_va s <=? s_srd s) && (min_size <=? s_srd s - (rva - s_va s))); [|reflexivity].
  cbn [bind r_off]. rewrite N.add_assoc.
  destruct ((base + s_prd s + (rva - s_va s)) mod align =? 0); reflexivity.
Qed.

(* The words of the property, as consequences. *)
Corollary slice_file_ok_inv base len secs rva min_size align r :
  Forall section_ok secs -> rva < W32 ->
  slice_file base len secs rva min_size align = Ok r ->
  exists s, first_v secs rva = Some s /\
    r_off r = s_prd s + (rva - s_va s) /\ r_off r + r_len r = s_prd s + s_srd s /\
    s_prd s + s_srd s <= len /\ min_size <= r_len r /\ (base + r_off r) mod align = 0 /\ rva <> 0.
Proof.
  intros Hs Hr H. rewrite slice_file_correct in H by assumption. unfold slice_file_spec in H.
  destruct (rva =? 0) eqn:E0; [discriminate|].
  destruct (negb (((base + rva) mod W64) mod align =? 0)); [discriminate|].
  destruct (first_v secs rva) as [s|]; [|discriminate]. exists s. split; [reflexivity|].
  destruct ((W32 <=? s_prd s + s_srd s) || (len <? s_prd s + s_srd s)) eqn:E1; [discriminate|].
  cbv zeta in H. destruct ((rva - s_va s <=? s_srd s) && (min_size <=? s_srd s - (rva - s_va s))) eqn:E2; [|discriminate].
  destruct ((base + s_prd s + (rva - s_va s)) mod align =? 0) eqn:E3; [|discriminate].
  injection H as <-. cbn [r_off r_len]. apply N.eqb_eq in E3. rewrite N.add_assoc.
  repeat split; try exact E3; lia.
Qed.

Corollary slice_never_exceeds_raw base len secs rva min_size align s :
  Forall section_ok secs -> rva < W32 -> first_v secs rva = Some s ->
  s_srd s - (rva - s_va s) < min_size ->
  forall r, slice_file base len secs rva min_size align <> Ok r.
Proof.
  intros Hs Hr Hf Hm r H. destruct (slice_file_ok_inv _ _ _ _ _ _ _ Hs Hr H) as [s' [Hf' [H1 [H2 [H3 [H4 _]]]]]].
  rewrite Hf in Hf'. injection Hf' as <-. lia.
Qed.

(* inversion on stored, mapped, unaliased bytes *)
Theorem offset_rva_inverse soh secs rva fo : Forall section_ok secs -> rva < W32 ->
  rva_to_file_offset soh secs rva = Ok fo -> unaliased soh secs rva fo = true ->
  file_offset_to_rva soh secs fo = Ok rva.
Proof.
  intros Hs Hr H Hu.
  rewrite rva_to_file_offset_correct in H by assumption. unfold rva_to_file_offset_spec in H.
  unfold unaliased in Hu. rewrite !andb_true_iff in Hu. destruct Hu as [[Hu1 Hu2] Hu3].
  destruct (rva <? soh) eqn:E0; [lia|].
  destruct (first_v secs rva) as [s|] eqn:Ev; [|discriminate].
  destruct (first_r secs fo) as [t|] eqn:Er; [|discriminate].
  rewrite !andb_true_iff in Hu3. destruct Hu3 as [[[[[A B] C] D] E] F].
  destruct (W32 <=? s_prd s + s_srd s) eqn:E1; [discriminate|].
  destruct (rva - s_va s <? s_srd s) eqn:E2; [|discriminate]. injection H as <-.
  assert (Hin : in_virtual rva s = true) by (unfold first_v in Ev; apply find_some in Ev; tauto).
  unfold in_virtual in Hin.
  rewrite file_offset_to_rva_correct; try assumption.
  - unfold file_offset_to_rva_spec. destruct (s_prd s + (rva - s_va s) <? soh) eqn:E3; [lia|].
    rewrite Er. destruct (W32 <=? s_va t + s_vs t) eqn:E4; [lia|].
    destruct (s_prd s + (rva - s_va s) - s_prd t <? s_vs t) eqn:E5; [f_equal; lia|lia].
  - unfold W32, W64 in *. lia.
  - lia.
Qed.

(* Why the hypothesis is needed: when two RVAs are stored at one file offset no
   function of the offset can return both. *)
Theorem inverse_impossible_when_aliased (f : N -> res N) rva1 rva2 fo :
  rva1 <> rva2 -> ~ (f fo = Ok rva1 /\ f fo = Ok rva2).
Proof. intros Hne [H1 H2]. rewrite H1 in H2. injection H2 as H2. contradiction. Qed.

Theorem get_section_bytes_correct len address size : address < W32 -> size < W32 ->
  get_section_bytes len address size = get_section_bytes_spec len address size.
Proof.
  intros Ha Hs. unfold get_section_bytes, get_section_bytes_spec, get_range, wadd32.
  destruct (address =? 0); [reflexivity|].
  destruct (address + size <? W32) eqn:E.
  - rewrite N.mod_small by lia. destruct (address <=? address + size) eqn:E1; [|lia]. cbn [andb].
    destruct (address + size <=? len); [|reflexivity]. f_equal. f_equal. lia.
  - assert (H : (address + size) mod W32 = address + size - W32) by (unfold W32 in *; lia). rewrite H.
    destruct (address <=? address + size - W32) eqn:E1; [unfold W32 in *; lia|]. reflexivity.
Qed.

(* F3, as the code stood before the repair: a pointer that is misaligned for the
   requested alignment is returned when PointerToRawData is not aligned like the RVA. *)
Lemma slice_file_orig_refuted :
  exists r, slice_file_orig 0 4096 [{| s_va := 4096; s_vs := 512; s_prd := 1026; s_srd := 512 |}] 4096 4 4 = Ok r
            /\ (0 + r_off r) mod 4 <> 0.
Proof. eexists. split; [vm_compute; reflexivity|]. vm_compute. discriminate. Qed.
