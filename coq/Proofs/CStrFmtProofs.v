From PV.Model Require Import Machine CStrFmt.
From PV.Proofs Require Import BaseProofs.
Ltac Zify.zify_post_hook ::= Z.div_mod_to_equations.

Lemma split_f_app : forall p l s r, split_f p l = (s, r) -> l = s ++ r.
Proof.
  induction l as [|b t IH]; cbn [split_f]; intros s r H.
  - inversion H; reflexivity.
  - destruct (p b) eqn:Ep.
    + inversion H; reflexivity.
    + destruct (split_f p t) as [s' r'] eqn:E. inversion H; subst. cbn [app]. f_equal. apply IH. reflexivity.
Qed.

Lemma split_f_head : forall p b t s r, p b = false -> split_f p (b :: t) = (s, r) -> (length r <= length t)%nat /\ (length s <= S (length t))%nat /\ (length s + length r = S (length t))%nat.
Proof.
  intros p b t s r Hp H. pose proof (split_f_app _ _ _ _ H) as Happ.
  cbn [split_f] in H. rewrite Hp in H. destruct (split_f p t) as [s' r'] eqn:E. inversion H; subst.
  apply (f_equal (@length N)) in Happ. rewrite app_length in Happ. cbn [length] in *. lia.
Qed.

Lemma flat_map_esc_hex_length : forall s, length (flat_map esc_hex s) = (4 * length s)%nat.
Proof. induction s as [|b t IH]; [reflexivity|]. cbn [flat_map]. rewrite app_length, IH. cbn [esc_hex length]. lia. Qed.

(* the repaired Debug loop: fuel length+1 suffices, and the output has at most 4 bytes per input byte *)
Lemma debug_loop_ok : forall n bytes fuel, (length bytes <= n)%nat -> (length bytes < fuel)%nat ->
  exists out, debug_loop stop_print stop_esc fuel bytes = Ok out /\ (length out <= 4 * length bytes)%nat.
Proof.
  induction n as [|n IH]; intros bytes fuel Hn Hf.
  - destruct bytes; [|cbn [length] in Hn; lia]. destruct fuel; [cbn [length] in Hf; lia|]. exists []. split; [reflexivity|cbn [length]; lia].
  - destruct fuel as [|k]; [lia|]. destruct bytes as [|b t]; [exists []; split; [reflexivity|cbn [length]; lia]|].
    cbn [length] in Hn, Hf.
    assert (Hsimple : forall pre, length pre = 2%nat ->
      exists out, (r <- debug_loop stop_print stop_esc k t ;; Ok (pre ++ r)) = Ok out /\ (length out <= 4 * length (b :: t))%nat).
    { intros pre Hpre. destruct (IH t k) as [o [Ho Hl]]; [lia|lia|]. rewrite Ho. cbn [bind]. exists (pre ++ o). split; [reflexivity|].
      rewrite app_length. cbn [length]. lia. }
    cbn [debug_loop].
    destruct (b =? 0) eqn:E0; [apply Hsimple; reflexivity|].
    destruct (b =? 10) eqn:E10; [apply Hsimple; reflexivity|].
    destruct (b =? 13) eqn:E13; [apply Hsimple; reflexivity|].
    destruct (b =? 9) eqn:E9; [apply Hsimple; reflexivity|].
    destruct (b =? 34) eqn:E34; [apply Hsimple; reflexivity|].
    destruct (b =? 92) eqn:E92; [apply Hsimple; reflexivity|].
    destruct ((32 <=? b) && (b <=? 126)) eqn:Ep.
    + assert (Hsp : stop_print b = false) by (unfold stop_print; lia).
      destruct (split_f stop_print (b :: t)) as [s tail] eqn:Es.
      destruct (split_f_head _ _ _ _ _ Hsp Es) as [Hr [Hs Hsum]].
      destruct (IH tail k) as [o [Ho Hl]]; [lia|lia|]. rewrite Ho. cbn [bind]. exists (s ++ o). split; [reflexivity|].
      rewrite app_length. cbn [length]. lia.
    + assert (Hse : stop_esc b = false) by (unfold stop_esc; lia).
      destruct (split_f stop_esc (b :: t)) as [s tail] eqn:Es.
      destruct (split_f_head _ _ _ _ _ Hse Es) as [Hr [Hs Hsum]].
      destruct (IH tail k) as [o [Ho Hl]]; [lia|lia|]. rewrite Ho. cbn [bind]. exists (flat_map esc_hex s ++ o). split; [reflexivity|].
      rewrite app_length, flat_map_esc_hex_length. cbn [length]. lia.
Qed.

Theorem cstr_debug_total : forall bytes, exists out, cstr_debug bytes = Ok out /\ (length out <= 4 * length bytes + 2)%nat.
Proof.
  intros bytes. unfold cstr_debug. destruct (debug_loop_ok (length bytes) bytes (S (length bytes))) as [o [Ho Hl]]; [lia|lia|].
  rewrite Ho. cbn [bind]. eexists. split; [reflexivity|]. cbn [app length]. rewrite app_length. cbn [length]. lia.
Qed.

Lemma display_loop_ok : forall n bytes fuel, (length bytes <= n)%nat -> (length bytes < fuel)%nat ->
  exists out, display_loop fuel bytes = Ok out /\ (length out <= 4 * length bytes)%nat.
Proof.
  induction n as [|n IH]; intros bytes fuel Hn Hf.
  - destruct bytes; [|cbn [length] in Hn; lia]. destruct fuel; [cbn [length] in Hf; lia|]. exists []. split; [reflexivity|cbn [length]; lia].
  - destruct fuel as [|k]; [lia|]. destruct bytes as [|b t]; [exists []; split; [reflexivity|cbn [length]; lia]|].
    cbn [length] in Hn, Hf. cbn [display_loop].
    destruct (b <? 128) eqn:Eb.
    + destruct (split_f (fun x => 128 <=? x) (b :: t)) as [s tail] eqn:Es.
      assert (Hp : (fun x => 128 <=? x) b = false) by (cbn beta; lia).
      destruct (split_f_head _ _ _ _ _ Hp Es) as [Hr [Hs Hsum]].
      destruct (IH tail k) as [o [Ho Hl]]; [lia|lia|]. rewrite Ho. cbn [bind]. exists (s ++ o). split; [reflexivity|].
      rewrite app_length. cbn [length]. lia.
    + destruct (split_f (fun x => x <? 128) (b :: t)) as [s tail] eqn:Es.
      assert (Hp : (fun x => x <? 128) b = false) by (cbn beta; lia).
      destruct (split_f_head _ _ _ _ _ Hp Es) as [Hr [Hs Hsum]].
      destruct (IH tail k) as [o [Ho Hl]]; [lia|lia|]. rewrite Ho. cbn [bind]. exists (flat_map esc_hex s ++ o). split; [reflexivity|].
      rewrite app_length, flat_map_esc_hex_length. cbn [length]. lia.
Qed.

Theorem cstr_display_total : forall bytes, exists out, cstr_display bytes = Ok out /\ (length out <= 4 * length bytes)%nat.
Proof. intros bytes. unfold cstr_display. apply (display_loop_ok (length bytes)); lia. Qed.

(* F15: as the code stood, a DEL byte at the start of an escape run is consumed by neither arm *)
Theorem cstr_debug_orig_refuted : forall fuel, cstr_debug_orig fuel [127] = Fault OutOfFuel.
Proof.
  intros fuel. unfold cstr_debug_orig.
  assert (H : debug_loop stop_print_orig stop_esc_orig fuel [127] = Fault OutOfFuel).
  { assert (Hstep : forall k, debug_loop stop_print_orig stop_esc_orig (S k) [127]
                             = (r <- debug_loop stop_print_orig stop_esc_orig k [127] ;; Ok (flat_map esc_hex [] ++ r))) by (intro; reflexivity).
    induction fuel as [|k IH]; [reflexivity|]. rewrite Hstep, IH. reflexivity. }
  rewrite H. reflexivity.
Qed.
