(* Bit-vector facts shared by the agreement proofs of the generated leaf functions (gen/Leaf.v, regenerated
   from /repo/src by tools/gen_leaf.py).  One proof file per module follows (LeafStrings, LeafRelocs, ...), so that a
   changed leaf function of the source breaks only the property that depends on it; LeafProofs.v collects them. *)
From PV.Model Require Import Machine.
From PV.gen Require Import Leaf.
From PV.Proofs Require Import BaseProofs.
Ltac Zify.zify_post_hook ::= Z.div_mod_to_equations.
(* the source may change under these proofs: a step that does not finish fails instead of hanging the build *)
Set Default Timeout 120.

(* a property of every number below a bound, decided by evaluation: [upto n s] is s, s+1, .., s+n-1 *)
Fixpoint upto (n : nat) (s : N) : list N :=
  match n with O => [] | S k => s :: upto k (N.succ s) end.
Lemma in_upto : forall n s b, s <= b -> b < s + N.of_nat n -> In b (upto n s).
Proof.
  induction n as [|n IH]; intros s b H1 H2.
  - lia.
  - cbn [upto]. destruct (N.eq_dec s b) as [->|Hne]; [left; reflexivity|]. right. apply IH; lia.
Qed.
Lemma sweep (n : N) (P : N -> bool) :
  forallb P (upto (N.to_nat n) 0) = true -> forall b, b < n -> P b = true.
Proof. intros H b Hb. rewrite forallb_forall in H. apply H. apply in_upto; lia. Qed.
Definition bytes256 : list N := upto (N.to_nat 256) 0.
Definition words65536 : list N := upto (N.to_nat 65536) 0.
Lemma sweep256 (P : N -> bool) : forallb P bytes256 = true -> forall b, b < 256 -> P b = true.
Proof. exact (sweep 256 P). Qed.
Lemma sweep65536 (P : N -> bool) : forallb P words65536 = true -> forall b, b < 65536 -> P b = true.
Proof. exact (sweep 65536 P). Qed.

Lemma andb3 a b c : a && b && c = true -> a = true /\ b = true /\ c = true.
Proof. destruct a, b, c; auto. Qed.

(* x & (2^k - 1) and x & 2^k *)
Lemma land_mask a k : N.land a (2 ^ k - 1) = a mod 2 ^ k.
Proof. rewrite <- N.land_ones, N.ones_equiv, N.pred_sub. reflexivity. Qed.

Lemma land_pow2 a k : N.land a (2 ^ k) = if N.testbit a k then 2 ^ k else 0.
Proof.
  apply N.bits_inj. intro m. rewrite N.land_spec, N.pow2_bits_eqb.
  destruct (N.eqb_spec k m) as [->|Hne].
  - destruct (N.testbit a m) eqn:E; [now rewrite N.pow2_bits_true | now rewrite N.bits_0].
  - rewrite andb_false_r. destruct (N.testbit a k); [now rewrite N.pow2_bits_false | now rewrite N.bits_0].
Qed.

(* the top bit of a (k+1)-bit number *)
Lemma testbit_top a k : a < 2 ^ (k + 1) -> N.testbit a k = (2 ^ k <=? a).
Proof.
  intros H. rewrite N.testbit_eqb. rewrite N.pow_add_r in H. change (2 ^ 1) with 2 in H.
  assert (Hp : 0 < 2 ^ k) by (apply N.neq_0_lt_0, N.pow_nonzero; discriminate).
  assert (Hq : a / 2 ^ k < 2) by (apply N.div_lt_upper_bound; lia).
  destruct (N.leb_spec (2 ^ k) a) as [L|L].
  - assert (1 <= a / 2 ^ k) by (apply N.div_le_lower_bound; lia).
    replace (a / 2 ^ k) with 1 by lia. reflexivity.
  - rewrite N.div_small by exact L. reflexivity.
Qed.

Lemma land_topbit_test a k : a < 2 ^ (k + 1) -> (N.land a (2 ^ k) =? 0) = (a <? 2 ^ k).
Proof.
  intros H. rewrite land_pow2, (testbit_top _ _ H).
  assert (Hp : 2 ^ k <> 0) by (apply N.pow_nonzero; discriminate).
  destruct (N.leb_spec (2 ^ k) a); destruct (N.ltb_spec a (2 ^ k)); lia.
Qed.

Lemma testbit_above a w m : a < 2 ^ w -> w <= m -> N.testbit a m = false.
Proof. intros Ha Hm. rewrite <- (N.mod_small a (2 ^ w)) by exact Ha. apply N.mod_pow2_bits_high. exact Hm. Qed.

(* y & !(2^k - 1) in a w-bit type: the low k bits are cleared *)
Lemma land_lnot_ones y k w : y < 2 ^ w -> k <= w -> N.land y (N.lnot (N.ones k) w) = (y / 2 ^ k) * 2 ^ k.
Proof.
  intros Hy Hk. rewrite <- N.shiftr_div_pow2, <- N.shiftl_mul_pow2.
  apply N.bits_inj. intro m. rewrite N.land_spec.
  destruct (N.ltb_spec m k) as [Hlt|Hge].
  - rewrite N.shiftl_spec_low by exact Hlt.
    rewrite N.lnot_spec_low by lia. rewrite N.ones_spec_low by exact Hlt. apply andb_false_r.
  - rewrite N.shiftl_spec_high by lia. rewrite N.shiftr_spec'. replace (m - k + k) with m by lia.
    destruct (N.ltb_spec m w) as [Hw|Hw].
    + rewrite N.lnot_spec_low by exact Hw. rewrite N.ones_spec_high by exact Hge. apply andb_true_r.
    + rewrite (testbit_above y w m Hy Hw). reflexivity.
Qed.

Lemma land_lnot_mask y k w : y < 2 ^ w -> k <= w -> N.land y (N.lnot (2 ^ k - 1) w) = (y / 2 ^ k) * 2 ^ k.
Proof. intros. rewrite <- (land_lnot_ones y k w) by assumption. rewrite N.ones_equiv, N.pred_sub. reflexivity. Qed.

(* y & !2^k for the top bit 2^k of a (k+1)-bit type: the remaining k bits *)
Lemma land_lnot_topbit y k : N.land y (N.lnot (2 ^ k) (k + 1)) = y mod 2 ^ k.
Proof.
  rewrite <- N.land_ones. f_equal.
  apply N.bits_inj. intro m.
  destruct (N.ltb_spec m k) as [Hlt|Hge].
  - rewrite N.lnot_spec_low by lia. rewrite N.pow2_bits_false by lia. rewrite N.ones_spec_low by exact Hlt. reflexivity.
  - rewrite N.ones_spec_high by exact Hge.
    destruct (N.eqb_spec m k) as [->|Hne].
    + rewrite N.lnot_spec_low by lia. rewrite N.pow2_bits_true. reflexivity.
    + rewrite N.lnot_spec_high by lia. apply N.pow2_bits_false. lia.
Qed.

(* Rust's is_power_of_two *)
Lemma is_pow2_spec a : is_pow2 a = true <-> exists k, a = 2 ^ k.
Proof.
  unfold is_pow2. split.
  - intros H. apply N.eqb_eq in H. eexists. exact H.
  - intros [k ->]. apply N.eqb_eq. rewrite N.log2_pow2 by lia. reflexivity.
Qed.

Lemma pow2_lt_inv k w : 2 ^ k < 2 ^ w -> k < w.
Proof. intros H. apply N.pow_lt_mono_r_iff in H; [exact H | lia]. Qed.

(* rotate_left on a w-bit value: the bitwise definition of gen/Leaf.v equals the arithmetic one of Model/Rich.v *)
Lemma rotl_arith w v n : 0 < w -> v < 2 ^ w ->
  rotl w v n = (v * 2 ^ (n mod w)) mod 2 ^ w + v / 2 ^ (w - n mod w).
Proof.
  intros Hw Hv. unfold rotl. set (k := n mod w).
  assert (Hk : k < w) by (apply N.mod_lt; lia).
  rewrite N.shiftl_mul_pow2, N.shiftr_div_pow2.
  assert (E : 2 ^ w = 2 ^ (w - k) * 2 ^ k) by (rewrite <- N.pow_add_r; f_equal; lia).
  assert (P1 : 2 ^ (w - k) <> 0) by (apply N.pow_nonzero; discriminate).
  assert (P2 : 2 ^ k <> 0) by (apply N.pow_nonzero; discriminate).
  rewrite E at 1 2. rewrite N.mul_mod_distr_r by assumption.
  rewrite N.lor_comm. rewrite lor_disjoint_add.
  - apply N.add_comm.
  - apply N.div_lt_upper_bound; [exact P1|]. rewrite <- E. exact Hv.
Qed.
